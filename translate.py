#!/usr/bin/env python3
"""Translator for the word-level kernel of bva: `impl Integer for uN { mask, cadd, csub, wmul }` in /repo/src/utils.rs
is translated, on every run, into Lean definitions over `BitVec` (lean/BvaGen/Words.lean) and — for the search for a failing
input when a generated definition is no longer provably equal to the model's — into SMT-LIB terms.

The accepted Rust subset is what these 24 bodies use: `let [mut] x = e;`, `let (a, b) = e;`, `*self = e;`, a trailing
expression, `if c { e } else { e }`, binary `+ - * / << >> & | <`, `as` casts, `Self::{BITS,ONE,MAX,ZERO}`, integer literals with
or without a type suffix, tuples, and the methods `overflowing_add/sub`, `wrapping_add/sub/mul`, and `x.cadd(a, b)` on a `let mut`
local. Anything else raises `Untranslatable` (the caller then falls back to the behavioural tie alone and says so).

Typing: `Self`/`uN` values are `BitVec N` (`usize` = 64 bits); values of the *amount* type (`usize` parameters such as `length`,
`Self::BITS`, unsuffixed literals in shift / comparison position) are `Nat`. Rust's overflow-checked `+ - *` on words are
translated as the wrapping `BitVec` operations; that they cannot overflow where the code uses them is a separate theorem
(`C01_no_word_overflow`, `C01_mul_no_word_overflow`).

usage: translate.py [--src /repo/src/utils.rs] [--out lean/BvaGen/Words.lean] [--smt DIR]
"""
import re, sys, os, json

WIDTH = {"u8": 8, "u16": 16, "u32": 32, "u64": 64, "u128": 128, "usize": 64}
FUNCS = ["mask", "cadd", "csub", "wmul"]


class Untranslatable(Exception):
    pass


TOK = re.compile(r"\s*(//[^\n]*|\d+(?:u8|u16|u32|u64|u128|usize)?|[A-Za-z_][A-Za-z_0-9]*|::|->|<<|>>|==|!=|<=|>=|&&|\|\||[-+*/&|!<>=(){},;:.\[\]])")


def tokenize(s):
    out, i = [], 0
    while i < len(s):
        m = TOK.match(s, i)
        if not m:
            if s[i:].strip() == "":
                break
            raise Untranslatable(f"cannot tokenize at {s[i:i+30]!r}")
        i = m.end()
        t = m.group(1)
        if not t.startswith("//"):
            out.append(t)
    return out


def find_impl(src, ty):
    m = re.search(r"impl Integer for %s \{" % ty, src)
    if not m:
        raise Untranslatable(f"impl Integer for {ty} not found")
    i = m.end()
    depth, j = 1, i
    while depth:
        c = src[j]
        depth += (c == "{") - (c == "}")
        j += 1
    return src[i:j - 1]


def find_fn(body, name):
    m = re.search(r"fn %s\s*\(([^)]*)\)\s*(?:->\s*([^{]+))?\{" % name, body)
    if not m:
        raise Untranslatable(f"fn {name} not found")
    i = m.end()
    depth, j = 1, i
    while depth:
        c = body[j]
        depth += (c == "{") - (c == "}")
        j += 1
    return m.group(1).strip(), (m.group(2) or "").strip(), body[i:j - 1]


# ---- parser: tokens -> AST (tuples) -------------------------------------------------------------------------------------
class P:
    def __init__(self, toks):
        self.t, self.i = toks, 0

    def peek(self, k=0):
        return self.t[self.i + k] if self.i + k < len(self.t) else None

    def eat(self, x=None):
        t = self.peek()
        if t is None or (x is not None and t != x):
            raise Untranslatable(f"expected {x!r}, found {t!r}")
        self.i += 1
        return t

    def block(self):
        """statements up to end of tokens or a closing brace; returns (stmts, tail_expr)"""
        stmts = []
        while True:
            t = self.peek()
            if t is None or t == "}":
                raise Untranslatable("block without a value")
            if t == "let":
                self.eat()
                mut = False
                if self.peek() == "mut":
                    self.eat(); mut = True
                if self.peek() == "(":
                    self.eat()
                    names = [self.eat()]
                    while self.peek() == ",":
                        self.eat(); names.append(self.eat())
                    self.eat(")")
                    pat = ("tuple", names)
                else:
                    pat = ("var", self.eat(), mut)
                self.eat("=")
                e = self.expr()
                self.eat(";")
                stmts.append(("let", pat, e))
                continue
            if t == "*" and self.peek(1) == "self" and self.peek(2) == "=":
                self.eat(); self.eat(); self.eat()
                e = self.expr()
                self.eat(";")
                stmts.append(("setself", e))
                continue
            e = self.expr()
            if self.peek() == ";":
                raise Untranslatable("expression statement")
            return stmts, e

    PREC = {"||": 1, "&&": 2, "<": 3, "<=": 3, ">": 3, ">=": 3, "==": 3, "!=": 3, "|": 4, "^": 5, "&": 6, "<<": 7, ">>": 7, "+": 8, "-": 8, "*": 9, "/": 9, "%": 9}

    def expr(self, minp=0):
        lhs = self.unary()
        while True:
            t = self.peek()
            if t == "as":
                self.eat()
                ty = self.eat()
                lhs = ("cast", lhs, ty)
                continue
            if t in self.PREC and self.PREC[t] >= minp and t not in ("||", "&&"):
                self.eat()
                rhs = self.expr(self.PREC[t] + 1)
                lhs = ("bin", t, lhs, rhs)
                continue
            return lhs

    def unary(self):
        t = self.peek()
        if t == "*" or t == "&":          # deref / borrow of a word: no meaning at this level
            self.eat()
            return self.unary()
        if t == "!":
            self.eat()
            return ("not", self.unary())
        return self.postfix(self.atom())

    def postfix(self, e):
        while self.peek() == ".":
            self.eat()
            name = self.eat()
            self.eat("(")
            args = []
            if self.peek() != ")":
                args.append(self.expr())
                while self.peek() == ",":
                    self.eat()
                    if self.peek() == ")":
                        break
                    args.append(self.expr())
            self.eat(")")
            e = ("call", name, e, args)
        return e

    def atom(self):
        t = self.eat()
        if t == "(":
            e = self.expr()
            if self.peek() == ",":
                items = [e]
                while self.peek() == ",":
                    self.eat()
                    if self.peek() == ")":
                        break
                    items.append(self.expr())
                self.eat(")")
                return ("tup", items)
            self.eat(")")
            return ("paren", e)
        if t == "if":
            c = self.expr()
            self.eat("{")
            s1, e1 = self.block()
            self.eat("}")
            self.eat("else")
            self.eat("{")
            s2, e2 = self.block()
            self.eat("}")
            if s1 or s2:
                raise Untranslatable("statements inside if")
            return ("if", c, e1, e2)
        m = re.fullmatch(r"(\d+)(u8|u16|u32|u64|u128|usize)?", t)
        if m:
            return ("lit", int(m.group(1)), m.group(2))
        if t == "Self" and self.peek() == "::":
            self.eat()
            return ("const", self.eat())
        if re.fullmatch(r"[A-Za-z_][A-Za-z_0-9]*", t):
            return ("var", t)
        raise Untranslatable(f"unexpected token {t!r}")


# ---- typed emission --------------------------------------------------------------------------------------------------
class Emit:
    """ty: ('bv', n) | 'nat' | 'bool' | ('tup', [..]);  returns (lean, smt, ty). SMT is None when not expressible."""

    def __init__(self, w, tyname):
        self.w, self.tyname = w, tyname
        self.env = {}          # rust name -> (lean name, ty)
        self.fresh = {}

    def lit(self, v, ty):
        if ty == "nat":
            return str(v), None, "nat"
        n = ty[1]
        return f"{v}#{n}", f"(_ bv{v} {n})", ty

    def coerce_lit(self, e, want):
        if e[0] == "lit" and e[2] is None:
            return self.lit(e[1], want)
        if e[0] == "paren":
            return self.coerce_lit(e[1], want)
        return None

    def ex(self, e, want=None):
        k = e[0]
        if k == "paren":
            l, s, t = self.ex(e[1], want)
            return f"({l})", s, t
        if k == "lit":
            if e[2]:
                return self.lit(e[1], "nat" if e[2] == "usize" else ("bv", WIDTH[e[2]]))
            return self.lit(e[1], want or "nat")
        if k == "const":
            c = e[1]
            if c == "BITS":
                return str(self.w), None, "nat"
            bv = ("bv", self.w)
            if c == "ONE":
                return self.lit(1, bv)
            if c == "ZERO":
                return self.lit(0, bv)
            if c == "MAX":
                return f"BitVec.allOnes {self.w}", f"(bvnot (_ bv0 {self.w}))", bv
            raise Untranslatable(f"Self::{c}")
        if k == "var":
            if e[1] not in self.env:
                raise Untranslatable(f"unknown variable {e[1]}")
            n, t = self.env[e[1]]
            return n, n, t
        if k == "cast":
            l, s, t = self.ex(e[1])
            target = e[2]
            if target == "usize" and self.tyname != "usize" or (target == "usize" and t == "nat"):
                if t == "nat":
                    return l, s, "nat"
                if t == "bool":
                    raise Untranslatable("bool as usize")
                return f"({l}).toNat", None, "nat"
            n = self.w if target == "Self" else WIDTH.get(target)
            if n is None:
                raise Untranslatable(f"cast to {target}")
            if t == "bool":
                return f"(b2w {n} {l})", f"(ite {s} (_ bv1 {n}) (_ bv0 {n}))", ("bv", n)
            if t == "nat":
                return f"(BitVec.ofNat {n} {l})", None, ("bv", n)
            m = t[1]
            if n == m:
                return f"({l}).setWidth {n}", s, ("bv", n)
            if n > m:
                return f"({l}).setWidth {n}", f"((_ zero_extend {n - m}) {s})", ("bv", n)
            return f"({l}).setWidth {n}", f"((_ extract {n - 1} 0) {s})", ("bv", n)
        if k == "not":
            l, s, ty = self.ex(e[1], want)
            if ty == "nat" or ty == "bool" or ty[0] != "bv":
                raise Untranslatable("! on a non-word")
            return f"(~~~ {l})", (f"(bvnot {s})" if s else None), ty
        if k == "tup":
            parts = [self.ex(x) for x in e[1]]
            return "(" + ", ".join(p[0] for p in parts) + ")", [p[1] for p in parts], ("tup", [p[2] for p in parts])
        if k == "if":
            c = self.cond(e[1])
            a = self.ex(e[2], want)
            b = self.ex(e[3], a[2])
            if a[2] != b[2]:
                raise Untranslatable("if branches of different type")
            smt = f"(ite {c[1]} {a[1]} {b[1]})" if c[1] and a[1] and b[1] else None
            return f"if {c[0]} then {a[0]} else {b[0]}", smt, a[2]
        if k == "bin" and e[1] in ("<", "<=", ">", ">=", "==", "!="):
            c = self.cond(e)
            return f"(decide ({c[0]}))", c[1], "bool"
        if k == "bin":
            op, a, b = e[1], e[2], e[3]
            if op in ("<<", ">>"):
                la, sa, ta = self.ex(a, want)
                lb, sb, tb = self.ex(b, "nat")
                if tb != "nat" or ta == "nat" or ta == "bool":
                    raise Untranslatable("shift of non-word or by non-amount")
                lop = "<<<" if op == "<<" else ">>>"
                smt = None
                if sa is not None and re.fullmatch(r"[\d\s()*/+-]+", lb):
                    amt = eval(lb.replace("/", "//"))
                    smt = f"({'bvshl' if op == '<<' else 'bvlshr'} {sa} (_ bv{amt} {ta[1]}))"
                return f"({la} {lop} {lb})", smt, ta
            def bare(x):
                while x[0] == "paren":
                    x = x[1]
                return x if (x[0] == "lit" and x[2] is None) else None
            if bare(a) and not bare(b):
                B = self.ex(b, want); A = self.lit(bare(a)[1], B[2])
            elif bare(b) and not bare(a):
                A = self.ex(a, want); B = self.lit(bare(b)[1], A[2])
            elif bare(a) and bare(b):
                A, B = self.lit(bare(a)[1], want or "nat"), self.lit(bare(b)[1], want or "nat")
            else:
                A, B = self.ex(a, want), self.ex(b, want)
            if A[2] != B[2]:
                raise Untranslatable(f"operands of different type in {op}")
            t = A[2]
            if t == "nat":
                if op not in "+-*/%":
                    raise Untranslatable(f"nat op {op}")
                return f"({A[0]} {op} {B[0]})", None, "nat"
            if t == "bool" or t[0] != "bv":
                raise Untranslatable(f"op {op} on {t}")
            lop = {"+": "+", "-": "-", "*": "*", "&": "&&&", "|": "|||", "^": "^^^", "/": "/", "%": "%"}.get(op)
            sop = {"+": "bvadd", "-": "bvsub", "*": "bvmul", "&": "bvand", "|": "bvor", "^": "bvxor", "/": "bvudiv", "%": "bvurem"}.get(op)
            if lop is None:
                raise Untranslatable(f"word op {op}")
            smt = f"({sop} {A[1]} {B[1]})" if A[1] and B[1] else None
            return f"({A[0]} {lop} {B[0]})", smt, t
        if k == "call":
            name, recv, args = e[1], e[2], e[3]
            R = self.ex(recv)
            if name in ("overflowing_add", "overflowing_sub") and len(args) == 1:
                X = self.ex(args[0], R[2])
                n = R[2][1]
                if name == "overflowing_add":
                    smt = [f"(bvadd {R[1]} {X[1]})", f"(bvult (bvadd {R[1]} {X[1]}) {R[1]})"]
                else:
                    smt = [f"(bvsub {R[1]} {X[1]})", f"(bvult {R[1]} {X[1]})"]
                return f"(Rs.{name} {R[0]} {X[0]})", smt, ("tup", [R[2], "bool"])
            if name in ("wrapping_add", "wrapping_sub", "wrapping_mul") and len(args) == 1:
                X = self.ex(args[0], R[2])
                lop = {"wrapping_add": "+", "wrapping_sub": "-", "wrapping_mul": "*"}[name]
                sop = {"wrapping_add": "bvadd", "wrapping_sub": "bvsub", "wrapping_mul": "bvmul"}[name]
                return f"({R[0]} {lop} {X[0]})", (f"({sop} {R[1]} {X[1]})" if R[1] and X[1] else None), R[2]
            raise Untranslatable(f"method {name}")
        raise Untranslatable(f"expression {k}")

    def cond(self, e):
        if e[0] == "paren":
            return self.cond(e[1])
        if e[0] == "bin" and e[1] in ("<", "<=", ">", ">=", "==", "!="):
            op = e[1]
            A = self.ex(e[2], "nat")
            B = self.ex(e[3], A[2])
            if A[2] != B[2]:
                A = self.ex(e[2], B[2])
            if A[2] != B[2] or A[2] == "bool":
                raise Untranslatable("comparison of different types")
            lop = {"<": "<", "<=": "≤", ">": ">", ">=": "≥", "==": "=", "!=": "≠"}[op]
            if A[2] == "nat":
                return f"{A[0]} {lop} {B[0]}", None
            smt = {"<": f"(bvult {A[1]} {B[1]})", "<=": f"(bvule {A[1]} {B[1]})", ">": f"(bvugt {A[1]} {B[1]})", ">=": f"(bvuge {A[1]} {B[1]})",
                   "==": f"(= {A[1]} {B[1]})", "!=": f"(distinct {A[1]} {B[1]})"}[op] if A[1] and B[1] else None
            if op in ("==", "!="):
                return f"{A[0]} {lop} {B[0]}", smt
            return f"({A[0]}).toNat {lop} ({B[0]}).toNat", smt
        if e[0] == "var" and e[1] in self.env and self.env[e[1]][1] == "bool":
            n = self.env[e[1]][0]
            return f"{n} = true", n
        raise Untranslatable("condition")

    def name(self, base):
        k = self.fresh.get(base, 0)
        self.fresh[base] = k + 1
        return base if k == 0 else f"{base}_{k}"


def translate_fn(tyname, fname, params, ret, body, cadd_name):
    w = WIDTH[tyname]
    em = Emit(w, tyname)
    lean_params, smt_params = [], []
    mut_self = False
    for p in [x.strip() for x in params.split(",") if x.strip()]:
        if p in ("&mut self", "&self", "self"):
            mut_self = p == "&mut self"
            em.env["self"] = (em.name("self_"), ("bv", w))
            lean_params.append(("self_", ("bv", w)))
        else:
            n, t = [x.strip() for x in p.split(":")]
            ty = "nat" if t == "usize" and fname == "mask" else ("bv", w if t == "Self" else WIDTH[t])
            em.env[n] = (em.name(n), ty)
            lean_params.append((n, ty))
    toks = tokenize(body)
    stmts, tail = P(toks).block()
    lines, smt_lets = [], []
    for st in stmts:
        if st[0] == "let":
            pat, e = st[1], st[2]
            # `let c = x.cadd(a, b);` on a mutable local: the callee returns (new x, carry)
            if e[0] == "call" and e[1] == "cadd" and e[2][0] == "var" and len(e[3]) == 2 and pat[0] == "var":
                x = e[2][1]
                xn, xt = em.env[x]
                A, B = em.ex(e[3][0], xt), em.ex(e[3][1], xt)
                nx, nc = em.name(x), em.name(pat[1])
                lines.append(f"  let ({nx}, {nc}) := {cadd_name} {xn} {A[0]} {B[0]}")
                if xn is not None:
                    smt_lets.append((nx, f"(bvadd (bvadd {xn} {A[1]}) {B[1]})"))
                    c1 = f"(ite (bvult (bvadd {xn} {A[1]}) {xn}) (_ bv1 {w}) (_ bv0 {w}))"
                    c2 = f"(ite (bvult (bvadd (bvadd {xn} {A[1]}) {B[1]}) (bvadd {xn} {A[1]})) (_ bv1 {w}) (_ bv0 {w}))"
                    smt_lets.append((nc, f"(bvadd {c1} {c2})"))
                em.env[x] = (nx, xt)
                em.env[pat[1]] = (nc, xt)
                continue
            L, S, T = em.ex(e)
            if pat[0] == "tuple":
                if T[0] != "tup" or len(T[1]) != len(pat[1]):
                    raise Untranslatable("tuple pattern")
                names = [em.name(n) for n in pat[1]]
                lines.append(f"  let ({', '.join(names)}) := {L}")
                for n0, n1, t1, s1 in zip(pat[1], names, T[1], S):
                    em.env[n0] = (n1, t1)
                    smt_lets.append((n1, s1))
            else:
                n1 = em.name(pat[1])
                lines.append(f"  let {n1} := {L}")
                em.env[pat[1]] = (n1, T)
                smt_lets.append((n1, S))
        elif st[0] == "setself":
            L, S, T = em.ex(st[1], ("bv", w))
            n1 = em.name("self_")
            lines.append(f"  let {n1} := {L}")
            em.env["self"] = (n1, T)
            smt_lets.append((n1, S))
    L, S, T = em.ex(tail, ("bv", w))
    if mut_self:
        sn = em.env["self"][0]
        result, rty = f"({sn}, {L})", ("tup", [("bv", w), T])
        S = [sn, S]
    else:
        result, rty = L, T

    def lty(t):
        if t == "nat": return "Nat"
        if t == "bool": return "Bool"
        if t[0] == "bv": return f"BitVec {t[1]}"
        return " × ".join(lty(x) for x in t[1])
    sig = " ".join(f"({n} : {lty(t)})" for n, t in lean_params)
    lean = f"def {tyname}_{fname} {sig} : {lty(rty)} :=\n" + "\n".join(lines) + ("\n" if lines else "") + f"  {result}\n"
    smt = None
    if all(t != "nat" for _, t in lean_params) and all(s is not None for _, s in smt_lets) and S is not None and (not isinstance(S, list) or all(x is not None for x in S)):
        smt = {"params": [(n, t[1]) for n, t in lean_params], "lets": smt_lets, "result": S if isinstance(S, list) else [S]}
    return lean, smt


def translate(src_path):
    src = open(src_path).read()
    out = ["import BvaModel.Word",
           "/-! GENERATED by /verif/translate.py from /repo/src/utils.rs (`impl Integer for uN`) — do not edit. -/",
           "namespace Bva", "namespace Rs",
           "/-- `uN::overflowing_add` -/", "@[reducible] def overflowing_add {w : Nat} (x y : BitVec w) : BitVec w × Bool := (x + y, BitVec.carry w x y false)",
           "/-- `uN::overflowing_sub` -/", "@[reducible] def overflowing_sub {w : Nat} (x y : BitVec w) : BitVec w × Bool := (x - y, decide (x.toNat < y.toNat))",
           "end Rs", "namespace Gen", ""]
    smts, errors = {}, {}
    for ty in WIDTH:
        try:
            impl = find_impl(src, ty)
        except Untranslatable as ex:
            errors[ty] = str(ex)
            continue
        for fn in FUNCS:
            try:
                params, ret, body = find_fn(impl, fn)
                lean, smt = translate_fn(ty, fn, params, ret, body, f"{ty}_cadd")
                out.append(lean)
                smts[f"{ty}_{fn}"] = smt
            except Untranslatable as ex:
                errors[f"{ty}_{fn}"] = str(ex)
    out += ["end Gen", "end Bva", ""]
    return "\n".join(out), smts, errors


def main():
    a = sys.argv[1:]
    src = a[a.index("--src") + 1] if "--src" in a else "/repo/src/utils.rs"
    root = os.path.dirname(os.path.abspath(__file__))
    outp = a[a.index("--out") + 1] if "--out" in a else os.path.join(root, "lean/BvaGen/Words.lean")
    text, smts, errors = translate(src)
    os.makedirs(os.path.dirname(outp), exist_ok=True)
    old = open(outp).read() if os.path.exists(outp) else None
    if old != text:
        open(outp, "w").write(text)
    if "--smt" in a:
        json.dump(smts, open(a[a.index("--smt") + 1], "w"), indent=1)
    print(json.dumps({"changed": old != text, "errors": errors, "functions": len(smts)}))
    sys.exit(1 if errors else 0)


if __name__ == "__main__":
    main()
