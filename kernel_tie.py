#!/usr/bin/env python3
"""The tie by translation for the word-level kernel (used by check.py for C01; see DESIGN.md section 2.4).

run(work_dir) -> dict with
  status  : "proved"        generated definitions are kernel-checked equal to the model's (BvaProofs/GenWords.lean builds)
            "smt-equal"     some definition changed so that the Lean equalities no longer check, but z3 proves every changed
                            definition equal (as a function on words) to the one the model was proved against
            "counterexample" z3 found words on which a changed definition differs; `lines` are API-level cases built from them
            "broken"        the translator rejects the new source, or z3 gives no answer: the tie is not re-established
  changed : names of generated definitions that differ from the baseline
  lines   : harness input lines (without the result part) to execute, when a counterexample exists
  log     : text for the replay file
"""
import json, os, subprocess, sys, re

ROOT = os.path.dirname(os.path.abspath(__file__))
LEAN = os.path.join(ROOT, "lean")
sys.path.insert(0, ROOT)
import translate as T

BASELINE = os.path.join(ROOT, "kernel_baseline.json")   # SMT form of the definitions GenWords.lean was proved against


def smt_fun(prefix, f):
    """nested lets computing the result tuple; returns list of terms (one per result component) as closed-over-params terms"""
    def wrap(body):
        s = body
        for n, t in reversed(f["lets"]):
            s = f"(let (({n} {t})) {s})"
        return s
    return [wrap(r) for r in f["result"]]


def z3_diff(name, new, base, timeout_s=150):
    if new is None or base is None or new["params"] != base["params"]:
        return "unknown", None
    decl = "".join(f"(declare-const {n} (_ BitVec {w}))\n" for n, w in new["params"])
    a, b = smt_fun("n", new), smt_fun("b", base)
    if len(a) != len(b):
        return "unknown", None
    neq = " ".join(f"(distinct {x} {y})" for x, y in zip(a, b))
    # carries are 0 or 1 wherever the crate calls these functions (`cadd_carry_le`): look for API-realisable differences
    # exception: the schoolbook multiplication calls `cadd(product.0, carry)` with a full-word running carry, so for `cadd` the
    # carry is left unconstrained (seeded change C01-n: a carry-out of `(c1 | c2)` instead of `c1 + c2`, equal for carries <= 1)
    pre = "".join(f"(assert (bvule {n} (_ bv1 {w})))\n" for n, w in new["params"] if n == "carry" and not name.endswith("_cadd"))
    q = f"(set-logic QF_BV)\n{decl}{pre}(assert (or {neq}))\n(check-sat)\n(get-model)\n"
    out = ""
    for cmd in (["cvc5", "--produce-models", f"--tlimit={timeout_s * 1000}"], ["z3", "-in", f"-T:{timeout_s}"]):
        try:
            if cmd[0] == "cvc5":
                qf = os.path.join(ROOT, "work", f"kernel_{name}.smt2")
                os.makedirs(os.path.dirname(qf), exist_ok=True)
                open(qf, "w").write(q)
                p = subprocess.run(cmd + [qf], stdout=subprocess.PIPE, stderr=subprocess.STDOUT, text=True, timeout=timeout_s + 30)
            else:
                p = subprocess.run(cmd, input=q, stdout=subprocess.PIPE, stderr=subprocess.STDOUT, text=True, timeout=timeout_s + 30)
        except (subprocess.TimeoutExpired, FileNotFoundError):
            continue
        out = p.stdout
        if out.startswith("unsat") or out.startswith("sat"):
            break
    if out.startswith("unsat"):
        return "unsat", None
    if out.startswith("sat"):
        vals = {}
        for m in re.finditer(r"\(define-fun (\S+) \(\) \(_ BitVec \d+\)\s+#([xb])([0-9a-f]+)\)", out):
            vals[m.group(1)] = int(m.group(3), 16 if m.group(2) == "x" else 2)
        return "sat", {n: vals.get(n, 0) for n, _ in new["params"]}
    return "unknown", None


TYPES2 = {"u8": ("F8x3", 8, 3), "u16": ("F16x5", 16, 5), "u32": ("F32x3", 32, 3), "u64": ("F64x5", 64, 5), "u128": ("F128x3", 128, 3), "usize": ("FU64x5", 64, 5)}
# which generated functions a property's operations go through
RELEVANT = {"C01": ("mask", "cadd", "csub", "wmul"), "C02": ("mask", "csub")}


def api_lines(name, cex, prop="C01"):
    """harness cases that feed the counterexample words to the public operators of `prop`"""
    ty, fn = name.split("_", 1)
    tag, w, n = TYPES2[ty]
    top = (1 << w) - 1
    def vec(words, length):
        ws = (list(words) + [0] * n)[:n]
        return f"{tag}:{length}:" + ".".join(f"{x:x}" for x in ws)
    lines = []
    for dbg in ("0", "1"):
        if fn == "wmul" and prop == "C01":
            a, b = cex.get("self_", 0), cex.get("rhs", 0)
            for form in ("vv", "ar"):
                lines.append(f"mul {dbg} {vec([a], 2 * w)} {vec([b], 2 * w)} {form}")
                lines.append(f"mul {dbg} {vec([a, 1], n * w)} {vec([b, 1], n * w)} {form}")
        elif fn in ("cadd", "csub"):
            a, r, c = cex.get("self_", 0), cex.get("rhs", 0), cex.get("carry", 0)
            if prop == "C01" and fn == "cadd" and c > 1:
                # a full-word carry reaches `cadd` only inside the multiplication: products of vectors whose words are drawn from the
                # counterexample words and their neighbours (deterministic), full length so that no carry is cut off early
                import random as _r
                rng = _r.Random(a * 31 + r * 17 + c)
                pool = [a, r, c, top, top - 1, 1, 2, 0, (a + 1) & top, (r + 1) & top]
                for _ in range(300):
                    x = [rng.choice(pool) for _ in range(n)]
                    y = [rng.choice(pool) for _ in range(n)]
                    lines.append(f"mul {dbg} {vec(x, n * w)} {vec(y, n * w)} {rng.choice(['vv', 'ar'])}")
            if prop == "C01":
                op = "add" if fn == "cadd" else "sub"
                lo = ([top, 1] if fn == "cadd" else [0, 1]) if c else [0, 0]
                for form in ("vv", "ar"):
                    # the word pair in the middle of a three-word vector, with the carry/borrow coming in from below and
                    # going out into a third word, where a lost or spurious carry is visible
                    lines.append(f"{op} {dbg} {vec([lo[0], a, 5], 3 * w)} {vec([lo[1], r, 2], 3 * w)} {form}")
                    lines.append(f"{op} {dbg} {vec([lo[0], a], 3 * w)} {vec([lo[1], r], 3 * w)} {form}")
                    lines.append(f"{op} {dbg} {vec([a], 3 * w)} {vec([r], 3 * w)} {form}")
            elif prop == "C02" and fn == "csub":
                # dividend and divisor with equally many significant bits, so that the first step is `rem -= divisor`
                lo = [0, 1] if c else [0, 0]
                lines.append(f"divrem {dbg} {vec([lo[0], a, 3], 3 * w)} {vec([lo[1], r, 2], 3 * w)}")
                lines.append(f"divrem {dbg} {vec([lo[0], a, 7], 3 * w)} {vec([lo[1], r, 2], 3 * w)}")
                lines.append(f"div {dbg} {vec([lo[0], a, 3], 3 * w)} {vec([lo[1], r, 2], 3 * w)} vv")
    return lines


def run(work, prop="C01"):
    res = {"status": "proved", "changed": [], "lines": [], "log": ""}
    src = os.path.join(os.environ.get("VERIF_REPO", "/repo"), "src/utils.rs")
    rel = RELEVANT[prop]
    try:
        text, smts, errors = T.translate(src)
    except Exception as ex:        # the translator itself failed on the new source
        res.update(status="broken", log=f"translator failed: {ex}")
        return res
    bad = sorted(k for k in errors if "_" not in k or k.split("_", 1)[1] in rel)
    if bad:
        res.update(status="broken", changed=bad, log="not in the translatable subset: " + json.dumps({k: errors[k] for k in bad}))
        return res
    # one self-contained file: the freshly generated definitions, then the equality theorems of BvaProofs/GenWords.lean for
    # the functions this property's operations go through
    thm_lines = []
    for l in open(os.path.join(LEAN, "BvaProofs/GenWords.lean")).read().splitlines():
        m = re.match(r"theorem (\w+?)_eq ", l)
        if m:
            if m.group(1).split("_", 1)[1] in rel and m.group(1) not in errors:
                thm_lines.append(l)
        elif not l.startswith("import "):
            thm_lines.append(l)
    os.makedirs(work, exist_ok=True)
    chk = os.path.join(work, f"GenWordsCheck_{prop}.lean")
    body = text + "\n" + "\n".join(thm_lines) + "\n"
    open(chk, "w").write(body)
    res["regenerated_equals_committed"] = (text == open(os.path.join(LEAN, "BvaGen/Words.lean")).read())
    p = subprocess.run(["lake", "env", "lean", chk], cwd=LEAN, stdout=subprocess.PIPE, stderr=subprocess.STDOUT, text=True)
    if p.returncode == 0:
        return res
    res["log"] = p.stdout[-3000:]
    # which equalities failed
    blines = body.splitlines()
    failed = set()
    for m in re.finditer(r"GenWordsCheck_\w+\.lean:(\d+):\d+: error", p.stdout):
        ln = int(m.group(1)) - 1
        mm = re.match(r"theorem (\w+?)_eq ", blines[ln]) if ln < len(blines) else None
        if mm:
            failed.add(mm.group(1))
    if not failed:
        res.update(status="broken", log=res["log"] + "\nthe generated file does not check, and the failing equality could not be identified")
        return res
    base = json.load(open(BASELINE))
    smts = json.loads(json.dumps(smts))
    res["changed"] = sorted(failed)
    verdicts = {}
    for k in sorted(failed):
        v, cex = z3_diff(k, smts.get(k), base.get(k))
        verdicts[k] = v
        if v == "sat":
            res["lines"] += api_lines(k, cex, prop)
            res["log"] += f"\n{k}: differs from the proved definition on words {json.dumps({a: hex(b) for a, b in cex.items()})}"
    if any(v == "sat" for v in verdicts.values()):
        res["status"] = "counterexample"
    elif all(v == "unsat" for v in verdicts.values()):
        res["status"] = "smt-equal"
        res["log"] += "\nthe SMT solver proves every changed definition equal, on all words, to the one the Lean equalities were checked against: " + ", ".join(sorted(failed))
    else:
        res["status"] = "broken"
        res["log"] += "\nno decision for: " + ", ".join(k for k, v in verdicts.items() if v == "unknown")
    return res


if __name__ == "__main__":
    if "--write-baseline" in sys.argv:
        text, smts, errors = T.translate("/repo/src/utils.rs")
        assert not errors, errors
        json.dump(smts, open(BASELINE, "w"), indent=1)
        print("baseline written:", len(smts), "definitions")
    else:
        print(json.dumps(run(os.path.join(ROOT, "work"), sys.argv[1] if len(sys.argv) > 1 else "C01"), indent=1))
