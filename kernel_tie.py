#!/usr/bin/env python3
"""The tie by translation for the word-level kernel (used by check.py for C01; see DESIGN.md section 2.4).

run(work_dir) -> dict with
  status  : "proved"        generated definitions are kernel-checked equal to the model's (BvaProofs/GenWords.lean builds)
            "smt-equal"     some definition changed so that the Lean equalities no longer check, but z3 proves every changed
                            definition equal (as a function on words) to the one the model was proved against
            "counterexample" z3 found words on which a changed definition differs; `lines` are API-level cases built from them
            "broken"        the translator rejects the new source, or z3 gives no answer: the tie is not re-established
  changed : names of generated definitions that differ from the baseline
  lines   : harness input lines (without the result part) to execute, when a counterexample exists
  log     : text for the replay file
"""
import json, os, subprocess, sys, re

ROOT = os.path.dirname(os.path.abspath(__file__))
LEAN = os.path.join(ROOT, "lean")
sys.path.insert(0, ROOT)
import translate as T

BASELINE = os.path.join(ROOT, "kernel_baseline.json")   # SMT form of the definitions GenWords.lean was proved against


def smt_fun(prefix, f):
    """nested lets computing the result tuple; returns list of terms (one per result component) as closed-over-params terms"""
    def wrap(body):
        s = body
        for n, t in reversed(f["lets"]):
            s = f"(let (({n} {t})) {s})"
        return s
    return [wrap(r) for r in f["result"]]


def z3_diff(name, new, base, timeout_s=150):
    if new is None or base is None or new["params"] != base["params"]:
        return "unknown", None
    decl = "".join(f"(declare-const {n} (_ BitVec {w}))\n" for n, w in new["params"])
    a, b = smt_fun("n", new), smt_fun("b", base)
    if len(a) != len(b):
        return "unknown", None
    neq = " ".join(f"(distinct {x} {y})" for x, y in zip(a, b))
    q = f"(set-logic QF_BV)\n{decl}(assert (or {neq}))\n(check-sat)\n(get-model)\n"
    out = ""
    for cmd in (["cvc5", "--produce-models", f"--tlimit={timeout_s * 1000}"], ["z3", "-in", f"-T:{timeout_s}"]):
        try:
            if cmd[0] == "cvc5":
                qf = os.path.join(ROOT, "work", f"kernel_{name}.smt2")
                os.makedirs(os.path.dirname(qf), exist_ok=True)
                open(qf, "w").write(q)
                p = subprocess.run(cmd + [qf], stdout=subprocess.PIPE, stderr=subprocess.STDOUT, text=True, timeout=timeout_s + 30)
            else:
                p = subprocess.run(cmd, input=q, stdout=subprocess.PIPE, stderr=subprocess.STDOUT, text=True, timeout=timeout_s + 30)
        except (subprocess.TimeoutExpired, FileNotFoundError):
            continue
        out = p.stdout
        if out.startswith("unsat") or out.startswith("sat"):
            break
    if out.startswith("unsat"):
        return "unsat", None
    if out.startswith("sat"):
        vals = {}
        for m in re.finditer(r"\(define-fun (\S+) \(\) \(_ BitVec \d+\)\s+#([xb])([0-9a-f]+)\)", out):
            vals[m.group(1)] = int(m.group(3), 16 if m.group(2) == "x" else 2)
        return "sat", {n: vals.get(n, 0) for n, _ in new["params"]}
    return "unknown", None


TYPES2 = {"u8": ("F8x3", 8, 3), "u16": ("F16x2", 16, 2), "u32": ("F32x3", 32, 3), "u64": ("F64x5", 64, 5), "u128": ("F128x2", 128, 2), "usize": ("FU64x2", 64, 2)}


def api_lines(name, cex):
    """harness cases that feed the counterexample words to the public operators"""
    ty, fn = name.split("_", 1)
    tag, w, n = TYPES2[ty]
    def vec(words, length):
        ws = (list(words) + [0] * n)[:n]
        return f"{tag}:{length}:" + ".".join(f"{x:x}" for x in ws)
    lines = []
    for dbg in ("0", "1"):
        if fn == "wmul":
            a, b = cex.get("self_", 0), cex.get("rhs", 0)
            for form in ("vv", "ar"):
                lines.append(f"mul {dbg} {vec([a], 2 * w)} {vec([b], 2 * w)} {form}")
                lines.append(f"mul {dbg} {vec([a, 1], n * w)} {vec([b, 1], n * w)} {form}")
        elif fn in ("cadd", "csub"):
            a, r, c = cex.get("self_", 0), cex.get("rhs", 0), cex.get("carry", 0)
            op = "add" if fn == "cadd" else "sub"
            lo = ([(1 << w) - 1, 1] if fn == "cadd" else [0, 1]) if c else [0, 0]
            for form in ("vv", "ar"):
                lines.append(f"{op} {dbg} {vec([lo[0], a], n * w)} {vec([lo[1], r], n * w)} {form}")
                lines.append(f"{op} {dbg} {vec([a], n * w)} {vec([r], n * w)} {form}")
    return lines


def run(work):
    res = {"status": "proved", "changed": [], "lines": [], "log": ""}
    src = os.path.join(os.environ.get("VERIF_REPO", "/repo"), "src/utils.rs")
    try:
        text, smts, errors = T.translate(src)
    except Exception as ex:        # the translator itself failed on the new source
        res.update(status="broken", log=f"translator failed: {ex}")
        return res
    if errors:
        res.update(status="broken", changed=sorted(errors), log="not in the translatable subset: " + json.dumps(errors))
        return res
    # one self-contained file: the freshly generated definitions followed by the equality theorems of BvaProofs/GenWords.lean
    thms = open(os.path.join(LEAN, "BvaProofs/GenWords.lean")).read().replace("import BvaGen.Words\n", "", 1)
    os.makedirs(work, exist_ok=True)
    chk = os.path.join(work, "GenWordsCheck.lean")
    open(chk, "w").write(text + "\n" + thms)
    res["regenerated_equals_committed"] = (text == open(os.path.join(LEAN, "BvaGen/Words.lean")).read())
    p = subprocess.run(["lake", "env", "lean", chk], cwd=LEAN, stdout=subprocess.PIPE, stderr=subprocess.STDOUT, text=True)
    if p.returncode == 0:
        return res
    res["log"] = p.stdout[-3000:]
    base = json.load(open(BASELINE))
    smts = json.loads(json.dumps(smts))
    changed = [k for k in smts if smts[k] != base.get(k)]
    res["changed"] = changed
    verdicts = {}
    for k in changed:
        v, cex = z3_diff(k, smts[k], base.get(k))
        verdicts[k] = v
        if v == "sat":
            res["lines"] += api_lines(k, cex)
            res["log"] += f"\n{k}: differs from the proved definition on words {json.dumps({a: hex(b) for a, b in cex.items()})}"
    if any(v == "sat" for v in verdicts.values()):
        res["status"] = "counterexample"
    elif changed and all(v == "unsat" for v in verdicts.values()):
        res["status"] = "smt-equal"
        res["log"] += "\nthe SMT solver proves every changed definition equal, on all words, to the one the Lean equalities were checked against: " + ", ".join(changed)
    else:
        res["status"] = "broken"
        res["log"] += "\nno decision for: " + ", ".join(k for k, v in verdicts.items() if v == "unknown") + (" (Lean equalities fail although no definition changed its SMT form)" if not changed else "")
    return res


if __name__ == "__main__":
    if "--write-baseline" in sys.argv:
        text, smts, errors = T.translate("/repo/src/utils.rs")
        assert not errors, errors
        json.dump(smts, open(BASELINE, "w"), indent=1)
        print("baseline written:", len(smts), "definitions")
    else:
        print(json.dumps(run(os.path.join(ROOT, "work")), indent=1))
