#!/usr/bin/env python3
"""mutate_model.py [-n N] [--seed S] [--jobs J] — how sensitive are the THEOREMS to the model?

The correspondence check ties the model to the code; tools/mutate.py measures how sensitive that tie is to changes of the
code.  This tool measures the other side: it applies one small syntactic change to a definition of the executable L1 model
(BvaModel/{Word,Store,Kernels,Fixed,Dynamic,Auto,Iter}.lean) in a scratch copy of /verif/lean and rebuilds the property
theorems (`lake build BvaProps`).  A mutant is KILLED when some proof no longer checks (the theorems pin that piece of the
model down), SURVIVED when everything still builds (the change is invisible to every theorem: an equivalent mutant, dead
model code, or a hole in what the theorems say).  Results: work/mutmodel/results.jsonl, one JSON object per mutant.

Developer tool; nothing registered in MANIFEST.json depends on it.  Scratch copies live under /tmp/mm and are removed.
"""
import argparse, json, os, random, re, shutil, subprocess, sys, time
from concurrent.futures import ThreadPoolExecutor

ROOT = os.path.dirname(os.path.dirname(os.path.abspath(__file__)))
LEAN = os.path.join(ROOT, "lean")
FILES = ["Word", "Store", "Kernels", "Fixed", "Dynamic", "Auto", "Iter"]
OPS = [
    (r" \+ ", [" - "]), (r" - ", [" + "]), (r" < ", [" ≤ "]), (r" ≤ ", [" < "]),
    (r" &&& ", [" ||| "]), (r" \|\|\| ", [" &&& ", " ^^^ "]), (r" <<< ", [" >>> "]), (r" >>> ", [" <<< "]),
    (r" \* ", [" + "]), (r" / ", [" % "]), (r" % ", [" / "]), (r" == ", [" != "]), (r" && ", [" || "]), (r" \|\| ", [" && "]),
    (r"\btrue\b", ["false"]), (r"\bfalse\b", ["true"]), (r"(?<![\w.#])1(?![\w.#])", ["0", "2"]), (r"(?<![\w.#])0(?![\w.#])", ["1"]),
    (r"(?<![\w.#])8(?![\w.#])", ["7", "4"]), (r"(?<![\w.#])64(?![\w.#])", ["32", "63"]),
]


def sites():
    out = []
    for f in FILES:
        p = os.path.join(LEAN, "BvaModel", f + ".lean")
        txt = open(p).read()
        # blank out comments (same length) so offsets stay valid
        def blank(m):
            return re.sub(r"[^\n]", " ", m.group(0))
        code = re.sub(r"/-.*?-/", blank, txt, flags=re.S)
        code = re.sub(r"--[^\n]*", blank, code)
        # only inside definitions: skip lines of `theorem`/`instance`/`deriving`/`termination_by`/`decreasing_by` blocks crudely
        for pat, reps in OPS:
            for m in re.finditer(pat, code):
                line_start = code.rfind("\n", 0, m.start()) + 1
                line = code[line_start:code.find("\n", m.start())]
                if re.match(r"\s*(theorem|termination_by|decreasing_by|structure|inductive|import|namespace|end|open|abbrev|instance|deriving)", line):
                    continue
                for r in reps:
                    out.append((f, m.start(), m.end(), r, line.strip()))
    return out


def run_one(i, site):
    f, a, b, rep, line = site
    d = f"/tmp/mm/{i}"
    shutil.rmtree(d, ignore_errors=True)
    shutil.copytree(LEAN, d, symlinks=True)
    p = os.path.join(d, "BvaModel", f + ".lean")
    txt = open(p).read()
    old = txt[a:b]
    open(p, "w").write(txt[:a] + rep + txt[b:])
    t0 = time.time()
    try:
        r = subprocess.run(["lake", "build", "BvaProps"], cwd=d, stdout=subprocess.PIPE, stderr=subprocess.STDOUT, text=True, timeout=1500)
        rc, out = r.returncode, r.stdout
    except subprocess.TimeoutExpired:
        rc, out = 124, "timeout"
    first = ""
    m = re.search(r"error: (BvaP\w+/\w+\.lean|BvaModel/\w+\.lean)[^\n]*", out)
    if m:
        first = m.group(0)[:200]
    shutil.rmtree(d, ignore_errors=True)
    res = {"i": i, "file": f, "offset": a, "old": old, "new": rep, "line": line[:160],
           "verdict": "SURVIVED" if rc == 0 else ("TIMEOUT" if rc == 124 else "KILLED"), "first_error": first, "secs": round(time.time() - t0)}
    return res


def main():
    ap = argparse.ArgumentParser()
    ap.add_argument("-n", type=int, default=12)
    ap.add_argument("--seed", type=int, default=1)
    ap.add_argument("--jobs", type=int, default=2)
    a = ap.parse_args()
    ss = sites()
    rng = random.Random(a.seed)
    pick = rng.sample(ss, min(a.n, len(ss)))
    os.makedirs(os.path.join(ROOT, "work", "mutmodel"), exist_ok=True)
    outp = os.path.join(ROOT, "work", "mutmodel", "results.jsonl")
    print(f"{len(ss)} candidate sites, running {len(pick)}", flush=True)
    with ThreadPoolExecutor(a.jobs) as ex:
        for res in ex.map(lambda t: run_one(*t), [(f"s{a.seed}_{k}", s) for k, s in enumerate(pick)]):
            print(json.dumps(res, ensure_ascii=False), flush=True)
            with open(outp, "a") as f:
                f.write(json.dumps(res, ensure_ascii=False) + "\n")


if __name__ == "__main__":
    main()
