#!/bin/sh
# confirm_seed.sh <ID> [name]: independently confirm a seeded change delivered in /tmp/seed/<ID>-out against a fresh scratch worktree,
# then keep it as /verif/seeded/<name>/ . Usage is manual; nothing registered in MANIFEST depends on it.
set -u
ID=$1; NAME=${2:-$1}
OUT=/tmp/seed/$ID-out
W=/tmp/seedconfirm/$NAME
export CARGO_NET_OFFLINE=true
rm -rf $W; mkdir -p /tmp/seedconfirm
git -C /repo worktree add --detach -f $W HEAD >/dev/null 2>&1 || exit 9
cp /repo/Cargo.lock $W/
mkdir -p $W/tests
LOG=/tmp/seedconfirm/$NAME.log; : > $LOG
cd $W
# 1. demo passes without the patch
cp $OUT/demo.rs tests/demo.rs
cargo test --offline ${DEMO_FLAGS:-} --test demo >>$LOG 2>&1; R_CLEAN=$?
# 2. apply patch; existing suite passes (demo moved aside), demo fails
git apply $OUT/patch.diff >>$LOG 2>&1 || { echo "PATCH DOES NOT APPLY" | tee -a $LOG; }
cargo test --offline ${DEMO_FLAGS:-} --test demo >>$LOG 2>&1; R_PATCHED=$?
mv tests/demo.rs /tmp/seedconfirm/$NAME.demo.rs
cargo test --offline >>$LOG 2>&1; R_SUITE=$?
echo "RESULT $NAME demo_without_patch_exit=$R_CLEAN demo_with_patch_exit=$R_PATCHED suite_with_patch_exit=$R_SUITE" | tee -a $LOG
if [ $R_CLEAN -eq 0 ] && [ $R_PATCHED -ne 0 ] && [ $R_SUITE -eq 0 ]; then
  mkdir -p /verif/seeded/$NAME
  cp $OUT/patch.diff /verif/seeded/$NAME/patch.diff
  cp $OUT/demo.rs /verif/seeded/$NAME/demo.rs
  cp $OUT/meta.json /verif/seeded/$NAME/agent_meta.json 2>/dev/null
  echo "CONFIRMED $NAME" | tee -a $LOG
else
  echo "NOT CONFIRMED $NAME" | tee -a $LOG
fi
cd /
git -C /repo worktree remove --force $W
