#!/bin/sh
# try_seed.sh <patch.diff> <Cxx> [<Cyy> ...]: apply a seeded change to /repo, run the named checks (correspondence only), undo it.
P=$1; shift
cd /repo && git apply "$P" || { echo "patch does not apply"; exit 9; }
cd /verif
for c in "$@"; do python3 check.py $c --no-lean 2>&1 | tail -3; done
git -C /repo checkout -- . 
