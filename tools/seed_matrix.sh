#!/bin/sh
# seed_matrix.sh <name> [Cxx ...]: evaluate a kept seeded change (/verif/seeded/<name>/patch.diff) against checks WITHOUT touching /repo:
# a scratch worktree of /repo gets the patch, a scratch copy of the harness is pointed at it, and check.py runs with scratch output dirs.
# Prints one line per check: "<name> <Cxx> DETECTED|missed".  Default: all 20 checks.
NAME=$1; shift
CHECKS=${*:-C01 C02 C03 C04 C05 C06 C07 C08 C09 C10 C11 C12 C13 C14 C15 C16 C17 C18 C19 C20}
S=/tmp/sm/$NAME
rm -rf $S; mkdir -p $S
git -C /repo worktree add --detach -f $S/repo HEAD >/dev/null 2>&1 || exit 9
cp /repo/Cargo.lock $S/repo/
(cd $S/repo && git apply ${SEEDDIR:-/verif/seeded}/$NAME/patch.diff) || { echo "$NAME patch does not apply"; git -C /repo worktree remove --force $S/repo; exit 8; }
mkdir -p $S/harness
cp -r /verif/harness/src /verif/harness/Cargo.toml /verif/harness/Cargo.lock /verif/harness/.cargo $S/harness/ 2>/dev/null
sed -i "s#path = \"/repo\"#path = \"$S/repo\"#" $S/harness/Cargo.toml
export VERIF_HARNESS_DIR=$S/harness VERIF_SCRATCH_DIR=$S/out VERIF_REPO=$S/repo
for c in $CHECKS; do
  out=$(cd /verif && python3 check.py $c --no-lean 2>&1 | tail -2)
  if echo "$out" | grep -q "^VIOLATION property=$c"; then echo "$NAME $c DETECTED $(echo "$out" | grep -o 'no-failing-input-found')"; else echo "$NAME $c missed"; fi
done
git -C /repo worktree remove --force $S/repo
rm -rf $S
