#!/usr/bin/env python3
"""Developer tool: mutation adequacy of the correspondence harness.

Enumerates small syntactic mutants of /repo/src/*.rs (non-test code), builds the harness against each in a scratch copy
(never touching /repo), runs every generator family of the quick tier in the dev profile through the Lean driver and records
which family first reports a difference (`killed`), or that none does (`survived`). Survivors are the interesting output:
each is either an equivalent mutant or a blind spot of the generators.

    tools/mutate.py list [--files a.rs,b.rs]                 # count mutants per operator
    tools/mutate.py run  [--workers 6] [--sample N] [--seed S] [--files ...] [--only-ops op1,op2] [--out work/mut/results.jsonl]
    tools/mutate.py suite <results.jsonl>                     # run the crate's own test suite on the survivors (does it notice?)

Scratch: /tmp/mut/w<i>/{repo,harness} (removed at the end). Nothing registered in MANIFEST.json depends on this tool.
"""
import argparse, json, os, random, re, shutil, subprocess, sys, time, threading, queue

ROOT = os.path.dirname(os.path.dirname(os.path.abspath(__file__)))
DRV = os.path.join(ROOT, "lean/.lake/build/bin/drv")
FILES = ["fixed.rs", "dynamic.rs", "auto.rs", "iter.rs", "utils.rs", "bit.rs", "lib.rs"]
FAMILIES = [("h_core", f) for f in ["C03", "C07", "OC01", "OC02", "OC04", "OC05", "OC03", "C02", "C05", "C06", "C08", "C09", "C10", "C11",
                                    "C12", "C13", "C15", "C16", "C17", "C18", "C19", "C14"]] + [("h_forms", "C20")]

# (name, regex, replacement) — applied to one occurrence at a time
OPS = [
    ("lt_le", r" < ", " <= "), ("le_lt", r" <= ", " < "), ("gt_ge", r" > ", " >= "), ("ge_gt", r" >= ", " > "),
    ("eq_ne", r" == ", " != "), ("ne_eq", r" != ", " == "),
    ("plus1_drop", r" \+ 1\b", ""), ("minus1_drop", r" - 1\b", ""), ("plus_minus", r" \+ ", " - "), ("minus_plus", r" - ", " + "),
    ("plus1_plus2", r" \+ 1\b", " + 2"),
    ("div_mod", r" / ", " % "), ("mod_div", r" % ", " / "),
    ("and_or", r" & ", " | "), ("or_and", r" \| ", " & "), ("xor_or", r" \^ ", " | "),
    ("shl_shr", r" << ", " >> "), ("shr_shl", r" >> ", " << "),
    ("andand_oror", r" && ", " || "), ("oror_andand", r" \|\| ", " && "),
    ("zero_one", r"Bit::Zero", "Bit::One"), ("one_zero", r"Bit::One", "Bit::Zero"),
    ("range0_1", r"\b0\.\.", "1.."), ("incl_excl", r"\.\.=", ".."),
    ("wrapping_saturating", r"wrapping_sub", "saturating_sub"), ("saturating_wrapping", r"saturating_sub", "wrapping_sub"),
    ("min_max", r"\bmin\(", "max("), ("max_min", r"\bmax\(", "min("),
    ("not_drop", r"!(?=[a-zA-Z(])", ""),
    ("andassign_drop", r"^(\s*)([^/\n]*\S) &= [^;]*;\s*$", r"\1let _ = 0;"),
    ("orassign_drop", r"^(\s*)([^/\n]*\S) \|= [^;]*;\s*$", r"\1let _ = 0;"),
    ("assign_len_drop", r"^(\s*)self\.length (=|\+=|-=) [^;]*;\s*$", r"\1let _ = 0;"),
    ("cap_len", r"capacity_from_bit_len\(self\.length\)", "self.data.len()"),
    ("unwrap_or0", r"unwrap_or\(0\)", "unwrap_or(1)"),
    ("bits_minus", r"BIT_UNIT - ", "BIT_UNIT + "),
    # second pass: whole statements and conditions
    ("stmt_drop", r"^(\s*)(self\.[a-z_0-9]+\([^;]*\);|self\.data\[[^;]*\] (=|\|=|&=|\^=|<<=|>>=) [^;]*;|\*\w+ (=|\|=|&=|\^=) [^;]*;|\w+\.data\[[^;]*\] (=|\|=|&=|\^=) [^;]*;)\s*$", r"\1let _ = 0;"),
    ("if_negate", r"^(\s*(?:\} else )?)if (?!let )(.*) \{\s*$", r"\1if !(\2) {"),
    ("while_negate_first", r"^(\s*)while (?!let )(.*) \{\s*$", r"\1while (\2) && false {"),
]


def code_lines(path):
    """(lineno, text) for lines that are code: not comments, not doc, not inside #[cfg(test)] (tests live in src/tests/)"""
    out = []
    for i, l in enumerate(open(path).read().split("\n")):
        s = l.strip()
        if not s or s.startswith("//") or s.startswith("#[") or s.startswith("use ") or s.startswith("debug_assert") or s.startswith("assert"):
            continue
        if "fn " in s and s.endswith("{") and ("<" in s):       # generic signatures: ' < ' patterns would be type syntax
            continue
        out.append((i, l))
    return out


def enumerate_mutants(files, only_ops=None):
    ms = []
    for f in files:
        path = os.path.join("/repo/src", f)
        for i, l in code_lines(path):
            code = l.split("//")[0]
            for name, rx, rep in OPS:
                if only_ops and name not in only_ops:
                    continue
                for m in re.finditer(rx, code):
                    new = code[:m.start()] + m.expand(rep) + code[m.end():]
                    if new != code:
                        ms.append({"file": f, "line": i + 1, "op": name, "col": m.start(), "old": l, "new": new + l[len(code):]})
    return ms


def sh(cmd, cwd=None, timeout=None, env=None):
    e = dict(os.environ)
    e["CARGO_NET_OFFLINE"] = "true"
    if env:
        e.update(env)
    try:
        p = subprocess.run(cmd, cwd=cwd, env=e, stdout=subprocess.PIPE, stderr=subprocess.STDOUT, text=True, timeout=timeout)
        return p.returncode, p.stdout
    except subprocess.TimeoutExpired as ex:
        return 124, (ex.stdout or b"").decode() if isinstance(ex.stdout, bytes) else (ex.stdout or "")


def setup_worker(i):
    w = f"/tmp/mut/w{i}"
    shutil.rmtree(w, ignore_errors=True)
    os.makedirs(w + "/repo")
    for x in ["src", "Cargo.toml", "Cargo.lock"]:
        s = os.path.join("/repo", x)
        (shutil.copytree if os.path.isdir(s) else shutil.copy)(s, os.path.join(w, "repo", x))
    os.makedirs(w + "/harness")
    for x in ["src", "Cargo.toml", "Cargo.lock", ".cargo"]:
        s = os.path.join(ROOT, "harness", x)
        (shutil.copytree if os.path.isdir(s) else shutil.copy)(s, os.path.join(w, "harness", x))
    t = open(w + "/harness/Cargo.toml").read().replace('path = "/repo"', f'path = "{w}/repo"')
    open(w + "/harness/Cargo.toml", "w").write(t)
    rc, out = sh(["cargo", "build", "--offline", "--bins"], cwd=w + "/harness", timeout=3600)
    if rc != 0:
        raise SystemExit("warm build failed:\n" + out[-3000:])
    return w


def run_mutant(w, m):
    path = os.path.join(w, "repo/src", m["file"])
    orig = open(path).read()
    lines = orig.split("\n")
    assert lines[m["line"] - 1] == m["old"], "source drifted"
    lines[m["line"] - 1] = m["new"]
    open(path, "w").write("\n".join(lines))
    res = {"status": None}
    try:
        t0 = time.time()
        rc, out = sh(["cargo", "build", "--offline", "--bins"], cwd=w + "/harness", timeout=1800)
        res["build_s"] = round(time.time() - t0, 1)
        if rc != 0:
            res["status"] = "nocompile"
            return res
        for b, fam in FAMILIES:
            of = f"{w}/out.txt"
            rc, out = sh([f"{w}/harness/target/debug/{b}", "gen", fam, "1", "quick", of], timeout=300)
            if rc != 0:
                res.update(status="killed", by=fam, how="hang" if rc == 124 else f"abort rc={rc}", detail=out[-300:])
                return res
            p = subprocess.run([DRV], stdin=open(of), stdout=subprocess.PIPE, stderr=subprocess.STDOUT, text=True)
            last = [l for l in p.stdout.splitlines() if l.startswith("DONE")]
            diffs = [l for l in p.stdout.splitlines() if l.startswith("DIFF")]
            if p.returncode != 0 or not last:
                res.update(status="driver-error", by=fam, detail=p.stdout[-300:])
                return res
            if diffs or " bad=0" not in last[-1]:
                kinds = sorted({d.split()[2] if len(d.split()) > 2 else "?" for d in diffs})
                res.update(status="killed", by=fam, how="diff", ndiff=len(diffs), kinds=kinds, first=min(diffs, key=len)[:300] if diffs else last[-1])
                return res
        res["status"] = "survived"
        return res
    finally:
        open(path, "w").write(orig)
        res["wall_s"] = round(time.time() - t0, 1)


def main():
    ap = argparse.ArgumentParser()
    ap.add_argument("cmd", choices=["list", "run", "suite"])
    ap.add_argument("arg", nargs="?")
    ap.add_argument("--files", default=",".join(FILES))
    ap.add_argument("--workers", type=int, default=6)
    ap.add_argument("--sample", type=int, default=0)
    ap.add_argument("--seed", type=int, default=1)
    ap.add_argument("--only-ops", default="")
    ap.add_argument("--out", default=os.path.join(ROOT, "work/mut/results.jsonl"))
    a = ap.parse_args()
    files = a.files.split(",")
    only = set(a.only_ops.split(",")) if a.only_ops else None
    if a.cmd == "list":
        ms = enumerate_mutants(files, only)
        from collections import Counter
        c = Counter((m["file"], m["op"]) for m in ms)
        for k in sorted(c):
            print(k, c[k])
        print("total", len(ms))
        return
    if a.cmd == "run":
        ms = enumerate_mutants(files, only)
        random.Random(a.seed).shuffle(ms)
        if a.sample:
            ms = ms[:a.sample]
        os.makedirs(os.path.dirname(a.out), exist_ok=True)
        done = set()
        if os.path.exists(a.out):
            for l in open(a.out):
                r = json.loads(l)
                done.add((r["file"], r["line"], r["op"], r["col"]))
        ms = [m for m in ms if (m["file"], m["line"], m["op"], m["col"]) not in done]
        print(f"{len(ms)} mutants to run, {len(done)} already recorded", flush=True)
        q = queue.Queue()
        for m in ms:
            q.put(m)
        lock = threading.Lock()
        def work(i):
            w = setup_worker(i)
            while True:
                try:
                    m = q.get_nowait()
                except queue.Empty:
                    break
                r = dict(m)
                try:
                    r.update(run_mutant(w, m))
                except Exception as ex:
                    r.update(status="tool-error", detail=str(ex)[:300])
                with lock:
                    with open(a.out, "a") as f:
                        f.write(json.dumps(r) + "\n")
                    print(f"[w{i}] {r['file']}:{r['line']} {r['op']} -> {r['status']} {r.get('by','')} {r.get('how','')} ({r.get('wall_s')}s)", flush=True)
            shutil.rmtree(w, ignore_errors=True)
        th = [threading.Thread(target=work, args=(i,)) for i in range(a.workers)]
        for t in th: t.start()
        for t in th: t.join()
        return
    if a.cmd == "suite":
        rs = [json.loads(l) for l in open(a.arg)]
        surv = [r for r in rs if r["status"] == "survived" and "suite" not in r]
        w = "/tmp/mut/suite"
        shutil.rmtree(w, ignore_errors=True)
        os.makedirs(w)
        for x in ["src", "Cargo.toml", "Cargo.lock"]:
            s = os.path.join("/repo", x)
            (shutil.copytree if os.path.isdir(s) else shutil.copy)(s, os.path.join(w, x))
        for r in surv:
            path = os.path.join(w, "src", r["file"])
            orig = open(path).read()
            lines = orig.split("\n")
            lines[r["line"] - 1] = r["new"]
            open(path, "w").write("\n".join(lines))
            rc, out = sh(["cargo", "test", "--offline", "--lib"], cwd=w, timeout=3600)
            open(path, "w").write(orig)
            r["suite"] = "passes" if rc == 0 else "fails"
            print(f"{r['file']}:{r['line']} {r['op']} suite {r['suite']}", flush=True)
        with open(a.arg, "w") as f:
            for r in rs:
                f.write(json.dumps(r) + "\n")
        shutil.rmtree(w, ignore_errors=True)


if __name__ == "__main__":
    main()
