#!/bin/sh
# Developer tool: which regions of /repo/src (non-test code) does the correspondence harness execute?
# Builds the harness with -C instrument-coverage on the nightly toolchain (its llvm-cov / llvm-profdata),
# runs every family of the quick tier, and prints the llvm-cov report plus every source region that no
# instantiation executed. Output: notes/coverage.txt. Scratch: work/covtarget, work/covprof (git-ignored).
set -e
cd "$(dirname "$0")/.."
V=$(pwd)
B=$(dirname "$(rustup which --toolchain nightly rustc)")/../lib/rustlib/x86_64-unknown-linux-gnu/bin
T=$V/work/covtarget/debug
mkdir -p work && rm -rf work/covprof && mkdir work/covprof
(cd harness && RUSTFLAGS="-C instrument-coverage" CARGO_TARGET_DIR=$V/work/covtarget CARGO_NET_OFFLINE=true cargo +nightly build --offline --bins 2>&1 | tail -1)
for f in C02 C03 C05 C06 C07 C08 C09 C10 C11 C12 C13 C14 C15 C16 C17 C18 C19 OC01 OC02 OC03 OC04 OC05; do
  LLVM_PROFILE_FILE=$V/work/covprof/$f.profraw $T/h_core gen $f ${SEED:-1} ${TIER:-quick} $V/work/cov_lines.txt >/dev/null 2>&1 || echo "family $f failed"
done
LLVM_PROFILE_FILE=$V/work/covprof/C20.profraw $T/h_forms gen C20 ${SEED:-1} ${TIER:-quick} $V/work/cov_lines.txt >/dev/null 2>&1
$B/llvm-profdata merge -sparse work/covprof/*.profraw -o work/cov.profdata
{
  echo "# coverage of /repo/src by the correspondence harness (tier ${TIER:-quick}, seed ${SEED:-1}); /repo HEAD $(git -C /repo rev-parse --short HEAD)"
  $B/llvm-cov report -instr-profile=work/cov.profdata -object $T/h_core -object $T/h_forms --sources /repo/src 2>/dev/null | awk '{print $1, $2, $3, $4, $5, $6, $7, $8, $9, $10}' | grep -v "^-"
  echo
  echo "# source regions executed by no instantiation (file line:col-line:col text)"
  $B/llvm-cov export -instr-profile=work/cov.profdata -object $T/h_core -object $T/h_forms --sources /repo/src 2>/dev/null > work/cov.json
  python3 - <<'EOF'
import json
from collections import defaultdict
d=json.load(open('work/cov.json'))
reg=defaultdict(int)
for f in d['data'][0]['functions']:
    fn=f['filenames']
    for r in f['regions']:
        l1,c1,l2,c2,cnt,fid,efid,kind=r
        if kind!=0: continue
        reg[(fn[fid],l1,c1,l2,c2)]+=cnt
src={}
for k in sorted(reg):
    if reg[k]==0 and k[0].startswith('/repo/src') and '/tests/' not in k[0]:
        if k[0] not in src: src[k[0]]=open(k[0]).read().split('\n')
        print(k[0].split('/')[-1], f"{k[1]}:{k[2]}-{k[3]}:{k[4]}", src[k[0]][k[1]-1].strip()[:110])
EOF
} > notes/coverage.txt
rm -rf work/covprof work/cov.json work/cov_lines.txt
cat notes/coverage.txt
