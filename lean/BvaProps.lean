import BvaProps.C02
import BvaProps.C17
import BvaProps.C19
