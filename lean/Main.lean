import BvaModel.Ops
open Bva Drv

/-- stdin: protocol lines; stdout: one `DIFF`/`BAD` line per disagreeing case, then a `DONE` summary -/
partial def loop (h : IO.FS.Stream) (n ok raw diffs bad : Nat) : IO (Nat × Nat × Nat × Nat × Nat) := do
  let line ← h.getLine
  if line.isEmpty then return (n, ok, raw, diffs, bad)
  let l := line.trimAscii.toString
  if l.isEmpty || l.startsWith "#" then loop h n ok raw diffs bad else
  match checkLine l with
  | .ok r => loop h (n + 1) (ok + 1) (if r then raw + 1 else raw) diffs bad
  | .diff k m s =>
    IO.println s!"DIFF {n + 1} [{k}] {l} || model: {m} || spec: {s}"
    loop h (n + 1) ok raw (diffs + 1) bad
  | .bad why =>
    IO.println s!"BAD {n + 1} [{why}] {l}"
    loop h (n + 1) ok raw diffs (bad + 1)

def main : IO Unit := do
  let (n, ok, raw, diffs, bad) ← loop (← IO.getStdin) 0 0 0 0 0
  IO.println s!"DONE lines={n} ok={ok} raw_identical={raw} diffs={diffs} bad={bad}"
