import BvaProofs.Base
import BvaModel.Dynamic
/-!
# Shifts: `shlAssign`, `shrAssign`, `shlIn`, `shrIn`, `Bvd.shlRef`, `Bvd.shrRef`
-/
namespace Bva
variable {w : Nat}

-- ---- helpers ------------------------------------------------------------------------------------
theorem clearBits_eq_writeBits (ws : Array (BitVec w)) (pos l : Nat) :
    clearBits ws pos l = writeBits ws pos l 0#w := by
  unfold clearBits writeBits
  simp

theorem size_clearBits (ws : Array (BitVec w)) (pos l : Nat) :
    (clearBits ws pos l).size = ws.size := by
  simp [clearBits]

theorem bitAt_clearBits (ws : Array (BitVec w)) (pos l i : Nat) (hw : 0 < w)
    (hfit : pos % w + l ≤ w) (hin : pos / w < ws.size) :
    bitAt (clearBits ws pos l) i = if pos ≤ i ∧ i < pos + l then false else bitAt ws i := by
  rw [clearBits_eq_writeBits, bitAt_writeBits ws pos l i _ hw hfit hin (fun j _ => by simp)]
  simp

/-- position of `n - l` inside its word when the chunk `[n-l, n)` does not cross a word boundary -/
theorem sub_fit (hw : 0 < w) (n l : Nat) (hn : 1 ≤ n) (hl1 : 1 ≤ l) (hl : l ≤ (n - 1) % w + 1) :
    (n - l) % w + l = (n - 1) % w + 1 := by
  have e := idx_eq (w := w) (n - 1)
  have m := Nat.mod_lt (n - 1) hw
  have h := (div_mod_unique hw ((n - 1) / w) ((n - 1) % w + 1 - l) (by omega)).2
  have e2 : n - l = w * ((n - 1) / w) + ((n - 1) % w + 1 - l) := by omega
  rw [e2, h]; omega

-- ---- bits of the specification ------------------------------------------------------------------
theorem BV.shl_bit (a : BV) (k i : Nat) :
    (a.shl k).bit i = (decide (k ≤ i ∧ i < a.len) && a.bit (i - k)) := by
  unfold BV.shl BV.bit
  split
  · rename_i h
    have : ¬ (k ≤ i ∧ i < a.len) := by omega
    simp [this]
  · simp only [Nat.testBit_mod_two_pow, Nat.testBit_shiftLeft]
    by_cases h1 : k ≤ i <;> by_cases h2 : i < a.len <;> simp [h1, h2]

theorem BV.shr_bit (a : BV) (ha : a.WF) (k i : Nat) :
    (a.shr k).bit i = (decide (i + k < a.len) && a.bit (i + k)) := by
  unfold BV.shr BV.bit
  split
  · rename_i h
    have : ¬ (i + k < a.len) := by omega
    simp [this]
  · simp only [Nat.testBit_shiftRight]
    rw [Nat.add_comm k i]
    by_cases h1 : i + k < a.len
    · simp [h1]
    · simp only [h1, decide_false, Bool.false_and]
      exact Nat.testBit_lt_two_pow (Nat.lt_of_lt_of_le ha (Nat.pow_le_pow_right (by omega) (by omega)))

/-- a result with the same length and allocation whose bits are those of the spec refines it -/
theorem Raw.refines_of_bits (s t : Raw w) (hw : 0 < w) (h : s.Inv) (b : BV)
    (hlen : t.length = s.length) (hsz : t.data.size = s.data.size) (hbl : b.len = s.length)
    (hz : ∀ i, s.length ≤ i → b.bit i = false)
    (hb : ∀ i, bitAt t.data i = b.bit i) : t.Inv ∧ t.abs = b := by
  constructor
  · refine ⟨by rw [hlen, hsz]; exact h.1, fun i hi => ?_⟩
    rw [hb i]; exact hz i (by omega)
  · apply BV.ext_bits
    · rw [Raw.abs_len, hlen, hbl]
    · intro i; rw [Raw.abs_bit _ _ hw, hb]

-- ---- shrAssign ----------------------------------------------------------------------------------
namespace Raw

theorem shrLoop1_spec (hw : 0 < w) (ws0 : Array (BitVec w)) (length shift : Nat)
    (hfit : length ≤ ws0.size * w) (ws : Array (BitVec w)) (newIdx : Nat) (hsz : ws.size = ws0.size)
    (hinv : ∀ i, bitAt ws i = if i < newIdx then bitAt ws0 (i + shift) else bitAt ws0 i) :
    (shrLoop1 ws shift length newIdx).1.size = ws0.size ∧
    length ≤ (shrLoop1 ws shift length newIdx).2 + shift ∧
    newIdx ≤ (shrLoop1 ws shift length newIdx).2 ∧
    (∀ i, bitAt (shrLoop1 ws shift length newIdx).1 i =
      if i < (shrLoop1 ws shift length newIdx).2 then bitAt ws0 (i + shift) else bitAt ws0 i) := by
  fun_induction shrLoop1 ws shift length newIdx with
  | case1 ws newIdx hlt oldIdx l ih =>
    have m1 := Nat.mod_lt newIdx hw
    have m2 := Nat.mod_lt (newIdx + shift) hw
    have hl1 : 0 < l := by simp only [l, oldIdx]; omega
    have hfit1 : newIdx % w + l ≤ w := by simp only [l, oldIdx]; omega
    have hfit2 : oldIdx % w + l ≤ w := by simp only [l, oldIdx]; omega
    have hin : newIdx / w < ws.size := by
      rw [hsz]; apply div_lt_of_lt_mul _ _ hw; omega
    have step := ih (by rw [size_writeBits]; exact hsz)
        (by
          intro i
          rw [bitAt_writeBits ws newIdx l i _ hw hfit1 hin (fun j hj => readBits_high ws _ l j hj)]
          split
          · rename_i hi
            rw [getLsbD_readBits ws _ l _ hw hfit2]
            have h1 : i - newIdx < l := by omega
            have e : oldIdx + (i - newIdx) = i + shift := by simp only [oldIdx]; omega
            have hlt2 : i < newIdx + l := by omega
            rw [e, hinv (i + shift)]
            have h3 : ¬ (i + shift < newIdx) := by omega
            simp [h1, hlt2, h3]
          · rename_i hi
            rw [hinv i]
            by_cases h1 : i < newIdx
            · have : i < newIdx + l := by omega
              simp [h1, this]
            · have : ¬ i < newIdx + l := by omega
              simp [h1, this])
    obtain ⟨s1, s2, s3, s4⟩ := step
    exact ⟨s1, s2, by omega, s4⟩
  | case2 ws newIdx hlt =>
    exact ⟨hsz, by omega, by omega, hinv⟩

theorem shrLoop2_spec (hw : 0 < w) (length : Nat) (ws : Array (BitVec w)) (newIdx : Nat)
    (hfit : length ≤ ws.size * w) :
    (shrLoop2 ws length newIdx).size = ws.size ∧
    (∀ i, i < newIdx → bitAt (shrLoop2 ws length newIdx) i = bitAt ws i) ∧
    (∀ i, newIdx ≤ i → i < length → bitAt (shrLoop2 ws length newIdx) i = false) ∧
    (∀ i, bitAt ws i = false → bitAt (shrLoop2 ws length newIdx) i = false) := by
  fun_induction shrLoop2 ws length newIdx with
  | case1 ws newIdx hlt l ih =>
    have m1 := Nat.mod_lt newIdx hw
    have hl1 : 0 < l := by simp only [l]; omega
    have hfit1 : newIdx % w + l ≤ w := by simp only [l]; omega
    have hin : newIdx / w < ws.size := by
      apply div_lt_of_lt_mul _ _ hw; omega
    have hb := fun i => bitAt_clearBits ws newIdx l i hw hfit1 hin
    obtain ⟨s1, s2, s3, s4⟩ := ih (by rw [size_clearBits]; exact hfit)
    refine ⟨by rw [s1, size_clearBits], ?_, ?_, ?_⟩
    · intro i hi
      rw [s2 i (by omega), hb i]
      have : ¬ (newIdx ≤ i ∧ i < newIdx + l) := by omega
      simp [this]
    · intro i h1 h2
      by_cases h3 : i < newIdx + l
      · apply s4; rw [hb i]; simp [h1, h3]
      · exact s3 i (by omega) h2
    · intro i hi
      apply s4; rw [hb i]; split <;> simp [hi]
  | case2 ws newIdx hlt =>
    refine ⟨rfl, fun _ _ => rfl, ?_, fun _ h => h⟩
    intro i h1 h2
    exact absurd ⟨by omega, hw⟩ hlt

theorem shrAssign_bits (s : Raw w) (hw : 0 < w) (h : s.Inv) (k i : Nat) :
    bitAt (s.shrAssign k).data i = (decide (i + k < s.length) && bitAt s.data (i + k)) := by
  obtain ⟨hcap, hz⟩ := h
  unfold shrAssign
  by_cases hk : k = 0
  · subst hk
    simp only [if_true, Nat.add_zero]
    by_cases hi : i < s.length
    · simp [hi]
    · rw [hz i (by omega)]; simp
  · simp only [hk, if_false]
    obtain ⟨a1, a2, _, a4⟩ := shrLoop1_spec hw s.data s.length k hcap s.data 0 rfl (by intro i; simp)
    generalize shrLoop1 s.data k s.length 0 = p at a1 a2 a4
    obtain ⟨d, n⟩ := p
    simp only at a1 a2 a4 ⊢
    obtain ⟨_, b2, b3, b4⟩ := shrLoop2_spec hw s.length d n (by rw [a1]; exact hcap)
    by_cases hik : i + k < s.length
    · have hin : i < n := by omega
      rw [b2 i hin, a4 i]; simp [hin, hik]
    · simp only [hik, decide_false, Bool.false_and]
      by_cases hin : i < n
      · rw [b2 i hin, a4 i]; simp only [hin, if_true]; exact hz _ (by omega)
      · by_cases hil : i < s.length
        · exact b3 i (by omega) hil
        · apply b4; rw [a4 i]; simp only [hin, if_false]; exact hz _ (by omega)

theorem shrAssign_size (s : Raw w) (hw : 0 < w) (h : s.Inv) (k : Nat) :
    (s.shrAssign k).data.size = s.data.size := by
  obtain ⟨hcap, hz⟩ := h
  unfold shrAssign
  by_cases hk : k = 0
  · simp [hk]
  · simp only [hk, if_false]
    obtain ⟨a1, _, _, _⟩ := shrLoop1_spec hw s.data s.length k hcap s.data 0 rfl (by intro i; simp)
    generalize shrLoop1 s.data k s.length 0 = p at a1
    obtain ⟨d, n⟩ := p
    simp only at a1 ⊢
    rw [(shrLoop2_spec hw s.length d n (by rw [a1]; exact hcap)).1, a1]

theorem shrAssign_length (s : Raw w) (k : Nat) : (s.shrAssign k).length = s.length := by
  unfold shrAssign
  split
  · rfl
  · rfl

theorem shrAssign_refines (s : Raw w) (hw : 0 < w) (h : s.Inv) (k : Nat) :
    (s.shrAssign k).Inv ∧ (s.shrAssign k).abs = s.abs.shr k := by
  apply Raw.refines_of_bits s _ hw h _ (shrAssign_length s k) (shrAssign_size s hw h k)
  · unfold BV.shr; split <;> rfl
  · intro i hi
    rw [BV.shr_bit _ (h.wf hw)]
    have : ¬ (i + k < s.abs.len) := by rw [Raw.abs_len]; omega
    simp [this]
  · intro i
    rw [shrAssign_bits s hw h, BV.shr_bit _ (h.wf hw), Raw.abs_bit _ _ hw, Raw.abs_len]

-- ---- shlAssign ----------------------------------------------------------------------------------
theorem shlLoop1_spec (hw : 0 < w) (ws0 : Array (BitVec w)) (length shift : Nat)
    (hfit : length ≤ ws0.size * w) (ws : Array (BitVec w)) (newIdx : Nat) (hsz : ws.size = ws0.size)
    (hle : newIdx ≤ length)
    (hinv : ∀ i, bitAt ws i = if newIdx ≤ i ∧ i < length then bitAt ws0 (i - shift) else bitAt ws0 i) :
    (shlLoop1 ws shift newIdx).1.size = ws0.size ∧
    (shlLoop1 ws shift newIdx).2 = min shift newIdx ∧
    (∀ i, bitAt (shlLoop1 ws shift newIdx).1 i =
      if (shlLoop1 ws shift newIdx).2 ≤ i ∧ i < length then bitAt ws0 (i - shift) else bitAt ws0 i) := by
  fun_induction shlLoop1 ws shift newIdx with
  | case1 ws newIdx hlt l n' ih =>
    have m1 := Nat.mod_lt (newIdx - 1) hw
    have m2 := Nat.mod_lt (newIdx - shift - 1) hw
    have hl1 : 1 ≤ l := by simp only [l]; omega
    have hla : l ≤ (newIdx - 1) % w + 1 := by simp only [l]; omega
    have hlb : l ≤ (newIdx - shift - 1) % w + 1 := by simp only [l]; omega
    have hmle : (newIdx - shift - 1) % w ≤ newIdx - shift - 1 := Nat.mod_le _ _
    have hln : l ≤ newIdx - shift := by omega
    have hfit1 : n' % w + l ≤ w := by
      have := sub_fit hw newIdx l (by omega) hl1 hla
      simp only [n']; omega
    have hfit2 : (n' - shift) % w + l ≤ w := by
      have := sub_fit hw (newIdx - shift) l (by omega) hl1 hlb
      have e : n' - shift = newIdx - shift - l := by simp only [n']; omega
      rw [e]; omega
    have hin : n' / w < ws.size := by
      rw [hsz]; apply div_lt_of_lt_mul _ _ hw; simp only [n']; omega
    have step := ih (by rw [size_writeBits]; exact hsz) (by simp only [n']; omega)
        (by
          intro i
          rw [bitAt_writeBits ws n' l i _ hw hfit1 hin (fun j hj => readBits_high ws _ l j hj)]
          split
          · rename_i hi
            rw [getLsbD_readBits ws _ l _ hw hfit2]
            have h1 : i - n' < l := by omega
            have e : n' - shift + (i - n') = i - shift := by simp only [n'] at hi ⊢; omega
            rw [e, hinv (i - shift)]
            have h3 : ¬ (newIdx ≤ i - shift ∧ i - shift < length) := by simp only [n'] at hi; omega
            have h4 : n' ≤ i ∧ i < length := by simp only [n'] at hi ⊢; omega
            simp [h1, h3, h4]
          · rename_i hi
            rw [hinv i]
            by_cases h1 : newIdx ≤ i ∧ i < length
            · have : n' ≤ i ∧ i < length := by simp only [n']; omega
              simp [h1, this]
            · have : ¬ (n' ≤ i ∧ i < length) := by simp only [n'] at hi ⊢; omega
              simp [h1, this])
    obtain ⟨s1, s2, s3⟩ := step
    exact ⟨s1, by rw [s2]; simp only [n']; omega, s3⟩
  | case2 ws newIdx hlt =>
    exact ⟨hsz, by simp only; omega, hinv⟩

theorem shlLoop2_spec (hw : 0 < w) (ws : Array (BitVec w)) (newIdx : Nat)
    (hfit : newIdx ≤ ws.size * w) :
    (shlLoop2 ws newIdx).size = ws.size ∧
    (∀ i, bitAt (shlLoop2 ws newIdx) i = if i < newIdx then false else bitAt ws i) := by
  fun_induction shlLoop2 ws newIdx with
  | case1 ws newIdx hlt l ih =>
    have m1 := Nat.mod_lt (newIdx - 1) hw
    have hmle : (newIdx - 1) % w ≤ newIdx - 1 := Nat.mod_le _ _
    have hl1 : 1 ≤ l := by simp only [l]; omega
    have hln : l ≤ newIdx := by simp only [l]; omega
    have hfit1 : (newIdx - l) % w + l ≤ w := by
      have := sub_fit hw newIdx l (by omega) hl1 (by simp only [l]; omega)
      omega
    have hin : (newIdx - l) / w < ws.size := by
      apply div_lt_of_lt_mul _ _ hw; omega
    have hb := fun i => bitAt_clearBits ws (newIdx - l) l i hw hfit1 hin
    obtain ⟨s1, s2⟩ := ih (by rw [size_clearBits]; omega)
    refine ⟨by rw [s1, size_clearBits], ?_⟩
    intro i
    rw [s2 i, hb i]
    by_cases h1 : i < newIdx - l
    · have : i < newIdx := by omega
      simp [h1, this]
    · by_cases h2 : i < newIdx
      · have : newIdx - l ≤ i ∧ i < newIdx - l + l := by omega
        simp [h1, h2, this]
      · have : ¬ (newIdx - l ≤ i ∧ i < newIdx - l + l) := by omega
        simp [h1, h2, this]
  | case2 ws newIdx hlt =>
    refine ⟨rfl, fun i => ?_⟩
    have : ¬ i < newIdx := by omega
    simp [this]

theorem shlAssign_bits (s : Raw w) (hw : 0 < w) (h : s.Inv) (k i : Nat) :
    bitAt (s.shlAssign k).data i = (decide (k ≤ i ∧ i < s.length) && bitAt s.data (i - k)) := by
  obtain ⟨hcap, hz⟩ := h
  unfold shlAssign
  by_cases hk : k = 0
  · subst hk
    simp only [if_true, Nat.sub_zero, Nat.zero_le, true_and]
    by_cases hi : i < s.length
    · simp [hi]
    · rw [hz i (by omega)]; simp
  · simp only [hk, if_false]
    obtain ⟨a1, a2, a3⟩ := shlLoop1_spec hw s.data s.length k hcap s.data s.length rfl (Nat.le_refl _)
      (by intro i; have : ¬ (s.length ≤ i ∧ i < s.length) := by omega
          simp [this])
    generalize shlLoop1 s.data k s.length = p at a1 a2 a3
    obtain ⟨d, n⟩ := p
    simp only at a1 a2 a3 ⊢
    obtain ⟨_, b2⟩ := shlLoop2_spec hw d n (by rw [a1]; omega)
    rw [b2 i, a3 i]
    by_cases hin : i < n
    · have : ¬ (k ≤ i ∧ i < s.length) := by omega
      simp [hin, this]
    · simp only [hin, if_false]
      by_cases hil : i < s.length
      · have h1 : n ≤ i ∧ i < s.length := by omega
        have h2 : k ≤ i ∧ i < s.length := by omega
        simp [h1, h2]
      · have h1 : ¬ (n ≤ i ∧ i < s.length) := by omega
        have h2 : ¬ (k ≤ i ∧ i < s.length) := by omega
        simp only [h1, h2, if_false, decide_false, Bool.false_and]
        exact hz i (by omega)

theorem shlAssign_size (s : Raw w) (hw : 0 < w) (h : s.Inv) (k : Nat) :
    (s.shlAssign k).data.size = s.data.size := by
  obtain ⟨hcap, hz⟩ := h
  unfold shlAssign
  by_cases hk : k = 0
  · simp [hk]
  · simp only [hk, if_false]
    obtain ⟨a1, a2, _⟩ := shlLoop1_spec hw s.data s.length k hcap s.data s.length rfl (Nat.le_refl _)
      (by intro i; have : ¬ (s.length ≤ i ∧ i < s.length) := by omega
          simp [this])
    generalize shlLoop1 s.data k s.length = p at a1 a2
    obtain ⟨d, n⟩ := p
    simp only at a1 a2 ⊢
    rw [(shlLoop2_spec hw d n (by rw [a1]; omega)).1, a1]

theorem shlAssign_length (s : Raw w) (k : Nat) : (s.shlAssign k).length = s.length := by
  unfold shlAssign
  split
  · rfl
  · rfl

theorem shlAssign_refines (s : Raw w) (hw : 0 < w) (h : s.Inv) (k : Nat) :
    (s.shlAssign k).Inv ∧ (s.shlAssign k).abs = s.abs.shl k := by
  apply Raw.refines_of_bits s _ hw h _ (shlAssign_length s k) (shlAssign_size s hw h k)
  · unfold BV.shl; split <;> rfl
  · intro i hi
    rw [BV.shl_bit]
    have : ¬ (k ≤ i ∧ i < s.abs.len) := by rw [Raw.abs_len]; omega
    simp [this]
  · intro i
    rw [shlAssign_bits s hw h, BV.shl_bit, Raw.abs_bit _ _ hw, Raw.abs_len]

end Raw
end Bva
