import BvaProofs.Base
import BvaModel.Dynamic
/-!
# Shifts: `shlAssign`, `shrAssign`, `shlIn`, `shrIn`, `Bvd.shlRef`, `Bvd.shrRef`
-/
namespace Bva
variable {w : Nat}

-- ---- helpers ------------------------------------------------------------------------------------
theorem clearBits_eq_writeBits (ws : Array (BitVec w)) (pos l : Nat) :
    clearBits ws pos l = writeBits ws pos l 0#w := by
  unfold clearBits writeBits
  simp

theorem size_clearBits (ws : Array (BitVec w)) (pos l : Nat) :
    (clearBits ws pos l).size = ws.size := by
  simp [clearBits]

theorem bitAt_clearBits (ws : Array (BitVec w)) (pos l i : Nat) (hw : 0 < w)
    (hfit : pos % w + l ≤ w) (hin : pos / w < ws.size) :
    bitAt (clearBits ws pos l) i = if pos ≤ i ∧ i < pos + l then false else bitAt ws i := by
  rw [clearBits_eq_writeBits, bitAt_writeBits ws pos l i _ hw hfit hin (fun j _ => by simp)]
  simp

/-- position of `n - l` inside its word when the chunk `[n-l, n)` does not cross a word boundary -/
theorem sub_fit (hw : 0 < w) (n l : Nat) (hn : 1 ≤ n) (hl1 : 1 ≤ l) (hl : l ≤ (n - 1) % w + 1) :
    (n - l) % w + l = (n - 1) % w + 1 := by
  have e := idx_eq (w := w) (n - 1)
  have m := Nat.mod_lt (n - 1) hw
  have h := (div_mod_unique hw ((n - 1) / w) ((n - 1) % w + 1 - l) (by omega)).2
  have e2 : n - l = w * ((n - 1) / w) + ((n - 1) % w + 1 - l) := by omega
  rw [e2, h]; omega

-- ---- bits of the specification ------------------------------------------------------------------
theorem BV.shl_bit (a : BV) (k i : Nat) :
    (a.shl k).bit i = (decide (k ≤ i ∧ i < a.len) && a.bit (i - k)) := by
  unfold BV.shl BV.bit
  split
  · rename_i h
    have : ¬ (k ≤ i ∧ i < a.len) := by omega
    simp [this]
  · simp only [Nat.testBit_mod_two_pow, Nat.testBit_shiftLeft]
    by_cases h1 : k ≤ i <;> by_cases h2 : i < a.len <;> simp [h1, h2]

theorem BV.shr_bit (a : BV) (ha : a.WF) (k i : Nat) :
    (a.shr k).bit i = (decide (i + k < a.len) && a.bit (i + k)) := by
  unfold BV.shr BV.bit
  split
  · rename_i h
    have : ¬ (i + k < a.len) := by omega
    simp [this]
  · simp only [Nat.testBit_shiftRight]
    rw [Nat.add_comm k i]
    by_cases h1 : i + k < a.len
    · simp [h1]
    · simp only [h1, decide_false, Bool.false_and]
      exact Nat.testBit_lt_two_pow (Nat.lt_of_lt_of_le ha (Nat.pow_le_pow_right (by omega) (by omega)))

/-- a result with the same length, enough allocation, and the bits of the spec refines it -/
theorem Raw.refines_of_bits (s t : Raw w) (hw : 0 < w) (b : BV)
    (hlen : t.length = s.length) (hcap : s.length ≤ t.data.size * w) (hbl : b.len = s.length)
    (hz : ∀ i, s.length ≤ i → b.bit i = false)
    (hb : ∀ i, bitAt t.data i = b.bit i) : t.Inv ∧ t.abs = b := by
  constructor
  · refine ⟨by rw [hlen]; exact hcap, fun i hi => ?_⟩
    rw [hb i]; exact hz i (by omega)
  · apply BV.ext_bits
    · rw [Raw.abs_len, hlen, hbl]
    · intro i; rw [Raw.abs_bit _ _ hw, hb]

-- ---- shrAssign ----------------------------------------------------------------------------------
namespace Raw

theorem shrLoop1_spec (hw : 0 < w) (ws0 : Array (BitVec w)) (length shift : Nat)
    (hfit : length ≤ ws0.size * w) (ws : Array (BitVec w)) (newIdx : Nat) (hsz : ws.size = ws0.size)
    (hinv : ∀ i, bitAt ws i = if i < newIdx then bitAt ws0 (i + shift) else bitAt ws0 i) :
    (shrLoop1 ws shift length newIdx).1.size = ws0.size ∧
    length ≤ (shrLoop1 ws shift length newIdx).2 + shift ∧
    newIdx ≤ (shrLoop1 ws shift length newIdx).2 ∧
    (∀ i, bitAt (shrLoop1 ws shift length newIdx).1 i =
      if i < (shrLoop1 ws shift length newIdx).2 then bitAt ws0 (i + shift) else bitAt ws0 i) := by
  fun_induction shrLoop1 ws shift length newIdx with
  | case1 ws newIdx hlt oldIdx l ih =>
    have m1 := Nat.mod_lt newIdx hw
    have m2 := Nat.mod_lt (newIdx + shift) hw
    have hl1 : 0 < l := by simp only [l, oldIdx]; omega
    have hfit1 : newIdx % w + l ≤ w := by simp only [l, oldIdx]; omega
    have hfit2 : oldIdx % w + l ≤ w := by simp only [l, oldIdx]; omega
    have hin : newIdx / w < ws.size := by
      rw [hsz]; apply div_lt_of_lt_mul _ _ hw; omega
    have step := ih (by rw [size_writeBits]; exact hsz)
        (by
          intro i
          rw [bitAt_writeBits ws newIdx l i _ hw hfit1 hin (fun j hj => readBits_high ws _ l j hj)]
          split
          · rename_i hi
            rw [getLsbD_readBits ws _ l _ hw hfit2]
            have h1 : i - newIdx < l := by omega
            have e : oldIdx + (i - newIdx) = i + shift := by simp only [oldIdx]; omega
            have hlt2 : i < newIdx + l := by omega
            rw [e, hinv (i + shift)]
            have h3 : ¬ (i + shift < newIdx) := by omega
            simp [h1, hlt2, h3]
          · rename_i hi
            rw [hinv i]
            by_cases h1 : i < newIdx
            · have : i < newIdx + l := by omega
              simp [h1, this]
            · have : ¬ i < newIdx + l := by omega
              simp [h1, this])
    obtain ⟨s1, s2, s3, s4⟩ := step
    exact ⟨s1, s2, by omega, s4⟩
  | case2 ws newIdx hlt =>
    exact ⟨hsz, by omega, by omega, hinv⟩

theorem shrLoop2_spec (hw : 0 < w) (length : Nat) (ws : Array (BitVec w)) (newIdx : Nat)
    (hfit : length ≤ ws.size * w) :
    (shrLoop2 ws length newIdx).size = ws.size ∧
    (∀ i, i < newIdx → bitAt (shrLoop2 ws length newIdx) i = bitAt ws i) ∧
    (∀ i, newIdx ≤ i → i < length → bitAt (shrLoop2 ws length newIdx) i = false) ∧
    (∀ i, bitAt ws i = false → bitAt (shrLoop2 ws length newIdx) i = false) := by
  fun_induction shrLoop2 ws length newIdx with
  | case1 ws newIdx hlt l ih =>
    have m1 := Nat.mod_lt newIdx hw
    have hl1 : 0 < l := by simp only [l]; omega
    have hfit1 : newIdx % w + l ≤ w := by simp only [l]; omega
    have hin : newIdx / w < ws.size := by
      apply div_lt_of_lt_mul _ _ hw; omega
    have hb := fun i => bitAt_clearBits ws newIdx l i hw hfit1 hin
    obtain ⟨s1, s2, s3, s4⟩ := ih (by rw [size_clearBits]; exact hfit)
    refine ⟨by rw [s1, size_clearBits], ?_, ?_, ?_⟩
    · intro i hi
      rw [s2 i (by omega), hb i]
      have : ¬ (newIdx ≤ i ∧ i < newIdx + l) := by omega
      simp [this]
    · intro i h1 h2
      by_cases h3 : i < newIdx + l
      · apply s4; rw [hb i]; simp [h1, h3]
      · exact s3 i (by omega) h2
    · intro i hi
      apply s4; rw [hb i]; split <;> simp [hi]
  | case2 ws newIdx hlt =>
    refine ⟨rfl, fun _ _ => rfl, ?_, fun _ h => h⟩
    intro i h1 h2
    exact absurd ⟨by omega, hw⟩ hlt

theorem shrAssign_bits (s : Raw w) (hw : 0 < w) (h : s.Inv) (k i : Nat) :
    bitAt (s.shrAssign k).data i = (decide (i + k < s.length) && bitAt s.data (i + k)) := by
  obtain ⟨hcap, hz⟩ := h
  unfold shrAssign
  by_cases hk : k = 0
  · subst hk
    simp only [if_true, Nat.add_zero]
    by_cases hi : i < s.length
    · simp [hi]
    · rw [hz i (by omega)]; simp
  · simp only [hk, if_false]
    obtain ⟨a1, a2, _, a4⟩ := shrLoop1_spec hw s.data s.length k hcap s.data 0 rfl (by intro i; simp)
    generalize shrLoop1 s.data k s.length 0 = p at a1 a2 a4
    obtain ⟨d, n⟩ := p
    simp only at a1 a2 a4 ⊢
    obtain ⟨_, b2, b3, b4⟩ := shrLoop2_spec hw s.length d n (by rw [a1]; exact hcap)
    by_cases hik : i + k < s.length
    · have hin : i < n := by omega
      rw [b2 i hin, a4 i]; simp [hin, hik]
    · simp only [hik, decide_false, Bool.false_and]
      by_cases hin : i < n
      · rw [b2 i hin, a4 i]; simp only [hin, if_true]; exact hz _ (by omega)
      · by_cases hil : i < s.length
        · exact b3 i (by omega) hil
        · apply b4; rw [a4 i]; simp only [hin, if_false]; exact hz _ (by omega)

theorem shrAssign_size (s : Raw w) (hw : 0 < w) (h : s.Inv) (k : Nat) :
    (s.shrAssign k).data.size = s.data.size := by
  obtain ⟨hcap, hz⟩ := h
  unfold shrAssign
  by_cases hk : k = 0
  · simp [hk]
  · simp only [hk, if_false]
    obtain ⟨a1, _, _, _⟩ := shrLoop1_spec hw s.data s.length k hcap s.data 0 rfl (by intro i; simp)
    generalize shrLoop1 s.data k s.length 0 = p at a1
    obtain ⟨d, n⟩ := p
    simp only at a1 ⊢
    rw [(shrLoop2_spec hw s.length d n (by rw [a1]; exact hcap)).1, a1]

theorem shrAssign_length (s : Raw w) (k : Nat) : (s.shrAssign k).length = s.length := by
  unfold shrAssign
  split
  · rfl
  · rfl

theorem shrAssign_refines (s : Raw w) (hw : 0 < w) (h : s.Inv) (k : Nat) :
    (s.shrAssign k).Inv ∧ (s.shrAssign k).abs = s.abs.shr k := by
  apply Raw.refines_of_bits s _ hw _ (shrAssign_length s k)
    (by rw [shrAssign_size s hw h k]; exact h.1)
  · unfold BV.shr; split <;> rfl
  · intro i hi
    rw [BV.shr_bit _ (h.wf hw)]
    have : ¬ (i + k < s.abs.len) := by rw [Raw.abs_len]; omega
    simp [this]
  · intro i
    rw [shrAssign_bits s hw h, BV.shr_bit _ (h.wf hw), Raw.abs_bit _ _ hw, Raw.abs_len]

-- ---- shlAssign ----------------------------------------------------------------------------------
theorem shlLoop1_spec (hw : 0 < w) (ws0 : Array (BitVec w)) (length shift : Nat)
    (hfit : length ≤ ws0.size * w) (ws : Array (BitVec w)) (newIdx : Nat) (hsz : ws.size = ws0.size)
    (hle : newIdx ≤ length)
    (hinv : ∀ i, bitAt ws i = if newIdx ≤ i ∧ i < length then bitAt ws0 (i - shift) else bitAt ws0 i) :
    (shlLoop1 ws shift newIdx).1.size = ws0.size ∧
    (shlLoop1 ws shift newIdx).2 = min shift newIdx ∧
    (∀ i, bitAt (shlLoop1 ws shift newIdx).1 i =
      if (shlLoop1 ws shift newIdx).2 ≤ i ∧ i < length then bitAt ws0 (i - shift) else bitAt ws0 i) := by
  fun_induction shlLoop1 ws shift newIdx with
  | case1 ws newIdx hlt l n' ih =>
    have m1 := Nat.mod_lt (newIdx - 1) hw
    have m2 := Nat.mod_lt (newIdx - shift - 1) hw
    have hl1 : 1 ≤ l := by simp only [l]; omega
    have hla : l ≤ (newIdx - 1) % w + 1 := by simp only [l]; omega
    have hlb : l ≤ (newIdx - shift - 1) % w + 1 := by simp only [l]; omega
    have hmle : (newIdx - shift - 1) % w ≤ newIdx - shift - 1 := Nat.mod_le _ _
    have hln : l ≤ newIdx - shift := by omega
    have hfit1 : n' % w + l ≤ w := by
      have := sub_fit hw newIdx l (by omega) hl1 hla
      simp only [n']; omega
    have hfit2 : (n' - shift) % w + l ≤ w := by
      have := sub_fit hw (newIdx - shift) l (by omega) hl1 hlb
      have e : n' - shift = newIdx - shift - l := by simp only [n']; omega
      rw [e]; omega
    have hin : n' / w < ws.size := by
      rw [hsz]; apply div_lt_of_lt_mul _ _ hw; simp only [n']; omega
    have step := ih (by rw [size_writeBits]; exact hsz) (by simp only [n']; omega)
        (by
          intro i
          rw [bitAt_writeBits ws n' l i _ hw hfit1 hin (fun j hj => readBits_high ws _ l j hj)]
          split
          · rename_i hi
            rw [getLsbD_readBits ws _ l _ hw hfit2]
            have h1 : i - n' < l := by omega
            have e : n' - shift + (i - n') = i - shift := by simp only [n'] at hi ⊢; omega
            rw [e, hinv (i - shift)]
            have h3 : ¬ (newIdx ≤ i - shift ∧ i - shift < length) := by simp only [n'] at hi; omega
            have h4 : n' ≤ i ∧ i < length := by simp only [n'] at hi ⊢; omega
            simp [h1, h3, h4]
          · rename_i hi
            rw [hinv i]
            by_cases h1 : newIdx ≤ i ∧ i < length
            · have : n' ≤ i ∧ i < length := by simp only [n']; omega
              simp [h1, this]
            · have : ¬ (n' ≤ i ∧ i < length) := by simp only [n'] at hi ⊢; omega
              simp [h1, this])
    obtain ⟨s1, s2, s3⟩ := step
    exact ⟨s1, by rw [s2]; simp only [n']; omega, s3⟩
  | case2 ws newIdx hlt =>
    exact ⟨hsz, by simp only; omega, hinv⟩

theorem shlLoop2_spec (hw : 0 < w) (ws : Array (BitVec w)) (newIdx : Nat)
    (hfit : newIdx ≤ ws.size * w) :
    (shlLoop2 ws newIdx).size = ws.size ∧
    (∀ i, bitAt (shlLoop2 ws newIdx) i = if i < newIdx then false else bitAt ws i) := by
  fun_induction shlLoop2 ws newIdx with
  | case1 ws newIdx hlt l ih =>
    have m1 := Nat.mod_lt (newIdx - 1) hw
    have hmle : (newIdx - 1) % w ≤ newIdx - 1 := Nat.mod_le _ _
    have hl1 : 1 ≤ l := by simp only [l]; omega
    have hln : l ≤ newIdx := by simp only [l]; omega
    have hfit1 : (newIdx - l) % w + l ≤ w := by
      have := sub_fit hw newIdx l (by omega) hl1 (by simp only [l]; omega)
      omega
    have hin : (newIdx - l) / w < ws.size := by
      apply div_lt_of_lt_mul _ _ hw; omega
    have hb := fun i => bitAt_clearBits ws (newIdx - l) l i hw hfit1 hin
    obtain ⟨s1, s2⟩ := ih (by rw [size_clearBits]; omega)
    refine ⟨by rw [s1, size_clearBits], ?_⟩
    intro i
    rw [s2 i, hb i]
    by_cases h1 : i < newIdx - l
    · have : i < newIdx := by omega
      simp [h1, this]
    · by_cases h2 : i < newIdx
      · have : newIdx - l ≤ i ∧ i < newIdx - l + l := by omega
        rw [if_neg h1, if_pos this, if_pos h2]
      · have : ¬ (newIdx - l ≤ i ∧ i < newIdx - l + l) := by omega
        rw [if_neg h1, if_neg this, if_neg h2]
  | case2 ws newIdx hlt =>
    refine ⟨rfl, fun i => ?_⟩
    have : ¬ i < newIdx := by omega
    simp [this]

theorem shlAssign_bits (s : Raw w) (hw : 0 < w) (h : s.Inv) (k i : Nat) :
    bitAt (s.shlAssign k).data i = (decide (k ≤ i ∧ i < s.length) && bitAt s.data (i - k)) := by
  obtain ⟨hcap, hz⟩ := h
  unfold shlAssign
  by_cases hk : k = 0
  · subst hk
    simp only [if_true, Nat.sub_zero, Nat.zero_le, true_and]
    by_cases hi : i < s.length
    · simp [hi]
    · rw [hz i (by omega)]; simp
  · simp only [hk, if_false]
    obtain ⟨a1, a2, a3⟩ := shlLoop1_spec hw s.data s.length k hcap s.data s.length rfl (Nat.le_refl _)
      (by intro i; have : ¬ (s.length ≤ i ∧ i < s.length) := by omega
          simp [this])
    generalize shlLoop1 s.data k s.length = p at a1 a2 a3
    obtain ⟨d, n⟩ := p
    simp only at a1 a2 a3 ⊢
    obtain ⟨_, b2⟩ := shlLoop2_spec hw d n (by rw [a1]; omega)
    rw [b2 i, a3 i]
    by_cases hin : i < n
    · have : ¬ (k ≤ i ∧ i < s.length) := by omega
      simp [hin, this]
    · simp only [hin, if_false]
      by_cases hil : i < s.length
      · have h1 : n ≤ i ∧ i < s.length := by omega
        have h2 : k ≤ i ∧ i < s.length := by omega
        simp [h1, h2]
      · have h1 : ¬ (n ≤ i ∧ i < s.length) := by omega
        have h2 : ¬ (k ≤ i ∧ i < s.length) := by omega
        simp only [h1, h2, if_false, decide_false, Bool.false_and]
        exact hz i (by omega)

theorem shlAssign_size (s : Raw w) (hw : 0 < w) (h : s.Inv) (k : Nat) :
    (s.shlAssign k).data.size = s.data.size := by
  obtain ⟨hcap, hz⟩ := h
  unfold shlAssign
  by_cases hk : k = 0
  · simp [hk]
  · simp only [hk, if_false]
    obtain ⟨a1, a2, _⟩ := shlLoop1_spec hw s.data s.length k hcap s.data s.length rfl (Nat.le_refl _)
      (by intro i; have : ¬ (s.length ≤ i ∧ i < s.length) := by omega
          simp [this])
    generalize shlLoop1 s.data k s.length = p at a1 a2
    obtain ⟨d, n⟩ := p
    simp only at a1 a2 ⊢
    rw [(shlLoop2_spec hw d n (by rw [a1]; omega)).1, a1]

theorem shlAssign_length (s : Raw w) (k : Nat) : (s.shlAssign k).length = s.length := by
  unfold shlAssign
  split
  · rfl
  · rfl

theorem shlAssign_refines (s : Raw w) (hw : 0 < w) (h : s.Inv) (k : Nat) :
    (s.shlAssign k).Inv ∧ (s.shlAssign k).abs = s.abs.shl k := by
  apply Raw.refines_of_bits s _ hw _ (shlAssign_length s k)
    (by rw [shlAssign_size s hw h k]; exact h.1)
  · unfold BV.shl; split <;> rfl
  · intro i hi
    rw [BV.shl_bit]
    have : ¬ (k ≤ i ∧ i < s.abs.len) := by rw [Raw.abs_len]; omega
    simp [this]
  · intro i
    rw [shlAssign_bits s hw h, BV.shl_bit, Raw.abs_bit _ _ hw, Raw.abs_len]

end Raw

-- ---- word-level helpers for shlIn / shrIn -----------------------------------------------------------
theorem getLsbD_wd (ws : Array (BitVec w)) (hw : 0 < w) (j m : Nat) (hm : m < w) :
    (wd ws j).getLsbD m = bitAt ws (w * j + m) := by
  unfold bitAt
  obtain ⟨h1, h2⟩ := div_mod_unique hw j m hm
  rw [h1, h2]

theorem bitAt_setIfInBounds (ws : Array (BitVec w)) (j : Nat) (v : BitVec w) (i : Nat)
    (hj : j < ws.size) :
    bitAt (ws.setIfInBounds j v) i = if i / w = j then v.getLsbD (i % w) else bitAt ws i := by
  unfold bitAt wd
  simp only [Array.getD_eq_getD_getElem?, Array.getElem?_setIfInBounds]
  by_cases h : j = i / w
  · subst h; simp [hj]
  · have : ¬ i / w = j := fun e => h e.symm
    simp [h, this]

theorem getLsbD_b2w (c : Bool) (m : Nat) :
    (b2w w c).getLsbD m = (decide (0 < w) && decide (m = 0) && c) := by
  unfold b2w; cases c <;> simp [BitVec.getLsbD_one]

theorem getLsbD_shl1_or (x : BitVec w) (c : Bool) (m : Nat) (hm : m < w) :
    ((x <<< 1) ||| b2w w c).getLsbD m = if m = 0 then c else x.getLsbD (m - 1) := by
  rw [BitVec.getLsbD_or, BitVec.getLsbD_shiftLeft, getLsbD_b2w]
  by_cases h0 : m = 0
  · subst h0; simp [hm]
  · have : ¬ m < 1 := by omega
    simp [h0, hm, this]

theorem getLsbD_shr1_or (x : BitVec w) (c : Bool) (r m : Nat) (hr : r < w) :
    ((x >>> 1) ||| (b2w w c <<< r)).getLsbD m = (x.getLsbD (m + 1) || (decide (m = r) && c)) := by
  rw [BitVec.getLsbD_or, BitVec.getLsbD_shiftLeft, getLsbD_b2w, BitVec.getLsbD_ushiftRight,
    Nat.add_comm 1 m]
  congr 1
  by_cases h0 : m = r
  · subst h0; simp [hr]; omega
  · by_cases h1 : m < r
    · simp [h0, h1]
    · have : ¬ (m - r = 0) := by omega
      simp [h0, this]

-- ---- shlIn -------------------------------------------------------------------------------------------
/-- loop body of `shlIn` -/
def shlInStep (i : Nat) (p : Array (BitVec w) × Bool) : Array (BitVec w) × Bool :=
  let x := wd p.1 i
  (p.1.setIfInBounds i ((x <<< 1) ||| b2w w p.2), ((x >>> (w - 1)) &&& 1#w) != 0#w)

theorem shlInFold_spec (hw : 0 < w) (d0 : Array (BitVec w)) (c0 : Bool) (k : Nat)
    (hk : k ≤ d0.size) :
    ((List.range' 0 k).foldl (fun p i => shlInStep i p) (d0, c0)).1.size = d0.size ∧
    (∀ i, bitAt ((List.range' 0 k).foldl (fun p i => shlInStep i p) (d0, c0)).1 i =
      if i / w < k then (if i = 0 then c0 else bitAt d0 (i - 1)) else bitAt d0 i) ∧
    ((List.range' 0 k).foldl (fun p i => shlInStep i p) (d0, c0)).2 =
      if k = 0 then c0 else bitAt d0 (w * k - 1) := by
  induction k with
  | zero => simp
  | succ k ih =>
    obtain ⟨h1, h2, h3⟩ := ih (by omega)
    rw [List.range'_concat, List.foldl_append]
    simp only [List.foldl_cons, List.foldl_nil, Nat.zero_add, Nat.one_mul]
    generalize (List.range' 0 k).foldl (fun p i => shlInStep i p) (d0, c0) = r at h1 h2 h3
    have hks : k < r.1.size := by omega
    have hwd : ∀ m, m < w → (wd r.1 k).getLsbD m = bitAt d0 (w * k + m) := by
      intro m hm
      rw [getLsbD_wd _ hw _ _ hm, h2]
      have := (div_mod_unique hw k m hm).1
      rw [this]; simp
    refine ⟨by simp [shlInStep, h1], ?_, ?_⟩
    · intro i
      have mi := Nat.mod_lt i hw
      have ei := idx_eq (w := w) i
      simp only [shlInStep]
      rw [bitAt_setIfInBounds _ _ _ _ hks]
      by_cases hik : i / w = k
      · have hlt1 : i / w < k + 1 := by omega
        rw [if_pos hik, getLsbD_shl1_or _ _ _ mi, if_pos hlt1]
        rw [hik] at ei
        by_cases hm0 : i % w = 0
        · rw [if_pos hm0, h3]
          by_cases hk0 : k = 0
          · subst hk0
            have : i = 0 := by omega
            simp [this]
          · have hi0 : ¬ i = 0 := by
              have : w * 1 ≤ w * k := Nat.mul_le_mul_left w (by omega)
              omega
            rw [if_neg hk0, if_neg hi0]
            congr 1; omega
        · have hi0 : ¬ i = 0 := by omega
          rw [if_neg hm0, if_neg hi0, hwd _ (by omega)]
          congr 1; omega
      · rw [if_neg hik, h2]
        by_cases hlt : i / w < k
        · have hlt1 : i / w < k + 1 := by omega
          rw [if_pos hlt, if_pos hlt1]
        · have hlt1 : ¬ i / w < k + 1 := by omega
          rw [if_neg hlt, if_neg hlt1]
    · simp only [shlInStep]
      rw [and_one_ne_zero, hwd _ (by omega), if_neg (by omega)]
      congr 1
      rw [Nat.mul_succ]; omega

/-- the word loop of `shlIn` -/
def Raw.shlInFold (s : Raw w) (bit : Bool) : Array (BitVec w) × Bool :=
  (List.range' 0 (s.length / w)).foldl (fun p i => shlInStep i p) (s.data, bit)

theorem Raw.shlIn_eq (s : Raw w) (bit : Bool) :
    s.shlIn bit =
      if s.length % w ≠ 0 then
        (⟨Array.setIfInBounds (s.shlInFold bit).fst (s.length / w)
              (((wd (s.shlInFold bit).fst (s.length / w) <<< 1) ||| b2w w (s.shlInFold bit).snd) &&&
                mask w (s.length % w)), s.length⟩,
          ((wd (s.shlInFold bit).fst (s.length / w) >>> (s.length % w - 1)) &&& 1#w) != 0#w)
      else (⟨(s.shlInFold bit).fst, s.length⟩, (s.shlInFold bit).snd) := by
  rfl

theorem div_le_size (_hw : 0 < w) (n sz : Nat) (h : n ≤ sz * w) : n / w ≤ sz :=
  Nat.div_le_of_le_mul (by rw [Nat.mul_comm]; exact h)

theorem div_lt_size (_hw : 0 < w) (n sz : Nat) (h : n ≤ sz * w) (hr : n % w ≠ 0) : n / w < sz := by
  have e := idx_eq (w := w) n
  have hc : sz * w = w * sz := Nat.mul_comm _ _
  exact Nat.lt_of_mul_lt_mul_left (a := w) (by omega)

theorem Raw.shlIn_bits (s : Raw w) (hw : 0 < w) (h : s.Inv) (b : Bool) :
    (s.shlIn b).1.length = s.length ∧ (s.shlIn b).1.data.size = s.data.size ∧
    (∀ i, bitAt (s.shlIn b).1.data i =
      (decide (i < s.length) && (if i = 0 then b else bitAt s.data (i - 1)))) ∧
    (s.shlIn b).2 = (if s.length = 0 then b else bitAt s.data (s.length - 1)) := by
  obtain ⟨hcap, hz⟩ := h
  obtain ⟨h1, h2, h3⟩ := shlInFold_spec hw s.data b (s.length / w) (div_le_size hw _ _ hcap)
  rw [Raw.shlIn_eq]
  unfold Raw.shlInFold
  generalize (List.range' 0 (s.length / w)).foldl (fun p i => shlInStep i p) (s.data, b) = r
    at h1 h2 h3
  have eL := idx_eq (w := w) s.length
  have mL := Nat.mod_lt s.length hw
  have hwd : ∀ m, m < w → (wd r.1 (s.length / w)).getLsbD m = bitAt s.data (w * (s.length / w) + m) := by
    intro m hm
    rw [getLsbD_wd _ hw _ _ hm, h2]
    have := (div_mod_unique hw (s.length / w) m hm).1
    rw [this]; simp
  by_cases hr : s.length % w ≠ 0
  · rw [if_pos hr]
    have hJ : s.length / w < r.1.size := by rw [h1]; exact div_lt_size hw _ _ hcap hr
    refine ⟨rfl, by simp [h1], ?_, ?_⟩
    · intro i
      have mi := Nat.mod_lt i hw
      have ei := idx_eq (w := w) i
      have key := lt_iff_div_mod hw i s.length
      simp only
      rw [bitAt_setIfInBounds _ _ _ _ hJ]
      by_cases hik : i / w = s.length / w
      · rw [if_pos hik, BitVec.getLsbD_and, getLsbD_mask, getLsbD_shl1_or _ _ _ mi]
        rw [hik] at ei
        have hlt : (i < s.length) ↔ (i % w < s.length % w) := by rw [key]; omega
        rw [Bool.and_comm]
        congr 1
        · simp [mi, hlt]
        · by_cases hm0 : i % w = 0
          · rw [if_pos hm0, h3]
            by_cases hk0 : s.length / w = 0
            · have : i = 0 := by rw [hk0] at ei; omega
              rw [if_pos hk0, if_pos this]
            · have hi0 : ¬ i = 0 := by
                have : w * 1 ≤ w * (s.length / w) := Nat.mul_le_mul_left w (Nat.pos_of_ne_zero hk0)
                omega
              rw [if_neg hk0, if_neg hi0]
              congr 1; omega
          · have hi0 : ¬ i = 0 := by omega
            rw [if_neg hm0, if_neg hi0, hwd _ (by omega)]
            congr 1; omega
      · rw [if_neg hik, h2]
        by_cases hlt : i / w < s.length / w
        · have : i < s.length := key.mpr (Or.inl hlt)
          rw [if_pos hlt]; simp [this]
        · have : ¬ i < s.length := by rw [key]; omega
          rw [if_neg hlt, hz i (by omega)]; simp [this]
    · simp only
      rw [and_one_ne_zero, hwd _ (by omega), if_neg (by omega)]
      congr 1; omega
  · have hr0 : s.length % w = 0 := by omega
    rw [if_neg hr]
    refine ⟨rfl, h1, ?_, ?_⟩
    · intro i
      have key := lt_iff_div_mod hw i s.length
      simp only
      rw [h2]
      by_cases hlt : i / w < s.length / w
      · have : i < s.length := key.mpr (Or.inl hlt)
        rw [if_pos hlt]; simp [this]
      · have : ¬ i < s.length := by rw [key]; omega
        rw [if_neg hlt, hz i (by omega)]; simp [this]
    · simp only
      rw [h3]
      by_cases hk0 : s.length / w = 0
      · have : s.length = 0 := by rw [hk0] at eL; omega
        rw [if_pos hk0, if_pos this]
      · have : w * 1 ≤ w * (s.length / w) := Nat.mul_le_mul_left w (Nat.pos_of_ne_zero hk0)
        rw [if_neg hk0, if_neg (by omega)]
        congr 1; omega

theorem BV.shlIn_len (a : BV) (b : Bool) : (a.shlIn b).1.len = a.len := by
  unfold BV.shlIn; split <;> rfl

theorem BV.shlIn_snd (a : BV) (b : Bool) :
    (a.shlIn b).2 = if a.len = 0 then b else a.bit (a.len - 1) := by
  unfold BV.shlIn; split <;> rfl

theorem BV.shlIn_bit (a : BV) (ha : a.WF) (b : Bool) (i : Nat) :
    (a.shlIn b).1.bit i = (decide (i < a.len) && (if i = 0 then b else a.bit (i - 1))) := by
  unfold BV.shlIn BV.bit
  unfold BV.WF at ha
  split
  · rename_i h0
    rw [h0] at ha
    have hv : a.val = 0 := by omega
    simp [h0, hv]
  · simp only [Nat.testBit_mod_two_pow]
    congr 1
    cases i with
    | zero =>
      rw [Nat.testBit_zero]
      cases b <;> simp <;> omega
    | succ j =>
      rw [Nat.testBit_succ]
      have : (2 * a.val + b.toNat) / 2 = a.val := by cases b <;> simp <;> omega
      rw [this]; simp

theorem Raw.shlIn_refines (s : Raw w) (hw : 0 < w) (h : s.Inv) (b : Bool) :
    ((s.shlIn b).1).Inv ∧ ((s.shlIn b).1.abs, (s.shlIn b).2) = s.abs.shlIn b := by
  obtain ⟨h1, h2, h3, h4⟩ := Raw.shlIn_bits s hw h b
  have hr := Raw.refines_of_bits s (s.shlIn b).1 hw (s.abs.shlIn b).1 h1
    (by rw [h2]; exact h.1) (BV.shlIn_len _ _)
    (by intro i hi
        rw [BV.shlIn_bit _ (h.wf hw)]
        have : ¬ i < s.abs.len := by rw [Raw.abs_len]; omega
        simp [this])
    (by intro i
        rw [h3 i, BV.shlIn_bit _ (h.wf hw), Raw.abs_bit _ _ hw, Raw.abs_len])
  refine ⟨hr.1, ?_⟩
  apply Prod.ext
  · exact hr.2
  · simp only
    rw [h4, BV.shlIn_snd, Raw.abs_bit _ _ hw, Raw.abs_len]

-- ---- shrIn -------------------------------------------------------------------------------------------
theorem and_one_ne_zero' (x : BitVec w) : ((x &&& 1#w) != 0#w) = x.getLsbD 0 := by
  have := and_one_ne_zero x 0
  simpa using this

theorem div_eq_of_range (hw : 0 < w) (i a : Nat) (h1 : w * a ≤ i) (h2 : i < w * a + w) :
    i / w = a ∧ i % w = i - w * a := by
  have h := div_mod_unique hw a (i - w * a) (by omega)
  have e : w * a + (i - w * a) = i := by omega
  rw [e] at h; exact h

theorem range_of_div_eq (hw : 0 < w) (i a : Nat) (h : i / w = a) : w * a ≤ i ∧ i < w * a + w := by
  have e := idx_eq (w := w) i
  have m := Nat.mod_lt i hw
  rw [h] at e; omega

/-- loop body of `shrIn` -/
def shrInStep (i : Nat) (p : Array (BitVec w) × Bool) : Array (BitVec w) × Bool :=
  let x := wd p.1 i
  (p.1.setIfInBounds i ((x >>> 1) ||| (b2w w p.2 <<< (w - 1))), (x &&& 1#w) != 0#w)

theorem shrInFold_spec (hw : 0 < w) (d0 : Array (BitVec w)) (c0 : Bool) (k : Nat) :
    ∀ a, a + k ≤ d0.size →
    ((List.range' a k).foldr (fun i p => shrInStep i p) (d0, c0)).1.size = d0.size ∧
    (∀ i, bitAt ((List.range' a k).foldr (fun i p => shrInStep i p) (d0, c0)).1 i =
      if w * a ≤ i ∧ i < w * a + w * k then (if i + 1 = w * a + w * k then c0 else bitAt d0 (i + 1))
      else bitAt d0 i) ∧
    ((List.range' a k).foldr (fun i p => shrInStep i p) (d0, c0)).2 =
      if k = 0 then c0 else bitAt d0 (w * a) := by
  induction k with
  | zero =>
    intro a _
    refine ⟨rfl, fun i => ?_, rfl⟩
    have : ¬ (w * a ≤ i ∧ i < w * a + w * 0) := by omega
    rw [if_neg this]; rfl
  | succ k ih =>
    intro a ha
    obtain ⟨h1, h2, h3⟩ := ih (a + 1) (by omega)
    rw [List.range'_succ, List.foldr_cons]
    generalize (List.range' (a + 1) k).foldr (fun i p => shrInStep i p) (d0, c0) = r at h1 h2 h3
    have hA : w * (a + 1) = w * a + w := Nat.mul_succ w a
    have hK : w * (k + 1) = w * k + w := Nat.mul_succ w k
    rw [hA] at h2 h3
    have has : a < r.1.size := by omega
    have hwd : ∀ m, m < w → (wd r.1 a).getLsbD m = bitAt d0 (w * a + m) := by
      intro m hm
      rw [getLsbD_wd _ hw _ _ hm, h2]
      have : ¬ (w * a + w ≤ w * a + m ∧ w * a + m < w * a + w + w * k) := by omega
      rw [if_neg this]
    refine ⟨by simp [shrInStep, h1], ?_, ?_⟩
    · intro i
      simp only [shrInStep]
      rw [bitAt_setIfInBounds _ _ _ _ has, hK]
      by_cases hia : w * a ≤ i ∧ i < w * a + w
      · obtain ⟨hd, hm⟩ := div_eq_of_range hw i a hia.1 hia.2
        have c2 : w * a ≤ i ∧ i < w * a + (w * k + w) := by omega
        rw [if_pos hd, if_pos c2, getLsbD_shr1_or _ _ _ _ (by omega : w - 1 < w)]
        by_cases hlast : i % w = w - 1
        · rw [BitVec.getLsbD_of_ge _ _ (by omega : w ≤ i % w + 1), h3]
          simp only [hlast, decide_true, Bool.true_and, Bool.false_or]
          by_cases hk0 : k = 0
          · subst hk0
            rw [if_pos rfl, if_pos (by omega)]
          · have : w * 1 ≤ w * k := Nat.mul_le_mul_left w (Nat.pos_of_ne_zero hk0)
            have c3 : ¬ (i + 1 = w * a + (w * k + w)) := by omega
            rw [if_neg hk0, if_neg c3]
            congr 1; omega
        · have c3 : ¬ (i + 1 = w * a + (w * k + w)) := by omega
          rw [if_neg c3, hwd _ (by omega)]
          simp only [hlast, decide_false, Bool.false_and, Bool.or_false]
          congr 1; omega
      · have hd : ¬ i / w = a := fun e => hia (range_of_div_eq hw i a e)
        rw [if_neg hd, h2]
        by_cases c1 : w * a + w ≤ i ∧ i < w * a + w + w * k
        · have c2 : w * a ≤ i ∧ i < w * a + (w * k + w) := by omega
          rw [if_pos c1, if_pos c2]
          by_cases c3 : i + 1 = w * a + w + w * k
          · have c4 : i + 1 = w * a + (w * k + w) := by omega
            rw [if_pos c3, if_pos c4]
          · have c4 : ¬ (i + 1 = w * a + (w * k + w)) := by omega
            rw [if_neg c3, if_neg c4]
        · have c2 : ¬ (w * a ≤ i ∧ i < w * a + (w * k + w)) := by omega
          rw [if_neg c1, if_neg c2]
    · simp only [shrInStep]
      rw [and_one_ne_zero', hwd _ hw, if_neg (by omega)]
      rfl

/-- the partial top word of `shrIn` -/
def Raw.shrInTop (s : Raw w) (bit : Bool) : Array (BitVec w) × Bool :=
  if s.length % w ≠ 0 then
    (s.data.setIfInBounds (s.length / w)
      ((wd s.data (s.length / w) >>> 1) ||| (b2w w bit <<< (s.length % w - 1))),
     (wd s.data (s.length / w) &&& 1#w) != 0#w)
  else (s.data, bit)

theorem Raw.shrIn_eq (s : Raw w) (bit : Bool) :
    s.shrIn bit =
      (⟨((List.range' 0 (s.length / w)).foldr (fun i p => shrInStep i p) (s.shrInTop bit)).fst, s.length⟩,
        ((List.range' 0 (s.length / w)).foldr (fun i p => shrInStep i p) (s.shrInTop bit)).snd) := by
  rfl

theorem Raw.shrInTop_spec (s : Raw w) (hw : 0 < w) (h : s.Inv) (b : Bool) :
    (s.shrInTop b).1.size = s.data.size ∧
    (∀ i, bitAt (s.shrInTop b).1 i =
      if (w * (s.length / w) ≤ i ∧ i < w * (s.length / w) + w) ∧ s.length % w ≠ 0 then
        (if i + 1 = s.length then b else bitAt s.data (i + 1))
      else bitAt s.data i) ∧
    (s.shrInTop b).2 = if s.length % w ≠ 0 then bitAt s.data (w * (s.length / w)) else b := by
  obtain ⟨hcap, hz⟩ := h
  have eL := idx_eq (w := w) s.length
  have mL := Nat.mod_lt s.length hw
  unfold Raw.shrInTop
  by_cases hr : s.length % w ≠ 0
  · rw [if_pos hr, if_pos hr]
    have hJ : s.length / w < s.data.size := div_lt_size hw _ _ hcap hr
    refine ⟨by simp, ?_, ?_⟩
    · intro i
      simp only
      rw [bitAt_setIfInBounds _ _ _ _ hJ]
      by_cases hia : w * (s.length / w) ≤ i ∧ i < w * (s.length / w) + w
      · obtain ⟨hd, hm⟩ := div_eq_of_range hw i _ hia.1 hia.2
        rw [if_pos hd, if_pos ⟨hia, hr⟩, getLsbD_shr1_or _ _ _ _ (by omega : s.length % w - 1 < w)]
        by_cases hlast : i + 1 = s.length
        · have e1 : i % w = s.length % w - 1 := by omega
          rw [if_pos hlast]
          by_cases hge : w ≤ i % w + 1
          · rw [BitVec.getLsbD_of_ge _ _ hge]; simp [e1]
          · rw [getLsbD_wd _ hw _ _ (by omega), hz _ (by omega)]; simp [e1]
        · have e1 : ¬ (i % w = s.length % w - 1) := by omega
          rw [if_neg hlast]
          simp only [e1, decide_false, Bool.false_and, Bool.or_false]
          by_cases hge : w ≤ i % w + 1
          · rw [BitVec.getLsbD_of_ge _ _ hge, hz _ (by omega)]
          · rw [getLsbD_wd _ hw _ _ (by omega)]
            congr 1; omega
      · have hd : ¬ i / w = s.length / w := fun e => hia (range_of_div_eq hw i _ e)
        have : ¬ ((w * (s.length / w) ≤ i ∧ i < w * (s.length / w) + w) ∧ s.length % w ≠ 0) :=
          fun e => hia e.1
        rw [if_neg hd, if_neg this]
    · simp only
      rw [and_one_ne_zero', getLsbD_wd _ hw _ _ hw]
      rfl
  · rw [if_neg hr, if_neg hr]
    refine ⟨rfl, fun i => ?_, rfl⟩
    have : ¬ ((w * (s.length / w) ≤ i ∧ i < w * (s.length / w) + w) ∧ s.length % w ≠ 0) :=
      fun e => hr e.2
    rw [if_neg this]

theorem Raw.shrIn_bits (s : Raw w) (hw : 0 < w) (h : s.Inv) (b : Bool) :
    (s.shrIn b).1.length = s.length ∧ (s.shrIn b).1.data.size = s.data.size ∧
    (∀ i, bitAt (s.shrIn b).1.data i =
      (decide (i < s.length) && (if i + 1 = s.length then b else bitAt s.data (i + 1)))) ∧
    (s.shrIn b).2 = (if s.length = 0 then b else bitAt s.data 0) := by
  obtain ⟨t1, t2, t3⟩ := Raw.shrInTop_spec s hw h b
  obtain ⟨hcap, hz⟩ := h
  rw [Raw.shrIn_eq]
  generalize s.shrInTop b = T at t1 t2 t3
  obtain ⟨d1, c1⟩ := T
  simp only at t1 t2 t3
  obtain ⟨h1, h2, h3⟩ := shrInFold_spec hw d1 c1 (s.length / w) 0
    (by rw [t1, Nat.zero_add]; exact div_le_size hw _ _ hcap)
  generalize (List.range' 0 (s.length / w)).foldr (fun i p => shrInStep i p) (d1, c1) = r
    at h1 h2 h3
  have eL := idx_eq (w := w) s.length
  have mL := Nat.mod_lt s.length hw
  simp only [Nat.mul_zero, Nat.zero_add, Nat.zero_le, true_and] at h2 h3
  refine ⟨rfl, by simp only; rw [h1, t1], ?_, ?_⟩
  · intro i
    simp only
    rw [h2]
    by_cases hlo : i < w * (s.length / w)
    · have hil : i < s.length := by omega
      rw [if_pos hlo]
      simp only [hil, decide_true, Bool.true_and]
      by_cases hb : i + 1 = w * (s.length / w)
      · rw [if_pos hb, t3]
        by_cases hr : s.length % w ≠ 0
        · rw [if_pos hr, if_neg (by omega), hb]
        · rw [if_neg hr, if_pos (by omega)]
      · have : ¬ ((w * (s.length / w) ≤ i + 1 ∧ i + 1 < w * (s.length / w) + w) ∧ s.length % w ≠ 0) := by
          omega
        rw [if_neg hb, t2, if_neg this, if_neg (by omega)]
    · rw [if_neg hlo, t2]
      by_cases htop : (w * (s.length / w) ≤ i ∧ i < w * (s.length / w) + w) ∧ s.length % w ≠ 0
      · rw [if_pos htop]
        by_cases hil : i < s.length
        · simp [hil]
        · rw [if_neg (by omega), hz _ (by omega)]
          simp [hil]
      · have hil : ¬ i < s.length := by omega
        rw [if_neg htop, hz _ (by omega)]
        simp [hil]
  · simp only
    rw [h3]
    by_cases hk0 : s.length / w = 0
    · rw [if_pos hk0, t3]
      rw [hk0] at eL
      by_cases hr : s.length % w ≠ 0
      · rw [if_pos hr, if_neg (by omega), hk0]; rfl
      · rw [if_neg hr, if_pos (by omega)]
    · have : w * 1 ≤ w * (s.length / w) := Nat.mul_le_mul_left w (Nat.pos_of_ne_zero hk0)
      rw [if_neg hk0, if_neg (by omega), t2]
      have : ¬ ((w * (s.length / w) ≤ 0 ∧ 0 < w * (s.length / w) + w) ∧ s.length % w ≠ 0) := by omega
      rw [if_neg this]

theorem BV.shrIn_len (a : BV) (b : Bool) : (a.shrIn b).1.len = a.len := by
  unfold BV.shrIn; split <;> rfl

theorem BV.shrIn_snd (a : BV) (b : Bool) :
    (a.shrIn b).2 = if a.len = 0 then b else a.bit 0 := by
  unfold BV.shrIn; split <;> rfl

theorem toNat_testBit (b : Bool) (m : Nat) : b.toNat.testBit m = (decide (m = 0) && b) := by
  cases b
  · simp
  · cases m with
    | zero => simp
    | succ m => simp [Nat.testBit_succ]

theorem BV.shrIn_bit (a : BV) (ha : a.WF) (b : Bool) (i : Nat) :
    (a.shrIn b).1.bit i = (decide (i < a.len) && (if i + 1 = a.len then b else a.bit (i + 1))) := by
  unfold BV.shrIn BV.bit
  unfold BV.WF at ha
  split
  · rename_i h0
    rw [h0] at ha
    have hv : a.val = 0 := by omega
    simp [h0, hv]
  · rename_i h0
    have e2 : 2 ^ a.len = 2 * 2 ^ (a.len - 1) := by
      rw [← Nat.pow_succ']; congr 1; omega
    have hlt : a.val / 2 < 2 ^ (a.len - 1) := by omega
    simp only
    rw [Nat.add_comm, Nat.mul_comm, Nat.testBit_two_pow_mul_add _ hlt, toNat_testBit,
      Nat.testBit_div_two]
    by_cases h1 : i < a.len - 1
    · have h2 : i < a.len := by omega
      have h3 : ¬ i + 1 = a.len := by omega
      simp [h1, h2, h3]
    · by_cases h2 : i + 1 = a.len
      · have h3 : i < a.len := by omega
        have h4 : i - (a.len - 1) = 0 := by omega
        simp [h1, h2, h3, h4]
      · have h3 : ¬ i < a.len := by omega
        have h4 : ¬ i - (a.len - 1) = 0 := by omega
        simp [h1, h3, h4]

theorem Raw.shrIn_refines (s : Raw w) (hw : 0 < w) (h : s.Inv) (b : Bool) :
    ((s.shrIn b).1).Inv ∧ ((s.shrIn b).1.abs, (s.shrIn b).2) = s.abs.shrIn b := by
  obtain ⟨h1, h2, h3, h4⟩ := Raw.shrIn_bits s hw h b
  have hr := Raw.refines_of_bits s (s.shrIn b).1 hw (s.abs.shrIn b).1 h1
    (by rw [h2]; exact h.1) (BV.shrIn_len _ _)
    (by intro i hi
        rw [BV.shrIn_bit _ (h.wf hw)]
        have : ¬ i < s.abs.len := by rw [Raw.abs_len]; omega
        simp [this])
    (by intro i
        rw [h3 i, BV.shrIn_bit _ (h.wf hw), Raw.abs_bit _ _ hw, Raw.abs_len])
  refine ⟨hr.1, ?_⟩
  apply Prod.ext
  · exact hr.2
  · simp only
    rw [h4, BV.shrIn_snd, Raw.abs_bit _ _ hw, Raw.abs_len]

-- ---- Bvd: shifts into fresh storage -----------------------------------------------------------------
theorem bitAt_replicate_zero (n i : Nat) : bitAt (Array.replicate n 0#w) i = false := by
  unfold bitAt wd
  simp only [Array.getD_eq_getD_getElem?, Array.getElem?_replicate]
  split <;> simp

theorem size_orBits (ws : Array (BitVec w)) (pos : Nat) (d : BitVec w) :
    (orBits ws pos d).size = ws.size := by
  simp [orBits]

namespace Bvd

theorem shrRefLoop_spec (old : Array (BitVec 64)) (shift length : Nat)
    (new : Array (BitVec 64)) (newIdx : Nat) (hsz : new.size = capW length)
    (hinv : ∀ i, bitAt new i = (decide (i < newIdx) && bitAt old (i + shift))) :
    (shrRefLoop old new shift length newIdx).size = capW length ∧
    ∃ n, length ≤ n + shift ∧
      ∀ i, bitAt (shrRefLoop old new shift length newIdx) i = (decide (i < n) && bitAt old (i + shift)) := by
  fun_induction shrRefLoop old new shift length newIdx with
  | case1 new newIdx hlt oldIdx l ih =>
    have hl1 : 0 < l := by simp only [l, oldIdx]; omega
    have hfit1 : newIdx % 64 + l ≤ 64 := by simp only [l, oldIdx]; omega
    have hfit2 : oldIdx % 64 + l ≤ 64 := by simp only [l, oldIdx]; omega
    have hin : newIdx / 64 < new.size := by
      rw [hsz]; unfold capW capFromBitLen; omega
    apply ih (by rw [size_orBits]; exact hsz)
    intro i
    rw [bitAt_orBits new newIdx l i _ (by decide) hfit1 hin (fun j hj => readBits_high old _ l j hj),
      hinv i, getLsbD_readBits old _ l _ (by decide) hfit2]
    by_cases h1 : i < newIdx
    · have h2 : i < newIdx + l := by omega
      have h3 : ¬ (newIdx ≤ i ∧ i < newIdx + l) := by omega
      rw [decide_eq_false h3]; simp [h1, h2]
    · by_cases h2 : i < newIdx + l
      · have h3 : newIdx ≤ i ∧ i < newIdx + l := by omega
        have h4 : i - newIdx < l := by omega
        have e : oldIdx + (i - newIdx) = i + shift := by simp only [oldIdx]; omega
        rw [decide_eq_true h3, e]; simp [h1, h2, h4]
      · have h3 : ¬ (newIdx ≤ i ∧ i < newIdx + l) := by omega
        rw [decide_eq_false h3]; simp [h1, h2]
  | case2 new newIdx hlt =>
    exact ⟨hsz, newIdx, by omega, hinv⟩

theorem shrRef_bits (s : Raw 64) (h : s.Inv) (k i : Nat) :
    bitAt (shrRef s k).data i = (decide (i + k < s.length) && bitAt s.data (i + k)) := by
  obtain ⟨_, n, hn, hb⟩ := shrRefLoop_spec s.data k s.length (Array.replicate (capW s.length) 0#64) 0
    (by simp) (by intro i; rw [bitAt_replicate_zero]; simp)
  unfold shrRef
  simp only
  rw [hb i]
  by_cases h1 : i + k < s.length
  · have : i < n := by omega
    simp [h1, this]
  · rw [h.2 _ (by omega)]; simp

theorem shrRef_refines (s : Raw 64) (h : s.Inv) (k : Nat) :
    (shrRef s k).Inv ∧ (shrRef s k).abs = s.abs.shr k := by
  have hw : 0 < 64 := by decide
  have hsz : (shrRef s k).data.size = capW s.length :=
    (shrRefLoop_spec s.data k s.length (Array.replicate (capW s.length) 0#64) 0
      (by simp) (by intro i; rw [bitAt_replicate_zero]; simp)).1
  apply Raw.refines_of_bits s (shrRef s k) hw (s.abs.shr k) rfl
    (by rw [hsz]; unfold capW capFromBitLen; omega)
  · unfold BV.shr; split <;> rfl
  · intro i hi
    rw [BV.shr_bit _ (h.wf hw)]
    have : ¬ (i + k < s.abs.len) := by rw [Raw.abs_len]; omega
    simp [this]
  · intro i
    rw [shrRef_bits s h, BV.shr_bit _ (h.wf hw), Raw.abs_bit _ _ hw, Raw.abs_len]

theorem shlRefLoop_spec (old : Array (BitVec 64)) (shift length : Nat)
    (new : Array (BitVec 64)) (newIdx : Nat) (hsz : new.size = capW length) (hle : newIdx ≤ length)
    (hinv : ∀ i, bitAt new i = (decide (newIdx ≤ i ∧ i < length) && bitAt old (i - shift))) :
    (shlRefLoop old new shift newIdx).size = capW length ∧
    ∀ i, bitAt (shlRefLoop old new shift newIdx) i =
      (decide (min shift newIdx ≤ i ∧ i < length) && bitAt old (i - shift)) := by
  fun_induction shlRefLoop old new shift newIdx with
  | case1 new newIdx hlt l n' ih =>
    have hl1 : 1 ≤ l := by simp only [l]; omega
    have hla : l ≤ (newIdx - 1) % 64 + 1 := by simp only [l]; omega
    have hlb : l ≤ (newIdx - shift - 1) % 64 + 1 := by simp only [l]; omega
    have hln : l ≤ newIdx - shift := by omega
    have hfit1 : n' % 64 + l ≤ 64 := by
      have := sub_fit (w := 64) (by decide) newIdx l (by omega) hl1 hla
      simp only [n']; omega
    have hfit2 : (n' - shift) % 64 + l ≤ 64 := by
      have := sub_fit (w := 64) (by decide) (newIdx - shift) l (by omega) hl1 hlb
      have e : n' - shift = newIdx - shift - l := by simp only [n']; omega
      rw [e]; omega
    have hin : n' / 64 < new.size := by
      rw [hsz]; unfold capW capFromBitLen; simp only [n']; omega
    have hmin : min shift n' = min shift newIdx := by simp only [n']; omega
    rw [← hmin]
    apply ih (by rw [size_orBits]; exact hsz) (by simp only [n']; omega)
    intro i
    rw [bitAt_orBits new n' l i _ (by decide) hfit1 hin (fun j hj => readBits_high old _ l j hj),
      hinv i, getLsbD_readBits old _ l _ (by decide) hfit2]
    by_cases h1 : newIdx ≤ i ∧ i < length
    · have h2 : n' ≤ i ∧ i < length := by simp only [n']; omega
      have h3 : ¬ (n' ≤ i ∧ i < n' + l) := by simp only [n']; omega
      rw [decide_eq_true h1, decide_eq_true h2, decide_eq_false h3]; simp
    · by_cases h3 : n' ≤ i ∧ i < n' + l
      · have h2 : n' ≤ i ∧ i < length := by simp only [n'] at h3 ⊢; omega
        have h4 : i - n' < l := by omega
        have e : n' - shift + (i - n') = i - shift := by simp only [n'] at h3 ⊢; omega
        rw [decide_eq_false h1, decide_eq_true h2, decide_eq_true h3, e]; simp [h4]
      · have h2 : ¬ (n' ≤ i ∧ i < length) := by simp only [n'] at h3 ⊢; omega
        rw [decide_eq_false h1, decide_eq_false h2, decide_eq_false h3]; simp
  | case2 new newIdx hlt =>
    have hmin : min shift newIdx = newIdx := by omega
    rw [hmin]
    exact ⟨hsz, hinv⟩

/-- holds for any `s` (the invariant of the operand is not needed: fresh zero storage) -/
theorem shlRef_bits (s : Raw 64) (k i : Nat) :
    bitAt (shlRef s k).data i = (decide (k ≤ i ∧ i < s.length) && bitAt s.data (i - k)) := by
  obtain ⟨_, hb⟩ := shlRefLoop_spec s.data k s.length (Array.replicate (capW s.length) 0#64) s.length
    (by simp) (Nat.le_refl _)
    (by intro i; rw [bitAt_replicate_zero]
        have : ¬ (s.length ≤ i ∧ i < s.length) := by omega
        rw [decide_eq_false this]; simp)
  unfold shlRef
  simp only
  rw [hb i]
  by_cases h1 : k ≤ i ∧ i < s.length
  · have h2 : min k s.length ≤ i ∧ i < s.length := by omega
    rw [decide_eq_true h1, decide_eq_true h2]
  · have h2 : ¬ (min k s.length ≤ i ∧ i < s.length) := by omega
    rw [decide_eq_false h1, decide_eq_false h2]

/-- `shlRef` refines `BV.shl` even when the operand violates `Inv` -/
theorem shlRef_refines_any (s : Raw 64) (k : Nat) :
    (shlRef s k).Inv ∧ (shlRef s k).abs = s.abs.shl k := by
  have hw : 0 < 64 := by decide
  have hsz : (shlRef s k).data.size = capW s.length :=
    (shlRefLoop_spec s.data k s.length (Array.replicate (capW s.length) 0#64) s.length
      (by simp) (Nat.le_refl _)
      (by intro i; rw [bitAt_replicate_zero]
          have : ¬ (s.length ≤ i ∧ i < s.length) := by omega
          rw [decide_eq_false this]; simp)).1
  apply Raw.refines_of_bits s (shlRef s k) hw (s.abs.shl k) rfl
    (by rw [hsz]; unfold capW capFromBitLen; omega)
  · unfold BV.shl; split <;> rfl
  · intro i hi
    rw [BV.shl_bit]
    have : ¬ (k ≤ i ∧ i < s.abs.len) := by rw [Raw.abs_len]; omega
    simp [this]
  · intro i
    rw [shlRef_bits s, BV.shl_bit, Raw.abs_bit _ _ hw, Raw.abs_len]

theorem shlRef_refines (s : Raw 64) (_h : s.Inv) (k : Nat) :
    (shlRef s k).Inv ∧ (shlRef s k).abs = s.abs.shl k :=
  shlRef_refines_any s k

end Bvd

end Bva
