import BvaProofs.Base
import BvaModel.Dynamic
/-!
# T7b — slicing: `Bvf.copyRange`, `Bvd.copyRange`, and the list-of-bits view of
`BV.copyRange` / `BV.append` / `BV.splitOff`
-/
namespace Bva
variable {w : Nat}

-- ---- generic fold lemma ---------------------------------------------------------------------------
theorem forRange_zero_succ {σ : Type} (n : Nat) (f : Nat → σ → σ) (init : σ) :
    forRange 0 (n + 1) f init = f n (forRange 0 n f init) := by
  unfold forRange
  simp only [Nat.sub_zero]
  rw [List.range'_concat, List.foldl_append]
  simp

theorem size_forRange_set (g : Nat → BitVec w) (z : Array (BitVec w)) (n : Nat) :
    (forRange 0 n (fun i a => a.setIfInBounds i (g i)) z).size = z.size := by
  induction n with
  | zero => simp [forRange]
  | succ n ih => rw [forRange_zero_succ]; simp [ih]

/-- a fold of `setIfInBounds i (g i)` over `0..n` yields an array whose word `i` is `g i` for
`i < n` (if in bounds) and the old word otherwise -/
theorem wd_forRange_set (g : Nat → BitVec w) (z : Array (BitVec w)) (n i : Nat) :
    wd (forRange 0 n (fun i a => a.setIfInBounds i (g i)) z) i =
      if i < n ∧ i < z.size then g i else wd z i := by
  induction n with
  | zero => simp [forRange]
  | succ n ih =>
    rw [forRange_zero_succ]
    unfold wd at ih ⊢
    rw [Array.getD_eq_getD_getElem?, Array.getElem?_setIfInBounds, size_forRange_set]
    by_cases hin : n = i
    · subst hin
      by_cases hs : n < z.size
      · simp [hs]
      · simp [hs, Array.getD_eq_getD_getElem?]
    · simp only [hin, if_false]
      rw [← Array.getD_eq_getD_getElem?, ih]
      by_cases h1 : i < n ∧ i < z.size
      · have : i < n + 1 ∧ i < z.size := by omega
        simp [h1, this]
      · have : ¬ (i < n + 1 ∧ i < z.size) := by omega
        simp [h1, this]

-- ---- the words written by `copy_range` -------------------------------------------------------------
/-- bit `j` of the re-aligned word `k` (general `slide`; for `slide = 0` the left-shifted part vanishes) -/
theorem getLsbD_slideWord (ws : Array (BitVec w)) (st k j : Nat) (hw : 0 < w) (hj : j < w) :
    ((wd ws (k + st / w) >>> (st % w)) ||| (wd ws (k + st / w + 1) <<< (w - st % w))).getLsbD j =
      bitAt ws (st + w * k + j) := by
  have ms := Nat.mod_lt st hw
  have es := idx_eq (w := w) st
  simp only [BitVec.getLsbD_or, BitVec.getLsbD_ushiftRight, BitVec.getLsbD_shiftLeft]
  unfold bitAt
  by_cases hlo : st % w + j < w
  · have e : st + w * k + j = w * (k + st / w) + (st % w + j) := by
      rw [Nat.mul_add]; omega
    obtain ⟨h1, h2⟩ := div_mod_unique hw (k + st / w) (st % w + j) hlo
    rw [e, h1, h2]
    have : j < w - st % w := by omega
    simp [this]
  · have e : st + w * k + j = w * (k + st / w + 1) + (j - (w - st % w)) := by
      rw [Nat.mul_add, Nat.mul_add]; omega
    obtain ⟨h1, h2⟩ := div_mod_unique hw (k + st / w + 1) (j - (w - st % w)) (by omega)
    rw [e, h1, h2]
    have h3 : ¬ (j < w - st % w) := by omega
    rw [BitVec.getLsbD_of_ge _ _ (by omega)]
    simp [h3, hj]

/-- the aligned branch (`slide = 0`) -/
theorem getLsbD_alignedWord (ws : Array (BitVec w)) (st k j : Nat) (hw : 0 < w) (hj : j < w)
    (h0 : st % w = 0) :
    (wd ws (k + st / w)).getLsbD j = bitAt ws (st + w * k + j) := by
  have es := idx_eq (w := w) st
  unfold bitAt
  have e : st + w * k + j = w * (k + st / w) + j := by
    rw [Nat.mul_add]; omega
  obtain ⟨h1, h2⟩ := div_mod_unique hw (k + st / w) j hj
  rw [e, h1, h2]

-- ---- capacity and the last-word mask ----------------------------------------------------------------
theorem capFromBitLen_eq (hw : 0 < w) (len : Nat) :
    capFromBitLen w len = if len % w = 0 then len / w else len / w + 1 := by
  unfold capFromBitLen
  have el := idx_eq (w := w) len
  have ml := Nat.mod_lt len hw
  split
  · rename_i h0
    have e : len + w - 1 = w * (len / w) + (w - 1) := by omega
    rw [e]; exact (div_mod_unique hw _ _ (by omega)).1
  · rename_i h0
    have e : len + w - 1 = w * (len / w + 1) + (len % w - 1) := by rw [Nat.mul_add]; omega
    rw [e]; exact (div_mod_unique hw _ _ (by omega)).1

theorem lastBits_eq (hw : 0 < w) (len : Nat) :
    lastBits w len = if len % w = 0 then w else len % w := by
  unfold lastBits
  have el := idx_eq (w := w) len
  have ml := Nat.mod_lt len hw
  by_cases hl : len = 0
  · subst hl; simp
  · simp only [hl, if_false]
    split
    · rename_i h0
      have hq : 0 < len / w := by
        apply Nat.pos_of_ne_zero; intro hq; rw [hq] at el; omega
      have e : len - 1 = w * (len / w - 1) + (w - 1) := by
        have : w * (len / w) = w * (len / w - 1) + w := by
          rw [← Nat.mul_succ]; congr 1; omega
        omega
      rw [e, (div_mod_unique hw _ _ (by omega)).2]; omega
    · rename_i h0
      have e : len - 1 = w * (len / w) + (len % w - 1) := by omega
      rw [e, (div_mod_unique hw _ _ (by omega)).2]; omega

theorem bitAt_modify_allOnes (ws : Array (BitVec w)) (k i : Nat) :
    bitAt (ws.modify k (· &&& mask w w)) i = bitAt ws i := by
  have hm : ∀ x : BitVec w, x &&& mask w w = x := by
    intro x; unfold mask; simp
  unfold bitAt wd
  simp only [Array.getD_eq_getD_getElem?, Array.getElem?_modify]
  by_cases h : k = i / w
  · simp only [h, if_true]
    cases ws[i / w]? <;> simp [hm]
  · simp [h]

/-- the `mask(length.wrapping_sub(1) % BIT_UNIT + 1)` idiom, applied at word `k`, where `k` is the word
of bit `len` whenever `len` is not a multiple of `w` (otherwise the mask is all ones and `k` is irrelevant) -/
theorem bitAt_modify_lastBits (ws : Array (BitVec w)) (len k i : Nat) (hw : 0 < w)
    (hk : len % w ≠ 0 → k = len / w)
    (hz : ∀ j, capFromBitLen w len * w ≤ j → bitAt ws j = false) :
    bitAt (ws.modify k (· &&& mask w (lastBits w len))) i = (bitAt ws i && decide (i < len)) := by
  rw [lastBits_eq hw, capFromBitLen_eq hw] at *
  by_cases h0 : len % w = 0
  · simp only [h0, if_true] at hz ⊢
    rw [bitAt_modify_allOnes]
    by_cases hi : i < len
    · simp [hi]
    · have el := idx_eq (w := w) len
      have : len / w * w = w * (len / w) := Nat.mul_comm _ _
      rw [hz i (by omega)]; simp
  · simp only [h0, if_false] at hz ⊢
    rw [hk h0]
    exact bitAt_maskAt ws len i hw hz

theorem capFromBitLen_le (hw : 0 < w) (len N : Nat) (h : len ≤ N * w) : capFromBitLen w len ≤ N := by
  unfold capFromBitLen
  have : (len + w - 1) / w < N + 1 := by
    rw [Nat.div_lt_iff_lt_mul hw, Nat.add_mul]; omega
  omega

theorem le_capFromBitLen_mul (hw : 0 < w) (len : Nat) : len ≤ capFromBitLen w len * w := by
  rw [capFromBitLen_eq hw]
  have el := idx_eq (w := w) len
  have ml := Nat.mod_lt len hw
  split
  · have : len / w * w = w * (len / w) := Nat.mul_comm _ _
    omega
  · have : (len / w + 1) * w = w * (len / w) + w := by rw [Nat.mul_comm, Nat.mul_add, Nat.mul_one]
    omega

/-- the word reads `self.data[i + offset]` of both `copy_range` loops are in bounds (no Rust panic) -/
theorem copyRange_read_inbounds (s : Raw w) (st en i : Nat) (hw : 0 < w) (hc : s.length ≤ s.data.size * w)
    (hen : en ≤ s.length) (hi : i < capFromBitLen w (en - st)) : i + st / w < s.data.size := by
  unfold capFromBitLen at hi
  have h1 : (i + 1) * w ≤ en - st + w - 1 := (Nat.le_div_iff_mul_le hw).mp hi
  rw [Nat.add_mul, Nat.one_mul] at h1
  have es := idx_eq (w := w) st
  have h2 : (i + st / w) * w < s.data.size * w := by
    rw [Nat.add_mul, Nat.mul_comm (st / w) w]; omega
  exact Nat.lt_of_mul_lt_mul_right h2

-- ---- from words to bits -------------------------------------------------------------------------------
theorem bitAt_of_words (A ws : Array (BitVec w)) (G : Nat → BitVec w) (st n i : Nat) (hw : 0 < w)
    (hA : ∀ k, wd A k = if k < n then G k else 0#w)
    (hG : ∀ k j, j < w → (G k).getLsbD j = bitAt ws (st + w * k + j)) :
    bitAt A i = (decide (i < n * w) && bitAt ws (st + i)) := by
  have mi := Nat.mod_lt i hw
  have ei := idx_eq (w := w) i
  have hlt : i / w < n ↔ i < n * w := Nat.div_lt_iff_lt_mul hw
  conv => lhs; unfold bitAt
  rw [hA]
  by_cases h : i / w < n
  · simp only [h, if_true, hlt.mp h, decide_true, Bool.true_and]
    rw [hG _ _ mi]
    congr 1; omega
  · have : ¬ i < n * w := fun h' => h (hlt.mpr h')
    simp [h, this]

-- ---- from the bit characterisation to the refinement statement ------------------------------------------
theorem BV.copyRange_bit (a : BV) (st en i : Nat) :
    (BV.copyRange a st en).bit i = (decide (i < en - st) && a.bit (st + i)) := by
  unfold BV.copyRange BV.bit
  simp only [Nat.testBit_mod_two_pow, Nat.testBit_shiftRight]

theorem copyRange_refines_of_bits (s r : Raw w) (st en : Nat) (hw : 0 < w)
    (hl : r.length = en - st) (hc : en - st ≤ r.data.size * w)
    (hb : ∀ i, bitAt r.data i = (decide (i < en - st) && bitAt s.data (st + i))) :
    r.Inv ∧ r.abs = s.abs.copyRange st en := by
  refine ⟨⟨by omega, ?_⟩, ?_⟩
  · intro i hi
    rw [hb]
    have : ¬ i < en - st := by omega
    simp [this]
  · apply BV.ext_bits
    · exact hl
    · intro i
      rw [Raw.abs_bit _ _ hw, BV.copyRange_bit, Raw.abs_bit _ _ hw, hb]

-- ---- `Bvf::copy_range` ---------------------------------------------------------------------------------
namespace Bvf

/-- the words written by the two loops of `Bvf::copy_range`, before the last-word mask -/
theorem copyWords_bits (ws : Array (BitVec w)) (st n j : Nat) (hw : 0 < w) (hn : n ≤ ws.size) :
    bitAt (if st % w > 0 then
        forRange 0 n (fun i a => a.setIfInBounds i
          ((wd ws (i + st / w) >>> (st % w)) ||| (wd ws (i + st / w + 1) <<< (w - st % w))))
          (Array.replicate ws.size 0#w)
      else
        forRange 0 n (fun i a => a.setIfInBounds i (wd ws (i + st / w))) (Array.replicate ws.size 0#w)) j =
      (decide (j < n * w) && bitAt ws (st + j)) := by
  have hz : ∀ k, wd (Array.replicate ws.size 0#w) k = 0#w := by
    intro k; unfold wd; simp only [Array.getD_eq_getD_getElem?, Array.getElem?_replicate]; split <;> rfl
  split
  · apply bitAt_of_words _ ws
      (fun i => (wd ws (i + st / w) >>> (st % w)) ||| (wd ws (i + st / w + 1) <<< (w - st % w))) st n j hw
    · intro k
      rw [wd_forRange_set, Array.size_replicate, hz]
      by_cases hk : k < n
      · have : k < n ∧ k < ws.size := by omega
        simp [hk, this]
      · simp [hk]
    · intro k j hj
      exact getLsbD_slideWord ws st k j hw hj
  · rename_i h0
    apply bitAt_of_words _ ws (fun i => wd ws (i + st / w)) st n j hw
    · intro k
      rw [wd_forRange_set, Array.size_replicate, hz]
      by_cases hk : k < n
      · have : k < n ∧ k < ws.size := by omega
        simp [hk, this]
      · simp [hk]
    · intro k j hj
      exact getLsbD_alignedWord ws st k j hw hj (by omega)

theorem copyRange_length (s : Raw w) (st en : Nat) (hse : st ≤ en) :
    (copyRange s st en).length = en - st := by
  unfold copyRange
  simp only [Nat.min_eq_left hse]

theorem copyRange_size (s : Raw w) (st en : Nat) :
    (copyRange s st en).data.size = s.data.size := by
  unfold copyRange
  simp only [Array.size_modify]
  split <;> simp [size_forRange_set]

theorem copyRange_bits (s : Raw w) (st en i : Nat) (hw : 0 < w) (h : s.Inv)
    (hse : st ≤ en) (hen : en ≤ s.length) :
    bitAt (copyRange s st en).data i = (decide (i < en - st) && bitAt s.data (st + i)) := by
  have hn : capFromBitLen w (en - st) ≤ s.data.size :=
    capFromBitLen_le hw _ _ (by have := h.1; omega)
  unfold copyRange
  simp only [Nat.min_eq_left hse]
  rw [bitAt_modify_lastBits (hw := hw) (hk := fun _ => rfl)]
  · rw [copyWords_bits _ _ _ _ hw hn]
    have := le_capFromBitLen_mul hw (en - st)
    by_cases hi : i < en - st
    · have : i < capFromBitLen w (en - st) * w := by omega
      simp [hi, this]
    · simp [hi]
  · intro j hj
    rw [copyWords_bits _ _ _ _ hw hn]
    have : ¬ j < capFromBitLen w (en - st) * w := by omega
    simp [this]

theorem copyRange_refines (s : Raw w) (st en : Nat) (hw : 0 < w) (h : s.Inv)
    (hse : st ≤ en) (hen : en ≤ s.length) :
    (copyRange s st en).Inv ∧ (copyRange s st en).abs = s.abs.copyRange st en := by
  apply copyRange_refines_of_bits s _ st en hw (copyRange_length s st en hse)
  · rw [copyRange_size]; have := h.1; omega
  · intro i; exact copyRange_bits s st en i hw h hse hen

end Bvf

-- ---- `Bvd::copy_range` ---------------------------------------------------------------------------------
namespace Bvd

theorem copyRange_length (s : Raw 64) (st en : Nat) (hse : st ≤ en) :
    (copyRange s st en).length = en - st := by
  unfold copyRange
  simp only [Nat.min_eq_left hse]

/-- fresh storage of exactly `capFromBitLen 64 (en - st)` words -/
theorem copyRange_size (s : Raw 64) (st en : Nat) (hse : st ≤ en) :
    (copyRange s st en).data.size = capFromBitLen 64 (en - st) := by
  unfold copyRange maskLast
  simp only [Array.size_modify, Array.size_ofFn, Nat.min_eq_left hse]

/-- `maskLast` on an array of exactly `capFromBitLen 64 len` words holding a shifted copy -/
theorem maskLast_bits (A ws : Array (BitVec 64)) (st len i : Nat)
    (hsz : A.size = capFromBitLen 64 len)
    (hA : ∀ j, bitAt A j = (decide (j < capFromBitLen 64 len * 64) && bitAt ws (st + j))) :
    bitAt (maskLast A len) i = (decide (i < len) && bitAt ws (st + i)) := by
  have hw : 0 < 64 := by omega
  unfold maskLast
  rw [bitAt_modify_lastBits (hw := hw)]
  · rw [hA]
    have := le_capFromBitLen_mul hw len
    by_cases hi : i < len
    · have : i < capFromBitLen 64 len * 64 := by omega
      simp [hi, this]
    · simp [hi]
  · intro h0
    have := capFromBitLen_eq hw len
    simp only [h0, if_false] at this
    omega
  · intro j hj
    rw [hA]
    have : ¬ j < capFromBitLen 64 len * 64 := by omega
    simp [this]

theorem copyRange_bits' (s : Raw 64) (st en i : Nat) :
    bitAt (copyRange s st en).data i = (decide (i < en - min st en) && bitAt s.data (st + i)) := by
  have hw : 0 < 64 := by omega
  unfold copyRange
  apply maskLast_bits _ s.data st (en - min st en) i
  · simp only [Array.size_ofFn]
  · intro j
    apply bitAt_of_words _ s.data
      (fun i => (wd s.data (i + st / 64) >>> (st % 64)) ||| (wd s.data (i + st / 64 + 1) <<< (64 - st % 64)))
      st _ j hw
    · intro k
      unfold wd
      rw [Array.getD_eq_getD_getElem?, Array.getElem?_ofFn]
      split <;> simp
    · intro k j hj
      exact getLsbD_slideWord s.data st k j hw hj

theorem copyRange_bits (s : Raw 64) (st en i : Nat) (hse : st ≤ en) :
    bitAt (copyRange s st en).data i = (decide (i < en - st) && bitAt s.data (st + i)) := by
  rw [copyRange_bits', Nat.min_eq_left hse]

theorem copyRange_refines (s : Raw 64) (st en : Nat) (hse : st ≤ en) :
    (copyRange s st en).Inv ∧ (copyRange s st en).abs = s.abs.copyRange st en := by
  have hw : 0 < 64 := by omega
  apply copyRange_refines_of_bits s _ st en hw (copyRange_length s st en hse)
  · rw [copyRange_size s st en hse]; exact le_capFromBitLen_mul hw _
  · intro i; exact copyRange_bits s st en i hse

end Bvd

-- ---- the list-of-bits view ------------------------------------------------------------------------------
namespace BV

theorem length_bits (a : BV) : a.bits.length = a.len := by
  simp [bits]

theorem getElem_bits (a : BV) (i : Nat) (h : i < a.bits.length) : a.bits[i] = a.bit i := by
  simp [bits]

/-- `copy_range` is `drop` then `take` on the list of bits -/
theorem copyRange_bits_list (a : BV) (st en : Nat) (hen : en ≤ a.len) :
    (copyRange a st en).bits = (a.bits.drop st).take (en - st) := by
  apply List.ext_getElem
  · simp only [length_bits, List.length_take, List.length_drop]
    show en - st = _
    omega
  · intro i h1 h2
    rw [getElem_bits, copyRange_bit, List.getElem_take, List.getElem_drop, getElem_bits]
    rw [length_bits] at h1
    have : i < en - st := h1
    simp [this]

theorem append_bit (lo hi : BV) (h : lo.WF) (i : Nat) :
    (append lo hi).bit i = if i < lo.len then lo.bit i else hi.bit (i - lo.len) := by
  unfold append bit
  simp only
  rw [Nat.add_comm, Nat.mul_comm]
  exact Nat.testBit_two_pow_mul_add _ h _

/-- `append` is list concatenation (low part first) -/
theorem bits_append (lo hi : BV) (h : lo.WF) : (append lo hi).bits = lo.bits ++ hi.bits := by
  apply List.ext_getElem
  · simp only [length_bits, List.length_append]
    rfl
  · intro i h1 h2
    rw [getElem_bits, append_bit lo hi h, List.getElem_append]
    simp only [length_bits, getElem_bits]
    split <;> rfl

theorem splitOff_fst_wf (a : BV) (i : Nat) : (splitOff a i).1.WF := by
  unfold splitOff WF
  exact Nat.mod_lt _ (Nat.two_pow_pos i)

/-- `split_off` loses nothing: re-appending the two halves gives the original vector -/
theorem append_splitOff (a : BV) (i : Nat) (h : a.WF) (hi : i ≤ a.len) :
    append (splitOff a i).1 (splitOff a i).2 = a := by
  apply ext_bits
  · show i + (a.len - i) = a.len
    omega
  · intro j
    rw [append_bit _ _ (splitOff_fst_wf a i)]
    show (if j < i then (a.val % 2 ^ i).testBit j else (copyRange a i a.len).bit (j - i)) = a.bit j
    split
    · rename_i hj
      rw [Nat.testBit_mod_two_pow]; simp [hj, bit]
    · rename_i hj
      rw [copyRange_bit]
      have e : i + (j - i) = j := by omega
      rw [e]
      by_cases hl : j < a.len
      · have : j - i < a.len - i := by omega
        simp [this]
      · have : ¬ j - i < a.len - i := by omega
        have hz : a.bit j = false := by
          unfold bit
          exact Nat.testBit_lt_two_pow (Nat.lt_of_lt_of_le h (Nat.pow_le_pow_right (by omega) (by omega)))
        simp [this, hz]

theorem splitOff_bits (a : BV) (i : Nat) (h : a.WF) (hi : i ≤ a.len) :
    (splitOff a i).1.bits ++ (splitOff a i).2.bits = a.bits := by
  rw [← bits_append _ _ (splitOff_fst_wf a i), append_splitOff a i h hi]

theorem first_eq_head? (a : BV) : a.first = a.bits.head? := by
  unfold first
  rw [List.head?_eq_getElem?]
  by_cases h : a.len = 0
  · simp [h, bits]
  · have : 0 < a.bits.length := by rw [length_bits]; omega
    rw [List.getElem?_eq_getElem this, getElem_bits]; simp [h]

theorem last_eq_getLast? (a : BV) : a.last = a.bits.getLast? := by
  unfold last
  rw [List.getLast?_eq_getElem?, length_bits]
  by_cases h : a.len = 0
  · simp [h, bits]
  · have : a.len - 1 < a.bits.length := by rw [length_bits]; omega
    rw [List.getElem?_eq_getElem this, getElem_bits]; simp [h]

end BV

/-- the bodies of `first` / `last` (`if len > 0 { Some(get(..)) } else { None }`, as in `Step.lean`) -/
theorem Raw.first_refines (s : Raw w) (hw : 0 < w) :
    (if s.length > 0 then some (s.get 0) else none) = s.abs.first := by
  unfold BV.first
  rw [Raw.abs_len, Raw.abs_bit _ _ hw, Raw.get_eq_bitAt]
  by_cases h : s.length = 0
  · simp [h]
  · have : s.length > 0 := by omega
    simp [h, this]

theorem Raw.last_refines (s : Raw w) (hw : 0 < w) :
    (if s.length > 0 then some (s.get (s.length - 1)) else none) = s.abs.last := by
  unfold BV.last
  rw [Raw.abs_len, Raw.abs_bit _ _ hw, Raw.get_eq_bitAt]
  by_cases h : s.length = 0
  · simp [h]
  · have : s.length > 0 := by omega
    simp [h, this]

end Bva
