import BvaProofs.Base
/-!
# Re-chunking: `get_int` / `set_int` (reading/writing `w`-bit word arrays as `wJ`-bit words)
-/
namespace Bva
variable {w wJ : Nat}

/-- the two word widths are positive and one divides the other (always true for Rust's
`u8 … u128, usize`) -/
def Compat (w wJ : Nat) : Prop := 0 < w ∧ 0 < wJ ∧ (wJ ∣ w ∨ w ∣ wJ)

theorem Compat.small (hc : Compat w wJ) (h : wJ ≤ w) : w / wJ * wJ = w := by
  obtain ⟨hw, hj, hd | hd⟩ := hc
  · exact Nat.div_mul_cancel hd
  · have := Nat.le_of_dvd hj hd
    have e : w = wJ := by omega
    subst e
    simp [Nat.div_self hw]

theorem Compat.large (hc : Compat w wJ) (h : ¬ wJ ≤ w) : wJ / w * w = wJ := by
  obtain ⟨hw, hj, hd | hd⟩ := hc
  · have := Nat.le_of_dvd hw hd; omega
  · exact Nat.div_mul_cancel hd

/-- `idx < ⌈a / b⌉ ↔ idx * b < a` -/
theorem lt_ceilDiv_iff (a b idx : Nat) (hb : 0 < b) : idx < (a + b - 1) / b ↔ idx * b < a := by
  rw [Nat.lt_iff_add_one_le, Nat.le_div_iff_mul_le hb, Nat.add_mul]
  omega


-- ---- index arithmetic for the two directions ----------------------------------------------------
theorem small_idx' (r wJ idx j : Nat) (hj : j < wJ) (hr : 0 < r) :
    (idx * wJ + j) / (r * wJ) = idx / r ∧ (idx * wJ + j) % (r * wJ) = idx % r * wJ + j := by
  have hm := Nat.mod_lt idx hr
  have hb : idx % r * wJ + j < r * wJ := by
    have := Nat.mul_le_mul_right wJ (Nat.succ_le_of_lt hm)
    rw [Nat.succ_mul] at this
    omega
  have hpos : 0 < r * wJ := by omega
  have e : idx * wJ + j = r * wJ * (idx / r) + (idx % r * wJ + j) := by
    have h1 : idx * wJ = (r * (idx / r) + idx % r) * wJ := by rw [Nat.div_add_mod]
    rw [h1, Nat.add_mul, Nat.mul_right_comm, Nat.add_assoc]
  rw [e]
  exact div_mod_unique hpos _ _ hb

theorem small_idx (hc : Compat w wJ) (h : wJ ≤ w) (idx j : Nat) (hj : j < wJ) :
    (idx * wJ + j) / w = idx / (w / wJ) ∧ (idx * wJ + j) % w = idx % (w / wJ) * wJ + j := by
  have e := hc.small h
  have hr : 0 < w / wJ := Nat.div_pos h hc.2.1
  have := small_idx' (w / wJ) wJ idx j hj hr
  rw [e] at this
  exact this

theorem large_idx (s idx j : Nat) (hw : 0 < w) :
    (idx * (s * w) + j) / w = idx * s + j / w ∧ (idx * (s * w) + j) % w = j % w := by
  have e : idx * (s * w) + j = w * (idx * s) + j := by
    rw [← Nat.mul_assoc, Nat.mul_comm]
  rw [e]
  exact ⟨Nat.mul_add_div hw _ _, Nat.mul_add_mod _ _ _⟩

/-- the little-endian gather loop of `get_int` (wide target) -/
theorem getLsbD_gather (ws : Array (BitVec w)) (wJ base k j : Nat) (hw : 0 < w) :
    (List.foldl (fun v i => v ||| ((wd ws (base + i)).setWidth wJ <<< (w * i))) 0#wJ
        (List.range' 0 k)).getLsbD j
      = (decide (j < wJ) && decide (j < w * k) && (wd ws (base + j / w)).getLsbD (j % w)) := by
  induction k with
  | zero => simp
  | succ k ih =>
    rw [List.range'_concat, List.foldl_append]
    simp only [List.foldl_cons, List.foldl_nil, BitVec.getLsbD_or, ih, BitVec.getLsbD_shiftLeft,
      BitVec.getLsbD_setWidth, Nat.zero_add, Nat.one_mul]
    have hs : w * (k + 1) = w * k + w := Nat.mul_succ _ _
    by_cases h1 : j < w * k
    · have : j < w * (k + 1) := by omega
      simp [h1, this]
    · by_cases h2 : j < w * (k + 1)
      · have hd := div_mod_unique hw k (j - w * k) (by omega)
        have e : w * k + (j - w * k) = j := by omega
        rw [e] at hd
        simp only [h1, h2, hd.1, hd.2, decide_false, decide_true, Bool.and_false, Bool.false_and,
          Bool.false_or, Bool.not_false, Bool.and_true]
        by_cases h3 : j < wJ
        · have : j - w * k < wJ := by omega
          simp [h3, this]
        · simp [h3]
      · have : (wd ws (base + k)).getLsbD (j - w * k) = false :=
          BitVec.getLsbD_of_ge _ _ (by omega)
        simp [h1, h2, this]

theorem sliceGetInt_isSome (ws : Array (BitVec w)) (wJ idx : Nat) (hc : Compat w wJ) :
    (sliceGetInt ws wJ idx).isSome ↔ idx * wJ < ws.size * w := by
  unfold sliceGetInt
  by_cases h : wJ ≤ w
  · simp only [h, if_true]
    have e := hc.small h
    have e2 : ws.size * w = ws.size * (w / wJ) * wJ := by rw [Nat.mul_assoc, e]
    have key : idx < ws.size * (w / wJ) ↔ idx * wJ < ws.size * w := by
      rw [e2]; exact (Nat.mul_lt_mul_right hc.2.1).symm
    split
    · rename_i h1; simp [key.mp h1]
    · rename_i h1; simp only [Option.isSome_none, Bool.false_eq_true, false_iff]
      exact fun h2 => h1 (key.mpr h2)
  · simp only [h, if_false]
    have key := lt_ceilDiv_iff (ws.size * w) wJ idx hc.2.1
    unfold sliceIntLen
    split
    · rename_i h1; simp only [Option.isSome_none, Bool.false_eq_true, false_iff]
      intro h2; have := key.mpr h2; omega
    · rename_i h1; simp only [Option.isSome_some, true_iff]
      exact key.mp (by omega)

theorem getLsbD_sliceGetInt (ws : Array (BitVec w)) (wJ idx : Nat) (hc : Compat w wJ)
    (v : BitVec wJ) (h : sliceGetInt ws wJ idx = some v) (j : Nat) :
    v.getLsbD j = (decide (j < wJ) && bitAt ws (idx * wJ + j)) := by
  unfold sliceGetInt at h
  by_cases hle : wJ ≤ w
  · simp only [hle, if_true] at h
    split at h
    · injection h with h
      subst h
      rw [BitVec.getLsbD_setWidth, BitVec.getLsbD_ushiftRight]
      by_cases hj : j < wJ
      · obtain ⟨e1, e2⟩ := small_idx hc hle idx j hj
        unfold bitAt
        rw [e1, e2]
      · simp [hj]
    · exact absurd h (by simp)
  · simp only [hle, if_false] at h
    split at h
    · exact absurd h (by simp)
    · injection h with h
      subst h
      unfold forRange
      rw [Nat.sub_zero, getLsbD_gather _ _ _ _ _ hc.1]
      have e := hc.large hle
      obtain ⟨e1, e2⟩ := large_idx (wJ / w) idx j hc.1
      rw [e] at e1 e2
      unfold bitAt
      rw [e1, e2, Nat.mul_comm w, e]
      simp

-- ---- `Raw.getInt` -----------------------------------------------------------------------------------
theorem Raw.getInt_isSome (s : Raw w) (hc : Compat w wJ) (h : s.Inv) (idx : Nat) :
    (s.getInt wJ idx).isSome ↔ idx * wJ < s.length := by
  unfold Raw.getInt
  split
  · rename_i h1
    rw [Option.isSome_map, sliceGetInt_isSome _ _ _ hc]
    have := h.1
    constructor
    · intro _; exact h1
    · intro _; omega
  · rename_i h1
    simp [h1]

theorem Raw.getInt_getLsbD (s : Raw w) (hc : Compat w wJ) (h : s.Inv) (idx j : Nat) :
    ((s.getInt wJ idx).getD 0#wJ).getLsbD j
      = (decide (j < wJ) && bitAt s.data (idx * wJ + j)) := by
  unfold Raw.getInt
  split
  · rename_i h1
    have hs : (sliceGetInt s.data wJ idx).isSome := by
      rw [sliceGetInt_isSome _ _ _ hc]; have := h.1; omega
    obtain ⟨v, hv⟩ := Option.isSome_iff_exists.mp hs
    rw [hv, Option.map_some, Option.getD_some, BitVec.getLsbD_and, getLsbD_mask,
      getLsbD_sliceGetInt _ _ _ hc v hv]
    by_cases h2 : j < s.length - idx * wJ
    · simp only [h2, decide_true, Bool.and_true]
      by_cases h3 : j < wJ <;> simp [h3]
    · rw [h.2 (idx * wJ + j) (by omega)]
      simp
  · rename_i h1
    rw [h.2 (idx * wJ + j) (by omega)]
    simp

theorem Raw.getInt_toNat (s : Raw w) (hc : Compat w wJ) (h : s.Inv) (idx : Nat) :
    ((s.getInt wJ idx).getD 0#wJ).toNat = (s.abs.val >>> (idx * wJ)) % 2 ^ wJ := by
  apply Nat.eq_of_testBit_eq
  intro j
  rw [← BitVec.getLsbD, Raw.getInt_getLsbD s hc h, Nat.testBit_mod_two_pow, Nat.testBit_shiftRight,
    ← Raw.abs_bit s _ hc.1]
  rfl

end Bva
