import BvaProofs.Base
/-!
# Re-chunking: `get_int` / `set_int` (reading/writing `w`-bit word arrays as `wJ`-bit words)
-/
namespace Bva
variable {w wJ : Nat}

/-- the two word widths are positive and one divides the other (always true for Rust's
`u8 … u128, usize`) -/
def Compat (w wJ : Nat) : Prop := 0 < w ∧ 0 < wJ ∧ (wJ ∣ w ∨ w ∣ wJ)

theorem Compat.small (hc : Compat w wJ) (h : wJ ≤ w) : w / wJ * wJ = w := by
  obtain ⟨hw, hj, hd | hd⟩ := hc
  · exact Nat.div_mul_cancel hd
  · have := Nat.le_of_dvd hj hd
    have e : w = wJ := by omega
    subst e
    simp [Nat.div_self hw]

theorem Compat.large (hc : Compat w wJ) (h : ¬ wJ ≤ w) : wJ / w * w = wJ := by
  obtain ⟨hw, hj, hd | hd⟩ := hc
  · have := Nat.le_of_dvd hw hd; omega
  · exact Nat.div_mul_cancel hd

/-- `idx < ⌈a / b⌉ ↔ idx * b < a` -/
theorem rc_lt_ceilDiv_iff (a b idx : Nat) (hb : 0 < b) : idx < (a + b - 1) / b ↔ idx * b < a := by
  rw [Nat.lt_iff_add_one_le, Nat.le_div_iff_mul_le hb, Nat.add_mul]
  omega


-- ---- index arithmetic for the two directions ----------------------------------------------------
theorem rc_small_idx' (r wJ idx j : Nat) (hj : j < wJ) (hr : 0 < r) :
    (idx * wJ + j) / (r * wJ) = idx / r ∧ (idx * wJ + j) % (r * wJ) = idx % r * wJ + j := by
  have hm := Nat.mod_lt idx hr
  have hb : idx % r * wJ + j < r * wJ := by
    have := Nat.mul_le_mul_right wJ (Nat.succ_le_of_lt hm)
    rw [Nat.succ_mul] at this
    omega
  have hpos : 0 < r * wJ := by omega
  have e : idx * wJ + j = r * wJ * (idx / r) + (idx % r * wJ + j) := by
    have h1 : idx * wJ = (r * (idx / r) + idx % r) * wJ := by rw [Nat.div_add_mod]
    rw [h1, Nat.add_mul, Nat.mul_right_comm, Nat.add_assoc]
  rw [e]
  exact div_mod_unique hpos _ _ hb

theorem rc_small_idx (hc : Compat w wJ) (h : wJ ≤ w) (idx j : Nat) (hj : j < wJ) :
    (idx * wJ + j) / w = idx / (w / wJ) ∧ (idx * wJ + j) % w = idx % (w / wJ) * wJ + j := by
  have e := hc.small h
  have hr : 0 < w / wJ := Nat.div_pos h hc.2.1
  have := rc_small_idx' (w / wJ) wJ idx j hj hr
  rw [e] at this
  exact this

theorem rc_large_idx (s idx j : Nat) (hw : 0 < w) :
    (idx * (s * w) + j) / w = idx * s + j / w ∧ (idx * (s * w) + j) % w = j % w := by
  have e : idx * (s * w) + j = w * (idx * s) + j := by
    rw [← Nat.mul_assoc, Nat.mul_comm]
  rw [e]
  exact ⟨Nat.mul_add_div hw _ _, Nat.mul_add_mod _ _ _⟩

/-- the little-endian gather loop of `get_int` (wide target) -/
theorem rc_getLsbD_gather (ws : Array (BitVec w)) (wJ base k j : Nat) (hw : 0 < w) :
    (List.foldl (fun v i => v ||| ((wd ws (base + i)).setWidth wJ <<< (w * i))) 0#wJ
        (List.range' 0 k)).getLsbD j
      = (decide (j < wJ) && decide (j < w * k) && (wd ws (base + j / w)).getLsbD (j % w)) := by
  induction k with
  | zero => simp
  | succ k ih =>
    rw [List.range'_concat, List.foldl_append]
    simp only [List.foldl_cons, List.foldl_nil, BitVec.getLsbD_or, ih, BitVec.getLsbD_shiftLeft,
      BitVec.getLsbD_setWidth, Nat.zero_add, Nat.one_mul]
    have hs : w * (k + 1) = w * k + w := Nat.mul_succ _ _
    by_cases h1 : j < w * k
    · have : j < w * (k + 1) := by omega
      simp [h1, this]
    · by_cases h2 : j < w * (k + 1)
      · have hd := div_mod_unique hw k (j - w * k) (by omega)
        have e : w * k + (j - w * k) = j := by omega
        rw [e] at hd
        simp only [h1, h2, hd.1, hd.2, decide_false, decide_true, Bool.and_false, Bool.false_and,
          Bool.false_or, Bool.not_false, Bool.and_true]
        by_cases h3 : j < wJ
        · have : j - w * k < wJ := by omega
          simp [h3, this]
        · simp [h3]
      · have : (wd ws (base + k)).getLsbD (j - w * k) = false :=
          BitVec.getLsbD_of_ge _ _ (by omega)
        simp [h1, h2, this]

theorem sliceGetInt_isSome (ws : Array (BitVec w)) (wJ idx : Nat) (hc : Compat w wJ) :
    (sliceGetInt ws wJ idx).isSome ↔ idx * wJ < ws.size * w := by
  unfold sliceGetInt
  by_cases h : wJ ≤ w
  · simp only [h, if_true]
    have e := hc.small h
    have e2 : ws.size * w = ws.size * (w / wJ) * wJ := by rw [Nat.mul_assoc, e]
    have key : idx < ws.size * (w / wJ) ↔ idx * wJ < ws.size * w := by
      rw [e2]; exact (Nat.mul_lt_mul_right hc.2.1).symm
    split
    · rename_i h1; simp [key.mp h1]
    · rename_i h1; simp only [Option.isSome_none, Bool.false_eq_true, false_iff]
      exact fun h2 => h1 (key.mpr h2)
  · simp only [h, if_false]
    have key := rc_lt_ceilDiv_iff (ws.size * w) wJ idx hc.2.1
    unfold sliceIntLen
    split
    · rename_i h1; simp only [Option.isSome_none, Bool.false_eq_true, false_iff]
      intro h2; have := key.mpr h2; omega
    · rename_i h1; simp only [Option.isSome_some, true_iff]
      exact key.mp (by omega)

theorem getLsbD_sliceGetInt (ws : Array (BitVec w)) (wJ idx : Nat) (hc : Compat w wJ)
    (v : BitVec wJ) (h : sliceGetInt ws wJ idx = some v) (j : Nat) :
    v.getLsbD j = (decide (j < wJ) && bitAt ws (idx * wJ + j)) := by
  unfold sliceGetInt at h
  by_cases hle : wJ ≤ w
  · simp only [hle, if_true] at h
    split at h
    · injection h with h
      subst h
      rw [BitVec.getLsbD_setWidth, BitVec.getLsbD_ushiftRight]
      by_cases hj : j < wJ
      · obtain ⟨e1, e2⟩ := rc_small_idx hc hle idx j hj
        unfold bitAt
        rw [e1, e2]
      · simp [hj]
    · exact absurd h (by simp)
  · simp only [hle, if_false] at h
    split at h
    · exact absurd h (by simp)
    · injection h with h
      subst h
      unfold forRange
      rw [Nat.sub_zero, rc_getLsbD_gather _ _ _ _ _ hc.1]
      have e := hc.large hle
      obtain ⟨e1, e2⟩ := rc_large_idx (wJ / w) idx j hc.1
      rw [e] at e1 e2
      unfold bitAt
      rw [e1, e2, Nat.mul_comm w, e]
      simp

-- ---- `Raw.getInt` -----------------------------------------------------------------------------------
theorem Raw.getInt_isSome (s : Raw w) (hc : Compat w wJ) (h : s.Inv) (idx : Nat) :
    (s.getInt wJ idx).isSome ↔ idx * wJ < s.length := by
  unfold Raw.getInt
  split
  · rename_i h1
    rw [Option.isSome_map, sliceGetInt_isSome _ _ _ hc]
    have := h.1
    constructor
    · intro _; exact h1
    · intro _; omega
  · rename_i h1
    simp [h1]

theorem Raw.getInt_getLsbD (s : Raw w) (hc : Compat w wJ) (h : s.Inv) (idx j : Nat) :
    ((s.getInt wJ idx).getD 0#wJ).getLsbD j
      = (decide (j < wJ) && bitAt s.data (idx * wJ + j)) := by
  unfold Raw.getInt
  split
  · rename_i h1
    have hs : (sliceGetInt s.data wJ idx).isSome := by
      rw [sliceGetInt_isSome _ _ _ hc]; have := h.1; omega
    obtain ⟨v, hv⟩ := Option.isSome_iff_exists.mp hs
    rw [hv, Option.map_some, Option.getD_some, BitVec.getLsbD_and, getLsbD_mask,
      getLsbD_sliceGetInt _ _ _ hc v hv]
    by_cases h2 : j < s.length - idx * wJ
    · simp only [h2, decide_true, Bool.and_true]
      by_cases h3 : j < wJ <;> simp [h3]
    · rw [h.2 (idx * wJ + j) (by omega)]
      simp
  · rename_i h1
    rw [h.2 (idx * wJ + j) (by omega)]
    simp

theorem Raw.getInt_toNat (s : Raw w) (hc : Compat w wJ) (h : s.Inv) (idx : Nat) :
    ((s.getInt wJ idx).getD 0#wJ).toNat = (s.abs.val >>> (idx * wJ)) % 2 ^ wJ := by
  apply Nat.eq_of_testBit_eq
  intro j
  rw [← BitVec.getLsbD, Raw.getInt_getLsbD s hc h, Nat.testBit_mod_two_pow, Nat.testBit_shiftRight,
    ← Raw.abs_bit s _ hc.1]
  rfl

-- ---- `sliceSetInt` ----------------------------------------------------------------------------------
theorem rc_bitAt_setIfInBounds (a : Array (BitVec w)) (n : Nat) (x : BitVec w) (i : Nat) :
    bitAt (a.setIfInBounds n x) i
      = if i / w = n ∧ n < a.size then x.getLsbD (i % w) else bitAt a i := by
  unfold bitAt wd
  simp only [Array.getD_eq_getD_getElem?, Array.getElem?_setIfInBounds]
  by_cases h : n = i / w
  · subst h
    by_cases h2 : i / w < a.size <;> simp [h2]
  · have : ¬ (i / w = n) := fun e => h e.symm
    simp [h, this]

theorem rc_size_scatter (ws : Array (BitVec w)) (v : BitVec wJ) (base k : Nat) :
    (List.foldl (fun a t => a.setIfInBounds (base + t) ((v >>> (w * t)).setWidth w)) ws
        (List.range' 0 k)).size = ws.size := by
  induction k with
  | zero => simp
  | succ k ih =>
    rw [List.range'_concat, List.foldl_append]
    simp [ih]

/-- the little-endian scatter loop of `set_int` (wide source) -/
theorem rc_bitAt_scatter (ws : Array (BitVec w)) (v : BitVec wJ) (base k i : Nat) (hw : 0 < w) :
    bitAt (List.foldl (fun a t => a.setIfInBounds (base + t) ((v >>> (w * t)).setWidth w)) ws
        (List.range' 0 k)) i
      = if base ≤ i / w ∧ i / w < base + k ∧ i / w < ws.size then v.getLsbD (i - base * w)
        else bitAt ws i := by
  induction k with
  | zero =>
    have : ¬ (base ≤ i / w ∧ i / w < base + 0 ∧ i / w < ws.size) := by omega
    rw [if_neg this]
    rfl
  | succ k ih =>
    rw [List.range'_concat, List.foldl_append]
    simp only [List.foldl_cons, List.foldl_nil, Nat.zero_add, Nat.one_mul]
    rw [rc_bitAt_setIfInBounds, rc_size_scatter, ih]
    by_cases h1 : i / w = base + k
    · by_cases h2 : base + k < ws.size
      · have c : base ≤ i / w ∧ i / w < base + (k + 1) ∧ i / w < ws.size := by omega
        rw [if_pos ⟨h1, h2⟩, if_pos c, BitVec.getLsbD_setWidth, BitVec.getLsbD_ushiftRight]
        have hi := idx_eq (w := w) i
        have hm := Nat.mod_lt i hw
        have e1 : w * (i / w) = w * base + w * k := by rw [h1, Nat.mul_add]
        have e2 : base * w = w * base := Nat.mul_comm _ _
        have : i - base * w = w * k + i % w := by omega
        simp [hm, this]
      · rw [if_neg (by omega), if_neg (by omega), if_neg (by omega)]
    · rw [if_neg (by omega)]
      have : (base ≤ i / w ∧ i / w < base + k ∧ i / w < ws.size)
          ↔ (base ≤ i / w ∧ i / w < base + (k + 1) ∧ i / w < ws.size) := by omega
      simp only [this]

theorem size_sliceSetInt (ws : Array (BitVec w)) (wJ idx : Nat) (v : BitVec wJ) :
    (sliceSetInt ws wJ idx v).size = ws.size := by
  unfold sliceSetInt
  dsimp only
  split
  · split
    · simp
    · rfl
  · split
    · rfl
    · unfold forRange
      exact rc_size_scatter _ _ _ _

theorem sliceSetInt_small (ws : Array (BitVec w)) (wJ idx : Nat) (hc : Compat w wJ)
    (v : BitVec wJ) (hle : wJ ≤ w) (hin : idx < ws.size * (w / wJ)) :
    sliceSetInt ws wJ idx v = writeBits ws (idx * wJ) wJ (v.setWidth w) := by
  unfold sliceSetInt writeBits
  obtain ⟨e1, e2⟩ := rc_small_idx hc hle idx 0 hc.2.1
  simp only [Nat.add_zero] at e1 e2
  simp only [hle, hin, if_true, e1, e2]

theorem bitAt_sliceSetInt (ws : Array (BitVec w)) (wJ idx : Nat) (hc : Compat w wJ)
    (v : BitVec wJ) (i : Nat) :
    bitAt (sliceSetInt ws wJ idx v) i
      = if idx * wJ ≤ i ∧ i < (idx + 1) * wJ ∧ i < ws.size * w then v.getLsbD (i - idx * wJ)
        else bitAt ws i := by
  have hw := hc.1
  have hJ := hc.2.1
  have hsucc : (idx + 1) * wJ = idx * wJ + wJ := by rw [Nat.add_mul, Nat.one_mul]
  by_cases hle : wJ ≤ w
  · have e := hc.small hle
    have e2 : ws.size * w = ws.size * (w / wJ) * wJ := by rw [Nat.mul_assoc, e]
    by_cases hin : idx < ws.size * (w / wJ)
    · rw [sliceSetInt_small ws wJ idx hc v hle hin]
      obtain ⟨d1, d2⟩ := rc_small_idx hc hle idx 0 hJ
      obtain ⟨_, d3⟩ := rc_small_idx hc hle idx (wJ - 1) (by omega)
      have hm := Nat.mod_lt (idx * wJ + (wJ - 1)) hw
      simp only [Nat.add_zero] at d1 d2
      have hfit : idx * wJ % w + wJ ≤ w := by omega
      have hin2 : idx * wJ / w < ws.size := by
        rw [d1]; exact (Nat.div_lt_iff_lt_mul (Nat.div_pos hle hJ)).mpr hin
      have hfull : idx * wJ + wJ ≤ ws.size * w := by
        have := Nat.mul_le_mul_right wJ (Nat.succ_le_of_lt hin)
        rw [Nat.succ_mul] at this
        omega
      rw [bitAt_writeBits ws (idx * wJ) wJ i (v.setWidth w) hw hfit hin2
        (fun j hj => by rw [BitVec.getLsbD_setWidth, BitVec.getLsbD_of_ge v j hj]; simp)]
      by_cases hcnd : idx * wJ ≤ i ∧ i < idx * wJ + wJ
      · have hcnd' : idx * wJ ≤ i ∧ i < (idx + 1) * wJ ∧ i < ws.size * w := by omega
        rw [if_pos hcnd, if_pos hcnd', BitVec.getLsbD_setWidth]
        have : i - idx * wJ < w := by omega
        simp [this]
      · have hcnd' : ¬ (idx * wJ ≤ i ∧ i < (idx + 1) * wJ ∧ i < ws.size * w) := by omega
        rw [if_neg hcnd, if_neg hcnd']
    · have hout : ws.size * w ≤ idx * wJ := by
        rw [e2]; exact Nat.mul_le_mul_right wJ (by omega)
      have hcnd' : ¬ (idx * wJ ≤ i ∧ i < (idx + 1) * wJ ∧ i < ws.size * w) := by omega
      rw [if_neg hcnd']
      unfold sliceSetInt
      simp only [hle, hin, if_true, if_false]
  · have e := hc.large hle
    have key := rc_lt_ceilDiv_iff (ws.size * w) wJ idx hJ
    unfold sliceSetInt sliceIntLen
    simp only [hle, if_false]
    split
    · rename_i h1
      have hcnd' : ¬ (idx * wJ ≤ i ∧ i < (idx + 1) * wJ ∧ i < ws.size * w) := by
        intro hh
        have := key.mpr (by omega)
        omega
      rw [if_neg hcnd']
    · unfold forRange
      rw [Nat.sub_zero, rc_bitAt_scatter _ _ _ _ _ hw]
      have a1 : idx * (wJ / w) * w = idx * wJ := by rw [Nat.mul_assoc, e]
      have a2 : (idx * (wJ / w) + wJ / w) * w = idx * wJ + wJ := by rw [Nat.add_mul, a1, e]
      have c1 : idx * (wJ / w) ≤ i / w ↔ idx * wJ ≤ i := by
        rw [Nat.le_div_iff_mul_le hw, a1]
      have c2 : i / w < idx * (wJ / w) + wJ / w ↔ i < (idx + 1) * wJ := by
        rw [Nat.div_lt_iff_lt_mul hw, a2, hsucc]
      have c3 : i / w < ws.size ↔ i < ws.size * w := Nat.div_lt_iff_lt_mul hw
      simp only [c1, c2, c3, a1]

-- ---- `Raw.setInt` -----------------------------------------------------------------------------------
theorem Raw.setInt_size (s : Raw w) (idx : Nat) (v : BitVec wJ) :
    (s.setInt wJ idx v).data.size = s.data.size := by
  unfold Raw.setInt
  split
  · exact size_sliceSetInt _ _ _ _
  · rfl

theorem Raw.setInt_length (s : Raw w) (idx : Nat) (v : BitVec wJ) :
    (s.setInt wJ idx v).length = s.length := by
  unfold Raw.setInt
  split <;> rfl

theorem Raw.setInt_bits (s : Raw w) (hc : Compat w wJ) (h : s.Inv) (idx : Nat) (v : BitVec wJ)
    (i : Nat) :
    bitAt (s.setInt wJ idx v).data i
      = if idx * wJ ≤ i ∧ i < (idx + 1) * wJ ∧ i < s.length then v.getLsbD (i - idx * wJ)
        else bitAt s.data i := by
  have hcap := h.1
  have hsucc : (idx + 1) * wJ = idx * wJ + wJ := by rw [Nat.add_mul, Nat.one_mul]
  unfold Raw.setInt
  split
  · rename_i h1
    dsimp only
    rw [bitAt_sliceSetInt _ _ _ hc]
    by_cases c : idx * wJ ≤ i ∧ i < (idx + 1) * wJ ∧ i < s.data.size * w
    · rw [if_pos c, BitVec.getLsbD_and, getLsbD_mask]
      by_cases c2 : i < s.length
      · have c' : idx * wJ ≤ i ∧ i < (idx + 1) * wJ ∧ i < s.length := ⟨c.1, c.2.1, c2⟩
        have m1 : i - idx * wJ < wJ := by omega
        have m2 : i - idx * wJ < s.length - idx * wJ := by omega
        rw [if_pos c']
        simp [m1, m2]
      · have c' : ¬ (idx * wJ ≤ i ∧ i < (idx + 1) * wJ ∧ i < s.length) := by omega
        have m2 : ¬ (i - idx * wJ < s.length - idx * wJ) := by omega
        rw [if_neg c', h.2 i (by omega)]
        simp [m2]
    · have c' : ¬ (idx * wJ ≤ i ∧ i < (idx + 1) * wJ ∧ i < s.length) := by omega
      rw [if_neg c, if_neg c']
  · rename_i h1
    have c' : ¬ (idx * wJ ≤ i ∧ i < (idx + 1) * wJ ∧ i < s.length) := by omega
    rw [if_neg c']

theorem Raw.setInt_inv (s : Raw w) (hc : Compat w wJ) (h : s.Inv) (idx : Nat) (v : BitVec wJ) :
    (s.setInt wJ idx v).Inv := by
  unfold Raw.Inv
  rw [Raw.setInt_size, Raw.setInt_length]
  refine ⟨h.1, fun i hi => ?_⟩
  rw [Raw.setInt_bits s hc h, if_neg (by omega)]
  exact h.2 i hi

end Bva
