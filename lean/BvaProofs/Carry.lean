import BvaProofs.Base
import BvaModel.Dynamic
/-!
# Carry chains: `+=` and `-=` for `Bvf` and `Bvd` (task T5)
-/
namespace Bva
variable {w : Nat}

/-- Σ_{i<n} (f i)·2^(w·i) — the value of the first `n` fetched right-hand-side words -/
def valF (f : Nat → BitVec w) : Nat → Nat
  | 0 => 0
  | n + 1 => valF f n + 2 ^ (w * n) * (f n).toNat

-- ---- 1. the word primitives ---------------------------------------------------------------------

theorem add_mod_cases (a b P : Nat) (ha : a < P) (hb : b < P) :
    (a + b) % P = if P ≤ a + b then a + b - P else a + b := by
  split
  · rename_i h
    rw [Nat.mod_eq_sub_mod h, Nat.mod_eq_of_lt (by omega)]
  · rename_i h
    exact Nat.mod_eq_of_lt (by omega)

theorem sub_mod_cases (a b P : Nat) (ha : a < P) (hb : b < P) :
    (P - b + a) % P = if a < b then P - b + a else a - b := by
  split
  · rename_i h
    exact Nat.mod_eq_of_lt (by omega)
  · rename_i h
    have e : P - b + a = (a - b) + P := by omega
    rw [e, Nat.add_mod_right, Nat.mod_eq_of_lt (by omega)]

theorem four_le_two_pow (hw : 2 ≤ w) : 4 ≤ 2 ^ w :=
  calc 4 = 2 ^ 2 := rfl
    _ ≤ 2 ^ w := Nat.pow_le_pow_right (by omega) hw

theorem toNat_b2w (hw : 0 < w) (b : Bool) : (b2w w b).toNat = b.toNat := by
  have : 1 < 2 ^ w := Nat.one_lt_two_pow (by omega)
  cases b <;> simp [b2w, Nat.mod_eq_of_lt this]

/-- the Rust non-wrapping `c1 as Self + c2 as Self` does not overflow -/
theorem b2w_add_no_overflow (hw : 2 ≤ w) (c1 c2 : Bool) :
    (b2w w c1).toNat + (b2w w c2).toNat < 2 ^ w := by
  have h4 := four_le_two_pow hw
  rw [toNat_b2w (by omega), toNat_b2w (by omega)]
  cases c1 <;> cases c2 <;> simp <;> omega

theorem toNat_b2w_add (hw : 2 ≤ w) (c1 c2 : Bool) :
    (b2w w c1 + b2w w c2).toNat = c1.toNat + c2.toNat := by
  rw [BitVec.toNat_add, Nat.mod_eq_of_lt (b2w_add_no_overflow hw c1 c2),
    toNat_b2w (by omega), toNat_b2w (by omega)]

theorem carry_full (a b : BitVec w) :
    BitVec.carry w a b false = decide (2 ^ w ≤ a.toNat + b.toNat) := by
  unfold BitVec.carry
  rw [Nat.mod_eq_of_lt a.isLt, Nat.mod_eq_of_lt b.isLt]
  simp

theorem cadd_spec (hw : 2 ≤ w) (a b c : BitVec w) :
    (cadd a b c).1.toNat + 2 ^ w * (cadd a b c).2.toNat = a.toNat + b.toNat + c.toNat := by
  have ha := a.isLt; have hb := b.isLt; have hc := c.isLt
  unfold cadd
  simp only [toNat_b2w_add hw, carry_full, BitVec.toNat_add]
  have h1 := add_mod_cases a.toNat b.toNat (2 ^ w) ha hb
  have hlt : (a.toNat + b.toNat) % 2 ^ w < 2 ^ w := Nat.mod_lt _ (by omega)
  have h2 := add_mod_cases ((a.toNat + b.toNat) % 2 ^ w) c.toNat (2 ^ w) hlt hc
  rw [h2]
  generalize (a.toNat + b.toNat) % 2 ^ w = v1 at *
  by_cases g1 : 2 ^ w ≤ a.toNat + b.toNat <;> by_cases g2 : 2 ^ w ≤ v1 + c.toNat <;>
    simp only [g1, g2, if_true, if_false, decide_true, decide_false, Bool.toNat_true,
      Bool.toNat_false] at h1 ⊢ <;> omega

theorem cadd_carry_le (hw : 2 ≤ w) (a b c : BitVec w) : (cadd a b c).2.toNat ≤ 2 := by
  unfold cadd
  simp only [toNat_b2w_add hw]
  generalize BitVec.carry w a b false = c1
  generalize BitVec.carry w (a + b) c false = c2
  cases c1 <;> cases c2 <;> simp

theorem cadd_carry_le_one (hw : 2 ≤ w) (a b c : BitVec w) (hc1 : c.toNat ≤ 1) :
    (cadd a b c).2.toNat ≤ 1 := by
  have ha := a.isLt; have hb := b.isLt
  unfold cadd
  simp only [toNat_b2w_add hw, carry_full, BitVec.toNat_add]
  have h1 := add_mod_cases a.toNat b.toNat (2 ^ w) ha hb
  generalize (a.toNat + b.toNat) % 2 ^ w = v1 at *
  by_cases g1 : 2 ^ w ≤ a.toNat + b.toNat <;> by_cases g2 : 2 ^ w ≤ v1 + c.toNat <;>
    simp only [g1, g2, if_true, if_false, decide_true, decide_false, Bool.toNat_true,
      Bool.toNat_false] at h1 ⊢ <;> omega

theorem toNat_sub_cases (a b : BitVec w) :
    (a - b).toNat = if a.toNat < b.toNat then 2 ^ w - b.toNat + a.toNat else a.toNat - b.toNat := by
  rw [BitVec.toNat_sub]
  exact sub_mod_cases a.toNat b.toNat (2 ^ w) a.isLt b.isLt

theorem csub_spec (hw : 2 ≤ w) (a b c : BitVec w) :
    (csub a b c).1.toNat + b.toNat + c.toNat = a.toNat + 2 ^ w * (csub a b c).2.toNat := by
  have ha := a.isLt; have hb := b.isLt; have hc := c.isLt
  unfold csub
  simp only [toNat_b2w_add hw]
  rw [toNat_sub_cases (a - b) c]
  have h1 := toNat_sub_cases a b
  have hlt := (a - b).isLt
  generalize (a - b).toNat = v1 at *
  by_cases g1 : a.toNat < b.toNat <;> by_cases g2 : v1 < c.toNat <;>
    simp only [g1, g2, if_true, if_false, decide_true, decide_false, Bool.toNat_true,
      Bool.toNat_false] at h1 ⊢ <;> omega

theorem csub_borrow_le_one (hw : 2 ≤ w) (a b c : BitVec w) (hc1 : c.toNat ≤ 1) :
    (csub a b c).2.toNat ≤ 1 := by
  have ha := a.isLt; have hb := b.isLt
  unfold csub
  simp only [toNat_b2w_add hw]
  have h1 := toNat_sub_cases a b
  generalize (a - b).toNat = v1 at *
  by_cases g1 : a.toNat < b.toNat <;> by_cases g2 : v1 < c.toNat <;>
    simp only [g1, g2, if_true, if_false, decide_true, decide_false, Bool.toNat_true,
      Bool.toNat_false] at h1 ⊢ <;> omega

end Bva
