import BvaProofs.Base
import BvaProofs.ValF
import BvaModel.Dynamic
/-!
# Carry chains: `+=` and `-=` for `Bvf` and `Bvd` (task T5)
-/
set_option linter.unusedVariables false
namespace Bva
variable {w : Nat}

/-- Σ_{i<n} (f i)·2^(w·i) — the value of the first `n` fetched right-hand-side words -/

-- ---- 1. the word primitives ---------------------------------------------------------------------

theorem add_mod_cases (a b P : Nat) (ha : a < P) (hb : b < P) :
    (a + b) % P = if P ≤ a + b then a + b - P else a + b := by
  split
  · rename_i h
    rw [Nat.mod_eq_sub_mod h, Nat.mod_eq_of_lt (by omega)]
  · rename_i h
    exact Nat.mod_eq_of_lt (by omega)

theorem sub_mod_cases (a b P : Nat) (ha : a < P) (hb : b < P) :
    (P - b + a) % P = if a < b then P - b + a else a - b := by
  split
  · rename_i h
    exact Nat.mod_eq_of_lt (by omega)
  · rename_i h
    have e : P - b + a = (a - b) + P := by omega
    rw [e, Nat.add_mod_right, Nat.mod_eq_of_lt (by omega)]

theorem four_le_two_pow (hw : 2 ≤ w) : 4 ≤ 2 ^ w :=
  calc 4 = 2 ^ 2 := rfl
    _ ≤ 2 ^ w := Nat.pow_le_pow_right (by omega) hw

theorem toNat_b2w (hw : 0 < w) (b : Bool) : (b2w w b).toNat = b.toNat := by
  have : 1 < 2 ^ w := Nat.one_lt_two_pow (by omega)
  cases b <;> simp [b2w, Nat.mod_eq_of_lt this]

/-- the Rust non-wrapping `c1 as Self + c2 as Self` does not overflow -/
theorem b2w_add_no_overflow (hw : 2 ≤ w) (c1 c2 : Bool) :
    (b2w w c1).toNat + (b2w w c2).toNat < 2 ^ w := by
  have h4 := four_le_two_pow hw
  rw [toNat_b2w (by omega), toNat_b2w (by omega)]
  cases c1 <;> cases c2 <;> simp <;> omega

theorem toNat_b2w_add (hw : 2 ≤ w) (c1 c2 : Bool) :
    (b2w w c1 + b2w w c2).toNat = c1.toNat + c2.toNat := by
  rw [BitVec.toNat_add, Nat.mod_eq_of_lt (b2w_add_no_overflow hw c1 c2),
    toNat_b2w (by omega), toNat_b2w (by omega)]

theorem carry_full (a b : BitVec w) :
    BitVec.carry w a b false = decide (2 ^ w ≤ a.toNat + b.toNat) := by
  unfold BitVec.carry
  rw [Nat.mod_eq_of_lt a.isLt, Nat.mod_eq_of_lt b.isLt]
  simp

theorem cadd_nat (P a b c : Nat) (h4 : 4 ≤ P) (ha : a < P) (hb : b < P) (hc : c < P) (c1 c2 : Bool)
    (h1 : c1 = decide (P ≤ a + b)) (h2 : c2 = decide (P ≤ (a + b) % P + c)) :
    ((a + b) % P + c) % P + P * (c1.toNat + c2.toNat) = a + b + c ∧
      (c ≤ 1 → c1.toNat + c2.toNat ≤ 1) := by
  have e1 := add_mod_cases a b P ha hb
  have hlt : (a + b) % P < P := Nat.mod_lt _ (by omega)
  have e2 := add_mod_cases ((a + b) % P) c P hlt hc
  rw [e2]
  subst h1 h2
  generalize (a + b) % P = v1 at *
  by_cases g1 : P ≤ a + b <;> by_cases g2 : P ≤ v1 + c <;>
    simp only [g1, g2, if_true, if_false, decide_true, decide_false, Bool.toNat_true,
      Bool.toNat_false] at e1 ⊢ <;> omega

theorem cadd_spec (hw : 2 ≤ w) (a b c : BitVec w) :
    (cadd a b c).1.toNat + 2 ^ w * (cadd a b c).2.toNat = a.toNat + b.toNat + c.toNat := by
  unfold cadd
  simp only [toNat_b2w_add hw, BitVec.toNat_add]
  exact (cadd_nat (2 ^ w) a.toNat b.toNat c.toNat (four_le_two_pow hw) a.isLt b.isLt c.isLt _ _
    (carry_full a b) (by rw [carry_full, BitVec.toNat_add])).1

theorem cadd_carry_le (hw : 2 ≤ w) (a b c : BitVec w) : (cadd a b c).2.toNat ≤ 2 := by
  unfold cadd
  simp only [toNat_b2w_add hw]
  generalize BitVec.carry w a b false = c1
  generalize BitVec.carry w (a + b) c false = c2
  cases c1 <;> cases c2 <;> simp

theorem cadd_carry_le_one (hw : 2 ≤ w) (a b c : BitVec w) (hc1 : c.toNat ≤ 1) :
    (cadd a b c).2.toNat ≤ 1 := by
  unfold cadd
  simp only [toNat_b2w_add hw]
  exact (cadd_nat (2 ^ w) a.toNat b.toNat c.toNat (four_le_two_pow hw) a.isLt b.isLt c.isLt _ _
    (carry_full a b) (by rw [carry_full, BitVec.toNat_add])).2 hc1

theorem toNat_sub_cases (a b : BitVec w) :
    (a - b).toNat = if a.toNat < b.toNat then 2 ^ w - b.toNat + a.toNat else a.toNat - b.toNat := by
  rw [BitVec.toNat_sub]
  exact sub_mod_cases a.toNat b.toNat (2 ^ w) a.isLt b.isLt

theorem csub_nat (P a b c v1 : Nat) (ha : a < P) (hb : b < P) (hc : c < P)
    (hv : v1 = if a < b then P - b + a else a - b) (c1 c2 : Bool)
    (h1 : c1 = decide (a < b)) (h2 : c2 = decide (v1 < c)) :
    (if v1 < c then P - c + v1 else v1 - c) + b + c = a + P * (c1.toNat + c2.toNat) ∧
      (c ≤ 1 → c1.toNat + c2.toNat ≤ 1) := by
  subst h1 h2
  by_cases g1 : a < b <;> by_cases g2 : v1 < c <;>
    simp only [g1, g2, if_true, if_false, decide_true, decide_false, Bool.toNat_true,
      Bool.toNat_false] at hv ⊢ <;> omega

theorem csub_spec (hw : 2 ≤ w) (a b c : BitVec w) :
    (csub a b c).1.toNat + b.toNat + c.toNat = a.toNat + 2 ^ w * (csub a b c).2.toNat := by
  unfold csub
  simp only [toNat_b2w_add hw]
  rw [toNat_sub_cases (a - b) c]
  exact (csub_nat (2 ^ w) a.toNat b.toNat c.toNat (a - b).toNat a.isLt b.isLt c.isLt
    (toNat_sub_cases a b) _ _ rfl rfl).1

theorem csub_borrow_le_one (hw : 2 ≤ w) (a b c : BitVec w) (hc1 : c.toNat ≤ 1) :
    (csub a b c).2.toNat ≤ 1 := by
  unfold csub
  simp only [toNat_b2w_add hw]
  exact (csub_nat (2 ^ w) a.toNat b.toNat c.toNat (a - b).toNat a.isLt b.isLt c.isLt
    (toNat_sub_cases a b) _ _ rfl rfl).2 hc1

-- ---- 2. the carry chain ----------------------------------------------------------------------------

/-- what an add-with-carry primitive must satisfy (both Rust carry conventions do, for carry-in ≤ 1) -/
def IsAdder (prim : BitVec w → BitVec w → BitVec w → BitVec w × BitVec w) : Prop :=
  ∀ x y c : BitVec w, c.toNat ≤ 1 →
    (prim x y c).1.toNat + 2 ^ w * (prim x y c).2.toNat = x.toNat + y.toNat + c.toNat ∧
    (prim x y c).2.toNat ≤ 1

/-- what a subtract-with-borrow primitive must satisfy -/
def IsSubber (prim : BitVec w → BitVec w → BitVec w → BitVec w × BitVec w) : Prop :=
  ∀ x y c : BitVec w, c.toNat ≤ 1 →
    (prim x y c).1.toNat + y.toNat + c.toNat = x.toNat + 2 ^ w * (prim x y c).2.toNat ∧
    (prim x y c).2.toNat ≤ 1

theorem cadd_isAdder (hw : 2 ≤ w) : IsAdder (@cadd w) :=
  fun x y c hc => ⟨cadd_spec hw x y c, cadd_carry_le_one hw x y c hc⟩

theorem csub_isSubber (hw : 2 ≤ w) : IsSubber (@csub w) :=
  fun x y c hc => ⟨csub_spec hw x y c, csub_borrow_le_one hw x y c hc⟩

/-- one iteration of the loop body -/
def chainStep (prim : BitVec w → BitVec w → BitVec w → BitVec w × BitVec w) (fetch : Nat → BitVec w)
    (i : Nat) (p : Array (BitVec w) × BitVec w) : Array (BitVec w) × BitVec w :=
  let r := prim (wd p.1 i) (fetch i) p.2
  (p.1.setIfInBounds i r.1, r.2)

theorem chain_eq (prim : BitVec w → BitVec w → BitVec w → BitVec w × BitVec w)
    (ws : Array (BitVec w)) (fetch : Nat → BitVec w) (lo hi : Nat) (c : BitVec w) :
    Bvf.chain prim ws fetch lo hi c = forRange lo hi (chainStep prim fetch) (ws, c) := rfl

theorem wd_set (a : Array (BitVec w)) (i t : Nat) (x : BitVec w) (hi : i < a.size) :
    wd (a.setIfInBounds i x) t = if t = i then x else wd a t := by
  simp only [wd, Array.getD_eq_getD_getElem?, Array.getElem?_setIfInBounds]
  by_cases h : i = t
  · subst h; simp [hi]
  · have : ¬ t = i := fun e => h e.symm
    simp [h, this]

theorem valUpTo_congr (a b : Array (BitVec w)) (n : Nat) (h : ∀ t, t < n → wd a t = wd b t) :
    valUpTo a n = valUpTo b n := by
  induction n with
  | zero => rfl
  | succ n ih =>
    simp only [valUpTo]
    rw [ih (fun t ht => h t (by omega)), h n (by omega)]

theorem valF_congr (f g : Nat → BitVec w) (n : Nat) (h : ∀ t, t < n → f t = g t) :
    valF f n = valF g n := by
  induction n with
  | zero => rfl
  | succ n ih =>
    simp only [valF]
    rw [ih (fun t ht => h t (by omega)), h n (by omega)]

theorem two_pow_succ_mul (n : Nat) : 2 ^ (w * (n + 1)) = 2 ^ (w * n) * 2 ^ w := by
  rw [Nat.mul_succ, Nat.pow_add]

/-- loop invariant of an addition chain after the words `< n` have been processed -/
def AddInv (a0 : Array (BitVec w)) (f : Nat → BitVec w) (c0 : Nat) (n : Nat)
    (p : Array (BitVec w) × BitVec w) : Prop :=
  p.1.size = a0.size ∧ p.2.toNat ≤ 1 ∧ (∀ t, n ≤ t → wd p.1 t = wd a0 t) ∧
    valUpTo p.1 n + 2 ^ (w * n) * p.2.toNat = valUpTo a0 n + valF f n + c0

/-- loop invariant of a subtraction chain -/
def SubInv (a0 : Array (BitVec w)) (f : Nat → BitVec w) (c0 : Nat) (n : Nat)
    (p : Array (BitVec w) × BitVec w) : Prop :=
  p.1.size = a0.size ∧ p.2.toNat ≤ 1 ∧ (∀ t, n ≤ t → wd p.1 t = wd a0 t) ∧
    valUpTo p.1 n + valF f n + c0 = valUpTo a0 n + 2 ^ (w * n) * p.2.toNat

theorem AddInv_step {prim} (hp : IsAdder (w := w) prim) (a0 : Array (BitVec w)) (f g : Nat → BitVec w)
    (c0 n : Nat) (p : Array (BitVec w) × BitVec w) (h : AddInv a0 f c0 n p) (hn : n < a0.size)
    (hg : g n = f n) : AddInv a0 f c0 (n + 1) (chainStep prim g n p) := by
  obtain ⟨h1, h2, h3, h4⟩ := h
  obtain ⟨hadd, hcar⟩ := hp (wd p.1 n) (g n) p.2 h2
  unfold chainStep
  simp only
  generalize prim (wd p.1 n) (g n) p.2 = r at hadd hcar
  have hi : n < p.1.size := by omega
  refine ⟨by simp [h1], hcar, ?_, ?_⟩
  · intro t ht
    rw [wd_set _ _ _ _ hi, if_neg (by omega)]
    exact h3 t (by omega)
  · simp only [valUpTo, valF]
    rw [wd_set _ _ _ _ hi, if_pos rfl]
    rw [valUpTo_congr (p.1.setIfInBounds n r.1) p.1 n
      (fun t ht => by rw [wd_set _ _ _ _ hi, if_neg (by omega)])]
    rw [two_pow_succ_mul, Nat.mul_assoc, ← h3 n (Nat.le_refl _), ← hg]
    have := congrArg (fun z => 2 ^ (w * n) * z) hadd
    simp only [Nat.mul_add] at this
    omega

theorem SubInv_step {prim} (hp : IsSubber (w := w) prim) (a0 : Array (BitVec w)) (f g : Nat → BitVec w)
    (c0 n : Nat) (p : Array (BitVec w) × BitVec w) (h : SubInv a0 f c0 n p) (hn : n < a0.size)
    (hg : g n = f n) : SubInv a0 f c0 (n + 1) (chainStep prim g n p) := by
  obtain ⟨h1, h2, h3, h4⟩ := h
  obtain ⟨hadd, hcar⟩ := hp (wd p.1 n) (g n) p.2 h2
  unfold chainStep
  simp only
  generalize prim (wd p.1 n) (g n) p.2 = r at hadd hcar
  have hi : n < p.1.size := by omega
  refine ⟨by simp [h1], hcar, ?_, ?_⟩
  · intro t ht
    rw [wd_set _ _ _ _ hi, if_neg (by omega)]
    exact h3 t (by omega)
  · simp only [valUpTo, valF]
    rw [wd_set _ _ _ _ hi, if_pos rfl]
    rw [valUpTo_congr (p.1.setIfInBounds n r.1) p.1 n
      (fun t ht => by rw [wd_set _ _ _ _ hi, if_neg (by omega)])]
    rw [two_pow_succ_mul, Nat.mul_assoc, ← h3 n (Nat.le_refl _), ← hg]
    have := congrArg (fun z => 2 ^ (w * n) * z) hadd
    simp only [Nat.mul_add] at this
    omega

/-- a `forRange` loop carries a step-indexed invariant from `lo` to `hi` -/
theorem forRange_inv {σ : Type} (P : Nat → σ → Prop) (step : Nat → σ → σ) (lo hi : Nat) (hle : lo ≤ hi)
    (hstep : ∀ n s, lo ≤ n → n < hi → P n s → P (n + 1) (step n s)) (init : σ) (h0 : P lo init) :
    P hi (forRange lo hi step init) := by
  unfold forRange
  have key : ∀ k, lo + k ≤ hi →
      P (lo + k) (List.foldl (fun s i => step i s) init (List.range' lo k)) := by
    intro k
    induction k with
    | zero => intro _; simpa using h0
    | succ k ih =>
      intro hk
      rw [List.range'_concat, List.foldl_append]
      simp only [List.foldl_cons, List.foldl_nil, Nat.one_mul]
      exact hstep (lo + k) _ (by omega) (by omega) (ih (by omega))
  have := key (hi - lo) (by omega)
  have e : lo + (hi - lo) = hi := by omega
  rw [e] at this
  exact this

theorem AddInv_loop {prim} (hp : IsAdder (w := w) prim) (a0 : Array (BitVec w)) (f g : Nat → BitVec w)
    (c0 lo hi : Nat) (hle : lo ≤ hi) (hhi : hi ≤ a0.size) (hg : ∀ t, lo ≤ t → t < hi → g t = f t)
    (p : Array (BitVec w) × BitVec w) (h : AddInv a0 f c0 lo p) :
    AddInv a0 f c0 hi (forRange lo hi (chainStep prim g) p) :=
  forRange_inv (AddInv a0 f c0) (chainStep prim g) lo hi hle
    (fun n s h1 h2 hP => AddInv_step hp a0 f g c0 n s hP (by omega) (hg n h1 h2)) p h

theorem SubInv_loop {prim} (hp : IsSubber (w := w) prim) (a0 : Array (BitVec w)) (f g : Nat → BitVec w)
    (c0 lo hi : Nat) (hle : lo ≤ hi) (hhi : hi ≤ a0.size) (hg : ∀ t, lo ≤ t → t < hi → g t = f t)
    (p : Array (BitVec w) × BitVec w) (h : SubInv a0 f c0 lo p) :
    SubInv a0 f c0 hi (forRange lo hi (chainStep prim g) p) :=
  forRange_inv (SubInv a0 f c0) (chainStep prim g) lo hi hle
    (fun n s h1 h2 hP => SubInv_step hp a0 f g c0 n s hP (by omega) (hg n h1 h2)) p h

theorem AddInv_init (ws : Array (BitVec w)) (f : Nat → BitVec w) (c0 : BitVec w) (hc : c0.toNat ≤ 1) :
    AddInv ws f c0.toNat 0 (ws, c0) :=
  ⟨rfl, hc, fun _ _ => rfl, by simp [valUpTo, valF]⟩

theorem SubInv_init (ws : Array (BitVec w)) (f : Nat → BitVec w) (c0 : BitVec w) (hc : c0.toNat ≤ 1) :
    SubInv ws f c0.toNat 0 (ws, c0) :=
  ⟨rfl, hc, fun _ _ => rfl, by simp [valUpTo, valF]⟩

/-- generic addition chain (any primitive that is a full adder for carry-in ≤ 1) -/
theorem chain_add {prim} (hp : IsAdder (w := w) prim) (ws : Array (BitVec w)) (f : Nat → BitVec w)
    (N : Nat) (c0 : BitVec w) (hN : N ≤ ws.size) (hc : c0.toNat ≤ 1) :
    valUpTo (Bvf.chain prim ws f 0 N c0).1 N + 2 ^ (w * N) * (Bvf.chain prim ws f 0 N c0).2.toNat
        = valUpTo ws N + valF f N + c0.toNat ∧
      (Bvf.chain prim ws f 0 N c0).1.size = ws.size ∧
      (Bvf.chain prim ws f 0 N c0).2.toNat ≤ 1 ∧
      ∀ t, N ≤ t → wd (Bvf.chain prim ws f 0 N c0).1 t = wd ws t := by
  rw [chain_eq]
  obtain ⟨h1, h2, h3, h4⟩ := AddInv_loop hp ws f f c0.toNat 0 N (Nat.zero_le _) hN (fun _ _ _ => rfl)
    (ws, c0) (AddInv_init ws f c0 hc)
  exact ⟨h4, h1, h2, h3⟩

/-- generic subtraction chain -/
theorem chain_sub {prim} (hp : IsSubber (w := w) prim) (ws : Array (BitVec w)) (f : Nat → BitVec w)
    (N : Nat) (c0 : BitVec w) (hN : N ≤ ws.size) (hc : c0.toNat ≤ 1) :
    valUpTo (Bvf.chain prim ws f 0 N c0).1 N + valF f N + c0.toNat
        = valUpTo ws N + 2 ^ (w * N) * (Bvf.chain prim ws f 0 N c0).2.toNat ∧
      (Bvf.chain prim ws f 0 N c0).1.size = ws.size ∧
      (Bvf.chain prim ws f 0 N c0).2.toNat ≤ 1 ∧
      ∀ t, N ≤ t → wd (Bvf.chain prim ws f 0 N c0).1 t = wd ws t := by
  rw [chain_eq]
  obtain ⟨h1, h2, h3, h4⟩ := SubInv_loop hp ws f f c0.toNat 0 N (Nat.zero_le _) hN (fun _ _ _ => rfl)
    (ws, c0) (SubInv_init ws f c0 hc)
  exact ⟨h4, h1, h2, h3⟩

/-- task item 2, `cadd` -/
theorem chain_cadd (hw : 2 ≤ w) (ws : Array (BitVec w)) (f : Nat → BitVec w)
    (N : Nat) (c0 : BitVec w) (hN : N ≤ ws.size) (hc : c0.toNat ≤ 1) :
    valUpTo (Bvf.chain cadd ws f 0 N c0).1 N + 2 ^ (w * N) * (Bvf.chain cadd ws f 0 N c0).2.toNat
        = valUpTo ws N + valF f N + c0.toNat ∧
      (Bvf.chain cadd ws f 0 N c0).1.size = ws.size ∧
      (Bvf.chain cadd ws f 0 N c0).2.toNat ≤ 1 ∧
      ∀ t, N ≤ t → wd (Bvf.chain cadd ws f 0 N c0).1 t = wd ws t :=
  chain_add (cadd_isAdder hw) ws f N c0 hN hc

/-- task item 2, `csub` -/
theorem chain_csub (hw : 2 ≤ w) (ws : Array (BitVec w)) (f : Nat → BitVec w)
    (N : Nat) (c0 : BitVec w) (hN : N ≤ ws.size) (hc : c0.toNat ≤ 1) :
    valUpTo (Bvf.chain csub ws f 0 N c0).1 N + valF f N + c0.toNat
        = valUpTo ws N + 2 ^ (w * N) * (Bvf.chain csub ws f 0 N c0).2.toNat ∧
      (Bvf.chain csub ws f 0 N c0).1.size = ws.size ∧
      (Bvf.chain csub ws f 0 N c0).2.toNat ≤ 1 ∧
      ∀ t, N ≤ t → wd (Bvf.chain csub ws f 0 N c0).1 t = wd ws t :=
  chain_sub (csub_isSubber hw) ws f N c0 hN hc

-- ---- 3. `Bvf += / -=` -------------------------------------------------------------------------------

/-- value form of `bitAt_mod2n` -/
theorem valUpTo_mod2n (hw : 0 < w) (ws : Array (BitVec w)) (n N : Nat) :
    valUpTo (mod2n ws n) N = valUpTo ws N % 2 ^ n := by
  apply Nat.eq_of_testBit_eq
  intro i
  rw [Nat.testBit_mod_two_pow, testBit_valUpTo hw, testBit_valUpTo hw, bitAt_mod2n _ _ _ hw]
  cases decide (i < w * N) <;> cases decide (i < n) <;> cases bitAt ws i <;> rfl

theorem valAll_mod2n (hw : 0 < w) (ws : Array (BitVec w)) (n : Nat) :
    valAll (mod2n ws n) = valAll ws % 2 ^ n := by
  unfold valAll
  rw [size_mod2n, valUpTo_mod2n hw]

theorem two_pow_dvd_of_le (n m : Nat) (h : n ≤ m) : 2 ^ n ∣ 2 ^ m :=
  ⟨2 ^ (m - n), by rw [← Nat.pow_add]; congr 1; omega⟩

/-- the closing arithmetic of an addition: drop the carry-out and the excess words -/
theorem add_final (D c S X M L : Nat) (h : D + M * c = S + X % M) (hd : L ∣ M) :
    D % L = (S + X) % L := by
  obtain ⟨q, rfl⟩ := hd
  have e1 : D % L = (D + L * q * c) % L := by
    rw [Nat.mul_assoc, Nat.add_mul_mod_self_left]
  rw [e1, h, Nat.add_mod, Nat.mod_mod_of_dvd _ ⟨q, rfl⟩, ← Nat.add_mod]

/-- the closing arithmetic of a subtraction -/
theorem sub_final (D c S X M L : Nat) (hL : 0 < L) (h : D + X % M = S + M * c) (hd : L ∣ M) :
    D % L = (S + L - X % L) % L := by
  obtain ⟨q, rfl⟩ := hd
  have hx : X % (L * q) % L = X % L := Nat.mod_mod_of_dvd _ ⟨q, rfl⟩
  have hxl : X % L < L := Nat.mod_lt _ hL
  -- (D + X % L) % L = S % L
  have e1 : (D + X % L) % L = S % L := by
    have : (D + X % (L * q)) % L = S % L := by
      rw [h, Nat.mul_assoc, Nat.add_mul_mod_self_left]
    rw [Nat.add_mod, Nat.mod_mod, ← hx, ← Nat.add_mod]
    exact this
  have e2 : D % L = (D + X % L + (L - X % L)) % L := by
    have : D + X % L + (L - X % L) = D + L := by omega
    rw [this, Nat.add_mod_right]
  have e3 : S + L - X % L = S + (L - X % L) := by omega
  rw [e2, e3, Nat.add_mod, e1, ← Nat.add_mod]

theorem valAll_lt_of_inv {s : Raw w} (h : s.Inv) (hw : 0 < w) : valAll s.data < 2 ^ s.length :=
  Raw.Inv.wf h hw

theorem Bvf.addsubAssign_add (s : Raw w) (x : AnyBv) (hw : 2 ≤ w) (h : s.Inv)
    (hf : valF (Bvf.rhsWord w s.data.size x) s.data.size = x.abs.val % 2 ^ (w * s.data.size)) :
    (Bvf.addsubAssign false s x).Inv ∧ (Bvf.addsubAssign false s x).abs = s.abs.add x.abs := by
  have hw0 : 0 < w := by omega
  obtain ⟨c1, c2, c3, c4⟩ := chain_cadd hw s.data (Bvf.rhsWord w s.data.size x) s.data.size 0#w
    (Nat.le_refl _) (by simp)
  unfold Bvf.addsubAssign
  simp only [Bool.false_eq_true, if_false]
  generalize Bvf.chain cadd s.data (Bvf.rhsWord w s.data.size x) 0 s.data.size 0#w = r at c1 c2 c3 c4
  refine ⟨⟨?_, ?_⟩, ?_⟩
  · simp only [size_mod2n, c2]; exact h.1
  · intro i hi
    simp only at hi ⊢
    rw [bitAt_mod2n _ _ _ hw0]
    have : ¬ i < s.length := by omega
    simp [this]
  · unfold Raw.abs BV.add
    simp only
    congr 1
    rw [valAll_mod2n hw0]
    unfold valAll
    rw [c2]
    apply add_final _ r.2.toNat _ _ (2 ^ (w * s.data.size))
    · rw [c1, hf]; simp
    · exact two_pow_dvd_of_le _ _ (by rw [Nat.mul_comm]; exact h.1)

theorem Bvf.addsubAssign_sub (s : Raw w) (x : AnyBv) (hw : 2 ≤ w) (h : s.Inv)
    (hf : valF (Bvf.rhsWord w s.data.size x) s.data.size = x.abs.val % 2 ^ (w * s.data.size)) :
    (Bvf.addsubAssign true s x).Inv ∧ (Bvf.addsubAssign true s x).abs = s.abs.sub x.abs := by
  have hw0 : 0 < w := by omega
  obtain ⟨c1, c2, c3, c4⟩ := chain_csub hw s.data (Bvf.rhsWord w s.data.size x) s.data.size 0#w
    (Nat.le_refl _) (by simp)
  unfold Bvf.addsubAssign
  simp only [if_true]
  generalize Bvf.chain csub s.data (Bvf.rhsWord w s.data.size x) 0 s.data.size 0#w = r at c1 c2 c3 c4
  refine ⟨⟨?_, ?_⟩, ?_⟩
  · simp only [size_mod2n, c2]; exact h.1
  · intro i hi
    simp only at hi ⊢
    rw [bitAt_mod2n _ _ _ hw0]
    have : ¬ i < s.length := by omega
    simp [this]
  · unfold Raw.abs BV.sub
    simp only
    congr 1
    rw [valAll_mod2n hw0]
    unfold valAll
    rw [c2]
    apply sub_final _ r.2.toNat _ _ (2 ^ (w * s.data.size)) _ (Nat.two_pow_pos _)
    · rw [← c1, hf]; simp
    · exact two_pow_dvd_of_le _ _ (by rw [Nat.mul_comm]; exact h.1)

-- ---- 4. `Bvd += / -=` -------------------------------------------------------------------------------

/-- the `Bvd` loop body as a carry primitive: `overflowing_*` twice, carry `c1 || c2` -/
def Bvd.prim2 (sub : Bool) (x y c : BitVec 64) : BitVec 64 × BitVec 64 :=
  let r1 := Bvd.ovf sub x c
  let r2 := Bvd.ovf sub r1.1 y
  (r2.1, b2w 64 (r1.2 || r2.2))

theorem Bvd.ovf_zero (sub : Bool) (a : BitVec 64) : Bvd.ovf sub a 0#64 = (a, false) := by
  cases sub
  · simp only [Bvd.ovf, Bool.false_eq_true, if_false, carry_full]
    have := a.isLt
    simp
    omega
  · simp [Bvd.ovf]

theorem Bvd.prim2_add_isAdder : IsAdder (Bvd.prim2 false) := by
  intro x y c hc
  have hx := x.isLt; have hy := y.isLt
  unfold Bvd.prim2 Bvd.ovf
  simp only [Bool.false_eq_true, if_false, carry_full, BitVec.toNat_add, toNat_b2w (by decide : 0 < 64)]
  by_cases g1 : 2 ^ 64 ≤ x.toNat + c.toNat <;>
    by_cases g2 : 2 ^ 64 ≤ (x.toNat + c.toNat) % 2 ^ 64 + y.toNat <;>
    simp only [g1, g2, decide_true, decide_false, Bool.or_true, Bool.or_false, Bool.toNat_true,
      Bool.toNat_false] <;> omega

theorem Bvd.prim2_sub_isSubber : IsSubber (Bvd.prim2 true) := by
  intro x y c hc
  have hx := x.isLt; have hy := y.isLt
  unfold Bvd.prim2 Bvd.ovf
  simp only [if_true, toNat_b2w (by decide : 0 < 64)]
  have e1 := toNat_sub_cases x c
  have e2 := toNat_sub_cases (x - c) y
  rw [e2]
  generalize (x - c).toNat = v1 at *
  by_cases g1 : x.toNat < c.toNat <;> by_cases g2 : v1 < y.toNat <;>
    simp only [g1, g2, if_true, if_false, decide_true, decide_false, Bool.or_true, Bool.or_false,
      Bool.toNat_true, Bool.toNat_false] at e1 ⊢ <;> omega

theorem forRange_empty {σ : Type} (lo hi : Nat) (h : hi ≤ lo) (f : Nat → σ → σ) (init : σ) :
    forRange lo hi f init = init := by
  unfold forRange
  have : hi - lo = 0 := by omega
  rw [this]; rfl

/-- the state after the two loops of `Bvd.addsubAssign`, as two generic chains -/
def Bvd.addsubLoops (sub : Bool) (s : Raw 64) (x : AnyBv) : Array (BitVec 64) × BitVec 64 :=
  forRange (Bvd.rhsWords x).1 (Bvd.capW s.length) (chainStep (Bvd.prim2 sub) (fun _ => 0#64))
    (forRange 0 (min (Bvd.capW s.length) (Bvd.rhsWords x).1)
      (chainStep (Bvd.prim2 sub) (Bvd.rhsWords x).2) (s.data, 0#64))

theorem Bvd.addsubAssign_eq (sub : Bool) (s : Raw 64) (x : AnyBv) :
    Bvd.addsubAssign sub s x = { s with data := maskAt (Bvd.addsubLoops sub s x).1 s.length } := by
  have e2 : (fun i (p : Array (BitVec 64) × BitVec 64) =>
      let (d1, c) := Bvd.ovf sub (wd p.1 i) p.2
      (p.1.setIfInBounds i d1, b2w 64 c)) = chainStep (Bvd.prim2 sub) (fun _ => 0#64) := by
    funext i p
    simp only [chainStep, Bvd.prim2, Bvd.ovf_zero, Bool.or_false]
  unfold Bvd.addsubAssign
  simp only [e2]
  rfl

/-- right-hand side of `Bvd (op)= x`, padded with zero words -/
def Bvd.padded (x : AnyBv) : Nat → BitVec 64 :=
  fun i => if i < (Bvd.rhsWords x).1 then (Bvd.rhsWords x).2 i else 0#64

theorem valF_zero_tail (f : Nat → BitVec w) (m k : Nat) (hz : ∀ t, m ≤ t → f t = 0#w) :
    valF f (m + k) = valF f m := by
  induction k with
  | zero => rfl
  | succ k ih =>
    show valF f (m + k) + 2 ^ (w * (m + k)) * (f (m + k)).toNat = valF f m
    rw [hz (m + k) (by omega), ih]; simp

/-- the padded fetch has value `x` truncated to `n` words, for every `n` -/
theorem Bvd.valF_padded (x : AnyBv)
    (hf : ∀ n, n ≤ (Bvd.rhsWords x).1 → valF (Bvd.rhsWords x).2 n = x.abs.val % 2 ^ (64 * n))
    (hx : x.abs.val < 2 ^ (64 * (Bvd.rhsWords x).1)) (n : Nat) :
    valF (Bvd.padded x) n = x.abs.val % 2 ^ (64 * n) := by
  by_cases hn : n ≤ (Bvd.rhsWords x).1
  · rw [← hf n hn]
    apply valF_congr
    intro t ht
    simp only [Bvd.padded]
    rw [if_pos (by omega)]
  · have e : n = (Bvd.rhsWords x).1 + (n - (Bvd.rhsWords x).1) := by omega
    have hle : 2 ^ (64 * (Bvd.rhsWords x).1) ≤ 2 ^ (64 * n) :=
      Nat.pow_le_pow_right (by omega) (by omega)
    rw [Nat.mod_eq_of_lt (by omega), e, valF_zero_tail]
    · rw [valF_congr (Bvd.padded x) (Bvd.rhsWords x).2 _
        (fun t ht => by simp only [Bvd.padded]; rw [if_pos ht]), hf _ (Nat.le_refl _)]
      exact Nat.mod_eq_of_lt hx
    · intro t ht
      simp only [Bvd.padded]
      rw [if_neg (by omega)]

theorem Bvd.addsubLoops_add (s : Raw 64) (x : AnyBv) (hu : Bvd.capW s.length ≤ s.data.size) :
    AddInv s.data (Bvd.padded x) 0 (Bvd.capW s.length) (Bvd.addsubLoops false s x) := by
  unfold Bvd.addsubLoops
  have h0 : AddInv s.data (Bvd.padded x) 0 0 (s.data, 0#64) := by
    have := AddInv_init s.data (Bvd.padded x) 0#64 (by simp)
    simpa using this
  by_cases hn : (Bvd.rhsWords x).1 ≤ Bvd.capW s.length
  · rw [Nat.min_eq_right hn]
    apply AddInv_loop Bvd.prim2_add_isAdder _ _ _ _ _ _ hn hu
    · intro t h1 h2; simp only [Bvd.padded]; rw [if_neg (by omega)]
    · apply AddInv_loop Bvd.prim2_add_isAdder _ _ _ _ _ _ (Nat.zero_le _) (by omega) _ _ h0
      intro t h1 h2; simp only [Bvd.padded]; rw [if_pos h2]
  · rw [Nat.min_eq_left (by omega), forRange_empty _ _ (by omega)]
    apply AddInv_loop Bvd.prim2_add_isAdder _ _ _ _ _ _ (Nat.zero_le _) hu _ _ h0
    intro t h1 h2; simp only [Bvd.padded]; rw [if_pos (by omega)]

theorem Bvd.addsubLoops_sub (s : Raw 64) (x : AnyBv) (hu : Bvd.capW s.length ≤ s.data.size) :
    SubInv s.data (Bvd.padded x) 0 (Bvd.capW s.length) (Bvd.addsubLoops true s x) := by
  unfold Bvd.addsubLoops
  have h0 : SubInv s.data (Bvd.padded x) 0 0 (s.data, 0#64) := by
    have := SubInv_init s.data (Bvd.padded x) 0#64 (by simp)
    simpa using this
  by_cases hn : (Bvd.rhsWords x).1 ≤ Bvd.capW s.length
  · rw [Nat.min_eq_right hn]
    apply SubInv_loop Bvd.prim2_sub_isSubber _ _ _ _ _ _ hn hu
    · intro t h1 h2; simp only [Bvd.padded]; rw [if_neg (by omega)]
    · apply SubInv_loop Bvd.prim2_sub_isSubber _ _ _ _ _ _ (Nat.zero_le _) (by omega) _ _ h0
      intro t h1 h2; simp only [Bvd.padded]; rw [if_pos h2]
  · rw [Nat.min_eq_left (by omega), forRange_empty _ _ (by omega)]
    apply SubInv_loop Bvd.prim2_sub_isSubber _ _ _ _ _ _ (Nat.zero_le _) hu _ _ h0
    intro t h1 h2; simp only [Bvd.padded]; rw [if_pos (by omega)]

theorem valAll_maskAt (hw : 0 < w) (ws : Array (BitVec w)) (n : Nat)
    (hz : ∀ j, (n / w + 1) * w ≤ j → bitAt ws j = false) :
    valAll (maskAt ws n) = valAll ws % 2 ^ n := by
  apply Nat.eq_of_testBit_eq
  intro i
  unfold valAll
  rw [Nat.testBit_mod_two_pow, testBit_valUpTo hw, testBit_valUpTo hw, bitAt_maskAt _ _ _ hw hz,
    size_maskAt]
  cases decide (i < w * ws.size) <;> cases decide (i < n) <;> cases bitAt ws i <;> rfl

theorem valUpTo_of_high_zero (hw : 0 < w) (ws : Array (BitVec w)) (m k : Nat) (hmk : m ≤ k)
    (hz : ∀ j, w * m ≤ j → bitAt ws j = false) : valUpTo ws k = valUpTo ws m := by
  apply Nat.eq_of_testBit_eq
  intro i
  rw [testBit_valUpTo hw, testBit_valUpTo hw]
  by_cases h : i < w * m
  · have : i < w * k := Nat.lt_of_lt_of_le h (Nat.mul_le_mul_left w hmk)
    simp [h, this]
  · rw [hz i (by omega)]; simp

theorem capW_bounds (n : Nat) : n ≤ 64 * Bvd.capW n ∧ 64 * Bvd.capW n ≤ (n / 64 + 1) * 64 := by
  unfold Bvd.capW capFromBitLen
  omega

theorem capW_le_size {s : Raw 64} (h : s.Inv) : Bvd.capW s.length ≤ s.data.size := by
  have := h.1
  unfold Bvd.capW capFromBitLen
  omega

/-- after the loops: every storage bit from word `capW length` on is still zero -/
theorem Bvd.high_zero (s : Raw 64) (h : s.Inv) (d : Array (BitVec 64))
    (hd : ∀ t, Bvd.capW s.length ≤ t → wd d t = wd s.data t) (j : Nat)
    (hj : 64 * Bvd.capW s.length ≤ j) : bitAt d j = false := by
  have hb := (capW_bounds s.length).1
  have : bitAt d j = bitAt s.data j := by
    unfold bitAt
    rw [hd (j / 64) (by omega)]
  rw [this]
  exact h.2 j (by omega)

/-- common closing step of `Bvd.addsubAssign_add/_sub` -/
theorem Bvd.finish (s : Raw 64) (h : s.Inv) (d : Array (BitVec 64)) (hsz : d.size = s.data.size)
    (hd : ∀ t, Bvd.capW s.length ≤ t → wd d t = wd s.data t) :
    ({ s with data := maskAt d s.length } : Raw 64).Inv ∧
      valAll (maskAt d s.length) = valUpTo d (Bvd.capW s.length) % 2 ^ s.length ∧
      valAll s.data = valUpTo s.data (Bvd.capW s.length) := by
  have hb := capW_bounds s.length
  have hu := capW_le_size h
  have hz := Bvd.high_zero s h d hd
  have hz' : ∀ j, (s.length / 64 + 1) * 64 ≤ j → bitAt d j = false :=
    fun j hj => hz j (by omega)
  refine ⟨⟨?_, ?_⟩, ?_, ?_⟩
  · simp only [size_maskAt, hsz]; exact h.1
  · intro i hi
    simp only at hi ⊢
    rw [bitAt_maskAt _ _ _ (by decide) hz']
    have : ¬ i < s.length := by omega
    simp [this]
  · rw [valAll_maskAt (by decide) _ _ hz']
    unfold valAll
    rw [valUpTo_of_high_zero (by decide) d _ _ (by omega) hz]
  · unfold valAll
    exact valUpTo_of_high_zero (by decide) s.data _ _ hu
      (Bvd.high_zero s h s.data (fun _ _ => rfl))

theorem Bvd.addsubAssign_add (s : Raw 64) (x : AnyBv) (h : s.Inv)
    (hf : ∀ n, n ≤ (Bvd.rhsWords x).1 → valF (Bvd.rhsWords x).2 n = x.abs.val % 2 ^ (64 * n))
    (hx : x.abs.val < 2 ^ (64 * (Bvd.rhsWords x).1)) :
    (Bvd.addsubAssign false s x).Inv ∧ (Bvd.addsubAssign false s x).abs = s.abs.add x.abs ∧
      (Bvd.addsubAssign false s x).data.size = s.data.size := by
  obtain ⟨c1, c2, c3, c4⟩ := Bvd.addsubLoops_add s x (capW_le_size h)
  rw [Bvd.addsubAssign_eq]
  generalize Bvd.addsubLoops false s x = r at c1 c2 c3 c4
  obtain ⟨f1, f2, f3⟩ := Bvd.finish s h r.1 c1 c3
  refine ⟨f1, ?_, by simp only [size_maskAt, c1]⟩
  unfold Raw.abs BV.add
  simp only
  congr 1
  rw [f2, f3]
  apply add_final _ r.2.toNat _ _ (2 ^ (64 * Bvd.capW s.length))
  · rw [c4, Bvd.valF_padded x hf hx]; simp
  · exact two_pow_dvd_of_le _ _ (capW_bounds s.length).1

theorem Bvd.addsubAssign_sub (s : Raw 64) (x : AnyBv) (h : s.Inv)
    (hf : ∀ n, n ≤ (Bvd.rhsWords x).1 → valF (Bvd.rhsWords x).2 n = x.abs.val % 2 ^ (64 * n))
    (hx : x.abs.val < 2 ^ (64 * (Bvd.rhsWords x).1)) :
    (Bvd.addsubAssign true s x).Inv ∧ (Bvd.addsubAssign true s x).abs = s.abs.sub x.abs ∧
      (Bvd.addsubAssign true s x).data.size = s.data.size := by
  obtain ⟨c1, c2, c3, c4⟩ := Bvd.addsubLoops_sub s x (capW_le_size h)
  rw [Bvd.addsubAssign_eq]
  generalize Bvd.addsubLoops true s x = r at c1 c2 c3 c4
  obtain ⟨f1, f2, f3⟩ := Bvd.finish s h r.1 c1 c3
  refine ⟨f1, ?_, by simp only [size_maskAt, c1]⟩
  unfold Raw.abs BV.sub
  simp only
  congr 1
  rw [f2, f3]
  apply sub_final _ r.2.toNat _ _ (2 ^ (64 * Bvd.capW s.length)) _ (Nat.two_pow_pos _)
  · rw [← c4, Bvd.valF_padded x hf hx]; simp
  · exact two_pow_dvd_of_le _ _ (capW_bounds s.length).1

end Bva
