import BvaProofs.Base
import BvaModel.Auto
/-!
# T12 — parsing: `Bvf.fromBinary`, `Bvf.fromHex`, `Bvd.fromBinary`, `Bvd.fromHex`, `Bv.fromBinary`, `Bv.fromHex`

Spec-side helpers `Parse.firstBad` / `Parse.digitsVal` mirror `Drv.firstBad` / `Drv.digitsVal` of `BvaModel/Ops.lean`.
-/
namespace Bva
variable {w : Nat}

namespace Parse
/-- index (counted from `i`) of the first character that is not a digit -/
def firstBad (dig : Char → Option Nat) : List Char → Nat → Option Nat
  | [], _ => none
  | c :: cs, i => if (dig c).isNone then some i else firstBad dig cs (i + 1)

/-- value of the digit string, first character most significant -/
def digitsVal (base : Nat) (dig : Char → Option Nat) (cs : List Char) : Nat :=
  cs.foldl (fun acc c => acc * base + (dig c).getD 0) 0
end Parse
open Parse

-- ---- spec side: the bits of `digitsVal` ------------------------------------------------------------
/-- digit number `p` counted from the END of the string (`0` = last character); `0` beyond the string -/
def prs_digR (dig : Char → Option Nat) : List Char → Nat → Nat
  | [], _ => 0
  | c :: cs, p => if p = cs.length then (dig c).getD 0 else prs_digR dig cs p

theorem prs_digR_cons (dig : Char → Option Nat) (c : Char) (cs : List Char) (p : Nat) :
    prs_digR dig (c :: cs) p = if p = cs.length then (dig c).getD 0 else prs_digR dig cs p := rfl

theorem prs_digR_oob (dig : Char → Option Nat) (cs : List Char) (p : Nat) (h : cs.length ≤ p) :
    prs_digR dig cs p = 0 := by
  induction cs with
  | nil => rfl
  | cons c cs ih =>
    simp only [List.length_cons] at h
    unfold prs_digR
    rw [if_neg (by omega), ih (by omega)]

theorem prs_foldl_shift (base : Nat) (dig : Char → Option Nat) (cs : List Char) (acc : Nat) :
    cs.foldl (fun acc c => acc * base + (dig c).getD 0) acc
      = base ^ cs.length * acc + cs.foldl (fun acc c => acc * base + (dig c).getD 0) 0 := by
  induction cs generalizing acc with
  | nil => simp
  | cons c cs ih =>
    simp only [List.foldl_cons, List.length_cons]
    rw [ih (acc * base + (dig c).getD 0), ih (0 * base + (dig c).getD 0)]
    rw [Nat.pow_succ, Nat.zero_mul, Nat.zero_add, Nat.mul_add, Nat.add_assoc]
    congr 1
    rw [Nat.mul_assoc, Nat.mul_comm base acc]

theorem prs_digitsVal_cons (base : Nat) (dig : Char → Option Nat) (c : Char) (cs : List Char) :
    digitsVal base dig (c :: cs) = base ^ cs.length * (dig c).getD 0 + digitsVal base dig cs := by
  unfold digitsVal
  rw [List.foldl_cons, prs_foldl_shift, Nat.zero_mul, Nat.zero_add]

theorem prs_getD_lt {sh : Nat} {dig : Char → Option Nat} (hd : ∀ c d, dig c = some d → d < 2 ^ sh) (c : Char) :
    (dig c).getD 0 < 2 ^ sh := by
  cases h : dig c with
  | none => exact Nat.two_pow_pos sh
  | some d => exact hd c d h

theorem prs_digitsVal_lt {sh : Nat} {dig : Char → Option Nat} (hd : ∀ c d, dig c = some d → d < 2 ^ sh)
    (cs : List Char) : digitsVal (2 ^ sh) dig cs < 2 ^ (sh * cs.length) := by
  induction cs with
  | nil => simp [digitsVal]
  | cons c cs ih =>
    rw [prs_digitsVal_cons, List.length_cons, Nat.mul_succ, Nat.pow_add, ← Nat.pow_mul]
    have h1 := prs_getD_lt hd c
    have h2 : 2 ^ (sh * cs.length) * ((dig c).getD 0 + 1) ≤ 2 ^ (sh * cs.length) * 2 ^ sh :=
      Nat.mul_le_mul_left _ h1
    rw [Nat.mul_add, Nat.mul_one] at h2
    omega

theorem prs_div_mod_of_range {sh p k : Nat} (h1 : sh * k ≤ p) (h2 : p < sh * k + sh) :
    p / sh = k ∧ p % sh = p - sh * k := by
  have hsh : 0 < sh := by
    rcases Nat.eq_zero_or_pos sh with h | h
    · subst h; omega
    · exact h
  have e : p = sh * k + (p - sh * k) := by omega
  have := div_mod_unique (w := sh) hsh k (p - sh * k) (by omega)
  rw [← e] at this
  exact this

/-- bit `p` of the parsed value is bit `p % sh` of the digit number `p / sh` from the end -/
theorem prs_testBit_digitsVal {sh : Nat} (hsh : 0 < sh) {dig : Char → Option Nat}
    (hd : ∀ c d, dig c = some d → d < 2 ^ sh) (cs : List Char) (p : Nat) :
    (digitsVal (2 ^ sh) dig cs).testBit p = (prs_digR dig cs (p / sh)).testBit (p % sh) := by
  induction cs with
  | nil => simp [digitsVal, prs_digR]
  | cons c cs ih =>
    rw [prs_digitsVal_cons, ← Nat.pow_mul, Nat.testBit_two_pow_mul_add _ (prs_digitsVal_lt hd cs)]
    unfold prs_digR
    have hm := Nat.mod_lt p hsh
    have hp := idx_eq (w := sh) p
    by_cases hlt : p < sh * cs.length
    · rw [if_pos hlt, ih]
      have : p / sh < cs.length := by
        rw [Nat.mul_comm] at hlt
        exact (Nat.div_lt_iff_lt_mul hsh).mpr hlt
      rw [if_neg (by omega)]
    · rw [if_neg hlt]
      by_cases heq : p / sh = cs.length
      · rw [if_pos heq]
        rw [heq] at hp
        congr 1
        omega
      · rw [if_neg heq]
        have hge : cs.length + 1 ≤ p / sh := by
          have : cs.length ≤ p / sh := by
            rw [Nat.le_div_iff_mul_le hsh, Nat.mul_comm]; omega
          omega
        rw [prs_digR_oob dig cs _ (by omega), Nat.zero_testBit]
        have h3 : sh * (cs.length + 1) ≤ sh * (p / sh) := Nat.mul_le_mul_left sh hge
        rw [Nat.mul_add, Nat.mul_one] at h3
        apply Nat.testBit_lt_two_pow
        exact Nat.lt_of_lt_of_le (prs_getD_lt hd c) (Nat.pow_le_pow_right (by omega) (by omega))

-- ---- implementation side ---------------------------------------------------------------------------
/-- the array computed by `parseLoop` when every character is a digit -/
def prs_arr (sh : Nat) (dig : Char → Option Nat) (j : Nat → Nat) :
    List Char → Nat → Array (BitVec w) → Array (BitVec w)
  | [], _, a => a
  | c :: cs, i, a => prs_arr sh dig j cs (i + 1)
      (a.setIfInBounds (j i) ((wd a (j i) <<< sh) ||| BitVec.ofNat w ((dig c).getD 0)))

theorem prs_parseLoop_bad (sh : Nat) (dig : Char → Option Nat) (j : Nat → Nat) (cs : List Char) (i k : Nat)
    (a : Array (BitVec w)) (h : firstBad dig cs i = some k) :
    Bvf.parseLoop sh dig j cs i a = .error k := by
  induction cs generalizing i a with
  | nil => simp [firstBad] at h
  | cons c cs ih =>
    unfold firstBad at h
    unfold Bvf.parseLoop
    cases hc : dig c with
    | none =>
      rw [hc] at h
      simp only [Option.isNone_none, if_true, Option.some.injEq] at h
      simp only [h]
    | some d =>
      rw [hc] at h
      simp only [Option.isNone_some, Bool.false_eq_true, if_false] at h
      simp only
      exact ih _ _ h

theorem prs_parseLoop_ok (sh : Nat) (dig : Char → Option Nat) (j : Nat → Nat) (cs : List Char) (i : Nat)
    (a : Array (BitVec w)) (h : firstBad dig cs i = none) :
    Bvf.parseLoop sh dig j cs i a = .ok (prs_arr sh dig j cs i a) := by
  induction cs generalizing i a with
  | nil => rfl
  | cons c cs ih =>
    unfold firstBad at h
    unfold Bvf.parseLoop prs_arr
    cases hc : dig c with
    | none =>
      rw [hc] at h
      simp at h
    | some d =>
      rw [hc] at h
      simp only [Option.isNone_some, Bool.false_eq_true, if_false] at h
      simp only [Option.getD_some]
      exact ih _ _ h

theorem prs_size_arr (sh : Nat) (dig : Char → Option Nat) (j : Nat → Nat) (cs : List Char) (i : Nat)
    (a : Array (BitVec w)) : (prs_arr sh dig j cs i a).size = a.size := by
  induction cs generalizing i a with
  | nil => rfl
  | cons c cs ih =>
    unfold prs_arr
    rw [ih, Array.size_setIfInBounds]

/-- what happens to word `m` alone, when the character at distance `p` from the end goes to word `p / dpw` -/
def prs_wf (m dpw sh : Nat) (dig : Char → Option Nat) : List Char → BitVec w → BitVec w
  | [], x => x
  | c :: cs, x => prs_wf m dpw sh dig cs
      (if cs.length / dpw = m then (x <<< sh) ||| BitVec.ofNat w ((dig c).getD 0) else x)

theorem prs_wd_setIfInBounds (ws : Array (BitVec w)) (j i : Nat) (x : BitVec w) :
    wd (ws.setIfInBounds j x) i = if j = i ∧ j < ws.size then x else wd ws i := by
  unfold wd
  simp only [Array.getD_eq_getD_getElem?, Array.getElem?_setIfInBounds]
  by_cases h1 : j = i
  · subst h1
    by_cases h2 : j < ws.size
    · simp [h2]
    · simp [h2]
  · simp [h1]

theorem prs_wd_arr (m dpw sh : Nat) (dig : Char → Option Nat) (j : Nat → Nat) (cs : List Char) (i : Nat)
    (a : Array (BitVec w)) (hj : ∀ t, t < cs.length → j (i + t) = (cs.length - 1 - t) / dpw)
    (hm : m < a.size) :
    wd (prs_arr sh dig j cs i a) m = prs_wf m dpw sh dig cs (wd a m) := by
  induction cs generalizing i a with
  | nil => rfl
  | cons c cs ih =>
    unfold prs_arr prs_wf
    have h0 := hj 0 (by simp)
    simp only [List.length_cons, Nat.add_zero, Nat.add_sub_cancel, Nat.sub_zero] at h0
    rw [ih (i + 1)]
    · rw [prs_wd_setIfInBounds, h0]
      by_cases hc : cs.length / dpw = m
      · rw [if_pos hc, if_pos ⟨hc, by omega⟩, hc]
      · rw [if_neg hc, if_neg (fun h => hc h.1)]
    · intro t ht
      have := hj (t + 1) (by simp; omega)
      simp only [List.length_cons] at this
      rw [show i + 1 + t = i + (t + 1) by omega, this]
      congr 1
      omega
    · rw [Array.size_setIfInBounds]; exact hm

theorem prs_div_eq_iff {dpw : Nat} (hdpw : 0 < dpw) (r m : Nat) :
    r / dpw = m ↔ m * dpw ≤ r ∧ r < m * dpw + dpw := by
  rw [Nat.div_eq_iff hdpw]; omega

theorem prs_div_lt {sh q c : Nat} (hsh : 0 < sh) (h : q < c * sh) : q / sh < c :=
  (Nat.div_lt_iff_lt_mul hsh).mpr h

theorem prs_le_div {sh q c : Nat} (hsh : 0 < sh) (h : c * sh ≤ q) : c ≤ q / sh :=
  (Nat.le_div_iff_mul_le hsh).mpr h

/-- bits of one word after the loop: the low `cnt * sh` bits are the digits that belong to word `m`,
above them the old contents shifted up -/
theorem prs_getLsbD_wf {sh dpw : Nat} (hsh : 0 < sh) (hdpw : 0 < dpw) {dig : Char → Option Nat}
    (hd : ∀ c d, dig c = some d → d < 2 ^ sh) (m : Nat) (cs : List Char) (x : BitVec w) (q : Nat)
    (hq : q < w) :
    (prs_wf m dpw sh dig cs x).getLsbD q =
      if q < (min cs.length (m * dpw + dpw) - m * dpw) * sh
      then (prs_digR dig cs (m * dpw + q / sh)).testBit (q % sh)
      else x.getLsbD (q - (min cs.length (m * dpw + dpw) - m * dpw) * sh) := by
  induction cs generalizing x with
  | nil => simp [prs_wf]
  | cons c cs ih =>
    unfold prs_wf
    rw [ih]
    generalize hB : m * dpw = B
    simp only [List.length_cons]
    have hdiv := prs_div_eq_iff hdpw cs.length m
    rw [hB] at hdiv
    by_cases hA : cs.length / dpw = m
    · -- the head character goes to word `m`
      have hr := hdiv.mp hA
      rw [if_pos hA]
      have e1 : min cs.length (B + dpw) - B = cs.length - B := by omega
      have e2 : min (cs.length + 1) (B + dpw) - B = (cs.length - B) + 1 := by omega
      rw [e1, e2, Nat.succ_mul]
      generalize hcnt : cs.length - B = cnt
      by_cases h1 : q < cnt * sh
      · have c2 : q < cnt * sh + sh := by omega
        rw [if_pos h1, if_pos c2]
        have := prs_div_lt hsh h1
        rw [prs_digR_cons, if_neg (by omega)]
      · rw [if_neg h1]
        rw [BitVec.getLsbD_or, BitVec.getLsbD_shiftLeft, BitVec.getLsbD_ofNat]
        by_cases h2 : q < cnt * sh + sh
        · rw [if_pos h2]
          have hk := prs_div_mod_of_range (sh := sh) (p := q) (k := cnt)
            (by rw [Nat.mul_comm]; omega) (by rw [Nat.mul_comm]; omega)
          rw [prs_digR_cons, hk.1, if_pos (by omega), hk.2, Nat.mul_comm sh cnt]
          have c3 : q - cnt * sh < sh := by omega
          have c4 : q - cnt * sh < w := by omega
          simp [c3, c4]
        · rw [if_neg h2]
          have c3 : ¬ (q - cnt * sh < sh) := by omega
          have c4 : q - cnt * sh < w := by omega
          have c5 : ((dig c).getD 0).testBit (q - cnt * sh) = false := by
            apply Nat.testBit_lt_two_pow
            exact Nat.lt_of_lt_of_le (prs_getD_lt hd c) (Nat.pow_le_pow_right (by omega) (by omega))
          rw [c5]
          simp only [c3, c4, decide_true, decide_false, Bool.not_false, Bool.true_and, Bool.and_false,
            Bool.or_false]
          congr 1
          omega
    · rw [if_neg hA]
      by_cases hlt : cs.length < B
      · have e1 : min cs.length (B + dpw) - B = 0 := by omega
        have e2 : min (cs.length + 1) (B + dpw) - B = 0 := by omega
        rw [e1, e2]
        simp
      · have hge : B + dpw ≤ cs.length := by
          rcases Nat.lt_or_ge cs.length (B + dpw) with h | h
          · exact absurd (hdiv.mpr ⟨by omega, h⟩) hA
          · exact h
        have e1 : min cs.length (B + dpw) - B = dpw := by omega
        have e2 : min (cs.length + 1) (B + dpw) - B = dpw := by omega
        rw [e1, e2]
        by_cases h1 : q < dpw * sh
        · rw [if_pos h1, if_pos h1]
          have := prs_div_lt hsh h1
          rw [prs_digR_cons, if_neg (by omega)]
        · rw [if_neg h1, if_neg h1]

/-- bit `p` of the final array is bit `p % sh` of the digit number `p / sh` from the end -/
theorem prs_bitAt_arr {sh dpw : Nat} (hsh : 0 < sh) (hdpw : 0 < dpw) (hw : w = dpw * sh)
    {dig : Char → Option Nat} (hd : ∀ c d, dig c = some d → d < 2 ^ sh) (j : Nat → Nat) (cs : List Char)
    (N : Nat) (hj : ∀ t, t < cs.length → j t = (cs.length - 1 - t) / dpw) (hN : cs.length ≤ N * dpw)
    (p : Nat) :
    bitAt (prs_arr sh dig j cs 0 (Array.replicate N 0#w)) p
      = (prs_digR dig cs (p / sh)).testBit (p % sh) := by
  subst hw
  have hwpos : 0 < dpw * sh := Nat.mul_pos hdpw hsh
  have hidx := idx_eq (w := dpw * sh) p
  have hq := Nat.mod_lt p hwpos
  by_cases hm : p / (dpw * sh) < N
  · unfold bitAt
    rw [prs_wd_arr (p / (dpw * sh)) dpw sh dig j cs 0 _ (by simpa using hj) (by simpa using hm)]
    rw [prs_getLsbD_wf hsh hdpw hd _ _ _ _ hq]
    have hz : wd (Array.replicate N 0#(dpw * sh)) (p / (dpw * sh)) = 0#(dpw * sh) := by
      unfold wd; simp [Array.getD_eq_getD_getElem?, hm]
    rw [hz, BitVec.getLsbD_zero]
    generalize p / (dpw * sh) = M at *
    generalize p % (dpw * sh) = q at *
    have e : dpw * sh * M = sh * (M * dpw) := by
      rw [Nat.mul_comm dpw sh, Nat.mul_assoc, Nat.mul_comm dpw M]
    rw [e] at hidx
    have hdv : p / sh = M * dpw + q / sh := by rw [hidx, Nat.mul_add_div hsh]
    have hmd : p % sh = q % sh := by rw [hidx, Nat.mul_add_mod]
    rw [hdv, hmd]
    by_cases h1 : q < (min cs.length (M * dpw + dpw) - M * dpw) * sh
    · rw [if_pos h1]
    · rw [if_neg h1]
      have h2 : min cs.length (M * dpw + dpw) - M * dpw ≤ q / sh := prs_le_div hsh (by omega)
      have h3 : q / sh < dpw := prs_div_lt hsh hq
      rw [prs_digR_oob dig cs _ (by omega), Nat.zero_testBit]
  · have hNle : N * (dpw * sh) ≤ p := (Nat.le_div_iff_mul_le hwpos).mp (by omega)
    rw [bitAt_oob _ _ (by rw [prs_size_arr, Array.size_replicate]; exact hNle) hwpos]
    have h1 : cs.length * sh ≤ N * dpw * sh := Nat.mul_le_mul_right sh hN
    rw [Nat.mul_assoc] at h1
    have h2 : cs.length ≤ p / sh := prs_le_div hsh (by omega)
    rw [prs_digR_oob dig cs _ h2, Nat.zero_testBit]

/-- generic result: the raw vector built from the final array refines `(len * sh, digitsVal)` -/
theorem prs_refines {sh dpw : Nat} (hsh : 0 < sh) (hdpw : 0 < dpw) (hw : w = dpw * sh)
    {dig : Char → Option Nat} (hd : ∀ c d, dig c = some d → d < 2 ^ sh) (j : Nat → Nat) (cs : List Char)
    (N : Nat) (hj : ∀ t, t < cs.length → j t = (cs.length - 1 - t) / dpw) (hN : cs.length ≤ N * dpw) :
    (⟨prs_arr sh dig j cs 0 (Array.replicate N 0#w), cs.length * sh⟩ : Raw w).Inv ∧
    (⟨prs_arr sh dig j cs 0 (Array.replicate N 0#w), cs.length * sh⟩ : Raw w).abs
      = ⟨cs.length * sh, digitsVal (2 ^ sh) dig cs⟩ ∧
    (prs_arr sh dig j cs 0 (Array.replicate N 0#w)).size = N := by
  have hwpos : 0 < w := by rw [hw]; exact Nat.mul_pos hdpw hsh
  have hbits := prs_bitAt_arr hsh hdpw hw hd j cs N hj hN
  have hsize : (prs_arr sh dig j cs 0 (Array.replicate N 0#w)).size = N := by
    rw [prs_size_arr, Array.size_replicate]
  refine ⟨⟨?_, ?_⟩, ?_, hsize⟩
  · show cs.length * sh ≤ (prs_arr sh dig j cs 0 (Array.replicate N 0#w)).size * w
    rw [hsize, hw, ← Nat.mul_assoc]
    exact Nat.mul_le_mul_right sh hN
  · intro i hi
    show bitAt (prs_arr sh dig j cs 0 (Array.replicate N 0#w)) i = false
    rw [hbits, prs_digR_oob dig cs _ (prs_le_div hsh hi), Nat.zero_testBit]
  · refine BV.ext_bits (by rfl) ?_
    intro i
    rw [Raw.abs_bit _ _ hwpos]
    show bitAt (prs_arr sh dig j cs 0 (Array.replicate N 0#w)) i = (digitsVal (2 ^ sh) dig cs).testBit i
    rw [hbits, prs_testBit_digitsVal hsh hd]

-- ---- the digit functions ---------------------------------------------------------------------------
theorem prs_binVal_lt (c : Char) (d : Nat) (h : Bvf.binVal c = some d) : d < 2 ^ 1 := by
  unfold Bvf.binVal at h
  split at h
  · simp at h; omega
  · split at h
    · simp at h; omega
    · simp at h

theorem prs_hexVal_lt (c : Char) (d : Nat) (h : Bvf.hexVal c = some d) : d < 2 ^ 4 := by
  unfold Bvf.hexVal at h
  simp only at h
  split at h
  · simp at h; omega
  · split at h
    · simp at h; omega
    · split at h
      · simp at h; omega
      · simp at h

-- ---- 1. `Bvf.fromBinary` ---------------------------------------------------------------------------
theorem Bvf.fromBinary_cap (N : Nat) (cs : List Char) (h : N * w < cs.length) :
    Bvf.fromBinary w N cs = .err "NotEnoughCapacity" := by
  simp only [Bvf.fromBinary]
  rw [if_pos h]

theorem Bvf.fromBinary_bad (N : Nat) (cs : List Char) (i : Nat) (h : cs.length ≤ N * w)
    (hb : firstBad Bvf.binVal cs 0 = some i) :
    Bvf.fromBinary w N cs = .err s!"InvalidFormat({i})" := by
  simp only [Bvf.fromBinary]
  rw [if_neg (by omega), prs_parseLoop_bad _ _ _ _ _ _ _ hb]

theorem Bvf.fromBinary_ok (hw : 0 < w) (N : Nat) (cs : List Char) (h : cs.length ≤ N * w)
    (hb : firstBad Bvf.binVal cs 0 = none) :
    ∃ r, Bvf.fromBinary w N cs = .ok r ∧ r.Inv ∧ r.abs = ⟨cs.length, digitsVal 2 Bvf.binVal cs⟩ ∧
      r.data.size = N := by
  simp only [Bvf.fromBinary]
  rw [if_neg (by omega), prs_parseLoop_ok _ _ _ _ _ _ hb]
  refine ⟨_, rfl, ?_⟩
  have := prs_refines (w := w) (sh := 1) (dpw := w) (by omega) hw (by omega) prs_binVal_lt
    (fun i => (cs.length - 1 - i) / w) cs N (fun t _ => rfl) h
  simpa using this

theorem Bvf.fromBinary_spec (hw : 0 < w) (N : Nat) (cs : List Char) :
    (N * w < cs.length → Bvf.fromBinary w N cs = .err "NotEnoughCapacity") ∧
    (∀ i, cs.length ≤ N * w → firstBad Bvf.binVal cs 0 = some i →
      Bvf.fromBinary w N cs = .err s!"InvalidFormat({i})") ∧
    (cs.length ≤ N * w → firstBad Bvf.binVal cs 0 = none →
      ∃ r, Bvf.fromBinary w N cs = .ok r ∧ r.Inv ∧ r.abs = ⟨cs.length, digitsVal 2 Bvf.binVal cs⟩ ∧
        r.data.size = N) :=
  ⟨Bvf.fromBinary_cap N cs, fun i => Bvf.fromBinary_bad N cs i, Bvf.fromBinary_ok hw N cs⟩

-- ---- 3. `Bvd.fromBinary`, `Bvd.fromHex` ------------------------------------------------------------
theorem Bvd.fromBinary_bad (cs : List Char) (i : Nat) (hb : firstBad Bvf.binVal cs 0 = some i) :
    Bvd.fromBinary cs = .err s!"InvalidFormat({i})" := by
  simp only [Bvd.fromBinary]
  rw [prs_parseLoop_bad _ _ _ _ _ _ _ hb]

theorem Bvd.fromBinary_ok (cs : List Char) (hb : firstBad Bvf.binVal cs 0 = none) :
    ∃ r, Bvd.fromBinary cs = .ok r ∧ r.Inv ∧ r.abs = ⟨cs.length, digitsVal 2 Bvf.binVal cs⟩ ∧
      r.data.size = Bvd.capW cs.length := by
  simp only [Bvd.fromBinary]
  rw [prs_parseLoop_ok _ _ _ _ _ _ hb]
  refine ⟨_, rfl, ?_⟩
  have := prs_refines (w := 64) (sh := 1) (dpw := 64) (by omega) (by omega) (by omega) prs_binVal_lt
    (fun i => Bvd.capW cs.length - 1 - (i + (64 - cs.length % 64) % 64) / 64) cs (Bvd.capW cs.length)
    (fun t ht => by simp only [Bvd.capW, capFromBitLen]; omega)
    (by simp only [Bvd.capW, capFromBitLen]; omega)
  simpa using this

theorem Bvd.fromBinary_spec (cs : List Char) :
    (∀ i, firstBad Bvf.binVal cs 0 = some i → Bvd.fromBinary cs = .err s!"InvalidFormat({i})") ∧
    (firstBad Bvf.binVal cs 0 = none →
      ∃ r, Bvd.fromBinary cs = .ok r ∧ r.Inv ∧ r.abs = ⟨cs.length, digitsVal 2 Bvf.binVal cs⟩ ∧
        r.data.size = Bvd.capW cs.length) :=
  ⟨fun i => Bvd.fromBinary_bad cs i, Bvd.fromBinary_ok cs⟩

theorem Bvd.fromHex_bad (cs : List Char) (i : Nat) (hb : firstBad Bvf.hexVal cs 0 = some i) :
    Bvd.fromHex cs = .err s!"InvalidFormat({i})" := by
  simp only [Bvd.fromHex]
  rw [prs_parseLoop_bad _ _ _ _ _ _ _ hb]

theorem Bvd.fromHex_ok (cs : List Char) (hb : firstBad Bvf.hexVal cs 0 = none) :
    ∃ r, Bvd.fromHex cs = .ok r ∧ r.Inv ∧ r.abs = ⟨cs.length * 4, digitsVal 16 Bvf.hexVal cs⟩ ∧
      r.data.size = Bvd.capW (cs.length * 4) := by
  simp only [Bvd.fromHex]
  rw [prs_parseLoop_ok _ _ _ _ _ _ hb]
  refine ⟨_, rfl, ?_⟩
  have e : Bvd.capW (cs.length * 4) = ((cs.length + 1) / 2 + 7) / 8 := by
    simp only [Bvd.capW, capFromBitLen]; omega
  rw [e]
  have := prs_refines (w := 64) (sh := 4) (dpw := 16) (by omega) (by omega) (by omega) prs_hexVal_lt
    (fun i => ((cs.length + 1) / 2 + 7) / 8 - 1 - (i + (16 - cs.length % 16) % 16) / 16) cs
    (((cs.length + 1) / 2 + 7) / 8)
    (fun t ht => by omega) (by omega)
  simpa using this

theorem Bvd.fromHex_spec (cs : List Char) :
    (∀ i, firstBad Bvf.hexVal cs 0 = some i → Bvd.fromHex cs = .err s!"InvalidFormat({i})") ∧
    (firstBad Bvf.hexVal cs 0 = none →
      ∃ r, Bvd.fromHex cs = .ok r ∧ r.Inv ∧ r.abs = ⟨cs.length * 4, digitsVal 16 Bvf.hexVal cs⟩ ∧
        r.data.size = Bvd.capW (cs.length * 4)) :=
  ⟨fun i => Bvd.fromHex_bad cs i, Bvd.fromHex_ok cs⟩

-- ---- 2. `Bvf.fromHex` ------------------------------------------------------------------------------
theorem Bvf.fromHex_cap (N : Nat) (cs : List Char) (h : N * w < cs.length * 4) :
    Bvf.fromHex w N cs = .err "NotEnoughCapacity" := by
  simp only [Bvf.fromHex]
  rw [if_pos h]

theorem Bvf.fromHex_bad (N : Nat) (cs : List Char) (i : Nat) (h : cs.length * 4 ≤ N * w)
    (hb : firstBad Bvf.hexVal cs 0 = some i) :
    Bvf.fromHex w N cs = .err s!"InvalidFormat({i})" := by
  simp only [Bvf.fromHex]
  rw [if_neg (by omega), prs_parseLoop_bad _ _ _ _ _ _ _ hb]

theorem Bvf.fromHex_ok (hw : 0 < w) (h4 : 4 ∣ w) (N : Nat) (cs : List Char) (h : cs.length * 4 ≤ N * w)
    (hb : firstBad Bvf.hexVal cs 0 = none) :
    ∃ r, Bvf.fromHex w N cs = .ok r ∧ r.Inv ∧ r.abs = ⟨cs.length * 4, digitsVal 16 Bvf.hexVal cs⟩ ∧
      r.data.size = N := by
  simp only [Bvf.fromHex]
  rw [if_neg (by omega), prs_parseLoop_ok _ _ _ _ _ _ hb]
  refine ⟨_, rfl, ?_⟩
  have hw4 : w = w / 4 * 4 := (Nat.div_mul_cancel h4).symm
  have hN : N * w = N * (w / 4) * 4 := by rw [Nat.mul_assoc, ← hw4]
  have := prs_refines (w := w) (sh := 4) (dpw := w / 4) (by omega) (by omega) hw4 prs_hexVal_lt
    (fun i => (cs.length - 1 - i) / (w / 4)) cs N (fun t _ => rfl) (by omega)
  simpa using this

theorem Bvf.fromHex_spec (hw : 0 < w) (h4 : 4 ∣ w) (N : Nat) (cs : List Char) :
    (N * w < cs.length * 4 → Bvf.fromHex w N cs = .err "NotEnoughCapacity") ∧
    (∀ i, cs.length * 4 ≤ N * w → firstBad Bvf.hexVal cs 0 = some i →
      Bvf.fromHex w N cs = .err s!"InvalidFormat({i})") ∧
    (cs.length * 4 ≤ N * w → firstBad Bvf.hexVal cs 0 = none →
      ∃ r, Bvf.fromHex w N cs = .ok r ∧ r.Inv ∧ r.abs = ⟨cs.length * 4, digitsVal 16 Bvf.hexVal cs⟩ ∧
        r.data.size = N) :=
  ⟨Bvf.fromHex_cap N cs, fun i => Bvf.fromHex_bad N cs i, Bvf.fromHex_ok hw h4 N cs⟩

-- ---- `hexVal` accepts exactly `0-9a-fA-F` ----------------------------------------------------------
theorem prs_char_le (a b : Char) : a ≤ b ↔ a.toNat ≤ b.toNat := by
  rw [Char.le_def, UInt32.le_iff_toNat_le]; rfl

theorem prs_hexVal_eq (c : Char) :
    Bvf.hexVal c =
      if '0' ≤ c ∧ c ≤ '9' then some (c.toNat - '0'.toNat)
      else if 'a' ≤ c ∧ c ≤ 'f' then some (c.toNat - 'a'.toNat + 10)
      else if 'A' ≤ c ∧ c ≤ 'F' then some (c.toNat - 'A'.toNat + 10)
      else none := by
  unfold Bvf.hexVal
  simp only [prs_char_le]
  have e0 : '0'.toNat = 48 := rfl
  have e9 : '9'.toNat = 57 := rfl
  have ea : 'a'.toNat = 97 := rfl
  have ef : 'f'.toNat = 102 := rfl
  have eA : 'A'.toNat = 65 := rfl
  have eF : 'F'.toNat = 70 := rfl
  rw [e0, e9, ea, ef, eA, eF]
  split
  · rfl
  · split
    · congr 1; omega
    · split
      · congr 1; omega
      · rfl

-- ---- 4. `Bv.fromBinary`, `Bv.fromHex` --------------------------------------------------------------
theorem prs_foldl_utf8 (cs : List Char) (a : Nat) :
    a + cs.length ≤ cs.foldl (fun n c => n + c.utf8Size) a := by
  induction cs generalizing a with
  | nil => simp
  | cons c cs ih =>
    simp only [List.foldl_cons, List.length_cons]
    have := ih (a + c.utf8Size)
    have := Char.utf8Size_pos c
    omega

/-- every character takes at least one byte -/
theorem prs_length_le_utf8Len (cs : List Char) : cs.length ≤ Bv.utf8Len cs := by
  have := prs_foldl_utf8 cs 0
  unfold Bv.utf8Len
  omega

theorem prs_fmt_ne (i : Nat) : s!"InvalidFormat({i})" ≠ "NotEnoughCapacity" := by
  intro h
  have := congrArg String.toList h
  simp only [String.toList_append] at this
  have e : (toString "InvalidFormat(").toList = 'I' :: "nvalidFormat(".toList := by decide
  rw [e] at this
  simp at this

theorem Bv.fromBinary_bad (cs : List Char) (i : Nat) (hb : firstBad Bvf.binVal cs 0 = some i) :
    Bv.fromBinary cs = .err s!"InvalidFormat({i})" := by
  have hl := prs_length_le_utf8Len cs
  unfold Bv.fromBinary
  split
  · rename_i h
    rw [Bvf.fromBinary_bad 2 cs i (by simp only [Bv.cap128] at h; omega) hb]
    rfl
  · rw [Bvd.fromBinary_bad cs i hb]

theorem Bv.fromBinary_ok (cs : List Char) (hb : firstBad Bvf.binVal cs 0 = none) :
    ∃ r, Bv.fromBinary cs = .ok r ∧ r.invB = true ∧ r.abs = ⟨cs.length, digitsVal 2 Bvf.binVal cs⟩ ∧
      r.isFixed = decide (Bv.utf8Len cs ≤ 128) := by
  have hl := prs_length_le_utf8Len cs
  unfold Bv.fromBinary
  split
  · rename_i h
    simp only [Bv.cap128] at h
    obtain ⟨r, h1, h2, h3, h4⟩ := Bvf.fromBinary_ok (w := 64) (by omega) 2 cs (by omega) hb
    rw [h1]
    refine ⟨.fixed r, rfl, ?_, h3, ?_⟩
    · simp only [Bv.invB, Bool.and_eq_true, beq_iff_eq]
      exact ⟨(Raw.invB_iff r (by omega)).mpr h2, h4⟩
    · simp [Bv.isFixed, h]
  · rename_i h
    simp only [Bv.cap128] at h
    obtain ⟨r, h1, h2, h3, _⟩ := Bvd.fromBinary_ok cs hb
    rw [h1]
    refine ⟨.dynamic r, rfl, ?_, h3, ?_⟩
    · simp only [Bv.invB]
      exact (Raw.invB_iff r (by omega)).mpr h2
    · simp [Bv.isFixed, h]

/-- the choice of representation by UTF-8 byte length never yields `NotEnoughCapacity`; the result is
the same abstract vector as for `Bvf` / `Bvd` -/
theorem Bv.fromBinary_spec (cs : List Char) :
    Bv.fromBinary cs ≠ .err "NotEnoughCapacity" ∧
    (∀ i, firstBad Bvf.binVal cs 0 = some i → Bv.fromBinary cs = .err s!"InvalidFormat({i})") ∧
    (firstBad Bvf.binVal cs 0 = none →
      ∃ r, Bv.fromBinary cs = .ok r ∧ r.invB = true ∧ r.abs = ⟨cs.length, digitsVal 2 Bvf.binVal cs⟩ ∧
        r.isFixed = decide (Bv.utf8Len cs ≤ 128)) := by
  refine ⟨?_, fun i => Bv.fromBinary_bad cs i, Bv.fromBinary_ok cs⟩
  cases hb : firstBad Bvf.binVal cs 0 with
  | none =>
    obtain ⟨r, h1, _⟩ := Bv.fromBinary_ok cs hb
    rw [h1]; intro h; cases h
  | some i =>
    rw [Bv.fromBinary_bad cs i hb]
    intro h
    exact prs_fmt_ne i (Res.err.inj h)

theorem Bv.fromHex_bad (cs : List Char) (i : Nat) (hb : firstBad Bvf.hexVal cs 0 = some i) :
    Bv.fromHex cs = .err s!"InvalidFormat({i})" := by
  have hl := prs_length_le_utf8Len cs
  unfold Bv.fromHex
  split
  · rename_i h
    rw [Bvf.fromHex_bad 2 cs i (by simp only [Bv.cap128] at h; omega) hb]
    rfl
  · rw [Bvd.fromHex_bad cs i hb]

theorem Bv.fromHex_ok (cs : List Char) (hb : firstBad Bvf.hexVal cs 0 = none) :
    ∃ r, Bv.fromHex cs = .ok r ∧ r.invB = true ∧ r.abs = ⟨cs.length * 4, digitsVal 16 Bvf.hexVal cs⟩ ∧
      r.isFixed = decide (Bv.utf8Len cs * 4 ≤ 128) := by
  have hl := prs_length_le_utf8Len cs
  unfold Bv.fromHex
  split
  · rename_i h
    simp only [Bv.cap128] at h
    obtain ⟨r, h1, h2, h3, h4⟩ := Bvf.fromHex_ok (w := 64) (by omega) (by omega) 2 cs (by omega) hb
    rw [h1]
    refine ⟨.fixed r, rfl, ?_, h3, ?_⟩
    · simp only [Bv.invB, Bool.and_eq_true, beq_iff_eq]
      exact ⟨(Raw.invB_iff r (by omega)).mpr h2, h4⟩
    · simp [Bv.isFixed, h]
  · rename_i h
    simp only [Bv.cap128] at h
    obtain ⟨r, h1, h2, h3, _⟩ := Bvd.fromHex_ok cs hb
    rw [h1]
    refine ⟨.dynamic r, rfl, ?_, h3, ?_⟩
    · simp only [Bv.invB]
      exact (Raw.invB_iff r (by omega)).mpr h2
    · simp [Bv.isFixed, h]

theorem Bv.fromHex_spec (cs : List Char) :
    Bv.fromHex cs ≠ .err "NotEnoughCapacity" ∧
    (∀ i, firstBad Bvf.hexVal cs 0 = some i → Bv.fromHex cs = .err s!"InvalidFormat({i})") ∧
    (firstBad Bvf.hexVal cs 0 = none →
      ∃ r, Bv.fromHex cs = .ok r ∧ r.invB = true ∧ r.abs = ⟨cs.length * 4, digitsVal 16 Bvf.hexVal cs⟩ ∧
        r.isFixed = decide (Bv.utf8Len cs * 4 ≤ 128)) := by
  refine ⟨?_, fun i => Bv.fromHex_bad cs i, Bv.fromHex_ok cs⟩
  cases hb : firstBad Bvf.hexVal cs 0 with
  | none =>
    obtain ⟨r, h1, _⟩ := Bv.fromHex_ok cs hb
    rw [h1]; intro h; cases h
  | some i =>
    rw [Bv.fromHex_bad cs i hb]
    intro h
    exact prs_fmt_ne i (Res.err.inj h)

-- ---- reading `firstBad` ----------------------------------------------------------------------------
theorem prs_firstBad_none_iff (dig : Char → Option Nat) (cs : List Char) (i : Nat) :
    firstBad dig cs i = none ↔ ∀ c, c ∈ cs → (dig c).isSome = true := by
  induction cs generalizing i with
  | nil => simp [firstBad]
  | cons c cs ih =>
    unfold firstBad
    cases hc : dig c with
    | none => simp [hc]
    | some d => simp [hc, ih]

theorem prs_firstBad_some (dig : Char → Option Nat) (cs : List Char) (i k : Nat)
    (h : firstBad dig cs i = some k) :
    i ≤ k ∧ k - i < cs.length ∧ (cs[k - i]?.bind dig) = none ∧
      ∀ t, t < k - i → ∃ d, cs[t]?.bind dig = some d := by
  induction cs generalizing i with
  | nil => simp [firstBad] at h
  | cons c cs ih =>
    unfold firstBad at h
    cases hc : dig c with
    | none =>
      rw [hc] at h
      simp only [Option.isNone_none, if_true, Option.some.injEq] at h
      subst h
      simp [hc]
    | some d =>
      rw [hc] at h
      simp only [Option.isNone_some, Bool.false_eq_true, if_false] at h
      obtain ⟨h1, h2, h3, h4⟩ := ih (i + 1) h
      have e : k - i = (k - (i + 1)) + 1 := by omega
      refine ⟨by omega, by simp only [List.length_cons]; omega, ?_, ?_⟩
      · rw [e, List.getElem?_cons_succ]; exact h3
      · intro t ht
        cases t with
        | zero => exact ⟨d, by simp [hc]⟩
        | succ t => rw [List.getElem?_cons_succ]; exact h4 t (by omega)

end Bva
