import BvaProofs.Bits
import BvaModel.Kernels
/-!
# Foundations of the refinement proofs: `Inv`, `abs`, bit extensionality, masks
-/
namespace Bva
variable {w : Nat}

/-- two abstract vectors with the same length and the same bits are equal -/
theorem BV.ext_bits {a b : BV} (hl : a.len = b.len) (hb : ∀ i, a.bit i = b.bit i) : a = b := by
  cases a; cases b
  simp only [BV.bit] at hb
  simp only at hl
  subst hl
  congr 1
  exact Nat.eq_of_testBit_eq hb

theorem and_one_ne_zero (x : BitVec w) (k : Nat) :
    ((x >>> k) &&& 1#w != 0#w) = x.getLsbD k := by
  by_cases hw : w = 0
  · subst hw; simp [BitVec.eq_nil x]
  have h1 : ((x >>> k) &&& 1#w) = if x.getLsbD k then 1#w else 0#w := by
    apply BitVec.eq_of_getLsbD_eq
    intro i hi
    simp only [BitVec.getLsbD_and, BitVec.getLsbD_ushiftRight, BitVec.getLsbD_one]
    by_cases h0 : i = 0
    · subst h0; by_cases hb : x.getLsbD k <;> simp [hb]
    · by_cases hb : x.getLsbD k <;> simp [hb, h0]
  rw [h1]
  by_cases hb : x.getLsbD k
  · simp [hb]; omega
  · simp [hb]

theorem Raw.get_eq_bitAt (s : Raw w) (i : Nat) : s.get i = bitAt s.data i := by
  unfold Raw.get bitAt; exact and_one_ne_zero _ _

theorem bitAt_oob (ws : Array (BitVec w)) (i : Nat) (h : ws.size * w ≤ i) (hw : 0 < w) :
    bitAt ws i = false := by
  unfold bitAt wd
  have : ws.size ≤ i / w := (Nat.le_div_iff_mul_le hw).mpr h
  simp [Array.getD_eq_getD_getElem?, Array.getElem?_eq_none this]

theorem Raw.abs_len (s : Raw w) : s.abs.len = s.length := rfl

theorem Raw.abs_bit (s : Raw w) (i : Nat) (hw : 0 < w) : s.abs.bit i = bitAt s.data i := by
  unfold Raw.abs BV.bit valAll
  simp only
  rw [testBit_valUpTo hw]
  by_cases h : i < w * s.data.size
  · simp [h]
  · simp [h]; rw [bitAt_oob _ _ (by rw [Nat.mul_comm]; omega) hw]

/-- under `Inv` the abstraction is well-formed: `val < 2^len` -/
theorem Raw.Inv.wf {s : Raw w} (h : s.Inv) (hw : 0 < w) : s.abs.WF := by
  unfold BV.WF
  apply Nat.lt_pow_two_of_testBit
  intro i hi
  have := Raw.abs_bit s i hw
  unfold BV.bit at this
  rw [this]
  exact h.2 i hi

/-- the executable invariant check of the driver is the invariant -/
theorem Raw.invB_iff (s : Raw w) (hw : 0 < w) : s.invB = true ↔ s.Inv := by
  unfold Raw.invB Raw.Inv
  simp only [Bool.and_eq_true, decide_eq_true_eq]
  constructor
  · rintro ⟨h1, h2⟩
    refine ⟨h1, fun i hi => ?_⟩
    have := Raw.abs_bit s i hw
    unfold BV.bit Raw.abs at this
    simp only at this
    rw [← this]
    exact Nat.testBit_lt_two_pow (Nat.lt_of_lt_of_le h2 (Nat.pow_le_pow_right (by omega) hi))
  · rintro ⟨h1, h2⟩
    exact ⟨h1, (Raw.Inv.wf ⟨h1, h2⟩ hw)⟩

/-- two raw vectors with equal length and equal storage bits have the same abstraction -/
theorem Raw.abs_eq_of_bits {w1 w2 : Nat} (s : Raw w1) (t : Raw w2) (h1 : 0 < w1) (h2 : 0 < w2)
    (hl : s.length = t.length) (hb : ∀ i, bitAt s.data i = bitAt t.data i) : s.abs = t.abs := by
  apply BV.ext_bits hl
  intro i
  rw [Raw.abs_bit _ _ h1, Raw.abs_bit _ _ h2, hb]

-- ---- index arithmetic ---------------------------------------------------------------------------
theorem idx_eq (i : Nat) : i = w * (i / w) + i % w := (Nat.div_add_mod i w).symm

theorem div_mod_unique (hw : 0 < w) (q r : Nat) (hr : r < w) : (w * q + r) / w = q ∧ (w * q + r) % w = r := by
  constructor
  · rw [Nat.mul_add_div hw, Nat.div_eq_of_lt hr, Nat.add_zero]
  · rw [Nat.mul_add_mod, Nat.mod_eq_of_lt hr]

theorem lt_iff_div_mod (hw : 0 < w) (i n : Nat) :
    i < n ↔ (i / w < n / w ∨ (i / w = n / w ∧ i % w < n % w)) := by
  have hi := idx_eq (w := w) i
  have hn := idx_eq (w := w) n
  have mi := Nat.mod_lt i hw
  have mn := Nat.mod_lt n hw
  constructor
  · intro h
    by_cases hlt : i / w < n / w
    · exact Or.inl hlt
    · right
      have hge : n / w ≤ i / w := by omega
      have hle : i / w ≤ n / w := Nat.div_le_div_right (Nat.le_of_lt h)
      have heq : i / w = n / w := by omega
      refine ⟨heq, ?_⟩
      rw [heq] at hi
      omega
  · rintro (h | ⟨h1, h2⟩)
    · have : w * (i / w + 1) ≤ w * (n / w) := Nat.mul_le_mul_left w h
      rw [Nat.mul_add, Nat.mul_one] at this
      omega
    · rw [h1] at hi; omega

-- ---- masks ------------------------------------------------------------------------------------------
theorem size_mod2n (ws : Array (BitVec w)) (n : Nat) : (mod2n ws n).size = ws.size := by
  simp [mod2n]

theorem bitAt_mod2n (ws : Array (BitVec w)) (n i : Nat) (hw : 0 < w) :
    bitAt (mod2n ws n) i = (bitAt ws i && decide (i < n)) := by
  unfold bitAt wd mod2n
  by_cases hin : i / w < ws.size
  · simp only [Array.getD_eq_getD_getElem?, Array.getElem?_mapIdx, Array.getElem?_eq_getElem hin,
      Option.map_some, Option.getD_some, BitVec.getLsbD_and, getLsbD_mask]
    have mi := Nat.mod_lt i hw
    have hi := idx_eq (w := w) i
    have hmul : i / w * w = w * (i / w) := Nat.mul_comm _ _
    congr 1
    by_cases hlt : i < n
    · have : i % w < min (n - min n (i / w * w)) w := by omega
      simp [hlt, this, mi]
    · have : ¬ (i % w < min (n - min n (i / w * w)) w) := by omega
      simp [hlt, this]
  · have : ws.size ≤ i / w := by omega
    simp [Array.getD_eq_getD_getElem?, Array.getElem?_mapIdx, Array.getElem?_eq_none this]

theorem size_maskAt (ws : Array (BitVec w)) (n : Nat) : (maskAt ws n).size = ws.size := by
  simp [maskAt]

/-- the last-word mask idiom, when everything from the next word on is already zero -/
theorem bitAt_maskAt (ws : Array (BitVec w)) (n i : Nat) (hw : 0 < w)
    (hz : ∀ j, (n / w + 1) * w ≤ j → bitAt ws j = false) :
    bitAt (maskAt ws n) i = (bitAt ws i && decide (i < n)) := by
  have mi := Nat.mod_lt i hw
  have key := lt_iff_div_mod hw i n
  by_cases hj : i / w = n / w
  · unfold bitAt wd maskAt
    by_cases hin : n / w < ws.size
    · simp only [Array.getD_eq_getD_getElem?, hj, Array.getElem?_modify, Array.getElem?_eq_getElem hin,
        if_true, Option.map_some, Option.getD_some, BitVec.getLsbD_and, getLsbD_mask]
      have : (i < n) ↔ (i % w < n % w) := by rw [key]; omega
      simp [this, mi]
    · have : ws.size ≤ n / w := by omega
      simp [Array.getD_eq_getD_getElem?, hj, Array.getElem?_modify, Array.getElem?_eq_none this]
  · have hsame : bitAt (maskAt ws n) i = bitAt ws i := by
      unfold bitAt wd maskAt
      simp only [Array.getD_eq_getD_getElem?, Array.getElem?_modify]
      have : ¬ (n / w = i / w) := fun h => hj h.symm
      simp [this]
    rw [hsame]
    by_cases hlt : i / w < n / w
    · have : i < n := key.mpr (Or.inl hlt)
      simp [this]
    · have hgt : n / w + 1 ≤ i / w := by omega
      have : (n / w + 1) * w ≤ i := by
        have := Nat.mul_le_mul_right w hgt
        have hi := idx_eq (w := w) i
        have hc : i / w * w = w * (i / w) := Nat.mul_comm _ _
        omega
      rw [hz i this]; simp

end Bva
