import BvaProofs.Base
import BvaModel.Dynamic
/-!
# T2 — bitwise operators: `&= |= ^=` and `!` for `Bvf` and `Bvd`
-/
namespace Bva
variable {w : Nat}

-- ---- the operators on single bits / on abstract vectors ----------------------------------------------
/-- the Boolean connective computed by a `BitOp` -/
def BitOp.apb : BitOp → Bool → Bool → Bool
  | .and, a, b => a && b
  | .or, a, b => a || b
  | .xor, a, b => a ^^ b

/-- the L0 operation specified for a `BitOp` -/
def BitOp.spec : BitOp → BV → BV → BV
  | .and, a, x => a.and x
  | .or, a, x => a.or x
  | .xor, a, x => a.xor x

theorem BitOp.spec_eq_match (op : BitOp) (a x : BV) :
    op.spec a x = (match op with | .and => a.and x | .or => a.or x | .xor => a.xor x) := by
  cases op <;> rfl

theorem BitOp.getLsbD_ap (op : BitOp) (a b : BitVec w) (j : Nat) :
    (op.ap a b).getLsbD j = op.apb (a.getLsbD j) (b.getLsbD j) := by
  cases op <;> simp [BitOp.ap, BitOp.apb]

theorem BitOp.spec_len (op : BitOp) (a x : BV) : (op.spec a x).len = a.len := by
  cases op <;> rfl

/-- bits of the specified result, for a left operand without bits beyond its length -/
theorem BitOp.spec_bit (op : BitOp) (a x : BV) (i : Nat) (ha : ∀ j, a.len ≤ j → a.bit j = false) :
    (op.spec a x).bit i = (decide (i < a.len) && op.apb (a.bit i) (x.bit i)) := by
  by_cases h : i < a.len
  · cases op <;>
      simp [BitOp.spec, BitOp.apb, BV.bit, BV.and, BV.or, BV.xor, Nat.testBit_and, Nat.testBit_or,
        Nat.testBit_xor, Nat.testBit_mod_two_pow, h]
  · have h0 := ha i (by omega)
    simp only [BV.bit] at h0
    cases op <;>
      simp [BitOp.spec, BitOp.apb, BV.bit, BV.and, BV.or, BV.xor, Nat.testBit_and, Nat.testBit_or,
        Nat.testBit_xor, Nat.testBit_mod_two_pow, h, h0]

-- ---- word-array helpers --------------------------------------------------------------------------------
theorem bitAt_mapIdx (ws : Array (BitVec w)) (f : Nat → BitVec w → BitVec w) (i : Nat) :
    bitAt (ws.mapIdx f) i =
      (decide (i / w < ws.size) && (f (i / w) (wd ws (i / w))).getLsbD (i % w)) := by
  unfold bitAt wd
  by_cases h : i / w < ws.size
  · simp [Array.getD_eq_getD_getElem?, h]
  · simp [Array.getD_eq_getD_getElem?, h]

theorem div_lt_size_of_lt_length {s : Raw w} (h : s.Inv) (hw : 0 < w) {i : Nat} (hi : i < s.length) :
    i / w < s.data.size :=
  div_lt_of_lt_mul i s.data.size hw (Nat.lt_of_lt_of_le hi h.1)

theorem div_mul_add_mod (i : Nat) : i / w * w + i % w = i := by
  rw [Nat.mul_comm]; exact Nat.div_add_mod i w

/-- a result with the same length whose storage bits are those of the specification refines it -/
theorem refines_of_bits {w2 : Nat} (t : Raw w2) (spec : BV) (hw2 : 0 < w2)
    (hl : t.length = spec.len) (hcap : t.length ≤ t.data.size * w2)
    (hs : ∀ i, spec.len ≤ i → spec.bit i = false)
    (hb : ∀ i, bitAt t.data i = spec.bit i) : t.Inv ∧ t.abs = spec := by
  refine ⟨⟨hcap, fun i hi => ?_⟩, ?_⟩
  · rw [hb]; exact hs i (by omega)
  · apply BV.ext_bits hl
    intro i
    rw [Raw.abs_bit _ _ hw2, hb]

-- ---- 1. `Bvf (op)= rhs` --------------------------------------------------------------------------------
theorem Bvf.bitAt_bitopAssign (op : BitOp) (s : Raw w) (x : AnyBv) (hw : 0 < w) (h : s.Inv)
    (hf : ∀ i j, i < s.data.size → j < w →
      (Bvf.rhsWord w s.data.size x i).getLsbD j = x.abs.bit (i * w + j)) (i : Nat) :
    bitAt (Bvf.bitopAssign op s x).data i =
      (decide (i < s.length) && op.apb (bitAt s.data i) (x.abs.bit i)) := by
  unfold Bvf.bitopAssign
  simp only
  rw [bitAt_mod2n _ _ _ hw]
  by_cases hi : i < s.length
  · have hlt := div_lt_size_of_lt_length h hw hi
    rw [bitAt_mapIdx, BitOp.getLsbD_ap, hf _ _ hlt (Nat.mod_lt i hw), div_mul_add_mod]
    simp [hi, hlt, bitAt]
  · simp [hi]

theorem Bvf.bitopAssign_refines (op : BitOp) (s : Raw w) (x : AnyBv) (hw : 0 < w) (h : s.Inv)
    (hf : ∀ i j, i < s.data.size → j < w →
      (Bvf.rhsWord w s.data.size x i).getLsbD j = x.abs.bit (i * w + j)) :
    (Bvf.bitopAssign op s x).Inv ∧
    (Bvf.bitopAssign op s x).abs =
      (match op with | .and => s.abs.and x.abs | .or => s.abs.or x.abs | .xor => s.abs.xor x.abs) ∧
    (Bvf.bitopAssign op s x).data.size = s.data.size := by
  have hsz : (Bvf.bitopAssign op s x).data.size = s.data.size := by
    simp [Bvf.bitopAssign, size_mod2n]
  have hsb : ∀ j, s.abs.len ≤ j → s.abs.bit j = false := fun j hj => by
    rw [Raw.abs_bit _ _ hw]; exact h.2 j hj
  have key := refines_of_bits (Bvf.bitopAssign op s x) (op.spec s.abs x.abs) hw
    (by rw [BitOp.spec_len]; rfl)
    (by rw [hsz]; exact h.1)
    (fun i hi => by
      rw [BitOp.spec_len] at hi
      rw [BitOp.spec_bit _ _ _ _ hsb]
      have : ¬ i < s.abs.len := by omega
      simp [this])
    (fun i => by
      rw [Bvf.bitAt_bitopAssign op s x hw h hf, BitOp.spec_bit _ _ _ _ hsb, Raw.abs_bit _ _ hw]; rfl)
  rw [BitOp.spec_eq_match] at key
  exact ⟨key.1, key.2, hsz⟩

-- ---- word-wise in-place loops ---------------------------------------------------------------------------
theorem wd_setIfInBounds (ws : Array (BitVec w)) (i j : Nat) (v : BitVec w) :
    wd (ws.setIfInBounds i v) j = if i = j ∧ i < ws.size then v else wd ws j := by
  unfold wd
  simp only [Array.getD_eq_getD_getElem?, Array.getElem?_setIfInBounds]
  by_cases h1 : i = j
  · subst h1
    by_cases h2 : i < ws.size
    · simp [h2]
    · simp [h2]
  · simp [h1]

theorem foldl_setWords (g : Nat → BitVec w → BitVec w) (a : Nat) (ws : Array (BitVec w)) (k : Nat) :
    ((List.range' a k).foldl (fun arr i => arr.setIfInBounds i (g i (wd arr i))) ws).size = ws.size ∧
    ∀ j, wd ((List.range' a k).foldl (fun arr i => arr.setIfInBounds i (g i (wd arr i))) ws) j =
      if a ≤ j ∧ j < a + k ∧ j < ws.size then g j (wd ws j) else wd ws j := by
  induction k with
  | zero =>
    refine ⟨by simp, fun j => ?_⟩
    have : ¬ (a ≤ j ∧ j < a + 0 ∧ j < ws.size) := by omega
    rw [if_neg this]; rfl
  | succ k ih =>
    obtain ⟨ih1, ih2⟩ := ih
    rw [List.range'_1_concat, List.foldl_append]
    simp only [List.foldl_cons, List.foldl_nil]
    refine ⟨by rw [Array.size_setIfInBounds, ih1], fun j => ?_⟩
    rw [wd_setIfInBounds, ih1, ih2, ih2]
    by_cases h1 : a + k = j
    · subst h1
      by_cases h2 : a + k < ws.size
      · have e1 : ¬ (a ≤ a + k ∧ a + k < a + k ∧ a + k < ws.size) := by omega
        have e2 : (a ≤ a + k ∧ a + k < a + (k + 1) ∧ a + k < ws.size) := by omega
        rw [if_neg e1, if_pos e2]; simp [h2]
      · have e1 : ¬ (a ≤ a + k ∧ a + k < a + k ∧ a + k < ws.size) := by omega
        have e2 : ¬ (a ≤ a + k ∧ a + k < a + (k + 1) ∧ a + k < ws.size) := by omega
        rw [if_neg e1, if_neg e2]; simp [h2]
    · have e : (a ≤ j ∧ j < a + (k + 1) ∧ j < ws.size) ↔ (a ≤ j ∧ j < a + k ∧ j < ws.size) := by omega
      simp [h1, e]

/-- `for i in a..b { ws[i] = g(i, ws[i]) }` -/
theorem forRange_setWords (g : Nat → BitVec w → BitVec w) (a b : Nat) (ws : Array (BitVec w)) :
    (forRange a b (fun i arr => arr.setIfInBounds i (g i (wd arr i))) ws).size = ws.size ∧
    ∀ j, wd (forRange a b (fun i arr => arr.setIfInBounds i (g i (wd arr i))) ws) j =
      if a ≤ j ∧ j < b ∧ j < ws.size then g j (wd ws j) else wd ws j := by
  unfold forRange
  obtain ⟨h1, h2⟩ := foldl_setWords g a ws (b - a)
  refine ⟨h1, fun j => ?_⟩
  rw [h2]
  have e : (a ≤ j ∧ j < a + (b - a) ∧ j < ws.size) ↔ (a ≤ j ∧ j < b ∧ j < ws.size) := by omega
  simp [e]

-- ---- 2. `Bvd (op)= rhs` --------------------------------------------------------------------------------
/-- the two word loops of `Bvd::bitop_assign` -/
def Bvd.bitopWords (op : BitOp) (data : Array (BitVec 64)) (used nr : Nat) (fetch : Nat → BitVec 64) :
    Array (BitVec 64) :=
  forRange (min nr used) used (fun i a => a.setIfInBounds i (op.ap (wd a i) 0#64))
    (forRange 0 (min used nr) (fun i a => a.setIfInBounds i (op.ap (wd a i) (fetch i))) data)

theorem Bvd.bitopAssign_eq (op : BitOp) (s : Raw 64) (x : AnyBv) :
    Bvd.bitopAssign op s x =
      { s with data := maskAt (Bvd.bitopWords op s.data (Bvd.capW s.length) (Bvd.rhsWords x).1
          (Bvd.rhsWords x).2) s.length } := by
  unfold Bvd.bitopAssign Bvd.bitopWords
  rfl

theorem Bvd.bitopWords_spec (op : BitOp) (data : Array (BitVec 64)) (used nr : Nat)
    (fetch : Nat → BitVec 64) :
    (Bvd.bitopWords op data used nr fetch).size = data.size ∧
    ∀ j, wd (Bvd.bitopWords op data used nr fetch) j =
      if j < used ∧ j < data.size then op.ap (wd data j) (if j < nr then fetch j else 0#64)
      else wd data j := by
  unfold Bvd.bitopWords
  obtain ⟨a1, a2⟩ := forRange_setWords (fun i x => op.ap x (fetch i)) 0 (min used nr) data
  obtain ⟨b1, b2⟩ := forRange_setWords (fun i x => op.ap x 0#64) (min nr used) used
    (forRange 0 (min used nr) (fun i a => a.setIfInBounds i (op.ap (wd a i) (fetch i))) data)
  refine ⟨by rw [b1, a1], fun j => ?_⟩
  rw [b2, a1, a2]
  by_cases h1 : j < used ∧ j < data.size
  · rw [if_pos h1]
    by_cases h2 : j < nr
    · have e1 : ¬ (min nr used ≤ j ∧ j < used ∧ j < data.size) := by omega
      have e2 : (0 ≤ j ∧ j < min used nr ∧ j < data.size) := by omega
      rw [if_neg e1, if_pos e2, if_pos h2]
    · have e1 : (min nr used ≤ j ∧ j < used ∧ j < data.size) := by omega
      have e2 : ¬ (0 ≤ j ∧ j < min used nr ∧ j < data.size) := by omega
      rw [if_pos e1, if_neg e2, if_neg h2]
  · have e1 : ¬ (min nr used ≤ j ∧ j < used ∧ j < data.size) := by omega
    have e2 : ¬ (0 ≤ j ∧ j < min used nr ∧ j < data.size) := by omega
    rw [if_neg h1, if_neg e1, if_neg e2]

theorem bitAt64 (ws : Array (BitVec 64)) (i : Nat) : bitAt ws i = (wd ws (i / 64)).getLsbD (i % 64) := rfl

theorem Bvd.bitAt_bitopAssign (op : BitOp) (s : Raw 64) (x : AnyBv) (h : s.Inv)
    (hf : ∀ i j, j < 64 →
      (if i < (Bvd.rhsWords x).1 then ((Bvd.rhsWords x).2 i).getLsbD j else false) = x.abs.bit (i * 64 + j))
    (i : Nat) :
    bitAt (Bvd.bitopAssign op s x).data i =
      (decide (i < s.length) && op.apb (bitAt s.data i) (x.abs.bit i)) := by
  rw [Bvd.bitopAssign_eq]
  simp only
  obtain ⟨_, hwd⟩ := Bvd.bitopWords_spec op s.data (Bvd.capW s.length) (Bvd.rhsWords x).1 (Bvd.rhsWords x).2
  have hcap := h.1
  rw [bitAt_maskAt _ _ _ (by decide)]
  · by_cases hi : i < s.length
    · have e : i / 64 < Bvd.capW s.length ∧ i / 64 < s.data.size := by
        unfold Bvd.capW capFromBitLen; omega
      rw [bitAt64, hwd, if_pos e, BitOp.getLsbD_ap]
      have := hf (i / 64) (i % 64) (Nat.mod_lt _ (by decide))
      rw [div_mul_add_mod] at this
      rw [← this, ← bitAt64]
      by_cases hn : i / 64 < (Bvd.rhsWords x).1 <;> simp [hn, hi]
    · simp [hi]
  · intro j hj
    have e : ¬ (j / 64 < Bvd.capW s.length ∧ j / 64 < s.data.size) := by
      unfold Bvd.capW capFromBitLen; omega
    rw [bitAt64, hwd, if_neg e, ← bitAt64]
    exact h.2 j (by omega)

theorem Bvd.bitopAssign_refines (op : BitOp) (s : Raw 64) (x : AnyBv) (h : s.Inv)
    (hf : ∀ i j, j < 64 →
      (if i < (Bvd.rhsWords x).1 then ((Bvd.rhsWords x).2 i).getLsbD j else false) = x.abs.bit (i * 64 + j)) :
    (Bvd.bitopAssign op s x).Inv ∧
    (Bvd.bitopAssign op s x).abs =
      (match op with | .and => s.abs.and x.abs | .or => s.abs.or x.abs | .xor => s.abs.xor x.abs) ∧
    (Bvd.bitopAssign op s x).data.size = s.data.size := by
  have hw : 0 < 64 := by decide
  have hsz : (Bvd.bitopAssign op s x).data.size = s.data.size := by
    rw [Bvd.bitopAssign_eq]
    simp only
    rw [size_maskAt, (Bvd.bitopWords_spec _ _ _ _ _).1]
  have hlen : (Bvd.bitopAssign op s x).length = s.length := by
    rw [Bvd.bitopAssign_eq]
  have hsb : ∀ j, s.abs.len ≤ j → s.abs.bit j = false := fun j hj => by
    rw [Raw.abs_bit _ _ hw]; exact h.2 j hj
  have key := refines_of_bits (Bvd.bitopAssign op s x) (op.spec s.abs x.abs) hw
    (by rw [BitOp.spec_len, hlen]; rfl)
    (by rw [hsz, hlen]; exact h.1)
    (fun i hi => by
      rw [BitOp.spec_len] at hi
      rw [BitOp.spec_bit _ _ _ _ hsb]
      have : ¬ i < s.abs.len := by omega
      simp [this])
    (fun i => by
      rw [Bvd.bitAt_bitopAssign op s x h hf, BitOp.spec_bit _ _ _ _ hsb, Raw.abs_bit _ _ hw]; rfl)
  rw [BitOp.spec_eq_match] at key
  exact ⟨key.1, key.2, hsz⟩

-- ---- 3. `!` ---------------------------------------------------------------------------------------------
theorem testBit_two_pow_sub_one_sub (n v i : Nat) (hv : v < 2 ^ n) :
    (2 ^ n - 1 - v).testBit i = (decide (i < n) && !v.testBit i) := by
  have e : 2 ^ n - 1 - v = 2 ^ n - (v + 1) := by omega
  rw [e, Nat.testBit_two_pow_sub_succ hv]

theorem BV.not_bit (a : BV) (ha : a.WF) (i : Nat) :
    a.not.bit i = (decide (i < a.len) && !a.bit i) := by
  unfold BV.not BV.bit
  exact testBit_two_pow_sub_one_sub _ _ _ ha

/-- common end of the three `not` proofs -/
theorem not_refines_of_bits (s t : Raw w) (hw : 0 < w) (h : s.Inv)
    (hl : t.length = s.length) (hcap : t.length ≤ t.data.size * w)
    (hb : ∀ i, bitAt t.data i = (decide (i < s.length) && !bitAt s.data i)) :
    t.Inv ∧ t.abs = s.abs.not := by
  apply refines_of_bits t s.abs.not hw hl hcap
  · intro i hi
    rw [BV.not_bit _ (h.wf hw)]
    have : ¬ i < s.abs.len := fun hh => by have : s.abs.not.len = s.abs.len := rfl; omega
    simp [this]
  · intro i
    rw [hb, BV.not_bit _ (h.wf hw), Raw.abs_bit _ _ hw]; rfl

theorem bitAt_map (ws : Array (BitVec w)) (f : BitVec w → BitVec w) (i : Nat) :
    bitAt (ws.map f) i = (decide (i / w < ws.size) && (f (wd ws (i / w))).getLsbD (i % w)) := by
  unfold bitAt wd
  by_cases h : i / w < ws.size
  · simp [Array.getD_eq_getD_getElem?, h]
  · simp [Array.getD_eq_getD_getElem?, h]

theorem Bvf.not_refines (s : Raw w) (hw : 0 < w) (h : s.Inv) :
    (Bvf.not s).Inv ∧ (Bvf.not s).abs = s.abs.not ∧ (Bvf.not s).data.size = s.data.size := by
  have hsz : (Bvf.not s).data.size = s.data.size := by simp [Bvf.not, size_mod2n]
  have key := not_refines_of_bits s (Bvf.not s) hw h rfl (by rw [hsz]; exact h.1) (fun i => by
    unfold Bvf.not
    simp only
    rw [bitAt_mod2n _ _ _ hw, bitAt_map, BitVec.getLsbD_not]
    by_cases hi : i < s.length
    · have := div_lt_size_of_lt_length h hw hi
      simp [hi, this, bitAt, Nat.mod_lt i hw]
    · simp [hi])
  exact ⟨key.1, key.2, hsz⟩

theorem Bvd.not_refines (s : Raw 64) (h : s.Inv) :
    (Bvd.not s).Inv ∧ (Bvd.not s).abs = s.abs.not ∧ (Bvd.not s).data.size = s.data.size := by
  have hw : 0 < 64 := by decide
  obtain ⟨hs, hwd⟩ := forRange_setWords (fun _ x => ~~~ x) 0 (Bvd.capW s.length) s.data
  have hsz : (Bvd.not s).data.size = s.data.size := by
    unfold Bvd.not
    simp only
    rw [size_maskAt]; exact hs
  have hcap := h.1
  have key := not_refines_of_bits s (Bvd.not s) hw h rfl (by rw [hsz]; exact h.1) (fun i => by
    unfold Bvd.not
    simp only
    rw [bitAt_maskAt _ _ _ hw]
    · by_cases hi : i < s.length
      · have e : 0 ≤ i / 64 ∧ i / 64 < Bvd.capW s.length ∧ i / 64 < s.data.size := by
          unfold Bvd.capW capFromBitLen; omega
        rw [bitAt64, hwd, if_pos e, BitVec.getLsbD_not, ← bitAt64]
        simp [hi, Nat.mod_lt i hw]
      · simp [hi]
    · intro j hj
      have e : ¬ (0 ≤ j / 64 ∧ j / 64 < Bvd.capW s.length ∧ j / 64 < s.data.size) := by
        unfold Bvd.capW capFromBitLen; omega
      rw [bitAt64, hwd, if_neg e, ← bitAt64]
      exact h.2 j (by omega))
  exact ⟨key.1, key.2, hsz⟩

theorem wd_ofFn (n : Nat) (f : Nat → BitVec w) (j : Nat) :
    wd (Array.ofFn (n := n) fun i => f i.val) j = if j < n then f j else 0#w := by
  unfold wd
  by_cases h : j < n
  · simp [Array.getD_eq_getD_getElem?, h]
  · simp [Array.getD_eq_getD_getElem?, h]

/-- `!&Bvd` allocates exactly the used words -/
theorem Bvd.notRef_refines (s : Raw 64) (h : s.Inv) :
    (Bvd.notRef s).Inv ∧ (Bvd.notRef s).abs = s.abs.not ∧
    (Bvd.notRef s).data.size = Bvd.capW s.length := by
  have hw : 0 < 64 := by decide
  have hcap := h.1
  have hsz : (Bvd.notRef s).data.size = Bvd.capW s.length := by
    unfold Bvd.notRef
    simp only
    rw [size_maskAt, Array.size_ofFn]
    unfold Bvd.capW capFromBitLen; omega
  have key := not_refines_of_bits s (Bvd.notRef s) hw h rfl
    (by rw [hsz]; show s.length ≤ _; unfold Bvd.capW capFromBitLen; omega) (fun i => by
    unfold Bvd.notRef
    simp only
    rw [bitAt_maskAt _ _ _ hw]
    · by_cases hi : i < s.length
      · have e : i / 64 < min (Bvd.capW s.length) s.data.size := by
          unfold Bvd.capW capFromBitLen; omega
        rw [bitAt64, wd_ofFn _ (fun k => ~~~ wd s.data k), if_pos e, BitVec.getLsbD_not, ← bitAt64]
        simp [hi, Nat.mod_lt i hw]
      · simp [hi]
    · intro j hj
      have e : ¬ (j / 64 < min (Bvd.capW s.length) s.data.size) := by
        unfold Bvd.capW capFromBitLen; omega
      rw [bitAt64, wd_ofFn _ (fun k => ~~~ wd s.data k), if_neg e]
      simp)
  exact ⟨key.1, key.2, hsz⟩

end Bva
