import BvaProofs.Base
import BvaModel.Dynamic
/-!
# T2 — bitwise operators: `&= |= ^=` and `!` for `Bvf` and `Bvd`
-/
namespace Bva
variable {w : Nat}

-- ---- the operators on single bits / on abstract vectors ----------------------------------------------
/-- the Boolean connective computed by a `BitOp` -/
def BitOp.apb : BitOp → Bool → Bool → Bool
  | .and, a, b => a && b
  | .or, a, b => a || b
  | .xor, a, b => a ^^ b

/-- the L0 operation specified for a `BitOp` -/
def BitOp.spec : BitOp → BV → BV → BV
  | .and, a, x => a.and x
  | .or, a, x => a.or x
  | .xor, a, x => a.xor x

theorem BitOp.spec_eq_match (op : BitOp) (a x : BV) :
    op.spec a x = (match op with | .and => a.and x | .or => a.or x | .xor => a.xor x) := by
  cases op <;> rfl

theorem BitOp.getLsbD_ap (op : BitOp) (a b : BitVec w) (j : Nat) :
    (op.ap a b).getLsbD j = op.apb (a.getLsbD j) (b.getLsbD j) := by
  cases op <;> simp [BitOp.ap, BitOp.apb]

theorem BitOp.spec_len (op : BitOp) (a x : BV) : (op.spec a x).len = a.len := by
  cases op <;> rfl

/-- bits of the specified result, for a left operand without bits beyond its length -/
theorem BitOp.spec_bit (op : BitOp) (a x : BV) (i : Nat) (ha : ∀ j, a.len ≤ j → a.bit j = false) :
    (op.spec a x).bit i = (decide (i < a.len) && op.apb (a.bit i) (x.bit i)) := by
  by_cases h : i < a.len
  · cases op <;>
      simp [BitOp.spec, BitOp.apb, BV.bit, BV.and, BV.or, BV.xor, Nat.testBit_and, Nat.testBit_or,
        Nat.testBit_xor, Nat.testBit_mod_two_pow, h]
  · have h0 := ha i (by omega)
    simp only [BV.bit] at h0
    cases op <;>
      simp [BitOp.spec, BitOp.apb, BV.bit, BV.and, BV.or, BV.xor, Nat.testBit_and, Nat.testBit_or,
        Nat.testBit_xor, Nat.testBit_mod_two_pow, h, h0]

-- ---- word-array helpers --------------------------------------------------------------------------------
theorem bitAt_mapIdx (ws : Array (BitVec w)) (f : Nat → BitVec w → BitVec w) (i : Nat) :
    bitAt (ws.mapIdx f) i =
      (decide (i / w < ws.size) && (f (i / w) (wd ws (i / w))).getLsbD (i % w)) := by
  unfold bitAt wd
  by_cases h : i / w < ws.size
  · simp [Array.getD_eq_getD_getElem?, h]
  · simp [Array.getD_eq_getD_getElem?, h]

theorem div_lt_size_of_lt_length {s : Raw w} (h : s.Inv) (hw : 0 < w) {i : Nat} (hi : i < s.length) :
    i / w < s.data.size :=
  div_lt_of_lt_mul i s.data.size hw (Nat.lt_of_lt_of_le hi h.1)

theorem div_mul_add_mod (i : Nat) : i / w * w + i % w = i := by
  rw [Nat.mul_comm]; exact Nat.div_add_mod i w

/-- a result with the same length whose storage bits are those of the specification refines it -/
theorem refines_of_bits {w2 : Nat} (t : Raw w2) (spec : BV) (hw2 : 0 < w2)
    (hl : t.length = spec.len) (hcap : t.length ≤ t.data.size * w2)
    (hs : ∀ i, spec.len ≤ i → spec.bit i = false)
    (hb : ∀ i, bitAt t.data i = spec.bit i) : t.Inv ∧ t.abs = spec := by
  refine ⟨⟨hcap, fun i hi => ?_⟩, ?_⟩
  · rw [hb]; exact hs i (by omega)
  · apply BV.ext_bits hl
    intro i
    rw [Raw.abs_bit _ _ hw2, hb]

-- ---- 1. `Bvf (op)= rhs` --------------------------------------------------------------------------------
theorem Bvf.bitAt_bitopAssign (op : BitOp) (s : Raw w) (x : AnyBv) (hw : 0 < w) (h : s.Inv)
    (hf : ∀ i j, j < w → (Bvf.rhsWord w s.data.size x i).getLsbD j = x.abs.bit (i * w + j)) (i : Nat) :
    bitAt (Bvf.bitopAssign op s x).data i =
      (decide (i < s.length) && op.apb (bitAt s.data i) (x.abs.bit i)) := by
  unfold Bvf.bitopAssign
  simp only
  rw [bitAt_mod2n _ _ _ hw, bitAt_mapIdx, BitOp.getLsbD_ap, hf _ _ (Nat.mod_lt i hw), div_mul_add_mod]
  by_cases hi : i < s.length
  · have := div_lt_size_of_lt_length h hw hi
    simp [hi, this, bitAt]
  · simp [hi]

theorem Bvf.bitopAssign_refines (op : BitOp) (s : Raw w) (x : AnyBv) (hw : 0 < w) (h : s.Inv)
    (hf : ∀ i j, j < w → (Bvf.rhsWord w s.data.size x i).getLsbD j = x.abs.bit (i * w + j)) :
    (Bvf.bitopAssign op s x).Inv ∧
    (Bvf.bitopAssign op s x).abs =
      (match op with | .and => s.abs.and x.abs | .or => s.abs.or x.abs | .xor => s.abs.xor x.abs) ∧
    (Bvf.bitopAssign op s x).data.size = s.data.size := by
  have hsz : (Bvf.bitopAssign op s x).data.size = s.data.size := by
    simp [Bvf.bitopAssign, size_mod2n]
  have hsb : ∀ j, s.abs.len ≤ j → s.abs.bit j = false := fun j hj => by
    rw [Raw.abs_bit _ _ hw]; exact h.2 j hj
  have key := refines_of_bits (Bvf.bitopAssign op s x) (op.spec s.abs x.abs) hw
    (by rw [BitOp.spec_len]; rfl)
    (by rw [hsz]; exact h.1)
    (fun i hi => by
      rw [BitOp.spec_len] at hi
      rw [BitOp.spec_bit _ _ _ _ hsb]
      have : ¬ i < s.abs.len := by omega
      simp [this])
    (fun i => by
      rw [Bvf.bitAt_bitopAssign op s x hw h hf, BitOp.spec_bit _ _ _ _ hsb, Raw.abs_bit _ _ hw]; rfl)
  rw [BitOp.spec_eq_match] at key
  exact ⟨key.1, key.2, hsz⟩

end Bva
