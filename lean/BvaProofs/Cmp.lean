import BvaProofs.Base
import BvaProofs.ValF
import BvaModel.Dynamic
/-!
# T9 — comparison: `cmpWords` / word-wise equality are numeric comparison of the fetched value
-/
namespace Bva

/-- Σ_{i<n} (f i)·2^(wJ·i) for a word-fetch function -/

theorem valF_lt {wJ : Nat} (f : Nat → BitVec wJ) (n : Nat) : valF f n < 2 ^ (wJ * n) := by
  induction n with
  | zero => simp [valF]
  | succ n ih =>
    simp only [valF]
    have h := (f n).isLt
    have e : 2 ^ (wJ * (n + 1)) = 2 ^ (wJ * n) * 2 ^ wJ := by rw [Nat.mul_succ, Nat.pow_add]
    rw [e]
    calc valF f n + 2 ^ (wJ * n) * (f n).toNat
        < 2 ^ (wJ * n) + 2 ^ (wJ * n) * (f n).toNat := by omega
      _ = 2 ^ (wJ * n) * ((f n).toNat + 1) := by rw [Nat.mul_add, Nat.mul_one, Nat.add_comm]
      _ ≤ 2 ^ (wJ * n) * 2 ^ wJ := Nat.mul_le_mul_left _ (by omega)

/-- positional comparison step: with digits below `P`, the high digit decides unless equal -/
theorem lt_of_digit_lt {P A B x y : Nat} (hA : A < P) (hxy : x < y) : A + P * x < B + P * y := by
  have h1 : P * (x + 1) ≤ P * y := Nat.mul_le_mul_left P hxy
  rw [Nat.mul_add, Nat.mul_one] at h1
  omega

theorem valF_congr {wJ : Nat} (f g : Nat → BitVec wJ) (n : Nat) (h : ∀ i, i < n → f i = g i) :
    valF f n = valF g n := by
  induction n with
  | zero => rfl
  | succ n ih =>
    simp only [valF]
    rw [ih (fun i hi => h i (by omega)), h n (by omega)]

/-- core lemma: the most-significant-first word comparison is numeric comparison -/
theorem cmpWords_eq {wJ : Nat} (a b : Nat → BitVec wJ) (n : Nat) :
    Bvf.cmpWords a b n = compare (valF a n) (valF b n) := by
  induction n with
  | zero => simp [Bvf.cmpWords, valF]
  | succ n ih =>
    simp only [Bvf.cmpWords, valF]
    have hA := valF_lt a n
    have hB := valF_lt b n
    rcases Nat.lt_trichotomy (a n).toNat (b n).toNat with h | h | h
    · have h1 := lt_of_digit_lt (B := valF b n) hA h
      rw [Nat.compare_eq_lt.mpr h, Nat.compare_eq_lt.mpr h1]
    · rw [h, Nat.compare_eq_eq.mpr rfl, ih]
      rcases Nat.lt_trichotomy (valF a n) (valF b n) with h2 | h2 | h2
      · rw [Nat.compare_eq_lt.mpr h2, Nat.compare_eq_lt.mpr (by omega)]
      · rw [Nat.compare_eq_eq.mpr h2, Nat.compare_eq_eq.mpr (by omega)]
      · rw [Nat.compare_eq_gt.mpr h2, Nat.compare_eq_gt.mpr (by omega)]
    · have h1 := lt_of_digit_lt (B := valF a n) hB h
      rw [Nat.compare_eq_gt.mpr h, Nat.compare_eq_gt.mpr h1]

/-- equal values ⇔ equal words -/
theorem valF_eq_iff {wJ : Nat} (a b : Nat → BitVec wJ) (n : Nat) :
    valF a n = valF b n ↔ ∀ i, i < n → a i = b i := by
  constructor
  · induction n with
    | zero => intro _ i hi; omega
    | succ n ih =>
      simp only [valF]
      intro h
      have hA := valF_lt a n
      have hB := valF_lt b n
      have hd : (a n).toNat = (b n).toNat := by
        rcases Nat.lt_trichotomy (a n).toNat (b n).toNat with h1 | h1 | h1
        · have := lt_of_digit_lt (B := valF b n) hA h1; omega
        · exact h1
        · have := lt_of_digit_lt (B := valF a n) hB h1; omega
      have hl : valF a n = valF b n := by rw [hd] at h; omega
      intro i hi
      by_cases hin : i = n
      · subst hin; exact BitVec.eq_of_toNat_eq hd
      · exact ih hl i (by omega)
  · exact valF_congr a b n

/-- word-wise equality over `0..n` is equality of the fetched values -/
theorem allWords_eq {wJ : Nat} (a b : Nat → BitVec wJ) (n : Nat) :
    (List.range n).all (fun i => a i == b i) = decide (valF a n = valF b n) := by
  rw [Bool.eq_iff_iff, List.all_eq_true, decide_eq_true_eq, valF_eq_iff]
  simp only [List.mem_range, beq_iff_eq]

-- ---- generic versions, for any two word-fetch functions -----------------------------------------------
/-- if the fetched words are the operands' values, word-wise equality decides numeric equality -/
theorem eq_of_fetch {wJ : Nat} (a b : Nat → BitVec wJ) (n A B : Nat)
    (hA : valF a n = A) (hB : valF b n = B) :
    (List.range n).all (fun i => a i == b i) = decide (A = B) := by
  rw [allWords_eq, hA, hB]

/-- if the fetched words are the operands' values, `cmpWords` is numeric comparison -/
theorem cmp_of_fetch {wJ : Nat} (a b : Nat → BitVec wJ) (n A B : Nat)
    (hA : valF a n = A) (hB : valF b n = B) :
    Bvf.cmpWords a b n = compare A B := by
  rw [cmpWords_eq, hA, hB]

-- ---- the storage words as a fetch function -----------------------------------------------------------
theorem valF_wd {w : Nat} (ws : Array (BitVec w)) (n : Nat) : valF (wd ws) n = valUpTo ws n := by
  induction n with
  | zero => rfl
  | succ n ih => simp only [valF, valUpTo, ih]

/-- words at and beyond `ws.size` read as 0, so summing more of them does not change the value -/
theorem valUpTo_of_size_le {w : Nat} (ws : Array (BitVec w)) (n : Nat) (hn : ws.size ≤ n) :
    valUpTo ws n = valAll ws := by
  induction n with
  | zero =>
    have : ws.size = 0 := by omega
    simp [valAll, this]
  | succ n ih =>
    by_cases h : ws.size = n + 1
    · simp [valAll, h]
    · have hle : ws.size ≤ n := by omega
      simp only [valUpTo]
      rw [ih hle]
      have : wd ws n = 0#w := by
        unfold wd
        simp [Array.getD_eq_getD_getElem?, Array.getElem?_eq_none hle]
      simp [this]

theorem valF_wd_of_size_le {w : Nat} (s : Raw w) (n : Nat) (hn : s.data.size ≤ n) :
    valF (wd s.data) n = s.abs.val := by
  rw [valF_wd, valUpTo_of_size_le _ _ hn]; rfl

/-- under `Inv` it is enough to fetch the words that cover `length` bits -/
theorem valF_wd_of_inv {w : Nat} (s : Raw w) (hw : 0 < w) (h : s.Inv) (n : Nat)
    (hn : s.length ≤ n * w) : valF (wd s.data) n = s.abs.val := by
  rw [valF_wd]
  show valUpTo s.data n = valUpTo s.data s.data.size
  apply Nat.eq_of_testBit_eq
  intro i
  rw [testBit_valUpTo hw, testBit_valUpTo hw]
  have hc : n * w = w * n := Nat.mul_comm _ _
  by_cases h1 : i < w * n
  · by_cases h2 : i < w * s.data.size
    · simp [h1, h2]
    · have : bitAt s.data i = false := bitAt_oob _ _ (by rw [Nat.mul_comm]; omega) hw
      simp [this]
  · have : bitAt s.data i = false := h.2 i (by omega)
    simp [this]

-- ---- `Bvd` against `Bvd`: no hypothesis needed ---------------------------------------------------------
/-- `PartialEq for Bvd` decides equality of the abstract values (holds even without `Inv`) -/
theorem Bvd.eqBvd_eq' (s o : Raw 64) : Bvd.eqBvd s o = decide (s.abs.val = o.abs.val) := by
  unfold Bvd.eqBvd
  exact eq_of_fetch _ _ _ _ _ (valF_wd_of_size_le s _ (Nat.le_max_left _ _))
    (valF_wd_of_size_le o _ (Nat.le_max_right _ _))

/-- `Ord for Bvd` is numeric comparison of the abstract values (holds even without `Inv`) -/
theorem Bvd.cmpBvd_eq' (s o : Raw 64) : Bvd.cmpBvd s o = compare s.abs.val o.abs.val := by
  unfold Bvd.cmpBvd
  exact cmp_of_fetch _ _ _ _ _ (valF_wd_of_size_le s _ (Nat.le_max_left _ _))
    (valF_wd_of_size_le o _ (Nat.le_max_right _ _))

theorem Bvd.eqBvd_eq (s o : Raw 64) (_hs : s.Inv) (_ho : o.Inv) :
    Bvd.eqBvd s o = decide (s.abs.val = o.abs.val) := Bvd.eqBvd_eq' s o

theorem Bvd.cmpBvd_eq (s o : Raw 64) (_hs : s.Inv) (_ho : o.Inv) :
    Bvd.cmpBvd s o = compare s.abs.val o.abs.val := Bvd.cmpBvd_eq' s o

-- ---- the mixed comparisons, from fetch hypotheses --------------------------------------------------------
/-- `Bvf == Bvf` (chunks of the other operand's word type), given that the chunks are the values -/
theorem Bvf.eqBvf_eq_of_fetch {w w1 : Nat} (s : Raw w) (o : Raw w1)
    (hA : valF (fun i => (s.getInt w1 i).getD 0#w1) (max (s.intLen w1) (o.intLen w1)) = s.abs.val)
    (hB : valF (fun i => (o.getInt w1 i).getD 0#w1) (max (s.intLen w1) (o.intLen w1)) = o.abs.val) :
    Bvf.eqBvf s o = decide (s.abs.val = o.abs.val) := by
  unfold Bvf.eqBvf
  exact eq_of_fetch _ _ _ _ _ hA hB

theorem Bvf.cmpBvf_eq_of_fetch {w w1 : Nat} (s : Raw w) (o : Raw w1)
    (hA : valF (fun i => (s.getInt w1 i).getD 0#w1) (max (s.intLen w1) (o.intLen w1)) = s.abs.val)
    (hB : valF (fun i => (o.getInt w1 i).getD 0#w1) (max (s.intLen w1) (o.intLen w1)) = o.abs.val) :
    Bvf.cmpBvf s o = compare s.abs.val o.abs.val := by
  unfold Bvf.cmpBvf
  exact cmp_of_fetch _ _ _ _ _ hA hB

/-- `Bvd == Bvf`: the `Bvd` side needs only `Inv` (the loop bound `max length …` covers `length` bits) -/
theorem Bvd.eqBvf_eq_of_fetch {w1 : Nat} (s : Raw 64) (o : Raw w1) (hs : s.Inv)
    (hB : valF (fun i => (o.getInt 64 i).getD 0#64) (max s.length (o.intLen 64)) = o.abs.val) :
    Bvd.eqBvf s o = decide (s.abs.val = o.abs.val) := by
  unfold Bvd.eqBvf
  refine eq_of_fetch _ _ _ _ _ (valF_wd_of_inv s (by omega) hs _ ?_) hB
  have := Nat.le_max_left s.length (o.intLen 64)
  omega

theorem Bvd.cmpBvf_eq_of_fetch {w1 : Nat} (s : Raw 64) (o : Raw w1) (hs : s.Inv)
    (hB : valF (fun i => (o.getInt 64 i).getD 0#64) (max s.length (o.intLen 64)) = o.abs.val) :
    Bvd.cmpBvf s o = compare s.abs.val o.abs.val := by
  unfold Bvd.cmpBvf
  refine cmp_of_fetch _ _ _ _ _ (valF_wd_of_inv s (by omega) hs _ ?_) hB
  have := Nat.le_max_left s.length (o.intLen 64)
  omega

-- ---- order laws of the `Nat`-valued comparison (what every `cmp*` above reduces to) ------------------------
theorem natCmp_refl (a : Nat) : compare a a = .eq := Nat.compare_eq_eq.mpr rfl

theorem natCmp_swap (a b : Nat) : (compare a b).swap = compare b a := by
  rcases Nat.lt_trichotomy a b with h | h | h
  · rw [Nat.compare_eq_lt.mpr h, Nat.compare_eq_gt.mpr h]; rfl
  · rw [Nat.compare_eq_eq.mpr h, Nat.compare_eq_eq.mpr h.symm]; rfl
  · rw [Nat.compare_eq_gt.mpr h, Nat.compare_eq_lt.mpr h]; rfl

theorem natCmp_eq_iff (a b : Nat) : compare a b = .eq ↔ a = b := Nat.compare_eq_eq

theorem natCmp_lt_iff (a b : Nat) : compare a b = .lt ↔ a < b := Nat.compare_eq_lt

theorem natCmp_gt_iff (a b : Nat) : compare a b = .gt ↔ b < a := Nat.compare_eq_gt

theorem natCmp_total (a b : Nat) : compare a b = .lt ∨ compare a b = .eq ∨ compare a b = .gt := by
  rcases Nat.lt_trichotomy a b with h | h | h
  · exact Or.inl (Nat.compare_eq_lt.mpr h)
  · exact Or.inr (Or.inl (Nat.compare_eq_eq.mpr h))
  · exact Or.inr (Or.inr (Nat.compare_eq_gt.mpr h))

/-- totality of `≤`: one of the two directions is not `gt` -/
theorem natCmp_le_total (a b : Nat) : compare a b ≠ .gt ∨ compare b a ≠ .gt := by
  rw [Ne, Ne, Nat.compare_eq_gt, Nat.compare_eq_gt]; omega

theorem natCmp_lt_trans {a b c : Nat} (h1 : compare a b = .lt) (h2 : compare b c = .lt) :
    compare a c = .lt := by
  rw [Nat.compare_eq_lt] at *; omega

theorem natCmp_gt_trans {a b c : Nat} (h1 : compare a b = .gt) (h2 : compare b c = .gt) :
    compare a c = .gt := by
  rw [Nat.compare_eq_gt] at *; omega

theorem natCmp_eq_trans {a b c : Nat} (h1 : compare a b = .eq) (h2 : compare b c = .eq) :
    compare a c = .eq := by
  rw [Nat.compare_eq_eq] at *; omega

/-- transitivity of `≤` (`≠ gt`) -/
theorem natCmp_le_trans {a b c : Nat} (h1 : compare a b ≠ .gt) (h2 : compare b c ≠ .gt) :
    compare a c ≠ .gt := by
  rw [Ne, Nat.compare_eq_gt] at *; omega

/-- `==` agrees with `cmp` -/
theorem natCmp_beq (a b : Nat) : decide (a = b) = (compare a b == .eq) := by
  rcases Nat.lt_trichotomy a b with h | h | h
  · rw [Nat.compare_eq_lt.mpr h]; have : a ≠ b := by omega
    simp [this]
  · rw [Nat.compare_eq_eq.mpr h]; simp [h]
  · rw [Nat.compare_eq_gt.mpr h]; have : a ≠ b := by omega
    simp [this]

-- ---- the same laws for `Bvd` ------------------------------------------------------------------------------
theorem Bvd.cmpBvd_refl (s : Raw 64) : Bvd.cmpBvd s s = .eq := by
  rw [Bvd.cmpBvd_eq']; exact natCmp_refl _

theorem Bvd.cmpBvd_swap (s o : Raw 64) : (Bvd.cmpBvd s o).swap = Bvd.cmpBvd o s := by
  rw [Bvd.cmpBvd_eq', Bvd.cmpBvd_eq']; exact natCmp_swap _ _

theorem Bvd.cmpBvd_le_trans {s o t : Raw 64} (h1 : Bvd.cmpBvd s o ≠ .gt) (h2 : Bvd.cmpBvd o t ≠ .gt) :
    Bvd.cmpBvd s t ≠ .gt := by
  rw [Bvd.cmpBvd_eq'] at *; exact natCmp_le_trans h1 h2

theorem Bvd.cmpBvd_lt_trans {s o t : Raw 64} (h1 : Bvd.cmpBvd s o = .lt) (h2 : Bvd.cmpBvd o t = .lt) :
    Bvd.cmpBvd s t = .lt := by
  rw [Bvd.cmpBvd_eq'] at *; exact natCmp_lt_trans h1 h2

theorem Bvd.cmpBvd_eq_iff (s o : Raw 64) : Bvd.cmpBvd s o = .eq ↔ s.abs.val = o.abs.val := by
  rw [Bvd.cmpBvd_eq']; exact natCmp_eq_iff _ _

/-- `PartialEq` and `Ord` of `Bvd` are consistent -/
theorem Bvd.eqBvd_eq_cmpBvd (s o : Raw 64) : Bvd.eqBvd s o = (Bvd.cmpBvd s o == .eq) := by
  rw [Bvd.eqBvd_eq', Bvd.cmpBvd_eq']; exact natCmp_beq _ _

-- ---- bit-level criterion for the fetch hypotheses `valF f n = X` ---------------------------------------------
theorem testBit_valF {wJ : Nat} (hw : 0 < wJ) (f : Nat → BitVec wJ) (n i : Nat) :
    (valF f n).testBit i = (decide (i < wJ * n) && (f (i / wJ)).getLsbD (i % wJ)) := by
  have hwd : ∀ k, k < n → wd (Array.ofFn (n := n) fun k => f k.val) k = f k := by
    intro k hk
    unfold wd
    simp [Array.getD_eq_getD_getElem?, hk]
  rw [valF_congr f (wd (Array.ofFn (n := n) fun k => f k.val)) n (fun k hk => (hwd k hk).symm),
    valF_wd, testBit_valUpTo hw]
  by_cases h : i < wJ * n
  · have : i / wJ < n := (Nat.div_lt_iff_lt_mul hw).mpr (by rw [Nat.mul_comm]; exact h)
    unfold bitAt
    rw [hwd _ this]
  · simp [h]

/-- if word `i` of the fetch holds bits `i*wJ …` of `X`, and `X` fits in `n` words, the fetch sums to `X` -/
theorem valF_eq_of_bits {wJ : Nat} (hw : 0 < wJ) (f : Nat → BitVec wJ) (n X : Nat)
    (hX : X < 2 ^ (wJ * n))
    (hf : ∀ i j, i < n → j < wJ → (f i).getLsbD j = X.testBit (i * wJ + j)) : valF f n = X := by
  apply Nat.eq_of_testBit_eq
  intro i
  rw [testBit_valF hw]
  by_cases h : i < wJ * n
  · have h1 : i / wJ < n := (Nat.div_lt_iff_lt_mul hw).mpr (by rw [Nat.mul_comm]; exact h)
    have h2 := Nat.mod_lt i hw
    rw [hf _ _ h1 h2]
    have : i / wJ * wJ + i % wJ = i := by rw [Nat.mul_comm]; exact Nat.div_add_mod i wJ
    simp [h, this]
  · have : X.testBit i = false :=
      Nat.testBit_lt_two_pow (Nat.lt_of_lt_of_le hX (Nat.pow_le_pow_right (by omega) (by omega)))
    simp [h, this]

end Bva
