import BvaProofs.Get
import BvaProofs.Rechunk
import BvaProofs.Rot
import BvaProofs.Cmp
import BvaProofs.Slice
import BvaProofs.Bitop
import BvaProofs.Count
import BvaProofs.Edit
import BvaProofs.Carry
import BvaProofs.Shift
import BvaProofs.Conv
import BvaProofs.Mul
import BvaProofs.Splice
import BvaProofs.Div
import BvaProofs.Bytes
import BvaProofs.Parse
import BvaProofs.AutoGlue
import BvaProofs.ListView
/-!
# Assembly: invariants of operands and vectors, and discharge of the "fetch" hypotheses
-/
namespace Bva

/-- word widths Rust can instantiate (and more): 8·2^k. Any two of them are `Compat`. -/
def WOk (w : Nat) : Prop := ∃ k, w = 8 * 2 ^ k

theorem WOk.pos {w : Nat} (h : WOk w) : 0 < w := by
  obtain ⟨k, rfl⟩ := h; have := Nat.two_pow_pos k; omega
theorem WOk.two_le {w : Nat} (h : WOk w) : 2 ≤ w := by
  obtain ⟨k, rfl⟩ := h; have := Nat.two_pow_pos k; omega
theorem WOk.eight_dvd {w : Nat} (h : WOk w) : 8 ∣ w := by
  obtain ⟨k, rfl⟩ := h; exact ⟨2 ^ k, rfl⟩
theorem wok64 : WOk 64 := ⟨3, by decide⟩
theorem wok8 : WOk 8 := ⟨0, by decide⟩

theorem WOk.compat {w1 w2 : Nat} (h1 : WOk w1) (h2 : WOk w2) : Compat w1 w2 := by
  refine ⟨h1.pos, h2.pos, ?_⟩
  obtain ⟨k1, rfl⟩ := h1
  obtain ⟨k2, rfl⟩ := h2
  by_cases h : k2 ≤ k1
  · left
    obtain ⟨d, rfl⟩ : ∃ d, k1 = k2 + d := ⟨k1 - k2, by omega⟩
    exact ⟨2 ^ d, by rw [Nat.pow_add, Nat.mul_assoc]⟩
  · right
    obtain ⟨d, rfl⟩ : ∃ d, k2 = k1 + d := ⟨k2 - k1, by omega⟩
    exact ⟨2 ^ d, by rw [Nat.pow_add, Nat.mul_assoc]⟩

/-- invariant of an operand of any implementation -/
def AnyBv.Inv : AnyBv → Prop
  | .f w b => WOk w ∧ b.Inv
  | .d b => b.Inv

/-- invariant of a vector of any implementation (for `Bv::Fixed`: exactly two words) -/
def Vec.Inv : Vec → Prop
  | .f w r => WOk w ∧ r.Inv
  | .d r => r.Inv
  | .a (.fixed r) => r.Inv ∧ r.data.size = 2
  | .a (.dynamic r) => r.Inv

theorem Vec.Inv.any {v : Vec} (h : v.Inv) : v.any.Inv := by
  cases v with
  | f w r => exact h
  | d r => exact h
  | a b => cases b with
    | fixed r => exact ⟨wok64, h.1⟩
    | dynamic r => exact h

theorem Vec.Inv.wpos {v : Vec} (h : v.Inv) : v.WPos := by
  cases v with
  | f w r => exact h.1.pos
  | d r => trivial
  | a b => trivial

theorem Vec.any_abs (v : Vec) : v.any.abs = v.abs := by
  cases v with
  | f w r => rfl
  | d r => rfl
  | a b => cases b <;> rfl

theorem AnyBv.abs_len (x : AnyBv) : x.abs.len = x.len := by cases x <;> rfl

theorem AnyBv.Inv.wf {x : AnyBv} (h : x.Inv) : x.abs.WF := by
  cases x with
  | f w b => exact Raw.Inv.wf h.2 h.1.pos
  | d b => exact Raw.Inv.wf h (by decide)

/-- a fetched word of an operand, through `get_int`, carries exactly the operand's bits -/
theorem AnyBv.getInt_bits (x : AnyBv) (hx : x.Inv) {wJ : Nat} (hJ : WOk wJ) (i j : Nat) (hj : j < wJ) :
    ((x.getInt wJ i).getD 0#wJ).getLsbD j = x.abs.bit (i * wJ + j) := by
  cases x with
  | f w b =>
    simp only [AnyBv.getInt, AnyBv.abs]
    rw [Raw.getInt_getLsbD b (hx.1.compat hJ) hx.2, Raw.abs_bit _ _ hx.1.pos]; simp [hj]
  | d b =>
    simp only [AnyBv.getInt, AnyBv.abs]
    rw [Raw.getInt_getLsbD b (wok64.compat hJ) hx, Raw.abs_bit _ _ (by decide)]; simp [hj]

/-- bit `j` of storage word `i` -/
theorem getLsbD_wd_eq_bitAt {w : Nat} (ws : Array (BitVec w)) (i j : Nat) (hw : 0 < w) (hj : j < w) :
    (wd ws i).getLsbD j = bitAt ws (i * w + j) := by
  unfold bitAt
  have := div_mod_unique hw i j hj
  rw [Nat.mul_comm] at this
  rw [this.1, this.2]

/-- the word `Bvf (op)= rhs` fetches at index `i < N` holds bits `i·w …` of the operand (all three arms) -/
theorem Bvf.rhsWord_bits {w : Nat} (hw : WOk w) (N : Nat) (x : AnyBv) (hx : x.Inv) (i j : Nat)
    (hi : i < N) (hj : j < w) :
    (Bvf.rhsWord w N x i).getLsbD j = x.abs.bit (i * w + j) := by
  cases x with
  | d b => exact AnyBv.getInt_bits (.d b) hx hw i j hj
  | f w2 b =>
    unfold Bvf.rhsWord
    simp only
    by_cases hww : w = w2
    · subst hww
      simp only [if_true, AnyBv.abs]
      rw [Raw.abs_bit _ _ hw.pos]
      by_cases hlt : i < min N b.data.size
      · simp only [hlt, if_true, BitVec.setWidth_eq]
        exact getLsbD_wd_eq_bitAt _ _ _ hw.pos hj
      · simp only [hlt, if_false]
        have : b.data.size * w ≤ i * w + j := by
          have : b.data.size ≤ i := by omega
          calc b.data.size * w ≤ i * w := Nat.mul_le_mul_right w this
            _ ≤ i * w + j := Nat.le_add_right _ _
        rw [bitAt_oob _ _ this hw.pos]; simp
    · simp only [hww, if_false]
      exact AnyBv.getInt_bits (.f w2 b) hx hw i j hj

/-- value form: the `N` fetched words are the operand's value truncated to `N` words -/
theorem Bvf.rhsWord_val {w : Nat} (hw : WOk w) (N : Nat) (x : AnyBv) (hx : x.Inv) :
    valF (Bvf.rhsWord w N x) N = x.abs.val % 2 ^ (w * N) := by
  apply valF_eq_of_bits hw.pos
  · exact Nat.mod_lt _ (Nat.two_pow_pos _)
  · intro i j hi hj
    rw [Bvf.rhsWord_bits hw N x hx i j hi hj, Nat.testBit_mod_two_pow]
    have : i * w + j < w * N := by
      calc i * w + j < i * w + w := by omega
        _ = (i + 1) * w := by rw [Nat.add_mul, Nat.one_mul]
        _ ≤ N * w := Nat.mul_le_mul_right w hi
        _ = w * N := Nat.mul_comm _ _
    simp [this, BV.bit]

theorem AnyBv.bit_of_len_le (x : AnyBv) (hx : x.Inv) (i : Nat) (h : x.len ≤ i) : x.abs.bit i = false := by
  cases x with
  | f w b => simp only [AnyBv.abs]; rw [Raw.abs_bit _ _ hx.1.pos]; exact hx.2.2 i h
  | d b => simp only [AnyBv.abs]; rw [Raw.abs_bit _ _ (by decide)]; exact hx.2 i h

theorem capW_mul_ge (n : Nat) : n ≤ capFromBitLen 64 n * 64 := by
  unfold capFromBitLen; omega

/-- the words `Bvd (op)= rhs` fetches: bit-level discharge -/
theorem Bvd.rhsWords_bits (x : AnyBv) (hx : x.Inv) (i j : Nat) (hj : j < 64) :
    (if i < (Bvd.rhsWords x).1 then ((Bvd.rhsWords x).2 i).getLsbD j else false) = x.abs.bit (i * 64 + j) := by
  by_cases hge : i < (Bvd.rhsWords x).1
  · rw [if_pos hge]
    cases x with
    | d b =>
      show (wd b.data i).getLsbD j = _
      rw [getLsbD_wd_eq_bitAt _ _ _ (by decide) hj]; simp only [AnyBv.abs]; rw [Raw.abs_bit _ _ (by decide)]
    | f w b => exact AnyBv.getInt_bits (.f w b) hx wok64 i j hj
  · rw [if_neg hge]
    symm
    apply AnyBv.bit_of_len_le x hx
    cases x with
    | d b =>
      have hge' : ¬ i < capFromBitLen 64 b.length := hge
      have := capW_mul_ge b.length
      simp only [AnyBv.len]
      have h2 : capFromBitLen 64 b.length * 64 ≤ i * 64 := Nat.mul_le_mul_right 64 (by omega)
      omega
    | f w b =>
      have hge' : ¬ i < (b.length + 64 - 1) / 64 := hge
      simp only [AnyBv.len]
      omega

theorem Bvd.rhsWords_val (x : AnyBv) (hx : x.Inv) (n : Nat) (hn : n ≤ (Bvd.rhsWords x).1) :
    valF (Bvd.rhsWords x).2 n = x.abs.val % 2 ^ (64 * n) := by
  apply valF_eq_of_bits (by decide)
  · exact Nat.mod_lt _ (Nat.two_pow_pos _)
  · intro i j hi hj
    have := Bvd.rhsWords_bits x hx i j hj
    rw [if_pos (by omega)] at this
    rw [this, Nat.testBit_mod_two_pow]
    have : i * 64 + j < 64 * n := by omega
    simp [this, BV.bit]

theorem Bvd.rhsWords_lt (x : AnyBv) (hx : x.Inv) : x.abs.val < 2 ^ (64 * (Bvd.rhsWords x).1) := by
  have hwf := hx.wf
  unfold BV.WF at hwf
  apply Nat.lt_of_lt_of_le hwf
  apply Nat.pow_le_pow_right (by decide)
  rw [AnyBv.abs_len]
  cases x with
  | d b => simp only [Bvd.rhsWords, AnyBv.len, Bvd.capW]; have := capW_mul_ge b.length; omega
  | f w b => simp only [Bvd.rhsWords, AnyBv.len, Raw.intLen]; omega

end Bva

namespace Bva

theorem wok_le128_cases {W : Nat} (h : WOk W) (h128 : W ≤ 128) :
    W = 8 ∨ W = 16 ∨ W = 32 ∨ W = 64 ∨ W = 128 := by
  obtain ⟨k, rfl⟩ := h
  match k with
  | 0 => simp
  | 1 => simp
  | 2 => simp
  | 3 => simp
  | 4 => simp
  | k + 5 =>
    exfalso
    have : 2 ^ 5 ≤ 2 ^ (k + 5) := Nat.pow_le_pow_right (by decide) (by omega)
    omega

/-- invariant of an operator right-hand side: a vector with its invariant, or a native integer of one of the
six unsigned types with a value in range -/
def Api.Rhs.Inv : Api.Rhs → Prop
  | .vec v => v.Inv
  | .uint W x => WOk W ∧ W ≤ 128 ∧ x < 2 ^ W

/-- what the right-hand side denotes at L0 -/
def Api.Rhs.spec : Api.Rhs → BV
  | .vec v => v.abs
  | .uint W x => ⟨W, x⟩

/-- the temporary vector the integer forms build denotes the integer, and satisfies the operand invariant -/
theorem Api.liftUInt_ok (subject : Vec) (W x : Nat) (hW : WOk W) (h128 : W ≤ 128) (hx : x < 2 ^ W) :
    (Api.liftUInt subject W x).Inv ∧ (Api.liftUInt subject W x).abs = ⟨W, x⟩ := by
  have hfix : (AnyBv.f 64 (unwrapD (Bvf.fromUInt 64 2 W x))).Inv ∧
      (AnyBv.f 64 (unwrapD (Bvf.fromUInt 64 2 W x))).abs = ⟨W, x⟩ := by
    have hs := (Bvf.fromUInt_spec (w := 64) 2 W x (by decide) (by decide) hx).2
    have hnb : ¬ (2 * 64 < BV.natBits x) := by
      have : BV.natBits x ≤ W := (BV.natBits_le_iff x W).mpr hx
      omega
    obtain ⟨r, hr, hinv, habs, _⟩ := hs hnb
    rw [hr]
    simp only [unwrapD, AnyBv.Inv, AnyBv.abs]
    refine ⟨⟨wok64, hinv⟩, ?_⟩
    rw [habs]
    have : min W (2 * 64) = W := by omega
    rw [this]
  have hdyn : (AnyBv.d (Bvd.fromUInt W x)).Inv ∧ (AnyBv.d (Bvd.fromUInt W x)).abs = ⟨W, x⟩ := by
    have hw : W ≤ 64 ∨ 64 ∣ W := by
      rcases wok_le128_cases hW h128 with h | h | h | h | h <;> subst h
      · left; decide
      · left; decide
      · left; decide
      · left; decide
      · right; exact ⟨2, rfl⟩
    exact Bvd.fromUInt_refines W x hw hx
  cases subject with
  | f w s => exact hfix
  | d s => exact hdyn
  | a b => cases b with
    | fixed s => exact hfix
    | dynamic s => exact hdyn

theorem Api.Rhs.any_ok (subject : Vec) (x : Api.Rhs) (hx : x.Inv) :
    (x.any subject).Inv ∧ (x.any subject).abs = x.spec := by
  cases x with
  | vec v => exact ⟨Vec.Inv.any hx, Vec.any_abs v⟩
  | uint W n => exact Api.liftUInt_ok subject W n hx.1 hx.2.1 hx.2.2

/-- all fetched words of an operand at width `wJ`, as a value -/
theorem AnyBv.valF_getInt_mod (x : AnyBv) (hx : x.Inv) {wJ : Nat} (hJ : WOk wJ) (n : Nat) :
    valF (fun j => (x.getInt wJ j).getD 0#wJ) n = x.abs.val % 2 ^ (wJ * n) := by
  apply valF_eq_of_bits hJ.pos
  · exact Nat.mod_lt _ (Nat.two_pow_pos _)
  · intro i j hi hj
    rw [AnyBv.getInt_bits x hx hJ i j hj, Nat.testBit_mod_two_pow]
    have : i * wJ + j < wJ * n := by
      calc i * wJ + j < i * wJ + wJ := by omega
        _ = (i + 1) * wJ := by rw [Nat.add_mul, Nat.one_mul]
        _ ≤ n * wJ := Nat.mul_le_mul_right wJ hi
        _ = wJ * n := Nat.mul_comm _ _
    simp [this, BV.bit]

end Bva

namespace Bva

/-- fixed capacity of a vector's type (`none` for the growable types) -/
def Vec.capOpt : Vec → Option Nat
  | .f w r => some (r.data.size * w)
  | _ => none

/-- does a length fit the type's capacity? -/
def Vec.fits (v : Vec) (n : Nat) : Prop :=
  match v.capOpt with
  | some c => n ≤ c
  | none => True

theorem AnyBv.Inv.src {x : AnyBv} (h : x.Inv) : spl_Src x 8 ∧ spl_Src x 64 := by
  cases x with
  | f w b => exact ⟨spl_Src.of_f b (h.1.compat wok8) h.2, spl_Src.of_f b (h.1.compat wok64) h.2⟩
  | d b => exact ag_src_of_d b h

theorem Vec.abs_wf {v : Vec} (h : v.Inv) : v.abs.WF := by
  have := h.any.wf; rwa [Vec.any_abs] at this

theorem Vec.abs_len (v : Vec) : v.abs.len = v.len := by cases v <;> rfl

theorem Vec.Inv.bvinv {b : Bv} (h : (Vec.a b).Inv) : div_BvInv b := by
  cases b <;> exact h
theorem Vec.Inv.of_bvinv {b : Bv} (h : div_BvInv b) : (Vec.a b).Inv := by
  cases b <;> exact h

end Bva
