import BvaProofs.Base
import BvaProofs.Rechunk
import BvaProofs.Bitop
import BvaProofs.Slice
import BvaProofs.Edit
import BvaModel.Dynamic
/-!
# Bytes: `to_vec`, `from_bytes`, `read`
-/
namespace Bva
variable {w : Nat}

-- ---- spec level: byte lists -------------------------------------------------------------------------
theorem byt_length_natBytesLE (v k : Nat) : (BV.natBytesLE v k).length = k := by
  induction k generalizing v with
  | zero => rfl
  | succ k ih => simp [BV.natBytesLE, ih]

theorem byt_natBytesLE_lt (v k : Nat) : ∀ b ∈ BV.natBytesLE v k, b < 256 := by
  induction k generalizing v with
  | zero => intro b hb; simp [BV.natBytesLE] at hb
  | succ k ih =>
    intro b hb
    simp only [BV.natBytesLE, List.mem_cons] at hb
    rcases hb with rfl | hb
    · exact Nat.mod_lt _ (by decide)
    · exact ih _ b hb

theorem byt_natBytesLE_eq_map (v k : Nat) :
    BV.natBytesLE v k = (List.range k).map fun i => (v >>> (8 * i)) % 256 := by
  induction k generalizing v with
  | zero => rfl
  | succ k ih =>
    rw [BV.natBytesLE, ih, List.range_succ_eq_map, List.map_cons, List.map_map]
    congr 1
    apply List.map_congr_left
    intro i _
    simp only [Function.comp]
    rw [Nat.mul_succ, Nat.add_comm (8 * i) 8, Nat.shiftRight_add, Nat.shiftRight_eq_div_pow v 8]

theorem byt_natOfBytesLE_natBytesLE (v k : Nat) :
    BV.natOfBytesLE (BV.natBytesLE v k) = v % 256 ^ k := by
  induction k generalizing v with
  | zero => simp [BV.natBytesLE, BV.natOfBytesLE, Nat.mod_one]
  | succ k ih =>
    rw [BV.natBytesLE, BV.natOfBytesLE, ih, Nat.pow_succ, Nat.mul_comm (256 ^ k) 256, Nat.mod_mul]

theorem byt_pow256 (k : Nat) : 256 ^ k = 2 ^ (8 * k) := by
  rw [Nat.pow_mul]

/-- `to_vec` gives `⌈len / 8⌉` bytes -/
theorem BV.length_toVec (a : BV) (big : Bool) : (a.toVec big).length = (a.len + 7) / 8 := by
  unfold BV.toVec BV.bytesLE
  cases big <;> simp [byt_length_natBytesLE]

/-- every byte of `to_vec` is `< 256` -/
theorem BV.toVec_lt (a : BV) (big : Bool) : ∀ b ∈ a.toVec big, b < 256 := by
  unfold BV.toVec BV.bytesLE
  intro b hb
  cases big
  · exact byt_natBytesLE_lt _ _ b (by simpa using hb)
  · exact byt_natBytesLE_lt _ _ b (by simpa using hb)

/-- round trip `from_bytes (to_vec a) = a` zero-extended to whole bytes -/
theorem BV.fromBytes_toVec (a : BV) (h : a.WF) (big : Bool) :
    BV.fromBytes (a.toVec big) big = ⟨8 * ((a.len + 7) / 8), a.val⟩ := by
  have hv : BV.natOfBytesLE (BV.natBytesLE a.val ((a.len + 7) / 8)) = a.val := by
    rw [byt_natOfBytesLE_natBytesLE, byt_pow256]
    apply Nat.mod_eq_of_lt
    exact Nat.lt_of_lt_of_le h (Nat.pow_le_pow_right (by decide) (by omega))
  unfold BV.fromBytes
  rw [BV.length_toVec]
  unfold BV.toVec BV.bytesLE
  cases big
  · simp only [Bool.false_eq_true, if_false]; rw [hv]
  · simp only [if_true, List.reverse_reverse]; rw [hv]

theorem BV.fromBytes_toVec_val (a : BV) (h : a.WF) (big : Bool) :
    (BV.fromBytes (a.toVec big) big).val % 2 ^ a.len = a.val := by
  rw [BV.fromBytes_toVec a h big]
  exact Nat.mod_eq_of_lt h

-- ---- `to_vec` ------------------------------------------------------------------------------------------
/-- byte `i` of the storage, as the `to_vec` loop reads it (word width `8 * m`) -/
theorem byt_storage_byte (ws : Array (BitVec (8 * m))) (hm : 0 < m) (i : Nat) :
    ((wd ws (i / m) >>> ((i % m) * 8)).setWidth 8).toNat = (valAll ws >>> (8 * i)) % 256 := by
  apply Nat.eq_of_testBit_eq
  intro j
  have e256 : 256 = 2 ^ 8 := by decide
  rw [e256, Nat.testBit_mod_two_pow, Nat.testBit_shiftRight, ← BitVec.getLsbD, BitVec.getLsbD_setWidth,
    BitVec.getLsbD_ushiftRight]
  by_cases hj : j < 8
  · have hw : 0 < 8 * m := by omega
    have hb := Raw.abs_bit (⟨ws, 0⟩ : Raw (8 * m)) (8 * i + j) hw
    simp only [Raw.abs, BV.bit] at hb
    rw [hb]
    unfold bitAt
    obtain ⟨h1, h2⟩ := rc_small_idx' m 8 i j hj hm
    rw [Nat.mul_comm m 8, Nat.mul_comm i 8] at h1 h2
    rw [h1, h2]
  · simp [hj]

theorem Raw.bytesLE_eq (s : Raw w) (h8 : 8 ∣ w) (hw : 0 < w) : s.bytesLE = s.abs.bytesLE := by
  obtain ⟨m, rfl⟩ := h8
  have hm : 0 < m := by omega
  unfold Raw.bytesLE BV.bytesLE
  rw [byt_natBytesLE_eq_map, Nat.mul_div_cancel_left m (by decide : 0 < 8)]
  apply List.map_congr_left
  intro i _
  exact byt_storage_byte s.data hm i

/-- `to_vec` returns the bytes of the abstract value (no invariant needed: both sides read all storage) -/
theorem Raw.toVec_eq (s : Raw w) (h8 : 8 ∣ w) (hw : 0 < w) (big : Bool) : s.toVec big = s.abs.toVec big := by
  unfold Raw.toVec BV.toVec
  rw [Raw.bytesLE_eq s h8 hw]

-- ---- `from_bytes`: the canonical accumulate loop ----------------------------------------------------
/-- `Σ_{t<n} g (lo+t) · 256^t` -/
def byt_pack (g : Nat → Nat) : Nat → Nat → Nat
  | _, 0 => 0
  | lo, n + 1 => g lo + 256 * byt_pack g (lo + 1) n

theorem byt_testBit_cons (b v t : Nat) (hb : b < 256) :
    (b + 256 * v).testBit t = if t < 8 then b.testBit t else v.testBit (t - 8) := by
  have e256 : 256 = 2 ^ 8 := by decide
  rw [Nat.add_comm, e256, Nat.testBit_two_pow_mul_add _ (by rw [← e256]; exact hb)]

theorem byt_testBit_pack (g : Nat → Nat) (hg : ∀ e, g e < 256) (lo n t : Nat) :
    (byt_pack g lo n).testBit t = (decide (t / 8 < n) && (g (lo + t / 8)).testBit (t % 8)) := by
  induction n generalizing lo t with
  | zero => simp [byt_pack]
  | succ n ih =>
    rw [byt_pack, byt_testBit_cons _ _ _ (hg lo)]
    by_cases ht : t < 8
    · have h1 : t / 8 = 0 := by omega
      have h2 : t % 8 = t := by omega
      simp [ht, h1, h2]
    · rw [if_neg ht, ih]
      have h1 : (t - 8) / 8 = t / 8 - 1 := by omega
      have h2 : (t - 8) % 8 = t % 8 := by omega
      have h3 : lo + 1 + (t / 8 - 1) = lo + t / 8 := by omega
      have h4 : decide (t / 8 - 1 < n) = decide (t / 8 < n + 1) := by
        apply decide_eq_decide.mpr; omega
      rw [h1, h2, h3, h4]

theorem byt_testBit_natOfBytesLE (L : List Nat) (hL : ∀ b ∈ L, b < 256) (t : Nat) :
    (BV.natOfBytesLE L).testBit t = (L.getD (t / 8) 0).testBit (t % 8) := by
  induction L generalizing t with
  | nil => simp [BV.natOfBytesLE]
  | cons b L ih =>
    rw [BV.natOfBytesLE, byt_testBit_cons _ _ _ (hL b (by simp))]
    by_cases ht : t < 8
    · have h1 : t / 8 = 0 := by omega
      have h2 : t % 8 = t := by omega
      simp [ht, h1, h2]
    · rw [if_neg ht, ih (fun b hb => hL b (by simp [hb]))]
      have h1 : t / 8 = (t - 8) / 8 + 1 := by omega
      have h2 : (t - 8) % 8 = t % 8 := by omega
      rw [h1, h2, List.getD_cons_succ]

theorem byt_shl_or (v b : Nat) (hb : b < 256) :
    (BitVec.ofNat w v <<< 8) ||| BitVec.ofNat w b = BitVec.ofNat w (b + 256 * v) := by
  apply BitVec.eq_of_getLsbD_eq
  intro i hi
  rw [BitVec.getLsbD_or, BitVec.getLsbD_shiftLeft, BitVec.getLsbD_ofNat, BitVec.getLsbD_ofNat,
    BitVec.getLsbD_ofNat, byt_testBit_cons _ _ _ hb]
  by_cases h8 : i < 8
  · simp [hi, h8]
  · have : b.testBit i = false :=
      Nat.testBit_lt_two_pow (Nat.lt_of_lt_of_le (show b < 2 ^ 8 from hb)
        (Nat.pow_le_pow_right (by decide : 0 < 2) (by omega : 8 ≤ i)))
    have hi' : i - 8 < w := by omega
    simp [hi, h8, this, hi']

/-- one iteration: `data[e / bu] = (data[e / bu] << 8) | byte e` -/
def byt_step (bu : Nat) (g : Nat → Nat) (e : Nat) (a : Array (BitVec w)) : Array (BitVec w) :=
  a.setIfInBounds (e / bu) ((wd a (e / bu) <<< 8) ||| BitVec.ofNat w (g e))

/-- the loop over the little-endian byte indices `start + k - 1` down to `start` -/
def byt_loop (bu : Nat) (g : Nat → Nat) (z : Array (BitVec w)) (start k : Nat) : Array (BitVec w) :=
  (List.range' start k).foldr (byt_step bu g) z

theorem byt_loop_succ (bu : Nat) (g : Nat → Nat) (z : Array (BitVec w)) (start k : Nat) :
    byt_loop bu g z start (k + 1) = byt_step bu g start (byt_loop bu g z (start + 1) k) := by
  unfold byt_loop
  rw [List.range'_succ, List.foldr_cons]

theorem byt_loop_size (bu : Nat) (g : Nat → Nat) (z : Array (BitVec w)) (start k : Nat) :
    (byt_loop bu g z start k).size = z.size := by
  induction k generalizing start with
  | zero => simp [byt_loop]
  | succ k ih => rw [byt_loop_succ]; unfold byt_step; rw [Array.size_setIfInBounds, ih]

/-- word `j` after the loop holds the bytes `max start (j·bu) ≤ e < min bl ((j+1)·bu)`, packed -/
theorem byt_loop_wd (bu N : Nat) (g : Nat → Nat) (bl : Nat) (hbu : 0 < bu) (hg : ∀ e, g e < 256)
    (k start : Nat) (h : start + k = bl) (j : Nat) :
    wd (byt_loop bu g (Array.replicate N 0#w) start k) j =
      if j < N then
        BitVec.ofNat w (byt_pack g (max start (j * bu)) (min bl ((j + 1) * bu) - max start (j * bu)))
      else 0#w := by
  induction k generalizing start j with
  | zero =>
    have e : min bl ((j + 1) * bu) - max start (j * bu) = 0 := by omega
    rw [e]
    simp [byt_loop, byt_pack, Edit.wd_replicate]
  | succ k ih =>
    rw [byt_loop_succ]
    unfold byt_step
    rw [wd_setIfInBounds, byt_loop_size, Array.size_replicate]
    have hq1 : start / bu * bu ≤ start := Nat.div_mul_le_self start bu
    have hq2 : start < (start / bu + 1) * bu := Nat.lt_mul_of_div_lt (Nat.lt_succ_self _) hbu
    rw [Nat.succ_mul] at hq2
    by_cases hj : start / bu = j
    · subst hj
      by_cases hN : start / bu < N
      · rw [if_pos ⟨rfl, hN⟩, if_pos hN, ih (start + 1) (by omega), if_pos hN, byt_shl_or _ _ (hg start)]
        rw [show (start / bu + 1) * bu = start / bu * bu + bu from Nat.succ_mul _ _]
        have e1 : max (start + 1) (start / bu * bu) = start + 1 := by omega
        have e2 : max start (start / bu * bu) = start := by omega
        have e3 : min bl (start / bu * bu + bu) - start = (min bl (start / bu * bu + bu) - (start + 1)) + 1 := by
          omega
        rw [e1, e2, e3, byt_pack]
      · have : ¬ (start / bu = start / bu ∧ start / bu < N) := fun hh => hN hh.2
        rw [if_neg this, if_neg hN, ih (start + 1) (by omega), if_neg hN]
    · have : ¬ (start / bu = j ∧ start / bu < N) := fun hh => hj hh.1
      rw [if_neg this, ih (start + 1) (by omega)]
      by_cases hN : j < N
      · rw [if_pos hN, if_pos hN]
        rw [show (j + 1) * bu = j * bu + bu from Nat.succ_mul _ _]
        by_cases hlt : j < start / bu
        · have h1 : (j + 1) * bu ≤ start / bu * bu := Nat.mul_le_mul_right bu hlt
          rw [Nat.succ_mul] at h1
          have e1 : min bl (j * bu + bu) - max (start + 1) (j * bu) = 0 := by omega
          have e2 : min bl (j * bu + bu) - max start (j * bu) = 0 := by omega
          rw [e1, e2]; simp [byt_pack]
        · have hgt : start / bu + 1 ≤ j := by omega
          have h1 : (start / bu + 1) * bu ≤ j * bu := Nat.mul_le_mul_right bu hgt
          rw [Nat.succ_mul] at h1
          have e1 : max (start + 1) (j * bu) = j * bu := by omega
          have e2 : max start (j * bu) = j * bu := by omega
          rw [e1, e2]
      · rw [if_neg hN, if_neg hN]

/-- bit form: after the whole loop storage bit `i` is bit `i % 8` of byte `i / 8` -/
theorem byt_loop_bits (m N : Nat) (g : Nat → Nat) (bl : Nat) (hm : 0 < m) (hg : ∀ e, g e < 256)
    (hg0 : ∀ e, bl ≤ e → g e = 0) (hc : bl * 8 ≤ N * (8 * m)) (i : Nat) :
    bitAt (byt_loop m g (Array.replicate N 0#(8 * m)) 0 bl) i = (g (i / 8)).testBit (i % 8) := by
  unfold bitAt
  rw [byt_loop_wd m N g bl hm hg bl 0 (by omega)]
  have hdd : i / (8 * m) = i / 8 / m := (Nat.div_div_eq_div_mul i 8 m).symm
  have hmd : i % (8 * m) / 8 = i / 8 % m := Nat.mod_mul_right_div_self i 8 m
  have hmm : i % (8 * m) % 8 = i % 8 := Nat.mod_mul_right_mod i 8 m
  have hdm : m * (i / 8 / m) + i / 8 % m = i / 8 := Nat.div_add_mod (i / 8) m
  have hlt : i / 8 % m < m := Nat.mod_lt _ hm
  have hcomm : i / 8 / m * m = m * (i / 8 / m) := Nat.mul_comm _ _
  have hi : i % (8 * m) < 8 * m := Nat.mod_lt _ (by omega)
  by_cases hN : i / (8 * m) < N
  · rw [if_pos hN, BitVec.getLsbD_ofNat, byt_testBit_pack g hg, hmd, hmm, hdd,
      show (i / 8 / m + 1) * m = i / 8 / m * m + m from Nat.succ_mul _ _]
    have e1 : max 0 (i / 8 / m * m) + i / 8 % m = i / 8 := by omega
    rw [e1]
    by_cases hb : i / 8 < bl
    · have c : i / 8 % m < min bl (i / 8 / m * m + m) - max 0 (i / 8 / m * m) := by omega
      rw [decide_eq_true hi, decide_eq_true c]; simp
    · rw [hg0 _ (by omega)]; simp
  · rw [if_neg hN]
    have h1 : N ≤ i / 8 / m := by omega
    have h2 : N * m ≤ i / 8 / m * m := Nat.mul_le_mul_right m h1
    have h3 : N * (8 * m) = 8 * (N * m) := by rw [Nat.mul_left_comm]
    rw [hg0 _ (by omega)]; simp

-- ---- the model's loops are instances of `byt_loop` ----------------------------------------------------
theorem byt_zip_range (bs : List Nat) :
    (List.range bs.length).zip bs = (List.range bs.length).map fun i => (i, bs.getD i 0) := by
  apply List.ext_getElem
  · simp
  · intro i h1 h2
    simp only [List.length_zip, List.length_range, Nat.min_self] at h1
    simp [List.getD_eq_getElem?_getD, List.getElem?_eq_getElem h1]

theorem byt_foldl_congr {α β : Type} (f g : β → α → β) (z : β) (l : List α)
    (h : ∀ a, ∀ x ∈ l, f a x = g a x) : l.foldl f z = l.foldl g z := by
  induction l generalizing z with
  | nil => rfl
  | cons x l ih =>
    rw [List.foldl_cons, List.foldl_cons, h z x (by simp)]
    exact ih _ (fun a y hy => h a y (by simp [hy]))

/-- little-endian `foldr` form (`Bvf::from_bytes`, `Endianness::Little`) -/
theorem byt_foldr_eq (bu : Nat) (bs : List Nat) (z : Array (BitVec w)) :
    ((List.range bs.length).zip bs).foldr (fun (p : Nat × Nat) a =>
        let j := p.1 / bu
        a.setIfInBounds j ((wd a j <<< 8) ||| BitVec.ofNat w p.2)) z
      = byt_loop bu (fun e => bs.getD e 0) z 0 bs.length := by
  rw [byt_zip_range, List.foldr_map, List.range_eq_range']
  rfl

/-- big-endian `foldl` form: step `i` touches word `J i = (bl - 1 - i) / bu` -/
theorem byt_foldl_eq (bu : Nat) (bs : List Nat) (J : Nat → Nat) (z : Array (BitVec w))
    (hJ : ∀ i, i < bs.length → J i = (bs.length - 1 - i) / bu) :
    ((List.range bs.length).zip bs).foldl (fun a (p : Nat × Nat) =>
        let j := J p.1
        a.setIfInBounds j ((wd a j <<< 8) ||| BitVec.ofNat w p.2)) z
      = byt_loop bu (fun e => bs.reverse.getD e 0) z 0 bs.length := by
  unfold byt_loop
  rw [byt_zip_range, List.foldl_map, List.foldr_eq_foldl_reverse, List.reverse_range', List.foldl_map]
  apply byt_foldl_congr
  intro a i hi
  have hi : i < bs.length := List.mem_range.mp hi
  have h1 : 0 + bs.length - 1 - i < bs.reverse.length := by rw [List.length_reverse]; omega
  have h2 : bs.length - 1 - (bs.length - 1 - i) = i := by omega
  simp only [byt_step]
  rw [hJ i hi, List.getD_eq_getElem?_getD, List.getD_eq_getElem?_getD, List.getElem?_eq_getElem h1,
    List.getElem?_eq_getElem hi, List.getElem_reverse]
  simp only [Nat.zero_add, Option.getD_some, h2]

theorem byt_getD_lt (L : List Nat) (hL : ∀ b ∈ L, b < 256) (e : Nat) : L.getD e 0 < 256 := by
  rw [List.getD_eq_getElem?_getD]
  by_cases h : e < L.length
  · rw [List.getElem?_eq_getElem h]; exact hL _ (List.getElem_mem h)
  · rw [List.getElem?_eq_none (by omega)]; decide

theorem byt_getD_oob (L : List Nat) (e : Nat) (h : L.length ≤ e) : L.getD e 0 = 0 := by
  rw [List.getD_eq_getElem?_getD, List.getElem?_eq_none h]; rfl

/-- the canonical loop over the little-endian byte list `L` builds `natOfBytesLE L` -/
theorem byt_loop_refines (m N : Nat) (L : List Nat) (hm : 0 < m) (hL : ∀ b ∈ L, b < 256)
    (hc : L.length * 8 ≤ N * (8 * m)) :
    (⟨byt_loop m (fun e => L.getD e 0) (Array.replicate N 0#(8 * m)) 0 L.length, L.length * 8⟩ : Raw (8 * m)).Inv ∧
    (⟨byt_loop m (fun e => L.getD e 0) (Array.replicate N 0#(8 * m)) 0 L.length, L.length * 8⟩ : Raw (8 * m)).abs
      = ⟨8 * L.length, BV.natOfBytesLE L⟩ := by
  apply refines_of_bits _ _ (by omega : 0 < 8 * m)
  · exact Nat.mul_comm _ _
  · simp only [byt_loop_size, Array.size_replicate]; exact hc
  · intro i hi
    simp only at hi
    simp only [BV.bit]
    rw [byt_testBit_natOfBytesLE L hL, byt_getD_oob L _ (by omega)]; simp
  · intro i
    simp only [BV.bit]
    rw [byt_loop_bits m N _ L.length hm (byt_getD_lt L hL) (byt_getD_oob L) hc, byt_testBit_natOfBytesLE L hL]

-- ---- `Bvd::from_bytes` -------------------------------------------------------------------------------
theorem Bvd.fromBytes_eq_loop (bytes : List Nat) (big : Bool) :
    Bvd.fromBytes bytes big =
      ⟨byt_loop 8 (fun e => (if big then bytes.reverse else bytes).getD e 0)
        (Array.replicate ((bytes.length + 7) / 8) 0#(8 * 8)) 0 (if big then bytes.reverse else bytes).length,
       (if big then bytes.reverse else bytes).length * 8⟩ := by
  unfold Bvd.fromBytes
  have hJ : ∀ i, i < bytes.length →
      (bytes.length + 7) / 8 - 1 - (i + (8 - bytes.length % 8) % 8) / 8 = (bytes.length - 1 - i) / 8 := by
    intro i hi; omega
  cases big
  · have e := byt_foldl_eq (w := 64) 8 bytes.reverse
      (fun i => (bytes.length + 7) / 8 - 1 - (i + (8 - bytes.length % 8) % 8) / 8)
      (Array.replicate ((bytes.length + 7) / 8) 0#64) (by simpa using hJ)
    simp only [List.length_reverse, List.reverse_reverse] at e
    simp only [Bool.false_eq_true, if_false]
    rw [← e]
  · have e := byt_foldl_eq (w := 64) 8 bytes
      (fun i => (bytes.length + 7) / 8 - 1 - (i + (8 - bytes.length % 8) % 8) / 8)
      (Array.replicate ((bytes.length + 7) / 8) 0#64) hJ
    simp only [if_true, List.length_reverse]
    rw [← e]

theorem Bvd.fromBytes_refines (bytes : List Nat) (big : Bool) (hb : ∀ b ∈ bytes, b < 256) :
    (Bvd.fromBytes bytes big).Inv ∧ (Bvd.fromBytes bytes big).abs = BV.fromBytes bytes big := by
  rw [Bvd.fromBytes_eq_loop]
  have hL : ∀ b ∈ (if big then bytes.reverse else bytes), b < 256 := by
    cases big
    · simpa using hb
    · simpa using hb
  have hlen : (if big then bytes.reverse else bytes).length = bytes.length := by
    cases big <;> simp
  have := byt_loop_refines 8 ((bytes.length + 7) / 8) (if big then bytes.reverse else bytes) (by decide) hL
    (by rw [hlen]; omega)
  refine ⟨this.1, ?_⟩
  rw [this.2]
  unfold BV.fromBytes
  rw [hlen]

theorem Bvd.fromBytes_size (bytes : List Nat) (big : Bool) :
    (Bvd.fromBytes bytes big).data.size = (bytes.length + 7) / 8 ∧
    (Bvd.fromBytes bytes big).length = bytes.length * 8 := by
  rw [Bvd.fromBytes_eq_loop]
  simp only [byt_loop_size, Array.size_replicate]
  cases big <;> simp

-- ---- `Bvf::from_bytes` -------------------------------------------------------------------------------
/-- the data computed by `Bvf::from_bytes` (all four loops) is the canonical loop -/
theorem Bvf.fromBytes_eq_loop (m N : Nat) (bytes : List Nat) (big : Bool)
    (hc : bytes.length * 8 ≤ N * (8 * m)) :
    Bvf.fromBytes (8 * m) N bytes big = .ok
      ⟨byt_loop m (fun e => (if big then bytes.reverse else bytes).getD e 0)
        (Array.replicate N 0#(8 * m)) 0 (if big then bytes.reverse else bytes).length,
       (if big then bytes.reverse else bytes).length * 8⟩ := by
  unfold Bvf.fromBytes
  have hbu : 8 * m / 8 = m := Nat.mul_div_cancel_left m (by decide)
  have hnc : ¬ bytes.length * 8 > N * (8 * m) := by omega
  simp only [hbu, if_neg hnc]
  have hlen : (if big then bytes.reverse else bytes).length = bytes.length := by
    cases big <;> simp
  rw [hlen]
  congr 2
  cases big
  · -- little endian
    simp only [Bool.not_false, if_true, Bool.false_eq_true, if_false]
    by_cases h1 : m = 1
    · subst h1
      rw [if_pos rfl, ← byt_foldr_eq]
      congr 1
      funext p a
      simp only [Nat.div_one]
      rw [BitVec.shiftLeft_eq_zero (by omega), BitVec.zero_or]
    · rw [if_neg h1, ← byt_foldr_eq]
  · -- big endian
    simp only [Bool.not_true, Bool.false_eq_true, if_false, if_true]
    have e := byt_foldl_eq (w := 8 * m) m bytes (fun i => (bytes.length - 1 - i) / m)
      (Array.replicate N 0#(8 * m)) (fun _ _ => rfl)
    by_cases h1 : m = 1
    · subst h1
      rw [if_pos rfl, ← e]
      congr 1
      funext a p
      simp only [Nat.div_one]
      rw [BitVec.shiftLeft_eq_zero (by omega), BitVec.zero_or]
    · rw [if_neg h1, ← e]

theorem Bvf.fromBytes_ok (N : Nat) (bytes : List Nat) (big : Bool) (h8 : 8 ∣ w) (hw : 0 < w)
    (hb : ∀ b ∈ bytes, b < 256) (hc : bytes.length * 8 ≤ N * w) :
    ∃ r, Bvf.fromBytes w N bytes big = .ok r ∧ r.Inv ∧ r.abs = BV.fromBytes bytes big ∧ r.data.size = N ∧
      r.length = bytes.length * 8 := by
  obtain ⟨m, rfl⟩ := h8
  have hm : 0 < m := by omega
  refine ⟨_, Bvf.fromBytes_eq_loop m N bytes big hc, ?_⟩
  have hL : ∀ b ∈ (if big then bytes.reverse else bytes), b < 256 := by
    cases big
    · simpa using hb
    · simpa using hb
  have hlen : (if big then bytes.reverse else bytes).length = bytes.length := by
    cases big <;> simp
  have := byt_loop_refines m N (if big then bytes.reverse else bytes) hm hL (by rw [hlen]; exact hc)
  refine ⟨this.1, ?_, ?_, ?_⟩
  · rw [this.2]
    unfold BV.fromBytes
    rw [hlen]
  · simp only [byt_loop_size, Array.size_replicate]
  · simp only [hlen]

theorem Bvf.fromBytes_err (N : Nat) (bytes : List Nat) (big : Bool) (hc : N * w < bytes.length * 8) :
    Bvf.fromBytes w N bytes big = .err "NotEnoughCapacity" := by
  unfold Bvf.fromBytes
  simp only [if_pos (show bytes.length * 8 > N * w from hc)]

-- ---- `read` --------------------------------------------------------------------------------------------
/-- masking a `from_bytes` result down to `length` bits -/
theorem byt_read_refines {w2 : Nat} (bv : Raw w2) (d : Array (BitVec w2)) (v length : Nat) (hw : 0 < w2)
    (habs : bv.abs.val = v) (hcap : length ≤ d.size * w2)
    (hd : ∀ i, bitAt d i = (bitAt bv.data i && decide (i < length))) :
    (⟨d, length⟩ : Raw w2).Inv ∧ (⟨d, length⟩ : Raw w2).abs = ⟨length, v % 2 ^ length⟩ := by
  apply refines_of_bits _ _ hw rfl hcap
  · intro i hi
    simp only at hi
    simp only [BV.bit, Nat.testBit_mod_two_pow]
    simp; omega
  · intro i
    simp only [BV.bit, Nat.testBit_mod_two_pow]
    rw [hd, ← Raw.abs_bit bv i hw, BV.bit, habs, Bool.and_comm]

theorem Bvf.read_invalid (N : Nat) (input : List Nat) (length : Nat) (big : Bool) (h : N * w < length) :
    Bvf.read w N input length big = .err "InvalidInput" := by
  unfold Bvf.read
  rw [if_pos (show length > N * w from h)]

theorem Bvf.read_eof (N : Nat) (input : List Nat) (length : Nat) (big : Bool) (h : length ≤ N * w)
    (hs : input.length < (length + 7) / 8) :
    Bvf.read w N input length big = .err "UnexpectedEof" := by
  unfold Bvf.read
  rw [if_neg (show ¬ length > N * w by omega)]
  simp only [if_pos hs]

theorem Bvf.read_ok (N : Nat) (input : List Nat) (length : Nat) (big : Bool) (h8 : 8 ∣ w) (hw : 0 < w)
    (hb : ∀ b ∈ input, b < 256) (h : length ≤ N * w) (hs : (length + 7) / 8 ≤ input.length) :
    ∃ r, Bvf.read w N input length big = .ok (r, input.drop ((length + 7) / 8)) ∧ r.Inv ∧
      r.abs = ⟨length, (BV.fromBytes (input.take ((length + 7) / 8)) big).val % 2 ^ length⟩ ∧
      r.data.size = N ∧ r.length = length := by
  have hlen : (input.take ((length + 7) / 8)).length = (length + 7) / 8 := by
    rw [List.length_take]; omega
  have hcap : (input.take ((length + 7) / 8)).length * 8 ≤ N * w := by
    rw [hlen]
    obtain ⟨m, rfl⟩ := h8
    rw [Nat.mul_left_comm] at h ⊢
    omega
  obtain ⟨bv, h1, h2, h3, h4, _⟩ := Bvf.fromBytes_ok (w := w) N (input.take ((length + 7) / 8)) big h8 hw
    (fun b hb' => hb b (List.mem_of_mem_take hb')) hcap
  refine ⟨⟨mod2n bv.data length, length⟩, ?_, ?_⟩
  · unfold Bvf.read
    rw [if_neg (show ¬ length > N * w by omega)]
    simp only [if_neg (show ¬ input.length < (length + 7) / 8 by omega), h1]
  · have := byt_read_refines bv (mod2n bv.data length) _ length hw (congrArg BV.val h3)
      (by rw [size_mod2n, h4]; exact h) (fun i => bitAt_mod2n bv.data length i hw)
    refine ⟨this.1, this.2, ?_, rfl⟩
    simp only [size_mod2n, h4]

theorem Bvd.read_eof (input : List Nat) (length : Nat) (big : Bool)
    (hs : input.length < (length + 7) / 8) :
    Bvd.read input length big = .err "UnexpectedEof" := by
  unfold Bvd.read
  simp only [if_pos hs]

theorem Bvd.read_ok (input : List Nat) (length : Nat) (big : Bool)
    (hb : ∀ b ∈ input, b < 256) (hs : (length + 7) / 8 ≤ input.length) :
    ∃ r, Bvd.read input length big = .ok (r, input.drop ((length + 7) / 8)) ∧ r.Inv ∧
      r.abs = ⟨length, (BV.fromBytes (input.take ((length + 7) / 8)) big).val % 2 ^ length⟩ ∧
      r.length = length := by
  have hlen : (input.take ((length + 7) / 8)).length = (length + 7) / 8 := by
    rw [List.length_take]; omega
  obtain ⟨h2, h3⟩ := Bvd.fromBytes_refines (input.take ((length + 7) / 8)) big
    (fun b hb' => hb b (List.mem_of_mem_take hb'))
  obtain ⟨h4, h5⟩ := Bvd.fromBytes_size (input.take ((length + 7) / 8)) big
  rw [hlen] at h4 h5
  refine ⟨⟨Bvd.maskLast (Bvd.fromBytes (input.take ((length + 7) / 8)) big).data length, length⟩, ?_, ?_⟩
  · unfold Bvd.read
    simp only [if_neg (show ¬ input.length < (length + 7) / 8 by omega)]
  · have hsz : (Bvd.maskLast (Bvd.fromBytes (input.take ((length + 7) / 8)) big).data length).size
        = ((length + 7) / 8 + 7) / 8 := by
      unfold Bvd.maskLast; rw [Array.size_modify, h4]
    have := byt_read_refines (Bvd.fromBytes (input.take ((length + 7) / 8)) big)
      (Bvd.maskLast (Bvd.fromBytes (input.take ((length + 7) / 8)) big).data length) _ length
      (by decide) (congrArg BV.val h3) (by rw [hsz]; omega)
      (fun i => by
        unfold Bvd.maskLast
        apply bitAt_modify_lastBits _ _ _ _ (by decide)
        · intro hne; rw [h4]; omega
        · intro j hj
          apply h2.2
          rw [h5]
          unfold capFromBitLen at hj
          omega)
    exact ⟨this.1, this.2, rfl⟩

/-- the error cases of `Bvf::read` are exactly these (the `ok` case is `Bvf.read_ok`) -/
theorem Bvf.read_spec (N : Nat) (input : List Nat) (length : Nat) (big : Bool) (h8 : 8 ∣ w) (hw : 0 < w)
    (hb : ∀ b ∈ input, b < 256) :
    (Bvf.read w N input length big = .err "InvalidInput" ↔ N * w < length) ∧
    (Bvf.read w N input length big = .err "UnexpectedEof" ↔
      length ≤ N * w ∧ input.length < (length + 7) / 8) ∧
    ((∃ p, Bvf.read w N input length big = .ok p) ↔ length ≤ N * w ∧ (length + 7) / 8 ≤ input.length) := by
  by_cases h1 : N * w < length
  · rw [Bvf.read_invalid N input length big h1]
    refine ⟨by simp [h1], ?_, ?_⟩
    · simp; omega
    · simp; omega
  · by_cases h2 : input.length < (length + 7) / 8
    · rw [Bvf.read_eof N input length big (by omega) h2]
      refine ⟨by simp [h1], ?_, ?_⟩
      · simp; omega
      · simp; omega
    · obtain ⟨r, hr, _⟩ := Bvf.read_ok N input length big h8 hw hb (by omega) (by omega)
      rw [hr]
      refine ⟨by simp [h1], ?_, ?_⟩
      · simp; omega
      · simp; omega

/-- the error case of `Bvd::read` (the `ok` case is `Bvd.read_ok`) -/
theorem Bvd.read_spec (input : List Nat) (length : Nat) (big : Bool) :
    (Bvd.read input length big = .err "UnexpectedEof" ↔ input.length < (length + 7) / 8) ∧
    ((∃ p, Bvd.read input length big = .ok p) ↔ (length + 7) / 8 ≤ input.length) := by
  by_cases h2 : input.length < (length + 7) / 8
  · rw [Bvd.read_eof input length big h2]
    refine ⟨by simp [h2], ?_⟩
    simp; omega
  · unfold Bvd.read
    simp only [if_neg h2]
    refine ⟨by simp [h2], ?_⟩
    simp; omega

end Bva
