import BvaModel.Store
/-! value of a word-fetch function: Σ_{i<n} (f i).toNat · 2^(w·i) (shared by the carry and comparison proofs) -/
namespace Bva
def valF {w : Nat} (f : Nat → BitVec w) : Nat → Nat
  | 0 => 0
  | n + 1 => valF f n + 2 ^ (w * n) * (f n).toNat
end Bva
