import BvaProofs.Rechunk
import BvaProofs.Count
import BvaProofs.Cmp
import BvaProofs.Slice
import BvaProofs.Edit
import BvaModel.Auto
/-!
# T14 — conversions: `fromBvf / fromBvd / fromBv`, `fromUInt`, `toUInt`, `fromSlice`, `convert`
-/
namespace Bva
variable {w : Nat}

-- ---- generic: an array whose words are the `w`-bit chunks of another vector ---------------------------
/-- `len ≤ ⌈len / w⌉ * w` -/
theorem cnv_le_intLen_mul (len wJ : Nat) (hJ : 0 < wJ) : len ≤ (len + wJ - 1) / wJ * wJ := by
  have := (rc_lt_ceilDiv_iff len wJ ((len + wJ - 1) / wJ) hJ).mpr
  omega

/-- if word `j` of `a` is chunk `j` of `o` for `j < n` (zero beyond) and the `n` chunks cover `o`,
then `a` and `o` have the same bits -/
theorem cnv_bits_of_chunks {w1 : Nat} (o : Raw w1) (hc : Compat w1 w) (ho : o.Inv)
    (a : Array (BitVec w)) (n : Nat) (hn : o.length ≤ n * w)
    (ha : ∀ j, wd a j = if j < n then (o.getInt w j).getD 0#w else 0#w) (i : Nat) :
    bitAt a i = bitAt o.data i := by
  have hw : 0 < w := hc.2.1
  have hm := Nat.mod_lt i hw
  have hi := idx_eq (w := w) i
  have hcm : i / w * w = w * (i / w) := Nat.mul_comm _ _
  unfold bitAt
  rw [ha]
  split
  · rw [Raw.getInt_getLsbD o hc ho]
    have e : i / w * w + i % w = i := by omega
    rw [e]
    simp [hm, bitAt]
  · rename_i hlt
    have h1 : n * w ≤ i / w * w := Nat.mul_le_mul_right w (by omega)
    have := ho.2 i (by omega)
    unfold bitAt at this
    rw [this]
    simp

/-- refinement from bit equality with a source vector -/
theorem cnv_refines_of_bits {w1 : Nat} (o : Raw w1) (r : Raw w) (hw1 : 0 < w1) (hw : 0 < w)
    (ho : o.Inv) (hl : r.length = o.length) (hcap : o.length ≤ r.data.size * w)
    (hb : ∀ i, bitAt r.data i = bitAt o.data i) : r.Inv ∧ r.abs = o.abs := by
  refine ⟨⟨by rw [hl]; exact hcap, fun i hi => ?_⟩, Raw.abs_eq_of_bits r o hw hw1 hl hb⟩
  rw [hb]; exact ho.2 i (by omega)

/-- the array of `w`-chunks of `o` (with `o.length`) refines `o` -/
theorem cnv_chunks_refines {w1 : Nat} (o : Raw w1) (hc : Compat w1 w) (ho : o.Inv)
    (a : Array (BitVec w)) (n : Nat) (hn : o.length ≤ n * w) (hcap : o.length ≤ a.size * w)
    (ha : ∀ j, wd a j = if j < n then (o.getInt w j).getD 0#w else 0#w) :
    (⟨a, o.length⟩ : Raw w).Inv ∧ (⟨a, o.length⟩ : Raw w).abs = o.abs :=
  cnv_refines_of_bits o ⟨a, o.length⟩ hc.1 hc.2.1 ho rfl hcap
    (fun i => cnv_bits_of_chunks o hc ho a n hn ha i)

theorem cnv_min_mul_le (len N L w : Nat) (h1 : len ≤ N * w) (h2 : len ≤ L * w) : len ≤ min N L * w := by
  rw [Nat.min_def]; split <;> assumption

-- ---- 1. `Bvf::try_from(&Bvf)`, `Bvf::try_from(&Bvd)`, `Bvf::try_from(&Bv)` ------------------------------
theorem Bvf.fromBvf_spec {w1 : Nat} (N : Nat) (o : Raw w1) (hc : Compat w1 w) (ho : o.Inv) :
    (N * w < o.length → Bvf.fromBvf w N o = .err "NotEnoughCapacity") ∧
    (¬ N * w < o.length →
      ∃ r, Bvf.fromBvf w N o = .ok r ∧ r.Inv ∧ r.abs = o.abs ∧ r.data.size = N) := by
  unfold Bvf.fromBvf
  refine ⟨fun h => by rw [if_pos h], fun h => ?_⟩
  rw [if_neg h]
  refine ⟨_, rfl, ?_⟩
  have hsz : (forRange 0 (min N (o.intLen w)) (fun i a => a.setIfInBounds i ((o.getInt w i).getD 0#w))
      (Array.replicate N 0#w)).size = N := by
    rw [size_forRange_set]; simp
  have hcap : o.length ≤ N * w := by omega
  have hcov : o.length ≤ min N (o.intLen w) * w :=
    cnv_min_mul_le _ _ _ _ hcap (cnv_le_intLen_mul o.length w hc.2.1)
  have key := cnv_chunks_refines o hc ho _ (min N (o.intLen w)) hcov (by rw [hsz]; exact hcap) (by
    intro j
    rw [wd_forRange_set, Edit.wd_replicate]
    simp only [Array.size_replicate]
    by_cases hj : j < min N (o.intLen w)
    · have : j < N := by omega
      simp [hj, this]
    · simp [hj])
  exact ⟨key.1, key.2, hsz⟩

theorem Bvf.fromBvd_spec (N : Nat) (o : Raw 64) (hc : Compat 64 w) (ho : o.Inv) :
    (N * w < o.length → Bvf.fromBvd w N o = .err "NotEnoughCapacity") ∧
    (¬ N * w < o.length →
      ∃ r, Bvf.fromBvd w N o = .ok r ∧ r.Inv ∧ r.abs = o.abs ∧ r.data.size = N) := by
  unfold Bvf.fromBvd
  refine ⟨fun h => by rw [if_pos h], fun h => ?_⟩
  rw [if_neg h]
  refine ⟨_, rfl, ?_⟩
  have hsz : (Array.ofFn (n := N) fun i => (o.getInt w i.val).getD 0#w).size = N := by simp
  have hcap : o.length ≤ N * w := by omega
  have key := cnv_chunks_refines o hc ho _ N hcap (by rw [hsz]; exact hcap) (by
    intro j
    rw [Edit.wd_ofFn]
    by_cases hj : j < N <;> simp [hj])
  exact ⟨key.1, key.2, hsz⟩

/-- side conditions on a generic source operand: its word width is compatible with the target's, and
its storage invariant holds -/
def cnv_SrcOk (w : Nat) : AnyBv → Prop
  | .f w1 b => Compat w1 w ∧ b.Inv
  | .d b => Compat 64 w ∧ b.Inv

theorem cnv_fromBv_aux {w1 : Nat} (N : Nat) (o : Raw w1) (hc : Compat w1 w) (ho : o.Inv)
    (h : ¬ N * w < o.length) :
    let r : Raw w := ⟨forRange 0 (o.intLen w) (fun i a => a.setIfInBounds i ((o.getInt w i).getD 0#w))
        (Array.replicate N 0#w), o.length⟩
    r.Inv ∧ r.abs = o.abs ∧ r.data.size = N := by
  intro r
  have hsz : r.data.size = N := by
    show Array.size (forRange _ _ _ _) = N
    rw [size_forRange_set]; simp
  have hcap : o.length ≤ N * w := by omega
  have hcov : o.length ≤ min N (o.intLen w) * w :=
    cnv_min_mul_le _ _ _ _ hcap (cnv_le_intLen_mul o.length w hc.2.1)
  have key := cnv_chunks_refines o hc ho r.data (min N (o.intLen w)) hcov (by rw [hsz]; exact hcap) (by
    intro j
    show wd (forRange _ _ _ _) j = _
    rw [wd_forRange_set, Edit.wd_replicate]
    simp only [Array.size_replicate]
    by_cases hj : j < min N (o.intLen w)
    · have h1 : j < N := by omega
      have h2 : j < o.intLen w := by omega
      simp [hj, h1, h2]
    · by_cases h1 : j < N
      · have h2 : ¬ j < o.intLen w := by omega
        simp [hj, h1, h2]
      · simp [hj, h1])
  exact ⟨key.1, key.2, hsz⟩

theorem Bvf.fromBv_spec (N : Nat) (x : AnyBv) (hx : cnv_SrcOk w x) :
    (N * w < x.len → Bvf.fromBv w N x = .err "NotEnoughCapacity") ∧
    (¬ N * w < x.len →
      ∃ r, Bvf.fromBv w N x = .ok r ∧ r.Inv ∧ r.abs = x.abs ∧ r.data.size = N) := by
  unfold Bvf.fromBv
  refine ⟨fun h => by rw [if_pos h], fun h => ?_⟩
  rw [if_neg h]
  refine ⟨_, rfl, ?_⟩
  cases x with
  | f w1 b => exact cnv_fromBv_aux N b hx.1 hx.2 h
  | d b => exact cnv_fromBv_aux N b hx.1 hx.2 h

/-- `Bvf<I,N>::try_from(&B)` for every static source kind -/
theorem Bvf.convert_spec (N : Nat) (kind : SrcKind) (x : AnyBv) (hx : cnv_SrcOk w x) :
    (N * w < x.len → Bvf.convert w N kind x = .err "NotEnoughCapacity") ∧
    (¬ N * w < x.len →
      ∃ r, Bvf.convert w N kind x = .ok r ∧ r.Inv ∧ r.abs = x.abs ∧ r.data.size = N) := by
  cases kind <;> cases x <;> simp only [Bvf.convert]
  all_goals first
    | exact Bvf.fromBv_spec N _ hx
    | exact Bvf.fromBvf_spec N _ hx.1 hx.2
    | exact Bvf.fromBvd_spec N _ hx.1 hx.2

-- ---- 2. `Bvd::from(&Bvf)`, `Bvd::from(&B)` ---------------------------------------------------------------
theorem Bvd.fromBvf_refines {w1 : Nat} (o : Raw w1) (hc : Compat w1 64) (ho : o.Inv) :
    (Bvd.fromBvf o).Inv ∧ (Bvd.fromBvf o).abs = o.abs ∧
      (Bvd.fromBvf o).data.size = Bvd.capW o.length := by
  unfold Bvd.fromBvf
  have hsz : (Array.ofFn (n := o.intLen 64) fun i => (o.getInt 64 i.val).getD 0#64).size
      = o.intLen 64 := by simp
  have hcap : o.length ≤ o.intLen 64 * 64 := cnv_le_intLen_mul o.length 64 (by decide)
  have key := cnv_chunks_refines o hc ho _ (o.intLen 64) hcap (by rw [hsz]; exact hcap) (by
    intro j
    rw [Edit.wd_ofFn]
    by_cases hj : j < o.intLen 64 <;> simp [hj])
  exact ⟨key.1, key.2, hsz⟩

theorem Bvd.convert_refines (x : AnyBv) (hx : cnv_SrcOk 64 x) :
    (Bvd.convert x).Inv ∧ (Bvd.convert x).abs = x.abs := by
  cases x with
  | f w1 b => exact ⟨(Bvd.fromBvf_refines b hx.1 hx.2).1, (Bvd.fromBvf_refines b hx.1 hx.2).2.1⟩
  | d b => exact ⟨hx.2, rfl⟩

-- ---- 4. `uN::try_from(&Bvf)`, `uN::try_from(&Bvd)` -------------------------------------------------------
theorem cnv_sig_le_iff (s : Raw w) (hw : 0 < w) (h : s.Inv) (W : Nat) :
    s.sigBits > W ↔ ¬ s.abs.sig ≤ W := by
  rw [Raw.sigBits_eq s hw h]; omega

/-- never panics (also for the empty vector, repair D7); an error exactly when the value does not fit -/
theorem Bvf.toUInt_spec (s : Raw w) (W : Nat) (hc : Compat w W) (h : s.Inv) :
    Bvf.toUInt s W = if s.abs.sig ≤ W then .ok s.abs.val else .err "NotEnoughCapacity" := by
  unfold Bvf.toUInt
  by_cases hs : s.abs.sig ≤ W
  · rw [if_neg (by rw [cnv_sig_le_iff s hc.1 h]; exact not_not_intro hs), if_pos hs,
      Raw.getInt_toNat s hc h]
    have : s.abs.val < 2 ^ W := (BV.natBits_le_iff _ _).mp hs
    rw [Nat.zero_mul, Nat.shiftRight_zero, Nat.mod_eq_of_lt this]
  · rw [if_pos ((cnv_sig_le_iff s hc.1 h W).mpr hs), if_neg hs]

/-- the big-endian accumulate loop of `TryFrom<&Bvd> for uN`, bit by bit (any target width `W`) -/
theorem cnv_getLsbD_toUIntLoop (ws : Array (BitVec 64)) (W k : Nat) : ∀ j a : Nat,
    ((List.range' a k).foldr (fun i (r : BitVec W) =>
        (if 64 < W then r <<< 64 else 0#W) ||| (wd ws i).setWidth W) 0#W).getLsbD j
      = (decide (j < W) && decide (j < 64 * k) && (wd ws (a + j / 64)).getLsbD (j % 64)) := by
  induction k with
  | zero => intro j a; simp
  | succ k ih =>
    intro j a
    rw [List.range'_succ, List.foldr_cons, BitVec.getLsbD_or, BitVec.getLsbD_setWidth]
    by_cases hW : 64 < W
    · rw [if_pos hW, BitVec.getLsbD_shiftLeft, ih]
      by_cases hj : j < 64
      · have e1 : j / 64 = 0 := by omega
        have e2 : j % 64 = j := by omega
        have e3 : j < 64 * (k + 1) := by omega
        simp [hj, e1, e2, e3]
      · have e1 : a + 1 + (j - 64) / 64 = a + j / 64 := by omega
        have e2 : (j - 64) % 64 = j % 64 := by omega
        have e3 : (wd ws a).getLsbD j = false := BitVec.getLsbD_of_ge _ _ (by omega)
        have e4 : (j - 64 < 64 * k) ↔ (j < 64 * (k + 1)) := by omega
        rw [e1, e2, e3]
        by_cases hjW : j < W
        · have : j - 64 < W := by omega
          simp [hj, hjW, this, e4]
        · simp [hjW]
    · rw [if_neg hW]
      by_cases hjW : j < W
      · have e1 : j / 64 = 0 := by omega
        have e2 : j % 64 = j := by omega
        have e3 : j < 64 * (k + 1) := by omega
        simp [hjW, e1, e2, e3]
      · simp [hjW]

/-- holds for every target width `W` (in particular `W ≤ 64` and `W = 128`) -/
theorem Bvd.toUInt_spec (s : Raw 64) (W : Nat) (h : s.Inv) :
    Bvd.toUInt s W = if s.abs.sig ≤ W then .ok s.abs.val else .err "NotEnoughCapacity" := by
  have hw : 0 < 64 := by decide
  unfold Bvd.toUInt
  by_cases hs : s.abs.sig ≤ W
  · rw [if_neg (by rw [cnv_sig_le_iff s hw h]; exact not_not_intro hs), if_pos hs]
    have hv : s.abs.val < 2 ^ W := (BV.natBits_le_iff _ _).mp hs
    congr 1
    apply Nat.eq_of_testBit_eq
    intro j
    unfold forRangeRev
    rw [← BitVec.getLsbD, Nat.sub_zero, cnv_getLsbD_toUIntLoop, Nat.zero_add]
    have hb := Raw.abs_bit s j hw
    unfold BV.bit at hb
    rw [hb]
    have hcap := cnv_le_intLen_mul s.length 64 hw
    by_cases hjW : j < W
    · by_cases hjl : j < s.length
      · have : j < 64 * Bvd.capW s.length := by
          have : Bvd.capW s.length = (s.length + 64 - 1) / 64 := rfl
          omega
        simp [hjW, this, bitAt]
      · rw [h.2 j (by omega)]
        have := h.2 j (by omega)
        unfold bitAt at this
        rw [this]; simp
    · have : s.abs.val.testBit j = false :=
        Nat.testBit_lt_two_pow (Nat.lt_of_lt_of_le hv (Nat.pow_le_pow_right (by omega) (by omega)))
      rw [← hb, this]; simp [hjW]
  · rw [if_pos ((cnv_sig_le_iff s hw h W).mpr hs), if_neg hs]

-- ---- 3. `Bvf::try_from(uN)`, `Bvd::from(uN)` -------------------------------------------------------------
/-- refinement from a bit-level characterisation against a spec value -/
theorem cnv_refines_spec (t : Raw w) (spec : BV) (hw : 0 < w)
    (hl : t.length = spec.len) (hcap : t.length ≤ t.data.size * w) (hs : spec.WF)
    (hb : ∀ i, bitAt t.data i = spec.bit i) : t.Inv ∧ t.abs = spec := by
  refine ⟨⟨hcap, fun i hi => ?_⟩, ?_⟩
  · rw [hb]
    exact Nat.testBit_lt_two_pow (Nat.lt_of_lt_of_le hs (Nat.pow_le_pow_right (by omega) (by omega)))
  · apply BV.ext_bits hl
    intro i
    rw [Raw.abs_bit _ _ hw, hb]

/-- an array whose word `j` is `x >> (j·w)` truncated, for `j < n`, holds the bits of `x` below `n·w` -/
theorem cnv_bitAt_natWords (a : Array (BitVec w)) (n x : Nat) (hw : 0 < w)
    (ha : ∀ j, wd a j = if j < n then BitVec.ofNat w (x >>> (j * w)) else 0#w) (i : Nat) :
    bitAt a i = (decide (i < n * w) && x.testBit i) := by
  have hm := Nat.mod_lt i hw
  have hi := idx_eq (w := w) i
  have hcm : i / w * w = w * (i / w) := Nat.mul_comm _ _
  unfold bitAt
  rw [ha]
  by_cases hj : i / w < n
  · have h1 : i < n * w := by
      have := Nat.mul_le_mul_right w (Nat.succ_le_of_lt hj)
      rw [Nat.succ_mul] at this
      omega
    have e : i / w * w + i % w = i := by omega
    rw [if_pos hj, BitVec.getLsbD_ofNat, Nat.testBit_shiftRight, e]
    simp [hm, h1]
  · have h1 : ¬ i < n * w := by
      have := Nat.mul_le_mul_right w (Nat.le_of_not_lt hj)
      omega
    rw [if_neg hj]
    simp [h1]

theorem cnv_testBit_false {x n i : Nat} (hx : x < 2 ^ n) (hi : n ≤ i) : x.testBit i = false :=
  Nat.testBit_lt_two_pow (Nat.lt_of_lt_of_le hx (Nat.pow_le_pow_right (by omega) hi))

/-- as `cnv_bitAt_natWords`, when the `n` words cover `x` -/
theorem cnv_bitAt_natWords' (a : Array (BitVec w)) (n x : Nat) (hw : 0 < w) (hx : x < 2 ^ (n * w))
    (ha : ∀ j, wd a j = if j < n then BitVec.ofNat w (x >>> (j * w)) else 0#w) (i : Nat) :
    bitAt a i = x.testBit i := by
  rw [cnv_bitAt_natWords a n x hw ha]
  by_cases h : i < n * w
  · simp [h]
  · rw [cnv_testBit_false hx (by omega)]; simp

/-- `TryFrom<uN> for Bvf<I,N>` (`N ≥ 1`): capacity error exactly when the value needs more than `N·w` bits;
otherwise the result has length `min W (N·w)` and value `x` -/
theorem Bvf.fromUInt_spec (N W x : Nat) (hw : 0 < w) (hN : 1 ≤ N) (hx : x < 2 ^ W) :
    (N * w < BV.natBits x → Bvf.fromUInt w N W x = .err "NotEnoughCapacity") ∧
    (¬ N * w < BV.natBits x →
      ∃ r, Bvf.fromUInt w N W x = .ok r ∧ r.Inv ∧ r.abs = ⟨min W (N * w), x⟩ ∧ r.data.size = N) := by
  have hNw : w ≤ N * w := Nat.le_mul_of_pos_left w hN
  have hbits : BV.natBits x ≤ W := (BV.natBits_le_iff _ _).mpr hx
  unfold Bvf.fromUInt
  by_cases hWw : W ≤ w
  · rw [if_pos hWw]
    refine ⟨fun h => by omega, fun _ => ⟨_, rfl, ?_⟩⟩
    have hsz : ((Array.replicate N 0#w).setIfInBounds 0 (BitVec.ofNat w x)).size = N := by simp
    have hmin : min W (N * w) = W := by omega
    have key := cnv_refines_spec ⟨(Array.replicate N 0#w).setIfInBounds 0 (BitVec.ofNat w x), W⟩
      ⟨min W (N * w), x⟩ hw hmin.symm (by rw [hsz]; show W ≤ N * w; omega)
      (by show x < 2 ^ min W (N * w); rw [hmin]; exact hx)
      (cnv_bitAt_natWords' _ 1 x hw
        (Nat.lt_of_lt_of_le hx (Nat.pow_le_pow_right (by omega) (by omega))) (by
        intro j
        rw [Edit.wd_setIfInBounds, Edit.wd_replicate]
        simp only [Array.size_replicate]
        by_cases hj : j < 1
        · have : j = 0 := by omega
          subst this
          have : 0 < N := hN
          simp [this]
        · have : ¬ (0 = j) := by omega
          simp [hj, this]))
    exact ⟨key.1, key.2, hsz⟩
  · rw [if_neg hWw]
    refine ⟨fun h => by rw [if_pos h], fun h => ?_⟩
    rw [if_neg h]
    refine ⟨_, rfl, ?_⟩
    have hsz : (Array.ofFn (n := N) fun i => BitVec.ofNat w (x >>> (i.val * w))).size = N := by simp
    have hxN : x < 2 ^ (N * w) := (BV.natBits_le_iff _ _).mp (by omega)
    have key := cnv_refines_spec
      ⟨Array.ofFn (n := N) fun i => BitVec.ofNat w (x >>> (i.val * w)), min W (N * w)⟩
      ⟨min W (N * w), x⟩ hw rfl (by rw [hsz]; exact Nat.min_le_right _ _)
      (by
        show x < 2 ^ min W (N * w)
        rw [Nat.min_def]; split <;> assumption)
      (cnv_bitAt_natWords' _ N x hw hxN (by
        intro j
        rw [Edit.wd_ofFn]
        by_cases hj : j < N <;> simp [hj]))
    exact ⟨key.1, key.2, hsz⟩

/-- `From<uN> for Bvd` (`W ∈ {8,16,32,64,128}`, more generally `W ≤ 64` or a multiple of 64) -/
theorem Bvd.fromUInt_refines (W x : Nat) (hW : W ≤ 64 ∨ 64 ∣ W) (hx : x < 2 ^ W) :
    (Bvd.fromUInt W x).Inv ∧ (Bvd.fromUInt W x).abs = ⟨W, x⟩ := by
  have hw : 0 < 64 := by decide
  unfold Bvd.fromUInt
  by_cases hWw : W ≤ 64
  · rw [if_pos hWw]
    exact cnv_refines_spec ⟨#[BitVec.ofNat 64 x], W⟩ ⟨W, x⟩ hw rfl (by show W ≤ 1 * 64; omega) hx
      (cnv_bitAt_natWords' _ 1 x hw
        (Nat.lt_of_lt_of_le hx (Nat.pow_le_pow_right (by omega) (by omega))) (by
        intro j
        by_cases hj : j < 1
        · have : j = 0 := by omega
          subst this
          simp [wd]
        · have : 1 ≤ j := by omega
          rw [Edit.wd_oob _ _ (by simpa using this), if_neg hj]))
  · rw [if_neg hWw]
    have hd : 64 ∣ W := by
      rcases hW with h | h
      · exact absurd h hWw
      · exact h
    have hmul : W / 64 * 64 = W := Nat.div_mul_cancel hd
    have hsz : (Array.ofFn (n := W / 64) fun i => BitVec.ofNat 64 (x >>> (64 * i.val))).size
        = W / 64 := by simp
    exact cnv_refines_spec
      ⟨Array.ofFn (n := W / 64) fun i => BitVec.ofNat 64 (x >>> (64 * i.val)), W⟩ ⟨W, x⟩ hw rfl
      (by rw [hsz, hmul]; exact Nat.le_refl _) hx
      (cnv_bitAt_natWords' _ (W / 64) x hw (by rw [hmul]; exact hx) (by
        intro j
        rw [Edit.wd_ofFn]
        by_cases hj : j < W / 64
        · simp [hj, Nat.mul_comm]
        · simp [hj]))

-- ---- 5. `Bvf::try_from(&[J])`, `Bvd::from(&[J])` ---------------------------------------------------------
/-- `Raw.setInt_bits` with the chunk condition written as `i / wJ = idx` -/
theorem cnv_setInt_bits {wJ : Nat} (s : Raw w) (hc : Compat w wJ) (h : s.Inv) (idx : Nat)
    (v : BitVec wJ) (i : Nat) :
    bitAt (s.setInt wJ idx v).data i
      = if i / wJ = idx ∧ i < s.length then v.getLsbD (i % wJ) else bitAt s.data i := by
  have hJ := hc.2.1
  rw [Raw.setInt_bits s hc h]
  have hi := idx_eq (w := wJ) i
  have hm := Nat.mod_lt i hJ
  have c1 : idx * wJ ≤ i ↔ idx ≤ i / wJ := (Nat.le_div_iff_mul_le hJ).symm
  have c2 : i < (idx + 1) * wJ ↔ i / wJ < idx + 1 := (Nat.div_lt_iff_lt_mul hJ).symm
  by_cases hq : i / wJ = idx
  · by_cases hl : i < s.length
    · have e : i - idx * wJ = i % wJ := by
        have : idx * wJ = wJ * (i / wJ) := by rw [hq, Nat.mul_comm]
        omega
      rw [if_pos ⟨c1.mpr (by omega), c2.mpr (by omega), hl⟩, if_pos ⟨hq, hl⟩, e]
    · rw [if_neg (by omega), if_neg (by omega)]
  · have : ¬ (idx * wJ ≤ i ∧ i < (idx + 1) * wJ ∧ i < s.length) := by
      rintro ⟨h1, h2, _⟩
      have := c1.mp h1
      have := c2.mp h2
      omega
    rw [if_neg this, if_neg (by omega)]

/-- the loop `for (i, x) in slice.iter().enumerate() { v.set_int(a + i, x) }` -/
def cnv_fill (wJ : Nat) (s : Raw w) (a : Nat) (xs : List Nat) : Raw w :=
  ((List.range' a xs.length).zip xs).foldl
    (fun (r : Raw w) (p : Nat × Nat) => r.setInt wJ p.1 (BitVec.ofNat wJ p.2)) s

theorem cnv_fill_spec {wJ : Nat} (hc : Compat w wJ) : ∀ (xs : List Nat) (a : Nat) (s : Raw w), s.Inv →
    (cnv_fill wJ s a xs).Inv ∧ (cnv_fill wJ s a xs).length = s.length ∧
    (cnv_fill wJ s a xs).data.size = s.data.size ∧
    ∀ i, bitAt (cnv_fill wJ s a xs).data i
      = if a ≤ i / wJ ∧ i / wJ < a + xs.length ∧ i < s.length
        then (BitVec.ofNat wJ (xs.getD (i / wJ - a) 0)).getLsbD (i % wJ) else bitAt s.data i := by
  intro xs
  induction xs with
  | nil =>
    intro a s hs
    refine ⟨hs, rfl, rfl, fun i => ?_⟩
    rw [if_neg (by simp only [List.length_nil]; omega)]
    rfl
  | cons x xs ih =>
    intro a s hs
    have e : cnv_fill wJ s a (x :: xs)
        = cnv_fill wJ (s.setInt wJ a (BitVec.ofNat wJ x)) (a + 1) xs := by
      unfold cnv_fill
      rw [List.length_cons, List.range'_succ, List.zip_cons_cons, List.foldl_cons]
    obtain ⟨i1, i2, i3, i4⟩ := ih (a + 1) (s.setInt wJ a (BitVec.ofNat wJ x))
      (Raw.setInt_inv s hc hs a _)
    rw [e]
    refine ⟨i1, by rw [i2, Raw.setInt_length], by rw [i3, Raw.setInt_size], fun i => ?_⟩
    rw [i4, Raw.setInt_length, cnv_setInt_bits s hc hs]
    simp only [List.length_cons]
    by_cases hl : i < s.length
    · by_cases h1 : a + 1 ≤ i / wJ ∧ i / wJ < a + 1 + xs.length
      · have e2 : i / wJ - a = (i / wJ - (a + 1)) + 1 := by omega
        rw [if_pos ⟨h1.1, h1.2, hl⟩, if_pos ⟨by omega, by omega, hl⟩, e2, List.getD_cons_succ]
      · rw [if_neg (by omega)]
        by_cases h2 : i / wJ = a
        · have e2 : i / wJ - a = 0 := by omega
          rw [if_pos ⟨h2, hl⟩, if_pos ⟨by omega, by omega, hl⟩, e2, List.getD_cons_zero]
        · rw [if_neg (by omega), if_neg (by omega)]
    · rw [if_neg (by omega), if_neg (by omega), if_neg (by omega)]

/-- value of a slice of `wJ`-bit integers read little-endian: `Σ_j (x_j mod 2^wJ)·2^(wJ·j)` -/
def cnv_sliceVal (wJ : Nat) (xs : List Nat) : Nat :=
  valF (fun i => BitVec.ofNat wJ (xs.getD i 0)) xs.length

theorem cnv_fill_zero {wJ : Nat} (hc : Compat w wJ) (xs : List Nat) (z : Raw w)
    (hl : z.length = xs.length * wJ) (hcap : z.length ≤ z.data.size * w)
    (hz : ∀ i, bitAt z.data i = false) :
    (cnv_fill wJ z 0 xs).Inv ∧ (cnv_fill wJ z 0 xs).abs = ⟨xs.length * wJ, cnv_sliceVal wJ xs⟩ ∧
    (cnv_fill wJ z 0 xs).data.size = z.data.size := by
  have hJ := hc.2.1
  obtain ⟨i1, i2, i3, i4⟩ := cnv_fill_spec hc xs 0 z ⟨hcap, fun i _ => hz i⟩
  refine ⟨i1, ?_, i3⟩
  apply BV.ext_bits
  · show (cnv_fill wJ z 0 xs).length = _
    rw [i2, hl]
  · intro i
    rw [Raw.abs_bit _ _ hc.1, i4, hz]
    unfold BV.bit cnv_sliceVal
    simp only
    rw [testBit_valF hJ]
    have c : i < wJ * xs.length ↔ i / wJ < xs.length := by
      rw [Nat.mul_comm]; exact (Nat.div_lt_iff_lt_mul hJ).symm
    by_cases hq : i / wJ < xs.length
    · have h1 : i < z.length := by rw [hl, Nat.mul_comm]; exact c.mpr hq
      rw [if_pos ⟨Nat.zero_le _, by omega, h1⟩, decide_eq_true (c.mpr hq), Nat.sub_zero]
      simp
    · have h1 : ¬ i < wJ * xs.length := fun h => hq (c.mp h)
      rw [if_neg (by omega), decide_eq_false h1]
      simp

/-- `TryFrom<&[J]> for Bvf<I,N>`: capacity error exactly when the slice has more bits than the capacity -/
theorem Bvf.fromSlice_spec {wJ : Nat} (N : Nat) (xs : List Nat) (hc : Compat w wJ) :
    (N * w < xs.length * wJ → Bvf.fromSlice w N wJ xs = .err "NotEnoughCapacity") ∧
    (¬ N * w < xs.length * wJ →
      ∃ r, Bvf.fromSlice w N wJ xs = .ok r ∧ r.Inv ∧
        r.abs = ⟨xs.length * wJ, cnv_sliceVal wJ xs⟩ ∧ r.data.size = N) := by
  unfold Bvf.fromSlice
  refine ⟨fun h => by rw [if_neg (by omega)], fun h => ?_⟩
  rw [if_pos (by omega)]
  refine ⟨_, rfl, ?_⟩
  have key := cnv_fill_zero hc xs ⟨Array.replicate N 0#w, xs.length * wJ⟩ rfl
    (by simp only [Array.size_replicate]; omega)
    (fun i => by unfold bitAt; rw [Edit.wd_replicate]; split <;> simp)
  unfold cnv_fill at key
  rw [← List.range_eq_range'] at key
  simpa using key

/-- `From<&[I]> for Bvd` -/
theorem Bvd.fromSlice_refines {wJ : Nat} (xs : List Nat) (hc : Compat 64 wJ) :
    (Bvd.fromSlice wJ xs).Inv ∧ (Bvd.fromSlice wJ xs).abs = ⟨xs.length * wJ, cnv_sliceVal wJ xs⟩ := by
  unfold Bvd.fromSlice
  have key := cnv_fill_zero hc xs (Bvd.zeros (xs.length * wJ)) rfl
    (by
      show xs.length * wJ ≤ (Array.replicate _ _).size * 64
      rw [Array.size_replicate]
      exact cnv_le_intLen_mul _ 64 (by decide))
    (fun i => by unfold bitAt Bvd.zeros; rw [Edit.wd_replicate]; split <;> simp)
  unfold cnv_fill at key
  rw [← List.range_eq_range'] at key
  exact ⟨key.1, key.2.1⟩

/-- `Σ_j x_j·2^(wJ·j)` by recursion on the list (head = least significant element) -/
def cnv_sliceSum (wJ : Nat) : List Nat → Nat
  | [] => 0
  | x :: xs => x + 2 ^ wJ * cnv_sliceSum wJ xs

theorem cnv_valF_shift {wJ : Nat} (g : Nat → BitVec wJ) (n : Nat) :
    valF g (n + 1) = (g 0).toNat + 2 ^ wJ * valF (fun i => g (i + 1)) n := by
  induction n with
  | zero => simp [valF]
  | succ n ih =>
    have e : 2 ^ (wJ * (n + 1)) = 2 ^ wJ * 2 ^ (wJ * n) := by
      rw [Nat.mul_succ, Nat.pow_add, Nat.mul_comm]
    show valF g (n + 1) + 2 ^ (wJ * (n + 1)) * (g (n + 1)).toNat
      = (g 0).toNat + 2 ^ wJ * (valF (fun i => g (i + 1)) n + 2 ^ (wJ * n) * (g (n + 1)).toNat)
    rw [ih, e, Nat.mul_add, Nat.mul_assoc]
    omega

/-- for elements that fit in `wJ` bits, `cnv_sliceVal` is the plain sum `Σ_j x_j·2^(wJ·j)` -/
theorem cnv_sliceVal_eq_sum (wJ : Nat) (xs : List Nat) (hx : ∀ x ∈ xs, x < 2 ^ wJ) :
    cnv_sliceVal wJ xs = cnv_sliceSum wJ xs := by
  induction xs with
  | nil => rfl
  | cons x xs ih =>
    unfold cnv_sliceVal
    rw [List.length_cons, cnv_valF_shift]
    simp only [List.getD_cons_zero, List.getD_cons_succ, BitVec.toNat_ofNat]
    rw [Nat.mod_eq_of_lt (hx x (List.mem_cons_self ..))]
    have := ih (fun y hy => hx y (List.mem_cons_of_mem _ hy))
    unfold cnv_sliceVal at this
    rw [this]
    rfl

end Bva
