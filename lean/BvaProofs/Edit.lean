import BvaProofs.Base
import BvaModel.Dynamic
/-!
# T7a — element edits and resizing: `set`, `pop`, `shrink`, `grow`, `push`, `resize`, `zeros`, `ones`,
`reserve`, `shrinkToFit`, `withCapacity`
-/
namespace Bva
variable {w : Nat}

-- Generic helper lemmas live under `Bva.Edit.` so that they cannot clash with other proof files.

-- ---- word-level reads of updated arrays -------------------------------------------------------------
theorem Edit.wd_setIfInBounds (ws : Array (BitVec w)) (j i : Nat) (x : BitVec w) :
    wd (ws.setIfInBounds j x) i = if j = i ∧ j < ws.size then x else wd ws i := by
  unfold wd
  simp only [Array.getD_eq_getD_getElem?, Array.getElem?_setIfInBounds]
  by_cases h : j = i
  · subst h
    by_cases h2 : j < ws.size
    · simp [h2]
    · simp [h2]
  · simp [h]

theorem Edit.wd_modify (ws : Array (BitVec w)) (j i : Nat) (f : BitVec w → BitVec w) :
    wd (ws.modify j f) i = if j = i ∧ j < ws.size then f (wd ws i) else wd ws i := by
  unfold wd
  simp only [Array.getD_eq_getD_getElem?, Array.getElem?_modify]
  by_cases h : j = i
  · subst h
    by_cases h2 : j < ws.size
    · simp [h2]
    · simp [h2]
  · simp [h]

theorem Edit.wd_replicate (n i : Nat) (x : BitVec w) :
    wd (Array.replicate n x) i = if i < n then x else 0#w := by
  unfold wd
  simp only [Array.getD_eq_getD_getElem?, Array.getElem?_replicate]
  by_cases h : i < n <;> simp [h]

theorem Edit.wd_ofFn (n i : Nat) (f : Fin n → BitVec w) :
    wd (Array.ofFn f) i = if h : i < n then f ⟨i, h⟩ else 0#w := by
  unfold wd
  simp only [Array.getD_eq_getD_getElem?, Array.getElem?_ofFn]
  by_cases h : i < n <;> simp [h]

theorem Edit.wd_oob (ws : Array (BitVec w)) (i : Nat) (h : ws.size ≤ i) : wd ws i = 0#w := by
  unfold wd
  simp [Array.getD_eq_getD_getElem?, Array.getElem?_eq_none h]

theorem Edit.bitAt_def (ws : Array (BitVec w)) (i : Nat) : bitAt ws i = (wd ws (i / w)).getLsbD (i % w) := rfl

/-- `for i in a..b { data[i] = x }` -/
theorem Edit.forRange_fill (a b : Nat) (x : BitVec w) (ws : Array (BitVec w)) :
    (forRange a b (fun i a => a.setIfInBounds i x) ws).size = ws.size ∧
    ∀ i, wd (forRange a b (fun i a => a.setIfInBounds i x) ws) i =
      if a ≤ i ∧ i < b ∧ i < ws.size then x else wd ws i := by
  unfold forRange
  have key : ∀ k, (List.foldl (fun s i => s.setIfInBounds i x) ws (List.range' a k)).size = ws.size ∧
      ∀ i, wd (List.foldl (fun s i => s.setIfInBounds i x) ws (List.range' a k)) i =
        if a ≤ i ∧ i < a + k ∧ i < ws.size then x else wd ws i := by
    intro k
    induction k with
    | zero =>
      refine ⟨by simp, fun i => ?_⟩
      have : ¬ (a ≤ i ∧ i < a + 0 ∧ i < ws.size) := by omega
      rw [if_neg this]; simp
    | succ k ih =>
      rw [List.range'_concat, List.foldl_append]
      simp only [List.foldl_cons, List.foldl_nil, Nat.one_mul]
      refine ⟨by simp [ih.1], fun i => ?_⟩
      rw [Edit.wd_setIfInBounds, ih.1, ih.2 i]
      by_cases h1 : a + k = i ∧ a + k < ws.size
      · have : a ≤ i ∧ i < a + (k + 1) ∧ i < ws.size := by omega
        simp [h1, this]
      · by_cases h2 : a ≤ i ∧ i < a + k ∧ i < ws.size
        · have : a ≤ i ∧ i < a + (k + 1) ∧ i < ws.size := by omega
          simp [h1, h2, this]
        · have : ¬ (a ≤ i ∧ i < a + (k + 1) ∧ i < ws.size) := by omega
          simp [h1, h2, this]
  obtain ⟨h1, h2⟩ := key (b - a)
  refine ⟨h1, fun i => ?_⟩
  rw [h2 i]
  by_cases h : a ≤ i ∧ i < b ∧ i < ws.size
  · have : a ≤ i ∧ i < a + (b - a) ∧ i < ws.size := by omega
    simp [h, this]
  · have : ¬ (a ≤ i ∧ i < a + (b - a) ∧ i < ws.size) := by omega
    simp [h, this]

-- ---- set ----------------------------------------------------------------------------------------------
theorem Edit.getLsbD_b2w (b : Bool) (k : Nat) (hw : 0 < w) : (b2w w b).getLsbD k = (decide (k = 0) && b) := by
  unfold b2w
  cases b <;> simp [BitVec.getLsbD_one, hw]

theorem Raw.size_set (s : Raw w) (i : Nat) (b : Bool) : (s.set i b).data.size = s.data.size := by
  simp [Raw.set]

theorem Raw.length_set (s : Raw w) (i : Nat) (b : Bool) : (s.set i b).length = s.length := rfl

/-- bit form of `set` (needs only that the word exists) -/
theorem Raw.bitAt_set (s : Raw w) (i j : Nat) (b : Bool) (hw : 0 < w) (hi : i < s.data.size * w) :
    bitAt (s.set i b).data j = if j = i then b else bitAt s.data j := by
  have hin : i / w < s.data.size := (Nat.div_lt_iff_lt_mul hw).mpr hi
  have mi := Nat.mod_lt i hw
  have mj := Nat.mod_lt j hw
  have ei := idx_eq (w := w) i
  have ej := idx_eq (w := w) j
  unfold Raw.set
  simp only [Edit.bitAt_def, Edit.wd_setIfInBounds]
  by_cases hd : i / w = j / w
  · rw [if_pos ⟨hd, hin⟩]
    simp only [BitVec.getLsbD_or, BitVec.getLsbD_and, BitVec.getLsbD_not, BitVec.getLsbD_shiftLeft,
      BitVec.getLsbD_one, Edit.getLsbD_b2w _ _ hw]
    rw [hd] at ei
    by_cases hm : j % w = i % w
    · have : j = i := by omega
      simp [this, mi, hw]
    · have hne : ¬ j = i := by intro h; apply hm; rw [h]
      rw [if_neg hne, hd]
      by_cases hlt : j % w < i % w
      · simp [hlt, mj]
      · have : ¬ (j % w - i % w = 0) := by omega
        simp [this, mj]
  · have hne : ¬ j = i := by intro h; apply hd; rw [h]
    rw [if_neg (fun h => hd h.1), if_neg hne]

theorem Edit.testBit_setBit (v i j : Nat) (b : Bool) :
    (v - (v.testBit i).toNat * 2 ^ i + b.toNat * 2 ^ i).testBit j = if j = i then b else v.testBit j := by
  have hl : v % 2 ^ i < 2 ^ i := Nat.mod_lt _ (Nat.two_pow_pos i)
  have e1 : v = 2 ^ i * (v / 2 ^ i) + v % 2 ^ i := (Nat.div_add_mod v (2 ^ i)).symm
  have e2 : v / 2 ^ i = 2 * (v / 2 ^ i / 2) + v / 2 ^ i % 2 := (Nat.div_add_mod _ 2).symm
  have hc : v.testBit i = decide (v / 2 ^ i % 2 = 1) := Nat.testBit_eq_decide_div_mod_eq
  have e3 : 2 ^ i * (v / 2 ^ i) = 2 * (2 ^ i * (v / 2 ^ i / 2)) + 2 ^ i * (v / 2 ^ i % 2) := by
    conv => lhs; rw [e2]
    rw [Nat.mul_add, Nat.mul_left_comm]
  have key : v - (v.testBit i).toNat * 2 ^ i + b.toNat * 2 ^ i
      = 2 ^ i * (2 * (v / 2 ^ i / 2) + b.toNat) + v % 2 ^ i := by
    rw [Nat.mul_add, Nat.mul_left_comm, hc]
    have hm : v / 2 ^ i % 2 < 2 := Nat.mod_lt _ (by omega)
    by_cases h1 : v / 2 ^ i % 2 = 1
    · rw [h1] at e3
      cases b <;> simp [h1] <;> omega
    · have h0 : v / 2 ^ i % 2 = 0 := by omega
      rw [h0] at e3
      cases b <;> simp [h0] <;> omega
  rw [key, Nat.testBit_two_pow_mul_add _ hl]
  by_cases hlt : j < i
  · have : ¬ j = i := by omega
    rw [if_pos hlt, if_neg this, Nat.testBit_mod_two_pow]
    simp [hlt]
  · rw [if_neg hlt]
    by_cases hji : j = i
    · subst hji
      rw [if_pos rfl, Nat.sub_self, Nat.testBit_zero]
      cases b <;> simp <;> omega
    · rw [if_neg hji]
      have : j - i = (j - i - 1).succ := by omega
      rw [this, Nat.testBit_succ]
      have hb : b.toNat < 2 := by cases b <;> simp
      have : (2 * (v / 2 ^ i / 2) + b.toNat) / 2 = v / 2 ^ i / 2 := by omega
      rw [this, Nat.div_div_eq_div_mul, ← Nat.pow_succ, Nat.testBit_div_two_pow]
      congr 1; omega

theorem Raw.set_refines (s : Raw w) (i : Nat) (b : Bool) (hw : 0 < w) (h : s.Inv) (hi : i < s.length) :
    (s.set i b).Inv ∧ (s.set i b).abs = s.abs.set i b ∧ (s.set i b).data.size = s.data.size := by
  have hc : i < s.data.size * w := Nat.lt_of_lt_of_le hi h.1
  refine ⟨⟨?_, ?_⟩, ?_, Raw.size_set s i b⟩
  · rw [Raw.size_set, Raw.length_set]; exact h.1
  · intro j hj
    rw [Raw.length_set] at hj
    rw [Raw.bitAt_set s i j b hw hc, if_neg (by omega)]
    exact h.2 j hj
  · refine BV.ext_bits (by rfl) ?_
    intro j
    rw [Raw.abs_bit _ _ hw, Raw.bitAt_set s i j b hw hc]
    unfold BV.set BV.bit
    simp only
    rw [Edit.testBit_setBit]
    have := Raw.abs_bit s j hw
    unfold BV.bit at this
    rw [this]

-- ---- pop ----------------------------------------------------------------------------------------------
theorem Raw.pop_refines (s : Raw w) (hw : 0 < w) (h : s.Inv) :
    (s.pop.1).Inv ∧ (s.pop.1.abs, s.pop.2) = s.abs.pop ∧ s.pop.1.data.size = s.data.size := by
  unfold Raw.pop BV.pop
  by_cases h0 : s.length > 0
  · have hne : ¬ s.abs.len = 0 := by rw [Raw.abs_len]; omega
    have hc : s.length - 1 < s.data.size * w := by have := h.1; omega
    rw [if_pos h0, if_neg hne]
    simp only
    refine ⟨⟨?_, ?_⟩, ?_, Raw.size_set _ _ _⟩
    · show s.length - 1 ≤ (s.set (s.length - 1) false).data.size * w
      rw [Raw.size_set]; have := h.1; omega
    · intro j hj
      have hj : s.length - 1 ≤ j := hj
      show bitAt (s.set (s.length - 1) false).data j = false
      rw [Raw.bitAt_set s _ j false hw hc]
      by_cases hj2 : j = s.length - 1
      · rw [if_pos hj2]
      · rw [if_neg hj2]; exact h.2 j (by omega)
    · congr 1
      · refine BV.ext_bits (by rfl) ?_
        intro j
        rw [Raw.abs_bit _ _ hw]
        simp only
        rw [Raw.bitAt_set s _ j false hw hc]
        unfold BV.bit
        simp only [Raw.abs_len]
        rw [Nat.testBit_mod_two_pow]
        have hb := Raw.abs_bit s j hw
        unfold BV.bit at hb
        rw [hb]
        by_cases hj2 : j = s.length - 1
        · have : ¬ j < s.length - 1 := by omega
          simp [hj2]
        · rw [if_neg hj2]
          by_cases hj3 : j < s.length - 1
          · simp [hj3]
          · rw [h.2 j (by omega)]; simp
      · rw [Raw.get_eq_bitAt, Raw.abs_bit _ _ hw]; rfl
  · have he : s.abs.len = 0 := by rw [Raw.abs_len]; omega
    rw [if_neg h0, if_pos he]
    exact ⟨h, rfl, rfl⟩

-- ---- capacity arithmetic ---------------------------------------------------------------------------
theorem Edit.cap_le_iff (n c : Nat) (hw : 0 < w) : capFromBitLen w n ≤ c ↔ n ≤ c * w := by
  unfold capFromBitLen
  rw [Nat.div_le_iff_le_mul_add_pred hw]
  have : w * c = c * w := Nat.mul_comm _ _
  omega

theorem Edit.le_cap_mul (n : Nat) (hw : 0 < w) : n ≤ capFromBitLen w n * w :=
  (Edit.cap_le_iff n _ hw).mp (Nat.le_refl _)

theorem Edit.cap_le_succ (n : Nat) (hw : 0 < w) : capFromBitLen w n ≤ n / w + 1 := by
  rw [Edit.cap_le_iff n _ hw]
  have := idx_eq (w := w) n
  have := Nat.mod_lt n hw
  have : (n / w + 1) * w = w * (n / w) + w := by rw [Nat.add_mul, Nat.one_mul, Nat.mul_comm]
  omega

theorem Edit.div_lt_cap (i n : Nat) (hw : 0 < w) (h : i < n) : i / w < capFromBitLen w n := by
  rw [Nat.div_lt_iff_lt_mul hw]
  exact Nat.lt_of_lt_of_le h (Edit.le_cap_mul n hw)

-- ---- shrink ----------------------------------------------------------------------------------------------
theorem Raw.size_shrink (s : Raw w) (n : Nat) : (s.shrink n).data.size = s.data.size := by
  unfold Raw.shrink
  simp only [size_maskAt]
  exact (Edit.forRange_fill _ _ _ _).1

theorem Raw.bitAt_shrink (s : Raw w) (n i : Nat) (hw : 0 < w) (h : s.Inv) :
    bitAt (s.shrink n).data i = (bitAt s.data i && decide (i < n)) := by
  unfold Raw.shrink
  simp only
  obtain ⟨hs, hwd⟩ := Edit.forRange_fill (n / w + 1) (capFromBitLen w s.length) (0#w) s.data
  have hz : ∀ j, (n / w + 1) * w ≤ j →
      bitAt (forRange (n / w + 1) (capFromBitLen w s.length) (fun i a => a.setIfInBounds i 0#w) s.data) j
        = false := by
    intro j hj
    rw [Edit.bitAt_def, hwd]
    split
    · simp
    · rename_i hnot
      have h1 : n / w + 1 ≤ j / w := (Nat.le_div_iff_mul_le hw).mpr hj
      apply h.2
      by_cases hc : capFromBitLen w s.length ≤ j / w
      · have := (Nat.le_div_iff_mul_le hw).mp hc
        have := Edit.le_cap_mul s.length hw
        omega
      · have : s.data.size ≤ j / w := by omega
        have := (Nat.le_div_iff_mul_le hw).mp this
        have := h.1
        omega
  rw [bitAt_maskAt _ _ _ hw hz]
  by_cases hi : i < n
  · have : i / w ≤ n / w := Nat.div_le_div_right (Nat.le_of_lt hi)
    rw [Edit.bitAt_def, hwd, if_neg (by omega)]
    rfl
  · simp [hi]

theorem Raw.shrink_refines (s : Raw w) (n : Nat) (b : Bool) (hw : 0 < w) (h : s.Inv) (hn : n ≤ s.length) :
    (s.shrink n).Inv ∧ (s.shrink n).abs = s.abs.resize n b ∧ (s.shrink n).data.size = s.data.size := by
  refine ⟨⟨?_, ?_⟩, ?_, Raw.size_shrink s n⟩
  · rw [Raw.size_shrink]; have := h.1; exact Nat.le_trans hn this
  · intro j hj
    have hj : n ≤ j := hj
    rw [Raw.bitAt_shrink s n j hw h]
    have : ¬ j < n := by omega
    simp [this]
  · refine BV.ext_bits ?_ ?_
    · unfold BV.resize; rw [if_pos (by rw [Raw.abs_len]; exact hn)]; rfl
    · intro j
      rw [Raw.abs_bit _ _ hw, Raw.bitAt_shrink s n j hw h]
      unfold BV.resize
      rw [if_pos (by rw [Raw.abs_len]; exact hn)]
      unfold BV.bit
      simp only
      rw [Nat.testBit_mod_two_pow]
      have hb := Raw.abs_bit s j hw
      unfold BV.bit at hb
      rw [hb, Bool.and_comm]

-- ---- grow ------------------------------------------------------------------------------------------------
theorem Edit.getLsbD_sign (b : Bool) (k : Nat) :
    (if b then BitVec.allOnes w else 0#w).getLsbD k = (decide (k < w) && b) := by
  cases b <;> simp

theorem Raw.size_grow (s : Raw w) (n : Nat) (b : Bool) : (s.grow n b).data.size = s.data.size := by
  unfold Raw.grow
  simp only [size_maskAt]
  rw [(Edit.forRange_fill _ _ _ _).1]
  simp

/-- the storage after the two fill steps of `grow`, before the final mask -/
theorem Edit.grow_fill_bits (s : Raw w) (n j : Nat) (sign : BitVec w) (b : Bool) (hw : 0 < w) (h : s.Inv)
    (hsign : ∀ k, sign.getLsbD k = (decide (k < w) && b))
    (h1 : s.length < n) (h2 : n ≤ s.data.size * w) :
    bitAt (forRange (s.length / w + 1) (capFromBitLen w n) (fun i a => a.setIfInBounds i sign)
        (s.data.modify (s.length / w) (· ||| (sign &&& ~~~ mask w (s.length % w))))) j
      = if j < s.length then bitAt s.data j
        else (b && decide (j / w < capFromBitLen w n ∧ j / w < s.data.size)) := by
  obtain ⟨_, hwd⟩ := Edit.forRange_fill (s.length / w + 1) (capFromBitLen w n) sign
    (s.data.modify (s.length / w) (· ||| (sign &&& ~~~ mask w (s.length % w))))
  have hsz : (s.data.modify (s.length / w) (· ||| (sign &&& ~~~ mask w (s.length % w)))).size
      = s.data.size := by simp
  have mj := Nat.mod_lt j hw
  have key := lt_iff_div_mod hw j s.length
  have hlw : s.length / w < s.data.size := (Nat.div_lt_iff_lt_mul hw).mpr (by omega)
  have hlc : s.length / w < capFromBitLen w n := Edit.div_lt_cap _ _ hw h1
  rw [Edit.bitAt_def, hwd, hsz, Edit.wd_modify]
  by_cases hlt : j / w < s.length / w
  · have hj : j < s.length := key.mpr (Or.inl hlt)
    rw [if_neg (by omega), if_neg (by omega), if_pos hj]; rfl
  · by_cases heq : j / w = s.length / w
    · rw [if_neg (by omega), if_pos ⟨heq.symm, hlw⟩]
      simp only [BitVec.getLsbD_or, BitVec.getLsbD_and, BitVec.getLsbD_not, getLsbD_mask, hsign]
      by_cases hm : j % w < s.length % w
      · have hj : j < s.length := key.mpr (Or.inr ⟨heq, hm⟩)
        rw [if_pos hj]
        simp [hm, mj]; rfl
      · have hj : ¬ j < s.length := by rw [key]; omega
        rw [if_neg hj]
        have hf : bitAt s.data j = false := h.2 j (by omega)
        rw [Edit.bitAt_def] at hf
        have hc : j / w < capFromBitLen w n ∧ j / w < s.data.size := by omega
        rw [hf]; simp [hm, mj, hc]
    · have hj : ¬ j < s.length := by rw [key]; omega
      rw [if_neg hj]
      by_cases hc : j / w < capFromBitLen w n ∧ j / w < s.data.size
      · rw [if_pos (by omega), hsign]
        simp [mj, hc]
      · rw [if_neg (by omega), if_neg (by omega)]
        have hf : bitAt s.data j = false := h.2 j (by omega)
        rw [Edit.bitAt_def] at hf
        rw [hf]; simp [hc]

theorem Raw.bitAt_grow (s : Raw w) (n i : Nat) (b : Bool) (hw : 0 < w) (h : s.Inv)
    (h1 : s.length < n) (h2 : n ≤ s.data.size * w) :
    bitAt (s.grow n b).data i = if i < s.length then bitAt s.data i else (b && decide (i < n)) := by
  unfold Raw.grow
  simp only
  have hfill := fun j => Edit.grow_fill_bits s n j (if b then BitVec.allOnes w else 0#w) b hw h
    (Edit.getLsbD_sign b) h1 h2
  rw [bitAt_maskAt _ _ _ hw]
  · rw [hfill]
    by_cases hi : i < s.length
    · have : i < n := by omega
      simp [hi, this]
    · rw [if_neg hi, if_neg hi]
      by_cases hn : i < n
      · have h3 : i / w < capFromBitLen w n := Edit.div_lt_cap _ _ hw hn
        have h4 : i / w < s.data.size := (Nat.div_lt_iff_lt_mul hw).mpr (by omega)
        simp [hn, h3, h4]
      · simp [hn]
  · intro j hj
    rw [hfill]
    have hjw : n / w + 1 ≤ j / w := (Nat.le_div_iff_mul_le hw).mpr hj
    have := Edit.cap_le_succ n hw
    have hnj : n ≤ j := by
      have := idx_eq (w := w) n
      have := Nat.mod_lt n hw
      have : (n / w + 1) * w = w * (n / w) + w := by rw [Nat.add_mul, Nat.one_mul, Nat.mul_comm]
      omega
    rw [if_neg (by omega)]
    have : ¬ (j / w < capFromBitLen w n ∧ j / w < s.data.size) := by omega
    simp [this]

theorem Edit.testBit_extend (v l n j : Nat) (b : Bool) (hv : v < 2 ^ l) (hn : l ≤ n) :
    (v + (if b then (2 ^ (n - l) - 1) * 2 ^ l else 0)).testBit j
      = if j < l then v.testBit j else (b && decide (j < n)) := by
  cases b
  · simp only [Bool.false_eq_true, if_false, Nat.add_zero, Bool.false_and]
    by_cases hj : j < l
    · rw [if_pos hj]
    · rw [if_neg hj]
      exact Nat.testBit_lt_two_pow (Nat.lt_of_lt_of_le hv (Nat.pow_le_pow_right (by omega) (by omega)))
  · simp only [if_true, Bool.true_and]
    rw [Nat.add_comm, Nat.mul_comm, Nat.testBit_two_pow_mul_add _ hv, Nat.testBit_two_pow_sub_one]
    by_cases hj : j < l
    · rw [if_pos hj, if_pos hj]
    · rw [if_neg hj, if_neg hj]
      congr 1
      apply propext
      omega

theorem BV.resize_len (a : BV) (n : Nat) (b : Bool) : (a.resize n b).len = n := by
  unfold BV.resize; split <;> rfl

theorem Raw.grow_refines (s : Raw w) (n : Nat) (b : Bool) (hw : 0 < w) (h : s.Inv)
    (h1 : s.length < n) (h2 : n ≤ s.data.size * w) :
    (s.grow n b).Inv ∧ (s.grow n b).abs = s.abs.resize n b ∧ (s.grow n b).data.size = s.data.size := by
  refine ⟨⟨?_, ?_⟩, ?_, Raw.size_grow s n b⟩
  · rw [Raw.size_grow]; exact h2
  · intro j hj
    have hj : n ≤ j := hj
    rw [Raw.bitAt_grow s n j b hw h h1 h2, if_neg (by omega)]
    have : ¬ j < n := by omega
    simp [this]
  · refine BV.ext_bits ?_ ?_
    · rw [BV.resize_len]; rfl
    · intro j
      rw [Raw.abs_bit _ _ hw, Raw.bitAt_grow s n j b hw h h1 h2]
      unfold BV.resize
      rw [if_neg (show ¬ n ≤ s.abs.len by rw [Raw.abs_len]; omega)]
      unfold BV.bit
      simp only
      have hwf : s.abs.val < 2 ^ s.abs.len := h.wf hw
      rw [Edit.testBit_extend _ _ _ _ _ hwf (by rw [Raw.abs_len]; omega), Raw.abs_len]
      have hb := Raw.abs_bit s j hw
      unfold BV.bit at hb
      rw [hb]

-- ---- Bvf: push, resize, zeros, ones ----------------------------------------------------------------------
/-- the common body of `Bvf::push` / `Bvd::push` once capacity is available -/
theorem Raw.push_core (s : Raw w) (b : Bool) (hw : 0 < w) (h : s.Inv) (hc : s.length < s.data.size * w) :
    (({ s with length := s.length + 1 } : Raw w).set s.length b).Inv ∧
    (({ s with length := s.length + 1 } : Raw w).set s.length b).abs = s.abs.push b ∧
    (({ s with length := s.length + 1 } : Raw w).set s.length b).data.size = s.data.size := by
  have hinv : ({ s with length := s.length + 1 } : Raw w).Inv :=
    ⟨hc, fun i hi => h.2 i (by have : s.length + 1 ≤ i := hi; omega)⟩
  obtain ⟨r1, r2, r3⟩ := Raw.set_refines ({ s with length := s.length + 1 } : Raw w) s.length b hw hinv
    (Nat.lt_succ_self _)
  refine ⟨r1, ?_, r3⟩
  rw [r2]
  have hwf : s.abs.val < 2 ^ s.length := h.wf hw
  have hb : s.abs.val.testBit s.length = false := Nat.testBit_lt_two_pow hwf
  unfold BV.set BV.push BV.bit
  show BV.mk (s.length + 1) (s.abs.val - (s.abs.val.testBit s.length).toNat * 2 ^ s.length
      + b.toNat * 2 ^ s.length) = BV.mk (s.length + 1) (s.abs.val + b.toNat * 2 ^ s.length)
  rw [hb]
  simp

theorem Bvf.push_ok (s : Raw w) (b : Bool) (hw : 0 < w) (h : s.Inv) (hc : s.length < s.data.size * w) :
    ∃ r, Bvf.push s b = .ok r ∧ r.Inv ∧ r.abs = s.abs.push b ∧ r.data.size = s.data.size := by
  unfold Bvf.push Raw.cap
  rw [if_pos hc]
  exact ⟨_, rfl, Raw.push_core s b hw h hc⟩

theorem Bvf.push_panic (s : Raw w) (b : Bool) (hc : s.data.size * w ≤ s.length) :
    Bvf.push s b = .panic := by
  unfold Bvf.push Raw.cap
  rw [if_neg (by omega)]

theorem BV.resize_self (a : BV) (b : Bool) (h : a.WF) : a.resize a.len b = a := by
  unfold BV.resize
  rw [if_pos (Nat.le_refl _), Nat.mod_eq_of_lt h]

theorem Bvf.resize_ok (s : Raw w) (n : Nat) (b : Bool) (hw : 0 < w) (h : s.Inv)
    (hn : n ≤ s.data.size * w ∨ n ≤ s.length) :
    ∃ r, Bvf.resize s n b = .ok r ∧ r.Inv ∧ r.abs = s.abs.resize n b ∧ r.data.size = s.data.size := by
  have hcap : n ≤ s.data.size * w := by have := h.1; omega
  unfold Bvf.resize Raw.cap
  by_cases h1 : n < s.length
  · rw [if_pos h1]
    exact ⟨_, rfl, Raw.shrink_refines s n b hw h (Nat.le_of_lt h1)⟩
  · rw [if_neg h1]
    by_cases h2 : n > s.length
    · rw [if_pos h2, if_pos hcap]
      exact ⟨_, rfl, Raw.grow_refines s n b hw h h2 hcap⟩
    · rw [if_neg h2]
      have : n = s.length := by omega
      subst this
      exact ⟨_, rfl, h, (BV.resize_self s.abs b (h.wf hw)).symm, rfl⟩

theorem Bvf.resize_panic (s : Raw w) (n : Nat) (b : Bool) (h1 : s.data.size * w < n) (h2 : s.length < n) :
    Bvf.resize s n b = .panic := by
  unfold Bvf.resize Raw.cap
  rw [if_neg (by omega), if_pos h2, if_neg (by omega)]

-- zeros / ones
theorem Edit.bitAt_replicate (N i : Nat) (x : BitVec w) :
    bitAt (Array.replicate N x) i = (decide (i / w < N) && x.getLsbD (i % w)) := by
  rw [Edit.bitAt_def, Edit.wd_replicate]
  by_cases h : i / w < N <;> simp [h]

theorem Bvf.zeros_ok (N n : Nat) (hw : 0 < w) (hn : n ≤ N * w) :
    ∃ r, Bvf.zeros w N n = .ok r ∧ r.Inv ∧ r.abs = BV.zeros n ∧ r.data.size = N := by
  unfold Bvf.zeros
  rw [if_neg (by omega)]
  refine ⟨_, rfl, ⟨by simpa using hn, fun i _ => ?_⟩, ?_, by simp⟩
  · show bitAt (Array.replicate N 0#w) i = false
    rw [Edit.bitAt_replicate]; simp
  · refine BV.ext_bits (by rfl) fun i => ?_
    rw [Raw.abs_bit _ _ hw]
    show bitAt (Array.replicate N 0#w) i = (0 : Nat).testBit i
    rw [Edit.bitAt_replicate]; simp

theorem Bvf.zeros_panic (N n : Nat) (hn : N * w < n) : Bvf.zeros w N n = .panic := by
  unfold Bvf.zeros
  rw [if_pos hn]

theorem Bvf.ones_ok (N n : Nat) (hw : 0 < w) (hn : n ≤ N * w) :
    ∃ r, Bvf.ones w N n = .ok r ∧ r.Inv ∧ r.abs = BV.ones n ∧ r.data.size = N := by
  unfold Bvf.ones
  rw [if_neg (by omega)]
  have hbit : ∀ i, bitAt (mod2n (Array.replicate N (BitVec.allOnes w)) n) i = decide (i < n) := by
    intro i
    rw [bitAt_mod2n _ _ _ hw, Edit.bitAt_replicate]
    have mi := Nat.mod_lt i hw
    by_cases hi : i < n
    · have : i / w < N := (Nat.div_lt_iff_lt_mul hw).mpr (by omega)
      simp [hi, this, mi]
    · simp [hi]
  refine ⟨_, rfl, ⟨by simpa [size_mod2n] using hn, fun i hi => ?_⟩, ?_, by simp [size_mod2n]⟩
  · have hi : n ≤ i := hi
    show bitAt (mod2n (Array.replicate N (BitVec.allOnes w)) n) i = false
    rw [hbit]; simp; omega
  · refine BV.ext_bits (by rfl) fun i => ?_
    rw [Raw.abs_bit _ _ hw]
    show bitAt (mod2n (Array.replicate N (BitVec.allOnes w)) n) i = (2 ^ n - 1).testBit i
    rw [hbit, Nat.testBit_two_pow_sub_one]

theorem Bvf.ones_panic (N n : Nat) (hn : N * w < n) : Bvf.ones w N n = .panic := by
  unfold Bvf.ones
  rw [if_pos hn]

-- ---- Bvd: reserve, shrinkToFit ---------------------------------------------------------------------------
/-- reallocation to `c` words keeping the old contents (`Vec::resize`-like copy) -/
theorem Edit.bitAt_realloc (ws : Array (BitVec w)) (c j : Nat) :
    bitAt (Array.ofFn (n := c) fun i => wd ws i.val) j = (decide (j / w < c) && bitAt ws j) := by
  rw [Edit.bitAt_def, Edit.wd_ofFn]
  by_cases h : j / w < c
  · simp [h]; rfl
  · simp [h]

theorem Bvd.reserve_length (s : Raw 64) (k : Nat) : (Bvd.reserve s k).length = s.length := by
  unfold Bvd.reserve; simp only; split <;> rfl

theorem Bvd.reserve_refines (s : Raw 64) (k : Nat) (h : s.Inv) :
    (Bvd.reserve s k).Inv ∧ (Bvd.reserve s k).abs = s.abs ∧
    s.length + k ≤ (Bvd.reserve s k).data.size * 64 ∧
    (Bvd.reserve s k).length = s.length ∧ s.data.size ≤ (Bvd.reserve s k).data.size := by
  have hw : 0 < 64 := by decide
  unfold Bvd.reserve Bvd.capW
  simp only
  by_cases hc : capFromBitLen 64 (s.length + k) > s.data.size
  · rw [if_pos hc]
    have hcap := Edit.le_cap_mul (w := 64) (s.length + k) hw
    refine ⟨⟨?_, ?_⟩, ?_, ?_, rfl, ?_⟩
    · show s.length ≤ (Array.ofFn _).size * 64
      rw [Array.size_ofFn]; omega
    · intro j hj
      have hj : s.length ≤ j := hj
      show bitAt (Array.ofFn _) j = false
      rw [Edit.bitAt_realloc, h.2 j hj]; simp
    · refine Raw.abs_eq_of_bits _ _ hw hw (by rfl) ?_
      intro j
      show bitAt (Array.ofFn _) j = bitAt s.data j
      rw [Edit.bitAt_realloc]
      by_cases hj : j / 64 < capFromBitLen 64 (s.length + k)
      · simp [hj]
      · rw [bitAt_oob s.data j (by omega) hw]; simp
    · show s.length + k ≤ (Array.ofFn _).size * 64
      rw [Array.size_ofFn]; exact hcap
    · show s.data.size ≤ (Array.ofFn _).size
      rw [Array.size_ofFn]; omega
  · rw [if_neg hc]
    have : s.length + k ≤ s.data.size * 64 := (Edit.cap_le_iff (w := 64) _ _ hw).mp (by omega)
    exact ⟨h, rfl, this, rfl, Nat.le_refl _⟩

theorem Bvd.shrinkToFit_refines (s : Raw 64) (h : s.Inv) :
    (Bvd.shrinkToFit s).Inv ∧ (Bvd.shrinkToFit s).abs = s.abs ∧
    (Bvd.shrinkToFit s).data.size = capFromBitLen 64 s.length := by
  have hw : 0 < 64 := by decide
  unfold Bvd.shrinkToFit Bvd.capW
  have hcap := Edit.le_cap_mul (w := 64) s.length hw
  by_cases hc : capFromBitLen 64 s.length < s.data.size
  · rw [if_pos hc]
    refine ⟨⟨?_, ?_⟩, ?_, ?_⟩
    · show s.length ≤ (Array.ofFn _).size * 64
      rw [Array.size_ofFn]; exact hcap
    · intro j hj
      have hj : s.length ≤ j := hj
      show bitAt (Array.ofFn _) j = false
      rw [Edit.bitAt_realloc, h.2 j hj]; simp
    · refine Raw.abs_eq_of_bits _ _ hw hw (by rfl) ?_
      intro j
      show bitAt (Array.ofFn _) j = bitAt s.data j
      rw [Edit.bitAt_realloc]
      by_cases hj : j / 64 < capFromBitLen 64 s.length
      · simp [hj]
      · rw [h.2 j (by omega)]; simp
    · show (Array.ofFn _).size = _
      rw [Array.size_ofFn]
  · rw [if_neg hc]
    have : capFromBitLen 64 s.length ≤ s.data.size := (Edit.cap_le_iff (w := 64) _ _ hw).mpr h.1
    exact ⟨h, rfl, by omega⟩

-- ---- Bvd: push, resize, zeros, ones, withCapacity --------------------------------------------------------
theorem Bvd.push_refines (s : Raw 64) (b : Bool) (h : s.Inv) :
    (Bvd.push s b).Inv ∧ (Bvd.push s b).abs = s.abs.push b := by
  have hw : 0 < 64 := by decide
  obtain ⟨r1, r2, r3, r4, _⟩ := Bvd.reserve_refines s 1 h
  unfold Bvd.push
  simp only
  obtain ⟨p1, p2, _⟩ := Raw.push_core (Bvd.reserve s 1) b hw r1 (by omega)
  exact ⟨p1, by rw [p2, r2]⟩

theorem Bvd.resize_refines (s : Raw 64) (n : Nat) (b : Bool) (h : s.Inv) :
    (Bvd.resize s n b).Inv ∧ (Bvd.resize s n b).abs = s.abs.resize n b := by
  have hw : 0 < 64 := by decide
  unfold Bvd.resize
  by_cases h1 : n < s.length
  · rw [if_pos h1]
    obtain ⟨p1, p2, _⟩ := Raw.shrink_refines s n b hw h (Nat.le_of_lt h1)
    exact ⟨p1, p2⟩
  · rw [if_neg h1]
    by_cases h2 : n > s.length
    · rw [if_pos h2]
      obtain ⟨r1, r2, r3, r4, _⟩ := Bvd.reserve_refines s (n - s.length) h
      obtain ⟨p1, p2, _⟩ := Raw.grow_refines (Bvd.reserve s (n - s.length)) n b hw r1 (by omega) (by omega)
      exact ⟨p1, by rw [p2, r2]⟩
    · rw [if_neg h2]
      have : n = s.length := by omega
      subst this
      exact ⟨h, (BV.resize_self s.abs b (h.wf hw)).symm⟩

theorem Bvd.zeros_refines (n : Nat) :
    (Bvd.zeros n).Inv ∧ (Bvd.zeros n).abs = BV.zeros n ∧ (Bvd.zeros n).data.size = capFromBitLen 64 n := by
  have hw : 0 < 64 := by decide
  unfold Bvd.zeros Bvd.capW
  refine ⟨⟨?_, fun i _ => ?_⟩, ?_, by simp⟩
  · show n ≤ (Array.replicate _ _).size * 64
    rw [Array.size_replicate]; exact Edit.le_cap_mul n hw
  · show bitAt (Array.replicate _ 0#64) i = false
    rw [Edit.bitAt_replicate]; simp
  · refine BV.ext_bits (by rfl) fun i => ?_
    rw [Raw.abs_bit _ _ hw]
    show bitAt (Array.replicate _ 0#64) i = (0 : Nat).testBit i
    rw [Edit.bitAt_replicate]; simp

theorem Bvd.withCapacity_refines (c : Nat) :
    (Bvd.withCapacity c).Inv ∧ (Bvd.withCapacity c).abs = BV.zeros 0 ∧
    (Bvd.withCapacity c).data.size = capFromBitLen 64 c ∧ c ≤ (Bvd.withCapacity c).data.size * 64 := by
  have hw : 0 < 64 := by decide
  unfold Bvd.withCapacity Bvd.capW
  refine ⟨⟨Nat.zero_le _, fun i _ => ?_⟩, ?_, by simp, ?_⟩
  · show bitAt (Array.replicate _ 0#64) i = false
    rw [Edit.bitAt_replicate]; simp
  · refine BV.ext_bits (by rfl) fun i => ?_
    rw [Raw.abs_bit _ _ hw]
    show bitAt (Array.replicate _ 0#64) i = (0 : Nat).testBit i
    rw [Edit.bitAt_replicate]; simp
  · show c ≤ (Array.replicate _ _).size * 64
    rw [Array.size_replicate]; exact Edit.le_cap_mul c hw

theorem Bvd.bitAt_ones (n i : Nat) :
    bitAt (Bvd.maskLast (Array.replicate (capFromBitLen 64 n) (BitVec.allOnes 64)) n) i = decide (i < n) := by
  unfold Bvd.maskLast lastBits
  rw [Edit.bitAt_def, Edit.wd_modify, Edit.wd_replicate, Array.size_replicate]
  have hcap : capFromBitLen 64 n = (n + 63) / 64 := rfl
  have mi : i % 64 < 64 := Nat.mod_lt _ (by decide)
  by_cases hn : n = 0
  · subst hn
    have : capFromBitLen 64 0 = 0 := rfl
    rw [this]
    simp
  · rw [if_neg hn]
    by_cases hl : capFromBitLen 64 n - 1 = i / 64 ∧ capFromBitLen 64 n - 1 < capFromBitLen 64 n
    · rw [if_pos hl, if_pos (by omega)]
      simp only [BitVec.getLsbD_and, getLsbD_mask, BitVec.getLsbD_allOnes]
      have : (i % 64 < (n - 1) % 64 + 1) ↔ i < n := by omega
      simp [mi, this]
    · rw [if_neg hl]
      by_cases hi : i / 64 < capFromBitLen 64 n
      · rw [if_pos hi, BitVec.getLsbD_allOnes]
        have : i < n := by omega
        simp [mi, this]
      · rw [if_neg hi]
        have : ¬ i < n := by omega
        simp [this]

theorem Bvd.ones_refines (n : Nat) :
    (Bvd.ones n).Inv ∧ (Bvd.ones n).abs = BV.ones n ∧ (Bvd.ones n).data.size = capFromBitLen 64 n := by
  have hw : 0 < 64 := by decide
  unfold Bvd.ones Bvd.capW
  have hsz : (Bvd.maskLast (Array.replicate (capFromBitLen 64 n) (BitVec.allOnes 64)) n).size
      = capFromBitLen 64 n := by simp [Bvd.maskLast]
  refine ⟨⟨?_, fun i hi => ?_⟩, ?_, hsz⟩
  · show n ≤ (Bvd.maskLast _ n).size * 64
    rw [hsz]; exact Edit.le_cap_mul n hw
  · have hi : n ≤ i := hi
    show bitAt (Bvd.maskLast _ n) i = false
    rw [Bvd.bitAt_ones]; simp; omega
  · refine BV.ext_bits (by rfl) fun i => ?_
    rw [Raw.abs_bit _ _ hw]
    show bitAt (Bvd.maskLast _ n) i = (2 ^ n - 1).testBit i
    rw [Bvd.bitAt_ones, Nat.testBit_two_pow_sub_one]

end Bva
