import BvaProofs.Base
/-!
# T7a — element edits and resizing: `set`, `pop`, `shrink`, `grow`, `push`, `resize`, `zeros`, `ones`,
`reserve`, `shrinkToFit`, `withCapacity`
-/
namespace Bva
variable {w : Nat}

-- ---- word-level reads of updated arrays -------------------------------------------------------------
theorem wd_setIfInBounds (ws : Array (BitVec w)) (j i : Nat) (x : BitVec w) :
    wd (ws.setIfInBounds j x) i = if j = i ∧ j < ws.size then x else wd ws i := by
  unfold wd
  simp only [Array.getD_eq_getD_getElem?, Array.getElem?_setIfInBounds]
  by_cases h : j = i
  · subst h
    by_cases h2 : j < ws.size
    · simp [h2]
    · simp [h2]
  · simp [h]

theorem wd_modify (ws : Array (BitVec w)) (j i : Nat) (f : BitVec w → BitVec w) :
    wd (ws.modify j f) i = if j = i ∧ j < ws.size then f (wd ws i) else wd ws i := by
  unfold wd
  simp only [Array.getD_eq_getD_getElem?, Array.getElem?_modify]
  by_cases h : j = i
  · subst h
    by_cases h2 : j < ws.size
    · simp [h2]
    · simp [h2]
  · simp [h]

theorem wd_replicate (n i : Nat) (x : BitVec w) :
    wd (Array.replicate n x) i = if i < n then x else 0#w := by
  unfold wd
  simp only [Array.getD_eq_getD_getElem?, Array.getElem?_replicate]
  by_cases h : i < n <;> simp [h]

theorem wd_ofFn (n i : Nat) (f : Fin n → BitVec w) :
    wd (Array.ofFn f) i = if h : i < n then f ⟨i, h⟩ else 0#w := by
  unfold wd
  simp only [Array.getD_eq_getD_getElem?, Array.getElem?_ofFn]
  by_cases h : i < n <;> simp [h]

theorem wd_oob (ws : Array (BitVec w)) (i : Nat) (h : ws.size ≤ i) : wd ws i = 0#w := by
  unfold wd
  simp [Array.getD_eq_getD_getElem?, Array.getElem?_eq_none h]

theorem bitAt_def (ws : Array (BitVec w)) (i : Nat) : bitAt ws i = (wd ws (i / w)).getLsbD (i % w) := rfl

/-- `for i in a..b { data[i] = x }` -/
theorem forRange_fill (a b : Nat) (x : BitVec w) (ws : Array (BitVec w)) :
    (forRange a b (fun i a => a.setIfInBounds i x) ws).size = ws.size ∧
    ∀ i, wd (forRange a b (fun i a => a.setIfInBounds i x) ws) i =
      if a ≤ i ∧ i < b ∧ i < ws.size then x else wd ws i := by
  unfold forRange
  have key : ∀ k, (List.foldl (fun s i => s.setIfInBounds i x) ws (List.range' a k)).size = ws.size ∧
      ∀ i, wd (List.foldl (fun s i => s.setIfInBounds i x) ws (List.range' a k)) i =
        if a ≤ i ∧ i < a + k ∧ i < ws.size then x else wd ws i := by
    intro k
    induction k with
    | zero =>
      refine ⟨by simp, fun i => ?_⟩
      have : ¬ (a ≤ i ∧ i < a + 0 ∧ i < ws.size) := by omega
      rw [if_neg this]; simp
    | succ k ih =>
      rw [List.range'_concat, List.foldl_append]
      simp only [List.foldl_cons, List.foldl_nil, Nat.one_mul]
      refine ⟨by simp [ih.1], fun i => ?_⟩
      rw [wd_setIfInBounds, ih.1, ih.2 i]
      by_cases h1 : a + k = i ∧ a + k < ws.size
      · have : a ≤ i ∧ i < a + (k + 1) ∧ i < ws.size := by omega
        simp [h1, this]
      · by_cases h2 : a ≤ i ∧ i < a + k ∧ i < ws.size
        · have : a ≤ i ∧ i < a + (k + 1) ∧ i < ws.size := by omega
          simp [h1, h2, this]
        · have : ¬ (a ≤ i ∧ i < a + (k + 1) ∧ i < ws.size) := by omega
          simp [h1, h2, this]
  obtain ⟨h1, h2⟩ := key (b - a)
  refine ⟨h1, fun i => ?_⟩
  rw [h2 i]
  by_cases h : a ≤ i ∧ i < b ∧ i < ws.size
  · have : a ≤ i ∧ i < a + (b - a) ∧ i < ws.size := by omega
    simp [h, this]
  · have : ¬ (a ≤ i ∧ i < a + (b - a) ∧ i < ws.size) := by omega
    simp [h, this]

-- ---- set ----------------------------------------------------------------------------------------------
theorem getLsbD_b2w (b : Bool) (k : Nat) (hw : 0 < w) : (b2w w b).getLsbD k = (decide (k = 0) && b) := by
  unfold b2w
  cases b <;> simp [BitVec.getLsbD_one, hw]

theorem Raw.size_set (s : Raw w) (i : Nat) (b : Bool) : (s.set i b).data.size = s.data.size := by
  simp [Raw.set]

theorem Raw.length_set (s : Raw w) (i : Nat) (b : Bool) : (s.set i b).length = s.length := rfl

/-- bit form of `set` (needs only that the word exists) -/
theorem Raw.bitAt_set (s : Raw w) (i j : Nat) (b : Bool) (hw : 0 < w) (hi : i < s.data.size * w) :
    bitAt (s.set i b).data j = if j = i then b else bitAt s.data j := by
  have hin : i / w < s.data.size := (Nat.div_lt_iff_lt_mul hw).mpr hi
  have mi := Nat.mod_lt i hw
  have mj := Nat.mod_lt j hw
  have ei := idx_eq (w := w) i
  have ej := idx_eq (w := w) j
  unfold Raw.set
  simp only [bitAt_def, wd_setIfInBounds]
  by_cases hd : i / w = j / w
  · rw [if_pos ⟨hd, hin⟩]
    simp only [BitVec.getLsbD_or, BitVec.getLsbD_and, BitVec.getLsbD_not, BitVec.getLsbD_shiftLeft,
      BitVec.getLsbD_one, getLsbD_b2w _ _ hw]
    rw [hd] at ei
    by_cases hm : j % w = i % w
    · have : j = i := by omega
      simp [this, mi, hw]
    · have hne : ¬ j = i := by intro h; apply hm; rw [h]
      rw [if_neg hne, hd]
      by_cases hlt : j % w < i % w
      · simp [hlt, mj]
      · have : ¬ (j % w - i % w = 0) := by omega
        simp [this, mj]
  · have hne : ¬ j = i := by intro h; apply hd; rw [h]
    rw [if_neg (fun h => hd h.1), if_neg hne]

theorem testBit_setBit (v i j : Nat) (b : Bool) :
    (v - (v.testBit i).toNat * 2 ^ i + b.toNat * 2 ^ i).testBit j = if j = i then b else v.testBit j := by
  have hl : v % 2 ^ i < 2 ^ i := Nat.mod_lt _ (Nat.two_pow_pos i)
  have e1 : v = 2 ^ i * (v / 2 ^ i) + v % 2 ^ i := (Nat.div_add_mod v (2 ^ i)).symm
  have e2 : v / 2 ^ i = 2 * (v / 2 ^ i / 2) + v / 2 ^ i % 2 := (Nat.div_add_mod _ 2).symm
  have hc : v.testBit i = decide (v / 2 ^ i % 2 = 1) := Nat.testBit_eq_decide_div_mod_eq
  have e3 : 2 ^ i * (v / 2 ^ i) = 2 * (2 ^ i * (v / 2 ^ i / 2)) + 2 ^ i * (v / 2 ^ i % 2) := by
    conv => lhs; rw [e2]
    rw [Nat.mul_add, Nat.mul_left_comm]
  have key : v - (v.testBit i).toNat * 2 ^ i + b.toNat * 2 ^ i
      = 2 ^ i * (2 * (v / 2 ^ i / 2) + b.toNat) + v % 2 ^ i := by
    rw [Nat.mul_add, Nat.mul_left_comm, hc]
    have hm : v / 2 ^ i % 2 < 2 := Nat.mod_lt _ (by omega)
    by_cases h1 : v / 2 ^ i % 2 = 1
    · rw [h1] at e3
      cases b <;> simp [h1] <;> omega
    · have h0 : v / 2 ^ i % 2 = 0 := by omega
      rw [h0] at e3
      cases b <;> simp [h0] <;> omega
  rw [key, Nat.testBit_two_pow_mul_add _ hl]
  by_cases hlt : j < i
  · have : ¬ j = i := by omega
    rw [if_pos hlt, if_neg this, Nat.testBit_mod_two_pow]
    simp [hlt]
  · rw [if_neg hlt]
    by_cases hji : j = i
    · subst hji
      rw [if_pos rfl, Nat.sub_self, Nat.testBit_zero]
      cases b <;> simp <;> omega
    · rw [if_neg hji]
      have : j - i = (j - i - 1).succ := by omega
      rw [this, Nat.testBit_succ]
      have hb : b.toNat < 2 := by cases b <;> simp
      have : (2 * (v / 2 ^ i / 2) + b.toNat) / 2 = v / 2 ^ i / 2 := by omega
      rw [this, Nat.div_div_eq_div_mul, ← Nat.pow_succ, Nat.testBit_div_two_pow]
      congr 1; omega

theorem Raw.set_refines (s : Raw w) (i : Nat) (b : Bool) (hw : 0 < w) (h : s.Inv) (hi : i < s.length) :
    (s.set i b).Inv ∧ (s.set i b).abs = s.abs.set i b ∧ (s.set i b).data.size = s.data.size := by
  have hc : i < s.data.size * w := Nat.lt_of_lt_of_le hi h.1
  refine ⟨⟨?_, ?_⟩, ?_, Raw.size_set s i b⟩
  · rw [Raw.size_set, Raw.length_set]; exact h.1
  · intro j hj
    rw [Raw.length_set] at hj
    rw [Raw.bitAt_set s i j b hw hc, if_neg (by omega)]
    exact h.2 j hj
  · refine BV.ext_bits (by rfl) ?_
    intro j
    rw [Raw.abs_bit _ _ hw, Raw.bitAt_set s i j b hw hc]
    unfold BV.set BV.bit
    simp only
    rw [testBit_setBit]
    have := Raw.abs_bit s j hw
    unfold BV.bit at this
    rw [this]

-- ---- pop ----------------------------------------------------------------------------------------------
theorem Raw.pop_refines (s : Raw w) (hw : 0 < w) (h : s.Inv) :
    (s.pop.1).Inv ∧ (s.pop.1.abs, s.pop.2) = s.abs.pop ∧ s.pop.1.data.size = s.data.size := by
  unfold Raw.pop BV.pop
  by_cases h0 : s.length > 0
  · have hne : ¬ s.abs.len = 0 := by rw [Raw.abs_len]; omega
    have hc : s.length - 1 < s.data.size * w := by have := h.1; omega
    rw [if_pos h0, if_neg hne]
    simp only
    refine ⟨⟨?_, ?_⟩, ?_, Raw.size_set _ _ _⟩
    · show s.length - 1 ≤ (s.set (s.length - 1) false).data.size * w
      rw [Raw.size_set]; have := h.1; omega
    · intro j hj
      have hj : s.length - 1 ≤ j := hj
      show bitAt (s.set (s.length - 1) false).data j = false
      rw [Raw.bitAt_set s _ j false hw hc]
      by_cases hj2 : j = s.length - 1
      · rw [if_pos hj2]
      · rw [if_neg hj2]; exact h.2 j (by omega)
    · congr 1
      · refine BV.ext_bits (by rfl) ?_
        intro j
        rw [Raw.abs_bit _ _ hw]
        simp only
        rw [Raw.bitAt_set s _ j false hw hc]
        unfold BV.bit
        simp only [Raw.abs_len]
        rw [Nat.testBit_mod_two_pow]
        have hb := Raw.abs_bit s j hw
        unfold BV.bit at hb
        rw [hb]
        by_cases hj2 : j = s.length - 1
        · have : ¬ j < s.length - 1 := by omega
          simp [hj2]
        · rw [if_neg hj2]
          by_cases hj3 : j < s.length - 1
          · simp [hj3]
          · rw [h.2 j (by omega)]; simp
      · rw [Raw.get_eq_bitAt, Raw.abs_bit _ _ hw]; rfl
  · have he : s.abs.len = 0 := by rw [Raw.abs_len]; omega
    rw [if_neg h0, if_pos he]
    exact ⟨h, rfl, rfl⟩

-- ---- capacity arithmetic ---------------------------------------------------------------------------
theorem cap_le_iff (n c : Nat) (hw : 0 < w) : capFromBitLen w n ≤ c ↔ n ≤ c * w := by
  unfold capFromBitLen
  rw [Nat.div_le_iff_le_mul_add_pred hw]
  have : w * c = c * w := Nat.mul_comm _ _
  omega

theorem le_cap_mul (n : Nat) (hw : 0 < w) : n ≤ capFromBitLen w n * w :=
  (cap_le_iff n _ hw).mp (Nat.le_refl _)

theorem cap_le_succ (n : Nat) (hw : 0 < w) : capFromBitLen w n ≤ n / w + 1 := by
  rw [cap_le_iff n _ hw]
  have := idx_eq (w := w) n
  have := Nat.mod_lt n hw
  have : (n / w + 1) * w = w * (n / w) + w := by rw [Nat.add_mul, Nat.one_mul, Nat.mul_comm]
  omega

theorem div_lt_cap (i n : Nat) (hw : 0 < w) (h : i < n) : i / w < capFromBitLen w n := by
  rw [Nat.div_lt_iff_lt_mul hw]
  exact Nat.lt_of_lt_of_le h (le_cap_mul n hw)

end Bva
