import BvaProofs.Slice
import BvaProofs.Rot
import BvaProofs.Edit
/-!
# T17 — the list-of-bits view of every edit (L0 only)

Everything here is about `BvaModel/Spec.lean`: `BV.bits a = (List.range a.len).map a.bit`.
-/
namespace Bva
namespace BV

-- ---- item 9 : basic facts about `bits`, extensionality -------------------------------------------------
theorem bits_length (a : BV) : a.bits.length = a.len := length_bits a

theorem bits_getElem (a : BV) (i : Nat) (h : i < a.bits.length) : a.bits[i] = a.bit i :=
  getElem_bits a i h

theorem lv_bits_getElem? (a : BV) (i : Nat) :
    a.bits[i]? = if i < a.len then some (a.bit i) else none := by
  by_cases h : i < a.len
  · rw [if_pos h, List.getElem?_eq_getElem (by rw [bits_length]; exact h), bits_getElem]
  · rw [if_neg h, List.getElem?_eq_none (by rw [bits_length]; omega)]

/-- well-formedness from the bits: nothing at or above `len` -/
theorem lv_wf_of_bits (a : BV) (h : ∀ i, a.len ≤ i → a.bit i = false) : a.WF :=
  Nat.lt_pow_two_of_testBit _ h

/-- the list view from a bit characterisation -/
theorem lv_bits_eq (a : BV) (l : List Bool) (hl : l.length = a.len)
    (hb : ∀ i (h : i < l.length), l[i] = a.bit i) : a.bits = l := by
  apply List.ext_getElem
  · rw [bits_length, hl]
  · intro i h1 h2
    rw [bits_getElem, hb]

/-- two well-formed vectors with the same list of bits are equal -/
theorem eq_of_bits (a b : BV) (ha : a.WF) (hb : b.WF) (h : a.bits = b.bits) : a = b := by
  have hl : a.len = b.len := by rw [← bits_length a, ← bits_length b, h]
  apply ext_bits hl
  intro i
  by_cases hi : i < a.len
  · have h1 : i < a.bits.length := by rw [bits_length]; exact hi
    have h2 : i < b.bits.length := by rw [bits_length]; omega
    rw [← bits_getElem a i h1, ← bits_getElem b i h2]
    simp only [h]
  · rw [bit_of_le_len a ha i (by omega), bit_of_le_len b hb i (by omega)]

theorem eq_iff_bits (a b : BV) (ha : a.WF) (hb : b.WF) : a = b ↔ a.bits = b.bits :=
  ⟨fun h => by rw [h], eq_of_bits a b ha hb⟩

-- ---- item 6a / 1 : `append` is well-formed; `push` -----------------------------------------------------
theorem lv_add_mul_lt (v x n m : Nat) (hv : v < 2 ^ n) (hx : x < 2 ^ m) : v + x * 2 ^ n < 2 ^ (n + m) := by
  have h1 : (x + 1) * 2 ^ n ≤ 2 ^ m * 2 ^ n := Nat.mul_le_mul_right _ hx
  rw [Nat.add_mul, Nat.one_mul] at h1
  rw [Nat.pow_add, Nat.mul_comm (2 ^ n)]
  omega

theorem append_wf (a x : BV) (ha : a.WF) (hx : x.WF) : (a.append x).WF :=
  lv_add_mul_lt _ _ _ _ ha hx

theorem lv_push_eq_append (a : BV) (b : Bool) : a.push b = a.append ⟨1, b.toNat⟩ := rfl

theorem lv_bits_single (b : Bool) : (BV.mk 1 b.toNat).bits = [b] := by
  cases b <;> rfl

theorem lv_single_wf (b : Bool) : (BV.mk 1 b.toNat).WF := by
  cases b <;> decide

theorem push_bits (a : BV) (b : Bool) (ha : a.WF) : (a.push b).bits = a.bits ++ [b] := by
  rw [lv_push_eq_append, bits_append _ _ ha, lv_bits_single]

theorem push_wf (a : BV) (b : Bool) (ha : a.WF) : (a.push b).WF :=
  append_wf a _ ha (lv_single_wf b)

theorem push_bit (a : BV) (b : Bool) (ha : a.WF) (i : Nat) :
    (a.push b).bit i = if i < a.len then a.bit i else (decide (i = a.len) && b) := by
  rw [lv_push_eq_append, append_bit _ _ ha]
  split
  · rfl
  · rename_i h
    by_cases h2 : i = a.len
    · subst h2; cases b <;> simp [bit]
    · have : i - a.len = (i - a.len - 1) + 1 := by omega
      simp only [h2, decide_false, Bool.false_and]
      unfold bit
      simp only
      rw [this, Nat.testBit_succ]
      cases b <;> simp

-- ---- item 2 : `pop` ------------------------------------------------------------------------------------
theorem lv_mod_wf (n v : Nat) : (BV.mk n (v % 2 ^ n)).WF := Nat.mod_lt _ (Nat.two_pow_pos n)

theorem lv_mod_bits (a : BV) (n : Nat) (hn : n ≤ a.len) : (BV.mk n (a.val % 2 ^ n)).bits = a.bits.take n := by
  apply lv_bits_eq
  · rw [List.length_take, bits_length]; exact Nat.min_eq_left hn
  · intro i h
    rw [List.getElem_take, bits_getElem]
    rw [List.length_take, bits_length, Nat.min_eq_left hn] at h
    unfold bit
    simp only
    rw [Nat.testBit_mod_two_pow]
    simp [h]

theorem pop_wf (a : BV) (ha : a.WF) : a.pop.1.WF := by
  unfold pop
  split
  · exact ha
  · exact lv_mod_wf _ _

theorem pop_snd (a : BV) : a.pop.2 = a.bits.getLast? := by
  rw [← last_eq_getLast?]
  unfold pop last
  split <;> rfl

theorem pop_fst_bits (a : BV) : a.pop.1.bits = a.bits.dropLast := by
  unfold pop
  split
  · rename_i h
    have : a.bits = [] := List.eq_nil_of_length_eq_zero (by rw [bits_length]; exact h)
    simp [this]
  · rw [List.dropLast_eq_take, bits_length]
    exact lv_mod_bits a (a.len - 1) (by omega)

theorem pop_bits (a : BV) : a.pop.1.bits = a.bits.dropLast ∧ a.pop.2 = a.bits.getLast? :=
  ⟨pop_fst_bits a, pop_snd a⟩

-- ---- item 3 : `set` ------------------------------------------------------------------------------------
theorem set_bit (a : BV) (i j : Nat) (b : Bool) : (a.set i b).bit j = if j = i then b else a.bit j :=
  Edit.testBit_setBit a.val i j b

theorem set_len (a : BV) (i : Nat) (b : Bool) : (a.set i b).len = a.len := rfl

theorem set_wf (a : BV) (i : Nat) (b : Bool) (ha : a.WF) (hi : i < a.len) : (a.set i b).WF := by
  apply lv_wf_of_bits
  intro j hj
  rw [set_len] at hj
  rw [set_bit, if_neg (by omega)]
  exact bit_of_le_len a ha j hj

theorem set_bits (a : BV) (i : Nat) (b : Bool) (hi : i < a.len) : (a.set i b).bits = a.bits.set i b := by
  have _ := hi   -- (the equation also holds for `i ≥ len`, where both sides are `a.bits` — but then `set` is not WF)
  apply lv_bits_eq
  · rw [List.length_set, bits_length]; rfl
  · intro j h
    rw [List.getElem_set, set_bit, bits_getElem]
    by_cases hji : j = i
    · rw [if_pos hji, if_pos hji.symm]
    · rw [if_neg hji, if_neg (fun h => hji h.symm)]

-- ---- item 4 : `resize` ---------------------------------------------------------------------------------
theorem resize_bit (a : BV) (m : Nat) (b : Bool) (ha : a.WF) (i : Nat) :
    (a.resize m b).bit i = (decide (i < m) && if i < a.len then a.bit i else b) := by
  unfold resize
  split
  · rename_i h
    unfold bit
    simp only
    rw [Nat.testBit_mod_two_pow]
    by_cases hi : i < m
    · have : i < a.len := by omega
      simp [hi, this]
    · simp [hi]
  · rename_i h
    unfold bit
    simp only
    rw [Edit.testBit_extend a.val a.len m i b ha (by omega)]
    by_cases hi : i < a.len
    · have : i < m := by omega
      simp [hi, this]
    · simp [hi, Bool.and_comm]

theorem resize_wf (a : BV) (m : Nat) (b : Bool) (ha : a.WF) : (a.resize m b).WF := by
  apply lv_wf_of_bits
  intro i hi
  rw [resize_len] at hi
  rw [resize_bit a m b ha]
  have : ¬ i < m := by omega
  simp [this]

theorem resize_bits (a : BV) (m : Nat) (b : Bool) (ha : a.WF) :
    (a.resize m b).bits = (a.bits ++ List.replicate (m - a.len) b).take m := by
  apply lv_bits_eq
  · rw [List.length_take, List.length_append, List.length_replicate, bits_length, resize_len]; omega
  · intro i h
    have hi : i < m := by
      rw [List.length_take] at h; omega
    rw [List.getElem_take, List.getElem_append, resize_bit a m b ha]
    simp only [bits_length, bits_getElem, List.getElem_replicate, hi, decide_true, Bool.true_and]
    split <;> rfl

end BV
end Bva
