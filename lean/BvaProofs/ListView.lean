import BvaProofs.Slice
import BvaProofs.Rot
import BvaProofs.Edit
/-!
# T17 — the list-of-bits view of every edit (L0 only)

Everything here is about `BvaModel/Spec.lean`: `BV.bits a = (List.range a.len).map a.bit`.
-/
namespace Bva
namespace BV

-- ---- item 9 : basic facts about `bits`, extensionality -------------------------------------------------
theorem bits_length (a : BV) : a.bits.length = a.len := length_bits a

theorem bits_getElem (a : BV) (i : Nat) (h : i < a.bits.length) : a.bits[i] = a.bit i :=
  getElem_bits a i h

theorem lv_bits_getElem? (a : BV) (i : Nat) :
    a.bits[i]? = if i < a.len then some (a.bit i) else none := by
  by_cases h : i < a.len
  · rw [if_pos h, List.getElem?_eq_getElem (by rw [bits_length]; exact h), bits_getElem]
  · rw [if_neg h, List.getElem?_eq_none (by rw [bits_length]; omega)]

/-- well-formedness from the bits: nothing at or above `len` -/
theorem lv_wf_of_bits (a : BV) (h : ∀ i, a.len ≤ i → a.bit i = false) : a.WF :=
  Nat.lt_pow_two_of_testBit _ h

/-- the list view from a bit characterisation -/
theorem lv_bits_eq (a : BV) (l : List Bool) (hl : l.length = a.len)
    (hb : ∀ i (h : i < l.length), l[i] = a.bit i) : a.bits = l := by
  apply List.ext_getElem
  · rw [bits_length, hl]
  · intro i h1 h2
    rw [bits_getElem, hb]

/-- two well-formed vectors with the same list of bits are equal -/
theorem eq_of_bits (a b : BV) (ha : a.WF) (hb : b.WF) (h : a.bits = b.bits) : a = b := by
  have hl : a.len = b.len := by rw [← bits_length a, ← bits_length b, h]
  apply ext_bits hl
  intro i
  by_cases hi : i < a.len
  · have h1 : i < a.bits.length := by rw [bits_length]; exact hi
    have h2 : i < b.bits.length := by rw [bits_length]; omega
    rw [← bits_getElem a i h1, ← bits_getElem b i h2]
    simp only [h]
  · rw [bit_of_le_len a ha i (by omega), bit_of_le_len b hb i (by omega)]

theorem eq_iff_bits (a b : BV) (ha : a.WF) (hb : b.WF) : a = b ↔ a.bits = b.bits :=
  ⟨fun h => by rw [h], eq_of_bits a b ha hb⟩

-- ---- item 6a / 1 : `append` is well-formed; `push` -----------------------------------------------------
theorem lv_add_mul_lt (v x n m : Nat) (hv : v < 2 ^ n) (hx : x < 2 ^ m) : v + x * 2 ^ n < 2 ^ (n + m) := by
  have h1 : (x + 1) * 2 ^ n ≤ 2 ^ m * 2 ^ n := Nat.mul_le_mul_right _ hx
  rw [Nat.add_mul, Nat.one_mul] at h1
  rw [Nat.pow_add, Nat.mul_comm (2 ^ n)]
  omega

theorem append_wf (a x : BV) (ha : a.WF) (hx : x.WF) : (a.append x).WF :=
  lv_add_mul_lt _ _ _ _ ha hx

theorem lv_push_eq_append (a : BV) (b : Bool) : a.push b = a.append ⟨1, b.toNat⟩ := rfl

theorem lv_bits_single (b : Bool) : (BV.mk 1 b.toNat).bits = [b] := by
  cases b <;> rfl

theorem lv_single_wf (b : Bool) : (BV.mk 1 b.toNat).WF := by
  cases b <;> decide

theorem push_bits (a : BV) (b : Bool) (ha : a.WF) : (a.push b).bits = a.bits ++ [b] := by
  rw [lv_push_eq_append, bits_append _ _ ha, lv_bits_single]

theorem push_wf (a : BV) (b : Bool) (ha : a.WF) : (a.push b).WF :=
  append_wf a _ ha (lv_single_wf b)

theorem push_bit (a : BV) (b : Bool) (ha : a.WF) (i : Nat) :
    (a.push b).bit i = if i < a.len then a.bit i else (decide (i = a.len) && b) := by
  rw [lv_push_eq_append, append_bit _ _ ha]
  split
  · rfl
  · rename_i h
    by_cases h2 : i = a.len
    · subst h2; cases b <;> simp [bit]
    · have : i - a.len = (i - a.len - 1) + 1 := by omega
      simp only [h2, decide_false, Bool.false_and]
      unfold bit
      simp only
      rw [this, Nat.testBit_succ]
      cases b <;> simp

-- ---- item 2 : `pop` ------------------------------------------------------------------------------------
theorem lv_mod_wf (n v : Nat) : (BV.mk n (v % 2 ^ n)).WF := Nat.mod_lt _ (Nat.two_pow_pos n)

theorem lv_mod_bits (a : BV) (n : Nat) (hn : n ≤ a.len) : (BV.mk n (a.val % 2 ^ n)).bits = a.bits.take n := by
  apply lv_bits_eq
  · rw [List.length_take, bits_length]; exact Nat.min_eq_left hn
  · intro i h
    rw [List.getElem_take, bits_getElem]
    rw [List.length_take, bits_length, Nat.min_eq_left hn] at h
    unfold bit
    simp only
    rw [Nat.testBit_mod_two_pow]
    simp [h]

theorem pop_wf (a : BV) (ha : a.WF) : a.pop.1.WF := by
  unfold pop
  split
  · exact ha
  · exact lv_mod_wf _ _

theorem pop_snd (a : BV) : a.pop.2 = a.bits.getLast? := by
  rw [← last_eq_getLast?]
  unfold pop last
  split <;> rfl

theorem pop_fst_bits (a : BV) : a.pop.1.bits = a.bits.dropLast := by
  unfold pop
  split
  · rename_i h
    have : a.bits = [] := List.eq_nil_of_length_eq_zero (by rw [bits_length]; exact h)
    simp [this]
  · rw [List.dropLast_eq_take, bits_length]
    exact lv_mod_bits a (a.len - 1) (by omega)

theorem pop_bits (a : BV) : a.pop.1.bits = a.bits.dropLast ∧ a.pop.2 = a.bits.getLast? :=
  ⟨pop_fst_bits a, pop_snd a⟩

-- ---- item 3 : `set` ------------------------------------------------------------------------------------
theorem set_bit (a : BV) (i j : Nat) (b : Bool) : (a.set i b).bit j = if j = i then b else a.bit j :=
  Edit.testBit_setBit a.val i j b

theorem set_len (a : BV) (i : Nat) (b : Bool) : (a.set i b).len = a.len := rfl

theorem set_wf (a : BV) (i : Nat) (b : Bool) (ha : a.WF) (hi : i < a.len) : (a.set i b).WF := by
  apply lv_wf_of_bits
  intro j hj
  rw [set_len] at hj
  rw [set_bit, if_neg (by omega)]
  exact bit_of_le_len a ha j hj

theorem set_bits (a : BV) (i : Nat) (b : Bool) (hi : i < a.len) : (a.set i b).bits = a.bits.set i b := by
  have _ := hi   -- (the equation also holds for `i ≥ len`, where both sides are `a.bits` — but then `set` is not WF)
  apply lv_bits_eq
  · rw [List.length_set, bits_length]; rfl
  · intro j h
    rw [List.getElem_set, set_bit, bits_getElem]
    by_cases hji : j = i
    · rw [if_pos hji, if_pos hji.symm]
    · rw [if_neg hji, if_neg (fun h => hji h.symm)]

-- ---- item 4 : `resize` ---------------------------------------------------------------------------------
theorem resize_bit (a : BV) (m : Nat) (b : Bool) (ha : a.WF) (i : Nat) :
    (a.resize m b).bit i = (decide (i < m) && if i < a.len then a.bit i else b) := by
  unfold resize
  split
  · rename_i h
    unfold bit
    simp only
    rw [Nat.testBit_mod_two_pow]
    by_cases hi : i < m
    · have : i < a.len := by omega
      simp [hi, this]
    · simp [hi]
  · rename_i h
    unfold bit
    simp only
    rw [Edit.testBit_extend a.val a.len m i b ha (by omega)]
    by_cases hi : i < a.len
    · have : i < m := by omega
      simp [hi, this]
    · simp [hi, Bool.and_comm]

theorem resize_wf (a : BV) (m : Nat) (b : Bool) (ha : a.WF) : (a.resize m b).WF := by
  apply lv_wf_of_bits
  intro i hi
  rw [resize_len] at hi
  rw [resize_bit a m b ha]
  have : ¬ i < m := by omega
  simp [this]

theorem resize_bits (a : BV) (m : Nat) (b : Bool) (ha : a.WF) :
    (a.resize m b).bits = (a.bits ++ List.replicate (m - a.len) b).take m := by
  apply lv_bits_eq
  · rw [List.length_take, List.length_append, List.length_replicate, bits_length, resize_len]; omega
  · intro i h
    have hi : i < m := by
      rw [List.length_take] at h; omega
    rw [List.getElem_take, List.getElem_append, resize_bit a m b ha]
    simp only [bits_length, bits_getElem, List.getElem_replicate, hi, decide_true, Bool.true_and]
    split <;> rfl

-- ---- item 5 : `truncate`, `signExtend` -----------------------------------------------------------------
theorem truncate_bits (a : BV) (m : Nat) : (a.truncate m).bits = a.bits.take m := by
  unfold truncate
  split
  · rename_i h
    unfold resize
    rw [if_pos (by omega)]
    exact lv_mod_bits a m (by omega)
  · rename_i h
    rw [List.take_of_length_le (by rw [bits_length]; omega)]

theorem truncate_wf (a : BV) (m : Nat) (ha : a.WF) : (a.truncate m).WF := by
  unfold truncate
  split
  · exact resize_wf a m false ha
  · exact ha

theorem truncate_len (a : BV) (m : Nat) : (a.truncate m).len = min m a.len := by
  unfold truncate
  split
  · rw [resize_len]; omega
  · omega

/-- the sign bit (`false` for the empty vector) is the last element of the list -/
theorem lv_sign_eq (a : BV) : (decide (a.len > 0) && a.bit (a.len - 1)) = a.bits.getLast?.getD false := by
  rw [← last_eq_getLast?]
  unfold last
  by_cases h : a.len = 0
  · simp [h]
  · have : a.len > 0 := by omega
    simp [h, this]

theorem signExtend_bits (a : BV) (m : Nat) (ha : a.WF) :
    (a.signExtend m).bits = a.bits ++ List.replicate (m - a.len) (a.bits.getLast?.getD false) := by
  unfold signExtend
  split
  · rename_i h
    rw [resize_bits a m _ ha, lv_sign_eq]
    apply List.take_of_length_le
    rw [List.length_append, List.length_replicate, bits_length]; omega
  · rename_i h
    have : m - a.len = 0 := by omega
    rw [this, List.replicate_zero, List.append_nil]

theorem signExtend_wf (a : BV) (m : Nat) (ha : a.WF) : (a.signExtend m).WF := by
  unfold signExtend
  split
  · exact resize_wf a m _ ha
  · exact ha

theorem signExtend_len (a : BV) (m : Nat) : (a.signExtend m).len = max m a.len := by
  unfold signExtend
  split
  · rw [resize_len]; omega
  · omega

-- ---- item 6 : `prepend` --------------------------------------------------------------------------------
theorem lv_prepend_eq_append (a x : BV) : a.prepend x = x.append a := by
  unfold prepend append
  rw [Nat.add_comm a.len]

theorem prepend_bits (a x : BV) (hx : x.WF) : (a.prepend x).bits = x.bits ++ a.bits := by
  rw [lv_prepend_eq_append, bits_append _ _ hx]

theorem prepend_wf (a x : BV) (ha : a.WF) (hx : x.WF) : (a.prepend x).WF := by
  rw [lv_prepend_eq_append]; exact append_wf x a hx ha

-- ---- item 7 : `insert` ---------------------------------------------------------------------------------
theorem lv_shr_lt (a : BV) (i : Nat) (ha : a.WF) (hi : i ≤ a.len) : a.val >>> i < 2 ^ (a.len - i) := by
  rw [Nat.shiftRight_eq_div_pow, Nat.div_lt_iff_lt_mul (Nat.two_pow_pos _), ← Nat.pow_add]
  have : a.len - i + i = a.len := by omega
  rw [this]; exact ha

/-- `insert` is: split at `i`, then append the low part, `x`, and the high part -/
theorem lv_insert_eq (a : BV) (i : Nat) (x : BV) (ha : a.WF) (hi : i ≤ a.len) :
    a.insert i x = ((a.splitOff i).1.append x).append (a.splitOff i).2 := by
  unfold insert splitOff append copyRange
  simp only
  rw [Nat.mod_eq_of_lt (lv_shr_lt a i ha hi)]
  congr 1
  omega

theorem lv_copyRange_wf (a : BV) (s e : Nat) : (a.copyRange s e).WF :=
  Nat.mod_lt _ (Nat.two_pow_pos _)

theorem insert_wf (a : BV) (i : Nat) (x : BV) (ha : a.WF) (hx : x.WF) (hi : i ≤ a.len) : (a.insert i x).WF := by
  rw [lv_insert_eq a i x ha hi]
  exact append_wf _ _ (append_wf _ _ (splitOff_fst_wf a i) hx) (lv_copyRange_wf a i a.len)

theorem insert_bits (a : BV) (i : Nat) (x : BV) (ha : a.WF) (hx : x.WF) (hi : i ≤ a.len) :
    (a.insert i x).bits = a.bits.take i ++ x.bits ++ a.bits.drop i := by
  rw [lv_insert_eq a i x ha hi, bits_append _ _ (append_wf _ _ (splitOff_fst_wf a i) hx),
    bits_append _ _ (splitOff_fst_wf a i)]
  have h1 : (a.splitOff i).1.bits = a.bits.take i := lv_mod_bits a i hi
  have h2 : (a.splitOff i).2.bits = a.bits.drop i := by
    show (a.copyRange i a.len).bits = _
    rw [copyRange_bits_list a i a.len (Nat.le_refl _)]
    apply List.take_of_length_le
    rw [List.length_drop, bits_length]; omega
  rw [h1, h2]

theorem insert_len (a : BV) (i : Nat) (x : BV) : (a.insert i x).len = a.len + x.len := rfl

-- ---- item 8 : `extend`, `ofBits` -----------------------------------------------------------------------
theorem lv_extend_both (bs : List Bool) : ∀ (a : BV), a.WF → (a.extend bs).bits = a.bits ++ bs ∧ (a.extend bs).WF := by
  induction bs with
  | nil => intro a ha; exact ⟨by simp [extend], ha⟩
  | cons b bs ih =>
    intro a ha
    have h := ih (a.push b) (push_wf a b ha)
    have e : a.extend (b :: bs) = (a.push b).extend bs := rfl
    rw [e]
    refine ⟨?_, h.2⟩
    rw [h.1, push_bits a b ha, List.append_assoc]
    rfl

theorem extend_bits (a : BV) (bs : List Bool) (ha : a.WF) : (a.extend bs).bits = a.bits ++ bs :=
  (lv_extend_both bs a ha).1

theorem extend_wf (a : BV) (bs : List Bool) (ha : a.WF) : (a.extend bs).WF :=
  (lv_extend_both bs a ha).2

theorem lv_ofBits_cons (b : Bool) (bs : List Bool) :
    ofBits (b :: bs) = (BV.mk 1 b.toNat).append (ofBits bs) := by
  show BV.mk ((ofBits bs).len + 1) (b.toNat + 2 * (ofBits bs).val) = _
  unfold append
  simp only
  rw [Nat.add_comm 1, Nat.pow_one, Nat.mul_comm]

theorem lv_ofBits_both (bs : List Bool) : (ofBits bs).bits = bs ∧ (ofBits bs).WF := by
  induction bs with
  | nil => exact ⟨rfl, by decide⟩
  | cons b bs ih =>
    rw [lv_ofBits_cons]
    refine ⟨?_, append_wf _ _ (lv_single_wf b) ih.2⟩
    rw [bits_append _ _ (lv_single_wf b), lv_bits_single, ih.1]
    rfl

theorem ofBits_bits (bs : List Bool) : (ofBits bs).bits = bs := (lv_ofBits_both bs).1

theorem ofBits_wf (bs : List Bool) : (ofBits bs).WF := (lv_ofBits_both bs).2

theorem ofBits_len (bs : List Bool) : (ofBits bs).len = bs.length := by
  rw [← bits_length, ofBits_bits]

theorem lv_zeros_wf (n : Nat) : (zeros n).WF := Nat.two_pow_pos n

theorem extend_zeros_eq_ofBits (bs : List Bool) : extend (zeros 0) bs = ofBits bs := by
  apply eq_of_bits _ _ (extend_wf _ bs (lv_zeros_wf 0)) (ofBits_wf bs)
  rw [extend_bits _ bs (lv_zeros_wf 0), ofBits_bits]
  rfl

/-- `ofBits` inverts `bits` on well-formed vectors -/
theorem ofBits_bits_self (a : BV) (ha : a.WF) : ofBits a.bits = a :=
  eq_of_bits _ _ (ofBits_wf _) ha (ofBits_bits _)

-- ---- item 10 : rotations -------------------------------------------------------------------------------
theorem lv_bits_nil (a : BV) (h : a.len = 0) : a.bits = [] :=
  List.eq_nil_of_length_eq_zero (by rw [bits_length]; exact h)

/-- `rotl k` moves the top `k` bits to the bottom -/
theorem rotl_bits (a : BV) (k : Nat) (ha : a.WF) (hk : k ≤ a.len) :
    (a.rotl k).bits = a.bits.drop (a.len - k) ++ a.bits.take (a.len - k) := by
  by_cases hl : a.len = 0
  · have e : a.rotl k = a := by unfold rotl; rw [if_pos hl]
    rw [e, lv_bits_nil a hl]; simp
  · apply lv_bits_eq
    · rw [List.length_append, List.length_drop, List.length_take, bits_length, rotl_len]; omega
    · intro i h
      have hi : i < a.len := by
        rw [List.length_append, List.length_drop, List.length_take, bits_length] at h; omega
      rw [rotl_bit a k i ha hk (by omega), List.getElem_append]
      simp only [List.length_drop, bits_length, List.getElem_drop, List.getElem_take, bits_getElem]
      have e : a.len - (a.len - k) = k := by omega
      simp only [e, hi, decide_true, Bool.true_and]
      split <;> rfl

/-- `rotr k` moves the bottom `k` bits to the top -/
theorem rotr_bits (a : BV) (k : Nat) (ha : a.WF) (hk : k ≤ a.len) :
    (a.rotr k).bits = a.bits.drop k ++ a.bits.take k := by
  by_cases hl : a.len = 0
  · have e : a.rotr k = a := by unfold rotr; rw [if_pos hl]
    rw [e, lv_bits_nil a hl]; simp
  · apply lv_bits_eq
    · rw [List.length_append, List.length_drop, List.length_take, bits_length, rotr_len]; omega
    · intro i h
      have hi : i < a.len := by
        rw [List.length_append, List.length_drop, List.length_take, bits_length] at h; omega
      rw [rotr_bit a k i ha hk (by omega), List.getElem_append]
      simp only [List.length_drop, bits_length, List.getElem_drop, List.getElem_take, bits_getElem]
      simp only [hi, decide_true, Bool.true_and, Nat.add_comm k i]
      split <;> rfl

theorem lv_count_rot (l : List Bool) (n : Nat) (b : Bool) : (l.drop n ++ l.take n).count b = l.count b := by
  conv => rhs; rw [← List.take_append_drop n l]
  rw [List.count_append, List.count_append, Nat.add_comm]

/-- rotation keeps the number of `true` (and of `false`) bits -/
theorem rotl_count (a : BV) (k : Nat) (ha : a.WF) (hk : k ≤ a.len) (b : Bool) :
    (a.rotl k).bits.count b = a.bits.count b := by
  rw [rotl_bits a k ha hk, lv_count_rot]

theorem rotr_count (a : BV) (k : Nat) (ha : a.WF) (hk : k ≤ a.len) (b : Bool) :
    (a.rotr k).bits.count b = a.bits.count b := by
  rw [rotr_bits a k ha hk, lv_count_rot]

/-- rotation permutes the bits -/
theorem rotl_perm (a : BV) (k : Nat) (ha : a.WF) (hk : k ≤ a.len) : (a.rotl k).bits.Perm a.bits := by
  rw [rotl_bits a k ha hk]
  exact List.perm_append_comm.trans (List.take_append_drop _ _ ▸ List.Perm.refl _)

theorem rotr_perm (a : BV) (k : Nat) (ha : a.WF) (hk : k ≤ a.len) : (a.rotr k).bits.Perm a.bits := by
  rw [rotr_bits a k ha hk]
  exact List.perm_append_comm.trans (List.take_append_drop _ _ ▸ List.Perm.refl _)

end BV
end Bva
