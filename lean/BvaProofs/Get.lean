import BvaProofs.Bits
import BvaModel.Step
/-! `get` reads exactly the abstract bit -/
namespace Bva
variable {w : Nat}

theorem and_one_ne_zero (x : BitVec w) (k : Nat) :
    ((x >>> k) &&& 1#w != 0#w) = x.getLsbD k := by
  by_cases hw : w = 0
  · subst hw; simp [BitVec.eq_nil x]
  have h1 : ((x >>> k) &&& 1#w) = if x.getLsbD k then 1#w else 0#w := by
    apply BitVec.eq_of_getLsbD_eq
    intro i hi
    simp only [BitVec.getLsbD_and, BitVec.getLsbD_ushiftRight, BitVec.getLsbD_one]
    by_cases h0 : i = 0
    · subst h0; by_cases hb : x.getLsbD k <;> simp [hb]
    · by_cases hb : x.getLsbD k <;> simp [hb, h0]
  rw [h1]
  by_cases hb : x.getLsbD k
  · simp [hb]; omega
  · simp [hb]

theorem Raw.get_eq_bitAt (s : Raw w) (i : Nat) : s.get i = bitAt s.data i := by
  unfold Raw.get bitAt; exact and_one_ne_zero _ _

theorem bitAt_oob (ws : Array (BitVec w)) (i : Nat) (h : ws.size * w ≤ i) (hw : 0 < w) : bitAt ws i = false := by
  unfold bitAt wd
  have : ws.size ≤ i / w := (Nat.le_div_iff_mul_le hw).mpr h
  simp [Array.getD_eq_getD_getElem?, Array.getElem?_eq_none this]

theorem Raw.abs_bit (s : Raw w) (i : Nat) (hw : 0 < w) : s.abs.bit i = bitAt s.data i := by
  unfold Raw.abs BV.bit valAll
  simp only
  rw [testBit_valUpTo hw]
  by_cases h : i < w * s.data.size
  · simp [h]
  · simp [h]; rw [bitAt_oob _ _ (by rw [Nat.mul_comm]; omega) hw]

/-- word widths of the vector are positive (true of every Rust instantiation) -/
def Vec.WPos : Vec → Prop
  | .f w _ => 0 < w
  | _ => True

theorem Api.get_eq_bit (v : Vec) (hw : v.WPos) (i : Nat) : Api.get v i = v.abs.bit i := by
  cases v with
  | f w r => simp only [Api.get, Vec.withRaw, Vec.abs]; rw [Raw.get_eq_bitAt, Raw.abs_bit _ _ hw]
  | d r => simp only [Api.get, Vec.withRaw, Vec.abs]; rw [Raw.get_eq_bitAt, Raw.abs_bit _ _ (by decide)]
  | a b => simp only [Api.get, Vec.withRaw, Vec.abs, Bv.abs]; rw [Raw.get_eq_bitAt, Raw.abs_bit _ _ (by decide)]
end Bva
