import BvaProofs.Base
import BvaModel.Step
/-! `get` reads exactly the abstract bit -/
namespace Bva
variable {w : Nat}

/-- word widths of the vector are positive (true of every Rust instantiation) -/
def Vec.WPos : Vec → Prop
  | .f w _ => 0 < w
  | _ => True

theorem Api.get_eq_bit (v : Vec) (hw : v.WPos) (i : Nat) : Api.get v i = v.abs.bit i := by
  cases v with
  | f w r => simp only [Api.get, Vec.withRaw, Vec.abs]; rw [Raw.get_eq_bitAt, Raw.abs_bit _ _ hw]
  | d r => simp only [Api.get, Vec.withRaw, Vec.abs]; rw [Raw.get_eq_bitAt, Raw.abs_bit _ _ (by decide)]
  | a b => simp only [Api.get, Vec.withRaw, Vec.abs, Bv.abs]; rw [Raw.get_eq_bitAt, Raw.abs_bit _ _ (by decide)]
end Bva
