import BvaProofs.Base
/-!
# T4 — rotations: `Raw.rotl`, `Raw.rotr` refine `BV.rotl`, `BV.rotr`
-/
namespace Bva
variable {w : Nat}

-- ---- small helpers ----------------------------------------------------------------------------------
theorem rot_size_orBits (ws : Array (BitVec w)) (pos : Nat) (d : BitVec w) :
    (orBits ws pos d).size = ws.size := by
  simp [orBits]

theorem rot_bitAt_replicate_zero (n i : Nat) : bitAt (Array.replicate n 0#w) i = false := by
  unfold bitAt wd
  by_cases h : i / w < n <;> simp [Array.getD_eq_getD_getElem?, h]

/-- `(j + k) % n` for `j < n`, `k ≤ n` without `%` -/
theorem rot_add_mod_cases (n j k : Nat) (hj : j < n) (hk : k ≤ n) :
    (j + k) % n = if j + k < n then j + k else j + k - n := by
  split
  · rename_i h; exact Nat.mod_eq_of_lt h
  · rw [Nat.mod_eq_sub_mod (by omega), Nat.mod_eq_of_lt (by omega)]

/-- `j ↦ (j + k) % n` is injective on `[0, n)` (any `k`) -/
theorem rot_add_mod_inj (n i j k : Nat) (hi : i < n) (hj : j < n)
    (h : (j + k) % n = (i + k) % n) : j = i := by
  have e1 := Nat.div_add_mod (j + k) n
  have e2 := Nat.div_add_mod (i + k) n
  rw [h] at e1
  rcases Nat.lt_trichotomy ((j + k) / n) ((i + k) / n) with hlt | heq | hgt
  · have := Nat.mul_le_mul_left n (Nat.succ_le_of_lt hlt)
    rw [Nat.mul_succ] at this
    omega
  · rw [heq] at e1; omega
  · have := Nat.mul_le_mul_left n (Nat.succ_le_of_lt hgt)
    rw [Nat.mul_succ] at this
    omega

/-- target index of source bit `j` -/
def rotTgt (length rot j : Nat) : Nat := (j + rot) % length

theorem rotTgt_add (length rot j k : Nat) (hk : rotTgt length rot j + k < length) :
    rotTgt length rot (j + k) = rotTgt length rot j + k := by
  unfold rotTgt at *
  have hl : 0 < length := by omega
  rw [show j + k + rot = (j + rot) + k by omega, Nat.add_mod]
  have : k % length = k := Nat.mod_eq_of_lt (by omega)
  rw [this, Nat.mod_eq_of_lt hk]

-- ---- the `rotl` loop ----------------------------------------------------------------------------------
theorem Raw.rotlLoop_size (old new : Array (BitVec w)) (rot length oldIdx : Nat) :
    (Raw.rotlLoop old new rot length oldIdx).size = new.size := by
  fun_induction Raw.rotlLoop old new rot length oldIdx with
  | case1 new oldIdx hlt newIdx l ih => rw [ih, rot_size_orBits]
  | case2 new oldIdx hlt => rfl

theorem Raw.rotlLoop_spec (hw : 0 < w) (old : Array (BitVec w)) (length rot : Nat)
    (new : Array (BitVec w)) (oldIdx : Nat) (hsz : length ≤ new.size * w)
    (hinv : ∀ i, bitAt new i = true ↔
      ∃ j, j < oldIdx ∧ j < length ∧ rotTgt length rot j = i ∧ bitAt old j = true) :
    ∀ i, bitAt (Raw.rotlLoop old new rot length oldIdx) i = true ↔
      ∃ j, j < length ∧ rotTgt length rot j = i ∧ bitAt old j = true := by
  fun_induction Raw.rotlLoop old new rot length oldIdx with
  | case1 new oldIdx hlt newIdx l ih =>
    have hl0 : 0 < length := by omega
    have hn : newIdx < length := Nat.mod_lt _ hl0
    have m1 := Nat.mod_lt oldIdx hw
    have m2 := Nat.mod_lt newIdx hw
    have hl1 : 0 < l := by simp only [l]; omega
    have hf1 : newIdx % w + l ≤ w := by simp only [l]; omega
    have hf2 : oldIdx % w + l ≤ w := by simp only [l]; omega
    have hb1 : newIdx + l ≤ length := by simp only [l]; omega
    have hb2 : oldIdx + l ≤ length := by simp only [l]; omega
    have hin : newIdx / w < new.size := by
      apply div_lt_of_lt_mul _ _ hw; omega
    apply ih (by rw [rot_size_orBits]; exact hsz)
    intro i
    rw [bitAt_orBits new newIdx l i _ hw hf1 hin (fun j hj => readBits_high old _ l j hj)]
    rw [Bool.or_eq_true, hinv i, Bool.and_eq_true, decide_eq_true_eq,
      getLsbD_readBits old _ l _ hw hf2, Bool.and_eq_true, decide_eq_true_eq]
    constructor
    · rintro (⟨j, h1, h2, h3, h4⟩ | ⟨⟨h1, h2⟩, h3, h4⟩)
      · exact ⟨j, by omega, h2, h3, h4⟩
      · refine ⟨oldIdx + (i - newIdx), by omega, by omega, ?_, h4⟩
        rw [rotTgt_add _ _ _ _ (by show newIdx + (i - newIdx) < length; omega)]
        show newIdx + (i - newIdx) = i
        omega
    · rintro ⟨j, h1, h2, h3, h4⟩
      by_cases hj : j < oldIdx
      · exact Or.inl ⟨j, hj, h2, h3, h4⟩
      · right
        have e : j = oldIdx + (j - oldIdx) := by omega
        have hnew : rotTgt length rot oldIdx = newIdx := rfl
        have ht : rotTgt length rot j = newIdx + (j - oldIdx) := by
          rw [e, rotTgt_add _ _ _ _ (by rw [hnew]; omega), hnew]
          omega
        have e2 : i - newIdx = j - oldIdx := by omega
        refine ⟨by omega, by omega, ?_⟩
        rw [e2, ← e]; exact h4
  | case2 new oldIdx hlt =>
    intro i
    rw [hinv i]
    constructor
    · rintro ⟨j, _, h2, h3, h4⟩; exact ⟨j, h2, h3, h4⟩
    · rintro ⟨j, h2, h3, h4⟩; exact ⟨j, by omega, h2, h3, h4⟩

-- ---- `rotl` ---------------------------------------------------------------------------------------
theorem Raw.rotl_length (s : Raw w) (k : Nat) : (s.rotl k).length = s.length := rfl

theorem Raw.rotl_size (s : Raw w) (k : Nat) : (s.rotl k).data.size = s.data.size := by
  unfold Raw.rotl
  simp only [Raw.rotlLoop_size, Array.size_replicate]

/-- relational characterisation of the result of `rotl` (any `k`) -/
theorem Raw.rotl_bit_iff (s : Raw w) (hw : 0 < w) (h : s.Inv) (k i : Nat) :
    bitAt (s.rotl k).data i = true ↔
      ∃ j, j < s.length ∧ (j + k) % s.length = i ∧ bitAt s.data j = true := by
  unfold Raw.rotl
  apply Raw.rotlLoop_spec hw _ _ _ _ _ (by rw [Array.size_replicate]; exact h.1)
  intro i
  rw [rot_bitAt_replicate_zero]
  simp

/-- source bit `i` lands at `(i + k) % length` -/
theorem Raw.rotl_bits (s : Raw w) (hw : 0 < w) (h : s.Inv) (k i : Nat) (hi : i < s.length) :
    bitAt (s.rotl k).data ((i + k) % s.length) = bitAt s.data i := by
  rw [Bool.eq_iff_iff, Raw.rotl_bit_iff s hw h]
  constructor
  · rintro ⟨j, h1, h2, h3⟩
    have := rot_add_mod_inj _ _ _ _ hi h1 h2
    subst this; exact h3
  · intro h3; exact ⟨i, hi, rfl, h3⟩

/-- nothing is written at or above `length` -/
theorem Raw.rotl_high (s : Raw w) (hw : 0 < w) (h : s.Inv) (k i : Nat) (hi : s.length ≤ i) :
    bitAt (s.rotl k).data i = false := by
  rw [Bool.eq_false_iff]
  intro ht
  obtain ⟨j, h1, h2, _⟩ := (Raw.rotl_bit_iff s hw h k i).mp ht
  have := Nat.mod_lt (j + k) (show 0 < s.length by omega)
  omega

theorem Raw.rotl_inv (s : Raw w) (hw : 0 < w) (h : s.Inv) (k : Nat) : (s.rotl k).Inv :=
  ⟨by rw [Raw.rotl_size, Raw.rotl_length]; exact h.1, fun i hi => Raw.rotl_high s hw h k i hi⟩

/-- empty vector: the result is the fresh all-zero storage -/
theorem Raw.rotl_data_of_length_zero (s : Raw w) (k : Nat) (h0 : s.length = 0) :
    (s.rotl k).data = Array.replicate s.data.size 0#w := by
  unfold Raw.rotl
  simp only
  rw [Raw.rotlLoop, h0]
  simp

-- ---- bits of the specification ---------------------------------------------------------------------
theorem BV.rotl_bit (a : BV) (k i : Nat) (hwf : a.WF) (hk : k ≤ a.len) (hl : 0 < a.len) :
    (a.rotl k).bit i =
      if i < k then a.bit (a.len - k + i) else (decide (i < a.len) && a.bit (i - k)) := by
  unfold BV.rotl BV.bit
  rw [if_neg (by omega)]
  simp only
  have e : (a.val <<< k) % 2 ^ a.len = 2 ^ k * (a.val % 2 ^ (a.len - k)) := by
    rw [Nat.shiftLeft_eq, Nat.mul_comm a.val]
    have : 2 ^ a.len = 2 ^ k * 2 ^ (a.len - k) := by rw [← Nat.pow_add]; congr 1; omega
    rw [this, Nat.mul_mod_mul_left]
  have hlt : a.val >>> (a.len - k) < 2 ^ k := by
    rw [Nat.shiftRight_eq_div_pow, Nat.div_lt_iff_lt_mul (Nat.two_pow_pos _), ← Nat.pow_add]
    have : k + (a.len - k) = a.len := by omega
    rw [this]; exact hwf
  rw [e, Nat.testBit_two_pow_mul_add _ hlt]
  split
  · rw [Nat.testBit_shiftRight]
  · rw [Nat.testBit_mod_two_pow]
    congr 1
    rw [decide_eq_decide]; omega

theorem BV.rotr_bit (a : BV) (k i : Nat) (hwf : a.WF) (hk : k ≤ a.len) (hl : 0 < a.len) :
    (a.rotr k).bit i =
      if i < a.len - k then a.bit (i + k)
      else (decide (i < a.len) && a.bit (i - (a.len - k))) := by
  unfold BV.rotr BV.bit
  rw [if_neg (by omega)]
  simp only
  have hlt : a.val >>> k < 2 ^ (a.len - k) := by
    rw [Nat.shiftRight_eq_div_pow, Nat.div_lt_iff_lt_mul (Nat.two_pow_pos _), ← Nat.pow_add]
    have : a.len - k + k = a.len := by omega
    rw [this]; exact hwf
  rw [Nat.shiftLeft_eq, Nat.mul_comm, Nat.add_comm, Nat.testBit_two_pow_mul_add _ hlt]
  split
  · rw [Nat.testBit_shiftRight, Nat.add_comm]
  · rw [Nat.testBit_mod_two_pow]
    congr 1
    rw [decide_eq_decide]; omega

theorem BV.rotl_len (a : BV) (k : Nat) : (a.rotl k).len = a.len := by
  unfold BV.rotl; split <;> rfl

theorem BV.rotr_len (a : BV) (k : Nat) : (a.rotr k).len = a.len := by
  unfold BV.rotr; split <;> rfl

-- ---- `rotl` refines `BV.rotl` -----------------------------------------------------------------------
theorem Raw.rotl_refines (s : Raw w) (hw : 0 < w) (h : s.Inv) (k : Nat) (hk : k ≤ s.length) :
    (s.rotl k).Inv ∧ (s.rotl k).abs = s.abs.rotl k := by
  refine ⟨Raw.rotl_inv s hw h k, ?_⟩
  have hlen : s.abs.len = s.length := rfl
  by_cases h0 : s.length = 0
  · have e : s.abs.rotl k = s.abs := by
      unfold BV.rotl; rw [if_pos (by rw [hlen]; exact h0)]
    rw [e]
    apply Raw.abs_eq_of_bits (s.rotl k) s hw hw rfl
    intro i
    rw [Raw.rotl_high s hw h k i (by omega), h.2 i (by omega)]
  · apply BV.ext_bits
    · rw [BV.rotl_len]; rfl
    · intro i
      rw [BV.rotl_bit _ _ _ (h.wf hw) hk (by rw [hlen]; omega), Raw.abs_bit _ _ hw, hlen]
      by_cases hik : i < k
      · rw [if_pos hik, Raw.abs_bit _ _ hw]
        have := Raw.rotl_bits s hw h k (s.length - k + i) (by omega)
        rw [rot_add_mod_cases _ _ _ (by omega) hk, if_neg (by omega)] at this
        rw [← this]; congr 1; omega
      · rw [if_neg hik, Raw.abs_bit _ _ hw]
        by_cases hin : i < s.length
        · have := Raw.rotl_bits s hw h k (i - k) (by omega)
          rw [rot_add_mod_cases _ _ _ (by omega) hk, if_pos (by omega)] at this
          simp only [hin, decide_true, Bool.true_and]
          rw [← this]; congr 1; omega
        · rw [Raw.rotl_high s hw h k i (by omega)]; simp [hin]

-- ---- the `rotr` loop ----------------------------------------------------------------------------------
theorem Raw.rotrLoop_size (old new : Array (BitVec w)) (rot length newIdx : Nat) :
    (Raw.rotrLoop old new rot length newIdx).size = new.size := by
  fun_induction Raw.rotrLoop old new rot length newIdx with
  | case1 new newIdx hlt oldIdx l ih => rw [ih, rot_size_orBits]
  | case2 new newIdx hlt => rfl

theorem Raw.rotrLoop_spec (hw : 0 < w) (old : Array (BitVec w)) (length rot : Nat)
    (new : Array (BitVec w)) (newIdx : Nat) (hsz : length ≤ new.size * w) (hle : newIdx ≤ length)
    (hinv : ∀ i, bitAt new i = (decide (i < newIdx) && bitAt old ((i + rot) % length))) :
    ∀ i, bitAt (Raw.rotrLoop old new rot length newIdx) i =
      (decide (i < length) && bitAt old ((i + rot) % length)) := by
  fun_induction Raw.rotrLoop old new rot length newIdx with
  | case1 new newIdx hlt oldIdx l ih =>
    have hl0 : 0 < length := by omega
    have hn : oldIdx < length := Nat.mod_lt _ hl0
    have m1 := Nat.mod_lt oldIdx hw
    have m2 := Nat.mod_lt newIdx hw
    have hl1 : 0 < l := by simp only [l]; omega
    have hf1 : newIdx % w + l ≤ w := by simp only [l]; omega
    have hf2 : oldIdx % w + l ≤ w := by simp only [l]; omega
    have hb1 : newIdx + l ≤ length := by simp only [l]; omega
    have hb2 : oldIdx + l ≤ length := by simp only [l]; omega
    have hin : newIdx / w < new.size := by
      apply div_lt_of_lt_mul _ _ hw; omega
    apply ih (by rw [rot_size_orBits]; exact hsz) hb1
    intro i
    rw [bitAt_orBits new newIdx l i _ hw hf1 hin (fun j hj => readBits_high old _ l j hj), hinv i,
      getLsbD_readBits old _ l _ hw hf2]
    by_cases h1 : i < newIdx
    · have h2 : i < newIdx + l := by omega
      have h3 : ¬ newIdx ≤ i := by omega
      simp [h1, h2, h3]
    · by_cases h2 : i < newIdx + l
      · have h3 : newIdx ≤ i := by omega
        have h4 : i - newIdx < l := by omega
        have e : oldIdx + (i - newIdx) = (i + rot) % length := by
          have := rotTgt_add length rot newIdx (i - newIdx)
            (by show oldIdx + (i - newIdx) < length; omega)
          unfold rotTgt at this
          rw [← this]; congr 2; omega
        simp [h1, h2, h3, h4, e]
      · simp [h1, h2]
  | case2 new newIdx hlt =>
    intro i
    rw [hinv i]
    have : newIdx = length := by omega
    rw [this]

-- ---- `rotr` ---------------------------------------------------------------------------------------
theorem Raw.rotr_length (s : Raw w) (k : Nat) : (s.rotr k).length = s.length := rfl

theorem Raw.rotr_size (s : Raw w) (k : Nat) : (s.rotr k).data.size = s.data.size := by
  unfold Raw.rotr
  simp only [Raw.rotrLoop_size, Array.size_replicate]

/-- every storage bit of the result of `rotr` (any `k`) -/
theorem Raw.rotr_bit_eq (s : Raw w) (hw : 0 < w) (h : s.Inv) (k i : Nat) :
    bitAt (s.rotr k).data i = (decide (i < s.length) && bitAt s.data ((i + k) % s.length)) := by
  unfold Raw.rotr
  apply Raw.rotrLoop_spec hw _ _ _ _ _ (by rw [Array.size_replicate]; exact h.1) (Nat.zero_le _)
  intro i
  rw [rot_bitAt_replicate_zero]
  simp

/-- result bit `i` comes from `(i + k) % length` -/
theorem Raw.rotr_bits (s : Raw w) (hw : 0 < w) (h : s.Inv) (k i : Nat) (hi : i < s.length) :
    bitAt (s.rotr k).data i = bitAt s.data ((i + k) % s.length) := by
  rw [Raw.rotr_bit_eq s hw h]; simp [hi]

theorem Raw.rotr_high (s : Raw w) (hw : 0 < w) (h : s.Inv) (k i : Nat) (hi : s.length ≤ i) :
    bitAt (s.rotr k).data i = false := by
  rw [Raw.rotr_bit_eq s hw h]
  have : ¬ i < s.length := by omega
  simp [this]

theorem Raw.rotr_inv (s : Raw w) (hw : 0 < w) (h : s.Inv) (k : Nat) : (s.rotr k).Inv :=
  ⟨by rw [Raw.rotr_size, Raw.rotr_length]; exact h.1, fun i hi => Raw.rotr_high s hw h k i hi⟩

theorem Raw.rotr_data_of_length_zero (s : Raw w) (k : Nat) (h0 : s.length = 0) :
    (s.rotr k).data = Array.replicate s.data.size 0#w := by
  unfold Raw.rotr
  simp only
  rw [Raw.rotrLoop, h0]
  simp

theorem Raw.rotr_refines (s : Raw w) (hw : 0 < w) (h : s.Inv) (k : Nat) (hk : k ≤ s.length) :
    (s.rotr k).Inv ∧ (s.rotr k).abs = s.abs.rotr k := by
  refine ⟨Raw.rotr_inv s hw h k, ?_⟩
  have hlen : s.abs.len = s.length := rfl
  by_cases h0 : s.length = 0
  · have e : s.abs.rotr k = s.abs := by
      unfold BV.rotr; rw [if_pos (by rw [hlen]; exact h0)]
    rw [e]
    apply Raw.abs_eq_of_bits (s.rotr k) s hw hw rfl
    intro i
    rw [Raw.rotr_high s hw h k i (by omega), h.2 i (by omega)]
  · apply BV.ext_bits
    · rw [BV.rotr_len]; rfl
    · intro i
      rw [BV.rotr_bit _ _ _ (h.wf hw) hk (by rw [hlen]; omega), Raw.abs_bit _ _ hw, hlen,
        Raw.rotr_bit_eq s hw h]
      by_cases hin : i < s.length
      · rw [rot_add_mod_cases _ _ _ hin hk]
        by_cases hik : i < s.length - k
        · rw [if_pos hik, if_pos (by omega), Raw.abs_bit _ _ hw]; simp [hin]
        · rw [if_neg hik, if_neg (by omega), Raw.abs_bit _ _ hw]
          congr 2; omega
      · have : ¬ i < s.length - k := by omega
        simp [hin, this]

-- ---- spec-level corollaries -----------------------------------------------------------------------
theorem BV.bit_of_le_len (a : BV) (hwf : a.WF) (i : Nat) (hi : a.len ≤ i) : a.bit i = false :=
  Nat.testBit_lt_two_pow (Nat.lt_of_lt_of_le hwf (Nat.pow_le_pow_right (by omega) hi))

theorem BV.rotl_wf (a : BV) (k : Nat) (hwf : a.WF) (hk : k ≤ a.len) : (a.rotl k).WF := by
  by_cases h0 : a.len = 0
  · unfold BV.rotl; rw [if_pos h0]; exact hwf
  · unfold BV.WF
    apply Nat.lt_pow_two_of_testBit
    intro i hi
    rw [BV.rotl_len] at hi
    have := BV.rotl_bit a k i hwf hk (by omega)
    rw [if_neg (by omega)] at this
    unfold BV.bit at this
    rw [this]
    have : ¬ i < a.len := by omega
    simp [this]

theorem BV.rotr_wf (a : BV) (k : Nat) (hwf : a.WF) (hk : k ≤ a.len) : (a.rotr k).WF := by
  by_cases h0 : a.len = 0
  · unfold BV.rotr; rw [if_pos h0]; exact hwf
  · unfold BV.WF
    apply Nat.lt_pow_two_of_testBit
    intro i hi
    rw [BV.rotr_len] at hi
    have := BV.rotr_bit a k i hwf hk (by omega)
    rw [if_neg (by omega)] at this
    unfold BV.bit at this
    rw [this]
    have : ¬ i < a.len := by omega
    simp [this]

theorem BV.rotr_rotl (a : BV) (k : Nat) (hwf : a.WF) (hk : k ≤ a.len) :
    BV.rotr (BV.rotl a k) k = a := by
  by_cases h0 : a.len = 0
  · have e : a.rotl k = a := by unfold BV.rotl; rw [if_pos h0]
    rw [e]; unfold BV.rotr; rw [if_pos h0]
  · apply BV.ext_bits
    · rw [BV.rotr_len, BV.rotl_len]
    · intro i
      have hb := BV.rotl_wf a k hwf hk
      rw [BV.rotr_bit _ _ _ hb (by rw [BV.rotl_len]; exact hk) (by rw [BV.rotl_len]; omega),
        BV.rotl_len]
      by_cases h1 : i < a.len - k
      · rw [if_pos h1, BV.rotl_bit _ _ _ hwf hk (by omega), if_neg (by omega)]
        have : i + k < a.len := by omega
        simp [this]
      · rw [if_neg h1, BV.rotl_bit _ _ _ hwf hk (by omega)]
        by_cases h2 : i < a.len
        · rw [if_pos (by omega)]
          simp only [h2, decide_true, Bool.true_and]
          congr 1; omega
        · rw [BV.bit_of_le_len a hwf i (by omega)]; simp [h2]

theorem BV.rotl_rotr (a : BV) (k : Nat) (hwf : a.WF) (hk : k ≤ a.len) :
    BV.rotl (BV.rotr a k) k = a := by
  by_cases h0 : a.len = 0
  · have e : a.rotr k = a := by unfold BV.rotr; rw [if_pos h0]
    rw [e]; unfold BV.rotl; rw [if_pos h0]
  · apply BV.ext_bits
    · rw [BV.rotl_len, BV.rotr_len]
    · intro i
      have hb := BV.rotr_wf a k hwf hk
      rw [BV.rotl_bit _ _ _ hb (by rw [BV.rotr_len]; exact hk) (by rw [BV.rotr_len]; omega),
        BV.rotr_len]
      by_cases h1 : i < k
      · rw [if_pos h1, BV.rotr_bit _ _ _ hwf hk (by omega), if_neg (by omega)]
        have : a.len - k + i < a.len := by omega
        simp only [this, decide_true, Bool.true_and]
        congr 1; omega
      · rw [if_neg h1]
        by_cases h2 : i < a.len
        · rw [BV.rotr_bit _ _ _ hwf hk (by omega), if_pos (by omega)]
          simp only [h2, decide_true, Bool.true_and]
          congr 1; omega
        · rw [BV.bit_of_le_len a hwf i (by omega)]; simp [h2]

theorem BV.rotl_eq_rotr (a : BV) (k : Nat) (hwf : a.WF) (hk : k ≤ a.len) :
    BV.rotl a k = BV.rotr a (a.len - k) := by
  by_cases h0 : a.len = 0
  · unfold BV.rotl BV.rotr; rw [if_pos h0, if_pos h0]
  · apply BV.ext_bits
    · rw [BV.rotl_len, BV.rotr_len]
    · intro i
      rw [BV.rotl_bit _ _ _ hwf hk (by omega), BV.rotr_bit _ _ _ hwf (by omega) (by omega)]
      have e : a.len - (a.len - k) = k := by omega
      rw [e]
      by_cases h1 : i < k
      · rw [if_pos h1, if_pos h1]; congr 1; omega
      · rw [if_neg h1, if_neg h1]

end Bva
