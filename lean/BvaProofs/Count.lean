import BvaProofs.Base
import BvaModel.Dynamic
/-!
# T8 — bit-count queries: `leadingZeros`, `leadingOnes`, `trailingZeros`, `trailingOnes`, `sigBits`, `isZero`
-/
namespace Bva
variable {w : Nat}

-- ---- characterisation of `natBits` and `natTz` by bits ------------------------------------------------

/-- `m` is the number of significant positions of the bit function `f` -/
def IsSig (f : Nat → Bool) (m : Nat) : Prop :=
  (∀ j, m ≤ j → f j = false) ∧ (m = 0 ∨ f (m - 1) = true)

/-- `t` is the number of trailing zero positions of `f`, capped at `n` -/
def IsTz (f : Nat → Bool) (n t : Nat) : Prop :=
  t ≤ n ∧ (∀ j, j < t → f j = false) ∧ (t < n → f t = true)

theorem IsSig.unique {f : Nat → Bool} {m m' : Nat} (h : IsSig f m) (h' : IsSig f m') : m = m' := by
  obtain ⟨h1, h2⟩ := h
  obtain ⟨h1', h2'⟩ := h'
  by_cases hlt : m < m'
  · rcases h2' with h0 | ht
    · omega
    · rw [h1 (m' - 1) (by omega)] at ht; cases ht
  · by_cases hgt : m' < m
    · rcases h2 with h0 | ht
      · omega
      · rw [h1' (m - 1) (by omega)] at ht; cases ht
    · omega

theorem IsTz.unique {f : Nat → Bool} {n t t' : Nat} (h : IsTz f n t) (h' : IsTz f n t') : t = t' := by
  obtain ⟨h0, h1, h2⟩ := h
  obtain ⟨h0', h1', h2'⟩ := h'
  by_cases hlt : t < t'
  · have := h2 (by omega)
    rw [h1' t hlt] at this; cases this
  · by_cases hgt : t' < t
    · have := h2' (by omega)
      rw [h1 t' hgt] at this; cases this
    · omega

theorem IsSig.congr {f g : Nat → Bool} {m : Nat} (hfg : ∀ j, f j = g j) (h : IsSig f m) : IsSig g m := by
  have : f = g := funext hfg
  rw [← this]; exact h

theorem IsTz.congr {f g : Nat → Bool} {n t : Nat} (hfg : ∀ j, j < n → f j = g j) (h : IsTz f n t) :
    IsTz g n t := by
  obtain ⟨h0, h1, h2⟩ := h
  refine ⟨h0, fun j hj => ?_, fun ht => ?_⟩
  · rw [← hfg j (by omega)]; exact h1 j hj
  · rw [← hfg t ht]; exact h2 ht

theorem BV.natBits_zero : BV.natBits 0 = 0 := by simp [BV.natBits]

theorem BV.natBits_eq_zero_iff (v : Nat) : BV.natBits v = 0 ↔ v = 0 := by
  unfold BV.natBits
  by_cases h : v = 0 <;> simp [h]

theorem BV.natBits_le_iff (v n : Nat) : BV.natBits v ≤ n ↔ v < 2 ^ n := by
  unfold BV.natBits
  by_cases h : v = 0
  · subst h; simp [Nat.two_pow_pos]
  · simp only [h, if_false]
    rw [← Nat.log2_lt h]; omega

theorem BV.natBits_isSig (v : Nat) : IsSig v.testBit (BV.natBits v) := by
  constructor
  · intro j hj
    apply Nat.testBit_lt_two_pow
    have : v < 2 ^ BV.natBits v := (BV.natBits_le_iff v _).mp (Nat.le_refl _)
    exact Nat.lt_of_lt_of_le this (Nat.pow_le_pow_right (by omega) hj)
  · by_cases h : v = 0
    · left; subst h; exact BV.natBits_zero
    · right
      unfold BV.natBits
      simp only [h, if_false, Nat.add_sub_cancel]
      exact Nat.testBit_log2 h

theorem BV.natTz_isTz (n v : Nat) : IsTz v.testBit n (BV.natTz n v) := by
  induction n generalizing v with
  | zero => exact ⟨Nat.le_refl _, fun j hj => by simp [BV.natTz] at hj, fun h => by simp [BV.natTz] at h⟩
  | succ n ih =>
    unfold BV.natTz
    by_cases h : v % 2 = 1
    · simp only [h, if_true]
      exact ⟨by omega, fun j hj => by omega, fun _ => by simp [Nat.testBit_zero, h]⟩
    · simp only [h, if_false]
      obtain ⟨h0, h1, h2⟩ := ih (v / 2)
      refine ⟨by omega, fun j hj => ?_, fun ht => ?_⟩
      · cases j with
        | zero => simp [Nat.testBit_zero, h]
        | succ j => rw [Nat.testBit_succ]; exact h1 j (by omega)
      · rw [Nat.add_comm, Nat.testBit_succ]; exact h2 (by omega)

theorem BV.natTz_zero (n : Nat) : BV.natTz n 0 = n := by
  induction n with
  | zero => rfl
  | succ n ih => simp [BV.natTz, ih]; omega

-- ---- words ----------------------------------------------------------------------------------------------

theorem getLsbD_eq_testBit (x : BitVec w) (j : Nat) : x.getLsbD j = x.toNat.testBit j := rfl

theorem toNat_ne_zero {x : BitVec w} (h : x ≠ 0#w) : x.toNat ≠ 0 := by
  intro h0; apply h; apply BitVec.eq_of_toNat_eq; simpa using h0

theorem natBits_word_le (x : BitVec w) : BV.natBits x.toNat ≤ w :=
  (BV.natBits_le_iff _ _).mpr x.isLt

theorem clz_zero : clz (0#w) = w := by simp [clz, BV.natBits_zero]

theorem ctz_zero : ctz (0#w) = w := by simp [ctz, BV.natTz_zero]

theorem ctz_isTz (x : BitVec w) : IsTz x.getLsbD w (ctz x) := BV.natTz_isTz w x.toNat

theorem ctz_lt {x : BitVec w} (h : x ≠ 0#w) : ctz x < w := by
  obtain ⟨h0, h1, _⟩ := ctz_isTz x
  by_cases hlt : ctz x < w
  · exact hlt
  · exfalso; apply h
    apply BitVec.eq_of_getLsbD_eq
    intro i hi
    rw [h1 i (by omega)]; simp

theorem bitAt_mul_add (ws : Array (BitVec w)) (i k : Nat) (hk : k < w) :
    bitAt ws (w * i + k) = (wd ws i).getLsbD k := by
  have hw : 0 < w := by omega
  obtain ⟨h1, h2⟩ := div_mod_unique hw i k hk
  unfold bitAt; rw [h1, h2]

theorem cap_facts (hw : 0 < w) (len : Nat) (h : 0 < len) :
    capFromBitLen w len = (len - 1) / w + 1 ∧ len = w * ((len - 1) / w) + ((len - 1) % w + 1) := by
  constructor
  · unfold capFromBitLen
    have : len + w - 1 = (len - 1) + w := by omega
    rw [this, Nat.add_div_right _ hw]
  · have := Nat.div_add_mod (len - 1) w
    omega

theorem cap_zero (hw : 0 < w) (len : Nat) (h : ¬ 0 < capFromBitLen w len) : len = 0 := by
  by_cases h0 : 0 < len
  · have := (cap_facts hw len h0).1; rw [this] at h; exact absurd (Nat.succ_pos _) h
  · omega

-- ---- leading counts ------------------------------------------------------------------------------------

/-- how a word `x` sitting at word index `i` determines the significant-bit count of a bit function `g`
that vanishes above that word -/
theorem sig_word (g : Nat → Bool) (x : BitVec w) (i : Nat)
    (hx : ∀ k, k < w → g (w * i + k) = x.getLsbD k) (hz : ∀ j, w * (i + 1) ≤ j → g j = false) :
    (x = 0#w → ∀ j, w * i ≤ j → g j = false) ∧
    (x ≠ 0#w → IsSig g (w * i + BV.natBits x.toNat)) := by
  have hms : w * (i + 1) = w * i + w := Nat.mul_succ w i
  constructor
  · intro h0 j hj
    by_cases hjj : w * (i + 1) ≤ j
    · exact hz j hjj
    · have : j = w * i + (j - w * i) := by omega
      rw [this, hx _ (by omega), h0]; simp
  · intro hne
    obtain ⟨s1, s2⟩ := BV.natBits_isSig x.toNat
    have hle := natBits_word_le x
    have hpos : BV.natBits x.toNat ≠ 0 := fun h => toNat_ne_zero hne ((BV.natBits_eq_zero_iff _).mp h)
    constructor
    · intro j hj
      by_cases hjj : w * (i + 1) ≤ j
      · exact hz j hjj
      · have : j = w * i + (j - w * i) := by omega
        rw [this, hx _ (by omega), getLsbD_eq_testBit]
        exact s1 _ (by omega)
    · right
      rcases s2 with s2 | s2
      · exact absurd s2 hpos
      · have : w * i + BV.natBits x.toNat - 1 = w * i + (BV.natBits x.toNat - 1) := by omega
        rw [this, hx _ (by omega), getLsbD_eq_testBit]
        exact s2

/-- the bits of the storage below `len` -/
def lowBits (ws : Array (BitVec w)) (len : Nat) (j : Nat) : Bool := decide (j < len) && bitAt ws j

theorem leadLoop_zeros (ws : Array (BitVec w)) (len : Nat) (i : Nat) :
    ∀ (v : BitVec w) (count : Nat),
      (v = 0#w → count + w * i = len ∧ ∀ j, w * i ≤ j → lowBits ws len j = false) →
      (v ≠ 0#w → count ≤ len ∧ IsSig (lowBits ws len) (len - count)) →
      Raw.leadLoop ws 0#w clz v i count ≤ len ∧
        IsSig (lowBits ws len) (len - Raw.leadLoop ws 0#w clz v i count) := by
  induction i with
  | zero =>
    intro v count h0 h1
    simp only [Raw.leadLoop]
    by_cases hv : v = 0#w
    · obtain ⟨e, hz⟩ := h0 hv
      have : len - count = 0 := by omega
      rw [this]
      exact ⟨by omega, fun j _ => hz j (by omega), Or.inl rfl⟩
    · exact h1 hv
  | succ i ih =>
    intro v count h0 h1
    simp only [Raw.leadLoop]
    by_cases hv : v = 0#w
    · simp only [hv, if_true]
      obtain ⟨e, hz⟩ := h0 hv
      have hms : w * (i + 1) = w * i + w := Nat.mul_succ w i
      have hx : ∀ k, k < w → lowBits ws len (w * i + k) = (wd ws i).getLsbD k := by
        intro k hk
        unfold lowBits
        rw [bitAt_mul_add ws i k hk]
        have : w * i + k < len := by omega
        simp [this]
      obtain ⟨w0, w1⟩ := sig_word (lowBits ws len) (wd ws i) i hx hz
      apply ih
      · intro hv'
        rw [hv', clz_zero]
        exact ⟨by omega, w0 hv'⟩
      · intro hv'
        have hle := natBits_word_le (wd ws i)
        have : len - (count + clz (wd ws i)) = w * i + BV.natBits (wd ws i).toNat := by
          unfold clz; omega
        rw [this]
        exact ⟨by unfold clz; omega, w1 hv'⟩
    · simp only [hv, if_false]
      exact h1 hv

theorem cap_of_zero (hw : 0 < w) : capFromBitLen w 0 = 0 := by
  unfold capFromBitLen
  exact Nat.div_eq_of_lt (by omega)

theorem Raw.leadingZeros_unfold (s : Raw w) (hw : 0 < w) (h : 0 < s.length) :
    s.leadingZeros =
      Raw.leadLoop s.data 0#w clz (wd s.data ((s.length - 1) / w) &&& mask w ((s.length - 1) % w + 1))
        ((s.length - 1) / w)
        (clz (wd s.data ((s.length - 1) / w) &&& mask w ((s.length - 1) % w + 1)) - (w - ((s.length - 1) % w + 1))) := by
  unfold Raw.leadingZeros
  simp only [(cap_facts hw s.length h).1, Nat.add_sub_cancel, gt_iff_lt, Nat.succ_pos, if_true]

theorem Raw.leadingZeros_len0 (s : Raw w) (hw : 0 < w) (h : s.length = 0) : s.leadingZeros = 0 := by
  unfold Raw.leadingZeros
  simp [h, cap_of_zero hw]

/-- Theorem A: `leadingZeros` counts the leading zeros of the bits below `length` (no invariant needed:
the code masks the last word and never reads further) -/
theorem Raw.leadingZeros_sig (s : Raw w) (hw : 0 < w) :
    s.leadingZeros ≤ s.length ∧ IsSig (lowBits s.data s.length) (s.length - s.leadingZeros) := by
  by_cases h : 0 < s.length
  · rw [Raw.leadingZeros_unfold s hw h]
    obtain ⟨_, hlen⟩ := cap_facts hw s.length h
    have hmod := Nat.mod_lt (s.length - 1) hw
    generalize hq : (s.length - 1) / w = q at *
    generalize hlb : (s.length - 1) % w + 1 = lb at *
    generalize hv : wd s.data q &&& mask w lb = v
    have hms : w * (q + 1) = w * q + w := Nat.mul_succ w q
    have hx : ∀ k, k < w → lowBits s.data s.length (w * q + k) = v.getLsbD k := by
      intro k hk
      unfold lowBits
      rw [bitAt_mul_add _ q k hk, ← hv, BitVec.getLsbD_and, getLsbD_mask, Bool.and_comm]
      congr 1
      by_cases hkl : k < lb
      · have : w * q + k < s.length := by omega
        simp [this, hkl, hk]
      · have : ¬ w * q + k < s.length := by omega
        simp [this, hkl]
    have hz : ∀ j, w * (q + 1) ≤ j → lowBits s.data s.length j = false := by
      intro j hj
      unfold lowBits
      have : ¬ j < s.length := by omega
      simp [this]
    obtain ⟨w0, w1⟩ := sig_word (lowBits s.data s.length) v q hx hz
    have hvb : BV.natBits v.toNat ≤ lb := by
      rw [BV.natBits_le_iff]
      apply Nat.lt_pow_two_of_testBit
      intro j hj
      rw [← getLsbD_eq_testBit, ← hv, BitVec.getLsbD_and, getLsbD_mask]
      have : ¬ j < lb := by omega
      simp [this]
    apply leadLoop_zeros
    · intro hv0
      rw [hv0, clz_zero]
      exact ⟨by omega, w0 hv0⟩
    · intro hv0
      have : s.length - (clz v - (w - lb)) = w * q + BV.natBits v.toNat := by
        unfold clz; omega
      rw [this]
      exact ⟨by unfold clz; omega, w1 hv0⟩
  · have h0 : s.length = 0 := by omega
    rw [Raw.leadingZeros_len0 s hw h0, h0]
    refine ⟨Nat.le_refl _, fun j _ => ?_, Or.inl rfl⟩
    simp [lowBits]

theorem lowBits_eq_testBit (s : Raw w) (hw : 0 < w) (h : s.Inv) (j : Nat) :
    lowBits s.data s.length j = s.abs.val.testBit j := by
  have := Raw.abs_bit s j hw
  unfold BV.bit at this
  rw [this]
  unfold lowBits
  by_cases hj : j < s.length
  · simp [hj]
  · rw [h.2 j (by omega)]; simp

/-- the significant-bit count computed by the code is that of the abstract value -/
theorem Raw.sigBits_eq (s : Raw w) (hw : 0 < w) (h : s.Inv) : s.sigBits = s.abs.sig := by
  obtain ⟨_, hs⟩ := Raw.leadingZeros_sig s hw
  unfold Raw.sigBits BV.sig
  exact (hs.congr (lowBits_eq_testBit s hw h)).unique (BV.natBits_isSig _)

theorem Raw.leadingZeros_eq (s : Raw w) (hw : 0 < w) (h : s.Inv) :
    s.leadingZeros = s.abs.leadingZeros := by
  have h1 := Raw.sigBits_eq s hw h
  have h2 := (Raw.leadingZeros_sig s hw).1
  unfold Raw.sigBits at h1
  unfold BV.leadingZeros
  rw [← h1, Raw.abs_len]
  omega

-- ---- complemented storage ---------------------------------------------------------------------------------

/-- every word complemented -/
def notArr (ws : Array (BitVec w)) : Array (BitVec w) := ws.map (~~~ ·)

theorem size_notArr (ws : Array (BitVec w)) : (notArr ws).size = ws.size := by simp [notArr]

theorem wd_notArr (ws : Array (BitVec w)) (i : Nat) (h : i < ws.size) : wd (notArr ws) i = ~~~ wd ws i := by
  unfold wd notArr
  simp [Array.getD_eq_getD_getElem?, Array.getElem?_map, Array.getElem?_eq_getElem h]

theorem bitAt_notArr (ws : Array (BitVec w)) (j : Nat) (hw : 0 < w) (h : j < ws.size * w) :
    bitAt (notArr ws) j = !bitAt ws j := by
  have hd : j / w < ws.size := div_lt_of_lt_mul j ws.size hw h
  have hm := Nat.mod_lt j hw
  unfold bitAt
  rw [wd_notArr ws _ hd, BitVec.getLsbD_not]
  simp [hm]

theorem eq_allOnes_iff (v : BitVec w) : (v = BitVec.allOnes w) ↔ (~~~v = 0#w) := by
  constructor
  · intro h; rw [h]; simp
  · intro h; have := congrArg (~~~ ·) h; simpa using this

theorem leadLoop_not (ws : Array (BitVec w)) (i : Nat) :
    ∀ (v : BitVec w) (count : Nat), i ≤ ws.size →
      Raw.leadLoop ws (BitVec.allOnes w) clo v i count = Raw.leadLoop (notArr ws) 0#w clz (~~~v) i count := by
  induction i with
  | zero => intro v count _; simp [Raw.leadLoop]
  | succ i ih =>
    intro v count hi
    simp only [Raw.leadLoop]
    by_cases hv : v = BitVec.allOnes w
    · subst hv
      simp only [BitVec.not_allOnes, if_true]
      rw [ih _ _ (by omega), wd_notArr ws i (by omega)]
      rfl
    · have hv' : ¬ (~~~v = 0#w) := fun h => hv ((eq_allOnes_iff v).mpr h)
      simp only [hv, hv', if_false]

/-- `leadingOnes` is `leadingZeros` of the complemented storage -/
theorem Raw.leadingOnes_eq_not (s : Raw w) (hw : 0 < w) (hcap : s.length ≤ s.data.size * w) :
    s.leadingOnes = Raw.leadingZeros ⟨notArr s.data, s.length⟩ := by
  by_cases h : 0 < s.length
  · rw [Raw.leadingZeros_unfold ⟨notArr s.data, s.length⟩ hw h]
    unfold Raw.leadingOnes
    simp only [(cap_facts hw s.length h).1, Nat.add_sub_cancel, gt_iff_lt, Nat.succ_pos, if_true]
    have hq : (s.length - 1) / w < s.data.size := div_lt_of_lt_mul _ _ hw (by omega)
    rw [leadLoop_not _ _ _ _ (by omega), wd_notArr _ _ hq]
    simp only [clo, BitVec.not_or, BitVec.not_not]
  · have h0 : s.length = 0 := by omega
    rw [Raw.leadingZeros_len0 ⟨notArr s.data, s.length⟩ hw h0]
    unfold Raw.leadingOnes
    simp [h0, cap_of_zero hw]

theorem not_val_testBit (a : BV) (h : a.WF) (j : Nat) :
    a.not.val.testBit j = (decide (j < a.len) && !a.val.testBit j) := by
  unfold BV.not
  simp only
  have : 2 ^ a.len - 1 - a.val = 2 ^ a.len - (a.val + 1) := by omega
  rw [this, Nat.testBit_two_pow_sub_succ h]

theorem lowBits_notArr (s : Raw w) (hw : 0 < w) (h : s.Inv) (j : Nat) :
    lowBits (notArr s.data) s.length j = s.abs.not.val.testBit j := by
  rw [not_val_testBit _ (h.wf hw)]
  have := Raw.abs_bit s j hw
  unfold BV.bit at this
  rw [this, Raw.abs_len]
  unfold lowBits
  by_cases hj : j < s.length
  · rw [bitAt_notArr _ _ hw (by have := h.1; omega)]
  · simp [hj]

theorem Raw.leadingOnes_eq (s : Raw w) (hw : 0 < w) (h : s.Inv) :
    s.leadingOnes = s.abs.leadingOnes := by
  rw [Raw.leadingOnes_eq_not s hw h.1]
  obtain ⟨h2, hs⟩ := Raw.leadingZeros_sig ⟨notArr s.data, s.length⟩ hw
  simp only at h2 hs
  have h1 := (hs.congr (lowBits_notArr s hw h)).unique (BV.natBits_isSig _)
  unfold BV.leadingOnes BV.leadingZeros BV.sig
  rw [← h1]
  show _ = s.length - _
  omega

-- ---- trailing counts ---------------------------------------------------------------------------------------

theorem IsTz.mono {f : Nat → Bool} {n n' t : Nat} (h : IsTz f n t) (ht : t < n) (hn : n ≤ n') : IsTz f n' t :=
  ⟨by omega, h.2.1, fun _ => h.2.2 ht⟩

/-- how a word `x` at word index `i` determines the trailing-zero count of a bit function `f` that vanishes
below that word, when only the first `m` bits of the word count -/
theorem tz_word (f : Nat → Bool) (x : BitVec w) (i m : Nat) (hm : m ≤ w)
    (hx : ∀ k, k < w → f (w * i + k) = x.getLsbD k) (hz : ∀ j, j < w * i → f j = false) :
    IsTz f (w * i + m) (w * i + min (ctz x) m) := by
  obtain ⟨c0, c1, c2⟩ := ctz_isTz x
  refine ⟨by omega, fun j hj => ?_, fun ht => ?_⟩
  · by_cases hlo : j < w * i
    · exact hz j hlo
    · have : j = w * i + (j - w * i) := by omega
      rw [this, hx _ (by omega)]
      exact c1 _ (by omega)
  · have hc : ctz x < m := by omega
    have : min (ctz x) m = ctz x := by omega
    rw [this, hx _ (by omega)]
    exact c2 (by omega)

/-- what the callers do with the result of `trailLoop` -/
def trailFinal (ws : Array (BitVec w)) (stop : BitVec w) (cnt : BitVec w → Nat) (lb : Nat)
    (r : BitVec w × Nat × Nat) : Nat :=
  if r.1 = stop then r.2.2 + min (cnt (wd ws r.2.1)) lb else r.2.2

theorem trailLoop_zeros (ws : Array (BitVec w)) (len last lb : Nat)
    (hlen : len = w * last + lb) (hlb : lb ≤ w) (v : BitVec w) (i count : Nat) :
    i ≤ last →
    (v = 0#w → count = w * i ∧ ∀ j, j < w * i → bitAt ws j = false) →
    (v ≠ 0#w → IsTz (bitAt ws) len count) →
    IsTz (bitAt ws) len (trailFinal ws 0#w ctz lb (Raw.trailLoop ws 0#w ctz last v i count)) := by
  fun_induction Raw.trailLoop ws 0#w ctz last v i count with
  | case1 v i count hc v' ih =>
    intro hi h0 _
    obtain ⟨hv, hil⟩ := hc
    obtain ⟨hcnt, hz⟩ := h0 hv
    have hms : w * (i + 1) = w * i + w := Nat.mul_succ w i
    have hml : w * (i + 1) ≤ w * last := Nat.mul_le_mul_left w hil
    have hx : ∀ k, k < w → bitAt ws (w * i + k) = v'.getLsbD k := fun k hk => bitAt_mul_add ws i k hk
    have key := tz_word (bitAt ws) v' i w (Nat.le_refl _) hx hz
    have hmin : min (ctz v') w = ctz v' := by have := (ctz_isTz v').1; omega
    rw [hmin] at key
    apply ih (by omega)
    · intro hv'
      rw [hv', ctz_zero] at key ⊢
      exact ⟨by omega, fun j hj => key.2.1 j (by omega)⟩
    · intro hv'
      have := ctz_lt hv'
      rw [hcnt]
      exact key.mono (by omega) (by omega)
  | case2 v i count hc =>
    intro hi h0 h1
    unfold trailFinal
    by_cases hv : v = 0#w
    · simp only [hv, if_true]
      obtain ⟨hcnt, hz⟩ := h0 hv
      have hil : i = last := by
        have : ¬ i < last := fun h => hc ⟨hv, h⟩
        omega
      subst hil
      rw [hcnt, hlen]
      exact tz_word (bitAt ws) (wd ws i) i lb hlb (fun k hk => bitAt_mul_add ws i k hk) hz
    · simp only [hv, if_false]
      exact h1 hv

theorem Raw.trailingZeros_unfold (s : Raw w) (hw : 0 < w) (h : 0 < s.length) :
    s.trailingZeros =
      trailFinal s.data 0#w ctz ((s.length - 1) % w + 1)
        (Raw.trailLoop s.data 0#w ctz ((s.length - 1) / w) 0#w 0 0) := by
  unfold Raw.trailingZeros trailFinal
  simp only [(cap_facts hw s.length h).1, Nat.add_sub_cancel, Nat.succ_pos, if_true]

theorem Raw.trailingZeros_len0 (s : Raw w) (hw : 0 < w) (h : s.length = 0) : s.trailingZeros = 0 := by
  unfold Raw.trailingZeros
  simp [h, cap_of_zero hw]

/-- Theorem B: `trailingZeros` counts the trailing zeros of the storage bits, capped at `length`
(no invariant needed) -/
theorem Raw.trailingZeros_isTz (s : Raw w) (hw : 0 < w) :
    IsTz (bitAt s.data) s.length s.trailingZeros := by
  by_cases h : 0 < s.length
  · rw [Raw.trailingZeros_unfold s hw h]
    have hmod := Nat.mod_lt (s.length - 1) hw
    apply trailLoop_zeros s.data s.length _ _ (cap_facts hw s.length h).2 (by omega) 0#w 0 0 (Nat.zero_le _)
    · intro _
      exact ⟨by omega, fun j hj => by omega⟩
    · intro h; exact absurd rfl h
  · have h0 : s.length = 0 := by omega
    rw [Raw.trailingZeros_len0 s hw h0, h0]
    exact ⟨Nat.le_refl _, fun j hj => by omega, fun h => by omega⟩

theorem Raw.trailingZeros_eq' (s : Raw w) (hw : 0 < w) : s.trailingZeros = s.abs.trailingZeros := by
  have h1 := Raw.trailingZeros_isTz s hw
  have h2 : IsTz (bitAt s.data) s.length (BV.natTz s.abs.len s.abs.val) :=
    (BV.natTz_isTz s.abs.len s.abs.val).congr (fun j _ => Raw.abs_bit s j hw)
  exact h1.unique h2

theorem Raw.trailingZeros_eq (s : Raw w) (hw : 0 < w) (_h : s.Inv) :
    s.trailingZeros = s.abs.trailingZeros := Raw.trailingZeros_eq' s hw

theorem trailLoop_step (ws : Array (BitVec w)) (stop : BitVec w) (cnt : BitVec w → Nat) (last : Nat)
    (v : BitVec w) (i count : Nat) (h : v = stop ∧ i < last) :
    Raw.trailLoop ws stop cnt last v i count =
      Raw.trailLoop ws stop cnt last (wd ws i) (i + 1) (count + cnt (wd ws i)) := by
  rw [Raw.trailLoop]; simp only [h, and_self, dif_pos]

theorem trailLoop_stop (ws : Array (BitVec w)) (stop : BitVec w) (cnt : BitVec w → Nat) (last : Nat)
    (v : BitVec w) (i count : Nat) (h : ¬ (v = stop ∧ i < last)) :
    Raw.trailLoop ws stop cnt last v i count = (v, i, count) := by
  rw [Raw.trailLoop]; simp only [h, dif_neg, not_false_eq_true]

theorem trailLoop_not (ws : Array (BitVec w)) (last lb : Nat) (hl : last < ws.size) (v : BitVec w) (i count : Nat) :
    i ≤ last →
    trailFinal ws (BitVec.allOnes w) cto lb (Raw.trailLoop ws (BitVec.allOnes w) cto last v i count) =
      trailFinal (notArr ws) 0#w ctz lb (Raw.trailLoop (notArr ws) 0#w ctz last (~~~v) i count) := by
  fun_induction Raw.trailLoop ws (BitVec.allOnes w) cto last v i count with
  | case1 v i count hc v' ih =>
    intro hi
    have hc' : ~~~v = 0#w ∧ i < last := ⟨(eq_allOnes_iff v).mp hc.1, hc.2⟩
    rw [trailLoop_step (notArr ws) 0#w ctz last (~~~v) i count hc', wd_notArr ws i (by omega)]
    exact ih (by omega)
  | case2 v i count hc =>
    intro hi
    have hc' : ¬ (~~~v = 0#w ∧ i < last) := fun h => hc ⟨(eq_allOnes_iff v).mpr h.1, h.2⟩
    rw [trailLoop_stop (notArr ws) 0#w ctz last (~~~v) i count hc']
    unfold trailFinal
    simp only [eq_allOnes_iff v, wd_notArr ws i (by omega)]
    rfl

/-- `trailingOnes` is `trailingZeros` of the complemented storage -/
theorem Raw.trailingOnes_eq_not (s : Raw w) (hw : 0 < w) (hcap : s.length ≤ s.data.size * w) :
    s.trailingOnes = Raw.trailingZeros ⟨notArr s.data, s.length⟩ := by
  by_cases h : 0 < s.length
  · rw [Raw.trailingZeros_unfold ⟨notArr s.data, s.length⟩ hw h]
    have hq : (s.length - 1) / w < s.data.size := div_lt_of_lt_mul _ _ hw (by omega)
    have := trailLoop_not s.data ((s.length - 1) / w) ((s.length - 1) % w + 1) hq (BitVec.allOnes w) 0 0
      (Nat.zero_le _)
    rw [BitVec.not_allOnes] at this
    rw [← this]
    unfold Raw.trailingOnes trailFinal
    simp only [(cap_facts hw s.length h).1, Nat.add_sub_cancel, Nat.succ_pos, if_true]
  · have h0 : s.length = 0 := by omega
    rw [Raw.trailingZeros_len0 ⟨notArr s.data, s.length⟩ hw h0]
    unfold Raw.trailingOnes
    simp [h0, cap_of_zero hw]

theorem Raw.trailingOnes_eq (s : Raw w) (hw : 0 < w) (h : s.Inv) :
    s.trailingOnes = s.abs.trailingOnes := by
  rw [Raw.trailingOnes_eq_not s hw h.1]
  have h1 := Raw.trailingZeros_isTz ⟨notArr s.data, s.length⟩ hw
  simp only at h1
  have h2 : IsTz (bitAt (notArr s.data)) s.length (BV.natTz s.abs.not.len s.abs.not.val) := by
    apply (BV.natTz_isTz s.abs.not.len s.abs.not.val).congr
    intro j hj
    have hj' : j < s.length := hj
    rw [← lowBits_notArr s hw h j]
    simp [lowBits, hj']
  exact h1.unique h2

-- ---- isZero ---------------------------------------------------------------------------------------------------

theorem toNat_eq_zero_iff (x : BitVec w) : x.toNat = 0 ↔ x = 0#w := by
  constructor
  · intro h; apply BitVec.eq_of_toNat_eq; simpa using h
  · intro h; rw [h]; simp

theorem valUpTo_eq_zero_iff (ws : Array (BitVec w)) (n : Nat) :
    valUpTo ws n = 0 ↔ ∀ i, i < n → wd ws i = 0#w := by
  induction n with
  | zero => simp [valUpTo]
  | succ n ih =>
    simp only [valUpTo, Nat.add_eq_zero_iff, Nat.mul_eq_zero, ih, toNat_eq_zero_iff]
    have hp : ¬ (2 ^ (w * n) = 0) := Nat.ne_of_gt (Nat.two_pow_pos _)
    constructor
    · rintro ⟨h1, h2 | h2⟩ i hi
      · exact absurd h2 hp
      · by_cases hin : i < n
        · exact h1 i hin
        · have : i = n := by omega
          rw [this]; exact h2
    · intro h
      exact ⟨fun i hi => h i (by omega), Or.inr (h n (by omega))⟩

theorem wd_oob (ws : Array (BitVec w)) (i : Nat) (h : ws.size ≤ i) : wd ws i = 0#w := by
  unfold wd
  simp [Array.getD_eq_getD_getElem?, Array.getElem?_eq_none h]

theorem wd_inb (ws : Array (BitVec w)) (i : Nat) (h : i < ws.size) : wd ws i = ws[i] := by
  unfold wd
  simp [Array.getD_eq_getD_getElem?, Array.getElem?_eq_getElem h]

/-- `Bvf::is_zero` (all `N` words are zero); holds without the invariant, `abs` reads all storage -/
theorem Bvf.isZero_eq' (s : Raw w) : Bvf.isZero s = s.abs.isZero := by
  rw [Bool.eq_iff_iff]
  unfold Bvf.isZero BV.isZero Raw.abs valAll
  simp only [Array.all_eq_true, beq_iff_eq, valUpTo_eq_zero_iff]
  constructor
  · intro h i hi; rw [wd_inb _ _ hi]; exact h i hi
  · intro h i hi; rw [← wd_inb _ _ hi]; exact h i hi

theorem Bvf.isZero_eq (s : Raw w) (_hw : 0 < w) (_h : s.Inv) : Bvf.isZero s = s.abs.isZero :=
  Bvf.isZero_eq' s

/-- `Bvd::is_zero` looks at the used words only; the invariant says the others are zero -/
theorem Bvd.isZero_eq (s : Raw 64) (h : s.Inv) : Bvd.isZero s = s.abs.isZero := by
  rw [Bool.eq_iff_iff]
  unfold Bvd.isZero BV.isZero Raw.abs valAll
  simp only [List.all_eq_true, List.mem_range, beq_iff_eq, valUpTo_eq_zero_iff]
  have hcap : s.length ≤ 64 * Bvd.capW s.length := by
    unfold Bvd.capW capFromBitLen; omega
  constructor
  · intro hz i _
    by_cases hi : i < Bvd.capW s.length
    · exact hz i hi
    · apply BitVec.eq_of_getLsbD_eq
      intro k hk
      rw [← bitAt_mul_add s.data i k hk, h.2 _ (by omega)]
      simp
  · intro hz i _
    by_cases hi : i < s.data.size
    · exact hz i hi
    · exact wd_oob _ _ (by omega)

-- ---- spec-level facts ------------------------------------------------------------------------------------------

theorem BV.sig_le_len (a : BV) (h : a.WF) : a.sig ≤ a.len := (BV.natBits_le_iff _ _).mpr h

theorem BV.leadingZeros_add_sig (a : BV) (h : a.WF) : a.leadingZeros + a.sig = a.len := by
  have := BV.sig_le_len a h
  unfold BV.leadingZeros; omega

theorem BV.leadingZeros_le_len (a : BV) : a.leadingZeros ≤ a.len := by
  unfold BV.leadingZeros; omega

theorem BV.trailingZeros_le_len (a : BV) : a.trailingZeros ≤ a.len := (BV.natTz_isTz a.len a.val).1

theorem BV.leadingOnes_le_len (a : BV) : a.leadingOnes ≤ a.len := BV.leadingZeros_le_len a.not

theorem BV.trailingOnes_le_len (a : BV) : a.trailingOnes ≤ a.len := BV.trailingZeros_le_len a.not

theorem BV.isZero_iff_sig (a : BV) : a.isZero = true ↔ a.sig = 0 := by
  unfold BV.isZero BV.sig
  rw [BV.natBits_eq_zero_iff, beq_iff_eq]

theorem BV.zeros_leadingZeros (n : Nat) : (BV.zeros n).leadingZeros = n := by
  simp [BV.leadingZeros, BV.sig, BV.zeros, BV.natBits_zero]

theorem BV.zeros_trailingZeros (n : Nat) : (BV.zeros n).trailingZeros = n := by
  simp [BV.trailingZeros, BV.zeros, BV.natTz_zero]

/-- the top significant bit is set … -/
theorem BV.sig_top (a : BV) : a.sig = 0 ∨ a.bit (a.sig - 1) = true := (BV.natBits_isSig a.val).2

/-- … and everything from `sig` upwards is clear -/
theorem BV.bit_of_sig_le (a : BV) (i : Nat) (h : a.sig ≤ i) : a.bit i = false :=
  (BV.natBits_isSig a.val).1 i h

/-- `sig` is the only number with these two properties -/
theorem BV.sig_unique (a : BV) (m : Nat) (h1 : ∀ i, m ≤ i → a.bit i = false)
    (h2 : m = 0 ∨ a.bit (m - 1) = true) : a.sig = m :=
  (BV.natBits_isSig a.val).unique ⟨h1, h2⟩

theorem BV.bit_of_lt_trailingZeros (a : BV) (i : Nat) (h : i < a.trailingZeros) : a.bit i = false :=
  (BV.natTz_isTz a.len a.val).2.1 i h

theorem BV.bit_trailingZeros (a : BV) (h : a.trailingZeros < a.len) : a.bit a.trailingZeros = true :=
  (BV.natTz_isTz a.len a.val).2.2 h

theorem BV.trailingZeros_unique (a : BV) (t : Nat) (h0 : t ≤ a.len) (h1 : ∀ i, i < t → a.bit i = false)
    (h2 : t < a.len → a.bit t = true) : a.trailingZeros = t :=
  (BV.natTz_isTz a.len a.val).unique ⟨h0, h1, h2⟩

/-- meaning of `leadingZeros` in bits (well-formed `a`) -/
theorem BV.bit_of_leadingZeros (a : BV) (h : a.WF) :
    (∀ i, a.len - a.leadingZeros ≤ i → a.bit i = false) ∧
    (a.leadingZeros < a.len → a.bit (a.len - a.leadingZeros - 1) = true) := by
  have e := BV.leadingZeros_add_sig a h
  have e' : a.len - a.leadingZeros = a.sig := by omega
  rw [e']
  refine ⟨BV.bit_of_sig_le a, fun hlt => ?_⟩
  rcases BV.sig_top a with h0 | h1
  · omega
  · exact h1

theorem BV.not_wf (a : BV) : a.not.WF := by
  unfold BV.WF BV.not
  have := Nat.two_pow_pos a.len
  simp only; omega

theorem BV.not_bit (a : BV) (h : a.WF) (i : Nat) : a.not.bit i = (decide (i < a.len) && !a.bit i) :=
  not_val_testBit a h i

/-- meaning of `trailingOnes` in bits -/
theorem BV.bit_of_trailingOnes (a : BV) (h : a.WF) :
    (∀ i, i < a.trailingOnes → a.bit i = true) ∧
    (a.trailingOnes < a.len → a.bit a.trailingOnes = false) := by
  have hle := BV.trailingOnes_le_len a
  constructor
  · intro i hi
    have := BV.bit_of_lt_trailingZeros a.not i hi
    rw [BV.not_bit a h] at this
    have hl : i < a.len := by omega
    simpa [hl] using this
  · intro hlt
    have := BV.bit_trailingZeros a.not hlt
    rw [BV.not_bit a h] at this
    have hl : a.not.trailingZeros < a.len := hlt
    simp only [hl, decide_true, Bool.true_and, Bool.not_eq_true'] at this
    exact this

/-- meaning of `leadingOnes` in bits -/
theorem BV.bit_of_leadingOnes (a : BV) (h : a.WF) :
    (∀ i, a.len - a.leadingOnes ≤ i → i < a.len → a.bit i = true) ∧
    (a.leadingOnes < a.len → a.bit (a.len - a.leadingOnes - 1) = false) := by
  obtain ⟨h1, h2⟩ := BV.bit_of_leadingZeros a.not (BV.not_wf a)
  constructor
  · intro i hi hl
    have := h1 i hi
    rw [BV.not_bit a h] at this
    simpa [hl] using this
  · intro hlt
    have := h2 hlt
    rw [BV.not_bit a h] at this
    have hl : a.len - a.leadingOnes - 1 < a.len := by omega
    have hl' : a.not.len - a.not.leadingZeros - 1 < a.len := hl
    simp only [hl', decide_true, Bool.true_and, Bool.not_eq_true'] at this
    exact this

end Bva
