import BvaProofs.Base
import BvaModel.Dynamic
/-!
# T8 — bit-count queries: `leadingZeros`, `leadingOnes`, `trailingZeros`, `trailingOnes`, `sigBits`, `isZero`
-/
namespace Bva
variable {w : Nat}

-- ---- characterisation of `natBits` and `natTz` by bits ------------------------------------------------

/-- `m` is the number of significant positions of the bit function `f` -/
def IsSig (f : Nat → Bool) (m : Nat) : Prop :=
  (∀ j, m ≤ j → f j = false) ∧ (m = 0 ∨ f (m - 1) = true)

/-- `t` is the number of trailing zero positions of `f`, capped at `n` -/
def IsTz (f : Nat → Bool) (n t : Nat) : Prop :=
  t ≤ n ∧ (∀ j, j < t → f j = false) ∧ (t < n → f t = true)

theorem IsSig.unique {f : Nat → Bool} {m m' : Nat} (h : IsSig f m) (h' : IsSig f m') : m = m' := by
  obtain ⟨h1, h2⟩ := h
  obtain ⟨h1', h2'⟩ := h'
  by_cases hlt : m < m'
  · rcases h2' with h0 | ht
    · omega
    · rw [h1 (m' - 1) (by omega)] at ht; cases ht
  · by_cases hgt : m' < m
    · rcases h2 with h0 | ht
      · omega
      · rw [h1' (m - 1) (by omega)] at ht; cases ht
    · omega

theorem IsTz.unique {f : Nat → Bool} {n t t' : Nat} (h : IsTz f n t) (h' : IsTz f n t') : t = t' := by
  obtain ⟨h0, h1, h2⟩ := h
  obtain ⟨h0', h1', h2'⟩ := h'
  by_cases hlt : t < t'
  · have := h2 (by omega)
    rw [h1' t hlt] at this; cases this
  · by_cases hgt : t' < t
    · have := h2' (by omega)
      rw [h1 t' hgt] at this; cases this
    · omega

theorem IsSig.congr {f g : Nat → Bool} {m : Nat} (hfg : ∀ j, f j = g j) (h : IsSig f m) : IsSig g m := by
  have : f = g := funext hfg
  rw [← this]; exact h

theorem IsTz.congr {f g : Nat → Bool} {n t : Nat} (hfg : ∀ j, j < n → f j = g j) (h : IsTz f n t) :
    IsTz g n t := by
  obtain ⟨h0, h1, h2⟩ := h
  refine ⟨h0, fun j hj => ?_, fun ht => ?_⟩
  · rw [← hfg j (by omega)]; exact h1 j hj
  · rw [← hfg t ht]; exact h2 ht

theorem BV.natBits_zero : BV.natBits 0 = 0 := by simp [BV.natBits]

theorem BV.natBits_eq_zero_iff (v : Nat) : BV.natBits v = 0 ↔ v = 0 := by
  unfold BV.natBits
  by_cases h : v = 0 <;> simp [h]

theorem BV.natBits_le_iff (v n : Nat) : BV.natBits v ≤ n ↔ v < 2 ^ n := by
  unfold BV.natBits
  by_cases h : v = 0
  · subst h; simp [Nat.two_pow_pos]
  · simp only [h, if_false]
    rw [← Nat.log2_lt h]; omega

theorem BV.natBits_isSig (v : Nat) : IsSig v.testBit (BV.natBits v) := by
  constructor
  · intro j hj
    apply Nat.testBit_lt_two_pow
    have : v < 2 ^ BV.natBits v := (BV.natBits_le_iff v _).mp (Nat.le_refl _)
    exact Nat.lt_of_lt_of_le this (Nat.pow_le_pow_right (by omega) hj)
  · by_cases h : v = 0
    · left; subst h; exact BV.natBits_zero
    · right
      unfold BV.natBits
      simp only [h, if_false, Nat.add_sub_cancel]
      exact Nat.testBit_log2 h

theorem BV.natTz_isTz (n v : Nat) : IsTz v.testBit n (BV.natTz n v) := by
  induction n generalizing v with
  | zero => exact ⟨Nat.le_refl _, fun j hj => by simp [BV.natTz] at hj, fun h => by simp [BV.natTz] at h⟩
  | succ n ih =>
    unfold BV.natTz
    by_cases h : v % 2 = 1
    · simp only [h, if_true]
      exact ⟨by omega, fun j hj => by omega, fun _ => by simp [Nat.testBit_zero, h]⟩
    · simp only [h, if_false]
      obtain ⟨h0, h1, h2⟩ := ih (v / 2)
      refine ⟨by omega, fun j hj => ?_, fun ht => ?_⟩
      · cases j with
        | zero => simp [Nat.testBit_zero, h]
        | succ j => rw [Nat.testBit_succ]; exact h1 j (by omega)
      · rw [Nat.add_comm, Nat.testBit_succ]; exact h2 (by omega)

theorem BV.natTz_zero (n : Nat) : BV.natTz n 0 = n := by
  induction n with
  | zero => rfl
  | succ n ih => simp [BV.natTz, ih]; omega

-- ---- words ----------------------------------------------------------------------------------------------

theorem getLsbD_eq_testBit (x : BitVec w) (j : Nat) : x.getLsbD j = x.toNat.testBit j := rfl

theorem toNat_ne_zero {x : BitVec w} (h : x ≠ 0#w) : x.toNat ≠ 0 := by
  intro h0; apply h; apply BitVec.eq_of_toNat_eq; simpa using h0

theorem natBits_word_le (x : BitVec w) : BV.natBits x.toNat ≤ w :=
  (BV.natBits_le_iff _ _).mpr x.isLt

theorem clz_zero : clz (0#w) = w := by simp [clz, BV.natBits_zero]

theorem ctz_zero : ctz (0#w) = w := by simp [ctz, BV.natTz_zero]

theorem ctz_isTz (x : BitVec w) : IsTz x.getLsbD w (ctz x) := BV.natTz_isTz w x.toNat

theorem ctz_lt {x : BitVec w} (h : x ≠ 0#w) : ctz x < w := by
  obtain ⟨h0, h1, _⟩ := ctz_isTz x
  by_cases hlt : ctz x < w
  · exact hlt
  · exfalso; apply h
    apply BitVec.eq_of_getLsbD_eq
    intro i hi
    rw [h1 i (by omega)]; simp

theorem bitAt_mul_add (ws : Array (BitVec w)) (i k : Nat) (hk : k < w) :
    bitAt ws (w * i + k) = (wd ws i).getLsbD k := by
  have hw : 0 < w := by omega
  obtain ⟨h1, h2⟩ := div_mod_unique hw i k hk
  unfold bitAt; rw [h1, h2]

theorem cap_facts (hw : 0 < w) (len : Nat) (h : 0 < len) :
    capFromBitLen w len = (len - 1) / w + 1 ∧ len = w * ((len - 1) / w) + ((len - 1) % w + 1) := by
  constructor
  · unfold capFromBitLen
    have : len + w - 1 = (len - 1) + w := by omega
    rw [this, Nat.add_div_right _ hw]
  · have := Nat.div_add_mod (len - 1) w
    omega

theorem cap_zero (hw : 0 < w) (len : Nat) (h : ¬ 0 < capFromBitLen w len) : len = 0 := by
  by_cases h0 : 0 < len
  · have := (cap_facts hw len h0).1; rw [this] at h; exact absurd (Nat.succ_pos _) h
  · omega

-- ---- leading counts ------------------------------------------------------------------------------------

/-- how a word `x` sitting at word index `i` determines the significant-bit count of a bit function `g`
that vanishes above that word -/
theorem sig_word (g : Nat → Bool) (x : BitVec w) (i : Nat)
    (hx : ∀ k, k < w → g (w * i + k) = x.getLsbD k) (hz : ∀ j, w * (i + 1) ≤ j → g j = false) :
    (x = 0#w → ∀ j, w * i ≤ j → g j = false) ∧
    (x ≠ 0#w → IsSig g (w * i + BV.natBits x.toNat)) := by
  have hms : w * (i + 1) = w * i + w := Nat.mul_succ w i
  constructor
  · intro h0 j hj
    by_cases hjj : w * (i + 1) ≤ j
    · exact hz j hjj
    · have : j = w * i + (j - w * i) := by omega
      rw [this, hx _ (by omega), h0]; simp
  · intro hne
    obtain ⟨s1, s2⟩ := BV.natBits_isSig x.toNat
    have hle := natBits_word_le x
    have hpos : BV.natBits x.toNat ≠ 0 := fun h => toNat_ne_zero hne ((BV.natBits_eq_zero_iff _).mp h)
    constructor
    · intro j hj
      by_cases hjj : w * (i + 1) ≤ j
      · exact hz j hjj
      · have : j = w * i + (j - w * i) := by omega
        rw [this, hx _ (by omega), getLsbD_eq_testBit]
        exact s1 _ (by omega)
    · right
      rcases s2 with s2 | s2
      · exact absurd s2 hpos
      · have : w * i + BV.natBits x.toNat - 1 = w * i + (BV.natBits x.toNat - 1) := by omega
        rw [this, hx _ (by omega), getLsbD_eq_testBit]
        exact s2

/-- the bits of the storage below `len` -/
def lowBits (ws : Array (BitVec w)) (len : Nat) (j : Nat) : Bool := decide (j < len) && bitAt ws j

theorem leadLoop_zeros (ws : Array (BitVec w)) (len : Nat) (i : Nat) :
    ∀ (v : BitVec w) (count : Nat),
      (v = 0#w → count + w * i = len ∧ ∀ j, w * i ≤ j → lowBits ws len j = false) →
      (v ≠ 0#w → count ≤ len ∧ IsSig (lowBits ws len) (len - count)) →
      Raw.leadLoop ws 0#w clz v i count ≤ len ∧
        IsSig (lowBits ws len) (len - Raw.leadLoop ws 0#w clz v i count) := by
  induction i with
  | zero =>
    intro v count h0 h1
    simp only [Raw.leadLoop]
    by_cases hv : v = 0#w
    · obtain ⟨e, hz⟩ := h0 hv
      have : len - count = 0 := by omega
      rw [this]
      exact ⟨by omega, fun j _ => hz j (by omega), Or.inl rfl⟩
    · exact h1 hv
  | succ i ih =>
    intro v count h0 h1
    simp only [Raw.leadLoop]
    by_cases hv : v = 0#w
    · simp only [hv, if_true]
      obtain ⟨e, hz⟩ := h0 hv
      have hms : w * (i + 1) = w * i + w := Nat.mul_succ w i
      have hx : ∀ k, k < w → lowBits ws len (w * i + k) = (wd ws i).getLsbD k := by
        intro k hk
        unfold lowBits
        rw [bitAt_mul_add ws i k hk]
        have : w * i + k < len := by omega
        simp [this]
      obtain ⟨w0, w1⟩ := sig_word (lowBits ws len) (wd ws i) i hx hz
      apply ih
      · intro hv'
        rw [hv', clz_zero]
        exact ⟨by omega, w0 hv'⟩
      · intro hv'
        have hle := natBits_word_le (wd ws i)
        have : len - (count + clz (wd ws i)) = w * i + BV.natBits (wd ws i).toNat := by
          unfold clz; omega
        rw [this]
        exact ⟨by unfold clz; omega, w1 hv'⟩
    · simp only [hv, if_false]
      exact h1 hv

end Bva
