import BvaProofs.Refine
/-!
# Histories: an operation language over one subject vector, observers, and their L0 counterparts

`Api.step v op` applies one public mutating operation to the subject (operands are carried inside `op`);
`Api.observe v o` applies one public observer.  `specStep` / `specObserve` are the same at L0, on `(cap, BV)`.
Used by the C03 theorems ("no hidden state after any history").
-/
namespace Bva

inductive Op where
  | push (b : Bool) | pop | set (i : Nat) (b : Bool) | resize (n : Nat) (b : Bool) | truncate (n : Nat)
  | signExtend (n : Nat) | append (x : Vec) | prepend (x : Vec) | insert (i : Nat) (x : Vec) | extend (bs : List Bool) (hint : Nat)
  | shlIn (b : Bool) | shrIn (b : Bool) | rotl (k : Nat) | rotr (k : Nat)
  | shl (k : Nat) (byRef : Bool) | shr (k : Nat) (byRef : Bool) | not (byRef : Bool)
  | addsub (sub : Bool) (x : Api.Rhs) | mul (x : Api.Rhs) | bitop (op : BitOp) (x : Api.Rhs)
  | div (x : Api.Rhs) | rem (x : Api.Rhs)
  | reserve (k : Nat) | shrinkToFit | splitOff (i : Nat) | copyRange (st en : Nat)

/-- the by-product of a step (the popped / shifted-out bit) -/
abbrev StepOut := Option Bool

def Api.step (v : Vec) : Op → Res (Vec × StepOut)
  | .push b => (Api.push v b).map (·, none)
  | .pop => let p := Api.pop v; .ok (p.1, p.2)
  | .set i b => .ok (Api.set v i b, none)
  | .resize n b => (Api.resize v n b).map (·, none)
  | .truncate n => (Api.truncate v n).map (·, none)
  | .signExtend n => (Api.signExtend v n).map (·, none)
  | .append x => (Api.append v x.any).map (·, none)
  | .prepend x => (Api.prepend v x.any).map (·, none)
  | .insert i x => (Api.insert v i x.any).map (·, none)
  | .extend bs hint => (Api.extend v bs hint).map (·, none)
  | .shlIn b => let p := Api.shlIn v b; .ok (p.1, some p.2)
  | .shrIn b => let p := Api.shrIn v b; .ok (p.1, some p.2)
  | .rotl k => .ok (Api.rotl v k, none)
  | .rotr k => .ok (Api.rotr v k, none)
  | .shl k r => .ok (Api.shl v k r, none)
  | .shr k r => .ok (Api.shr v k r, none)
  | .not r => .ok (Api.not v r, none)
  | .addsub s x => .ok (Api.addsub s v x, none)
  | .mul x => .ok (Api.mul v x, none)
  | .bitop o x => .ok (Api.bitop o v x, none)
  | .div x => (Api.divRemOp v x).map fun p => (p.1, none)
  | .rem x => (Api.divRemOp v x).map fun p => (p.2, none)
  | .reserve k => .ok (Api.reserve v k, none)
  | .shrinkToFit => .ok (Api.shrinkToFit v, none)
  | .splitOff i => (Api.splitOff v i).map fun p => (p.1, none)
  | .copyRange s e => .ok (Api.copyRange v s e, none)

/-- L0: the same operation on `(capacity, abstract vector)` -/
def specStep (cap : Option Nat) (a : BV) : Op → Res (BV × StepOut) :=
  let grow (r : BV) : Res (BV × StepOut) :=
    match cap with
    | some c => if r.len ≤ c then .ok (r, none) else .panic
    | none => .ok (r, none)
  fun
  | .push b => grow (a.push b)
  | .pop => .ok (a.pop.1, a.pop.2)
  | .set i b => .ok (a.set i b, none)
  | .resize n b => grow (a.resize n b)
  | .truncate n => .ok (a.truncate n, none)
  | .signExtend n => grow (a.signExtend n)
  | .append x => grow (a.append x.abs)
  | .prepend x => grow (a.prepend x.abs)
  | .insert i x => grow (a.insert i x.abs)
  | .extend bs _ => grow (a.extend bs)
  | .shlIn b => .ok ((a.shlIn b).1, some (a.shlIn b).2)
  | .shrIn b => .ok ((a.shrIn b).1, some (a.shrIn b).2)
  | .rotl k => .ok (a.rotl k, none)
  | .rotr k => .ok (a.rotr k, none)
  | .shl k _ => .ok (a.shl k, none)
  | .shr k _ => .ok (a.shr k, none)
  | .not _ => .ok (a.not, none)
  | .addsub s x => .ok (if s then a.sub x.spec else a.add x.spec, none)
  | .mul x => .ok (a.mul x.spec, none)
  | .bitop o x => .ok (match o with | .and => a.and x.spec | .or => a.or x.spec | .xor => a.xor x.spec, none)
  | .div x => if x.spec.val = 0 then .panic else .ok (a.div x.spec, none)
  | .rem x => if x.spec.val = 0 then .panic else .ok (a.rem x.spec, none)
  | .reserve _ => .ok (a, none)
  | .shrinkToFit => .ok (a, none)
  | .splitOff i => .ok ((a.splitOff i).1, none)
  | .copyRange s e => .ok (a.copyRange s e, none)

/-- run a history; stops at the first failure -/
def Api.run (v : Vec) : List Op → Res (Vec × List StepOut)
  | [] => .ok (v, [])
  | op :: ops =>
    match Api.step v op with
    | .ok (v', o) => match Api.run v' ops with
      | .ok (v'', os) => .ok (v'', o :: os)
      | .err e => .err e
      | .panic => .panic
    | .err e => .err e
    | .panic => .panic

def specRun (cap : Option Nat) (a : BV) : List Op → Res (BV × List StepOut)
  | [] => .ok (a, [])
  | op :: ops =>
    match specStep cap a op with
    | .ok (a', o) => match specRun cap a' ops with
      | .ok (a'', os) => .ok (a'', o :: os)
      | .err e => .err e
      | .panic => .panic
    | .err e => .err e
    | .panic => .panic

-- ---- observers ------------------------------------------------------------------------------------------
inductive Obs where
  | len | get (i : Nat) | first | last | counts | toVec (big : Bool) | toUInt (W : Nat) | hash
  | digits (k : Char) | iter (rev : Bool) (calls : List IterCall) | eq (x : Vec) | cmp (x : Vec)

inductive ObsOut where
  | nat (n : Nat) | bool (b : Bool) | obit (o : Option Bool) | six (a b c d e : Nat) (z : Bool)
  | bytes (l : List Nat) | uint (r : Res Nat) | hash (l : List (Nat × Nat)) | chars (l : List Char)
  | iter (l : List IterOut) | ord (o : Ordering)

def Api.observe (v : Vec) : Obs → ObsOut
  | .len => .nat v.len
  | .get i => .bool (Api.get v i)
  | .first => .obit (Api.first v)
  | .last => .obit (Api.last v)
  | .counts => .six (Api.leadingZeros v) (Api.leadingOnes v) (Api.trailingZeros v) (Api.trailingOnes v)
      (Api.sigBits v) (Api.isZero v)
  | .toVec big => .bytes (Api.toVec v big)
  | .toUInt W => .uint (Api.toUInt v W)
  | .hash => .hash (Api.hashStream v)
  | .digits k => .chars (Api.digits v k)
  | .iter rev calls => .iter (Api.iterRun v rev calls)
  | .eq x => .bool (Api.eq v x)
  | .cmp x => .ord (Api.cmp v x)

/-- L0 hash stream for storage words of width `wWord` (as in `Drv.specHash`) -/
def specHashL0 (wWord : Nat) (a : BV) : List (Nat × Nat) :=
  (64, a.sig) :: (List.range ((a.sig + wWord - 1) / wWord)).map
    fun i => (wWord, (a.val >>> (wWord * i)) % 2 ^ wWord)

def specObserve (wWord : Nat) (a : BV) : Obs → ObsOut
  | .len => .nat a.len
  | .get i => .bool (a.bit i)
  | .first => .obit a.first
  | .last => .obit a.last
  | .counts => .six a.leadingZeros a.leadingOnes a.trailingZeros a.trailingOnes a.sig a.isZero
  | .toVec big => .bytes (a.toVec big)
  | .toUInt W => .uint (if a.sig ≤ W then .ok a.val else .err "NotEnoughCapacity")
  | .hash => .hash (specHashL0 wWord a)
  | .digits k => .chars (match k with
      | 'b' => BV.numeral 2 false a.val
      | 'o' => BV.numeral 8 false a.val
      | 'x' => BV.numeral 16 false a.val
      | 'X' => BV.numeral 16 true a.val
      | _ => BV.numeral 10 false a.val)
  | .iter rev calls => .iter (sliceRun rev a.bits calls)
  | .eq x => .bool (decide (a.val = x.abs.val))
  | .cmp x => .ord (compare a.val x.abs.val)

end Bva
