import BvaProofs.Base
import BvaProofs.Count
import BvaProofs.Cmp
import BvaProofs.Carry
import BvaProofs.Shift
import BvaProofs.Edit
import BvaProofs.Slice
import BvaProofs.Rechunk
import BvaModel.Auto
/-!
# T16 — division (`div_rem` ×3)

1. `divLoopNat` : the shift–subtract loop on `Nat`, and its correctness `divLoopNat_spec`.
2. `divLoop_refines` : the model's generic `divLoop` refines `divLoopNat` over an abstract interface.
3. / 4. instantiation for `Bvd.divRem`, `Bvf.divRem`, `Bv.divRem`.
-/
namespace Bva

-- ---- 1. the algorithm on natural numbers ----------------------------------------------------------------
def divLoopNat : Nat → Nat → Nat → Nat → Nat × Nat
  | 0, q, r, _ => (q, r)
  | i + 1, q, r, d =>
    let (q, r) := if d ≤ r then (q + 2 ^ i, r - d) else (q, r)
    divLoopNat i q r (d / 2)

theorem div_loopNat_zero (q r d : Nat) : divLoopNat 0 q r d = (q, r) := rfl

theorem div_loopNat_succ (i q r d : Nat) :
    divLoopNat (i + 1) q r d =
      if d ≤ r then divLoopNat i (q + 2 ^ i) (r - d) (d / 2) else divLoopNat i q r (d / 2) := by
  by_cases h : d ≤ r <;> simp [divLoopNat, h]

/-- general invariant: with `i` steps left, divisor `b·2^(i-1)` and `r < b·2^i`, the loop adds `r / b`
to the quotient and leaves `r % b`. -/
theorem div_loopNat_gen (b : Nat) (hb : b ≠ 0) :
    ∀ (i q r d : Nat), (i ≠ 0 → d = b * 2 ^ (i - 1)) → r < b * 2 ^ i →
      divLoopNat i q r d = (q + r / b, r % b)
  | 0, q, r, d, _, hr => by
    rw [div_loopNat_zero]
    have hr' : r < b := by simpa using hr
    rw [Nat.div_eq_of_lt hr', Nat.mod_eq_of_lt hr', Nat.add_zero]
  | i + 1, q, r, d, hd, hr => by
    have hd' : d = b * 2 ^ i := by simpa using hd (Nat.succ_ne_zero i)
    have hd2 : i ≠ 0 → d / 2 = b * 2 ^ (i - 1) := by
      intro hi
      obtain ⟨j, rfl⟩ : ∃ j, i = j + 1 := ⟨i - 1, by omega⟩
      rw [hd', Nat.pow_succ, ← Nat.mul_assoc, Nat.mul_div_cancel _ (by decide : 0 < 2)]
      rfl
    rw [div_loopNat_succ]
    by_cases hle : d ≤ r
    · rw [if_pos hle]
      have hr2 : r - d < b * 2 ^ i := by
        rw [Nat.pow_succ, ← Nat.mul_assoc] at hr
        omega
      rw [div_loopNat_gen b hb i (q + 2 ^ i) (r - d) (d / 2) hd2 hr2]
      have hle' : b * 2 ^ i ≤ r := by rw [← hd']; exact hle
      have hbpos : 0 < b := Nat.pos_of_ne_zero hb
      have h1 : (r - b * 2 ^ i) / b = r / b - 2 ^ i := Nat.sub_mul_div_of_le r b (2 ^ i) hle'
      have h2 : 2 ^ i ≤ r / b := by
        rw [Nat.le_div_iff_mul_le hbpos, Nat.mul_comm]; exact hle'
      have h3 : (r - b * 2 ^ i) % b = r % b := by
        have : r = (r - b * 2 ^ i) + b * 2 ^ i := by omega
        conv => rhs; rw [this, Nat.add_mul_mod_self_left]
      rw [hd', h1, h3]
      congr 1
      omega
    · rw [if_neg hle]
      have hr2 : r < b * 2 ^ i := by rw [← hd']; omega
      exact div_loopNat_gen b hb i q r (d / 2) hd2 hr2

/-- Task item 1. -/
theorem divLoopNat_spec (a b d shift : Nat) (hb : b ≠ 0) (hd : d = b * 2 ^ shift)
    (ha : a < b * 2 ^ (shift + 1)) :
    divLoopNat (shift + 1) 0 a d = (a / b, a % b) := by
  rw [div_loopNat_gen b hb (shift + 1) 0 a d (fun _ => by simpa using hd) ha, Nat.zero_add]

-- ---- 2. the generic loop refines the `Nat` loop ----------------------------------------------------------
theorem div_loop_zero {α : Type} (ge : α → α → Bool) (sub : α → α → α) (setOne : α → Nat → α)
    (shr1 : α → α) (q r d : α) : divLoop ge sub setOne shr1 0 q r d = (q, r) := rfl

theorem div_loop_succ {α : Type} (ge : α → α → Bool) (sub : α → α → α) (setOne : α → Nat → α)
    (shr1 : α → α) (i : Nat) (q r d : α) :
    divLoop ge sub setOne shr1 (i + 1) q r d =
      if ge r d = true then divLoop ge sub setOne shr1 i (setOne q i) (sub r d) (shr1 d)
      else divLoop ge sub setOne shr1 i q r (shr1 d) := by
  by_cases h : ge r d = true <;> simp [divLoop, h]

theorem div_testBit_of_mod (v i : Nat) (h : v % 2 ^ (i + 1) = 0) : v.testBit i = false := by
  have := Nat.testBit_mod_two_pow v (i + 1) i
  rw [h] at this
  simpa using this.symm

theorem div_mod_of_mod_succ (v i : Nat) (h : v % 2 ^ (i + 1) = 0) : v % 2 ^ i = 0 :=
  Nat.mod_eq_zero_of_dvd
    (Nat.dvd_trans (Nat.pow_dvd_pow 2 (Nat.le_succ i)) (Nat.dvd_of_mod_eq_zero h))

theorem div_mod_add_pow (v i : Nat) (h : v % 2 ^ (i + 1) = 0) : (v + 2 ^ i) % 2 ^ i = 0 := by
  rw [Nat.add_mod_right]; exact div_mod_of_mod_succ v i h

/-- Task item 2.  `Iq`, `Ir`, `Id` are the storage invariants of quotient, remainder and divisor; `val` the
abstraction to `Nat`.  `setOne q i` is only ever used with `i < bound` on a value whose bit `i` is clear. -/
theorem divLoop_refines {α : Type} (ge : α → α → Bool) (sub : α → α → α) (setOne : α → Nat → α)
    (shr1 : α → α) (Iq Ir Id : α → Prop) (val : α → Nat) (bound : Nat)
    (hge : ∀ r d, Ir r → Id d → ge r d = decide (val d ≤ val r))
    (hsub : ∀ r d, Ir r → Id d → val d ≤ val r → Ir (sub r d) ∧ val (sub r d) = val r - val d)
    (hset : ∀ q i, Iq q → i < bound → (val q).testBit i = false →
      Iq (setOne q i) ∧ val (setOne q i) = val q + 2 ^ i)
    (hshr : ∀ d, Id d → Id (shr1 d) ∧ val (shr1 d) = val d / 2) :
    ∀ (n : Nat) (q r d : α), n ≤ bound → Iq q → Ir r → Id d → val q % 2 ^ n = 0 →
      Iq (divLoop ge sub setOne shr1 n q r d).1 ∧ Ir (divLoop ge sub setOne shr1 n q r d).2 ∧
      (val (divLoop ge sub setOne shr1 n q r d).1, val (divLoop ge sub setOne shr1 n q r d).2) =
        divLoopNat n (val q) (val r) (val d)
  | 0, q, r, d, _, hq, hr, _, _ => by
    rw [div_loop_zero, div_loopNat_zero]
    exact ⟨hq, hr, rfl⟩
  | i + 1, q, r, d, hn, hq, hr, hd, hm => by
    rw [div_loop_succ, div_loopNat_succ, hge r d hr hd]
    obtain ⟨hd1, hd2⟩ := hshr d hd
    by_cases hle : val d ≤ val r
    · rw [if_pos (decide_eq_true hle), if_pos hle]
      obtain ⟨hs1, hs2⟩ := hsub r d hr hd hle
      obtain ⟨hq1, hq2⟩ := hset q i hq (by omega) (div_testBit_of_mod _ _ hm)
      have ih := divLoop_refines ge sub setOne shr1 Iq Ir Id val bound hge hsub hset hshr i
        (setOne q i) (sub r d) (shr1 d) (by omega) hq1 hs1 hd1
        (by rw [hq2]; exact div_mod_add_pow _ _ hm)
      rw [hq2, hs2, hd2] at ih
      exact ih
    · rw [if_neg (by simpa using hle), if_neg hle]
      have ih := divLoop_refines ge sub setOne shr1 Iq Ir Id val bound hge hsub hset hshr i
        q r (shr1 d) (by omega) hq hr hd1 (div_mod_of_mod_succ _ _ hm)
      rw [hd2] at ih
      exact ih

/-- the loop started as `div_rem` starts it computes quotient and remainder -/
theorem divLoop_div_rem {α : Type} (ge : α → α → Bool) (sub : α → α → α) (setOne : α → Nat → α)
    (shr1 : α → α) (Iq Ir Id : α → Prop) (val : α → Nat) (bound : Nat)
    (hge : ∀ r d, Ir r → Id d → ge r d = decide (val d ≤ val r))
    (hsub : ∀ r d, Ir r → Id d → val d ≤ val r → Ir (sub r d) ∧ val (sub r d) = val r - val d)
    (hset : ∀ q i, Iq q → i < bound → (val q).testBit i = false →
      Iq (setOne q i) ∧ val (setOne q i) = val q + 2 ^ i)
    (hshr : ∀ d, Id d → Id (shr1 d) ∧ val (shr1 d) = val d / 2)
    (shift b : Nat) (q r d : α) (hs : shift < bound) (hq : Iq q) (hr : Ir r) (hd : Id d)
    (hq0 : val q = 0) (hb : b ≠ 0) (hdv : val d = b * 2 ^ shift) (hrv : val r < b * 2 ^ (shift + 1)) :
    Iq (divLoop ge sub setOne shr1 (shift + 1) q r d).1 ∧
    Ir (divLoop ge sub setOne shr1 (shift + 1) q r d).2 ∧
    val (divLoop ge sub setOne shr1 (shift + 1) q r d).1 = val r / b ∧
    val (divLoop ge sub setOne shr1 (shift + 1) q r d).2 = val r % b := by
  obtain ⟨h1, h2, h3⟩ := divLoop_refines ge sub setOne shr1 Iq Ir Id val bound hge hsub hset hshr
    (shift + 1) q r d (by omega) hq hr hd (by rw [hq0]; exact Nat.zero_mod _)
  rw [hq0, divLoopNat_spec (val r) b (val d) shift hb hdv hrv] at h3
  exact ⟨h1, h2, congrArg Prod.fst h3, congrArg Prod.snd h3⟩

-- ---- 3. the interface for `Raw w` -----------------------------------------------------------------------
variable {w : Nat}

theorem div_cmp_ge (a b : Nat) : (compare a b != Ordering.lt) = decide (b ≤ a) := by
  by_cases h : b ≤ a
  · have : compare a b ≠ .lt := by rw [Ne, Nat.compare_eq_lt]; omega
    simp [h, this]
  · have : compare a b = .lt := Nat.compare_eq_lt.mpr (by omega)
    simp [h, this]

theorem div_sub_val (a x P : Nat) (ha : a < P) (hx : x ≤ a) : (a + P - x % P) % P = a - x := by
  rw [Nat.mod_eq_of_lt (by omega : x < P)]
  have : a + P - x = (a - x) + P := by omega
  rw [this, Nat.add_mod_right, Nat.mod_eq_of_lt (by omega)]

/-- `BV.sub` on operands with `x ≤ a` is plain subtraction -/
theorem div_BV_sub (a x : BV) (ha : a.WF) (hx : x.val ≤ a.val) : a.sub x = ⟨a.len, a.val - x.val⟩ := by
  unfold BV.sub
  rw [div_sub_val _ _ _ ha hx]

/-- `BV.set` of a clear bit adds `2^i` -/
theorem div_BV_set (a : BV) (i : Nat) (h : a.val.testBit i = false) :
    a.set i true = ⟨a.len, a.val + 2 ^ i⟩ := by
  unfold BV.set BV.bit
  rw [h]
  simp

/-- `BV.shr 1` halves -/
theorem div_BV_shr1 (a : BV) (ha : a.WF) : a.shr 1 = ⟨a.len, a.val / 2⟩ := by
  unfold BV.shr
  split
  · rename_i h
    have : a.val < 2 := by
      have h2 : 2 ^ a.len ≤ 2 ^ 1 := Nat.pow_le_pow_right (by decide) h
      unfold BV.WF at ha; omega
    congr 1; omega
  · rw [Nat.shiftRight_eq_div_pow]

theorem div_set_ok (q : Raw w) (i : Nat) (hw : 0 < w) (hq : q.Inv) (hi : i < q.length)
    (hb : q.abs.val.testBit i = false) :
    (q.set i true).Inv ∧ (q.set i true).length = q.length ∧
      (q.set i true).data.size = q.data.size ∧ (q.set i true).abs.val = q.abs.val + 2 ^ i := by
  obtain ⟨h1, h2, h3⟩ := Raw.set_refines q i true hw hq hi
  refine ⟨h1, rfl, h3, ?_⟩
  rw [h2, div_BV_set _ _ hb]

theorem div_shr_ok (d : Raw w) (hw : 0 < w) (hd : d.Inv) :
    (d.shrAssign 1).Inv ∧ (d.shrAssign 1).length = d.length ∧
      (d.shrAssign 1).data.size = d.data.size ∧ (d.shrAssign 1).abs.val = d.abs.val / 2 := by
  obtain ⟨h1, h2⟩ := Raw.shrAssign_refines d hw hd 1
  refine ⟨h1, Raw.shrAssign_length d 1, Raw.shrAssign_size d hw hd 1, ?_⟩
  rw [h2, div_BV_shr1 _ (hd.wf hw)]

-- ---- significant-bit arithmetic behind the choice of `shift` --------------------------------------------
theorem div_lt_pow_natBits (a : Nat) : a < 2 ^ BV.natBits a :=
  (BV.natBits_le_iff a _).mp (Nat.le_refl _)

theorem div_pow_le_of_natBits (b n : Nat) (h : n < BV.natBits b) : 2 ^ n ≤ b := by
  have : ¬ b < 2 ^ n := fun hlt => by
    have := (BV.natBits_le_iff b n).mpr hlt
    omega
  omega

/-- more significant bits ⇒ larger -/
theorem div_lt_of_natBits_lt (a b : Nat) (h : BV.natBits a < BV.natBits b) : a < b :=
  Nat.lt_of_lt_of_le (div_lt_pow_natBits a) (div_pow_le_of_natBits b _ h)

theorem div_natBits_pos (b : Nat) (hb : b ≠ 0) : 0 < BV.natBits b := by
  have := BV.natBits_eq_zero_iff b
  omega

/-- the dividend is below the divisor shifted one place further than `shift` -/
theorem div_dividend_lt (a b : Nat) (hb : b ≠ 0) (h : BV.natBits b ≤ BV.natBits a) :
    a < b * 2 ^ (BV.natBits a - BV.natBits b + 1) := by
  have hpos := div_natBits_pos b hb
  have h1 : 2 ^ (BV.natBits b - 1) ≤ b := div_pow_le_of_natBits b _ (by omega)
  have h2 := div_lt_pow_natBits a
  have e : BV.natBits a = (BV.natBits b - 1) + (BV.natBits a - BV.natBits b + 1) := by omega
  rw [e, Nat.pow_add] at h2
  exact Nat.lt_of_lt_of_le h2 (Nat.mul_le_mul_right _ h1)

/-- the shifted divisor still has no more significant bits than the dividend -/
theorem div_shifted_lt (a b : Nat) (h : BV.natBits b ≤ BV.natBits a) :
    b * 2 ^ (BV.natBits a - BV.natBits b) < 2 ^ BV.natBits a := by
  have h1 := div_lt_pow_natBits b
  have e : BV.natBits a = BV.natBits b + (BV.natBits a - BV.natBits b) := by omega
  conv => rhs; rw [e, Nat.pow_add]
  exact Nat.mul_lt_mul_of_pos_right h1 (Nat.two_pow_pos _)

-- ---- preparing the divisor -----------------------------------------------------------------------------
theorem div_BV_resize (a : BV) (m : Nat) (h : a.val < 2 ^ m) : a.resize m false = ⟨m, a.val⟩ := by
  unfold BV.resize
  split
  · rw [Nat.mod_eq_of_lt h]
  · simp

theorem div_BV_shl (a : BV) (k : Nat) (h : a.val * 2 ^ k < 2 ^ a.len) :
    a.shl k = ⟨a.len, a.val * 2 ^ k⟩ := by
  unfold BV.shl
  split
  · rename_i hk
    have h2 : 2 ^ a.len ≤ 2 ^ k := Nat.pow_le_pow_right (by decide) hk
    by_cases h0 : a.val = 0
    · rw [h0, Nat.zero_mul]
    · have : 2 ^ k ≤ a.val * 2 ^ k := Nat.le_mul_of_pos_left _ (Nat.pos_of_ne_zero h0)
      omega
  · rw [Nat.shiftLeft_eq, Nat.mod_eq_of_lt h]

theorem div_shl_ok (d : Raw w) (k : Nat) (hw : 0 < w) (hd : d.Inv)
    (h : d.abs.val * 2 ^ k < 2 ^ d.length) :
    (d.shlAssign k).Inv ∧ (d.shlAssign k).length = d.length ∧
      (d.shlAssign k).data.size = d.data.size ∧ (d.shlAssign k).abs.val = d.abs.val * 2 ^ k := by
  obtain ⟨h1, h2⟩ := Raw.shlAssign_refines d hw hd k
  refine ⟨h1, Raw.shlAssign_length d k, Raw.shlAssign_size d hw hd k, ?_⟩
  rw [h2, div_BV_shl _ _ h]

/-- storage invariant carried through the loop: `Inv`, fixed bit length, fixed allocation -/
def div_J (L N : Nat) (t : Raw w) : Prop := t.Inv ∧ t.length = L ∧ t.data.size = N

/-- the `div_rem` loop on `Raw w` with the kernel `set` / `shrAssign 1` and any `ge` / `sub` that refine
`≥` / `-` -/
theorem div_raw_loop (hw : 0 < w) (ge : Raw w → Raw w → Bool) (sub : Raw w → Raw w → Raw w)
    (L Nq Nr Nd : Nat)
    (hge : ∀ r d, div_J L Nr r → div_J L Nd d → ge r d = decide (d.abs.val ≤ r.abs.val))
    (hsub : ∀ r d, div_J L Nr r → div_J L Nd d → d.abs.val ≤ r.abs.val →
      div_J L Nr (sub r d) ∧ (sub r d).abs.val = r.abs.val - d.abs.val)
    (shift b : Nat) (q r d : Raw w) (hs : shift < L)
    (hq : div_J L Nq q) (hr : div_J L Nr r) (hd : div_J L Nd d)
    (hq0 : q.abs.val = 0) (hb : b ≠ 0) (hdv : d.abs.val = b * 2 ^ shift)
    (hrv : r.abs.val < b * 2 ^ (shift + 1)) :
    div_J L Nq (divLoop ge sub (fun q i => q.set i true) (fun d => d.shrAssign 1) (shift + 1) q r d).1 ∧
    div_J L Nr (divLoop ge sub (fun q i => q.set i true) (fun d => d.shrAssign 1) (shift + 1) q r d).2 ∧
    (divLoop ge sub (fun q i => q.set i true) (fun d => d.shrAssign 1) (shift + 1) q r d).1.abs.val
      = r.abs.val / b ∧
    (divLoop ge sub (fun q i => q.set i true) (fun d => d.shrAssign 1) (shift + 1) q r d).2.abs.val
      = r.abs.val % b := by
  apply divLoop_div_rem ge sub (fun q i => q.set i true) (fun d => d.shrAssign 1)
    (div_J L Nq) (div_J L Nr) (div_J L Nd) (fun t => t.abs.val) L hge hsub ?_ ?_ shift b q r d hs hq hr hd
    hq0 hb hdv hrv
  · intro q i hq hi hbit
    obtain ⟨h1, h2, h3, h4⟩ := div_set_ok q i hw hq.1 (by rw [hq.2.1]; exact hi) hbit
    exact ⟨⟨h1, by rw [h2]; exact hq.2.1, by rw [h3]; exact hq.2.2⟩, h4⟩
  · intro d hd
    obtain ⟨h1, h2, h3, h4⟩ := div_shr_ok d hw hd.1
    exact ⟨⟨h1, by rw [h2]; exact hd.2.1, by rw [h3]; exact hd.2.2⟩, h4⟩

/-- everything after the divisor has been converted and resized: shift it up, run the loop -/
theorem div_raw_main (hw : 0 < w) (ge : Raw w → Raw w → Bool) (sub : Raw w → Raw w → Raw w)
    (s q0 d1 : Raw w) (b Nq Nd : Nat)
    (hge : ∀ r d, div_J s.length s.data.size r → div_J s.length Nd d →
      ge r d = decide (d.abs.val ≤ r.abs.val))
    (hsub : ∀ r d, div_J s.length s.data.size r → div_J s.length Nd d → d.abs.val ≤ r.abs.val →
      div_J s.length s.data.size (sub r d) ∧ (sub r d).abs.val = r.abs.val - d.abs.val)
    (hs : s.Inv) (hq : div_J s.length Nq q0) (hq0 : q0.abs.val = 0)
    (hd1 : div_J s.length Nd d1) (hdv : d1.abs.val = b) (hb : b ≠ 0)
    (hsig : BV.natBits b ≤ BV.natBits s.abs.val) (shift : Nat)
    (hshift : shift = BV.natBits s.abs.val - BV.natBits b) :
    div_J s.length Nq (divLoop ge sub (fun q i => q.set i true) (fun d => d.shrAssign 1) (shift + 1)
      q0 s (d1.shlAssign shift)).1 ∧
    div_J s.length s.data.size (divLoop ge sub (fun q i => q.set i true) (fun d => d.shrAssign 1)
      (shift + 1) q0 s (d1.shlAssign shift)).2 ∧
    (divLoop ge sub (fun q i => q.set i true) (fun d => d.shrAssign 1) (shift + 1)
      q0 s (d1.shlAssign shift)).1.abs = ⟨s.length, s.abs.val / b⟩ ∧
    (divLoop ge sub (fun q i => q.set i true) (fun d => d.shrAssign 1) (shift + 1)
      q0 s (d1.shlAssign shift)).2.abs = ⟨s.length, s.abs.val % b⟩ := by
  have hwf : s.abs.val < 2 ^ s.length := hs.wf hw
  have hsl : BV.natBits s.abs.val ≤ s.length := (BV.natBits_le_iff _ _).mpr hwf
  have hbpos := div_natBits_pos b hb
  have h1 : b * 2 ^ shift < 2 ^ s.length := by
    rw [hshift]
    exact Nat.lt_of_lt_of_le (div_shifted_lt _ _ hsig) (Nat.pow_le_pow_right (by decide) hsl)
  obtain ⟨e1, e2, e3, e4⟩ := div_shl_ok d1 shift hw hd1.1 (by rw [hdv, hd1.2.1]; exact h1)
  have hd2 : div_J s.length Nd (d1.shlAssign shift) :=
    ⟨e1, by rw [e2]; exact hd1.2.1, by rw [e3]; exact hd1.2.2⟩
  obtain ⟨r1, r2, r3, r4⟩ := div_raw_loop hw ge sub s.length Nq s.data.size Nd hge hsub shift b q0 s
    (d1.shlAssign shift) (by omega) hq ⟨hs, rfl, rfl⟩ hd2 hq0 hb (by rw [e4, hdv])
    (by rw [hshift]; exact div_dividend_lt _ _ hb hsig)
  refine ⟨r1, r2, ?_, ?_⟩
  · generalize (divLoop ge sub (fun q i => q.set i true) (fun d => d.shrAssign 1) (shift + 1) q0 s
      (d1.shlAssign shift)).1 = t at r1 r3
    show (⟨t.length, t.abs.val⟩ : BV) = _
    rw [r1.2.1, r3]
  · generalize (divLoop ge sub (fun q i => q.set i true) (fun d => d.shrAssign 1) (shift + 1) q0 s
      (d1.shlAssign shift)).2 = t at r2 r4
    show (⟨t.length, t.abs.val⟩ : BV) = _
    rw [r2.2.1, r4]

-- ---- 4. `Bvd::div_rem` ------------------------------------------------------------------------------------
theorem div_valUpTo_mod (hw : 0 < w) (ws : Array (BitVec w)) (n N : Nat) (h : n ≤ N) :
    valUpTo ws n = valUpTo ws N % 2 ^ (w * n) := by
  apply Nat.eq_of_testBit_eq
  intro i
  rw [Nat.testBit_mod_two_pow, testBit_valUpTo hw, testBit_valUpTo hw]
  by_cases h1 : i < w * n
  · have : i < w * N := Nat.lt_of_lt_of_le h1 (Nat.mul_le_mul_left w h)
    simp [h1, this]
  · simp [h1]

/-- the fetch hypotheses of `Bvd.addsubAssign_sub` hold for a `Bvd` right-hand side -/
theorem div_Bvd_fetch (d : Raw 64) (hd : d.Inv) :
    (∀ n, n ≤ (Bvd.rhsWords (.d d)).1 →
      valF (Bvd.rhsWords (.d d)).2 n = (AnyBv.d d).abs.val % 2 ^ (64 * n)) ∧
    (AnyBv.d d).abs.val < 2 ^ (64 * (Bvd.rhsWords (.d d)).1) := by
  constructor
  · intro n hn
    have hn' : n ≤ Bvd.capW d.length := hn
    show valF (wd d.data) n = valUpTo d.data d.data.size % 2 ^ (64 * n)
    rw [valF_wd]
    exact div_valUpTo_mod (by decide) d.data n d.data.size (Nat.le_trans hn' (capW_le_size hd))
  · show d.abs.val < 2 ^ (64 * Bvd.capW d.length)
    exact Nat.lt_of_lt_of_le (hd.wf (by decide))
      (Nat.pow_le_pow_right (by decide) (capW_bounds d.length).1)

theorem div_Bvd_sub_ok (r d : Raw 64) (hr : r.Inv) (hd : d.Inv) (hle : d.abs.val ≤ r.abs.val) :
    (Bvd.addsubAssign true r (.d d)).Inv ∧ (Bvd.addsubAssign true r (.d d)).length = r.length ∧
      (Bvd.addsubAssign true r (.d d)).data.size = r.data.size ∧
      (Bvd.addsubAssign true r (.d d)).abs.val = r.abs.val - d.abs.val := by
  obtain ⟨f1, f2⟩ := div_Bvd_fetch d hd
  obtain ⟨h1, h2, hsz⟩ := Bvd.addsubAssign_sub r (.d d) hr f1 f2
  have h3 : (AnyBv.d d).abs = d.abs := rfl
  rw [h3, div_BV_sub _ _ (hr.wf (by decide)) hle] at h2
  exact ⟨h1, congrArg BV.len h2, hsz, congrArg BV.val h2⟩

/-- invariant of a right-hand operand -/
def div_AnyInv : AnyBv → Prop
  | .f w b => 0 < w ∧ b.Inv
  | .d b => b.Inv

theorem div_beq_zero (a : Nat) : (a == 0) = decide (a = 0) := by
  by_cases h : a = 0 <;> simp [h]

theorem div_any_isZero (x : AnyBv) (hx : div_AnyInv x) : x.isZero = decide (x.abs.val = 0) := by
  cases x with
  | f w b =>
    show Bvf.isZero b = _
    rw [Bvf.isZero_eq' b]; exact div_beq_zero _
  | d b =>
    show Bvd.isZero b = _
    rw [Bvd.isZero_eq b hx]; exact div_beq_zero _

theorem div_any_sigBits (x : AnyBv) (hx : div_AnyInv x) : x.sigBits = BV.natBits x.abs.val := by
  cases x with
  | f w b => exact Raw.sigBits_eq b hx.1 hx.2
  | d b => exact Raw.sigBits_eq b (by decide) hx

theorem div_Bvd_divRem_eq (s : Raw 64) (x : AnyBv) :
    Bvd.divRem s x =
      if x.isZero then .panic else
      if x.sigBits > s.sigBits then .ok (Bvd.zeros s.length, s) else
      .ok (divLoop (fun r d => Bvd.cmpBvd r d != .lt) (fun r d => Bvd.addsubAssign true r (.d d))
        (fun q i => q.set i true) (fun d => d.shrAssign 1) (s.sigBits - x.sigBits + 1)
        (Bvd.zeros s.length) s
        ((Bvd.resize (Bvd.convert x) s.length false).shlAssign (s.sigBits - x.sigBits))) := rfl

/-- trivial quotient: the divisor has more significant bits than the dividend -/
theorem div_small (a b : Nat) (h : a < b) : a / b = 0 ∧ a % b = a :=
  ⟨Nat.div_eq_of_lt h, Nat.mod_eq_of_lt h⟩

/-- Task item 4: `Bvd::div_rem`.  `hconv` is what T14's `Bvd.fromBvf_refines` provides for a `Bvf` operand and is
trivial for a `Bvd` operand (see `Bvd.divRem_refines_d`). -/
theorem Bvd.divRem_refines (s : Raw 64) (x : AnyBv) (h : s.Inv) (hx : div_AnyInv x)
    (hconv : (Bvd.convert x).Inv ∧ (Bvd.convert x).abs.val = x.abs.val) :
    (x.abs.val = 0 → Bvd.divRem s x = .panic) ∧
    (x.abs.val ≠ 0 → ∃ q r, Bvd.divRem s x = .ok (q, r) ∧ q.Inv ∧ r.Inv ∧
        q.abs = s.abs.div x.abs ∧ r.abs = s.abs.rem x.abs) := by
  have hw : 0 < 64 := by decide
  rw [div_Bvd_divRem_eq, div_any_isZero x hx, div_any_sigBits x hx, Raw.sigBits_eq s hw h]
  constructor
  · intro h0
    rw [if_pos (decide_eq_true h0)]
  · intro h0
    rw [if_neg (by simpa using h0)]
    obtain ⟨z1, z2, z3⟩ := Bvd.zeros_refines s.length
    have hzv : (Bvd.zeros s.length).abs.val = 0 := by rw [z2]; rfl
    have hzl : (Bvd.zeros s.length).length = s.length := rfl
    by_cases hsig : BV.natBits x.abs.val > s.abs.sig
    · rw [if_pos hsig]
      obtain ⟨d1, d2⟩ := div_small _ _ (div_lt_of_natBits_lt _ _ hsig)
      refine ⟨_, _, rfl, z1, h, ?_, ?_⟩
      · rw [z2]; unfold BV.div BV.zeros; rw [d1]; rfl
      · unfold BV.rem; rw [d2]
    · rw [if_neg hsig]
      have hsig' : BV.natBits x.abs.val ≤ BV.natBits s.abs.val := Nat.le_of_not_gt hsig
      have hwf : s.abs.val < 2 ^ s.length := h.wf hw
      have hsl : BV.natBits s.abs.val ≤ s.length := (BV.natBits_le_iff _ _).mpr hwf
      have hxl : x.abs.val < 2 ^ s.length :=
        Nat.lt_of_lt_of_le (div_lt_pow_natBits _)
          (Nat.pow_le_pow_right (by decide) (Nat.le_trans hsig' hsl))
      obtain ⟨c1, c2⟩ := Bvd.resize_refines (Bvd.convert x) s.length false hconv.1
      rw [div_BV_resize _ _ (by rw [hconv.2]; exact hxl), hconv.2] at c2
      obtain ⟨r1, r2, r3, r4⟩ := div_raw_main hw
        (fun r d => Bvd.cmpBvd r d != .lt) (fun r d => Bvd.addsubAssign true r (.d d)) s
        (Bvd.zeros s.length) (Bvd.resize (Bvd.convert x) s.length false) x.abs.val _ _
        (fun r d _ _ => by
          show (Bvd.cmpBvd r d != .lt) = _
          rw [Bvd.cmpBvd_eq', div_cmp_ge])
        (fun r d hr hd hle => by
          obtain ⟨a1, a2, a3, a4⟩ := div_Bvd_sub_ok r d hr.1 hd.1 hle
          exact ⟨⟨a1, by rw [a2]; exact hr.2.1, by rw [a3]; exact hr.2.2⟩, a4⟩)
        h ⟨z1, hzl, rfl⟩ hzv ⟨c1, (Raw.abs_len _).symm.trans (by rw [c2]), rfl⟩ (by rw [c2]) h0 hsig'
        (s.abs.sig - BV.natBits x.abs.val) rfl
      exact ⟨_, _, rfl, r1.1, r2.1, r3, r4⟩

/-- `Bvd / Bvd`: no side conditions beyond the two invariants -/
theorem Bvd.divRem_refines_d (s o : Raw 64) (h : s.Inv) (ho : o.Inv) :
    (o.abs.val = 0 → Bvd.divRem s (.d o) = .panic) ∧
    (o.abs.val ≠ 0 → ∃ q r, Bvd.divRem s (.d o) = .ok (q, r) ∧ q.Inv ∧ r.Inv ∧
        q.abs = s.abs.div o.abs ∧ r.abs = s.abs.rem o.abs) :=
  Bvd.divRem_refines s (.d o) h ho ⟨ho, rfl⟩

-- ---- 3. `Bvf::div_rem` ------------------------------------------------------------------------------------
/-- reading a `Raw w` in chunks of its own word type gives back its value -/
theorem div_valF_getInt (s : Raw w) (hw : 0 < w) (h : s.Inv) (n : Nat) (hn : s.length ≤ w * n) :
    valF (fun i => (s.getInt w i).getD 0#w) n = s.abs.val := by
  apply valF_eq_of_bits hw
  · exact Nat.lt_of_lt_of_le (h.wf hw) (Nat.pow_le_pow_right (by decide) hn)
  · intro i j _ hj
    rw [Raw.getInt_getLsbD s ⟨hw, hw, Or.inl (Nat.dvd_refl w)⟩ h, ← Raw.abs_bit s _ hw]
    simp only [hj, decide_true, Bool.true_and]
    rfl

theorem div_len_le_intLen (s : Raw w) (hw : 0 < w) : s.length ≤ w * s.intLen w := by
  have := le_capFromBitLen_mul hw s.length
  rw [Nat.mul_comm] at this
  exact this

theorem div_Bvf_ge (r d : Raw w) (hw : 0 < w) (hr : r.Inv) (hd : d.Inv) :
    (Bvf.cmpBvf r d != .lt) = decide (d.abs.val ≤ r.abs.val) := by
  rw [Bvf.cmpBvf_eq_of_fetch r d
    (div_valF_getInt r hw hr _ (Nat.le_trans (div_len_le_intLen r hw)
      (Nat.mul_le_mul_left w (Nat.le_max_left _ _))))
    (div_valF_getInt d hw hd _ (Nat.le_trans (div_len_le_intLen d hw)
      (Nat.mul_le_mul_left w (Nat.le_max_right _ _)))),
    div_cmp_ge]

/-- the fetch hypothesis of `Bvf.addsubAssign_sub` for a right-hand side of the same type `Bvf<I,N>` -/
theorem div_Bvf_fetch (d : Raw w) (N : Nat) (hN : d.data.size = N) :
    valF (Bvf.rhsWord w N (.f w d)) N = (AnyBv.f w d).abs.val % 2 ^ (w * N) := by
  have e : valF (Bvf.rhsWord w N (.f w d)) N = valF (wd d.data) N := by
    apply Bva.valF_congr
    intro t ht
    unfold Bvf.rhsWord
    simp only [if_true]
    rw [if_pos (by omega), BitVec.setWidth_eq]
  rw [e, valF_wd]
  show _ = valUpTo d.data d.data.size % _
  rw [hN, Nat.mod_eq_of_lt (valUpTo_lt d.data N)]

theorem div_Bvf_sub_ok (r d : Raw w) (hw : 2 ≤ w) (hr : r.Inv)
    (hN : d.data.size = r.data.size) (hle : d.abs.val ≤ r.abs.val) :
    (Bvf.addsubAssign true r (.f w d)).Inv ∧ (Bvf.addsubAssign true r (.f w d)).length = r.length ∧
      (Bvf.addsubAssign true r (.f w d)).data.size = r.data.size ∧
      (Bvf.addsubAssign true r (.f w d)).abs.val = r.abs.val - d.abs.val := by
  obtain ⟨h1, h2⟩ := Bvf.addsubAssign_sub r (.f w d) hw hr (div_Bvf_fetch d r.data.size hN)
  have h3 : (AnyBv.f w d).abs = d.abs := rfl
  rw [h3, div_BV_sub _ _ (hr.wf (by omega)) hle] at h2
  refine ⟨h1, rfl, ?_, by rw [h2]⟩
  unfold Bvf.addsubAssign
  simp only [if_true, size_mod2n]
  exact (chain_csub hw r.data (Bvf.rhsWord w r.data.size (.f w d)) r.data.size 0#w
    (Nat.le_refl _) (by simp)).2.1

theorem div_zero_raw (N L : Nat) (hw : 0 < w) (hL : L ≤ N * w) :
    (⟨Array.replicate N 0#w, L⟩ : Raw w).Inv ∧ (⟨Array.replicate N 0#w, L⟩ : Raw w).abs.val = 0 := by
  refine ⟨⟨by simpa using hL, fun i _ => ?_⟩, ?_⟩
  · show bitAt (Array.replicate N 0#w) i = false
    rw [Edit.bitAt_replicate]; simp
  · apply Nat.eq_of_testBit_eq
    intro i
    have := Raw.abs_bit (⟨Array.replicate N 0#w, L⟩ : Raw w) i hw
    unfold BV.bit at this
    rw [this]
    show bitAt (Array.replicate N 0#w) i = (0 : Nat).testBit i
    rw [Edit.bitAt_replicate]; simp

theorem div_Bvf_divRem_eq (s : Raw w) (kind : SrcKind) (x : AnyBv) :
    Bvf.divRem s kind x =
      if x.isZero then .panic else
      if x.sigBits > s.sigBits then .ok (⟨Array.replicate s.data.size 0#w, s.length⟩, s) else
      match Bvf.convert w s.data.size kind (x.copyRange kind 0 x.sigBits) with
      | .ok d0 =>
        match Bvf.resize d0 s.length false with
        | .ok d1 =>
          .ok (divLoop (fun r d => Bvf.cmpBvf r d != .lt) (fun r d => Bvf.addsubAssign true r (.f w d))
            (fun q i => q.set i true) (fun d => d.shrAssign 1) (s.sigBits - x.sigBits + 1)
            ⟨Array.replicate s.data.size 0#w, s.length⟩ s (d1.shlAssign (s.sigBits - x.sigBits)))
        | _ => .panic
      | _ => .panic := rfl

/-- Task item 3 (core form): `Bvf::div_rem`, given that the conversion of the truncated divisor succeeds with the
divisor's value (`hconv`; see `Bvf.divRem_refines` below for the form with a `Bvf.convert` specification).
In particular neither `expect("divisor should fit in Self")` nor the `resize` can panic. -/
theorem Bvf.divRem_refines_core (s : Raw w) (kind : SrcKind) (x : AnyBv) (hw : 2 ≤ w) (h : s.Inv)
    (hx : div_AnyInv x)
    (hconv : x.abs.val ≠ 0 → x.abs.sig ≤ s.abs.sig →
      ∃ d0, Bvf.convert w s.data.size kind (x.copyRange kind 0 x.sigBits) = .ok d0 ∧
        d0.Inv ∧ d0.abs.val = x.abs.val ∧ d0.data.size = s.data.size) :
    (x.abs.val = 0 → Bvf.divRem s kind x = .panic) ∧
    (x.abs.val ≠ 0 → ∃ q r, Bvf.divRem s kind x = .ok (q, r) ∧ q.Inv ∧ r.Inv ∧
        q.abs = s.abs.div x.abs ∧ r.abs = s.abs.rem x.abs ∧
        q.data.size = s.data.size ∧ r.data.size = s.data.size) := by
  have hw0 : 0 < w := by omega
  rw [div_Bvf_divRem_eq, div_any_isZero x hx, div_any_sigBits x hx, Raw.sigBits_eq s hw0 h]
  constructor
  · intro h0
    rw [if_pos (decide_eq_true h0)]
  · intro h0
    rw [if_neg (by simpa using h0)]
    obtain ⟨z1, z2⟩ := div_zero_raw s.data.size s.length hw0 h.1
    by_cases hsig : BV.natBits x.abs.val > s.abs.sig
    · rw [if_pos hsig]
      obtain ⟨d1, d2⟩ := div_small _ _ (div_lt_of_natBits_lt _ _ hsig)
      refine ⟨_, _, rfl, z1, h, ?_, ?_, by simp, rfl⟩
      · unfold BV.div; rw [d1]; exact congrArg (BV.mk s.length) z2
      · unfold BV.rem; rw [d2]
    · rw [if_neg hsig]
      have hsig' : BV.natBits x.abs.val ≤ BV.natBits s.abs.val := Nat.le_of_not_gt hsig
      have hwf : s.abs.val < 2 ^ s.length := h.wf hw0
      have hsl : BV.natBits s.abs.val ≤ s.length := (BV.natBits_le_iff _ _).mpr hwf
      have hxl : x.abs.val < 2 ^ s.length :=
        Nat.lt_of_lt_of_le (div_lt_pow_natBits _)
          (Nat.pow_le_pow_right (by decide) (Nat.le_trans hsig' hsl))
      obtain ⟨d0, e0, i0, v0, n0⟩ := hconv h0 hsig'
      rw [div_any_sigBits x hx] at e0
      rw [e0]
      simp only
      obtain ⟨d1, e1, c1, c2, n1⟩ := Bvf.resize_ok d0 s.length false hw0 i0
        (Or.inl (by rw [n0]; exact h.1))
      rw [e1]
      simp only
      rw [div_BV_resize _ _ (by rw [v0]; exact hxl), v0] at c2
      obtain ⟨r1, r2, r3, r4⟩ := div_raw_main hw0
        (fun r d => Bvf.cmpBvf r d != .lt) (fun r d => Bvf.addsubAssign true r (.f w d)) s
        ⟨Array.replicate s.data.size 0#w, s.length⟩ d1 x.abs.val s.data.size s.data.size
        (fun r d hr hd => div_Bvf_ge r d hw0 hr.1 hd.1)
        (fun r d hr hd hle => by
          obtain ⟨a1, a2, a3, a4⟩ := div_Bvf_sub_ok r d hw hr.1 (by rw [hd.2.2, hr.2.2]) hle
          exact ⟨⟨a1, by rw [a2]; exact hr.2.1, by rw [a3]; exact hr.2.2⟩, a4⟩)
        h ⟨z1, rfl, by simp⟩ z2 ⟨c1, (Raw.abs_len _).symm.trans (by rw [c2]), by rw [n1, n0]⟩
        (by rw [c2]) h0 hsig' (s.abs.sig - BV.natBits x.abs.val) rfl
      exact ⟨_, _, rfl, r1.1, r2.1, r3, r4, r1.2.2, r2.2.2⟩

-- ---- conversions of the divisor (the facts `div_rem` needs about `Bvf::try_from` / `Bvd::from`) ---------------
/-- word width of an operand -/
def div_anyW : AnyBv → Nat
  | .f w _ => w
  | .d _ => 64

/-- a vector whose word `k` holds bits `k*w …` of `a` when `P k`, and zero otherwise, refines `a` -/
theorem div_refines_of_words (t : Raw w) (hw : 0 < w) (a : BV) (P : Nat → Prop) [DecidablePred P]
    (hlen : t.length = a.len) (hcap : a.len ≤ t.data.size * w) (hwf : a.WF)
    (hP : ∀ k, k * w < a.len → P k)
    (hwd : ∀ k j, j < w → (wd t.data k).getLsbD j = (decide (P k) && a.bit (k * w + j))) :
    t.Inv ∧ t.abs = a := by
  have hz : ∀ i, a.len ≤ i → a.bit i = false := fun i hi =>
    Nat.testBit_lt_two_pow (Nat.lt_of_lt_of_le hwf (Nat.pow_le_pow_right (by decide) hi))
  have hb : ∀ i, bitAt t.data i = a.bit i := by
    intro i
    unfold bitAt
    rw [hwd _ _ (Nat.mod_lt i hw)]
    have e : i / w * w + i % w = i := by rw [Nat.mul_comm]; exact Nat.div_add_mod i w
    rw [e]
    by_cases hp : P (i / w)
    · simp [hp]
    · have : a.len ≤ i := by
        apply Nat.le_of_not_lt
        intro hlt
        apply hp
        apply hP
        have := Nat.mod_lt i hw
        omega
      rw [hz i this]; simp
  refine ⟨⟨by rw [hlen]; exact hcap, fun i hi => ?_⟩, ?_⟩
  · rw [hb]; exact hz i (by omega)
  · apply BV.ext_bits
    · rw [Raw.abs_len, hlen]
    · intro i; rw [Raw.abs_bit _ _ hw, hb]

/-- bit `j` of chunk `k` of a vector read in `wJ`-bit chunks -/
theorem div_getInt_bit {w1 wJ : Nat} (o : Raw w1) (hc : Compat w1 wJ) (ho : o.Inv) (k j : Nat)
    (hj : j < wJ) : ((o.getInt wJ k).getD 0#wJ).getLsbD j = o.abs.bit (k * wJ + j) := by
  rw [Raw.getInt_getLsbD o hc ho, Raw.abs_bit o _ hc.1]
  simp [hj]

/-- `Bvf::try_from(&Bvd)` succeeds when the length fits -/
theorem div_fromBvd_ok (N : Nat) (o : Raw 64) (hc : Compat 64 w) (ho : o.Inv) (hl : o.length ≤ N * w) :
    ∃ r, Bvf.fromBvd w N o = .ok r ∧ r.Inv ∧ r.abs = o.abs ∧ r.data.size = N := by
  unfold Bvf.fromBvd
  rw [if_neg (by omega)]
  refine ⟨_, rfl, ?_⟩
  rw [← and_assoc]
  refine ⟨?_, by simp⟩
  apply div_refines_of_words (⟨Array.ofFn (n := N) fun i => (o.getInt w i.val).getD 0#w, o.length⟩ : Raw w)
    hc.2.1 o.abs (fun k => k < N) rfl
    (by show o.length ≤ (Array.ofFn _).size * w; rw [Array.size_ofFn]; exact hl) (ho.wf hc.1)
  · intro k hk
    have hk' : k * w < N * w := Nat.lt_of_lt_of_le hk hl
    exact Nat.lt_of_mul_lt_mul_right hk'
  · intro k j hj
    show (wd (Array.ofFn _) k).getLsbD j = _
    rw [Edit.wd_ofFn]
    by_cases hk : k < N
    · rw [dif_pos hk, div_getInt_bit o hc ho k j hj]; simp [hk]
    · rw [dif_neg hk]; simp [hk]

/-- `Bvf::try_from(&Bvf)` succeeds when the length fits -/
theorem div_fromBvf_ok (N : Nat) {w1 : Nat} (o : Raw w1) (hc : Compat w1 w) (ho : o.Inv)
    (hl : o.length ≤ N * w) :
    ∃ r, Bvf.fromBvf w N o = .ok r ∧ r.Inv ∧ r.abs = o.abs ∧ r.data.size = N := by
  unfold Bvf.fromBvf
  rw [if_neg (by omega)]
  refine ⟨_, rfl, ?_⟩
  rw [← and_assoc]
  refine ⟨?_, by simp [size_forRange_set]⟩
  apply div_refines_of_words (⟨forRange 0 (min N (o.intLen w))
      (fun i a => a.setIfInBounds i ((o.getInt w i).getD 0#w)) (Array.replicate N 0#w), o.length⟩ : Raw w)
    hc.2.1 o.abs (fun k => k < min N (o.intLen w) ∧ k < N) rfl
    (by show o.length ≤ Array.size (forRange 0 _ _ _) * w
        rw [size_forRange_set, Array.size_replicate]; exact hl) (ho.wf hc.1)
  · intro k hk
    have hk' : k * w < N * w := Nat.lt_of_lt_of_le hk hl
    have h1 : k < N := Nat.lt_of_mul_lt_mul_right hk'
    have h2 : k < o.intLen w := (rc_lt_ceilDiv_iff o.length w k hc.2.1).mpr hk
    exact ⟨Nat.lt_min.mpr ⟨h1, h2⟩, h1⟩
  · intro k j hj
    show (wd (forRange 0 _ _ _) k).getLsbD j = _
    rw [wd_forRange_set, Array.size_replicate]
    by_cases hk : k < min N (o.intLen w) ∧ k < N
    · rw [if_pos hk, div_getInt_bit o hc ho k j hj]; simp [hk]
    · rw [if_neg hk, Edit.wd_replicate]; simp [hk]

/-- `Bvf::try_from(&Bv)` succeeds when the length fits -/
theorem div_fromBv_ok (N : Nat) (y : AnyBv) (hy : div_AnyInv y) (hc : Compat (div_anyW y) w)
    (hl : y.len ≤ N * w) :
    ∃ r, Bvf.fromBv w N y = .ok r ∧ r.Inv ∧ r.abs = y.abs ∧ r.data.size = N := by
  unfold Bvf.fromBv
  rw [if_neg (by omega)]
  refine ⟨_, rfl, ?_⟩
  rw [← and_assoc]
  refine ⟨?_, by simp [size_forRange_set]⟩
  have hwf : y.abs.WF := by
    cases y with
    | f w1 b => exact hy.2.wf hy.1
    | d b => exact Raw.Inv.wf (w := 64) hy (by decide)
  have hlen : y.abs.len = y.len := by cases y <;> rfl
  have hbit : ∀ k j, j < w → ((y.getInt w k).getD 0#w).getLsbD j = y.abs.bit (k * w + j) := by
    intro k j hj
    cases y with
    | f w1 b => exact div_getInt_bit b hc hy.2 k j hj
    | d b => exact div_getInt_bit b hc hy k j hj
  apply div_refines_of_words (⟨forRange 0 (y.intLen w)
      (fun i a => a.setIfInBounds i ((y.getInt w i).getD 0#w)) (Array.replicate N 0#w), y.len⟩ : Raw w)
    hc.2.1 y.abs (fun k => k < y.intLen w ∧ k < N) hlen.symm
    (by rw [hlen]; simpa [size_forRange_set] using hl) hwf
  · intro k hk
    rw [hlen] at hk
    have hk' : k * w < N * w := Nat.lt_of_lt_of_le hk hl
    exact ⟨(rc_lt_ceilDiv_iff y.len w k hc.2.1).mpr hk, Nat.lt_of_mul_lt_mul_right hk'⟩
  · intro k j hj
    show (wd (forRange 0 _ _ _) k).getLsbD j = _
    rw [wd_forRange_set, Array.size_replicate]
    by_cases hk : k < y.intLen w ∧ k < N
    · rw [if_pos hk, hbit k j hj]; simp [hk]
    · rw [if_neg hk, Edit.wd_replicate]; simp [hk]

/-- `Bvf::try_from(&B)` for every static source type -/
theorem div_convert_ok (N : Nat) (kind : SrcKind) (y : AnyBv) (hy : div_AnyInv y)
    (hc : Compat (div_anyW y) w) (hl : y.len ≤ N * w) :
    ∃ r, Bvf.convert w N kind y = .ok r ∧ r.Inv ∧ r.abs = y.abs ∧ r.data.size = N := by
  cases kind with
  | bv => exact div_fromBv_ok N y hy hc hl
  | bvf =>
    cases y with
    | f w1 b => exact div_fromBvf_ok N b hc hy.2 hl
    | d b => exact div_fromBvd_ok N b hc hy hl
  | bvd =>
    cases y with
    | f w1 b => exact div_fromBvf_ok N b hc hy.2 hl
    | d b => exact div_fromBvd_ok N b hc hy hl

/-- `Bvd::from(&Bvf)` -/
theorem div_Bvd_fromBvf {w1 : Nat} (o : Raw w1) (hc : Compat w1 64) (ho : o.Inv) :
    (Bvd.fromBvf o).Inv ∧ (Bvd.fromBvf o).abs = o.abs := by
  unfold Bvd.fromBvf
  apply div_refines_of_words (⟨Array.ofFn (n := o.intLen 64) fun i => (o.getInt 64 i.val).getD 0#64,
      o.length⟩ : Raw 64) (by decide) o.abs (fun k => k < o.intLen 64) rfl
    (by
      show o.length ≤ (Array.ofFn _).size * 64
      rw [Array.size_ofFn]
      exact le_capFromBitLen_mul (by decide) o.length)
    (ho.wf hc.1)
  · intro k hk
    exact (rc_lt_ceilDiv_iff o.length 64 k (by decide)).mpr hk
  · intro k j hj
    show (wd (Array.ofFn _) k).getLsbD j = _
    rw [Edit.wd_ofFn]
    by_cases hk : k < o.intLen 64
    · rw [dif_pos hk, div_getInt_bit o hc ho k j hj]; simp [hk]
    · rw [dif_neg hk]; simp [hk]

theorem div_Bvd_convert (x : AnyBv) (hx : div_AnyInv x) (hc : Compat (div_anyW x) 64) :
    (Bvd.convert x).Inv ∧ (Bvd.convert x).abs = x.abs := by
  cases x with
  | f w1 b => exact div_Bvd_fromBvf b hc hx.2
  | d b => exact ⟨hx, rfl⟩

-- ---- truncation of the divisor to its significant bits (repair D1) --------------------------------------------
theorem div_BV_trunc (a : BV) : a.copyRange 0 a.sig = ⟨a.sig, a.val⟩ := by
  unfold BV.copyRange BV.sig
  rw [Nat.sub_zero, Nat.shiftRight_zero, Nat.mod_eq_of_lt (div_lt_pow_natBits a.val)]

theorem div_trunc (kind : SrcKind) (x : AnyBv) (hx : div_AnyInv x) :
    div_AnyInv (x.copyRange kind 0 x.sigBits) ∧
    (x.copyRange kind 0 x.sigBits).abs = ⟨x.abs.sig, x.abs.val⟩ ∧
    div_anyW (x.copyRange kind 0 x.sigBits) = div_anyW x := by
  cases x with
  | f w1 b =>
    have hs : b.sigBits = b.abs.sig := Raw.sigBits_eq b hx.1 hx.2
    obtain ⟨h1, h2⟩ := Bvf.copyRange_refines b 0 b.sigBits hx.1 hx.2 (Nat.zero_le _)
      (by rw [hs]; exact BV.sig_le_len _ (hx.2.wf hx.1))
    refine ⟨⟨hx.1, h1⟩, ?_, rfl⟩
    show (Bvf.copyRange b 0 b.sigBits).abs = _
    rw [h2, hs, div_BV_trunc]; rfl
  | d b =>
    have hs : b.sigBits = b.abs.sig := Raw.sigBits_eq b (by decide) hx
    obtain ⟨h1, h2'⟩ := Bvd.copyRange_refines b 0 b.sigBits (Nat.zero_le _)
    have h2 : (Bvd.copyRange b 0 b.sigBits).abs = ⟨b.abs.sig, b.abs.val⟩ := by
      rw [h2', hs, div_BV_trunc]
    show div_AnyInv (AnyBv.copyRange kind (.d b) 0 b.sigBits) ∧
      (AnyBv.copyRange kind (.d b) 0 b.sigBits).abs = ⟨b.abs.sig, b.abs.val⟩ ∧
      div_anyW (AnyBv.copyRange kind (.d b) 0 b.sigBits) = 64
    unfold AnyBv.copyRange
    simp only
    split
    · rename_i hk
      obtain ⟨r, e, r1, r2, _⟩ := div_fromBvd_ok (w := 64) 2 (Bvd.copyRange b 0 b.sigBits)
        ⟨by decide, by decide, Or.inl (Nat.dvd_refl 64)⟩ h1 (by omega)
      rw [e]
      refine ⟨⟨by decide, r1⟩, ?_, rfl⟩
      show r.abs = _
      rw [r2, h2]
    · exact ⟨h1, h2, rfl⟩

theorem div_any_len (y : AnyBv) : y.abs.len = y.len := by cases y <;> rfl

/-- Task item 3: `Bvf::div_rem`.  A zero divisor panics; otherwise the call returns quotient and remainder — the
`expect("divisor should fit in Self")` and the `resize` cannot fail, whatever the operand's type, length or capacity. -/
theorem Bvf.divRem_refines (s : Raw w) (kind : SrcKind) (x : AnyBv) (hw : 2 ≤ w) (h : s.Inv)
    (hx : div_AnyInv x) (hc : Compat (div_anyW x) w) :
    (x.abs.val = 0 → Bvf.divRem s kind x = .panic) ∧
    (x.abs.val ≠ 0 → ∃ q r, Bvf.divRem s kind x = .ok (q, r) ∧ q.Inv ∧ r.Inv ∧
        q.abs = s.abs.div x.abs ∧ r.abs = s.abs.rem x.abs ∧
        q.data.size = s.data.size ∧ r.data.size = s.data.size) := by
  apply Bvf.divRem_refines_core s kind x hw h hx
  intro _ hsig
  have hw0 : 0 < w := by omega
  obtain ⟨t1, t2, t3⟩ := div_trunc kind x hx
  have hl : (x.copyRange kind 0 x.sigBits).len ≤ s.data.size * w := by
    rw [← div_any_len, t2]
    have := BV.sig_le_len s.abs (h.wf hw0)
    have := h.1
    show x.abs.sig ≤ _
    rw [Raw.abs_len] at *
    omega
  obtain ⟨r, e, r1, r2, r3⟩ := div_convert_ok s.data.size kind _ t1 (by rw [t3]; exact hc) hl
  exact ⟨r, e, r1, by rw [r2, t2], r3⟩

/-- Task item 4, with the conversion of a `Bvf` operand discharged (`Compat w1 64` holds for every word type of the
crate: `u8 … u128`). -/
theorem Bvd.divRem_refines' (s : Raw 64) (x : AnyBv) (h : s.Inv) (hx : div_AnyInv x)
    (hc : Compat (div_anyW x) 64) :
    (x.abs.val = 0 → Bvd.divRem s x = .panic) ∧
    (x.abs.val ≠ 0 → ∃ q r, Bvd.divRem s x = .ok (q, r) ∧ q.Inv ∧ r.Inv ∧
        q.abs = s.abs.div x.abs ∧ r.abs = s.abs.rem x.abs) := by
  obtain ⟨c1, c2⟩ := div_Bvd_convert x hx hc
  exact Bvd.divRem_refines s x h hx ⟨c1, by rw [c2]⟩

-- ---- 5. `Bv::div_rem` ---------------------------------------------------------------------------------------
/-- storage invariant of `Bv` (Prop form of `Bv.invB`): the variant's invariant; `Fixed` holds exactly two words -/
def div_BvInv : Bv → Prop
  | .fixed b => b.Inv ∧ b.data.size = 2
  | .dynamic b => b.Inv

theorem div_BvInv_raw {t : Bv} (h : div_BvInv t) : t.raw.Inv := by
  cases t with
  | fixed b => exact h.1
  | dynamic b => exact h

/-- reading a `Raw w` in chunks of its own word type: any number of chunks -/
theorem div_valF_getInt_mod (o : Raw w) (hw : 0 < w) (ho : o.Inv) (n : Nat) :
    valF (fun i => (o.getInt w i).getD 0#w) n = o.abs.val % 2 ^ (w * n) := by
  apply Nat.eq_of_testBit_eq
  intro i
  rw [testBit_valF hw, Nat.testBit_mod_two_pow,
    div_getInt_bit o ⟨hw, hw, Or.inl (Nat.dvd_refl w)⟩ ho _ _ (Nat.mod_lt i hw)]
  have e : i / w * w + i % w = i := by rw [Nat.mul_comm]; exact Nat.div_add_mod i w
  rw [e]; rfl

theorem div_Bvf_addsub_size (r : Raw w) (x : AnyBv) (hw : 2 ≤ w) :
    (Bvf.addsubAssign true r x).data.size = r.data.size := by
  unfold Bvf.addsubAssign
  simp only [if_true, size_mod2n]
  exact (chain_csub hw r.data (Bvf.rhsWord w r.data.size x) r.data.size 0#w
    (Nat.le_refl _) (by simp)).2.1

theorem div_Bv_ge (r d : Bv) (hr : div_BvInv r) (hd : div_BvInv d) :
    (Bv.cmpAny r d.any != .lt) = decide (d.abs.val ≤ r.abs.val) := by
  have hw : 0 < 64 := by decide
  cases r with
  | fixed a =>
    cases d with
    | fixed b => exact div_Bvf_ge a b hw hr.1 hd.1
    | dynamic b =>
      show ((Bvd.cmpBvf b a).swap != .lt) = _
      rw [Bvd.cmpBvf_eq_of_fetch b a hd
        (div_valF_getInt a hw hr.1 _ (Nat.le_trans (div_len_le_intLen a hw)
          (Nat.mul_le_mul_left 64 (Nat.le_max_right _ _)))), natCmp_swap, div_cmp_ge]
      rfl
  | dynamic a =>
    cases d with
    | fixed b =>
      show (Bvd.cmpBvf a b != .lt) = _
      rw [Bvd.cmpBvf_eq_of_fetch a b hr
        (div_valF_getInt b hw hd.1 _ (Nat.le_trans (div_len_le_intLen b hw)
          (Nat.mul_le_mul_left 64 (Nat.le_max_right _ _)))), div_cmp_ge]
      rfl
    | dynamic b =>
      show (Bvd.cmpBvd a b != .lt) = _
      rw [Bvd.cmpBvd_eq', div_cmp_ge]
      rfl

theorem div_Bv_sub_ok (r d : Bv) (hr : div_BvInv r) (hd : div_BvInv d)
    (hle : d.abs.val ≤ r.abs.val) :
    div_BvInv (Bv.addsubAssign true r d.any) ∧ (Bv.addsubAssign true r d.any).len = r.len ∧
      (Bv.addsubAssign true r d.any).abs.val = r.abs.val - d.abs.val := by
  have hw : 0 < 64 := by decide
  cases r with
  | fixed a =>
    cases d with
    | fixed b =>
      have hle' : b.abs.val ≤ a.abs.val := hle
      obtain ⟨a1, a2, a3, a4⟩ := div_Bvf_sub_ok a b (by decide) hr.1 (by rw [hd.2, hr.2]) hle'
      show ((Bvf.addsubAssign true a (.f 64 b)).Inv ∧ (Bvf.addsubAssign true a (.f 64 b)).data.size = 2) ∧
        (Bvf.addsubAssign true a (.f 64 b)).length = a.length ∧
        (Bvf.addsubAssign true a (.f 64 b)).abs.val = a.abs.val - b.abs.val
      exact ⟨⟨a1, by rw [a3]; exact hr.2⟩, a2, a4⟩
    | dynamic b =>
      have hle' : b.abs.val ≤ a.abs.val := hle
      have hd' : b.Inv := hd
      have hf : valF (Bvf.rhsWord 64 a.data.size (.d b)) a.data.size =
          (AnyBv.d b).abs.val % 2 ^ (64 * a.data.size) := div_valF_getInt_mod b hw hd' _
      obtain ⟨h1, h2⟩ := Bvf.addsubAssign_sub a (.d b) (by decide) hr.1 hf
      have h3 : (AnyBv.d b).abs = b.abs := rfl
      rw [h3, div_BV_sub _ _ (hr.1.wf hw) hle'] at h2
      show ((Bvf.addsubAssign true a (.d b)).Inv ∧ (Bvf.addsubAssign true a (.d b)).data.size = 2) ∧
        (Bvf.addsubAssign true a (.d b)).length = a.length ∧
        (Bvf.addsubAssign true a (.d b)).abs.val = a.abs.val - b.abs.val
      refine ⟨⟨h1, ?_⟩, rfl, by rw [h2]⟩
      rw [div_Bvf_addsub_size a _ (by decide)]; exact hr.2
  | dynamic a =>
    cases d with
    | fixed b =>
      have hle' : b.abs.val ≤ a.abs.val := hle
      have hr' : a.Inv := hr
      have hf : ∀ n, n ≤ (Bvd.rhsWords (.f 64 b)).1 →
          valF (Bvd.rhsWords (.f 64 b)).2 n = (AnyBv.f 64 b).abs.val % 2 ^ (64 * n) :=
        fun n _ => div_valF_getInt_mod b hw hd.1 n
      have hx : (AnyBv.f 64 b).abs.val < 2 ^ (64 * (Bvd.rhsWords (.f 64 b)).1) :=
        Nat.lt_of_lt_of_le (hd.1.wf hw) (Nat.pow_le_pow_right (by decide) (div_len_le_intLen b hw))
      obtain ⟨h1, h2, _⟩ := Bvd.addsubAssign_sub a (.f 64 b) hr' hf hx
      have h3 : (AnyBv.f 64 b).abs = b.abs := rfl
      rw [h3, div_BV_sub _ _ (hr'.wf hw) hle'] at h2
      show (Bvd.addsubAssign true a (.f 64 b)).Inv ∧
        (Bvd.addsubAssign true a (.f 64 b)).length = a.length ∧
        (Bvd.addsubAssign true a (.f 64 b)).abs.val = a.abs.val - b.abs.val
      exact ⟨h1, (Raw.abs_len _).symm.trans (by rw [h2]; rfl), by rw [h2]⟩
    | dynamic b =>
      have hle' : b.abs.val ≤ a.abs.val := hle
      obtain ⟨a1, a2, _, a4⟩ := div_Bvd_sub_ok a b hr hd hle'
      exact ⟨a1, a2, a4⟩

theorem div_Bv_mapRaw (f : Raw 64 → Raw 64) (t : Bv) (ht : div_BvInv t)
    (hf : (f t.raw).Inv ∧ (f t.raw).length = t.raw.length ∧ (f t.raw).data.size = t.raw.data.size) :
    div_BvInv (Bv.mapRaw f t) ∧ (Bv.mapRaw f t).len = t.len ∧ (Bv.mapRaw f t).abs = (f t.raw).abs := by
  cases t with
  | fixed b => exact ⟨⟨hf.1, hf.2.2.trans ht.2⟩, hf.2.1, rfl⟩
  | dynamic b => exact ⟨hf.1, hf.2.1, rfl⟩

/-- `Bv` invariant with fixed bit length -/
def div_BvJ (L : Nat) (t : Bv) : Prop := div_BvInv t ∧ t.len = L

theorem div_Bv_main (s q0 d1 : Bv) (b : Nat) (hs : div_BvInv s) (hq : div_BvJ s.len q0)
    (hq0 : q0.abs.val = 0) (hd1 : div_BvJ s.len d1) (hdv : d1.abs.val = b) (hb : b ≠ 0)
    (hsig : BV.natBits b ≤ BV.natBits s.abs.val) (shift : Nat)
    (hshift : shift = BV.natBits s.abs.val - BV.natBits b) :
    div_BvJ s.len (divLoop (fun r d => Bv.cmpAny r d.any != .lt)
      (fun r d => Bv.addsubAssign true r d.any) (fun q i => Bv.mapRaw (fun t => t.set i true) q)
      (Bv.mapRaw (fun t => t.shrAssign 1)) (shift + 1) q0 s
      (Bv.mapRaw (fun t => t.shlAssign shift) d1)).1 ∧
    div_BvJ s.len (divLoop (fun r d => Bv.cmpAny r d.any != .lt)
      (fun r d => Bv.addsubAssign true r d.any) (fun q i => Bv.mapRaw (fun t => t.set i true) q)
      (Bv.mapRaw (fun t => t.shrAssign 1)) (shift + 1) q0 s
      (Bv.mapRaw (fun t => t.shlAssign shift) d1)).2 ∧
    (divLoop (fun r d => Bv.cmpAny r d.any != .lt)
      (fun r d => Bv.addsubAssign true r d.any) (fun q i => Bv.mapRaw (fun t => t.set i true) q)
      (Bv.mapRaw (fun t => t.shrAssign 1)) (shift + 1) q0 s
      (Bv.mapRaw (fun t => t.shlAssign shift) d1)).1.abs = ⟨s.len, s.abs.val / b⟩ ∧
    (divLoop (fun r d => Bv.cmpAny r d.any != .lt)
      (fun r d => Bv.addsubAssign true r d.any) (fun q i => Bv.mapRaw (fun t => t.set i true) q)
      (Bv.mapRaw (fun t => t.shrAssign 1)) (shift + 1) q0 s
      (Bv.mapRaw (fun t => t.shlAssign shift) d1)).2.abs = ⟨s.len, s.abs.val % b⟩ := by
  have hw : 0 < 64 := by decide
  have hsr := div_BvInv_raw hs
  have hwf : s.abs.val < 2 ^ s.len := hsr.wf hw
  have hsl : BV.natBits s.abs.val ≤ s.len := (BV.natBits_le_iff _ _).mpr hwf
  have hbpos := div_natBits_pos b hb
  have h1 : b * 2 ^ shift < 2 ^ s.len := by
    rw [hshift]
    exact Nat.lt_of_lt_of_le (div_shifted_lt _ _ hsig) (Nat.pow_le_pow_right (by decide) hsl)
  -- the shifted divisor
  have hd1l : d1.raw.length = s.len := hd1.2
  obtain ⟨e1, e2, e3, e4⟩ := div_shl_ok d1.raw shift hw (div_BvInv_raw hd1.1)
    (by rw [hd1l]; exact hdv ▸ h1)
  obtain ⟨m1, m2, m3⟩ := div_Bv_mapRaw (fun t => t.shlAssign shift) d1 hd1.1 ⟨e1, e2, e3⟩
  have hd2 : div_BvJ s.len (Bv.mapRaw (fun t => t.shlAssign shift) d1) := ⟨m1, m2.trans hd1.2⟩
  have hd2v : (Bv.mapRaw (fun t => t.shlAssign shift) d1).abs.val = b * 2 ^ shift := by
    rw [m3]; show (d1.raw.shlAssign shift).abs.val = _; rw [e4]; exact congrArg (· * 2 ^ shift) hdv
  obtain ⟨r1, r2, r3, r4⟩ := divLoop_div_rem (fun r d => Bv.cmpAny r d.any != .lt)
    (fun r d => Bv.addsubAssign true r d.any) (fun q i => Bv.mapRaw (fun t => t.set i true) q)
    (Bv.mapRaw (fun t => t.shrAssign 1)) (div_BvJ s.len) (div_BvJ s.len) (div_BvJ s.len)
    (fun t => t.abs.val) s.len
    (fun r d hr hd => div_Bv_ge r d hr.1 hd.1)
    (fun r d hr hd hle => by
      obtain ⟨a1, a2, a3⟩ := div_Bv_sub_ok r d hr.1 hd.1 hle
      exact ⟨⟨a1, a2.trans hr.2⟩, a3⟩)
    (fun q i hq hi hbit => by
      obtain ⟨a1, a2, a3, a4⟩ := div_set_ok q.raw i hw (div_BvInv_raw hq.1)
        (by rw [show q.raw.length = s.len from hq.2]; exact hi) hbit
      obtain ⟨n1, n2, n3⟩ := div_Bv_mapRaw (fun t => t.set i true) q hq.1 ⟨a1, a2, a3⟩
      exact ⟨⟨n1, n2.trans hq.2⟩, by rw [n3]; exact a4⟩)
    (fun d hd => by
      obtain ⟨a1, a2, a3, a4⟩ := div_shr_ok d.raw hw (div_BvInv_raw hd.1)
      obtain ⟨n1, n2, n3⟩ := div_Bv_mapRaw (fun t => t.shrAssign 1) d hd.1 ⟨a1, a2, a3⟩
      exact ⟨⟨n1, n2.trans hd.2⟩, by rw [n3]; exact a4⟩)
    shift b q0 s _ (by omega) hq ⟨hs, rfl⟩ hd2 hq0 hb hd2v
    (by rw [hshift]; exact div_dividend_lt _ _ hb hsig)
  refine ⟨r1, r2, ?_, ?_⟩
  · generalize (divLoop (fun r d => Bv.cmpAny r d.any != .lt)
      (fun r d => Bv.addsubAssign true r d.any) (fun q i => Bv.mapRaw (fun t => t.set i true) q)
      (Bv.mapRaw (fun t => t.shrAssign 1)) (shift + 1) q0 s
      (Bv.mapRaw (fun t => t.shlAssign shift) d1)).1 = t at r1 r3
    show (⟨t.len, t.abs.val⟩ : BV) = _
    rw [r1.2, r3]
  · generalize (divLoop (fun r d => Bv.cmpAny r d.any != .lt)
      (fun r d => Bv.addsubAssign true r d.any) (fun q i => Bv.mapRaw (fun t => t.set i true) q)
      (Bv.mapRaw (fun t => t.shrAssign 1)) (shift + 1) q0 s
      (Bv.mapRaw (fun t => t.shlAssign shift) d1)).2 = t at r2 r4
    show (⟨t.len, t.abs.val⟩ : BV) = _
    rw [r2.2, r4]

theorem div_compat64 : Compat 64 64 := ⟨by decide, by decide, Or.inl (Nat.dvd_refl 64)⟩

theorem div_Bv_zeros (n : Nat) :
    div_BvInv (Bv.zeros n) ∧ (Bv.zeros n).len = n ∧ (Bv.zeros n).abs.val = 0 := by
  unfold Bv.zeros Bv.cap128
  split
  · rename_i hn
    obtain ⟨r, e, r1, r2, r3⟩ := Bvf.zeros_ok (w := 64) 2 n (by decide) (by omega)
    rw [e]
    show (r.Inv ∧ r.data.size = 2) ∧ r.length = n ∧ r.abs.val = 0
    exact ⟨⟨r1, r3⟩, (Raw.abs_len r).symm.trans (by rw [r2]; rfl), by rw [r2]; rfl⟩
  · obtain ⟨z1, z2, _⟩ := Bvd.zeros_refines n
    show (Bvd.zeros n).Inv ∧ (Bvd.zeros n).length = n ∧ (Bvd.zeros n).abs.val = 0
    exact ⟨z1, rfl, by rw [z2]; rfl⟩

theorem div_Bv_fromBvf {w1 : Nat} (b : Raw w1) (hc : Compat w1 64) (hb : b.Inv) :
    div_BvInv (Bv.fromBvf b) ∧ (Bv.fromBvf b).abs = b.abs := by
  unfold Bv.fromBvf Bv.cap128
  split
  · rename_i hn
    obtain ⟨r, e, r1, r2, r3⟩ := div_fromBvf_ok (w := 64) 2 b hc hb (by have := hb.1; omega)
    rw [e]
    exact ⟨⟨r1, r3⟩, r2⟩
  · exact div_Bvd_fromBvf b hc hb

theorem div_Bv_fromBvd (b : Raw 64) (hb : b.Inv) :
    div_BvInv (Bv.fromBvd b) ∧ (Bv.fromBvd b).abs = b.abs := by
  unfold Bv.fromBvd
  by_cases hl : b.length ≤ 128
  · obtain ⟨r, e, r1, r2, r3⟩ := div_fromBvd_ok (w := 64) 2 b div_compat64 hb (by omega)
    rw [e]
    exact ⟨⟨r1, r3⟩, r2⟩
  · have e : Bvf.fromBvd 64 2 b = .err "NotEnoughCapacity" := by
      unfold Bvf.fromBvd; rw [if_pos (by omega)]
    rw [e]
    exact ⟨hb, rfl⟩

theorem div_Bv_convert_bv_f {w1 : Nat} (b : Raw w1) :
    Bv.convert .bv (.f w1 b) = .fixed ⟨b.data.map (·.setWidth 64), b.length⟩ := rfl
theorem div_Bv_convert_bvf_f {w1 : Nat} (b : Raw w1) : Bv.convert .bvf (.f w1 b) = Bv.fromBvf b := rfl
theorem div_Bv_convert_bvd_f {w1 : Nat} (b : Raw w1) : Bv.convert .bvd (.f w1 b) = Bv.fromBvf b := rfl
theorem div_Bv_convert_bv_d (b : Raw 64) : Bv.convert .bv (.d b) = .dynamic b := rfl
theorem div_Bv_convert_bvf_d (b : Raw 64) : Bv.convert .bvf (.d b) = Bv.fromBvd b := rfl
theorem div_Bv_convert_bvd_d (b : Raw 64) : Bv.convert .bvd (.d b) = Bv.fromBvd b := rfl

/-- `Bv::from(&B)`; for `kind = .bv` a fixed operand is the payload of a `Bv::Fixed` (64-bit words, two of them) -/
theorem div_Bv_convert (kind : SrcKind) (x : AnyBv) (hx : div_AnyInv x)
    (hc : Compat (div_anyW x) 64)
    (hk : kind = .bv → ∀ w1 (b : Raw w1), x = .f w1 b → w1 = 64 ∧ b.data.size = 2) :
    div_BvInv (Bv.convert kind x) ∧ (Bv.convert kind x).abs = x.abs := by
  cases x with
  | f w1 b =>
    have hb : b.Inv := hx.2
    have hc' : Compat w1 64 := hc
    have ha : (AnyBv.f w1 b).abs = b.abs := rfl
    rw [ha]
    cases kind with
    | bv =>
      obtain ⟨h64, hsz⟩ := hk rfl w1 b rfl
      subst h64
      have e : b.data.map (·.setWidth 64) = b.data := by simp
      rw [div_Bv_convert_bv_f, e]
      exact ⟨⟨hb, hsz⟩, rfl⟩
    | bvf => rw [div_Bv_convert_bvf_f]; exact div_Bv_fromBvf b hc' hb
    | bvd => rw [div_Bv_convert_bvd_f]; exact div_Bv_fromBvf b hc' hb
  | d b =>
    have hb : b.Inv := hx
    have ha : (AnyBv.d b).abs = b.abs := rfl
    rw [ha]
    cases kind with
    | bv => rw [div_Bv_convert_bv_d]; exact ⟨hb, rfl⟩
    | bvf => rw [div_Bv_convert_bvf_d]; exact div_Bv_fromBvd b hb
    | bvd => rw [div_Bv_convert_bvd_d]; exact div_Bv_fromBvd b hb

theorem div_Bv_resize_fixed (b : Raw 64) (n : Nat) (bit : Bool) :
    Bv.resize (.fixed b) n bit =
      if n > b.length ∧ b.length + (n - b.length) > 128 then
        .ok (.dynamic (Bvd.resize (Bvd.reserve (Bvd.fromBvf b) (n - b.length)) n bit))
      else Bv.liftRes (Bvf.resize b n bit) := by
  unfold Bv.resize Bv.reserve Bv.cap128
  show (match (if n > b.length then
      (if b.length + (n - b.length) > 128 then
        Bv.dynamic (Bvd.reserve (Bvd.fromBvf b) (n - b.length)) else Bv.fixed b) else Bv.fixed b) with
    | .fixed b => Bv.liftRes (Bvf.resize b n bit)
    | .dynamic b => .ok (.dynamic (Bvd.resize b n bit))) = _
  by_cases h1 : n > b.length
  · by_cases h2 : b.length + (n - b.length) > 128
    · simp only [h1, h2, if_true, and_self]
    · simp only [h1, h2, if_true, if_false, and_false]
  · simp only [h1, if_false, false_and]

theorem div_Bv_resize_dynamic (b : Raw 64) (n : Nat) (bit : Bool) :
    Bv.resize (.dynamic b) n bit =
      .ok (.dynamic (Bvd.resize (if n > b.length then Bvd.reserve b (n - b.length) else b) n bit)) := by
  unfold Bv.resize Bv.reserve
  show (match (if n > b.length then Bv.dynamic (Bvd.reserve b (n - b.length)) else Bv.dynamic b) with
    | .fixed b => Bv.liftRes (Bvf.resize b n bit)
    | .dynamic b => .ok (.dynamic (Bvd.resize b n bit))) = _
  by_cases h1 : n > b.length
  · simp only [h1, if_true]
  · simp only [h1, if_false]

/-- `Bv::resize` never fails (a `Fixed` that must grow beyond 128 bits is first moved to the heap) -/
theorem div_Bv_resize (c : Bv) (n : Nat) (bit : Bool) (hc : div_BvInv c) :
    ∃ r, Bv.resize c n bit = .ok r ∧ div_BvInv r ∧ r.abs = c.abs.resize n bit := by
  have hw : 0 < 64 := by decide
  cases c with
  | fixed b =>
    rw [div_Bv_resize_fixed]
    have ha : (Bv.fixed b).abs = b.abs := rfl
    rw [ha]
    split
    · obtain ⟨f1, f2⟩ := div_Bvd_fromBvf b div_compat64 hc.1
      obtain ⟨r1, r2, _⟩ := Bvd.reserve_refines (Bvd.fromBvf b) (n - b.length) f1
      obtain ⟨p1, p2⟩ := Bvd.resize_refines _ n bit r1
      exact ⟨_, rfl, p1, by rw [← f2, ← r2]; exact p2⟩
    · rename_i hn
      obtain ⟨r, e, r1, r2, r3⟩ := Bvf.resize_ok b n bit hw hc.1 (by rw [hc.2]; omega)
      rw [e]
      exact ⟨_, rfl, ⟨r1, r3.trans hc.2⟩, r2⟩
  | dynamic b =>
    rw [div_Bv_resize_dynamic]
    have ha : (Bv.dynamic b).abs = b.abs := rfl
    have hb : b.Inv := hc
    rw [ha]
    split
    · obtain ⟨r1, r2, _⟩ := Bvd.reserve_refines b (n - b.length) hb
      obtain ⟨p1, p2⟩ := Bvd.resize_refines _ n bit r1
      exact ⟨_, rfl, p1, by rw [← r2]; exact p2⟩
    · obtain ⟨p1, p2⟩ := Bvd.resize_refines b n bit hb
      exact ⟨_, rfl, p1, p2⟩

theorem div_BvInv_iff_invB (t : Bv) : div_BvInv t ↔ t.invB = true := by
  cases t with
  | fixed b =>
    show (b.Inv ∧ b.data.size = 2) ↔ (b.invB && b.data.size == 2) = true
    rw [Bool.and_eq_true, Raw.invB_iff b (by decide), beq_iff_eq]
  | dynamic b => exact (Raw.invB_iff b (by decide)).symm

theorem div_Bv_divRem_eq (s : Bv) (kind : SrcKind) (x : AnyBv) :
    Bv.divRem s kind x =
      if x.isZero then .panic else
      if x.sigBits > s.raw.sigBits then .ok (Bv.zeros s.len, s) else
      match Bv.resize (Bv.convert kind x) s.len false with
      | .ok d1 =>
        .ok (divLoop (fun r d => Bv.cmpAny r d.any != .lt) (fun r d => Bv.addsubAssign true r d.any)
          (fun q i => Bv.mapRaw (fun t => t.set i true) q) (Bv.mapRaw (fun t => t.shrAssign 1))
          (s.raw.sigBits - x.sigBits + 1) (Bv.zeros s.len) s
          (Bv.mapRaw (fun t => t.shlAssign (s.raw.sigBits - x.sigBits)) d1))
      | _ => .panic := rfl

/-- `Bv::div_rem`.  `hk`: when the operand's static type is `Bv` and it holds a `Fixed`, that is a `Bvf<u64,2>`. -/
theorem Bv.divRem_refines (s : Bv) (kind : SrcKind) (x : AnyBv) (h : div_BvInv s)
    (hx : div_AnyInv x) (hc : Compat (div_anyW x) 64)
    (hk : kind = .bv → ∀ w1 (b : Raw w1), x = .f w1 b → w1 = 64 ∧ b.data.size = 2) :
    (x.abs.val = 0 → Bv.divRem s kind x = .panic) ∧
    (x.abs.val ≠ 0 → ∃ q r, Bv.divRem s kind x = .ok (q, r) ∧ div_BvInv q ∧ div_BvInv r ∧
        q.abs = s.abs.div x.abs ∧ r.abs = s.abs.rem x.abs) := by
  have hw : 0 < 64 := by decide
  have hsr := div_BvInv_raw h
  rw [div_Bv_divRem_eq, div_any_isZero x hx, div_any_sigBits x hx, Raw.sigBits_eq s.raw hw hsr]
  have hsa : s.raw.abs = s.abs := rfl
  rw [hsa]
  constructor
  · intro h0
    rw [if_pos (decide_eq_true h0)]
  · intro h0
    rw [if_neg (by simpa using h0)]
    obtain ⟨z1, z2, z3⟩ := div_Bv_zeros s.len
    have hslen : s.abs.len = s.len := rfl
    by_cases hsig : BV.natBits x.abs.val > s.abs.sig
    · rw [if_pos hsig]
      obtain ⟨d1, d2⟩ := div_small _ _ (div_lt_of_natBits_lt _ _ hsig)
      refine ⟨_, _, rfl, z1, h, ?_, ?_⟩
      · unfold BV.div; rw [d1, hslen]
        show (⟨(Bv.zeros s.len).len, (Bv.zeros s.len).abs.val⟩ : BV) = _
        rw [z2, z3]
      · unfold BV.rem; rw [d2]
    · rw [if_neg hsig]
      have hsig' : BV.natBits x.abs.val ≤ BV.natBits s.abs.val := Nat.le_of_not_gt hsig
      have hwf : s.abs.val < 2 ^ s.len := hsr.wf hw
      have hsl : BV.natBits s.abs.val ≤ s.len := (BV.natBits_le_iff _ _).mpr hwf
      have hxl : x.abs.val < 2 ^ s.len :=
        Nat.lt_of_lt_of_le (div_lt_pow_natBits _)
          (Nat.pow_le_pow_right (by decide) (Nat.le_trans hsig' hsl))
      obtain ⟨c1, c2⟩ := div_Bv_convert kind x hx hc hk
      obtain ⟨d1, e1, i1, a1⟩ := div_Bv_resize (Bv.convert kind x) s.len false c1
      rw [e1]
      simp only
      rw [c2, div_BV_resize _ _ hxl] at a1
      obtain ⟨r1, r2, r3, r4⟩ := div_Bv_main s (Bv.zeros s.len) d1 x.abs.val h ⟨z1, z2⟩ z3
        ⟨i1, (show d1.abs.len = s.len by rw [a1])⟩ (by rw [a1]) h0 hsig'
        (s.abs.sig - BV.natBits x.abs.val) rfl
      exact ⟨_, _, rfl, r1.1, r2.1, r3, r4⟩

end Bva
