import BvaProofs.Base
import BvaProofs.Count
import BvaProofs.Cmp
import BvaProofs.Carry
import BvaProofs.Shift
import BvaProofs.Edit
import BvaProofs.Slice
import BvaProofs.Rechunk
import BvaModel.Auto
/-!
# T16 — division (`div_rem` ×3)

1. `divLoopNat` : the shift–subtract loop on `Nat`, and its correctness `divLoopNat_spec`.
2. `divLoop_refines` : the model's generic `divLoop` refines `divLoopNat` over an abstract interface.
3. / 4. instantiation for `Bvd.divRem`, `Bvf.divRem`, `Bv.divRem`.
-/
namespace Bva

-- ---- 1. the algorithm on natural numbers ----------------------------------------------------------------
def divLoopNat : Nat → Nat → Nat → Nat → Nat × Nat
  | 0, q, r, _ => (q, r)
  | i + 1, q, r, d =>
    let (q, r) := if d ≤ r then (q + 2 ^ i, r - d) else (q, r)
    divLoopNat i q r (d / 2)

theorem div_loopNat_zero (q r d : Nat) : divLoopNat 0 q r d = (q, r) := rfl

theorem div_loopNat_succ (i q r d : Nat) :
    divLoopNat (i + 1) q r d =
      if d ≤ r then divLoopNat i (q + 2 ^ i) (r - d) (d / 2) else divLoopNat i q r (d / 2) := by
  by_cases h : d ≤ r <;> simp [divLoopNat, h]

/-- general invariant: with `i` steps left, divisor `b·2^(i-1)` and `r < b·2^i`, the loop adds `r / b`
to the quotient and leaves `r % b`. -/
theorem div_loopNat_gen (b : Nat) (hb : b ≠ 0) :
    ∀ (i q r d : Nat), (i ≠ 0 → d = b * 2 ^ (i - 1)) → r < b * 2 ^ i →
      divLoopNat i q r d = (q + r / b, r % b)
  | 0, q, r, d, _, hr => by
    rw [div_loopNat_zero]
    have hr' : r < b := by simpa using hr
    rw [Nat.div_eq_of_lt hr', Nat.mod_eq_of_lt hr', Nat.add_zero]
  | i + 1, q, r, d, hd, hr => by
    have hd' : d = b * 2 ^ i := by simpa using hd (Nat.succ_ne_zero i)
    have hd2 : i ≠ 0 → d / 2 = b * 2 ^ (i - 1) := by
      intro hi
      obtain ⟨j, rfl⟩ : ∃ j, i = j + 1 := ⟨i - 1, by omega⟩
      rw [hd', Nat.pow_succ, ← Nat.mul_assoc, Nat.mul_div_cancel _ (by decide : 0 < 2)]
      rfl
    rw [div_loopNat_succ]
    by_cases hle : d ≤ r
    · rw [if_pos hle]
      have hr2 : r - d < b * 2 ^ i := by
        rw [Nat.pow_succ, ← Nat.mul_assoc] at hr
        omega
      rw [div_loopNat_gen b hb i (q + 2 ^ i) (r - d) (d / 2) hd2 hr2]
      have hle' : b * 2 ^ i ≤ r := by rw [← hd']; exact hle
      have hbpos : 0 < b := Nat.pos_of_ne_zero hb
      have h1 : (r - b * 2 ^ i) / b = r / b - 2 ^ i := Nat.sub_mul_div_of_le r b (2 ^ i) hle'
      have h2 : 2 ^ i ≤ r / b := by
        rw [Nat.le_div_iff_mul_le hbpos, Nat.mul_comm]; exact hle'
      have h3 : (r - b * 2 ^ i) % b = r % b := by
        have : r = (r - b * 2 ^ i) + b * 2 ^ i := by omega
        conv => rhs; rw [this, Nat.add_mul_mod_self_left]
      rw [hd', h1, h3]
      congr 1
      omega
    · rw [if_neg hle]
      have hr2 : r < b * 2 ^ i := by rw [← hd']; omega
      exact div_loopNat_gen b hb i q r (d / 2) hd2 hr2

/-- Task item 1. -/
theorem divLoopNat_spec (a b d shift : Nat) (hb : b ≠ 0) (hd : d = b * 2 ^ shift)
    (ha : a < b * 2 ^ (shift + 1)) :
    divLoopNat (shift + 1) 0 a d = (a / b, a % b) := by
  rw [div_loopNat_gen b hb (shift + 1) 0 a d (fun _ => by simpa using hd) ha, Nat.zero_add]

-- ---- 2. the generic loop refines the `Nat` loop ----------------------------------------------------------
theorem div_loop_zero {α : Type} (ge : α → α → Bool) (sub : α → α → α) (setOne : α → Nat → α)
    (shr1 : α → α) (q r d : α) : divLoop ge sub setOne shr1 0 q r d = (q, r) := rfl

theorem div_loop_succ {α : Type} (ge : α → α → Bool) (sub : α → α → α) (setOne : α → Nat → α)
    (shr1 : α → α) (i : Nat) (q r d : α) :
    divLoop ge sub setOne shr1 (i + 1) q r d =
      if ge r d = true then divLoop ge sub setOne shr1 i (setOne q i) (sub r d) (shr1 d)
      else divLoop ge sub setOne shr1 i q r (shr1 d) := by
  by_cases h : ge r d = true <;> simp [divLoop, h]

theorem div_testBit_of_mod (v i : Nat) (h : v % 2 ^ (i + 1) = 0) : v.testBit i = false := by
  have := Nat.testBit_mod_two_pow v (i + 1) i
  rw [h] at this
  simpa using this.symm

theorem div_mod_of_mod_succ (v i : Nat) (h : v % 2 ^ (i + 1) = 0) : v % 2 ^ i = 0 :=
  Nat.mod_eq_zero_of_dvd
    (Nat.dvd_trans (Nat.pow_dvd_pow 2 (Nat.le_succ i)) (Nat.dvd_of_mod_eq_zero h))

theorem div_mod_add_pow (v i : Nat) (h : v % 2 ^ (i + 1) = 0) : (v + 2 ^ i) % 2 ^ i = 0 := by
  rw [Nat.add_mod_right]; exact div_mod_of_mod_succ v i h

/-- Task item 2.  `Iq`, `Ir`, `Id` are the storage invariants of quotient, remainder and divisor; `val` the
abstraction to `Nat`.  `setOne q i` is only ever used with `i < bound` on a value whose bit `i` is clear. -/
theorem divLoop_refines {α : Type} (ge : α → α → Bool) (sub : α → α → α) (setOne : α → Nat → α)
    (shr1 : α → α) (Iq Ir Id : α → Prop) (val : α → Nat) (bound : Nat)
    (hge : ∀ r d, Ir r → Id d → ge r d = decide (val d ≤ val r))
    (hsub : ∀ r d, Ir r → Id d → val d ≤ val r → Ir (sub r d) ∧ val (sub r d) = val r - val d)
    (hset : ∀ q i, Iq q → i < bound → (val q).testBit i = false →
      Iq (setOne q i) ∧ val (setOne q i) = val q + 2 ^ i)
    (hshr : ∀ d, Id d → Id (shr1 d) ∧ val (shr1 d) = val d / 2) :
    ∀ (n : Nat) (q r d : α), n ≤ bound → Iq q → Ir r → Id d → val q % 2 ^ n = 0 →
      Iq (divLoop ge sub setOne shr1 n q r d).1 ∧ Ir (divLoop ge sub setOne shr1 n q r d).2 ∧
      (val (divLoop ge sub setOne shr1 n q r d).1, val (divLoop ge sub setOne shr1 n q r d).2) =
        divLoopNat n (val q) (val r) (val d)
  | 0, q, r, d, _, hq, hr, _, _ => by
    rw [div_loop_zero, div_loopNat_zero]
    exact ⟨hq, hr, rfl⟩
  | i + 1, q, r, d, hn, hq, hr, hd, hm => by
    rw [div_loop_succ, div_loopNat_succ, hge r d hr hd]
    obtain ⟨hd1, hd2⟩ := hshr d hd
    by_cases hle : val d ≤ val r
    · rw [if_pos (decide_eq_true hle), if_pos hle]
      obtain ⟨hs1, hs2⟩ := hsub r d hr hd hle
      obtain ⟨hq1, hq2⟩ := hset q i hq (by omega) (div_testBit_of_mod _ _ hm)
      have ih := divLoop_refines ge sub setOne shr1 Iq Ir Id val bound hge hsub hset hshr i
        (setOne q i) (sub r d) (shr1 d) (by omega) hq1 hs1 hd1
        (by rw [hq2]; exact div_mod_add_pow _ _ hm)
      rw [hq2, hs2, hd2] at ih
      exact ih
    · rw [if_neg (by simpa using hle), if_neg hle]
      have ih := divLoop_refines ge sub setOne shr1 Iq Ir Id val bound hge hsub hset hshr i
        q r (shr1 d) (by omega) hq hr hd1 (div_mod_of_mod_succ _ _ hm)
      rw [hd2] at ih
      exact ih

/-- the loop started as `div_rem` starts it computes quotient and remainder -/
theorem divLoop_div_rem {α : Type} (ge : α → α → Bool) (sub : α → α → α) (setOne : α → Nat → α)
    (shr1 : α → α) (Iq Ir Id : α → Prop) (val : α → Nat) (bound : Nat)
    (hge : ∀ r d, Ir r → Id d → ge r d = decide (val d ≤ val r))
    (hsub : ∀ r d, Ir r → Id d → val d ≤ val r → Ir (sub r d) ∧ val (sub r d) = val r - val d)
    (hset : ∀ q i, Iq q → i < bound → (val q).testBit i = false →
      Iq (setOne q i) ∧ val (setOne q i) = val q + 2 ^ i)
    (hshr : ∀ d, Id d → Id (shr1 d) ∧ val (shr1 d) = val d / 2)
    (shift b : Nat) (q r d : α) (hs : shift < bound) (hq : Iq q) (hr : Ir r) (hd : Id d)
    (hq0 : val q = 0) (hb : b ≠ 0) (hdv : val d = b * 2 ^ shift) (hrv : val r < b * 2 ^ (shift + 1)) :
    Iq (divLoop ge sub setOne shr1 (shift + 1) q r d).1 ∧
    Ir (divLoop ge sub setOne shr1 (shift + 1) q r d).2 ∧
    val (divLoop ge sub setOne shr1 (shift + 1) q r d).1 = val r / b ∧
    val (divLoop ge sub setOne shr1 (shift + 1) q r d).2 = val r % b := by
  obtain ⟨h1, h2, h3⟩ := divLoop_refines ge sub setOne shr1 Iq Ir Id val bound hge hsub hset hshr
    (shift + 1) q r d (by omega) hq hr hd (by rw [hq0]; exact Nat.zero_mod _)
  rw [hq0, divLoopNat_spec (val r) b (val d) shift hb hdv hrv] at h3
  exact ⟨h1, h2, congrArg Prod.fst h3, congrArg Prod.snd h3⟩

-- ---- 3. the interface for `Raw w` -----------------------------------------------------------------------
variable {w : Nat}

theorem div_cmp_ge (a b : Nat) : (compare a b != Ordering.lt) = decide (b ≤ a) := by
  by_cases h : b ≤ a
  · have : compare a b ≠ .lt := by rw [Ne, Nat.compare_eq_lt]; omega
    simp [h, this]
  · have : compare a b = .lt := Nat.compare_eq_lt.mpr (by omega)
    simp [h, this]

theorem div_sub_val (a x P : Nat) (ha : a < P) (hx : x ≤ a) : (a + P - x % P) % P = a - x := by
  rw [Nat.mod_eq_of_lt (by omega : x < P)]
  have : a + P - x = (a - x) + P := by omega
  rw [this, Nat.add_mod_right, Nat.mod_eq_of_lt (by omega)]

/-- `BV.sub` on operands with `x ≤ a` is plain subtraction -/
theorem div_BV_sub (a x : BV) (ha : a.WF) (hx : x.val ≤ a.val) : a.sub x = ⟨a.len, a.val - x.val⟩ := by
  unfold BV.sub
  rw [div_sub_val _ _ _ ha hx]

/-- `BV.set` of a clear bit adds `2^i` -/
theorem div_BV_set (a : BV) (i : Nat) (h : a.val.testBit i = false) :
    a.set i true = ⟨a.len, a.val + 2 ^ i⟩ := by
  unfold BV.set BV.bit
  rw [h]
  simp

/-- `BV.shr 1` halves -/
theorem div_BV_shr1 (a : BV) (ha : a.WF) : a.shr 1 = ⟨a.len, a.val / 2⟩ := by
  unfold BV.shr
  split
  · rename_i h
    have : a.val < 2 := by
      have h2 : 2 ^ a.len ≤ 2 ^ 1 := Nat.pow_le_pow_right (by decide) h
      unfold BV.WF at ha; omega
    congr 1; omega
  · rw [Nat.shiftRight_eq_div_pow]

theorem div_set_ok (q : Raw w) (i : Nat) (hw : 0 < w) (hq : q.Inv) (hi : i < q.length)
    (hb : q.abs.val.testBit i = false) :
    (q.set i true).Inv ∧ (q.set i true).length = q.length ∧
      (q.set i true).data.size = q.data.size ∧ (q.set i true).abs.val = q.abs.val + 2 ^ i := by
  obtain ⟨h1, h2, h3⟩ := Raw.set_refines q i true hw hq hi
  refine ⟨h1, rfl, h3, ?_⟩
  rw [h2, div_BV_set _ _ hb]

theorem div_shr_ok (d : Raw w) (hw : 0 < w) (hd : d.Inv) :
    (d.shrAssign 1).Inv ∧ (d.shrAssign 1).length = d.length ∧
      (d.shrAssign 1).data.size = d.data.size ∧ (d.shrAssign 1).abs.val = d.abs.val / 2 := by
  obtain ⟨h1, h2⟩ := Raw.shrAssign_refines d hw hd 1
  refine ⟨h1, Raw.shrAssign_length d 1, Raw.shrAssign_size d hw hd 1, ?_⟩
  rw [h2, div_BV_shr1 _ (hd.wf hw)]

-- ---- significant-bit arithmetic behind the choice of `shift` --------------------------------------------
theorem div_lt_pow_natBits (a : Nat) : a < 2 ^ BV.natBits a :=
  (BV.natBits_le_iff a _).mp (Nat.le_refl _)

theorem div_pow_le_of_natBits (b n : Nat) (h : n < BV.natBits b) : 2 ^ n ≤ b := by
  have : ¬ b < 2 ^ n := fun hlt => by
    have := (BV.natBits_le_iff b n).mpr hlt
    omega
  omega

/-- more significant bits ⇒ larger -/
theorem div_lt_of_natBits_lt (a b : Nat) (h : BV.natBits a < BV.natBits b) : a < b :=
  Nat.lt_of_lt_of_le (div_lt_pow_natBits a) (div_pow_le_of_natBits b _ h)

theorem div_natBits_pos (b : Nat) (hb : b ≠ 0) : 0 < BV.natBits b := by
  have := BV.natBits_eq_zero_iff b
  omega

/-- the dividend is below the divisor shifted one place further than `shift` -/
theorem div_dividend_lt (a b : Nat) (hb : b ≠ 0) (h : BV.natBits b ≤ BV.natBits a) :
    a < b * 2 ^ (BV.natBits a - BV.natBits b + 1) := by
  have hpos := div_natBits_pos b hb
  have h1 : 2 ^ (BV.natBits b - 1) ≤ b := div_pow_le_of_natBits b _ (by omega)
  have h2 := div_lt_pow_natBits a
  have e : BV.natBits a = (BV.natBits b - 1) + (BV.natBits a - BV.natBits b + 1) := by omega
  rw [e, Nat.pow_add] at h2
  exact Nat.lt_of_lt_of_le h2 (Nat.mul_le_mul_right _ h1)

/-- the shifted divisor still has no more significant bits than the dividend -/
theorem div_shifted_lt (a b : Nat) (h : BV.natBits b ≤ BV.natBits a) :
    b * 2 ^ (BV.natBits a - BV.natBits b) < 2 ^ BV.natBits a := by
  have h1 := div_lt_pow_natBits b
  have e : BV.natBits a = BV.natBits b + (BV.natBits a - BV.natBits b) := by omega
  conv => rhs; rw [e, Nat.pow_add]
  exact Nat.mul_lt_mul_of_pos_right h1 (Nat.two_pow_pos _)

-- ---- preparing the divisor -----------------------------------------------------------------------------
theorem div_BV_resize (a : BV) (m : Nat) (h : a.val < 2 ^ m) : a.resize m false = ⟨m, a.val⟩ := by
  unfold BV.resize
  split
  · rw [Nat.mod_eq_of_lt h]
  · simp

theorem div_BV_shl (a : BV) (k : Nat) (h : a.val * 2 ^ k < 2 ^ a.len) :
    a.shl k = ⟨a.len, a.val * 2 ^ k⟩ := by
  unfold BV.shl
  split
  · rename_i hk
    have h2 : 2 ^ a.len ≤ 2 ^ k := Nat.pow_le_pow_right (by decide) hk
    by_cases h0 : a.val = 0
    · rw [h0, Nat.zero_mul]
    · have : 2 ^ k ≤ a.val * 2 ^ k := Nat.le_mul_of_pos_left _ (Nat.pos_of_ne_zero h0)
      omega
  · rw [Nat.shiftLeft_eq, Nat.mod_eq_of_lt h]

theorem div_shl_ok (d : Raw w) (k : Nat) (hw : 0 < w) (hd : d.Inv)
    (h : d.abs.val * 2 ^ k < 2 ^ d.length) :
    (d.shlAssign k).Inv ∧ (d.shlAssign k).length = d.length ∧
      (d.shlAssign k).data.size = d.data.size ∧ (d.shlAssign k).abs.val = d.abs.val * 2 ^ k := by
  obtain ⟨h1, h2⟩ := Raw.shlAssign_refines d hw hd k
  refine ⟨h1, Raw.shlAssign_length d k, Raw.shlAssign_size d hw hd k, ?_⟩
  rw [h2, div_BV_shl _ _ h]

/-- storage invariant carried through the loop: `Inv`, fixed bit length, fixed allocation -/
def div_J (L N : Nat) (t : Raw w) : Prop := t.Inv ∧ t.length = L ∧ t.data.size = N

/-- the `div_rem` loop on `Raw w` with the kernel `set` / `shrAssign 1` and any `ge` / `sub` that refine
`≥` / `-` -/
theorem div_raw_loop (hw : 0 < w) (ge : Raw w → Raw w → Bool) (sub : Raw w → Raw w → Raw w)
    (L Nq Nr Nd : Nat)
    (hge : ∀ r d, div_J L Nr r → div_J L Nd d → ge r d = decide (d.abs.val ≤ r.abs.val))
    (hsub : ∀ r d, div_J L Nr r → div_J L Nd d → d.abs.val ≤ r.abs.val →
      div_J L Nr (sub r d) ∧ (sub r d).abs.val = r.abs.val - d.abs.val)
    (shift b : Nat) (q r d : Raw w) (hs : shift < L)
    (hq : div_J L Nq q) (hr : div_J L Nr r) (hd : div_J L Nd d)
    (hq0 : q.abs.val = 0) (hb : b ≠ 0) (hdv : d.abs.val = b * 2 ^ shift)
    (hrv : r.abs.val < b * 2 ^ (shift + 1)) :
    div_J L Nq (divLoop ge sub (fun q i => q.set i true) (fun d => d.shrAssign 1) (shift + 1) q r d).1 ∧
    div_J L Nr (divLoop ge sub (fun q i => q.set i true) (fun d => d.shrAssign 1) (shift + 1) q r d).2 ∧
    (divLoop ge sub (fun q i => q.set i true) (fun d => d.shrAssign 1) (shift + 1) q r d).1.abs.val
      = r.abs.val / b ∧
    (divLoop ge sub (fun q i => q.set i true) (fun d => d.shrAssign 1) (shift + 1) q r d).2.abs.val
      = r.abs.val % b := by
  apply divLoop_div_rem ge sub (fun q i => q.set i true) (fun d => d.shrAssign 1)
    (div_J L Nq) (div_J L Nr) (div_J L Nd) (fun t => t.abs.val) L hge hsub ?_ ?_ shift b q r d hs hq hr hd
    hq0 hb hdv hrv
  · intro q i hq hi hbit
    obtain ⟨h1, h2, h3, h4⟩ := div_set_ok q i hw hq.1 (by rw [hq.2.1]; exact hi) hbit
    exact ⟨⟨h1, by rw [h2]; exact hq.2.1, by rw [h3]; exact hq.2.2⟩, h4⟩
  · intro d hd
    obtain ⟨h1, h2, h3, h4⟩ := div_shr_ok d hw hd.1
    exact ⟨⟨h1, by rw [h2]; exact hd.2.1, by rw [h3]; exact hd.2.2⟩, h4⟩

/-- everything after the divisor has been converted and resized: shift it up, run the loop -/
theorem div_raw_main (hw : 0 < w) (ge : Raw w → Raw w → Bool) (sub : Raw w → Raw w → Raw w)
    (s q0 d1 : Raw w) (b Nq Nd : Nat)
    (hge : ∀ r d, div_J s.length s.data.size r → div_J s.length Nd d →
      ge r d = decide (d.abs.val ≤ r.abs.val))
    (hsub : ∀ r d, div_J s.length s.data.size r → div_J s.length Nd d → d.abs.val ≤ r.abs.val →
      div_J s.length s.data.size (sub r d) ∧ (sub r d).abs.val = r.abs.val - d.abs.val)
    (hs : s.Inv) (hq : div_J s.length Nq q0) (hq0 : q0.abs.val = 0)
    (hd1 : div_J s.length Nd d1) (hdv : d1.abs.val = b) (hb : b ≠ 0)
    (hsig : BV.natBits b ≤ BV.natBits s.abs.val) (shift : Nat)
    (hshift : shift = BV.natBits s.abs.val - BV.natBits b) :
    div_J s.length Nq (divLoop ge sub (fun q i => q.set i true) (fun d => d.shrAssign 1) (shift + 1)
      q0 s (d1.shlAssign shift)).1 ∧
    div_J s.length s.data.size (divLoop ge sub (fun q i => q.set i true) (fun d => d.shrAssign 1)
      (shift + 1) q0 s (d1.shlAssign shift)).2 ∧
    (divLoop ge sub (fun q i => q.set i true) (fun d => d.shrAssign 1) (shift + 1)
      q0 s (d1.shlAssign shift)).1.abs = ⟨s.length, s.abs.val / b⟩ ∧
    (divLoop ge sub (fun q i => q.set i true) (fun d => d.shrAssign 1) (shift + 1)
      q0 s (d1.shlAssign shift)).2.abs = ⟨s.length, s.abs.val % b⟩ := by
  have hwf : s.abs.val < 2 ^ s.length := hs.wf hw
  have hsl : BV.natBits s.abs.val ≤ s.length := (BV.natBits_le_iff _ _).mpr hwf
  have hbpos := div_natBits_pos b hb
  have h1 : b * 2 ^ shift < 2 ^ s.length := by
    rw [hshift]
    exact Nat.lt_of_lt_of_le (div_shifted_lt _ _ hsig) (Nat.pow_le_pow_right (by decide) hsl)
  obtain ⟨e1, e2, e3, e4⟩ := div_shl_ok d1 shift hw hd1.1 (by rw [hdv, hd1.2.1]; exact h1)
  have hd2 : div_J s.length Nd (d1.shlAssign shift) :=
    ⟨e1, by rw [e2]; exact hd1.2.1, by rw [e3]; exact hd1.2.2⟩
  obtain ⟨r1, r2, r3, r4⟩ := div_raw_loop hw ge sub s.length Nq s.data.size Nd hge hsub shift b q0 s
    (d1.shlAssign shift) (by omega) hq ⟨hs, rfl, rfl⟩ hd2 hq0 hb (by rw [e4, hdv])
    (by rw [hshift]; exact div_dividend_lt _ _ hb hsig)
  refine ⟨r1, r2, ?_, ?_⟩
  · generalize (divLoop ge sub (fun q i => q.set i true) (fun d => d.shrAssign 1) (shift + 1) q0 s
      (d1.shlAssign shift)).1 = t at r1 r3
    show (⟨t.length, t.abs.val⟩ : BV) = _
    rw [r1.2.1, r3]
  · generalize (divLoop ge sub (fun q i => q.set i true) (fun d => d.shrAssign 1) (shift + 1) q0 s
      (d1.shlAssign shift)).2 = t at r2 r4
    show (⟨t.length, t.abs.val⟩ : BV) = _
    rw [r2.2.1, r4]

-- ---- 4. `Bvd::div_rem` ------------------------------------------------------------------------------------
theorem div_valUpTo_mod (hw : 0 < w) (ws : Array (BitVec w)) (n N : Nat) (h : n ≤ N) :
    valUpTo ws n = valUpTo ws N % 2 ^ (w * n) := by
  apply Nat.eq_of_testBit_eq
  intro i
  rw [Nat.testBit_mod_two_pow, testBit_valUpTo hw, testBit_valUpTo hw]
  by_cases h1 : i < w * n
  · have : i < w * N := Nat.lt_of_lt_of_le h1 (Nat.mul_le_mul_left w h)
    simp [h1, this]
  · simp [h1]

/-- the fetch hypotheses of `Bvd.addsubAssign_sub` hold for a `Bvd` right-hand side -/
theorem div_Bvd_fetch (d : Raw 64) (hd : d.Inv) :
    (∀ n, n ≤ (Bvd.rhsWords (.d d)).1 →
      valF (Bvd.rhsWords (.d d)).2 n = (AnyBv.d d).abs.val % 2 ^ (64 * n)) ∧
    (AnyBv.d d).abs.val < 2 ^ (64 * (Bvd.rhsWords (.d d)).1) := by
  constructor
  · intro n hn
    have hn' : n ≤ Bvd.capW d.length := hn
    show valF (wd d.data) n = valUpTo d.data d.data.size % 2 ^ (64 * n)
    rw [valF_wd]
    exact div_valUpTo_mod (by decide) d.data n d.data.size (Nat.le_trans hn' (capW_le_size hd))
  · show d.abs.val < 2 ^ (64 * Bvd.capW d.length)
    exact Nat.lt_of_lt_of_le (hd.wf (by decide))
      (Nat.pow_le_pow_right (by decide) (capW_bounds d.length).1)

theorem div_Bvd_sub_ok (r d : Raw 64) (hr : r.Inv) (hd : d.Inv) (hle : d.abs.val ≤ r.abs.val) :
    (Bvd.addsubAssign true r (.d d)).Inv ∧ (Bvd.addsubAssign true r (.d d)).length = r.length ∧
      (Bvd.addsubAssign true r (.d d)).data.size = r.data.size ∧
      (Bvd.addsubAssign true r (.d d)).abs.val = r.abs.val - d.abs.val := by
  obtain ⟨f1, f2⟩ := div_Bvd_fetch d hd
  obtain ⟨h1, h2, hsz⟩ := Bvd.addsubAssign_sub r (.d d) hr f1 f2
  have h3 : (AnyBv.d d).abs = d.abs := rfl
  rw [h3, div_BV_sub _ _ (hr.wf (by decide)) hle] at h2
  exact ⟨h1, congrArg BV.len h2, hsz, congrArg BV.val h2⟩

/-- invariant of a right-hand operand -/
def div_AnyInv : AnyBv → Prop
  | .f w b => 0 < w ∧ b.Inv
  | .d b => b.Inv

theorem div_beq_zero (a : Nat) : (a == 0) = decide (a = 0) := by
  by_cases h : a = 0 <;> simp [h]

theorem div_any_isZero (x : AnyBv) (hx : div_AnyInv x) : x.isZero = decide (x.abs.val = 0) := by
  cases x with
  | f w b =>
    show Bvf.isZero b = _
    rw [Bvf.isZero_eq' b]; exact div_beq_zero _
  | d b =>
    show Bvd.isZero b = _
    rw [Bvd.isZero_eq b hx]; exact div_beq_zero _

theorem div_any_sigBits (x : AnyBv) (hx : div_AnyInv x) : x.sigBits = BV.natBits x.abs.val := by
  cases x with
  | f w b => exact Raw.sigBits_eq b hx.1 hx.2
  | d b => exact Raw.sigBits_eq b (by decide) hx

theorem div_Bvd_divRem_eq (s : Raw 64) (x : AnyBv) :
    Bvd.divRem s x =
      if x.isZero then .panic else
      if x.sigBits > s.sigBits then .ok (Bvd.zeros s.length, s) else
      .ok (divLoop (fun r d => Bvd.cmpBvd r d != .lt) (fun r d => Bvd.addsubAssign true r (.d d))
        (fun q i => q.set i true) (fun d => d.shrAssign 1) (s.sigBits - x.sigBits + 1)
        (Bvd.zeros s.length) s
        ((Bvd.resize (Bvd.convert x) s.length false).shlAssign (s.sigBits - x.sigBits))) := rfl

/-- trivial quotient: the divisor has more significant bits than the dividend -/
theorem div_small (a b : Nat) (h : a < b) : a / b = 0 ∧ a % b = a :=
  ⟨Nat.div_eq_of_lt h, Nat.mod_eq_of_lt h⟩

/-- Task item 4: `Bvd::div_rem`.  `hconv` is what T14's `Bvd.fromBvf_refines` provides for a `Bvf` operand and is
trivial for a `Bvd` operand (see `Bvd.divRem_refines_d`). -/
theorem Bvd.divRem_refines (s : Raw 64) (x : AnyBv) (h : s.Inv) (hx : div_AnyInv x)
    (hconv : (Bvd.convert x).Inv ∧ (Bvd.convert x).abs.val = x.abs.val) :
    (x.abs.val = 0 → Bvd.divRem s x = .panic) ∧
    (x.abs.val ≠ 0 → ∃ q r, Bvd.divRem s x = .ok (q, r) ∧ q.Inv ∧ r.Inv ∧
        q.abs = s.abs.div x.abs ∧ r.abs = s.abs.rem x.abs) := by
  have hw : 0 < 64 := by decide
  rw [div_Bvd_divRem_eq, div_any_isZero x hx, div_any_sigBits x hx, Raw.sigBits_eq s hw h]
  constructor
  · intro h0
    rw [if_pos (decide_eq_true h0)]
  · intro h0
    rw [if_neg (by simpa using h0)]
    obtain ⟨z1, z2, z3⟩ := Bvd.zeros_refines s.length
    have hzv : (Bvd.zeros s.length).abs.val = 0 := by rw [z2]; rfl
    have hzl : (Bvd.zeros s.length).length = s.length := rfl
    by_cases hsig : BV.natBits x.abs.val > s.abs.sig
    · rw [if_pos hsig]
      obtain ⟨d1, d2⟩ := div_small _ _ (div_lt_of_natBits_lt _ _ hsig)
      refine ⟨_, _, rfl, z1, h, ?_, ?_⟩
      · rw [z2]; unfold BV.div BV.zeros; rw [d1]; rfl
      · unfold BV.rem; rw [d2]
    · rw [if_neg hsig]
      have hsig' : BV.natBits x.abs.val ≤ BV.natBits s.abs.val := Nat.le_of_not_gt hsig
      have hwf : s.abs.val < 2 ^ s.length := h.wf hw
      have hsl : BV.natBits s.abs.val ≤ s.length := (BV.natBits_le_iff _ _).mpr hwf
      have hxl : x.abs.val < 2 ^ s.length :=
        Nat.lt_of_lt_of_le (div_lt_pow_natBits _)
          (Nat.pow_le_pow_right (by decide) (Nat.le_trans hsig' hsl))
      obtain ⟨c1, c2⟩ := Bvd.resize_refines (Bvd.convert x) s.length false hconv.1
      rw [div_BV_resize _ _ (by rw [hconv.2]; exact hxl), hconv.2] at c2
      obtain ⟨r1, r2, r3, r4⟩ := div_raw_main hw
        (fun r d => Bvd.cmpBvd r d != .lt) (fun r d => Bvd.addsubAssign true r (.d d)) s
        (Bvd.zeros s.length) (Bvd.resize (Bvd.convert x) s.length false) x.abs.val _ _
        (fun r d _ _ => by
          show (Bvd.cmpBvd r d != .lt) = _
          rw [Bvd.cmpBvd_eq', div_cmp_ge])
        (fun r d hr hd hle => by
          obtain ⟨a1, a2, a3, a4⟩ := div_Bvd_sub_ok r d hr.1 hd.1 hle
          exact ⟨⟨a1, by rw [a2]; exact hr.2.1, by rw [a3]; exact hr.2.2⟩, a4⟩)
        h ⟨z1, hzl, rfl⟩ hzv ⟨c1, (Raw.abs_len _).symm.trans (by rw [c2]), rfl⟩ (by rw [c2]) h0 hsig'
        (s.abs.sig - BV.natBits x.abs.val) rfl
      exact ⟨_, _, rfl, r1.1, r2.1, r3, r4⟩

/-- `Bvd / Bvd`: no side conditions beyond the two invariants -/
theorem Bvd.divRem_refines_d (s o : Raw 64) (h : s.Inv) (ho : o.Inv) :
    (o.abs.val = 0 → Bvd.divRem s (.d o) = .panic) ∧
    (o.abs.val ≠ 0 → ∃ q r, Bvd.divRem s (.d o) = .ok (q, r) ∧ q.Inv ∧ r.Inv ∧
        q.abs = s.abs.div o.abs ∧ r.abs = s.abs.rem o.abs) :=
  Bvd.divRem_refines s (.d o) h ho ⟨ho, rfl⟩

end Bva
