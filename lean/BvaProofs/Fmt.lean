import BvaProofs.Count
/-!
# T13 — formatting digits: `binDigits`, `hexDigits`, `octDigits` against `BV.numeral`
-/
namespace Bva
variable {w : Nat}

-- ---- spec level: positional characterisation of `BV.numeral` ------------------------------------------

/-- `n` is the number of base-`b` digits of `v` (`0` for `v = 0`) -/
def fmt_IsNDig (b v n : Nat) : Prop := v < b ^ n ∧ (n = 0 ∨ b ^ (n - 1) ≤ v)

/-- the `n` low base-`b` digits of `v`, most significant first, as characters -/
def fmt_digs (b : Nat) (upper : Bool) (v n : Nat) : List Char :=
  (List.range n).reverse.map fun j => BV.digitChar upper (v / b ^ j % b)

theorem fmt_digs_zero (b : Nat) (upper : Bool) (v : Nat) : fmt_digs b upper v 0 = [] := rfl

theorem fmt_digs_succ_msd (b : Nat) (upper : Bool) (v n : Nat) :
    fmt_digs b upper v (n + 1) = BV.digitChar upper (v / b ^ n % b) :: fmt_digs b upper v n := by
  unfold fmt_digs
  rw [List.range_succ, List.reverse_append]
  rfl

theorem fmt_digs_succ_lsd (b : Nat) (upper : Bool) (v n : Nat) :
    fmt_digs b upper v (n + 1) = fmt_digs b upper (v / b) n ++ [BV.digitChar upper (v % b)] := by
  unfold fmt_digs
  rw [List.range_succ_eq_map, List.reverse_cons, List.map_append, ← List.map_reverse, List.map_map]
  congr 1
  · apply List.map_congr_left
    intro j _
    simp only [Function.comp, Nat.succ_eq_add_one]
    rw [Nat.div_div_eq_div_mul, Nat.pow_succ']
  · simp

theorem fmt_IsNDig_exists (b : Nat) (hb : 2 ≤ b) (v : Nat) : ∃ n, fmt_IsNDig b v n := by
  induction v using Nat.strongRecOn with
  | _ v ih =>
    by_cases hv : v = 0
    · exact ⟨0, by subst hv; simp [fmt_IsNDig]⟩
    · have hlt : v / b < v := Nat.div_lt_self (by omega) (by omega)
      obtain ⟨m, h1, h2⟩ := ih (v / b) hlt
      refine ⟨m + 1, ?_, Or.inr ?_⟩
      · rw [Nat.pow_succ]; exact (Nat.div_lt_iff_lt_mul (by omega)).mp h1
      · simp only [Nat.add_sub_cancel]
        by_cases hm : m = 0
        · subst hm; simp; omega
        · rcases h2 with h2 | h2
          · exact absurd h2 hm
          · have h3 := (Nat.le_div_iff_mul_le (by omega : 0 < b)).mp h2
            have e : b ^ m = b ^ (m - 1) * b := by
              rw [← Nat.pow_succ]; congr 1; omega
            omega

theorem fmt_IsNDig_zero_iff {b v n : Nat} (hb : 2 ≤ b) (h : fmt_IsNDig b v n) : n = 0 ↔ v = 0 := by
  obtain ⟨h1, h2⟩ := h
  constructor
  · intro h0; subst h0; simp at h1; exact h1
  · intro h0; subst h0
    rcases h2 with h2 | h2
    · exact h2
    · have := Nat.pow_pos (n := n - 1) (by omega : 0 < b)
      omega

theorem fmt_IsNDig_div {b v m : Nat} (hb : 2 ≤ b) (h : fmt_IsNDig b v (m + 1)) : fmt_IsNDig b (v / b) m := by
  obtain ⟨h1, h2⟩ := h
  simp only [Nat.add_sub_cancel] at h2
  have h2 : b ^ m ≤ v := by
    rcases h2 with h2 | h2
    · omega
    · exact h2
  refine ⟨?_, ?_⟩
  · rw [Nat.pow_succ] at h1; exact (Nat.div_lt_iff_lt_mul (by omega)).mpr h1
  · by_cases hm : m = 0
    · exact Or.inl hm
    · right
      apply (Nat.le_div_iff_mul_le (by omega : 0 < b)).mpr
      rw [← Nat.pow_succ]
      have : (m - 1).succ = m := by omega
      rw [this]; exact h2

theorem fmt_numeralAux_eq (b : Nat) (upper : Bool) (hb : 2 ≤ b) (fuel : Nat) :
    ∀ (v n : Nat) (acc : List Char), fmt_IsNDig b v n → n ≤ fuel →
      BV.numeralAux b upper fuel v acc = fmt_digs b upper v n ++ acc := by
  induction fuel with
  | zero =>
    intro v n acc _ hn
    have : n = 0 := by omega
    subst this; rfl
  | succ fuel ih =>
    intro v n acc h hn
    unfold BV.numeralAux
    by_cases hv : v = 0
    · have := (fmt_IsNDig_zero_iff hb h).mpr hv
      subst this; simp [hv, fmt_digs_zero]
    · rw [if_neg hv]
      have hn0 : n ≠ 0 := fun h0 => hv ((fmt_IsNDig_zero_iff hb h).mp h0)
      obtain ⟨m, rfl⟩ := Nat.exists_eq_succ_of_ne_zero hn0
      rw [ih (v / b) m _ (fmt_IsNDig_div hb h) (by omega), fmt_digs_succ_lsd]
      simp

theorem fmt_IsNDig_le_succ {b v n : Nat} (hb : 2 ≤ b) (h : fmt_IsNDig b v n) : n ≤ v + 1 := by
  rcases h.2 with h2 | h2
  · omega
  · have := Nat.lt_pow_self (n := n - 1) (a := b) (by omega)
    omega

/-- characterisation of the canonical numeral by positional digits -/
theorem fmt_numeral_eq (b : Nat) (upper : Bool) (hb : 2 ≤ b) (v n : Nat) (h : fmt_IsNDig b v n) :
    BV.numeral b upper v = if n = 0 then ['0'] else fmt_digs b upper v n := by
  unfold BV.numeral
  by_cases hv : v = 0
  · rw [if_pos hv, if_pos ((fmt_IsNDig_zero_iff hb h).mpr hv)]
  · rw [if_neg hv, if_neg (fun h0 => hv ((fmt_IsNDig_zero_iff hb h).mp h0)),
      fmt_numeralAux_eq b upper hb (v + 1) v n [] h (fmt_IsNDig_le_succ hb h)]
    simp

-- ---- the "skip leading zero digits" scan ----------------------------------------------------------------

/-- scan down from `n` to the first index `i` with `p (i-1)`; `0` if none -/
def fmt_skip (p : Nat → Bool) : Nat → Nat
  | 0 => 0
  | i + 1 => if p i then i + 1 else fmt_skip p i

theorem fmt_skip_spec (p : Nat → Bool) (n : Nat) :
    fmt_skip p n ≤ n ∧ (∀ j, fmt_skip p n ≤ j → j < n → p j = false) ∧
      (fmt_skip p n = 0 ∨ p (fmt_skip p n - 1) = true) := by
  induction n with
  | zero => simp [fmt_skip]
  | succ n ih =>
    unfold fmt_skip
    by_cases hp : p n
    · simp only [hp, if_true, Nat.add_sub_cancel]
      exact ⟨Nat.le_refl _, fun j h1 h2 => by omega, Or.inr trivial⟩
    · simp only [hp]
      obtain ⟨h1, h2, h3⟩ := ih
      refine ⟨by simp; omega, fun j hj1 hj2 => ?_, by simpa using h3⟩
      simp only [Bool.false_eq_true, if_false] at hj1
      by_cases hjn : j = n
      · subst hjn; simpa using hp
      · exact h2 j hj1 (by omega)

/-- dropping a zero top digit -/
theorem fmt_lt_pow_of_digit_zero {b v j : Nat} (hb : 2 ≤ b) (h : v < b ^ (j + 1)) (hd : v / b ^ j % b = 0) :
    v < b ^ j := by
  have hpos : 0 < b ^ j := Nat.pow_pos (by omega)
  have h1 : v / b ^ j < b := by
    apply (Nat.div_lt_iff_lt_mul hpos).mpr
    rw [Nat.pow_succ, Nat.mul_comm] at h; exact h
  rw [Nat.mod_eq_of_lt h1] at hd
  exact (Nat.div_eq_zero_iff_lt hpos).mp hd

theorem fmt_lt_pow_of_digits_zero {b v r : Nat} (hb : 2 ≤ b) (k : Nat) (h : v < b ^ (r + k))
    (hd : ∀ j, r ≤ j → j < r + k → v / b ^ j % b = 0) : v < b ^ r := by
  induction k with
  | zero => exact h
  | succ k ih =>
    apply ih
    · exact fmt_lt_pow_of_digit_zero hb h (hd (r + k) (by omega) (by omega))
    · intro j h1 h2; exact hd j h1 (by omega)

/-- the scan finds the digit count -/
theorem fmt_skip_IsNDig {b v n : Nat} (hb : 2 ≤ b) (h : v < b ^ n) :
    fmt_IsNDig b v (fmt_skip (fun j => v / b ^ j % b != 0) n) := by
  obtain ⟨h1, h2, h3⟩ := fmt_skip_spec (fun j => v / b ^ j % b != 0) n
  generalize fmt_skip (fun j => v / b ^ j % b != 0) n = r at h1 h2 h3
  obtain ⟨k, rfl⟩ := Nat.exists_eq_add_of_le h1
  refine ⟨fmt_lt_pow_of_digits_zero hb k h (fun j hj1 hj2 => by simpa using h2 j hj1 hj2), ?_⟩
  rcases h3 with h3 | h3
  · exact Or.inl h3
  · right
    simp only [bne_iff_ne, ne_eq] at h3
    apply Nat.le_of_not_lt
    intro hlt
    apply h3
    rw [Nat.div_eq_of_lt hlt]; simp

-- ---- spec level: `BV.numeral` is canonical ----------------------------------------------------------------

/-- inverse of `BV.digitChar` (either case) -/
def fmt_digitVal (c : Char) : Nat :=
  if c.toNat < 58 then c.toNat - 48 else if c.toNat < 97 then c.toNat - 55 else c.toNat - 87

/-- evaluate a most-significant-first digit string -/
def fmt_digitsVal (base : Nat) (cs : List Char) : Nat :=
  cs.foldl (fun acc c => acc * base + fmt_digitVal c) 0

theorem fmt_digitVal_digitChar (upper : Bool) (d : Nat) (hd : d < 16) :
    fmt_digitVal (BV.digitChar upper d) = d := by
  have h : ∀ (u : Bool) (d : Fin 16), fmt_digitVal (BV.digitChar u d.val) = d.val := by decide
  exact h upper ⟨d, hd⟩

theorem fmt_digitChar_eq_zero (upper : Bool) (d : Nat) (hd : d < 16) (h0 : BV.digitChar upper d = '0') :
    d = 0 := by
  have h : ∀ (u : Bool) (d : Fin 16), BV.digitChar u d.val = '0' → d.val = 0 := by decide
  exact h upper ⟨d, hd⟩ h0

theorem fmt_foldl_digs (b : Nat) (upper : Bool) (hb : 2 ≤ b) (hb' : b ≤ 16) (v n : Nat) :
    ∀ acc, (fmt_digs b upper v n).foldl (fun acc c => acc * b + fmt_digitVal c) acc = acc * b ^ n + v % b ^ n := by
  induction n with
  | zero => intro acc; simp [fmt_digs_zero, Nat.mod_one]
  | succ n ih =>
    intro acc
    rw [fmt_digs_succ_msd, List.foldl_cons, ih,
      fmt_digitVal_digitChar upper _ (Nat.lt_of_lt_of_le (Nat.mod_lt _ (by omega)) hb'),
      Nat.mod_pow_succ, Nat.pow_succ, Nat.add_mul, Nat.mul_assoc, Nat.mul_comm b (b ^ n),
      Nat.mul_comm (v / b ^ n % b)]
    omega

theorem BV.numeral_zero (base : Nat) (upper : Bool) : BV.numeral base upper 0 = ['0'] := rfl

/-- no leading `'0'` (and not empty) for a non-zero value -/
theorem BV.numeral_head (base : Nat) (upper : Bool) (hb : 2 ≤ base) (hb' : base ≤ 16) (v : Nat) (hv : v ≠ 0) :
    ∃ c cs, BV.numeral base upper v = c :: cs ∧ c ≠ '0' := by
  obtain ⟨n, hn⟩ := fmt_IsNDig_exists base hb v
  have hn0 : n ≠ 0 := fun h0 => hv ((fmt_IsNDig_zero_iff hb hn).mp h0)
  rw [fmt_numeral_eq base upper hb v n hn, if_neg hn0]
  obtain ⟨m, rfl⟩ := Nat.exists_eq_succ_of_ne_zero hn0
  rw [Nat.succ_eq_add_one, fmt_digs_succ_msd]
  refine ⟨_, _, rfl, fun h0 => ?_⟩
  have hd := fmt_digitChar_eq_zero upper _ (Nat.lt_of_lt_of_le (Nat.mod_lt _ (by omega)) hb') h0
  obtain ⟨h1, h2⟩ := hn
  have h2 : base ^ m ≤ v := by
    rcases h2 with h2 | h2
    · omega
    · exact h2
  have := fmt_lt_pow_of_digit_zero hb h1 hd
  omega

/-- every character is a digit of the base -/
theorem BV.numeral_valid (base : Nat) (upper : Bool) (hb : 2 ≤ base) (v : Nat) :
    ∀ c ∈ BV.numeral base upper v, ∃ d, d < base ∧ c = BV.digitChar upper d := by
  obtain ⟨n, hn⟩ := fmt_IsNDig_exists base hb v
  rw [fmt_numeral_eq base upper hb v n hn]
  intro c hc
  by_cases hn0 : n = 0
  · rw [if_pos hn0] at hc
    simp only [List.mem_singleton] at hc
    exact ⟨0, by omega, by rw [hc]; rfl⟩
  · rw [if_neg hn0] at hc
    unfold fmt_digs at hc
    obtain ⟨j, _, rfl⟩ := List.mem_map.mp hc
    exact ⟨_, Nat.mod_lt _ (by omega), rfl⟩

/-- the numeral evaluates back to the value -/
theorem BV.numeral_digitsVal (base : Nat) (upper : Bool) (hb : 2 ≤ base) (hb' : base ≤ 16) (v : Nat) :
    fmt_digitsVal base (BV.numeral base upper v) = v := by
  obtain ⟨n, hn⟩ := fmt_IsNDig_exists base hb v
  rw [fmt_numeral_eq base upper hb v n hn]
  by_cases hn0 : n = 0
  · rw [if_pos hn0, (fmt_IsNDig_zero_iff hb hn).mp hn0]
    simp only [fmt_digitsVal, List.foldl_cons, List.foldl_nil, Nat.zero_mul, Nat.zero_add]
    decide
  · rw [if_neg hn0]
    unfold fmt_digitsVal
    rw [fmt_foldl_digs base upper hb hb', Nat.mod_eq_of_lt hn.1]
    omega

theorem BV.numeral_injective (base : Nat) (upper : Bool) (hb : 2 ≤ base) (hb' : base ≤ 16) (v1 v2 : Nat)
    (h : BV.numeral base upper v1 = BV.numeral base upper v2) : v1 = v2 := by
  rw [← BV.numeral_digitsVal base upper hb hb' v1, h, BV.numeral_digitsVal base upper hb hb' v2]

-- ---- Binary ---------------------------------------------------------------------------------------------

theorem fmt_get_eq_testBit (s : Raw w) (hw : 0 < w) (i : Nat) : s.get i = s.abs.val.testBit i := by
  rw [Raw.get_eq_bitAt, ← Raw.abs_bit s i hw]; rfl

theorem fmt_testBit_eq_digit (v j : Nat) : v.testBit j = (v / 2 ^ j % 2 != 0) := by
  rw [Nat.testBit_eq_decide_div_mod_eq]
  have := Nat.mod_lt (v / 2 ^ j) (by omega : 0 < 2)
  by_cases h : v / 2 ^ j % 2 = 1
  · simp [h]
  · have h0 : v / 2 ^ j % 2 = 0 := by omega
    simp [h0]

theorem fmt_binSkip_eq (s : Raw w) (n : Nat) :
    Raw.binDigits.skip s n = fmt_skip (fun j => s.get j) n := by
  induction n with
  | zero => rfl
  | succ n ih =>
    unfold Raw.binDigits.skip fmt_skip
    rw [ih]
    by_cases h : s.get n <;> simp [h]

theorem fmt_isEmpty_digs (b : Nat) (upper : Bool) (v n : Nat) :
    (fmt_digs b upper v n).isEmpty = decide (n = 0) := by
  cases n with
  | zero => rfl
  | succ n => rw [fmt_digs_succ_msd]; simp

theorem fmt_binChar (v j : Nat) :
    (if v.testBit j = true then '1' else '0') = BV.digitChar false (v / 2 ^ j % 2) := by
  rw [Nat.testBit_eq_decide_div_mod_eq]
  have := Nat.mod_lt (v / 2 ^ j) (by omega : 0 < 2)
  by_cases h : v / 2 ^ j % 2 = 1
  · simp [h]; decide
  · have h0 : v / 2 ^ j % 2 = 0 := by omega
    simp [h0]; decide

theorem Raw.binDigits_eq (s : Raw w) (hw : 0 < w) (h : s.Inv) :
    s.binDigits = BV.numeral 2 false s.abs.val := by
  have hwf : s.abs.val < 2 ^ s.length := h.wf hw
  have hfun : (fun j => s.get j) = (fun j => s.abs.val / 2 ^ j % 2 != 0) := by
    funext j; rw [fmt_get_eq_testBit s hw, fmt_testBit_eq_digit]
  have hnd := fmt_skip_IsNDig (b := 2) (Nat.le_refl 2) hwf
  rw [fmt_numeral_eq 2 false (Nat.le_refl 2) _ _ hnd]
  unfold Raw.binDigits
  simp only [fmt_binSkip_eq, hfun]
  generalize fmt_skip (fun j => s.abs.val / 2 ^ j % 2 != 0) s.length = r
  have e : List.map (fun j => if (s.abs.val / 2 ^ j % 2 != 0) = true then '1' else '0') (List.range r).reverse
      = fmt_digs 2 false s.abs.val r := by
    unfold fmt_digs
    apply List.map_congr_left
    intro j _
    rw [← fmt_testBit_eq_digit, fmt_binChar]
  rw [e, fmt_isEmpty_digs]
  by_cases hr : r = 0 <;> simp [hr]

-- ---- LowerHex / UpperHex -----------------------------------------------------------------------------------

theorem fmt_nibble_testBit (s : Raw w) (hw : 0 < w) (h4 : 4 ∣ w) (i k : Nat) :
    (s.nibble i).testBit k = (decide (k < 4) && bitAt s.data (4 * i + k)) := by
  obtain ⟨q, rfl⟩ := h4
  have hq : 0 < q := by omega
  have hdiv : 4 * q / 4 = q := by omega
  unfold Raw.nibble
  rw [hdiv]
  simp only [BitVec.toNat_and, BitVec.toNat_setWidth, BitVec.toNat_ushiftRight, BitVec.toNat_ofNat]
  have e15 : (15 % 2 ^ 8 : Nat) = 2 ^ 4 - 1 := by decide
  rw [e15, Nat.and_two_pow_sub_one_eq_mod, Nat.testBit_mod_two_pow, Nat.testBit_mod_two_pow,
    Nat.testBit_shiftRight]
  by_cases hk : k < 4
  · have hk8 : k < 8 := by omega
    simp only [hk, hk8, decide_true, Bool.true_and]
    unfold bitAt
    have hm := Nat.mod_lt i hq
    have hi : 4 * i + k = (4 * q) * (i / q) + (4 * (i % q) + k) := by
      have := Nat.div_add_mod i q
      have e : 4 * q * (i / q) = 4 * (q * (i / q)) := Nat.mul_assoc _ _ _
      omega
    obtain ⟨e1, e2⟩ := div_mod_unique (w := 4 * q) hw (i / q) (4 * (i % q) + k) (by omega)
    rw [hi, e1, e2, getLsbD_eq_testBit]
    congr 1; omega
  · simp [hk]

theorem fmt_nibble_eq (s : Raw w) (hw : 0 < w) (h4 : 4 ∣ w) (i : Nat) :
    s.nibble i = s.abs.val / 16 ^ i % 16 := by
  apply Nat.eq_of_testBit_eq
  intro k
  have e16 : (16 : Nat) = 2 ^ 4 := by decide
  rw [fmt_nibble_testBit s hw h4, e16, ← Nat.pow_mul, Nat.testBit_mod_two_pow, Nat.testBit_div_two_pow,
    ← Raw.abs_bit s _ hw, Nat.add_comm]
  rfl

theorem fmt_hexSkip_eq (s : Raw w) (n : Nat) :
    Raw.hexDigits.skip s n = fmt_skip (fun j => s.nibble j != 0) n := by
  induction n with
  | zero => rfl
  | succ n ih =>
    unfold Raw.hexDigits.skip fmt_skip
    rw [ih]
    by_cases h : s.nibble n = 0 <;> simp [h]

theorem Raw.hexDigits_eq (s : Raw w) (hw : 0 < w) (h4 : 4 ∣ w) (h : s.Inv) (upper : Bool) :
    s.hexDigits upper = BV.numeral 16 upper s.abs.val := by
  have hwf : s.abs.val < 2 ^ s.length := h.wf hw
  have hlt : s.abs.val < 16 ^ ((s.length + 3) / 4) := by
    have e16 : (16 : Nat) = 2 ^ 4 := by decide
    rw [e16, ← Nat.pow_mul]
    exact Nat.lt_of_lt_of_le hwf (Nat.pow_le_pow_right (by omega) (by omega))
  have hnd := fmt_skip_IsNDig (b := 16) (by omega) hlt
  rw [fmt_numeral_eq 16 upper (by omega) _ _ hnd]
  unfold Raw.hexDigits
  simp only [fmt_hexSkip_eq, fmt_nibble_eq s hw h4]
  generalize fmt_skip (fun j => s.abs.val / 16 ^ j % 16 != 0) ((s.length + 3) / 4) = r
  have e : List.map (fun j => BV.digitChar upper (s.abs.val / 16 ^ j % 16)) (List.range r).reverse
      = fmt_digs 16 upper s.abs.val r := rfl
  rw [e, fmt_isEmpty_digs]
  by_cases hr : r = 0 <;> simp [hr]

-- ---- Octal ----------------------------------------------------------------------------------------------

theorem fmt_foldl_congr {α β : Type} (f g : β → α → β) (l : List α) (h : ∀ b a, a ∈ l → f b a = g b a) :
    ∀ b, l.foldl f b = l.foldl g b := by
  induction l with
  | nil => intro b; rfl
  | cons a l ih =>
    intro b
    rw [List.foldl_cons, List.foldl_cons, h b a (List.mem_cons_self ..)]
    exact ih (fun b a' ha => h b a' (List.mem_cons_of_mem _ ha)) _

/-- `last_nz` is the scan result minus one -/
theorem fmt_lastNz_eq (d : Nat → Nat) (n : Nat) :
    (List.range n).foldl (fun acc t => if d t ≠ 0 then t else acc) 0 = fmt_skip (fun j => d j != 0) n - 1 := by
  induction n with
  | zero => rfl
  | succ n ih =>
    rw [List.range_succ, List.foldl_append, ih]
    show _ = (if (d n != 0) = true then n + 1 else fmt_skip (fun j => d j != 0) n) - 1
    by_cases h : d n = 0 <;> simp [h]

theorem fmt_octDigit (v t : Nat) :
    4 * (v.testBit (3 * t + 2)).toNat + 2 * (v.testBit (3 * t + 1)).toNat + (v.testBit (3 * t)).toNat
      = v / 8 ^ t % 8 := by
  have e8 : (8 : Nat) = 2 ^ 3 := by decide
  rw [Nat.toNat_testBit, Nat.toNat_testBit, Nat.toNat_testBit, e8, ← Nat.pow_mul, Nat.pow_succ, Nat.pow_succ,
    ← Nat.div_div_eq_div_mul, ← Nat.div_div_eq_div_mul]
  generalize v / 2 ^ (3 * t) = u
  omega

theorem fmt_octBit (s : Raw w) (hw : 0 < w) (h : s.Inv) (i : Nat) :
    (if i < s.length then (s.get i).toNat else 0) = (s.abs.val.testBit i).toNat := by
  rw [← fmt_get_eq_testBit s hw]
  by_cases hi : i < s.length
  · rw [if_pos hi]
  · rw [if_neg hi, Raw.get_eq_bitAt, h.2 i (by omega)]; rfl

theorem Raw.octDigits_eq (s : Raw w) (hw : 0 < w) (h : s.Inv) :
    s.octDigits = BV.numeral 8 false s.abs.val := by
  have hwf : s.abs.val < 2 ^ s.length := h.wf hw
  have hlt : s.abs.val < 8 ^ ((s.length + 2) / 3) := by
    have e8 : (8 : Nat) = 2 ^ 3 := by decide
    rw [e8, ← Nat.pow_mul]
    exact Nat.lt_of_lt_of_le hwf (Nat.pow_le_pow_right (by omega) (by omega))
  have hnd := fmt_skip_IsNDig (b := 8) (by omega) hlt
  rw [fmt_numeral_eq 8 false (by omega) _ _ hnd]
  unfold Raw.octDigits
  simp only [fmt_octBit s hw h, fmt_octDigit]
  generalize (s.length + 2) / 3 = n at hnd ⊢
  have hfold : (List.range n).foldl (fun acc t =>
        if ((List.range n).map fun t => s.abs.val / 8 ^ t % 8).getD t 0 ≠ 0 then t else acc) 0
      = (List.range n).foldl (fun acc t => if s.abs.val / 8 ^ t % 8 ≠ 0 then t else acc) 0 := by
    apply fmt_foldl_congr
    intro b a ha
    have ha : a < n := List.mem_range.mp ha
    simp [List.getD_eq_getElem?_getD, List.getElem?_map, List.getElem?_range ha]
  rw [hfold, fmt_lastNz_eq (fun t => s.abs.val / 8 ^ t % 8) n]
  have hr := (fmt_skip_spec (fun j => s.abs.val / 8 ^ j % 8 != 0) n).1
  generalize fmt_skip (fun j => s.abs.val / 8 ^ j % 8 != 0) n = r at hnd hr ⊢
  by_cases hn : n = 0
  · subst hn
    have : r = 0 := by omega
    subst this
    rfl
  · have hne : ((List.range n).map fun t => s.abs.val / 8 ^ t % 8).isEmpty = false := by
      rw [List.isEmpty_map]
      cases n with
      | zero => exact absurd rfl hn
      | succ n => rw [List.range_succ_eq_map]; rfl
    rw [hne]
    simp only [Bool.false_eq_true, if_false]
    rw [← List.map_take, List.take_range]
    by_cases hr0 : r = 0
    · subst hr0
      have hv := (fmt_IsNDig_zero_iff (by omega) hnd).mp rfl
      have hm : min (0 - 1 + 1) n = 1 := by omega
      rw [hm, hv]
      rfl
    · have hm : min (r - 1 + 1) n = r := by omega
      rw [hm, if_neg hr0, ← List.map_reverse, List.map_map]
      rfl

end Bva
