import BvaGen.Words
/-!
# The word-level kernel, tied to the source by translation

`BvaGen/Words.lean` is regenerated from `/repo/src/utils.rs` on every run by `/verif/translate.py`. The theorems below
say that each generated definition *is* the model function the refinement proofs are about, at that word width — so for
`Integer::{mask, cadd, csub, wmul}` of all six word types the tie between model and code is the translator plus these
(kernel-checked) equalities, not sampling.
-/
namespace Bva.Gen

theorem u8_mask_eq (l : Nat) : u8_mask l = mask 8 l := rfl
theorem u16_mask_eq (l : Nat) : u16_mask l = mask 16 l := rfl
theorem u32_mask_eq (l : Nat) : u32_mask l = mask 32 l := rfl
theorem u64_mask_eq (l : Nat) : u64_mask l = mask 64 l := rfl
theorem u128_mask_eq (l : Nat) : u128_mask l = mask 128 l := rfl
theorem usize_mask_eq (l : Nat) : usize_mask l = mask 64 l := rfl

theorem u8_cadd_eq (a r c : BitVec 8) : u8_cadd a r c = cadd a r c := rfl
theorem u16_cadd_eq (a r c : BitVec 16) : u16_cadd a r c = cadd a r c := rfl
theorem u32_cadd_eq (a r c : BitVec 32) : u32_cadd a r c = cadd a r c := rfl
theorem u64_cadd_eq (a r c : BitVec 64) : u64_cadd a r c = cadd a r c := rfl
theorem u128_cadd_eq (a r c : BitVec 128) : u128_cadd a r c = cadd a r c := rfl
theorem usize_cadd_eq (a r c : BitVec 64) : usize_cadd a r c = cadd a r c := rfl

theorem u8_csub_eq (a r c : BitVec 8) : u8_csub a r c = csub a r c := rfl
theorem u16_csub_eq (a r c : BitVec 16) : u16_csub a r c = csub a r c := rfl
theorem u32_csub_eq (a r c : BitVec 32) : u32_csub a r c = csub a r c := rfl
theorem u64_csub_eq (a r c : BitVec 64) : u64_csub a r c = csub a r c := rfl
theorem u128_csub_eq (a r c : BitVec 128) : u128_csub a r c = csub a r c := rfl
theorem usize_csub_eq (a r c : BitVec 64) : usize_csub a r c = csub a r c := rfl

theorem u8_wmul_eq (a b : BitVec 8) : u8_wmul a b = wmul a b := rfl
theorem u16_wmul_eq (a b : BitVec 16) : u16_wmul a b = wmul a b := rfl
theorem u32_wmul_eq (a b : BitVec 32) : u32_wmul a b = wmul a b := rfl
theorem u64_wmul_eq (a b : BitVec 64) : u64_wmul a b = wmul a b := rfl
theorem usize_wmul_eq (a b : BitVec 64) : usize_wmul a b = wmul a b := rfl
theorem u128_wmul_eq (a b : BitVec 128) : u128_wmul a b = wmul a b := rfl

end Bva.Gen
