import BvaProofs.Base
import BvaProofs.Rechunk
import BvaProofs.Count
import BvaProofs.Fmt
import BvaProofs.Conv
import BvaProofs.Div
import BvaProofs.Refine
/-!
# T19 — decimal formatting (`Display`): `Bvf.decDigits`, `Bvd.decDigits`, `Bv.decDigits` against `BV.numeral 10`
-/
namespace Bva
variable {w : Nat}

-- ---- spec level: the fuel of `numeralAux` ---------------------------------------------------------------

/-- a value below `2^L` has at most `L + 1` decimal digits (in fact at most `L`) -/
theorem dec_ndig_le (v n L : Nat) (h : fmt_IsNDig 10 v n) (hv : v < 2 ^ L) : n ≤ L + 1 := by
  rcases h.2 with h2 | h2
  · omega
  · have h3 : 2 ^ (n - 1) ≤ 10 ^ (n - 1) := Nat.pow_le_pow_left (by decide) _
    have h4 : 2 ^ (n - 1) < 2 ^ L := by omega
    have := (Nat.pow_lt_pow_iff_right (a := 2) (by decide)).mp h4
    omega

/-- the digit loop with fuel `L + 1` on a value below `2^L`, finished by the `"0"` special case, is the
canonical numeral -/
theorem dec_finish (v L : Nat) (hv : v < 2 ^ L) :
    (if (BV.numeralAux 10 false (L + 1) v []).isEmpty = true then ['0']
      else BV.numeralAux 10 false (L + 1) v []) = BV.numeral 10 false v := by
  obtain ⟨n, hn⟩ := fmt_IsNDig_exists 10 (by decide) v
  rw [fmt_numeral_eq 10 false (by decide) v n hn,
    fmt_numeralAux_eq 10 false (by decide) (L + 1) v n [] hn (dec_ndig_le v n L hn hv),
    List.append_nil, fmt_isEmpty_digs]
  by_cases h0 : n = 0 <;> simp [h0]

theorem dec_div10_lt (v f : Nat) (h : v < 2 ^ (f + 1)) : v / 10 < 2 ^ f := by
  rw [Nat.pow_succ] at h
  omega

theorem dec_natBits_rem10 (v : Nat) : BV.natBits (v % 10) ≤ 32 := by
  rw [BV.natBits_le_iff]
  have := Nat.mod_lt v (by decide : 0 < 10)
  omega

-- ---- `Bvf` ------------------------------------------------------------------------------------------------

/-- `Self::try_from(10u8)` succeeds and is ten -/
theorem dec_Bvf_base (N : Nat) (h8 : 8 ≤ w) (hN : 1 ≤ N) :
    (unwrapD (Bvf.fromUInt w N 8 10)).Inv ∧ (unwrapD (Bvf.fromUInt w N 8 10)).abs.val = 10 := by
  have hNw : w ≤ N * w := Nat.le_mul_of_pos_left w hN
  have hb : BV.natBits 10 ≤ 8 := (BV.natBits_le_iff _ _).mpr (by decide)
  obtain ⟨r, h1, h2, h3, _⟩ :=
    (Bvf.fromUInt_spec (w := w) N 8 10 (by omega) hN (by decide)).2 (by omega)
  rw [h1]
  exact ⟨h2, by show r.abs.val = 10; rw [h3]⟩

theorem dec_Bvf_go_succ (base q : Raw w) (fuel : Nat) (acc : List Char) :
    Bvf.decDigits.go base (fuel + 1) q acc =
      if Bvf.isZero q then acc else
      match Bvf.divRem q .bvf (.f w base) with
      | .ok (q', r) => Bvf.decDigits.go base fuel q'
          (BV.digitChar false (match Bvf.toUInt r 32 with | .ok v => v | _ => 0) :: acc)
      | _ => acc := rfl

/-- one round of the loop: `div_rem` by ten cannot fail, and the remainder converts to `u32` -/
theorem dec_Bvf_step (base q : Raw w) (hw : 2 ≤ w) (hc : Compat w 32) (hb : base.Inv)
    (hbv : base.abs.val = 10) (hq : q.Inv) :
    ∃ q' r, Bvf.divRem q .bvf (.f w base) = .ok (q', r) ∧ q'.Inv ∧
      q'.abs.val = q.abs.val / 10 ∧ Bvf.toUInt r 32 = .ok (q.abs.val % 10) := by
  have hw0 : 0 < w := by omega
  have hx : div_AnyInv (.f w base) := ⟨hw0, hb⟩
  have hcw : Compat (div_anyW (.f w base)) w := ⟨hw0, hw0, Or.inl (Nat.dvd_refl w)⟩
  have hne : (AnyBv.f w base).abs.val ≠ 0 := by
    show base.abs.val ≠ 0
    rw [hbv]; decide
  obtain ⟨q', r, e, i1, i2, a1, a2, _, _⟩ := (Bvf.divRem_refines q .bvf (.f w base) hw hq hx hcw).2 hne
  have hxv : (AnyBv.f w base).abs.val = 10 := hbv
  have hq' : q'.abs.val = q.abs.val / 10 := by rw [a1]; unfold BV.div; rw [hxv]
  have hr : r.abs.val = q.abs.val % 10 := by rw [a2]; unfold BV.rem; rw [hxv]
  refine ⟨q', r, e, i1, hq', ?_⟩
  rw [Bvf.toUInt_spec r 32 hc i2, if_pos (by unfold BV.sig; rw [hr]; exact dec_natBits_rem10 _), hr]

/-- loop invariant: the word-level loop is the `Nat` loop of the spec on the abstract value -/
theorem dec_Bvf_go (base : Raw w) (hw : 2 ≤ w) (hc : Compat w 32) (hb : base.Inv)
    (hbv : base.abs.val = 10) :
    ∀ (fuel : Nat) (q : Raw w) (acc : List Char), q.Inv → q.abs.val < 2 ^ fuel →
      Bvf.decDigits.go base fuel q acc = BV.numeralAux 10 false fuel q.abs.val acc := by
  intro fuel
  induction fuel with
  | zero => intro q acc _ _; rfl
  | succ fuel ih =>
    intro q acc hq hv
    rw [dec_Bvf_go_succ, Bvf.isZero_eq' q]
    unfold BV.numeralAux BV.isZero
    by_cases h0 : q.abs.val = 0
    · simp [h0]
    · obtain ⟨q', r, e, i1, hq', hr⟩ := dec_Bvf_step base q hw hc hb hbv hq
      have hz : (q.abs.val == 0) = false := by simpa using h0
      rw [hz, if_neg h0, e]
      simp only [Bool.false_eq_true, if_false, hr]
      rw [ih q' _ i1 (by rw [hq']; exact dec_div10_lt _ _ hv), hq']

/-- Task item 1: `Display` for `Bvf<I, N>` (`N ≥ 1`, word type of at least eight bits — every Rust instantiation) -/
theorem Bvf.decDigits_eq (s : Raw w) (h8 : 8 ≤ w) (hc : Compat w 32) (hN : 1 ≤ s.data.size) (h : s.Inv) :
    Bvf.decDigits s = BV.numeral 10 false s.abs.val := by
  obtain ⟨b1, b2⟩ := dec_Bvf_base (w := w) s.data.size h8 hN
  have hv : s.abs.val < 2 ^ s.length := h.wf (by omega)
  show (if (Bvf.decDigits.go _ (s.length + 1) s []).isEmpty = true then ['0']
      else Bvf.decDigits.go _ (s.length + 1) s []) = _
  rw [dec_Bvf_go _ (by omega) hc b1 b2 (s.length + 1) s [] h
    (Nat.lt_of_lt_of_le hv (Nat.pow_le_pow_right (by decide) (Nat.le_succ _)))]
  exact dec_finish _ _ hv

/-- the same for the word widths `8·2^k` -/
theorem Bvf.decDigits_eq_wok (s : Raw w) (hw : WOk w) (hN : 1 ≤ s.data.size) (h : s.Inv) :
    Bvf.decDigits s = BV.numeral 10 false s.abs.val :=
  Bvf.decDigits_eq s (Nat.le_of_dvd hw.pos hw.eight_dvd) (hw.compat ⟨2, by decide⟩) hN h

-- ---- `Bvd` ------------------------------------------------------------------------------------------------

/-- `Bvd::from(10u8)` is ten -/
theorem dec_Bvd_base : (Bvd.fromUInt 8 10).Inv ∧ (Bvd.fromUInt 8 10).abs.val = 10 := by
  obtain ⟨h1, h2⟩ := Bvd.fromUInt_refines 8 10 (Or.inl (by decide)) (by decide)
  exact ⟨h1, by rw [h2]⟩

theorem dec_Bvd_go_succ (base q : Raw 64) (fuel : Nat) (acc : List Char) :
    Bvd.decDigits.go base (fuel + 1) q acc =
      if Bvd.isZero q then acc else
      match Bvd.divRem q (.d base) with
      | .ok (q', r) => Bvd.decDigits.go base fuel q'
          (BV.digitChar false (match Bvd.toUInt r 32 with | .ok v => v | _ => 0) :: acc)
      | _ => acc := rfl

theorem dec_Bvd_step (base q : Raw 64) (hb : base.Inv) (hbv : base.abs.val = 10) (hq : q.Inv) :
    ∃ q' r, Bvd.divRem q (.d base) = .ok (q', r) ∧ q'.Inv ∧
      q'.abs.val = q.abs.val / 10 ∧ Bvd.toUInt r 32 = .ok (q.abs.val % 10) := by
  have hne : base.abs.val ≠ 0 := by rw [hbv]; decide
  obtain ⟨q', r, e, i1, i2, a1, a2⟩ := (Bvd.divRem_refines_d q base hq hb).2 hne
  have hq' : q'.abs.val = q.abs.val / 10 := by rw [a1]; unfold BV.div; rw [hbv]
  have hr : r.abs.val = q.abs.val % 10 := by rw [a2]; unfold BV.rem; rw [hbv]
  refine ⟨q', r, e, i1, hq', ?_⟩
  rw [Bvd.toUInt_spec r 32 i2, if_pos (by unfold BV.sig; rw [hr]; exact dec_natBits_rem10 _), hr]

theorem dec_Bvd_go (base : Raw 64) (hb : base.Inv) (hbv : base.abs.val = 10) :
    ∀ (fuel : Nat) (q : Raw 64) (acc : List Char), q.Inv → q.abs.val < 2 ^ fuel →
      Bvd.decDigits.go base fuel q acc = BV.numeralAux 10 false fuel q.abs.val acc := by
  intro fuel
  induction fuel with
  | zero => intro q acc _ _; rfl
  | succ fuel ih =>
    intro q acc hq hv
    rw [dec_Bvd_go_succ, Bvd.isZero_eq q hq]
    unfold BV.numeralAux BV.isZero
    by_cases h0 : q.abs.val = 0
    · simp [h0]
    · obtain ⟨q', r, e, i1, hq', hr⟩ := dec_Bvd_step base q hb hbv hq
      have hz : (q.abs.val == 0) = false := by simpa using h0
      rw [hz, if_neg h0, e]
      simp only [Bool.false_eq_true, if_false, hr]
      rw [ih q' _ i1 (by rw [hq']; exact dec_div10_lt _ _ hv), hq']

/-- Task item 2: `Display` for `Bvd` -/
theorem Bvd.decDigits_eq (s : Raw 64) (h : s.Inv) : Bvd.decDigits s = BV.numeral 10 false s.abs.val := by
  obtain ⟨b1, b2⟩ := dec_Bvd_base
  have hv : s.abs.val < 2 ^ s.length := h.wf (by decide)
  show (if (Bvd.decDigits.go _ (s.length + 1) s []).isEmpty = true then ['0']
      else Bvd.decDigits.go _ (s.length + 1) s []) = _
  rw [dec_Bvd_go _ b1 b2 (s.length + 1) s [] h
    (Nat.lt_of_lt_of_le hv (Nat.pow_le_pow_right (by decide) (Nat.le_succ _)))]
  exact dec_finish _ _ hv

-- ---- `Bv` -------------------------------------------------------------------------------------------------

/-- Task item 3: `Display` for `Bv` -/
theorem Bv.decDigits_eq (b : Bv) (h : div_BvInv b) : b.decDigits = BV.numeral 10 false b.abs.val := by
  cases b with
  | fixed r =>
    exact Bvf.decDigits_eq r (by decide) ⟨by decide, by decide, Or.inl ⟨2, by decide⟩⟩
      (by rw [h.2]; decide) h.1
  | dynamic r => exact Bvd.decDigits_eq r h

end Bva
