import BvaProofs.Carry
import Mathlib.Tactic.Linarith
/-!
# Multiplication: `wmulWide`, `wmulSplit`, `wmul`, `Bvf.mulRows`, `Bvf.mul`, `Bvd.mul` (task T6)
-/
set_option linter.unusedVariables false
namespace Bva
variable {w : Nat}

-- ---- 1. `wmulWide` ------------------------------------------------------------------------------

theorem mul_two_pow_two_mul (w : Nat) : 2 ^ (2 * w) = 2 ^ w * 2 ^ w := by
  rw [Nat.two_mul, Nat.pow_add]

theorem wmulWide_spec (a b : BitVec w) :
    (wmulWide a b).1.toNat + 2 ^ w * (wmulWide a b).2.toNat = a.toNat * b.toNat := by
  have ha := a.isLt
  have hb := b.isLt
  have hlt : a.toNat * b.toNat < 2 ^ (2 * w) := by
    rw [mul_two_pow_two_mul]
    exact Nat.mul_lt_mul'' ha hb
  have hle : w ≤ 2 * w := by omega
  unfold wmulWide
  simp only [BitVec.toNat_setWidth, BitVec.toNat_mul, BitVec.toNat_ushiftRight, Nat.shiftRight_eq_div_pow]
  rw [Nat.mod_eq_of_lt (Nat.lt_of_lt_of_le ha (Nat.pow_le_pow_right (by omega) hle)),
    Nat.mod_eq_of_lt (Nat.lt_of_lt_of_le hb (Nat.pow_le_pow_right (by omega) hle)),
    Nat.mod_eq_of_lt hlt]
  have hd : a.toNat * b.toNat / 2 ^ w < 2 ^ w := by
    apply Nat.div_lt_of_lt_mul
    rw [← mul_two_pow_two_mul]; exact hlt
  rw [Nat.mod_eq_of_lt hd]
  exact Nat.mod_add_div _ _

-- ---- 3. one inner step: no overflow ---------------------------------------------------------------

/-- Nat-level statement of one inner-loop step:
`product = a.wmul(b); carry' = res.cadd(product.0, carry) + product.1`
where `a*b = lo + X*hi`, `res + lo + carry = r + X*c`. -/
theorem mul_step_nat (X a b lo hi res carry r c : Nat)
    (ha : a < X) (hb : b < X) (hres : res < X) (hcarry : carry < X)
    (hprod : a * b = lo + X * hi)
    (hcadd : res + lo + carry = r + X * c) :
    c + hi < X ∧ r + X * (c + hi) = res + a * b + carry := by
  have h3 : r + X * (c + hi) = res + a * b + carry := by rw [hprod]; linarith
  refine ⟨?_, h3⟩
  have hX : 0 < X := by omega
  have h1 : a * b ≤ (X - 1) * (X - 1) := Nat.mul_le_mul (by omega) (by omega)
  have h2 : (X - 1) * (X - 1) + 2 * (X - 1) + 1 = X * X := by
    obtain ⟨Y, rfl⟩ : ∃ Y, X = Y + 1 := ⟨X - 1, by omega⟩
    simp only [Nat.add_sub_cancel]; linarith
  have h4 : X * (c + hi) < X * X := by
    have : res + a * b + carry < X * X := by omega
    omega
  exact Nat.lt_of_mul_lt_mul_left h4

-- ---- 2. `wmulSplit`, `wmul` ----------------------------------------------------------------------------

theorem mul_split_nat (H a0 a1 b0 b1 q1 r1 q2 r2 p0' c : Nat) (hH : 0 < H)
    (ha0 : a0 < H) (ha1 : a1 < H) (hb0 : b0 < H) (hb1 : b1 < H)
    (e1 : a1 * b0 = H * q1 + r1) (e2 : a0 * b1 = H * q2 + r2)
    (hc : p0' + H * H * c = a0 * b0 + r1 * H + r2 * H) :
    a1 * b1 + q1 + q2 + c < H * H ∧
      p0' + H * H * (a1 * b1 + q1 + q2 + c) = (H * a1 + a0) * (H * b1 + b0) := by
  have h1 : H * (a1 * b0) = H * (H * q1 + r1) := by rw [e1]
  have h2 : H * (a0 * b1) = H * (H * q2 + r2) := by rw [e2]
  have k : p0' + H * H * (a1 * b1 + q1 + q2 + c) = (H * a1 + a0) * (H * b1 + b0) := by linarith
  refine ⟨?_, k⟩
  have la : H * a1 + a0 < H * H := by
    have : H * a1 + H ≤ H * H := by rw [← Nat.mul_succ]; exact Nat.mul_le_mul_left H ha1
    omega
  have lb : H * b1 + b0 < H * H := by
    have : H * b1 + H ≤ H * H := by rw [← Nat.mul_succ]; exact Nat.mul_le_mul_left H hb1
    omega
  have lab := Nat.mul_lt_mul'' la lb
  have : H * H * (a1 * b1 + q1 + q2 + c) < H * H * (H * H) := by omega
  exact Nat.lt_of_mul_lt_mul_left this

theorem mul_two_pow_half {h : Nat} (hw : w = 2 * h) : 2 ^ w = 2 ^ h * 2 ^ h := by
  rw [hw, mul_two_pow_two_mul]

theorem mul_toNat_lowHalf {h : Nat} (hh : h < w) (a : BitVec w) :
    (a &&& ((1#w <<< h) - 1#w)).toNat = a.toNat % 2 ^ h := by
  rw [mask_eq_ofNat h hh, BitVec.toNat_and, BitVec.toNat_ofNat]
  have : 2 ^ h - 1 < 2 ^ w :=
    Nat.lt_of_le_of_lt (Nat.sub_le _ _) (Nat.pow_lt_pow_right (by omega) hh)
  rw [Nat.mod_eq_of_lt this, Nat.and_two_pow_sub_one_eq_mod]

theorem mul_toNat_highHalf (h : Nat) (a : BitVec w) : (a >>> h).toNat = a.toNat / 2 ^ h := by
  rw [BitVec.toNat_ushiftRight, Nat.shiftRight_eq_div_pow]

theorem mul_toNat_mul_half {h : Nat} (hw : w = 2 * h) (x y : BitVec w) (hx : x.toNat < 2 ^ h)
    (hy : y.toNat < 2 ^ h) : (x * y).toNat = x.toNat * y.toNat := by
  rw [BitVec.toNat_mul, Nat.mod_eq_of_lt]
  rw [mul_two_pow_half hw]
  exact Nat.mul_lt_mul'' hx hy

theorem mul_toNat_shl_half {h : Nat} (hw : w = 2 * h) (p : BitVec w) :
    (p <<< h).toNat = (p.toNat % 2 ^ h) * 2 ^ h := by
  rw [BitVec.toNat_shiftLeft, Nat.shiftLeft_eq, mul_two_pow_half hw, Nat.mul_mod_mul_right]

theorem mul_wmulSplit_eq (a b : BitVec w) : wmulSplit a b =
    ((cadd ((a &&& ((1#w <<< (w / 2)) - 1#w)) * (b &&& ((1#w <<< (w / 2)) - 1#w)))
        (((a >>> (w / 2)) * (b &&& ((1#w <<< (w / 2)) - 1#w))) <<< (w / 2))
        (((a &&& ((1#w <<< (w / 2)) - 1#w)) * (b >>> (w / 2))) <<< (w / 2))).1,
     (a >>> (w / 2)) * (b >>> (w / 2))
      + (((a >>> (w / 2)) * (b &&& ((1#w <<< (w / 2)) - 1#w))) >>> (w / 2))
      + (((a &&& ((1#w <<< (w / 2)) - 1#w)) * (b >>> (w / 2))) >>> (w / 2))
      + (cadd ((a &&& ((1#w <<< (w / 2)) - 1#w)) * (b &&& ((1#w <<< (w / 2)) - 1#w)))
        (((a >>> (w / 2)) * (b &&& ((1#w <<< (w / 2)) - 1#w))) <<< (w / 2))
        (((a &&& ((1#w <<< (w / 2)) - 1#w)) * (b >>> (w / 2))) <<< (w / 2))).2) := rfl

/-- item 2: `u128::wmul` (half-word schoolbook) for any even width: the Rust non-wrapping sum
`p3 + (p1 >> h) + (p2 >> h) + c` does not overflow, and the result is the double-width product -/
theorem wmulSplit_spec {h : Nat} (hw : w = 2 * h) (hh : 0 < h) (a b : BitVec w) :
    ((a >>> h) * (b >>> h)).toNat
        + (((a >>> h) * (b &&& ((1#w <<< h) - 1#w))) >>> h).toNat
        + (((a &&& ((1#w <<< h) - 1#w)) * (b >>> h)) >>> h).toNat
        + (cadd ((a &&& ((1#w <<< h) - 1#w)) * (b &&& ((1#w <<< h) - 1#w)))
            (((a >>> h) * (b &&& ((1#w <<< h) - 1#w))) <<< h)
            (((a &&& ((1#w <<< h) - 1#w)) * (b >>> h)) <<< h)).2.toNat < 2 ^ w ∧
      (wmulSplit a b).1.toNat + 2 ^ w * (wmulSplit a b).2.toNat = a.toNat * b.toNat := by
  have hhw : h < w := by omega
  have hw2 : 2 ≤ w := by omega
  have e2 : w / 2 = h := by omega
  have hH : 0 < 2 ^ h := Nat.two_pow_pos h
  have hX := mul_two_pow_half hw
  have ha := a.isLt
  have hb := b.isLt
  rw [hX] at ha hb
  have ha0 : a.toNat % 2 ^ h < 2 ^ h := Nat.mod_lt _ hH
  have hb0 : b.toNat % 2 ^ h < 2 ^ h := Nat.mod_lt _ hH
  have ha1 : a.toNat / 2 ^ h < 2 ^ h := Nat.div_lt_of_lt_mul ha
  have hb1 : b.toNat / 2 ^ h < 2 ^ h := Nat.div_lt_of_lt_mul hb
  have tl := fun x : BitVec w => mul_toNat_lowHalf hhw x
  have th := fun x : BitVec w => mul_toNat_highHalf h x
  have t0 : ((a &&& ((1#w <<< h) - 1#w)) * (b &&& ((1#w <<< h) - 1#w))).toNat
      = (a.toNat % 2 ^ h) * (b.toNat % 2 ^ h) := by
    rw [mul_toNat_mul_half hw _ _ (by rw [tl]; exact ha0) (by rw [tl]; exact hb0), tl, tl]
  have t1 : ((a >>> h) * (b &&& ((1#w <<< h) - 1#w))).toNat
      = (a.toNat / 2 ^ h) * (b.toNat % 2 ^ h) := by
    rw [mul_toNat_mul_half hw _ _ (by rw [th]; exact ha1) (by rw [tl]; exact hb0), th, tl]
  have t2 : ((a &&& ((1#w <<< h) - 1#w)) * (b >>> h)).toNat
      = (a.toNat % 2 ^ h) * (b.toNat / 2 ^ h) := by
    rw [mul_toNat_mul_half hw _ _ (by rw [tl]; exact ha0) (by rw [th]; exact hb1), tl, th]
  have t3 : ((a >>> h) * (b >>> h)).toNat = (a.toNat / 2 ^ h) * (b.toNat / 2 ^ h) := by
    rw [mul_toNat_mul_half hw _ _ (by rw [th]; exact ha1) (by rw [th]; exact hb1), th, th]
  have hc := cadd_spec hw2 ((a &&& ((1#w <<< h) - 1#w)) * (b &&& ((1#w <<< h) - 1#w)))
            (((a >>> h) * (b &&& ((1#w <<< h) - 1#w))) <<< h)
            (((a &&& ((1#w <<< h) - 1#w)) * (b >>> h)) <<< h)
  rw [t0, mul_toNat_shl_half hw, mul_toNat_shl_half hw, t1, t2, hX] at hc
  obtain ⟨k1, k2⟩ := mul_split_nat (2 ^ h) _ _ _ _ _ _ _ _ _ _ hH ha0 ha1 hb0 hb1
    (Nat.div_add_mod ((a.toNat / 2 ^ h) * (b.toNat % 2 ^ h)) (2 ^ h)).symm
    (Nat.div_add_mod ((a.toNat % 2 ^ h) * (b.toNat / 2 ^ h)) (2 ^ h)).symm hc
  rw [Nat.div_add_mod, Nat.div_add_mod] at k2
  have s1 : (((a >>> h) * (b &&& ((1#w <<< h) - 1#w))) >>> h).toNat
      = (a.toNat / 2 ^ h) * (b.toNat % 2 ^ h) / 2 ^ h := by rw [th, t1]
  have s2 : (((a &&& ((1#w <<< h) - 1#w)) * (b >>> h)) >>> h).toNat
      = (a.toNat % 2 ^ h) * (b.toNat / 2 ^ h) / 2 ^ h := by rw [th, t2]
  have novf : ((a >>> h) * (b >>> h)).toNat
        + (((a >>> h) * (b &&& ((1#w <<< h) - 1#w))) >>> h).toNat
        + (((a &&& ((1#w <<< h) - 1#w)) * (b >>> h)) >>> h).toNat
        + (cadd ((a &&& ((1#w <<< h) - 1#w)) * (b &&& ((1#w <<< h) - 1#w)))
            (((a >>> h) * (b &&& ((1#w <<< h) - 1#w))) <<< h)
            (((a &&& ((1#w <<< h) - 1#w)) * (b >>> h)) <<< h)).2.toNat < 2 ^ w := by
    rw [t3, s1, s2, hX]; exact k1
  refine ⟨novf, ?_⟩
  rw [mul_wmulSplit_eq, e2]
  simp only
  rw [BitVec.toNat_add, BitVec.toNat_add, BitVec.toNat_add]
  rw [Nat.mod_eq_of_lt (a := _ + (((a >>> h) * (b &&& ((1#w <<< h) - 1#w))) >>> h).toNat) (by omega)]
  rw [Nat.mod_eq_of_lt (a := _ + (((a &&& ((1#w <<< h) - 1#w)) * (b >>> h)) >>> h).toNat) (by omega)]
  rw [Nat.mod_eq_of_lt novf, t3, s1, s2, hX]
  exact k2

/-- the `wmul` the code uses: `wmulSplit` at `w = 128`, `wmulWide` otherwise (true for every `w`) -/
theorem wmul_spec (a b : BitVec w) :
    (wmul a b).1.toNat + 2 ^ w * (wmul a b).2.toNat = a.toNat * b.toNat := by
  unfold wmul
  split
  · rename_i h
    exact (wmulSplit_spec (h := 64) (by omega) (by decide) a b).2
  · exact wmulWide_spec a b

/-- what the row loop needs from the word multiplication -/
def WmulOk (w : Nat) : Prop :=
  ∀ a b : BitVec w, (wmul a b).1.toNat + 2 ^ w * (wmul a b).2.toNat = a.toNat * b.toNat

/-- item 3 at word level: the Rust `cadd(..) + product.1` (non-wrapping `+`) cannot overflow, and the
step is a multiply-accumulate -/
theorem mul_step_word (hw : 2 ≤ w) (hm : WmulOk w) (x y res carry : BitVec w) :
    (cadd res (wmul x y).1 carry).2.toNat + (wmul x y).2.toNat < 2 ^ w ∧
    (cadd res (wmul x y).1 carry).1.toNat
        + 2 ^ w * ((cadd res (wmul x y).1 carry).2 + (wmul x y).2).toNat
      = res.toNat + x.toNat * y.toNat + carry.toNat := by
  have h1 := hm x y
  have h2 := cadd_spec hw res (wmul x y).1 carry
  obtain ⟨k1, k2⟩ := mul_step_nat (2 ^ w) x.toNat y.toNat (wmul x y).1.toNat (wmul x y).2.toNat
    res.toNat carry.toNat _ _ x.isLt y.isLt res.isLt carry.isLt h1.symm h2.symm
  refine ⟨k1, ?_⟩
  rw [BitVec.toNat_add, Nat.mod_eq_of_lt k1]
  exact k2

-- ---- 4. the rows ------------------------------------------------------------------------------------

/-- body of the inner loop of `mulRows` (row `i`, column `j`) -/
def mul_rowStep (a : BitVec w) (fetch : Nat → BitVec w) (i j : Nat)
    (p : Array (BitVec w) × BitVec w) : Array (BitVec w) × BitVec w :=
  let product := wmul a (fetch j)
  let r := cadd (wd p.1 (i + j)) product.1 p.2
  (p.1.setIfInBounds (i + j) r.1, r.2 + product.2)

/-- one row of `mulRows` -/
def mul_row (ws : Array (BitVec w)) (fetch : Nat → BitVec w) (len i : Nat) (res : Array (BitVec w)) :
    Array (BitVec w) × BitVec w :=
  forRange 0 (len - i) (mul_rowStep (wd ws i) fetch i) (res, 0#w)

theorem mul_mulRows_eq (ws : Array (BitVec w)) (fetch : Nat → BitVec w) (len : Nat)
    (res : Array (BitVec w)) :
    Bvf.mulRows ws fetch len res = forRange 0 len (fun i res => (mul_row ws fetch len i res).1) res :=
  rfl

/-- invariant of the inner loop after `j` columns of row `i` -/
def mul_RowInv (res0 : Array (BitVec w)) (a : BitVec w) (f : Nat → BitVec w) (i j : Nat)
    (p : Array (BitVec w) × BitVec w) : Prop :=
  p.1.size = res0.size ∧ (∀ t, i + j ≤ t → wd p.1 t = wd res0 t) ∧
    valUpTo p.1 (i + j) + 2 ^ (w * (i + j)) * p.2.toNat
      = valUpTo res0 (i + j) + 2 ^ (w * i) * a.toNat * valF f j

theorem mul_row_arith (P Q X V V0 r1 c' R0 a fj c F : Nat)
    (hstep : r1 + X * c' = R0 + a * fj + c) (ih : V + P * Q * c = V0 + P * a * F) :
    V + P * Q * r1 + P * Q * X * c' = V0 + P * Q * R0 + P * a * (F + Q * fj) := by
  have h : P * Q * (r1 + X * c') = P * Q * (R0 + a * fj + c) := by rw [hstep]
  linarith

theorem mul_RowInv_step (hw : 2 ≤ w) (hm : WmulOk w) (res0 : Array (BitVec w)) (a : BitVec w)
    (f : Nat → BitVec w) (i j : Nat) (p : Array (BitVec w) × BitVec w)
    (h : mul_RowInv res0 a f i j p) (hn : i + j < res0.size) :
    mul_RowInv res0 a f i (j + 1) (mul_rowStep a f i j p) := by
  obtain ⟨h1, h2, h3⟩ := h
  obtain ⟨_, hstep⟩ := mul_step_word hw hm a (f j) (wd p.1 (i + j)) p.2
  unfold mul_rowStep
  simp only
  generalize (cadd (wd p.1 (i + j)) (wmul a (f j)).1 p.2).2 + (wmul a (f j)).2 = c' at hstep
  generalize (cadd (wd p.1 (i + j)) (wmul a (f j)).1 p.2).1 = r1 at hstep
  have hi : i + j < p.1.size := by omega
  refine ⟨by simp [h1], ?_, ?_⟩
  · intro t ht
    rw [wd_set _ _ _ _ hi, if_neg (by omega)]
    exact h2 t (by omega)
  · show valUpTo _ (i + j + 1) + 2 ^ (w * (i + j + 1)) * c'.toNat
      = valUpTo res0 (i + j + 1) + 2 ^ (w * i) * a.toNat * valF f (j + 1)
    simp only [valUpTo, valF]
    rw [wd_set _ _ _ _ hi, if_pos rfl]
    rw [valUpTo_congr (p.1.setIfInBounds (i + j) r1) p.1 (i + j)
      (fun t ht => by rw [wd_set _ _ _ _ hi, if_neg (by omega)])]
    rw [h2 (i + j) (Nat.le_refl _)] at hstep
    have e1 : 2 ^ (w * (i + j + 1)) = 2 ^ (w * i) * 2 ^ (w * j) * 2 ^ w := by
      rw [← Nat.pow_add, ← Nat.pow_add]; congr 1; simp only [Nat.mul_add, Nat.mul_one]
    have e2 : 2 ^ (w * (i + j)) = 2 ^ (w * i) * 2 ^ (w * j) := by
      rw [← Nat.pow_add, Nat.mul_add]
    rw [e2] at h3
    rw [e1, e2]
    exact mul_row_arith _ _ _ _ _ _ _ _ _ _ _ _ hstep h3

theorem mul_row_spec (hw : 2 ≤ w) (hm : WmulOk w) (ws : Array (BitVec w)) (f : Nat → BitVec w)
    (len i : Nat) (res : Array (BitVec w)) (hi : i ≤ len) (hlen : len ≤ res.size) :
    (mul_row ws f len i res).1.size = res.size ∧
    (∀ t, len ≤ t → wd (mul_row ws f len i res).1 t = wd res t) ∧
    valUpTo (mul_row ws f len i res).1 len + 2 ^ (w * len) * (mul_row ws f len i res).2.toNat
      = valUpTo res len + 2 ^ (w * i) * (wd ws i).toNat * valF f (len - i) := by
  have key := forRange_inv (fun j p => mul_RowInv res (wd ws i) f i j p)
    (mul_rowStep (wd ws i) f i) 0 (len - i) (Nat.zero_le _)
    (fun n s _ h2 hP => mul_RowInv_step hw hm res (wd ws i) f i n s hP (by omega))
    (res, 0#w) ⟨rfl, fun _ _ => rfl, by simp [valF]⟩
  have e : i + (len - i) = len := by omega
  simp only [mul_RowInv, e] at key
  exact key

theorem mul_valF_split (f : Nat → BitVec w) (m k : Nat) :
    ∃ T, valF f (m + k) = valF f m + 2 ^ (w * m) * T := by
  induction k with
  | zero => exact ⟨0, by simp⟩
  | succ k ih =>
    obtain ⟨T, hT⟩ := ih
    refine ⟨T + 2 ^ (w * k) * (f (m + k)).toNat, ?_⟩
    show valF f (m + k) + 2 ^ (w * (m + k)) * (f (m + k)).toNat = _
    rw [hT, Nat.mul_add w m k, Nat.pow_add]
    linarith

theorem mul_valUpTo_zero (ws : Array (BitVec w)) (n : Nat) (hz : ∀ t, t < n → wd ws t = 0#w) :
    valUpTo ws n = 0 := by
  induction n with
  | zero => rfl
  | succ n ih =>
    simp only [valUpTo]
    rw [ih (fun t ht => hz t (by omega)), hz n (by omega)]
    simp

theorem mul_outer_arith (M R' c R D Wi F aT W1F : Nat) (h1 : R' + M * c = R + D)
    (h2 : R % M = (Wi * F) % M) (h3 : W1F = Wi * F + D + M * aT) : R' % M = W1F % M := by
  have e1 : R' % M = (R' + M * c) % M := by rw [Nat.add_mul_mod_self_left]
  rw [e1, h1, h3, Nat.add_mul_mod_self_left, Nat.add_mod, h2, ← Nat.add_mod]

/-- invariant of the outer loop after `i` rows -/
def mul_OuterInv (ws res0 : Array (BitVec w)) (f : Nat → BitVec w) (len i : Nat)
    (res : Array (BitVec w)) : Prop :=
  res.size = res0.size ∧ (∀ t, len ≤ t → wd res t = wd res0 t) ∧
    valUpTo res len % 2 ^ (w * len) = (valUpTo ws i * valF f len) % 2 ^ (w * len)

theorem mul_OuterInv_step (hw : 2 ≤ w) (hm : WmulOk w) (ws res0 : Array (BitVec w)) (f : Nat → BitVec w)
    (len i : Nat) (res : Array (BitVec w)) (hlen : len ≤ res0.size) (hi : i < len)
    (h : mul_OuterInv ws res0 f len i res) :
    mul_OuterInv ws res0 f len (i + 1) (mul_row ws f len i res).1 := by
  obtain ⟨h1, h2, h3⟩ := h
  obtain ⟨r1, r2, r3⟩ := mul_row_spec hw hm ws f len i res (by omega) (by omega)
  refine ⟨by omega, fun t ht => by rw [r2 t ht, h2 t ht], ?_⟩
  obtain ⟨T, hT⟩ := mul_valF_split f (len - i) i
  have e : len - i + i = len := by omega
  rw [e] at hT
  have eM : 2 ^ (w * len) = 2 ^ (w * i) * 2 ^ (w * (len - i)) := by
    rw [← Nat.pow_add, ← Nat.mul_add]; congr 2; omega
  apply mul_outer_arith _ _ _ _ _ _ _ ((wd ws i).toNat * T) _ r3 h3
  simp only [valUpTo]
  rw [hT, eM]
  generalize 2 ^ (w * i) = P
  generalize 2 ^ (w * (len - i)) = Q
  linarith

/-- item 4: the value computed by the schoolbook rows -/
theorem mulRows_spec (hw : 2 ≤ w) (hm : WmulOk w) (ws : Array (BitVec w)) (fetch : Nat → BitVec w)
    (len : Nat) (res : Array (BitVec w)) (hlen : len ≤ res.size)
    (hz : ∀ t, t < len → wd res t = 0#w) :
    valUpTo (Bvf.mulRows ws fetch len res) len
        = (valUpTo ws len * valF fetch len) % 2 ^ (w * len) ∧
      (Bvf.mulRows ws fetch len res).size = res.size ∧
      ∀ t, len ≤ t → wd (Bvf.mulRows ws fetch len res) t = wd res t := by
  rw [mul_mulRows_eq]
  obtain ⟨k1, k2, k3⟩ := forRange_inv (fun i r => mul_OuterInv ws res fetch len i r)
    (fun i res => (mul_row ws fetch len i res).1) 0 len (Nat.zero_le _)
    (fun n s _ h2 hP => mul_OuterInv_step hw hm ws res fetch len n s hlen h2 hP)
    res ⟨rfl, fun _ _ => rfl, by rw [mul_valUpTo_zero res len hz]; simp [valUpTo]⟩
  refine ⟨?_, k1, k2⟩
  rw [← k3]
  exact (Nat.mod_eq_of_lt (valUpTo_lt _ _)).symm

-- ---- 5. `Bvf.mul`, `Bvd.mul` --------------------------------------------------------------------------

theorem mul_valUpTo_tail_zero (ws : Array (BitVec w)) (m k : Nat) (hz : ∀ t, m ≤ t → wd ws t = 0#w) :
    valUpTo ws (m + k) = valUpTo ws m := by
  induction k with
  | zero => rfl
  | succ k ih =>
    show valUpTo ws (m + k) + 2 ^ (w * (m + k)) * (wd ws (m + k)).toNat = valUpTo ws m
    rw [hz (m + k) (by omega), ih]; simp

theorem mul_wd_replicate (N t : Nat) : wd (Array.replicate N 0#w) t = 0#w := by
  unfold wd
  simp only [Array.getD_eq_getD_getElem?, Array.getElem?_replicate]
  split <;> rfl

theorem mul_cap_bounds (hw : 0 < w) (n N : Nat) (h : n ≤ N * w) :
    n ≤ w * capFromBitLen w n ∧ capFromBitLen w n ≤ N := by
  unfold capFromBitLen
  have h1 := Nat.div_add_mod (n + w - 1) w
  have h2 := Nat.mod_lt (n + w - 1) hw
  refine ⟨by omega, ?_⟩
  apply Nat.le_of_lt_succ
  rw [Nat.div_lt_iff_lt_mul hw, Nat.succ_mul]
  omega

theorem mul_final (A x M L : Nat) (hd : L ∣ M) : (A * (x % M)) % M % L = (A * x) % L := by
  rw [Nat.mod_mod_of_dvd _ hd, Nat.mul_mod, Nat.mod_mod_of_dvd _ hd, ← Nat.mul_mod]

theorem Bvf.mul_refines_of (s : Raw w) (x : AnyBv) (hw : 2 ≤ w) (hm : WmulOk w) (h : s.Inv)
    (hf : ∀ n, valF (fun j => match x with
        | .f _ r => (r.getInt w j).getD 0#w
        | .d r => (r.getInt w j).getD 0#w) n = x.abs.val % 2 ^ (w * n)) :
    (Bvf.mul s x).Inv ∧ (Bvf.mul s x).abs = s.abs.mul x.abs ∧
      (Bvf.mul s x).data.size = s.data.size := by
  have hw0 : 0 < w := by omega
  obtain ⟨b1, b2⟩ := mul_cap_bounds hw0 s.length s.data.size h.1
  unfold Bvf.mul
  simp only
  generalize hfe : (fun j => match x with
        | .f _ r => (r.getInt w j).getD 0#w
        | .d r => (r.getInt w j).getD 0#w) = fetch at hf
  obtain ⟨c1, c2, c3⟩ := mulRows_spec hw hm s.data fetch (capFromBitLen w s.length)
    (Array.replicate s.data.size 0#w) (by simpa using b2) (fun t _ => mul_wd_replicate _ t)
  generalize Bvf.mulRows s.data fetch (capFromBitLen w s.length) (Array.replicate s.data.size 0#w) = R
    at c1 c2 c3
  have c2' : R.size = s.data.size := by simpa using c2
  refine ⟨⟨?_, ?_⟩, ?_, ?_⟩
  · simp only [size_mod2n, c2']; exact h.1
  · intro i hi
    simp only at hi ⊢
    rw [bitAt_mod2n _ _ _ hw0]
    have : ¬ i < s.length := by omega
    simp [this]
  · unfold Raw.abs BV.mul
    simp only
    congr 1
    rw [valAll_mod2n hw0]
    unfold valAll
    have e : s.data.size = capFromBitLen w s.length + (s.data.size - capFromBitLen w s.length) := by
      omega
    have eR : valUpTo R R.size = valUpTo R (capFromBitLen w s.length) := by
      rw [c2', e]
      exact mul_valUpTo_tail_zero R _ _ (fun t ht => by rw [c3 t ht, mul_wd_replicate])
    have eS : valUpTo s.data s.data.size = valUpTo s.data (capFromBitLen w s.length) :=
      valUpTo_of_high_zero hw0 s.data _ _ b2 (fun j hj => h.2 j (by omega))
    rw [eR, eS, c1, hf]
    exact mul_final _ _ _ _ (two_pow_dvd_of_le _ _ b1)
  · simp only [size_mod2n, c2']

theorem Bvd.mul_core (s : Raw 64) (fetch : Nat → BitVec 64) (X : Nat) (hm : WmulOk 64) (h : s.Inv)
    (hf : ∀ n, valF fetch n = X % 2 ^ (64 * n)) (R : Array (BitVec 64))
    (hR : R = Bvf.mulRows s.data fetch (Bvd.capW s.length) (Array.replicate (Bvd.capW s.length) 0#64)) :
    (⟨maskAt R s.length, s.length⟩ : Raw 64).Inv ∧
      (⟨maskAt R s.length, s.length⟩ : Raw 64).abs = ⟨s.length, (valAll s.data * X) % 2 ^ s.length⟩ ∧
      (maskAt R s.length).size = Bvd.capW s.length := by
  have hw0 : 0 < 64 := by decide
  obtain ⟨b1, b3⟩ := capW_bounds s.length
  have b2 := capW_le_size h
  obtain ⟨c1, c2, c3⟩ := mulRows_spec (by decide) hm s.data fetch (Bvd.capW s.length)
    (Array.replicate (Bvd.capW s.length) 0#64) (by simp) (fun t _ => mul_wd_replicate _ t)
  rw [← hR] at c1 c2 c3
  have c2' : R.size = Bvd.capW s.length := by simpa using c2
  have hz : ∀ j, (s.length / 64 + 1) * 64 ≤ j → bitAt R j = false :=
    fun j hj => bitAt_oob R j (by omega) hw0
  refine ⟨⟨?_, ?_⟩, ?_, ?_⟩
  · simp only [size_maskAt, c2']; omega
  · intro i hi
    simp only at hi ⊢
    rw [bitAt_maskAt _ _ _ hw0 hz]
    have : ¬ i < s.length := by omega
    simp [this]
  · unfold Raw.abs
    simp only
    congr 1
    rw [valAll_maskAt hw0 _ _ hz]
    unfold valAll
    have eS : valUpTo s.data s.data.size = valUpTo s.data (Bvd.capW s.length) :=
      valUpTo_of_high_zero hw0 s.data _ _ b2 (fun j hj => h.2 j (by omega))
    rw [c2', eS, c1, hf]
    exact mul_final _ _ _ _ (two_pow_dvd_of_le _ _ b1)
  · simp only [size_maskAt, c2']

theorem Bvd.mul_refines_of (s : Raw 64) (x : AnyBv) (hm : WmulOk 64) (h : s.Inv)
    (hf : ∀ n, valF (match x with
        | .d r => fun j => wd r.data j
        | .f _ r => fun j => (r.getInt 64 j).getD 0#64) n = x.abs.val % 2 ^ (64 * n)) :
    (Bvd.mul s x).Inv ∧ (Bvd.mul s x).abs = s.abs.mul x.abs ∧
      (Bvd.mul s x).data.size = Bvd.capW s.length := by
  cases x with
  | d r => exact Bvd.mul_core s _ _ hm h hf _ rfl
  | f w2 r => exact Bvd.mul_core s _ _ hm h hf _ rfl

theorem wmul_ok : WmulOk w := fun a b => wmul_spec a b

-- ---- final statements ---------------------------------------------------------------------------------

/-- item 4 -/
theorem Bvf.mulRows_value (hw : 2 ≤ w) (ws : Array (BitVec w)) (fetch : Nat → BitVec w)
    (len : Nat) (res : Array (BitVec w)) (hlen : len ≤ res.size)
    (hz : ∀ t, t < len → wd res t = 0#w) :
    valUpTo (Bvf.mulRows ws fetch len res) len
        = (valUpTo ws len * valF fetch len) % 2 ^ (w * len) ∧
      (Bvf.mulRows ws fetch len res).size = res.size ∧
      ∀ t, len ≤ t → wd (Bvf.mulRows ws fetch len res) t = wd res t :=
  mulRows_spec hw wmul_ok ws fetch len res hlen hz

/-- item 5, `Bvf` -/
theorem Bvf.mul_refines (s : Raw w) (x : AnyBv) (hw : 2 ≤ w) (h : s.Inv)
    (hf : ∀ n, valF (fun j => match x with
        | .f _ r => (r.getInt w j).getD 0#w
        | .d r => (r.getInt w j).getD 0#w) n = x.abs.val % 2 ^ (w * n)) :
    (Bvf.mul s x).Inv ∧ (Bvf.mul s x).abs = s.abs.mul x.abs :=
  have r := Bvf.mul_refines_of s x hw wmul_ok h hf
  ⟨r.1, r.2.1⟩

theorem Bvf.mul_size (s : Raw w) (x : AnyBv) : (Bvf.mul s x).data.size = s.data.size := by
  unfold Bvf.mul
  simp only [size_mod2n]
  rw [mul_mulRows_eq]
  exact forRange_inv (fun _ (r : Array (BitVec w)) => r.size = s.data.size) _ 0 _ (Nat.zero_le _)
    (fun n r _ _ hP => by
      show (mul_row s.data _ _ n r).1.size = s.data.size
      unfold mul_row
      exact forRange_inv (fun _ (p : Array (BitVec w) × BitVec w) => p.1.size = s.data.size) _ 0 _
        (Nat.zero_le _) (fun m p _ _ hQ => by simp [mul_rowStep, hQ]) _ hP)
    _ (by simp)

/-- item 5, `Bvd` (the result is a fresh allocation of `capW length` words) -/
theorem Bvd.mul_refines (s : Raw 64) (x : AnyBv) (h : s.Inv)
    (hf : ∀ n, valF (match x with
        | .d r => fun j => wd r.data j
        | .f _ r => fun j => (r.getInt 64 j).getD 0#64) n = x.abs.val % 2 ^ (64 * n)) :
    (Bvd.mul s x).Inv ∧ (Bvd.mul s x).abs = s.abs.mul x.abs ∧
      (Bvd.mul s x).data.size = Bvd.capW s.length :=
  Bvd.mul_refines_of s x wmul_ok h hf

end Bva
