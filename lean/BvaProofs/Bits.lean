import BvaModel.Store
/-!
# Bit-level facts about word arrays: mask, chunk read/write, and the value/bit bridge
-/
namespace Bva
variable {w : Nat}

theorem wd_eq (ws : Array (BitVec w)) (i : Nat) : wd ws i = ws.getD i 0#w := rfl

theorem mask_eq_ofNat (l : Nat) (h : l < w) : (1#w <<< l) - 1#w = BitVec.ofNat w (2^l - 1) := by
  apply BitVec.eq_of_toNat_eq
  simp [BitVec.toNat_sub, Nat.shiftLeft_eq]
  have h2 : 2^l < 2^w := Nat.pow_lt_pow_right (by omega) h
  have h1 : 1 < 2^w := Nat.one_lt_two_pow (by omega)
  have hp : 0 < 2^l := Nat.two_pow_pos l
  rw [Nat.mod_eq_of_lt h1]
  have e : 2 ^ w - 1 + 2 ^ l = 2^w + (2^l - 1) := by omega
  rw [e, Nat.add_mod_left]

theorem getLsbD_mask (l i : Nat) : (mask w l).getLsbD i = (decide (i < w) && decide (i < l)) := by
  unfold mask
  split
  · rename_i h
    rw [mask_eq_ofNat l h]
    rw [BitVec.getLsbD_ofNat, Nat.testBit_two_pow_sub_one]
  · rename_i h
    by_cases hi : i < w
    · simp [hi]; omega
    · simp [hi]

theorem div_add_of_fit (pos j : Nat) (hw : 0 < w) (h : pos % w + j < w) :
    (pos + j) / w = pos / w ∧ (pos + j) % w = pos % w + j := by
  have e1 := Nat.div_add_mod pos w
  have hd : (pos + j) / w = pos / w := by
    rw [Nat.div_eq_iff hw]
    have h3 : pos / w * w = w * (pos / w) := Nat.mul_comm _ _
    constructor <;> omega
  have e2 := Nat.div_add_mod (pos + j) w
  rw [hd] at e2
  exact ⟨hd, by omega⟩

theorem getLsbD_readBits (ws : Array (BitVec w)) (pos l j : Nat) (hw : 0 < w)
    (hfit : pos % w + l ≤ w) :
    (readBits ws pos l).getLsbD j = (decide (j < l) && bitAt ws (pos + j)) := by
  unfold readBits bitAt wd
  simp only [BitVec.getLsbD_and, BitVec.getLsbD_ushiftRight, getLsbD_mask]
  by_cases hj : j < l
  · obtain ⟨h1, h2⟩ := div_add_of_fit pos j hw (by omega)
    have : j < w := by omega
    simp [hj, h1, h2, this]
  · simp [hj]

theorem bitAt_writeBits (ws : Array (BitVec w)) (pos l i : Nat) (d : BitVec w) (hw : 0 < w)
    (hfit : pos % w + l ≤ w) (hin : pos / w < ws.size)
    (hd : ∀ j, l ≤ j → d.getLsbD j = false) :
    bitAt (writeBits ws pos l d) i =
      if pos ≤ i ∧ i < pos + l then d.getLsbD (i - pos) else bitAt ws i := by
  unfold writeBits bitAt wd
  simp only [Array.getD_eq_getD_getElem?, Array.getElem?_setIfInBounds]
  by_cases hj : pos / w = i / w
  · have hlt : i / w < ws.size := by omega
    simp only [hj, if_true, hlt]
    simp only [Option.getD_some, BitVec.getLsbD_or, BitVec.getLsbD_and, BitVec.getLsbD_not,
      BitVec.getLsbD_shiftLeft, getLsbD_mask]
    have him : i % w < w := Nat.mod_lt _ hw
    have ei := Nat.div_add_mod i w
    have ep := Nat.div_add_mod pos w
    rw [hj] at ep
    by_cases hlo : i % w < pos % w
    · have : ¬ (pos ≤ i ∧ i < pos + l) := by omega
      simp [him, hlo, this]
    · have e3 : i - pos = i % w - pos % w := by omega
      by_cases hin2 : i % w - pos % w < l
      · have : pos ≤ i ∧ i < pos + l := by omega
        have hw2 : i % w - pos % w < w := by omega
        simp [him, hlo, this, hin2, e3, hw2]
      · have hn : ¬ (pos ≤ i ∧ i < pos + l) := by omega
        simp only [hn, if_false]
        have hlo' : decide (i % w < pos % w) = false := by simp; omega
        have hin' : decide (i % w - pos % w < l) = false := by simp; omega
        rw [hd (i % w - pos % w) (by omega)]
        simp [hlo', hin', him]
  · have : ¬ (pos ≤ i ∧ i < pos + l) := by
      intro ⟨h1, h2⟩
      obtain ⟨h3, _⟩ := div_add_of_fit pos (i - pos) hw (by omega)
      apply hj
      rw [← h3]; congr 1; omega
    simp [hj, this]

theorem size_writeBits (ws : Array (BitVec w)) (pos l : Nat) (d : BitVec w) :
    (writeBits ws pos l d).size = ws.size := by
  simp [writeBits]

theorem readBits_high (ws : Array (BitVec w)) (pos l j : Nat) (h : l ≤ j) :
    (readBits ws pos l).getLsbD j = false := by
  unfold readBits wd
  simp only [BitVec.getLsbD_and, getLsbD_mask]
  have : decide (j < l) = false := by simp; omega
  simp [this]

theorem div_lt_of_lt_mul (i n : Nat) (hw : 0 < w) (h : i < n * w) : i / w < n := by
  exact (Nat.div_lt_iff_lt_mul hw).mpr h

theorem valUpTo_lt (ws : Array (BitVec w)) (n : Nat) : valUpTo ws n < 2^(w*n) := by
  induction n with
  | zero => simp [valUpTo]
  | succ n ih =>
    simp only [valUpTo]
    have h := (ws.getD n 0#w).isLt
    have e : 2^(w*(n+1)) = 2^(w*n) * 2^w := by rw [Nat.mul_succ, Nat.pow_add]
    rw [e]
    calc valUpTo ws n + 2^(w*n) * (ws.getD n 0#w).toNat
        < 2^(w*n) + 2^(w*n) * (ws.getD n 0#w).toNat := by omega
      _ = 2^(w*n) * ((ws.getD n 0#w).toNat + 1) := by rw [Nat.mul_add, Nat.mul_one, Nat.add_comm]
      _ ≤ 2^(w*n) * 2^w := Nat.mul_le_mul_left _ (by omega)

theorem testBit_valUpTo (hw : 0 < w) (ws : Array (BitVec w)) (n i : Nat) :
    (valUpTo ws n).testBit i = (decide (i < w*n) && bitAt ws i) := by
  induction n with
  | zero => simp [valUpTo]
  | succ n ih =>
    simp only [valUpTo]
    rw [Nat.add_comm, Nat.testBit_two_pow_mul_add _ (valUpTo_lt ws n)]
    split
    · rename_i h
      rw [ih]
      have : i < w*(n+1) := by rw [Nat.mul_succ]; omega
      simp [h, this]
    · rename_i h
      have hge : w*n ≤ i := by omega
      unfold bitAt wd
      by_cases h2 : i < w*(n+1)
      · have hd : i / w = n := by
          rw [Nat.div_eq_iff hw]; rw [Nat.mul_succ] at h2
          constructor
          · rw [Nat.mul_comm]; exact hge
          · rw [Nat.mul_comm]; omega
        have hm : i % w = i - w*n := by
          have := Nat.div_add_mod i w; rw [hd] at this; omega
        simp only [h2, hd, hm, decide_true, Bool.true_and]
        rfl
      · have : (ws.getD n 0#w).toNat.testBit (i - w*n) = false := by
          apply Nat.testBit_lt_two_pow
          calc (ws.getD n 0#w).toNat < 2^w := (ws.getD n 0#w).isLt
            _ ≤ 2^(i - w*n) := Nat.pow_le_pow_right (by omega) (by rw [Nat.mul_succ] at h2; omega)
        simp only [h2, decide_false, Bool.false_and]
        exact this

theorem bitAt_orBits (ws : Array (BitVec w)) (pos l i : Nat) (d : BitVec w) (hw : 0 < w)
    (hfit : pos % w + l ≤ w) (hin : pos / w < ws.size)
    (hd : ∀ j, l ≤ j → d.getLsbD j = false) :
    bitAt (orBits ws pos d) i =
      (bitAt ws i || (decide (pos ≤ i ∧ i < pos + l) && d.getLsbD (i - pos))) := by
  unfold orBits bitAt wd
  simp only [Array.getD_eq_getD_getElem?, Array.getElem?_setIfInBounds]
  by_cases hj : pos / w = i / w
  · have hlt : i / w < ws.size := by omega
    simp only [hj, if_true, hlt]
    simp only [Option.getD_some, BitVec.getLsbD_or, BitVec.getLsbD_shiftLeft]
    have him : i % w < w := Nat.mod_lt _ hw
    have ei := Nat.div_add_mod i w
    have ep := Nat.div_add_mod pos w
    rw [hj] at ep
    by_cases hlo : i % w < pos % w
    · have : ¬ (pos ≤ i ∧ i < pos + l) := by omega
      simp [him, hlo, this]
    · have e3 : i - pos = i % w - pos % w := by omega
      by_cases hin2 : i % w - pos % w < l
      · have : pos ≤ i ∧ i < pos + l := by omega
        simp [him, hlo, this, e3]
      · have hn : ¬ (pos ≤ i ∧ i < pos + l) := by omega
        rw [hd (i % w - pos % w) (by omega)]
        simp [hn]
  · have : ¬ (pos ≤ i ∧ i < pos + l) := by
      intro ⟨h1, h2⟩
      obtain ⟨h3, _⟩ := div_add_of_fit pos (i - pos) hw (by omega)
      apply hj
      rw [← h3]; congr 1; omega
    simp [hj, this]

end Bva
