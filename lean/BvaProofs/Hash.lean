import BvaProofs.Base
import BvaProofs.Count
import BvaProofs.Rechunk
import BvaModel.Auto
/-!
# T15 — hashing: `Bvf.hashStream`, `Bvd.hashStream`, `Bv.hashStream`
-/
namespace Bva
variable {w : Nat}

/-- the hash stream of an abstract bit vector for word width `wWord` (same as `Drv.specHash`) -/
def specHash (wWord : Nat) (a : BV) : List (Nat × Nat) :=
  (64, a.sig) :: (List.range ((a.sig + wWord - 1) / wWord)).map
    fun i => (wWord, (a.val >>> (wWord * i)) % 2 ^ wWord)

/-- word `i` of the storage is the `i`-th `w`-bit digit of the abstract value (for every `i`) -/
theorem hsh_wd_toNat (s : Raw w) (hw : 0 < w) (i : Nat) :
    (wd s.data i).toNat = (s.abs.val >>> (w * i)) % 2 ^ w := by
  apply Nat.eq_of_testBit_eq
  intro j
  rw [← BitVec.getLsbD, Nat.testBit_mod_two_pow, Nat.testBit_shiftRight]
  have := Raw.abs_bit s (w * i + j) hw
  unfold BV.bit at this
  rw [this]
  by_cases hj : j < w
  · rw [bitAt_mul_add _ _ _ hj]; simp [hj]
  · simp [hj]
    exact BitVec.getLsbD_of_ge _ _ (by omega)

theorem Bvf.hashStream_eq (s : Raw w) (hw : 0 < w) (h : s.Inv) :
    Bvf.hashStream s = specHash w s.abs := by
  unfold Bvf.hashStream specHash capFromBitLen
  simp only [Raw.sigBits_eq s hw h, hsh_wd_toNat s hw]

theorem Bvd.hashStream_eq (s : Raw 64) (h : s.Inv) :
    Bvd.hashStream s = specHash 64 s.abs := by
  unfold Bvd.hashStream specHash Bvd.capW capFromBitLen
  simp only [Raw.sigBits_eq s (by decide) h, hsh_wd_toNat s (by decide)]

theorem hsh_compat64 : Compat 64 64 := ⟨by decide, by decide, Or.inl (Nat.dvd_refl _)⟩

theorem Bv.hashStream_eq (b : Bv) (h : b.raw.Inv) :
    Bv.hashStream b = specHash 64 b.abs := by
  unfold Bv.hashStream specHash Bv.abs
  simp only [Raw.sigBits_eq b.raw (by decide) h, Raw.getInt_toNat b.raw hsh_compat64 h,
    Nat.mul_comm _ 64]
  rfl

/-- the spec stream depends on the value only, not on the length -/
theorem specHash_congr (wWord : Nat) {a b : BV} (h : a.val = b.val) :
    specHash wWord a = specHash wWord b := by
  unfold specHash BV.sig
  rw [h]

-- ---- `C10`-style corollaries: equal values hash equally ------------------------------------------------

theorem Bvf.hashStream_congr (s t : Raw w) (hw : 0 < w) (hs : s.Inv) (ht : t.Inv)
    (h : s.abs.val = t.abs.val) : Bvf.hashStream s = Bvf.hashStream t := by
  rw [Bvf.hashStream_eq s hw hs, Bvf.hashStream_eq t hw ht, specHash_congr w h]

theorem Bvd.hashStream_congr (s t : Raw 64) (hs : s.Inv) (ht : t.Inv)
    (h : s.abs.val = t.abs.val) : Bvd.hashStream s = Bvd.hashStream t := by
  rw [Bvd.hashStream_eq s hs, Bvd.hashStream_eq t ht, specHash_congr 64 h]

theorem Bv.hashStream_congr (a b : Bv) (ha : a.raw.Inv) (hb : b.raw.Inv)
    (h : a.abs.val = b.abs.val) : Bv.hashStream a = Bv.hashStream b := by
  rw [Bv.hashStream_eq a ha, Bv.hashStream_eq b hb, specHash_congr 64 h]

/-- in particular across the two variants -/
theorem Bv.hashStream_fixed_dynamic (s t : Raw 64) (hs : s.Inv) (ht : t.Inv)
    (h : s.abs.val = t.abs.val) : Bv.hashStream (.fixed s) = Bv.hashStream (.dynamic t) :=
  Bv.hashStream_congr (.fixed s) (.dynamic t) hs ht h

/-- all three implementations with 64-bit words agree -/
theorem Bv.hashStream_eq_Bvd (b : Bv) (h : b.raw.Inv) : Bv.hashStream b = Bvd.hashStream b.raw := by
  rw [Bv.hashStream_eq b h, Bvd.hashStream_eq b.raw h]; rfl

theorem Bv.hashStream_eq_Bvf (b : Bv) (h : b.raw.Inv) : Bv.hashStream b = Bvf.hashStream b.raw := by
  rw [Bv.hashStream_eq b h, Bvf.hashStream_eq b.raw (by decide) h]; rfl

end Bva
