import BvaProofs.Base
import BvaProofs.Shift
import BvaProofs.Rot
import BvaProofs.Edit
import BvaProofs.Conv
import BvaProofs.Slice
import BvaProofs.Splice
import BvaProofs.Div
import BvaProofs.Bytes
import BvaProofs.Parse
import BvaModel.Auto
/-!
# T18 — the `Bv` (auto) glue: promotion to the heap, demotion to the inline form, dispatch

`div_BvInv` (from `BvaProofs/Div.lean`) is the storage invariant of a `Bv`:
`Fixed b` : `b.Inv ∧ b.data.size = 2`; `Dynamic b` : `b.Inv`.
Everything here says: the `Bv` type never fails for lack of capacity, and the storage mode is unobservable through `abs`.
-/
namespace Bva

-- ---- helpers ------------------------------------------------------------------------------------------
theorem ag_abs_fixed (b : Raw 64) : (Bv.fixed b).abs = b.abs := rfl
theorem ag_abs_dynamic (b : Raw 64) : (Bv.dynamic b).abs = b.abs := rfl
theorem ag_len_fixed (b : Raw 64) : (Bv.fixed b).len = b.length := rfl
theorem ag_len_dynamic (b : Raw 64) : (Bv.dynamic b).len = b.length := rfl
theorem ag_abs_len (s : Bv) : s.abs.len = s.len := rfl

/-- under the invariant the length never exceeds the capacity -/
theorem Bv.len_le_capacity (s : Bv) (h : div_BvInv s) : s.len ≤ s.capacity := by
  cases s with
  | fixed b =>
    have := h.1.1
    have := h.2
    show b.length ≤ 128
    omega
  | dynamic b => exact h.1

/-- the capacity of a `Fixed` is 128 bits; `Bv.zeros n` is `Fixed` exactly when `n ≤ 128` -/
theorem ag_zeros_capacity (n : Nat) :
    (Bv.zeros n).capacity = if n ≤ 128 then 128 else capFromBitLen 64 n * 64 := by
  unfold Bv.zeros Bv.cap128
  split
  · rfl
  · show (Bvd.zeros n).data.size * 64 = _
    rw [(Bvd.zeros_refines n).2.2]

-- ---- 1. reserve -------------------------------------------------------------------------------------------
/-- `Bv::reserve`: a `Fixed` that cannot hold `len + k` bits moves to the heap; the value is unchanged and
afterwards `len + k` bits fit. -/
theorem Bv.reserve_refines (s : Bv) (k : Nat) (h : div_BvInv s) :
    div_BvInv (s.reserve k) ∧ (s.reserve k).abs = s.abs ∧ s.len + k ≤ (s.reserve k).capacity := by
  cases s with
  | fixed b =>
    unfold Bv.reserve Bv.cap128
    simp only
    split
    · obtain ⟨f1, f2⟩ := div_Bvd_fromBvf b div_compat64 h.1
      obtain ⟨r1, r2, r3, _⟩ := Bvd.reserve_refines (Bvd.fromBvf b) k f1
      exact ⟨r1, by rw [ag_abs_dynamic, r2, f2]; rfl, r3⟩
    · rename_i hn
      refine ⟨h, rfl, ?_⟩
      show b.length + k ≤ 128
      omega
  | dynamic b =>
    have hb : b.Inv := h
    obtain ⟨r1, r2, r3, _⟩ := Bvd.reserve_refines b k hb
    exact ⟨r1, r2, r3⟩

end Bva
