import BvaProofs.Base
import BvaProofs.Shift
import BvaProofs.Rot
import BvaProofs.Edit
import BvaProofs.Conv
import BvaProofs.Slice
import BvaProofs.Splice
import BvaProofs.Div
import BvaProofs.Bytes
import BvaProofs.Parse
import BvaModel.Auto
/-!
# T18 — the `Bv` (auto) glue: promotion to the heap, demotion to the inline form, dispatch

`div_BvInv` (from `BvaProofs/Div.lean`) is the storage invariant of a `Bv`:
`Fixed b` : `b.Inv ∧ b.data.size = 2`; `Dynamic b` : `b.Inv`.
Everything here says: the `Bv` type never fails for lack of capacity, and the storage mode is unobservable through `abs`.
-/
namespace Bva

-- ---- helpers ------------------------------------------------------------------------------------------
theorem ag_abs_fixed (b : Raw 64) : (Bv.fixed b).abs = b.abs := rfl
theorem ag_abs_dynamic (b : Raw 64) : (Bv.dynamic b).abs = b.abs := rfl
theorem ag_len_fixed (b : Raw 64) : (Bv.fixed b).len = b.length := rfl
theorem ag_len_dynamic (b : Raw 64) : (Bv.dynamic b).len = b.length := rfl
theorem ag_abs_len (s : Bv) : s.abs.len = s.len := rfl

/-- under the invariant the length never exceeds the capacity -/
theorem Bv.len_le_capacity (s : Bv) (h : div_BvInv s) : s.len ≤ s.capacity := by
  cases s with
  | fixed b =>
    have := h.1.1
    have := h.2
    show b.length ≤ 128
    omega
  | dynamic b => exact h.1

/-- the capacity of a `Fixed` is 128 bits; `Bv.zeros n` is `Fixed` exactly when `n ≤ 128` -/
theorem ag_zeros_capacity (n : Nat) :
    (Bv.zeros n).capacity = if n ≤ 128 then 128 else capFromBitLen 64 n * 64 := by
  unfold Bv.zeros Bv.cap128
  split
  · rfl
  · show (Bvd.zeros n).data.size * 64 = _
    rw [(Bvd.zeros_refines n).2.2]

-- ---- 1. reserve -------------------------------------------------------------------------------------------
/-- `Bv::reserve`: a `Fixed` that cannot hold `len + k` bits moves to the heap; the value is unchanged and
afterwards `len + k` bits fit. -/
theorem Bv.reserve_refines (s : Bv) (k : Nat) (h : div_BvInv s) :
    div_BvInv (s.reserve k) ∧ (s.reserve k).abs = s.abs ∧ s.len + k ≤ (s.reserve k).capacity := by
  cases s with
  | fixed b =>
    unfold Bv.reserve Bv.cap128
    simp only
    split
    · obtain ⟨f1, f2⟩ := div_Bvd_fromBvf b div_compat64 h.1
      obtain ⟨r1, r2, r3, _⟩ := Bvd.reserve_refines (Bvd.fromBvf b) k f1
      exact ⟨r1, by rw [ag_abs_dynamic, r2, f2]; rfl, r3⟩
    · rename_i hn
      refine ⟨h, rfl, ?_⟩
      show b.length + k ≤ 128
      omega
  | dynamic b =>
    have hb : b.Inv := h
    obtain ⟨r1, r2, r3, _⟩ := Bvd.reserve_refines b k hb
    exact ⟨r1, r2, r3⟩

-- ---- 2. shrinkToFit, withCapacity, zeros, ones ---------------------------------------------------------------
/-- `Bv::shrink_to_fit`: a `Dynamic` of at most 128 bits is demoted to `Fixed` (the conversion cannot fail);
the capacity afterwards is that of a freshly built vector of the same length. -/
theorem Bv.shrinkToFit_refines (s : Bv) (h : div_BvInv s) :
    div_BvInv s.shrinkToFit ∧ s.shrinkToFit.abs = s.abs ∧
      s.shrinkToFit.capacity = (Bv.zeros s.len).capacity := by
  rw [ag_zeros_capacity]
  cases s with
  | fixed b =>
    have hl := Bv.len_le_capacity _ h
    have hl : b.length ≤ 128 := hl
    refine ⟨h, rfl, ?_⟩
    rw [ag_len_fixed, if_pos hl]
    rfl
  | dynamic b =>
    have hb : b.Inv := h
    unfold Bv.shrinkToFit Bv.cap128
    simp only
    rw [ag_len_dynamic]
    split
    · rename_i hl
      obtain ⟨r, e, r1, r2, r3⟩ := div_fromBvd_ok (w := 64) 2 b div_compat64 hb (by omega)
      rw [e]
      exact ⟨⟨r1, r3⟩, r2, rfl⟩
    · obtain ⟨r1, r2, r3⟩ := Bvd.shrinkToFit_refines b hb
      refine ⟨r1, r2, ?_⟩
      show (Bvd.shrinkToFit b).data.size * 64 = _
      rw [r3]

theorem Bv.withCapacity_refines (c : Nat) :
    div_BvInv (Bv.withCapacity c) ∧ (Bv.withCapacity c).abs = BV.zeros 0 ∧ c ≤ (Bv.withCapacity c).capacity := by
  unfold Bv.withCapacity Bv.cap128
  split
  · rename_i hc
    obtain ⟨r, e, r1, r2, r3⟩ := Bvf.zeros_ok (w := 64) 2 0 (by decide) (by omega)
    rw [e]
    exact ⟨⟨r1, r3⟩, r2, hc⟩
  · obtain ⟨r1, r2, _, r4⟩ := Bvd.withCapacity_refines c
    exact ⟨r1, r2, r4⟩

theorem Bv.zeros_refines (n : Nat) : div_BvInv (Bv.zeros n) ∧ (Bv.zeros n).abs = BV.zeros n := by
  unfold Bv.zeros Bv.cap128
  split
  · rename_i hn
    obtain ⟨r, e, r1, r2, r3⟩ := Bvf.zeros_ok (w := 64) 2 n (by decide) (by omega)
    rw [e]
    exact ⟨⟨r1, r3⟩, r2⟩
  · obtain ⟨r1, r2, _⟩ := Bvd.zeros_refines n
    exact ⟨r1, r2⟩

theorem Bv.ones_refines (n : Nat) : div_BvInv (Bv.ones n) ∧ (Bv.ones n).abs = BV.ones n := by
  unfold Bv.ones Bv.cap128
  split
  · rename_i hn
    obtain ⟨r, e, r1, r2, r3⟩ := Bvf.ones_ok (w := 64) 2 n (by decide) (by omega)
    rw [e]
    exact ⟨⟨r1, r3⟩, r2⟩
  · obtain ⟨r1, r2, _⟩ := Bvd.ones_refines n
    exact ⟨r1, r2⟩

/-- the storage mode chosen by `Bv::zeros` / `Bv::ones` -/
theorem Bv.zeros_isFixed (n : Nat) : (Bv.zeros n).isFixed = decide (n ≤ 128) := by
  unfold Bv.zeros Bv.cap128
  split <;> rename_i hn <;> simp [Bv.isFixed, hn]

theorem Bv.ones_isFixed (n : Nat) : (Bv.ones n).isFixed = decide (n ≤ 128) := by
  unfold Bv.ones Bv.cap128
  split <;> rename_i hn <;> simp [Bv.isFixed, hn]

-- ---- 3. push, pop, resize, mapRaw --------------------------------------------------------------------------
/-- `Bv::push` never fails: `reserve(1)` first, so the inline `Bvf::push` always has room -/
theorem Bv.push_ok (s : Bv) (b : Bool) (h : div_BvInv s) :
    ∃ r, s.push b = .ok r ∧ div_BvInv r ∧ r.abs = s.abs.push b := by
  obtain ⟨r1, r2, r3⟩ := Bv.reserve_refines s 1 h
  unfold Bv.push
  generalize s.reserve 1 = t at r1 r2 r3
  cases t with
  | fixed c =>
    have hl : c.length = s.len := congrArg BV.len r2
    have hc : c.length < c.data.size * 64 := by
      rw [r1.2, hl]
      have : s.len + 1 ≤ 128 := r3
      omega
    obtain ⟨r, e, p1, p2, p3⟩ := Bvf.push_ok c b (by decide) r1.1 hc
    simp only [e]
    exact ⟨_, rfl, ⟨p1, p3.trans r1.2⟩, by rw [ag_abs_fixed, p2]; exact congrArg (BV.push · b) r2⟩
  | dynamic c =>
    have hc : c.Inv := r1
    obtain ⟨p1, p2⟩ := Bvd.push_refines c b hc
    exact ⟨_, rfl, p1, by rw [ag_abs_dynamic, p2]; exact congrArg (BV.push · b) r2⟩

theorem Bv.pop_refines (s : Bv) (h : div_BvInv s) :
    div_BvInv s.pop.1 ∧ (s.pop.1.abs, s.pop.2) = s.abs.pop := by
  cases s with
  | fixed b =>
    obtain ⟨p1, p2, p3⟩ := Raw.pop_refines b (by decide) h.1
    exact ⟨⟨p1, p3.trans h.2⟩, p2⟩
  | dynamic b =>
    have hb : b.Inv := h
    obtain ⟨p1, p2, _⟩ := Raw.pop_refines b (by decide) hb
    exact ⟨p1, p2⟩

/-- `Bv::resize` never fails, for any new length and any fill bit -/
theorem Bv.resize_ok (s : Bv) (n : Nat) (bit : Bool) (h : div_BvInv s) :
    ∃ r, s.resize n bit = .ok r ∧ div_BvInv r ∧ r.abs = s.abs.resize n bit :=
  div_Bv_resize s n bit h

/-- an in-place `Raw 64` operation that keeps invariant and allocation and refines `g` does so under either variant -/
theorem Bv.mapRaw_refines (f : Raw 64 → Raw 64) (g : BV → BV) (s : Bv) (h : div_BvInv s)
    (hf : (f s.raw).Inv ∧ (f s.raw).data.size = s.raw.data.size ∧ (f s.raw).abs = g s.raw.abs) :
    div_BvInv (s.mapRaw f) ∧ (s.mapRaw f).abs = g s.abs ∧ (s.mapRaw f).isFixed = s.isFixed := by
  cases s with
  | fixed b => exact ⟨⟨hf.1, hf.2.1.trans h.2⟩, hf.2.2, rfl⟩
  | dynamic b => exact ⟨hf.1, hf.2.2, rfl⟩

/-- the uniform version of the task statement -/
theorem Bv.mapRaw_refines' (f : Raw 64 → Raw 64) (g : BV → BV)
    (hf : ∀ b : Raw 64, b.Inv → (f b).Inv ∧ (f b).data.size = b.data.size ∧ (f b).abs = g b.abs)
    (s : Bv) (h : div_BvInv s) :
    div_BvInv (s.mapRaw f) ∧ (s.mapRaw f).abs = g s.abs :=
  let r := Bv.mapRaw_refines f g s h (hf s.raw (div_BvInv_raw h))
  ⟨r.1, r.2.1⟩

theorem Bv.set_refines (s : Bv) (i : Nat) (b : Bool) (h : div_BvInv s) (hi : i < s.len) :
    div_BvInv (s.mapRaw (·.set i b)) ∧ (s.mapRaw (·.set i b)).abs = s.abs.set i b := by
  obtain ⟨r1, r2, r3⟩ := Raw.set_refines s.raw i b (by decide) (div_BvInv_raw h) hi
  have := Bv.mapRaw_refines (·.set i b) (·.set i b) s h ⟨r1, r3, r2⟩
  exact ⟨this.1, this.2.1⟩

theorem Bv.shlAssign_refines (s : Bv) (k : Nat) (h : div_BvInv s) :
    div_BvInv (s.mapRaw (·.shlAssign k)) ∧ (s.mapRaw (·.shlAssign k)).abs = s.abs.shl k := by
  have hr := div_BvInv_raw h
  obtain ⟨r1, r2⟩ := Raw.shlAssign_refines s.raw (by decide) hr k
  have := Bv.mapRaw_refines (·.shlAssign k) (·.shl k) s h ⟨r1, Raw.shlAssign_size s.raw (by decide) hr k, r2⟩
  exact ⟨this.1, this.2.1⟩

theorem Bv.shrAssign_refines (s : Bv) (k : Nat) (h : div_BvInv s) :
    div_BvInv (s.mapRaw (·.shrAssign k)) ∧ (s.mapRaw (·.shrAssign k)).abs = s.abs.shr k := by
  have hr := div_BvInv_raw h
  obtain ⟨r1, r2⟩ := Raw.shrAssign_refines s.raw (by decide) hr k
  have := Bv.mapRaw_refines (·.shrAssign k) (·.shr k) s h ⟨r1, Raw.shrAssign_size s.raw (by decide) hr k, r2⟩
  exact ⟨this.1, this.2.1⟩

theorem Bv.rotl_refines (s : Bv) (k : Nat) (h : div_BvInv s) (hk : k ≤ s.len) :
    div_BvInv (s.mapRaw (·.rotl k)) ∧ (s.mapRaw (·.rotl k)).abs = s.abs.rotl k := by
  have hr := div_BvInv_raw h
  obtain ⟨r1, r2⟩ := Raw.rotl_refines s.raw (by decide) hr k hk
  have := Bv.mapRaw_refines (·.rotl k) (·.rotl k) s h ⟨r1, Raw.rotl_size s.raw k, r2⟩
  exact ⟨this.1, this.2.1⟩

theorem Bv.rotr_refines (s : Bv) (k : Nat) (h : div_BvInv s) (hk : k ≤ s.len) :
    div_BvInv (s.mapRaw (·.rotr k)) ∧ (s.mapRaw (·.rotr k)).abs = s.abs.rotr k := by
  have hr := div_BvInv_raw h
  obtain ⟨r1, r2⟩ := Raw.rotr_refines s.raw (by decide) hr k hk
  have := Bv.mapRaw_refines (·.rotr k) (·.rotr k) s h ⟨r1, Raw.rotr_size s.raw k, r2⟩
  exact ⟨this.1, this.2.1⟩

-- ---- 5. copyRange ---------------------------------------------------------------------------------------------
/-- `Bv::copy_range`: a `Fixed` source gives a `Fixed`; a `Dynamic` source gives a fresh `Bvd` that is demoted to
`Fixed` when it has at most 128 bits (that conversion cannot fail). -/
theorem Bv.copyRange_refines (s : Bv) (st en : Nat) (h : div_BvInv s) (hse : st ≤ en) (hen : en ≤ s.len) :
    div_BvInv (s.copyRange st en) ∧ (s.copyRange st en).abs = s.abs.copyRange st en := by
  cases s with
  | fixed b =>
    obtain ⟨r1, r2⟩ := Bvf.copyRange_refines b st en (by decide) h.1 hse hen
    exact ⟨⟨r1, (Bvf.copyRange_size b st en).trans h.2⟩, r2⟩
  | dynamic b =>
    obtain ⟨r1, r2⟩ := Bvd.copyRange_refines b st en hse
    unfold Bv.copyRange Bv.cap128
    simp only
    split
    · rename_i hl
      obtain ⟨r, e, p1, p2, p3⟩ := div_fromBvd_ok (w := 64) 2 (Bvd.copyRange b st en) div_compat64 r1 (by omega)
      rw [e]
      exact ⟨⟨p1, p3⟩, p2.trans r2⟩
    · exact ⟨r1, r2⟩

/-- the storage mode of the result: inline unless the source is on the heap and the range is longer than 128 bits -/
theorem Bv.copyRange_isFixed (s : Bv) (st en : Nat) (hse : st ≤ en) :
    (s.copyRange st en).isFixed = (s.isFixed || decide (en - st ≤ 128)) := by
  cases s with
  | fixed b => rfl
  | dynamic b =>
    unfold Bv.copyRange Bv.cap128
    simp only
    rw [Bvd.copyRange_length b st en hse]
    split <;> rename_i hl <;> simp [Bv.isFixed, hl]

-- ---- 4. append, prepend -------------------------------------------------------------------------------------
/-- `Bv::append` never fails: a `Fixed` whose result would exceed 128 bits is first moved to the heap -/
theorem Bv.append_ok (s : Bv) (x : AnyBv) (h : div_BvInv s) (hx : spl_Src x 8) (hx64 : spl_Src x 64) :
    ∃ r, s.append x = .ok r ∧ div_BvInv r ∧ r.abs = s.abs.append x.abs := by
  cases s with
  | fixed b =>
    unfold Bv.append Bv.cap128
    simp only
    split
    · rename_i hl
      obtain ⟨r, e, p1, p2, p3⟩ := Bvf.append_ok b x (by decide) (by decide) h.1 hx (by rw [h.2]; omega)
      rw [e]
      exact ⟨_, rfl, ⟨p1, p3.trans h.2⟩, p2⟩
    · obtain ⟨f1, f2⟩ := div_Bvd_fromBvf b div_compat64 h.1
      obtain ⟨p1, p2⟩ := Bvd.append_refines (Bvd.fromBvf b) x f1 hx64
      exact ⟨_, rfl, p1, by rw [ag_abs_dynamic, p2, f2]; rfl⟩
  | dynamic b =>
    have hb : b.Inv := h
    obtain ⟨p1, p2⟩ := Bvd.append_refines b x hb hx64
    exact ⟨_, rfl, p1, p2⟩

theorem Bv.prepend_ok (s : Bv) (x : AnyBv) (h : div_BvInv s) (hx : spl_Src x 8) (hx64 : spl_Src x 64) :
    ∃ r, s.prepend x = .ok r ∧ div_BvInv r ∧ r.abs = s.abs.prepend x.abs := by
  cases s with
  | fixed b =>
    unfold Bv.prepend Bv.cap128
    simp only
    split
    · rename_i hl
      obtain ⟨r, e, p1, p2, p3⟩ := Bvf.prepend_ok b x (by decide) (by decide) h.1 hx (by rw [h.2]; omega)
      rw [e]
      exact ⟨_, rfl, ⟨p1, p3.trans h.2⟩, p2⟩
    · obtain ⟨f1, f2⟩ := div_Bvd_fromBvf b div_compat64 h.1
      obtain ⟨p1, p2⟩ := Bvd.prepend_refines (Bvd.fromBvf b) x f1 hx64
      exact ⟨_, rfl, p1, by rw [ag_abs_dynamic, p2, f2]; rfl⟩
  | dynamic b =>
    have hb : b.Inv := h
    obtain ⟨p1, p2⟩ := Bvd.prepend_refines b x hb hx64
    exact ⟨_, rfl, p1, p2⟩

/-- the operand conditions of `append_ok` / `prepend_ok` hold for every operand of the crate: any `Bvf<I,N>` with
`I ∈ {u8,…,u128}` (word width a multiple of 8 that divides or is a multiple of 64), any `Bvd`, any `Bv`. -/
theorem ag_src_of_f {w : Nat} (b : Raw w) (h : b.Inv) (hw : 0 < w) (h8 : 8 ∣ w) (h64 : w ∣ 64 ∨ 64 ∣ w) :
    spl_Src (.f w b) 8 ∧ spl_Src (.f w b) 64 :=
  ⟨spl_Src.of_f b ⟨hw, by decide, Or.inl h8⟩ h, spl_Src.of_f b ⟨hw, by decide, h64.symm⟩ h⟩

theorem ag_src_of_d (b : Raw 64) (h : b.Inv) : spl_Src (.d b) 8 ∧ spl_Src (.d b) 64 :=
  ⟨spl_Src.of_d b ⟨by decide, by decide, Or.inl (by decide)⟩ h, spl_Src.of_d b div_compat64 h⟩

theorem ag_src_of_bv (t : Bv) (h : div_BvInv t) : spl_Src t.any 8 ∧ spl_Src t.any 64 := by
  cases t with
  | fixed b => exact ag_src_of_f b h.1 (by decide) (by decide) (Or.inl (Nat.dvd_refl 64))
  | dynamic b => exact ag_src_of_d b h

-- ---- 6. conversions ---------------------------------------------------------------------------------------------
/-- `From<Bvd> for Bv`: inline when it fits, otherwise the `Bvd` itself -/
theorem Bv.fromBvd_refines (b : Raw 64) (hb : b.Inv) :
    div_BvInv (Bv.fromBvd b) ∧ (Bv.fromBvd b).abs = b.abs ∧ (Bv.fromBvd b).isFixed = decide (b.length ≤ 128) := by
  refine ⟨(div_Bv_fromBvd b hb).1, (div_Bv_fromBvd b hb).2, ?_⟩
  unfold Bv.fromBvd
  by_cases hl : b.length ≤ 128
  · obtain ⟨r, e, _⟩ := div_fromBvd_ok (w := 64) 2 b div_compat64 hb (by omega)
    rw [e]
    simp [Bv.isFixed, hl]
  · have e : Bvf.fromBvd 64 2 b = .err "NotEnoughCapacity" := by
      unfold Bvf.fromBvd; rw [if_pos (by omega)]
    rw [e]
    simp [Bv.isFixed, hl]

/-- `From<&Bvf<I,N>> for Bv`: the choice is made on the CAPACITY `N·w` of the source type -/
theorem Bv.fromBvf_refines {w : Nat} (b : Raw w) (hc : Compat w 64) (hb : b.Inv) :
    div_BvInv (Bv.fromBvf b) ∧ (Bv.fromBvf b).abs = b.abs ∧
      (Bv.fromBvf b).isFixed = decide (b.data.size * w ≤ 128) := by
  refine ⟨(div_Bv_fromBvf b hc hb).1, (div_Bv_fromBvf b hc hb).2, ?_⟩
  unfold Bv.fromBvf Bv.cap128
  split <;> rename_i hl <;> simp [Bv.isFixed, hl]

/-- `From<uN> for Bv` (`W ∈ {8,16,32,64,128}`; more generally `W ≤ 128` or a multiple of 64) -/
theorem Bv.fromUInt_refines (W x : Nat) (hW : W ≤ 128 ∨ 64 ∣ W) (hx : x < 2 ^ W) :
    div_BvInv (Bv.fromUInt W x) ∧ (Bv.fromUInt W x).abs = ⟨W, x⟩ := by
  unfold Bv.fromUInt Bv.cap128
  split
  · rename_i hl
    have hbits : BV.natBits x ≤ W := (BV.natBits_le_iff _ _).mpr hx
    obtain ⟨r, e, r1, r2, r3⟩ := (Bvf.fromUInt_spec (w := 64) 2 W x (by decide) (by decide) hx).2 (by omega)
    rw [e]
    refine ⟨⟨r1, r3⟩, ?_⟩
    show r.abs = _
    rw [r2, Nat.min_eq_left (by omega)]
  · rename_i hl
    exact Bvd.fromUInt_refines W x (by omega) hx

theorem ag_foldl_mapRaw {α : Type} (g : α → Raw 64 → Raw 64) (l : List α) (t : Bv) :
    l.foldl (fun a p => Bv.mapRaw (g p) a) t = Bv.mapRaw (fun r => l.foldl (fun r p => g p r) r) t := by
  induction l generalizing t with
  | nil => cases t <;> rfl
  | cons p l ih => rw [List.foldl_cons, ih]; cases t <;> rfl

/-- `From<&[I]> for Bv` is `Bvf::<u64,2>::try_from` (which then cannot fail) or `Bvd::from`, by total bit count -/
theorem ag_fromSlice_eq (wJ : Nat) (xs : List Nat) :
    Bv.fromSlice wJ xs =
      if xs.length * wJ ≤ 128 then .fixed (unwrapD (Bvf.fromSlice 64 2 wJ xs))
      else .dynamic (Bvd.fromSlice wJ xs) := by
  unfold Bv.fromSlice
  rw [ag_foldl_mapRaw (fun (p : Nat × Nat) (r : Raw 64) => r.setInt wJ p.1 (BitVec.ofNat wJ p.2))]
  unfold Bv.zeros Bv.cap128
  split
  · rename_i hl
    unfold Bvf.fromSlice Bvf.zeros
    rw [if_neg (by omega), if_pos (by omega)]
    rfl
  · rfl

theorem Bv.fromSlice_refines {wJ : Nat} (xs : List Nat) (hc : Compat 64 wJ) :
    div_BvInv (Bv.fromSlice wJ xs) ∧ (Bv.fromSlice wJ xs).abs = ⟨xs.length * wJ, cnv_sliceVal wJ xs⟩ := by
  rw [ag_fromSlice_eq]
  split
  · rename_i hl
    obtain ⟨r, e, r1, r2, r3⟩ := (Bvf.fromSlice_spec (w := 64) 2 xs hc).2 (by omega)
    rw [e]
    exact ⟨⟨r1, r3⟩, r2⟩
  · exact Bvd.fromSlice_refines xs hc

/-- `Bv::from(&B)`; `hk`: when the operand's static type is `Bv` and it holds a `Fixed`, that is a `Bvf<u64,2>` -/
theorem Bv.convert_refines (kind : SrcKind) (x : AnyBv) (hx : div_AnyInv x) (hc : Compat (div_anyW x) 64)
    (hk : kind = .bv → ∀ w1 (b : Raw w1), x = .f w1 b → w1 = 64 ∧ b.data.size = 2) :
    div_BvInv (Bv.convert kind x) ∧ (Bv.convert kind x).abs = x.abs :=
  div_Bv_convert kind x hx hc hk

/-- `uN::try_from(&Bv)`: never panics; an error exactly when the value does not fit in `W` bits -/
theorem Bv.toUInt_spec (s : Bv) (W : Nat) (hc : Compat 64 W) (h : div_BvInv s) :
    s.toUInt W = if s.abs.sig ≤ W then .ok s.abs.val else .err "NotEnoughCapacity" := by
  cases s with
  | fixed b => exact Bvf.toUInt_spec b W hc h.1
  | dynamic b => exact Bvd.toUInt_spec b W h

/-- `Bv::from_bytes` never fails -/
theorem Bv.fromBytes_spec (bytes : List Nat) (big : Bool) (hb : ∀ b ∈ bytes, b < 256) :
    ∃ r, Bv.fromBytes bytes big = .ok r ∧ div_BvInv r ∧ r.abs = BV.fromBytes bytes big ∧
      r.isFixed = decide (bytes.length * 8 ≤ 128) := by
  unfold Bv.fromBytes Bv.cap128
  split
  · rename_i hl
    obtain ⟨r, e, r1, r2, r3, _⟩ := Bvf.fromBytes_ok (w := 64) 2 bytes big (by decide) (by decide) hb (by omega)
    rw [e]
    exact ⟨_, rfl, ⟨r1, r3⟩, r2, by simp [Bv.isFixed, hl]⟩
  · rename_i hl
    obtain ⟨r1, r2⟩ := Bvd.fromBytes_refines bytes big hb
    exact ⟨_, rfl, r1, r2, by simp [Bv.isFixed, hl]⟩

/-- `Bv::read`: the only error is `UnexpectedEof` (never `InvalidInput`), exactly when the input is too short -/
theorem Bv.read_spec (input : List Nat) (length : Nat) (big : Bool) (hb : ∀ b ∈ input, b < 256) :
    (input.length < (length + 7) / 8 → Bv.read input length big = .err "UnexpectedEof") ∧
    ((length + 7) / 8 ≤ input.length →
      ∃ r, Bv.read input length big = .ok (r, input.drop ((length + 7) / 8)) ∧ div_BvInv r ∧
        r.abs = ⟨length, (BV.fromBytes (input.take ((length + 7) / 8)) big).val % 2 ^ length⟩ ∧
        r.isFixed = decide (length ≤ 128)) := by
  unfold Bv.read Bv.cap128
  split
  · rename_i hl
    constructor
    · intro hs
      rw [Bvf.read_eof (w := 64) 2 input length big (by omega) hs]
    · intro hs
      obtain ⟨r, e, r1, r2, r3, _⟩ := Bvf.read_ok (w := 64) 2 input length big (by decide) (by decide) hb
        (by omega) hs
      rw [e]
      exact ⟨_, rfl, ⟨r1, r3⟩, r2, by simp [Bv.isFixed, hl]⟩
  · rename_i hl
    constructor
    · intro hs
      rw [Bvd.read_eof input length big hs]
    · intro hs
      obtain ⟨r, e, r1, r2, _⟩ := Bvd.read_ok input length big hb hs
      rw [e]
      exact ⟨_, rfl, r1, r2, by simp [Bv.isFixed, hl]⟩

open Parse in
/-- `Bv::from_binary` (restated from `Parse.lean` with `div_BvInv`): never `NotEnoughCapacity` -/
theorem Bv.fromBinary_refines (cs : List Char) :
    Bv.fromBinary cs ≠ .err "NotEnoughCapacity" ∧
    (∀ i, firstBad Bvf.binVal cs 0 = some i → Bv.fromBinary cs = .err s!"InvalidFormat({i})") ∧
    (firstBad Bvf.binVal cs 0 = none →
      ∃ r, Bv.fromBinary cs = .ok r ∧ div_BvInv r ∧ r.abs = ⟨cs.length, digitsVal 2 Bvf.binVal cs⟩ ∧
        r.isFixed = decide (Bv.utf8Len cs ≤ 128)) := by
  obtain ⟨h1, h2, h3⟩ := Bv.fromBinary_spec cs
  refine ⟨h1, h2, fun hb => ?_⟩
  obtain ⟨r, e, r1, r2, r3⟩ := h3 hb
  exact ⟨r, e, (div_BvInv_iff_invB r).mpr r1, r2, r3⟩

open Parse in
/-- `Bv::from_hex` (restated from `Parse.lean` with `div_BvInv`): never `NotEnoughCapacity` -/
theorem Bv.fromHex_refines (cs : List Char) :
    Bv.fromHex cs ≠ .err "NotEnoughCapacity" ∧
    (∀ i, firstBad Bvf.hexVal cs 0 = some i → Bv.fromHex cs = .err s!"InvalidFormat({i})") ∧
    (firstBad Bvf.hexVal cs 0 = none →
      ∃ r, Bv.fromHex cs = .ok r ∧ div_BvInv r ∧ r.abs = ⟨cs.length * 4, digitsVal 16 Bvf.hexVal cs⟩ ∧
        r.isFixed = decide (Bv.utf8Len cs * 4 ≤ 128)) := by
  obtain ⟨h1, h2, h3⟩ := Bv.fromHex_spec cs
  refine ⟨h1, h2, fun hb => ?_⟩
  obtain ⟨r, e, r1, r2, r3⟩ := h3 hb
  exact ⟨r, e, (div_BvInv_iff_invB r).mpr r1, r2, r3⟩

end Bva
