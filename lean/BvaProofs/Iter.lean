import BvaModel.Iter
/-! Proofs for the iterator model: the `(start, stop)` state refines the remaining sub-list. -/
namespace Bva

/-- the bits still to be yielded by state `(a, b)` -/
def seg (get : Nat → Bool) (a b : Nat) : List Bool := (List.range' a (b - a)).map get

theorem seg_length (get : Nat → Bool) (a b : Nat) : (seg get a b).length = b - a := by
  simp [seg]

theorem seg_empty (get : Nat → Bool) (a b : Nat) (h : b ≤ a) : seg get a b = [] := by
  have : b - a = 0 := by omega
  simp [seg, this]

theorem seg_head? (get : Nat → Bool) (a b : Nat) (h : a < b) : (seg get a b).head? = some (get a) := by
  have : b - a = (b - a - 1) + 1 := by omega
  rw [seg, this, List.range'_succ]; simp

theorem seg_drop (get : Nat → Bool) (a b n : Nat) : (seg get a b).drop n = seg get (a + n) b := by
  simp only [seg, ← List.map_drop, List.drop_range']
  have : b - a - n = b - (a + n) := by omega
  simp [this]

theorem seg_take (get : Nat → Bool) (a b n : Nat) : (seg get a b).take n = seg get a (min b (a + n)) := by
  simp only [seg, ← List.map_take]
  by_cases h : b - a ≤ n
  · rw [List.take_range'_of_length_le h]
    have : min b (a + n) - a = b - a := by omega
    rw [this]
  · rw [List.take_range'_of_length_ge (by omega)]
    have : min b (a + n) - a = n := by omega
    rw [this]

theorem seg_getLast? (get : Nat → Bool) (a b : Nat) (h : a < b) :
    (seg get a b).getLast? = some (get (b - 1)) := by
  simp only [seg, List.getLast?_map, List.getLast?_range']
  have h0 : ¬ (b - a = 0) := by omega
  have h1 : a + (b - a) - 1 = b - 1 := by omega
  simp [h0, h1]

theorem seg_dropLast (get : Nat → Bool) (a b : Nat) : (seg get a b).dropLast = seg get a (b - 1) := by
  rw [List.dropLast_eq_take, seg_take, seg_length]
  by_cases h : a < b
  · have : min b (a + (b - a - 1)) = b - 1 := by omega
    rw [this]
  · rw [seg_empty _ _ _ (by omega), seg_empty _ _ _ (by omega)]

end Bva

namespace Bva
open IterSt

/-- one forward call: the model state stays a range and refines the slice iterator's step -/
theorem step_refines (get : Nat → Bool) (s : IterSt) (h : s.start ≤ s.stop) (c : IterCall) :
    (step get s c).1.start ≤ (step get s c).1.stop ∧
    (step get s c).1.stop ≤ s.stop ∧ s.start ≤ (step get s c).1.start ∧
    sliceStep (seg get s.start s.stop) c
      = (seg get (step get s c).1.start (step get s c).1.stop, (step get s c).2) := by
  cases c with
  | next =>
    simp only [step, sliceStep]
    split
    · rename_i hlt
      refine ⟨by simp; omega, by simp, by simp, ?_⟩
      rw [seg_drop, seg_head? get _ _ hlt]
    · rename_i hlt
      refine ⟨h, Nat.le_refl _, Nat.le_refl _, ?_⟩
      simp [seg_empty get _ _ (by omega : s.stop ≤ s.start)]
  | nextBack =>
    simp only [step, sliceStep]
    split
    · rename_i hlt
      refine ⟨by simp; omega, by simp, by simp, ?_⟩
      simp [seg_dropLast, seg_getLast? get _ _ hlt]
    · rename_i hlt
      refine ⟨h, Nat.le_refl _, Nat.le_refl _, ?_⟩
      simp [seg_empty get _ _ (by omega : s.stop ≤ s.start)]
  | nth n =>
    simp only [step, sliceStep]
    split
    · rename_i hlt
      refine ⟨by simp; omega, by simp, by simp, ?_⟩
      rw [seg_drop, seg_drop, seg_head? get _ _ (by omega : s.start + n < s.stop)]
    · rename_i hlt
      refine ⟨by simp, by simp, by simpa using h, ?_⟩
      rw [seg_drop, seg_drop, seg_empty get (s.start + (n + 1)) s.stop (by omega),
        seg_empty get (s.start + n) s.stop (by omega), seg_empty get s.stop s.stop (by omega)]
      rfl
  | nthBack n =>
    simp only [step, sliceStep, seg_take, seg_length]
    split
    · rename_i hlt
      refine ⟨by simp; omega, by simp, by simp, ?_⟩
      have e1 : min s.stop (s.start + (s.stop - s.start - (n + 1))) = s.stop - (n + 1) := by omega
      have e2 : min s.stop (s.start + (s.stop - s.start - n)) = s.stop - n := by omega
      rw [e1, e2, seg_getLast? get _ _ (by omega)]
      have e3 : s.stop - n - 1 = s.stop - (n + 1) := by omega
      simp [e3]
    · rename_i hlt
      refine ⟨by simp, by simpa using h, by simp, ?_⟩
      have e1 : min s.stop (s.start + (s.stop - s.start - (n + 1))) = s.start := by omega
      have e2 : min s.stop (s.start + (s.stop - s.start - n)) = s.start := by omega
      rw [e1, e2]
      simp [seg_empty get s.start s.start (by omega)]
  | sizeHint => simp [step, sliceStep, seg_length, h]
  | count => simp [step, sliceStep, seg_length, h]
  | last =>
    simp only [step, sliceStep]
    refine ⟨h, Nat.le_refl _, Nat.le_refl _, ?_⟩
    split
    · rename_i hlt; simp [seg_getLast? get _ _ hlt]
    · rename_i hlt; simp [seg_empty get _ _ (by omega : s.stop ≤ s.start)]

/-- the same through `Rev` -/
theorem stepRev_refines (get : Nat → Bool) (s : IterSt) (h : s.start ≤ s.stop) (c : IterCall) :
    (stepRev get s c).1.start ≤ (stepRev get s c).1.stop ∧
    (stepRev get s c).1.stop ≤ s.stop ∧ s.start ≤ (stepRev get s c).1.start ∧
    sliceStepRev (seg get s.start s.stop) c
      = (seg get (stepRev get s c).1.start (stepRev get s c).1.stop, (stepRev get s c).2) := by
  cases c with
  | next => exact step_refines get s h .nextBack
  | nextBack => exact step_refines get s h .next
  | nth n => exact step_refines get s h (.nthBack n)
  | nthBack n => exact step_refines get s h (.nth n)
  | sizeHint => exact step_refines get s h .sizeHint
  | count => simp [stepRev, sliceStepRev, seg_length, h]
  | last =>
    simp only [stepRev, sliceStepRev]
    refine ⟨h, Nat.le_refl _, Nat.le_refl _, ?_⟩
    split
    · rename_i hlt; simp [seg_head? get _ _ hlt]
    · rename_i hlt; simp [seg_empty get _ _ (by omega : s.stop ≤ s.start)]

/-- every sequence of calls from a range state returns what the slice iterator returns -/
theorem run_refines (get : Nat → Bool) (rev : Bool) (calls : List IterCall) :
    ∀ s : IterSt, s.start ≤ s.stop →
      run get rev s calls = sliceRun rev (seg get s.start s.stop) calls := by
  induction calls with
  | nil => intro s _; simp [run, sliceRun]
  | cons c cs ih =>
    intro s h
    cases rev with
    | false =>
      obtain ⟨h1, _, _, h4⟩ := step_refines get s h c
      simp only [run, sliceRun, Bool.false_eq_true, if_false, h4]
      rw [ih _ h1]
    | true =>
      obtain ⟨h1, _, _, h4⟩ := stepRev_refines get s h c
      simp only [run, sliceRun, if_true, h4]
      rw [ih _ h1]

end Bva
