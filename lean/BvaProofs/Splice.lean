import BvaProofs.Rechunk
import BvaProofs.Edit
import BvaProofs.Shift
import BvaProofs.Slice
/-!
# T10 — `append` / `prepend` for `Bvf` (byte-granular) and `Bvd` (word-granular)

Both implementations run the same two loops, over `u8` chunks through `get_int`/`set_int` (`Bvf`) or over
whole `u64` words (`Bvd`).  The loops are verified once, over an abstract chunked store (`spl_Sys`), and
instantiated twice.
-/
namespace Bva

-- ---- abstract chunked store and chunked source ------------------------------------------------------
/-- a store of type `σ` read bitwise by `bits`, written `J` bits at a time by `put` (writes beyond bit `L`
are dropped), read `J` bits at a time by `get`; `P` is the invariant under which this holds -/
structure spl_Sys {J : Nat} {σ : Type} (bits : σ → Nat → Bool) (put : σ → Nat → BitVec J → σ)
    (get : σ → Nat → BitVec J) (P : σ → Prop) (L : Nat) : Prop where
  put_P : ∀ a idx v, P a → P (put a idx v)
  put_bits : ∀ a idx v i, P a → bits (put a idx v) i =
    if idx * J ≤ i ∧ i < idx * J + J ∧ i < L then v.getLsbD (i - idx * J) else bits a i
  get_bits : ∀ a idx j, P a → (get a idx).getLsbD j = (decide (j < J) && bits a (idx * J + j))

/-- the operand as a sequence of `J`-bit chunks `g` of the bit function `G`, which vanishes from `xlen` on -/
structure spl_Chunks {J : Nat} (g : Nat → BitVec J) (G : Nat → Bool) (xlen : Nat) : Prop where
  g_bits : ∀ idx j, (g idx).getLsbD j = (decide (j < J) && G (idx * J + j))
  G_zero : ∀ t, xlen ≤ t → G t = false

section Generic
variable {J : Nat} {σ : Type} {bits : σ → Nat → Bool} {put : σ → Nat → BitVec J → σ}
  {get : σ → Nat → BitVec J} {P : σ → Prop} {L : Nat} {g : Nat → BitVec J} {G : Nat → Bool} {xlen : Nat}

/-- the aligned copy loop `for i in 0..n { put(i + slide, g i) }` -/
theorem spl_loopA (sys : spl_Sys bits put get P L) (src : spl_Chunks g G xlen) (slide : Nat) (a0 : σ)
    (h0 : P a0) (n : Nat) :
    P (forRange 0 n (fun i a => put a (i + slide) (g i)) a0) ∧
    ∀ i, bits (forRange 0 n (fun i a => put a (i + slide) (g i)) a0) i =
      if slide * J ≤ i ∧ i < slide * J + n * J ∧ i < L then G (i - slide * J) else bits a0 i := by
  induction n with
  | zero =>
    refine ⟨h0, fun i => ?_⟩
    have c : ¬ (slide * J ≤ i ∧ i < slide * J + 0 * J ∧ i < L) := by omega
    rw [if_neg c]; rfl
  | succ n ih =>
    rw [forRange_zero_succ]
    refine ⟨sys.put_P _ _ _ ih.1, fun i => ?_⟩
    rw [sys.put_bits _ _ _ _ ih.1, ih.2]
    have e1 : (n + slide) * J = n * J + slide * J := Nat.add_mul _ _ _
    have e2 : (n + 1) * J = n * J + J := Nat.succ_mul _ _
    rw [e1, e2]
    by_cases c : n * J + slide * J ≤ i ∧ i < n * J + slide * J + J ∧ i < L
    · have c' : slide * J ≤ i ∧ i < slide * J + (n * J + J) ∧ i < L := by omega
      rw [if_pos c, if_pos c', src.g_bits]
      have c1 : i - (n * J + slide * J) < J := by omega
      have c2 : n * J + (i - (n * J + slide * J)) = i - slide * J := by omega
      rw [c2, decide_eq_true c1, Bool.true_and]
    · rw [if_neg c]
      by_cases c3 : slide * J ≤ i ∧ i < slide * J + n * J ∧ i < L
      · have c' : slide * J ≤ i ∧ i < slide * J + (n * J + J) ∧ i < L := by omega
        rw [if_pos c3, if_pos c']
      · have c' : ¬ (slide * J ≤ i ∧ i < slide * J + (n * J + J) ∧ i < L) := by omega
        rw [if_neg c3, if_neg c']

/-- the re-aligned chunk `(g k >> (J - offset)) | (g (k+1) << offset)` holds bits `(k+1)·J - offset …` -/
theorem spl_mix (src : spl_Chunks g G xlen) (offset k j : Nat) (ho : 0 < offset) (hoJ : offset < J) :
    ((g k >>> (J - offset)) ||| (g (k + 1) <<< offset)).getLsbD j =
      (decide (j < J) && G ((k + 1) * J + j - offset)) := by
  have e2 : (k + 1) * J = k * J + J := Nat.succ_mul _ _
  simp only [BitVec.getLsbD_or, BitVec.getLsbD_ushiftRight, BitVec.getLsbD_shiftLeft, src.g_bits]
  by_cases hj : j < J
  · by_cases hlo : j < offset
    · have c1 : J - offset + j < J := by omega
      have c2 : k * J + (J - offset + j) = (k + 1) * J + j - offset := by omega
      simp [hj, hlo, c1, c2]
    · have c1 : ¬ (J - offset + j < J) := by omega
      have c2 : (k + 1) * J + (j - offset) = (k + 1) * J + j - offset := by omega
      have c3 : j - offset < J := by omega
      simp [hj, hlo, c1, c2, c3]
  · have c1 : ¬ (J - offset + j < J) := by omega
    simp [hj, c1]

/-- the unaligned copy loop `for i in 1..n { put(i + slide, (prev >> rev) | (g i << offset)); prev = g i }` -/
theorem spl_loopB (sys : spl_Sys bits put get P L) (src : spl_Chunks g G xlen) (slide offset : Nat)
    (ho : 0 < offset) (hoJ : offset < J) (a0 : σ) (h0 : P a0) (m : Nat) :
    let r := (List.range' 1 m).foldl (fun (p : σ × BitVec J) i =>
        (put p.1 (i + slide) ((p.2 >>> (J - offset)) ||| (g i <<< offset)), g i)) (a0, g 0)
    r.2 = g m ∧ P r.1 ∧
    ∀ i, bits r.1 i =
      if slide * J + J ≤ i ∧ i < slide * J + J + m * J ∧ i < L then G (i - slide * J - offset)
      else bits a0 i := by
  induction m with
  | zero =>
    refine ⟨rfl, h0, fun i => ?_⟩
    have c : ¬ (slide * J + J ≤ i ∧ i < slide * J + J + 0 * J ∧ i < L) := by omega
    rw [if_neg c]; rfl
  | succ m ih =>
    intro r
    have hr : r = (put ((List.range' 1 m).foldl (fun (p : σ × BitVec J) i =>
        (put p.1 (i + slide) ((p.2 >>> (J - offset)) ||| (g i <<< offset)), g i)) (a0, g 0)).1
          (1 + m + slide) ((((List.range' 1 m).foldl (fun (p : σ × BitVec J) i =>
        (put p.1 (i + slide) ((p.2 >>> (J - offset)) ||| (g i <<< offset)), g i)) (a0, g 0)).2
          >>> (J - offset)) ||| (g (1 + m) <<< offset)), g (1 + m)) := by
      simp only [r]
      rw [List.range'_concat, List.foldl_append]
      simp
    rw [hr]
    simp only at ih
    obtain ⟨ih1, ih2, ih3⟩ := ih
    refine ⟨congrArg g (Nat.add_comm 1 m), sys.put_P _ _ _ ih2, fun i => ?_⟩
    simp only
    rw [sys.put_bits _ _ _ _ ih2, ih3, ih1, Nat.add_comm 1 m, spl_mix src offset m _ ho hoJ]
    have e1 : (m + 1 + slide) * J = m * J + J + slide * J := by rw [Nat.add_mul, Nat.succ_mul]
    have e2 : (m + 1) * J = m * J + J := Nat.succ_mul _ _
    rw [e1, e2]
    by_cases c : m * J + J + slide * J ≤ i ∧ i < m * J + J + slide * J + J ∧ i < L
    · have c' : slide * J + J ≤ i ∧ i < slide * J + J + (m * J + J) ∧ i < L := by omega
      rw [if_pos c, if_pos c']
      have c1 : i - (m * J + J + slide * J) < J := by omega
      have c2 : m * J + J + (i - (m * J + J + slide * J)) - offset = i - slide * J - offset := by omega
      rw [c2, decide_eq_true c1, Bool.true_and]
    · rw [if_neg c]
      by_cases c3 : slide * J + J ≤ i ∧ i < slide * J + J + m * J ∧ i < L
      · have c' : slide * J + J ≤ i ∧ i < slide * J + J + (m * J + J) ∧ i < L := by omega
        rw [if_pos c3, if_pos c']
      · have c' : ¬ (slide * J + J ≤ i ∧ i < slide * J + J + (m * J + J) ∧ i < L) := by omega
        rw [if_neg c3, if_neg c']

/-- first step of the unaligned path: `put(slide, get(slide) | (g 0 << offset))` -/
theorem spl_first (sys : spl_Sys bits put get P L) (src : spl_Chunks g G xlen) (slide offset : Nat)
    (a1 : σ) (h1 : P a1) (i : Nat) :
    bits (put a1 slide (get a1 slide ||| (g 0 <<< offset))) i =
      if slide * J ≤ i ∧ i < slide * J + J ∧ i < L then
        (bits a1 i || (decide (slide * J + offset ≤ i) && G (i - (slide * J + offset))))
      else bits a1 i := by
  rw [sys.put_bits _ _ _ _ h1]
  by_cases c : slide * J ≤ i ∧ i < slide * J + J ∧ i < L
  · rw [if_pos c, if_pos c, BitVec.getLsbD_or, sys.get_bits _ _ _ h1, BitVec.getLsbD_shiftLeft, src.g_bits]
    have c1 : i - slide * J < J := by omega
    have c2 : slide * J + (i - slide * J) = i := by omega
    rw [c2, decide_eq_true c1, Bool.true_and, Bool.true_and, Nat.zero_mul, Nat.zero_add]
    by_cases c3 : slide * J + offset ≤ i
    · have c4 : ¬ (i - slide * J < offset) := by omega
      have c5 : i - slide * J - offset < J := by omega
      have c6 : i - slide * J - offset = i - (slide * J + offset) := by omega
      rw [c6] at c5
      simp [c3, c4, c5, c6]
    · have c4 : i - slide * J < offset := by omega
      simp [c3, c4]
  · rw [if_neg c, if_neg c]

/-- last step of the unaligned path: `put(n + slide, g (n-1) >> (J - offset))` with `n = m + 1` -/
theorem spl_last (sys : spl_Sys bits put get P L) (src : spl_Chunks g G xlen) (slide offset m : Nat)
    (hoJ : offset < J) (a : σ) (h : P a) (i : Nat) :
    bits (put a (m + 1 + slide) (g m >>> (J - offset))) i =
      if slide * J + J + m * J ≤ i ∧ i < slide * J + J + m * J + J ∧ i < L then
        (decide (i < slide * J + J + m * J + offset) && G (i - slide * J - offset))
      else bits a i := by
  rw [sys.put_bits _ _ _ _ h]
  have e1 : (m + 1 + slide) * J = slide * J + J + m * J := by
    rw [Nat.add_mul, Nat.succ_mul]; omega
  rw [e1]
  by_cases c : slide * J + J + m * J ≤ i ∧ i < slide * J + J + m * J + J ∧ i < L
  · rw [if_pos c, if_pos c, BitVec.getLsbD_ushiftRight, src.g_bits]
    by_cases c3 : i < slide * J + J + m * J + offset
    · have c4 : J - offset + (i - (slide * J + J + m * J)) < J := by omega
      have c5 : m * J + (J - offset + (i - (slide * J + J + m * J))) = i - slide * J - offset := by omega
      simp [c3, c4, c5]
    · have c4 : ¬ (J - offset + (i - (slide * J + J + m * J)) < J) := by omega
      simp [c3, c4]
  · rw [if_neg c, if_neg c]

/-- the body shared by `Bvf::append` and `Bvd::append`, over an abstract chunked store -/
def spl_appendG (put : σ → Nat → BitVec J → σ) (get : σ → Nat → BitVec J) (g : Nat → BitVec J)
    (g0 : Option (BitVec J)) (offset slide n : Nat) (a1 : σ) : σ :=
  if offset = 0 then forRange 0 n (fun i a => put a (i + slide) (g i)) a1
  else
    match g0 with
    | some b0 =>
      let r := forRange 1 n (fun i (p : σ × BitVec J) =>
          (put p.1 (i + slide) ((p.2 >>> (J - offset)) ||| (g i <<< offset)), g i))
          (put a1 slide (get a1 slide ||| (b0 <<< offset)), b0)
      put r.1 (max n 1 + slide) (r.2 >>> (J - offset))
    | none => a1

theorem spl_append_core (sys : spl_Sys bits put get P L) (src : spl_Chunks g G xlen)
    (g0 : Option (BitVec J)) (offset slide n : Nat) (a1 : σ) (h1 : P a1) (hoJ : offset < J)
    (hz : ∀ i, slide * J + offset ≤ i → bits a1 i = false)
    (hL : slide * J + offset + xlen ≤ L) (hn : xlen ≤ n * J)
    (hnone : g0 = none → xlen = 0) (hsome : ∀ b, g0 = some b → b = g 0 ∧ 1 ≤ n) :
    P (spl_appendG put get g g0 offset slide n a1) ∧
    ∀ i, bits (spl_appendG put get g g0 offset slide n a1) i =
      if i < slide * J + offset then bits a1 i else G (i - (slide * J + offset)) := by
  unfold spl_appendG
  by_cases ho : offset = 0
  · rw [if_pos ho]
    obtain ⟨hP, hb⟩ := spl_loopA sys src slide a1 h1 n
    refine ⟨hP, fun i => ?_⟩
    rw [hb]
    subst ho
    by_cases c : slide * J ≤ i ∧ i < slide * J + n * J ∧ i < L
    · have c' : ¬ (i < slide * J + 0) := by omega
      rw [if_pos c, if_neg c', Nat.add_zero]
    · rw [if_neg c]
      by_cases c' : i < slide * J + 0
      · rw [if_pos c']
      · rw [if_neg c', hz i (by omega), src.G_zero _ (by omega)]
  · rw [if_neg ho]
    cases g0 with
    | none =>
      have hx := hnone rfl
      refine ⟨h1, fun i => ?_⟩
      by_cases c' : i < slide * J + offset
      · rw [if_pos c']
      · rw [if_neg c', hz i (by omega), src.G_zero _ (by omega)]
    | some b0 =>
      obtain ⟨hb0, hn1⟩ := hsome b0 rfl
      subst hb0
      obtain ⟨m, rfl⟩ : ∃ m, n = m + 1 := ⟨n - 1, by omega⟩
      have hmax : max (m + 1) 1 = m + 1 := by omega
      simp only [hmax]
      unfold forRange
      rw [Nat.add_sub_cancel]
      have h2 : P (put a1 slide (get a1 slide ||| (g 0 <<< offset))) := sys.put_P _ _ _ h1
      obtain ⟨hB1, hB2, hB3⟩ := spl_loopB sys src slide offset (by omega) hoJ _ h2 m
      refine ⟨sys.put_P _ _ _ hB2, fun i => ?_⟩
      rw [hB1, spl_last sys src slide offset m hoJ _ hB2, hB3, spl_first sys src slide offset a1 h1]
      have e2 : (m + 1) * J = m * J + J := Nat.succ_mul _ _
      rw [e2] at hn
      by_cases cd : slide * J + J + m * J ≤ i ∧ i < slide * J + J + m * J + J ∧ i < L
      · rw [if_pos cd, if_neg (by omega)]
        by_cases c3 : i < slide * J + J + m * J + offset
        · have : i - slide * J - offset = i - (slide * J + offset) := by omega
          simp [c3, this]
        · rw [src.G_zero (i - (slide * J + offset)) (by omega)]
          simp [c3]
      · rw [if_neg cd]
        by_cases cc : slide * J + J ≤ i ∧ i < slide * J + J + m * J ∧ i < L
        · have : i - slide * J - offset = i - (slide * J + offset) := by omega
          rw [if_pos cc, if_neg (by omega), this]
        · rw [if_neg cc]
          by_cases cb : slide * J ≤ i ∧ i < slide * J + J ∧ i < L
          · rw [if_pos cb]
            by_cases c3 : slide * J + offset ≤ i
            · rw [if_neg (by omega), hz i c3]
              simp [c3]
            · rw [if_pos (by omega)]
              simp [c3]
          · rw [if_neg cb]
            by_cases c' : i < slide * J + offset
            · rw [if_pos c']
            · rw [if_neg c', hz i (by omega), src.G_zero _ (by omega)]

/-- the body shared by `Bvf::prepend` and `Bvd::prepend` after the shift, over an abstract chunked store -/
def spl_prependG (put : σ → Nat → BitVec J → σ) (get : σ → Nat → BitVec J) (g : Nat → BitVec J)
    (last : Nat) (a2 : σ) : σ :=
  put (forRange 0 last (fun i a => put a i (g i)) a2) last
    (get (forRange 0 last (fun i a => put a i (g i)) a2) last ||| g last)

theorem spl_prepend_core (sys : spl_Sys bits put get P L) (src : spl_Chunks g G xlen)
    (last : Nat) (a2 : σ) (h2 : P a2) (hlo : last * J ≤ xlen) (hhi : xlen ≤ last * J + J) (hL : xlen ≤ L)
    (hz : ∀ i, i < xlen → bits a2 i = false) :
    P (spl_prependG put get g last a2) ∧
    ∀ i, bits (spl_prependG put get g last a2) i = if i < xlen then G i else bits a2 i := by
  unfold spl_prependG
  have hA := spl_loopA sys src 0 a2 h2 last
  simp only [Nat.add_zero, Nat.zero_mul, Nat.zero_add, Nat.sub_zero] at hA
  obtain ⟨hP, hb⟩ := hA
  refine ⟨sys.put_P _ _ _ hP, fun i => ?_⟩
  rw [sys.put_bits _ _ _ _ hP]
  by_cases c : last * J ≤ i ∧ i < last * J + J ∧ i < L
  · have c1 : i - last * J < J := by omega
    have c2 : last * J + (i - last * J) = i := by omega
    have c3 : ¬ (0 ≤ i ∧ i < last * J ∧ i < L) := by omega
    rw [if_pos c, BitVec.getLsbD_or, sys.get_bits _ _ _ hP, src.g_bits, c2, hb, if_neg c3,
      decide_eq_true c1, Bool.true_and, Bool.true_and]
    by_cases c4 : i < xlen
    · rw [if_pos c4, hz i c4, Bool.false_or]
    · rw [if_neg c4, src.G_zero i (by omega), Bool.or_false]
  · rw [if_neg c, hb]
    by_cases c3 : 0 ≤ i ∧ i < last * J ∧ i < L
    · rw [if_pos c3, if_pos (by omega)]
    · rw [if_neg c3, if_neg (by omega)]

end Generic

-- ---- the operand ------------------------------------------------------------------------------------
/-- what `append`/`prepend` need of the operand `x`, read in `J`-bit chunks.  Holds whenever the operand
satisfies its storage invariant and its word width is compatible with `J` (`spl_Src.of_f`, `spl_Src.of_d`). -/
structure spl_Src (x : AnyBv) (J : Nat) : Prop where
  bits : ∀ idx j, ((x.getInt J idx).getD 0#J).getLsbD j = (decide (j < J) && x.abs.bit (idx * J + j))
  wf : x.abs.WF
  none0 : x.getInt J 0 = none → x.len = 0

theorem spl_src_raw {w J : Nat} (b : Raw w) (hc : Compat w J) (h : b.Inv) :
    (∀ idx j, ((b.getInt J idx).getD 0#J).getLsbD j = (decide (j < J) && b.abs.bit (idx * J + j))) ∧
    b.abs.WF ∧ (b.getInt J 0 = none → b.length = 0) := by
  refine ⟨fun idx j => ?_, Raw.Inv.wf h hc.1, fun hn => ?_⟩
  · rw [Raw.getInt_getLsbD b hc h, Raw.abs_bit _ _ hc.1]
  · have := Raw.getInt_isSome b hc h 0
    rw [hn, Nat.zero_mul] at this
    simp at this
    exact this

theorem spl_Src.of_f {w J : Nat} (b : Raw w) (hc : Compat w J) (h : b.Inv) : spl_Src (.f w b) J := by
  obtain ⟨h1, h2, h3⟩ := spl_src_raw b hc h
  exact ⟨h1, h2, h3⟩

theorem spl_Src.of_d {J : Nat} (b : Raw 64) (hc : Compat 64 J) (h : b.Inv) : spl_Src (.d b) J := by
  obtain ⟨h1, h2, h3⟩ := spl_src_raw b hc h
  exact ⟨h1, h2, h3⟩

theorem spl_abs_len (x : AnyBv) : x.abs.len = x.len := by cases x <;> rfl

theorem spl_wf_zero (a : BV) (h : a.WF) (t : Nat) (ht : a.len ≤ t) : a.bit t = false := by
  unfold BV.bit
  apply Nat.testBit_lt_two_pow
  exact Nat.lt_of_lt_of_le h (Nat.pow_le_pow_right (by decide) ht)

theorem spl_Src.chunks {x : AnyBv} {J : Nat} (hx : spl_Src x J) :
    spl_Chunks (fun i => (x.getInt J i).getD 0#J) x.abs.bit x.len :=
  ⟨hx.bits, fun t ht => spl_wf_zero _ hx.wf t (by rw [spl_abs_len]; exact ht)⟩

-- ---- the two stores ---------------------------------------------------------------------------------
/-- `Bvf`: bytes through `get_int::<u8>` / `set_int::<u8>`; the invariant fixes the length -/
theorem spl_sysF {w : Nat} (hc : Compat w 8) (L : Nat) :
    spl_Sys (J := 8) (fun (a : Raw w) i => bitAt a.data i) (fun a idx v => a.setInt 8 idx v)
      (fun a idx => (a.getInt 8 idx).getD 0#8) (fun a => a.Inv ∧ a.length = L) L := by
  refine ⟨fun a idx v h => ⟨Raw.setInt_inv a hc h.1 idx v, ?_⟩, fun a idx v i h => ?_, fun a idx j h => ?_⟩
  · rw [Raw.setInt_length]; exact h.2
  · rw [Raw.setInt_bits a hc h.1, h.2]
    have e : (idx + 1) * 8 = idx * 8 + 8 := by omega
    rw [e]
  · exact Raw.getInt_getLsbD a hc h.1 idx j

/-- `Bvd`: whole words; the invariant fixes the allocation size -/
theorem spl_sysD (N : Nat) :
    spl_Sys (J := 64) (fun (a : Array (BitVec 64)) i => bitAt a i) (fun a idx v => a.setIfInBounds idx v)
      (fun a idx => wd a idx) (fun a => a.size = N) (N * 64) := by
  refine ⟨fun a idx v h => ?_, fun a idx v i h => ?_, fun a idx j h => ?_⟩
  · simp [h]
  · rw [rc_bitAt_setIfInBounds, h]
    by_cases c : i / 64 = idx ∧ idx < N
    · have c' : idx * 64 ≤ i ∧ i < idx * 64 + 64 ∧ i < N * 64 := by omega
      have e : i % 64 = i - idx * 64 := by omega
      rw [if_pos c, if_pos c', e]
    · have c' : ¬ (idx * 64 ≤ i ∧ i < idx * 64 + 64 ∧ i < N * 64) := by omega
      rw [if_neg c, if_neg c']
  · by_cases hj : j < 64
    · rw [getLsbD_wd a (by decide) idx j hj, Nat.mul_comm, decide_eq_true hj, Bool.true_and]
    · rw [BitVec.getLsbD_of_ge _ _ (by omega), decide_eq_false hj, Bool.false_and]

-- ---- finishing lemmas: from the bit-level characterisation to `Inv` and `abs` ------------------------
theorem spl_resize_bit (a : BV) (ha : a.WF) (m : Nat) (hm : a.len ≤ m) (i : Nat) :
    (a.resize m false).bit i = a.bit i := by
  unfold BV.resize BV.bit
  split
  · have e : m = a.len := by omega
    subst e
    simp only
    rw [Nat.mod_eq_of_lt ha]
  · simp

theorem spl_getInt_none (x : AnyBv) (J : Nat) (h : x.len = 0) : x.getInt J 0 = none := by
  cases x <;> simp_all [AnyBv.getInt, Raw.getInt, AnyBv.len]

theorem spl_finish_append {w : Nat} (hw : 0 < w) (s r : Raw w) (x : AnyBv) (h : s.Inv) (hxwf : x.abs.WF)
    (hlen : r.length = s.length + x.len) (hcap : r.length ≤ r.data.size * w)
    (hb : ∀ i, bitAt r.data i = if i < s.length then bitAt s.data i else x.abs.bit (i - s.length)) :
    r.Inv ∧ r.abs = s.abs.append x.abs := by
  refine ⟨⟨hcap, fun i hi => ?_⟩, ?_⟩
  · rw [hb, if_neg (by omega)]
    exact spl_wf_zero _ hxwf _ (by rw [spl_abs_len]; omega)
  · apply BV.ext_bits
    · show r.length = s.length + x.abs.len
      rw [spl_abs_len, hlen]
    · intro i
      rw [Raw.abs_bit _ _ hw, hb, BV.append_bit _ _ (Raw.Inv.wf h hw), Raw.abs_bit _ _ hw]
      rfl

theorem spl_finish_prepend {w : Nat} (hw : 0 < w) (s r : Raw w) (x : AnyBv) (hxwf : x.abs.WF)
    (hlen : r.length = s.length + x.len) (hcap : r.length ≤ r.data.size * w) (h : s.Inv)
    (hb : ∀ i, bitAt r.data i = if i < x.len then x.abs.bit i else bitAt s.data (i - x.len)) :
    r.Inv ∧ r.abs = s.abs.prepend x.abs := by
  refine ⟨⟨hcap, fun i hi => ?_⟩, ?_⟩
  · rw [hb, if_neg (by omega)]
    exact h.2 _ (by omega)
  · apply BV.ext_bits
    · show r.length = s.length + x.abs.len
      rw [spl_abs_len, hlen]
    · intro i
      rw [Raw.abs_bit _ _ hw, hb]
      show _ = (BV.append x.abs s.abs).bit i
      rw [BV.append_bit _ _ hxwf, Raw.abs_bit _ _ hw, spl_abs_len]

end Bva
