import BvaProofs.Rechunk
import BvaProofs.Edit
import BvaProofs.Shift
import BvaProofs.Slice
/-!
# T10 — `append` / `prepend` for `Bvf` (byte-granular) and `Bvd` (word-granular)

Both implementations run the same two loops, over `u8` chunks through `get_int`/`set_int` (`Bvf`) or over
whole `u64` words (`Bvd`).  The loops are verified once, over an abstract chunked store (`spl_Sys`), and
instantiated twice.
-/
namespace Bva

-- ---- abstract chunked store and chunked source ------------------------------------------------------
/-- a store of type `σ` read bitwise by `bits`, written `J` bits at a time by `put` (writes beyond bit `L`
are dropped), read `J` bits at a time by `get`; `P` is the invariant under which this holds -/
structure spl_Sys {J : Nat} {σ : Type} (bits : σ → Nat → Bool) (put : σ → Nat → BitVec J → σ)
    (get : σ → Nat → BitVec J) (P : σ → Prop) (L : Nat) : Prop where
  put_P : ∀ a idx v, P a → P (put a idx v)
  put_bits : ∀ a idx v i, P a → bits (put a idx v) i =
    if idx * J ≤ i ∧ i < idx * J + J ∧ i < L then v.getLsbD (i - idx * J) else bits a i
  get_bits : ∀ a idx j, P a → (get a idx).getLsbD j = (decide (j < J) && bits a (idx * J + j))

/-- the operand as a sequence of `J`-bit chunks `g` of the bit function `G`, which vanishes from `xlen` on -/
structure spl_Chunks {J : Nat} (g : Nat → BitVec J) (G : Nat → Bool) (xlen : Nat) : Prop where
  g_bits : ∀ idx j, (g idx).getLsbD j = (decide (j < J) && G (idx * J + j))
  G_zero : ∀ t, xlen ≤ t → G t = false

section Generic
variable {J : Nat} {σ : Type} {bits : σ → Nat → Bool} {put : σ → Nat → BitVec J → σ}
  {get : σ → Nat → BitVec J} {P : σ → Prop} {L : Nat} {g : Nat → BitVec J} {G : Nat → Bool} {xlen : Nat}

/-- the aligned copy loop `for i in 0..n { put(i + slide, g i) }` -/
theorem spl_loopA (sys : spl_Sys bits put get P L) (src : spl_Chunks g G xlen) (slide : Nat) (a0 : σ)
    (h0 : P a0) (n : Nat) :
    P (forRange 0 n (fun i a => put a (i + slide) (g i)) a0) ∧
    ∀ i, bits (forRange 0 n (fun i a => put a (i + slide) (g i)) a0) i =
      if slide * J ≤ i ∧ i < slide * J + n * J ∧ i < L then G (i - slide * J) else bits a0 i := by
  induction n with
  | zero =>
    refine ⟨h0, fun i => ?_⟩
    have c : ¬ (slide * J ≤ i ∧ i < slide * J + 0 * J ∧ i < L) := by omega
    rw [if_neg c]; rfl
  | succ n ih =>
    rw [forRange_zero_succ]
    refine ⟨sys.put_P _ _ _ ih.1, fun i => ?_⟩
    rw [sys.put_bits _ _ _ _ ih.1, ih.2]
    have e1 : (n + slide) * J = n * J + slide * J := Nat.add_mul _ _ _
    have e2 : (n + 1) * J = n * J + J := Nat.succ_mul _ _
    rw [e1, e2]
    by_cases c : n * J + slide * J ≤ i ∧ i < n * J + slide * J + J ∧ i < L
    · have c' : slide * J ≤ i ∧ i < slide * J + (n * J + J) ∧ i < L := by omega
      rw [if_pos c, if_pos c', src.g_bits]
      have c1 : i - (n * J + slide * J) < J := by omega
      have c2 : n * J + (i - (n * J + slide * J)) = i - slide * J := by omega
      rw [c2, decide_eq_true c1, Bool.true_and]
    · rw [if_neg c]
      by_cases c3 : slide * J ≤ i ∧ i < slide * J + n * J ∧ i < L
      · have c' : slide * J ≤ i ∧ i < slide * J + (n * J + J) ∧ i < L := by omega
        rw [if_pos c3, if_pos c']
      · have c' : ¬ (slide * J ≤ i ∧ i < slide * J + (n * J + J) ∧ i < L) := by omega
        rw [if_neg c3, if_neg c']

/-- the re-aligned chunk `(g k >> (J - offset)) | (g (k+1) << offset)` holds bits `(k+1)·J - offset …` -/
theorem spl_mix (src : spl_Chunks g G xlen) (offset k j : Nat) (ho : 0 < offset) (hoJ : offset < J) :
    ((g k >>> (J - offset)) ||| (g (k + 1) <<< offset)).getLsbD j =
      (decide (j < J) && G ((k + 1) * J + j - offset)) := by
  have e2 : (k + 1) * J = k * J + J := Nat.succ_mul _ _
  simp only [BitVec.getLsbD_or, BitVec.getLsbD_ushiftRight, BitVec.getLsbD_shiftLeft, src.g_bits]
  by_cases hj : j < J
  · by_cases hlo : j < offset
    · have c1 : J - offset + j < J := by omega
      have c2 : k * J + (J - offset + j) = (k + 1) * J + j - offset := by omega
      simp [hj, hlo, c1, c2]
    · have c1 : ¬ (J - offset + j < J) := by omega
      have c2 : (k + 1) * J + (j - offset) = (k + 1) * J + j - offset := by omega
      have c3 : j - offset < J := by omega
      simp [hj, hlo, c1, c2, c3]
  · have c1 : ¬ (J - offset + j < J) := by omega
    simp [hj, c1]

/-- the unaligned copy loop `for i in 1..n { put(i + slide, (prev >> rev) | (g i << offset)); prev = g i }` -/
theorem spl_loopB (sys : spl_Sys bits put get P L) (src : spl_Chunks g G xlen) (slide offset : Nat)
    (ho : 0 < offset) (hoJ : offset < J) (a0 : σ) (h0 : P a0) (m : Nat) :
    let r := (List.range' 1 m).foldl (fun (p : σ × BitVec J) i =>
        (put p.1 (i + slide) ((p.2 >>> (J - offset)) ||| (g i <<< offset)), g i)) (a0, g 0)
    r.2 = g m ∧ P r.1 ∧
    ∀ i, bits r.1 i =
      if slide * J + J ≤ i ∧ i < slide * J + J + m * J ∧ i < L then G (i - slide * J - offset)
      else bits a0 i := by
  induction m with
  | zero =>
    refine ⟨rfl, h0, fun i => ?_⟩
    have c : ¬ (slide * J + J ≤ i ∧ i < slide * J + J + 0 * J ∧ i < L) := by omega
    rw [if_neg c]; rfl
  | succ m ih =>
    intro r
    have hr : r = (put ((List.range' 1 m).foldl (fun (p : σ × BitVec J) i =>
        (put p.1 (i + slide) ((p.2 >>> (J - offset)) ||| (g i <<< offset)), g i)) (a0, g 0)).1
          (1 + m + slide) ((((List.range' 1 m).foldl (fun (p : σ × BitVec J) i =>
        (put p.1 (i + slide) ((p.2 >>> (J - offset)) ||| (g i <<< offset)), g i)) (a0, g 0)).2
          >>> (J - offset)) ||| (g (1 + m) <<< offset)), g (1 + m)) := by
      simp only [r]
      rw [List.range'_concat, List.foldl_append]
      simp
    rw [hr]
    simp only at ih
    obtain ⟨ih1, ih2, ih3⟩ := ih
    refine ⟨congrArg g (Nat.add_comm 1 m), sys.put_P _ _ _ ih2, fun i => ?_⟩
    simp only
    rw [sys.put_bits _ _ _ _ ih2, ih3, ih1, Nat.add_comm 1 m, spl_mix src offset m _ ho hoJ]
    have e1 : (m + 1 + slide) * J = m * J + J + slide * J := by rw [Nat.add_mul, Nat.succ_mul]
    have e2 : (m + 1) * J = m * J + J := Nat.succ_mul _ _
    rw [e1, e2]
    by_cases c : m * J + J + slide * J ≤ i ∧ i < m * J + J + slide * J + J ∧ i < L
    · have c' : slide * J + J ≤ i ∧ i < slide * J + J + (m * J + J) ∧ i < L := by omega
      rw [if_pos c, if_pos c']
      have c1 : i - (m * J + J + slide * J) < J := by omega
      have c2 : m * J + J + (i - (m * J + J + slide * J)) - offset = i - slide * J - offset := by omega
      rw [c2, decide_eq_true c1, Bool.true_and]
    · rw [if_neg c]
      by_cases c3 : slide * J + J ≤ i ∧ i < slide * J + J + m * J ∧ i < L
      · have c' : slide * J + J ≤ i ∧ i < slide * J + J + (m * J + J) ∧ i < L := by omega
        rw [if_pos c3, if_pos c']
      · have c' : ¬ (slide * J + J ≤ i ∧ i < slide * J + J + (m * J + J) ∧ i < L) := by omega
        rw [if_neg c3, if_neg c']

/-- first step of the unaligned path: `put(slide, get(slide) | (g 0 << offset))` -/
theorem spl_first (sys : spl_Sys bits put get P L) (src : spl_Chunks g G xlen) (slide offset : Nat)
    (a1 : σ) (h1 : P a1) (i : Nat) :
    bits (put a1 slide (get a1 slide ||| (g 0 <<< offset))) i =
      if slide * J ≤ i ∧ i < slide * J + J ∧ i < L then
        (bits a1 i || (decide (slide * J + offset ≤ i) && G (i - (slide * J + offset))))
      else bits a1 i := by
  rw [sys.put_bits _ _ _ _ h1]
  by_cases c : slide * J ≤ i ∧ i < slide * J + J ∧ i < L
  · rw [if_pos c, if_pos c, BitVec.getLsbD_or, sys.get_bits _ _ _ h1, BitVec.getLsbD_shiftLeft, src.g_bits]
    have c1 : i - slide * J < J := by omega
    have c2 : slide * J + (i - slide * J) = i := by omega
    rw [c2, decide_eq_true c1, Bool.true_and, Bool.true_and, Nat.zero_mul, Nat.zero_add]
    by_cases c3 : slide * J + offset ≤ i
    · have c4 : ¬ (i - slide * J < offset) := by omega
      have c5 : i - slide * J - offset < J := by omega
      have c6 : i - slide * J - offset = i - (slide * J + offset) := by omega
      rw [c6] at c5
      simp [c3, c4, c5, c6]
    · have c4 : i - slide * J < offset := by omega
      simp [c3, c4]
  · rw [if_neg c, if_neg c]

/-- last step of the unaligned path: `put(n + slide, g (n-1) >> (J - offset))` with `n = m + 1` -/
theorem spl_last (sys : spl_Sys bits put get P L) (src : spl_Chunks g G xlen) (slide offset m : Nat)
    (hoJ : offset < J) (a : σ) (h : P a) (i : Nat) :
    bits (put a (m + 1 + slide) (g m >>> (J - offset))) i =
      if slide * J + J + m * J ≤ i ∧ i < slide * J + J + m * J + J ∧ i < L then
        (decide (i < slide * J + J + m * J + offset) && G (i - slide * J - offset))
      else bits a i := by
  rw [sys.put_bits _ _ _ _ h]
  have e1 : (m + 1 + slide) * J = slide * J + J + m * J := by
    rw [Nat.add_mul, Nat.succ_mul]; omega
  rw [e1]
  by_cases c : slide * J + J + m * J ≤ i ∧ i < slide * J + J + m * J + J ∧ i < L
  · rw [if_pos c, if_pos c, BitVec.getLsbD_ushiftRight, src.g_bits]
    by_cases c3 : i < slide * J + J + m * J + offset
    · have c4 : J - offset + (i - (slide * J + J + m * J)) < J := by omega
      have c5 : m * J + (J - offset + (i - (slide * J + J + m * J))) = i - slide * J - offset := by omega
      simp [c3, c4, c5]
    · have c4 : ¬ (J - offset + (i - (slide * J + J + m * J)) < J) := by omega
      simp [c3, c4]
  · rw [if_neg c, if_neg c]

/-- the body shared by `Bvf::append` and `Bvd::append`, over an abstract chunked store -/
def spl_appendG (put : σ → Nat → BitVec J → σ) (get : σ → Nat → BitVec J) (g : Nat → BitVec J)
    (g0 : Option (BitVec J)) (offset slide n : Nat) (a1 : σ) : σ :=
  if offset = 0 then forRange 0 n (fun i a => put a (i + slide) (g i)) a1
  else
    match g0 with
    | some b0 =>
      let r := forRange 1 n (fun i (p : σ × BitVec J) =>
          (put p.1 (i + slide) ((p.2 >>> (J - offset)) ||| (g i <<< offset)), g i))
          (put a1 slide (get a1 slide ||| (b0 <<< offset)), b0)
      put r.1 (max n 1 + slide) (r.2 >>> (J - offset))
    | none => a1

theorem spl_append_core (sys : spl_Sys bits put get P L) (src : spl_Chunks g G xlen)
    (g0 : Option (BitVec J)) (offset slide n : Nat) (a1 : σ) (h1 : P a1) (hoJ : offset < J)
    (hz : ∀ i, slide * J + offset ≤ i → bits a1 i = false)
    (hL : slide * J + offset + xlen ≤ L) (hn : xlen ≤ n * J)
    (hnone : g0 = none → xlen = 0) (hsome : ∀ b, g0 = some b → b = g 0 ∧ 1 ≤ n) :
    P (spl_appendG put get g g0 offset slide n a1) ∧
    ∀ i, bits (spl_appendG put get g g0 offset slide n a1) i =
      if i < slide * J + offset then bits a1 i else G (i - (slide * J + offset)) := by
  unfold spl_appendG
  by_cases ho : offset = 0
  · rw [if_pos ho]
    obtain ⟨hP, hb⟩ := spl_loopA sys src slide a1 h1 n
    refine ⟨hP, fun i => ?_⟩
    rw [hb]
    subst ho
    by_cases c : slide * J ≤ i ∧ i < slide * J + n * J ∧ i < L
    · have c' : ¬ (i < slide * J + 0) := by omega
      rw [if_pos c, if_neg c', Nat.add_zero]
    · rw [if_neg c]
      by_cases c' : i < slide * J + 0
      · rw [if_pos c']
      · rw [if_neg c', hz i (by omega), src.G_zero _ (by omega)]
  · rw [if_neg ho]
    cases g0 with
    | none =>
      have hx := hnone rfl
      refine ⟨h1, fun i => ?_⟩
      by_cases c' : i < slide * J + offset
      · rw [if_pos c']
      · rw [if_neg c', hz i (by omega), src.G_zero _ (by omega)]
    | some b0 =>
      obtain ⟨hb0, hn1⟩ := hsome b0 rfl
      subst hb0
      obtain ⟨m, rfl⟩ : ∃ m, n = m + 1 := ⟨n - 1, by omega⟩
      have hmax : max (m + 1) 1 = m + 1 := by omega
      simp only [hmax]
      unfold forRange
      rw [Nat.add_sub_cancel]
      have h2 : P (put a1 slide (get a1 slide ||| (g 0 <<< offset))) := sys.put_P _ _ _ h1
      obtain ⟨hB1, hB2, hB3⟩ := spl_loopB sys src slide offset (by omega) hoJ _ h2 m
      refine ⟨sys.put_P _ _ _ hB2, fun i => ?_⟩
      rw [hB1, spl_last sys src slide offset m hoJ _ hB2, hB3, spl_first sys src slide offset a1 h1]
      have e2 : (m + 1) * J = m * J + J := Nat.succ_mul _ _
      rw [e2] at hn
      by_cases cd : slide * J + J + m * J ≤ i ∧ i < slide * J + J + m * J + J ∧ i < L
      · rw [if_pos cd, if_neg (by omega)]
        by_cases c3 : i < slide * J + J + m * J + offset
        · have : i - slide * J - offset = i - (slide * J + offset) := by omega
          simp [c3, this]
        · rw [src.G_zero (i - (slide * J + offset)) (by omega)]
          simp [c3]
      · rw [if_neg cd]
        by_cases cc : slide * J + J ≤ i ∧ i < slide * J + J + m * J ∧ i < L
        · have : i - slide * J - offset = i - (slide * J + offset) := by omega
          rw [if_pos cc, if_neg (by omega), this]
        · rw [if_neg cc]
          by_cases cb : slide * J ≤ i ∧ i < slide * J + J ∧ i < L
          · rw [if_pos cb]
            by_cases c3 : slide * J + offset ≤ i
            · rw [if_neg (by omega), hz i c3]
              simp [c3]
            · rw [if_pos (by omega)]
              simp [c3]
          · rw [if_neg cb]
            by_cases c' : i < slide * J + offset
            · rw [if_pos c']
            · rw [if_neg c', hz i (by omega), src.G_zero _ (by omega)]

/-- the body shared by `Bvf::prepend` and `Bvd::prepend` after the shift, over an abstract chunked store -/
def spl_prependG (put : σ → Nat → BitVec J → σ) (get : σ → Nat → BitVec J) (g : Nat → BitVec J)
    (last : Nat) (a2 : σ) : σ :=
  put (forRange 0 last (fun i a => put a i (g i)) a2) last
    (get (forRange 0 last (fun i a => put a i (g i)) a2) last ||| g last)

theorem spl_prepend_core (sys : spl_Sys bits put get P L) (src : spl_Chunks g G xlen)
    (last : Nat) (a2 : σ) (h2 : P a2) (hlo : last * J ≤ xlen) (hhi : xlen ≤ last * J + J) (hL : xlen ≤ L)
    (hz : ∀ i, i < xlen → bits a2 i = false) :
    P (spl_prependG put get g last a2) ∧
    ∀ i, bits (spl_prependG put get g last a2) i = if i < xlen then G i else bits a2 i := by
  unfold spl_prependG
  have hA := spl_loopA sys src 0 a2 h2 last
  simp only [Nat.add_zero, Nat.zero_mul, Nat.zero_add, Nat.sub_zero] at hA
  obtain ⟨hP, hb⟩ := hA
  refine ⟨sys.put_P _ _ _ hP, fun i => ?_⟩
  rw [sys.put_bits _ _ _ _ hP]
  by_cases c : last * J ≤ i ∧ i < last * J + J ∧ i < L
  · have c1 : i - last * J < J := by omega
    have c2 : last * J + (i - last * J) = i := by omega
    have c3 : ¬ (0 ≤ i ∧ i < last * J ∧ i < L) := by omega
    rw [if_pos c, BitVec.getLsbD_or, sys.get_bits _ _ _ hP, src.g_bits, c2, hb, if_neg c3,
      decide_eq_true c1, Bool.true_and, Bool.true_and]
    by_cases c4 : i < xlen
    · rw [if_pos c4, hz i c4, Bool.false_or]
    · rw [if_neg c4, src.G_zero i (by omega), Bool.or_false]
  · rw [if_neg c, hb]
    by_cases c3 : 0 ≤ i ∧ i < last * J ∧ i < L
    · rw [if_pos c3, if_pos (by omega)]
    · rw [if_neg c3, if_neg (by omega)]

end Generic

-- ---- the operand ------------------------------------------------------------------------------------
/-- what `append`/`prepend` need of the operand `x`, read in `J`-bit chunks.  Holds whenever the operand
satisfies its storage invariant and its word width is compatible with `J` (`spl_Src.of_f`, `spl_Src.of_d`). -/
structure spl_Src (x : AnyBv) (J : Nat) : Prop where
  bits : ∀ idx j, ((x.getInt J idx).getD 0#J).getLsbD j = (decide (j < J) && x.abs.bit (idx * J + j))
  wf : x.abs.WF
  none0 : x.getInt J 0 = none → x.len = 0

theorem spl_src_raw {w J : Nat} (b : Raw w) (hc : Compat w J) (h : b.Inv) :
    (∀ idx j, ((b.getInt J idx).getD 0#J).getLsbD j = (decide (j < J) && b.abs.bit (idx * J + j))) ∧
    b.abs.WF ∧ (b.getInt J 0 = none → b.length = 0) := by
  refine ⟨fun idx j => ?_, Raw.Inv.wf h hc.1, fun hn => ?_⟩
  · rw [Raw.getInt_getLsbD b hc h, Raw.abs_bit _ _ hc.1]
  · have := Raw.getInt_isSome b hc h 0
    rw [hn, Nat.zero_mul] at this
    simp at this
    exact this

theorem spl_Src.of_f {w J : Nat} (b : Raw w) (hc : Compat w J) (h : b.Inv) : spl_Src (.f w b) J := by
  obtain ⟨h1, h2, h3⟩ := spl_src_raw b hc h
  exact ⟨h1, h2, h3⟩

theorem spl_Src.of_d {J : Nat} (b : Raw 64) (hc : Compat 64 J) (h : b.Inv) : spl_Src (.d b) J := by
  obtain ⟨h1, h2, h3⟩ := spl_src_raw b hc h
  exact ⟨h1, h2, h3⟩

theorem spl_abs_len (x : AnyBv) : x.abs.len = x.len := by cases x <;> rfl

theorem spl_wf_zero (a : BV) (h : a.WF) (t : Nat) (ht : a.len ≤ t) : a.bit t = false := by
  unfold BV.bit
  apply Nat.testBit_lt_two_pow
  exact Nat.lt_of_lt_of_le h (Nat.pow_le_pow_right (by decide) ht)

theorem spl_Src.chunks {x : AnyBv} {J : Nat} (hx : spl_Src x J) :
    spl_Chunks (fun i => (x.getInt J i).getD 0#J) x.abs.bit x.len :=
  ⟨hx.bits, fun t ht => spl_wf_zero _ hx.wf t (by rw [spl_abs_len]; exact ht)⟩

-- ---- the two stores ---------------------------------------------------------------------------------
/-- `Bvf`: bytes through `get_int::<u8>` / `set_int::<u8>`; the invariant fixes length and capacity -/
theorem spl_sysF {w : Nat} (hc : Compat w 8) (L N : Nat) :
    spl_Sys (J := 8) (fun (a : Raw w) i => bitAt a.data i) (fun a idx v => a.setInt 8 idx v)
      (fun a idx => (a.getInt 8 idx).getD 0#8) (fun a => a.Inv ∧ a.length = L ∧ a.data.size = N) L := by
  refine ⟨fun a idx v h => ⟨Raw.setInt_inv a hc h.1 idx v, ?_, ?_⟩, fun a idx v i h => ?_, fun a idx j h => ?_⟩
  · rw [Raw.setInt_length]; exact h.2.1
  · rw [Raw.setInt_size]; exact h.2.2
  · rw [Raw.setInt_bits a hc h.1, h.2.1]
    have e : (idx + 1) * 8 = idx * 8 + 8 := by omega
    rw [e]
  · exact Raw.getInt_getLsbD a hc h.1 idx j

/-- `Bvd`: whole words; the invariant fixes the allocation size -/
theorem spl_sysD (N : Nat) :
    spl_Sys (J := 64) (fun (a : Array (BitVec 64)) i => bitAt a i) (fun a idx v => a.setIfInBounds idx v)
      (fun a idx => wd a idx) (fun a => a.size = N) (N * 64) := by
  refine ⟨fun a idx v h => ?_, fun a idx v i h => ?_, fun a idx j h => ?_⟩
  · simp [h]
  · rw [rc_bitAt_setIfInBounds, h]
    by_cases c : i / 64 = idx ∧ idx < N
    · have c' : idx * 64 ≤ i ∧ i < idx * 64 + 64 ∧ i < N * 64 := by omega
      have e : i % 64 = i - idx * 64 := by omega
      rw [if_pos c, if_pos c', e]
    · have c' : ¬ (idx * 64 ≤ i ∧ i < idx * 64 + 64 ∧ i < N * 64) := by omega
      rw [if_neg c, if_neg c']
  · by_cases hj : j < 64
    · rw [getLsbD_wd a (by decide) idx j hj, Nat.mul_comm, decide_eq_true hj, Bool.true_and]
    · rw [BitVec.getLsbD_of_ge _ _ (by omega), decide_eq_false hj, Bool.false_and]

-- ---- finishing lemmas: from the bit-level characterisation to `Inv` and `abs` ------------------------
theorem spl_resize_bit (a : BV) (ha : a.WF) (m : Nat) (hm : a.len ≤ m) (i : Nat) :
    (a.resize m false).bit i = a.bit i := by
  unfold BV.resize BV.bit
  split
  · have e : m = a.len := by omega
    subst e
    simp only
    rw [Nat.mod_eq_of_lt ha]
  · simp

theorem spl_getInt_none (x : AnyBv) (J : Nat) (h : x.len = 0) : x.getInt J 0 = none := by
  cases x <;> simp_all [AnyBv.getInt, Raw.getInt, AnyBv.len]

theorem spl_finish_append {w : Nat} (hw : 0 < w) (s r : Raw w) (x : AnyBv) (h : s.Inv) (hxwf : x.abs.WF)
    (hlen : r.length = s.length + x.len) (hcap : r.length ≤ r.data.size * w)
    (hb : ∀ i, bitAt r.data i = if i < s.length then bitAt s.data i else x.abs.bit (i - s.length)) :
    r.Inv ∧ r.abs = s.abs.append x.abs := by
  refine ⟨⟨hcap, fun i hi => ?_⟩, ?_⟩
  · rw [hb, if_neg (by omega)]
    exact spl_wf_zero _ hxwf _ (by rw [spl_abs_len]; omega)
  · apply BV.ext_bits
    · show r.length = s.length + x.abs.len
      rw [spl_abs_len, hlen]
    · intro i
      rw [Raw.abs_bit _ _ hw, hb, BV.append_bit _ _ (Raw.Inv.wf h hw), Raw.abs_bit _ _ hw]
      rfl

theorem spl_finish_prepend {w : Nat} (hw : 0 < w) (s r : Raw w) (x : AnyBv) (hxwf : x.abs.WF)
    (hlen : r.length = s.length + x.len) (hcap : r.length ≤ r.data.size * w) (h : s.Inv)
    (hb : ∀ i, bitAt r.data i = if i < x.len then x.abs.bit i else bitAt s.data (i - x.len)) :
    r.Inv ∧ r.abs = s.abs.prepend x.abs := by
  refine ⟨⟨hcap, fun i hi => ?_⟩, ?_⟩
  · rw [hb, if_neg (by omega)]
    exact h.2 _ (by omega)
  · apply BV.ext_bits
    · show r.length = s.length + x.abs.len
      rw [spl_abs_len, hlen]
    · intro i
      rw [Raw.abs_bit _ _ hw, hb]
      show _ = (BV.append x.abs s.abs).bit i
      rw [BV.append_bit _ _ hxwf, Raw.abs_bit _ _ hw, spl_abs_len]

-- ---- `Bvd::append` ----------------------------------------------------------------------------------
theorem spl_Bvd_resize (s : Raw 64) (h : s.Inv) (k : Nat) :
    (Bvd.resize s (s.length + k) false).Inv ∧ (Bvd.resize s (s.length + k) false).length = s.length + k ∧
    ∀ i, bitAt (Bvd.resize s (s.length + k) false).data i = bitAt s.data i := by
  obtain ⟨h1, h2⟩ := Bvd.resize_refines s (s.length + k) false h
  refine ⟨h1, ?_, fun i => ?_⟩
  · have := congrArg BV.len h2
    rw [BV.resize_len] at this
    exact this
  · rw [← Raw.abs_bit _ _ (by decide : 0 < 64), h2,
      spl_resize_bit _ (Raw.Inv.wf h (by decide)) _ (by show s.length ≤ _; omega), Raw.abs_bit _ _ (by decide)]

theorem spl_Bvd_append_eq (s : Raw 64) (x : AnyBv) :
    Bvd.append s x =
      ⟨spl_appendG (fun a idx v => a.setIfInBounds idx v) (fun a idx => wd a idx)
          (fun i => (x.getInt 64 i).getD 0#64) (x.getInt 64 0) (s.length % 64) (s.length / 64) (x.intLen 64)
          (Bvd.resize s (s.length + x.len) false).data,
        (Bvd.resize s (s.length + x.len) false).length⟩ := by
  unfold Bvd.append spl_appendG
  simp only
  split
  · rfl
  · cases x.getInt 64 0 <;> rfl

theorem Bvd.append_bits (s : Raw 64) (x : AnyBv) (h : s.Inv) (hx : spl_Src x 64) :
    (Bvd.append s x).length = s.length + x.len ∧
    (Bvd.append s x).length ≤ (Bvd.append s x).data.size * 64 ∧
    ∀ i, bitAt (Bvd.append s x).data i =
      if i < s.length then bitAt s.data i else x.abs.bit (i - s.length) := by
  rw [spl_Bvd_append_eq]
  obtain ⟨r1, r2, r3⟩ := spl_Bvd_resize s h x.len
  generalize Bvd.resize s (s.length + x.len) false = s1 at r1 r2 r3
  have hlen : s.length / 64 * 64 + s.length % 64 = s.length := by omega
  have hcap := r1.1
  have core := spl_append_core (spl_sysD s1.data.size) hx.chunks (x.getInt 64 0) (s.length % 64)
    (s.length / 64) (x.intLen 64) s1.data rfl (by omega)
    (fun i hi => by rw [r3]; exact h.2 i (by omega)) (by omega)
    (by unfold AnyBv.intLen; omega) hx.none0
    (fun b hb => ⟨by rw [hb]; rfl, by
      have : x.len ≠ 0 := fun h0 => by rw [spl_getInt_none x 64 h0] at hb; exact absurd hb (by simp)
      unfold AnyBv.intLen; omega⟩)
  obtain ⟨c1, c2⟩ := core
  refine ⟨r2, ?_, fun i => ?_⟩
  · show s1.length ≤ _ * 64
    rw [c1]; exact hcap
  · show bitAt (spl_appendG _ _ _ _ _ _ _ _) i = _
    rw [c2, hlen, r3]

theorem Bvd.append_refines (s : Raw 64) (x : AnyBv) (h : s.Inv) (hx : spl_Src x 64) :
    (Bvd.append s x).Inv ∧ (Bvd.append s x).abs = s.abs.append x.abs := by
  obtain ⟨h1, h2, h3⟩ := Bvd.append_bits s x h hx
  exact spl_finish_append (by decide) s _ x h hx.wf h1 h2 h3

-- ---- `Bvd::prepend` ---------------------------------------------------------------------------------
theorem spl_modify_eq {w : Nat} (d : Array (BitVec w)) (k : Nat) (f : BitVec w → BitVec w) :
    d.modify k f = d.setIfInBounds k (f (wd d k)) := by
  apply Array.ext_getElem?
  intro i
  rw [Array.getElem?_modify, Array.getElem?_setIfInBounds]
  unfold wd
  by_cases hk : k = i
  · subst hk
    by_cases hs : k < d.size
    · simp [hs, Array.getD_eq_getD_getElem?]
    · simp [hs]
  · simp [hk]

/-- the shifted, resized vector into which `prepend` writes the prefix -/
theorem spl_shl_bits {w : Nat} (hw : 0 < w) (s s1 : Raw w) (h : s.Inv) (k : Nat) (r1 : s1.Inv)
    (r2 : s1.length = s.length + k) (r3 : ∀ i, bitAt s1.data i = bitAt s.data i) :
    (s1.shlAssign k).Inv ∧ (s1.shlAssign k).length = s.length + k ∧
    (s1.shlAssign k).data.size = s1.data.size ∧
    ∀ i, bitAt (s1.shlAssign k).data i = if i < k then false else bitAt s.data (i - k) := by
  refine ⟨(Raw.shlAssign_refines s1 hw r1 k).1, by rw [Raw.shlAssign_length, r2],
    Raw.shlAssign_size s1 hw r1 k, fun i => ?_⟩
  rw [Raw.shlAssign_bits s1 hw r1, r3, r2]
  by_cases c : i < k
  · have c' : ¬ (k ≤ i ∧ i < s.length + k) := by omega
    simp [c, c']
  · rw [if_neg c]
    by_cases c' : k ≤ i ∧ i < s.length + k
    · simp [c']
    · rw [h.2 _ (by omega)]; simp

theorem spl_Bvd_prepend_eq (s : Raw 64) (x : AnyBv) (hx0 : x.len ≠ 0) :
    Bvd.prepend s x =
      ⟨spl_prependG (fun a idx v => a.setIfInBounds idx v) (fun a idx => wd a idx)
          (fun i => (x.getInt 64 i).getD 0#64) (x.intLen 64 - 1)
          ((Bvd.resize s (s.length + x.len) false).shlAssign x.len).data,
        ((Bvd.resize s (s.length + x.len) false).shlAssign x.len).length⟩ := by
  unfold Bvd.prepend spl_prependG
  rw [if_neg hx0]
  simp only
  rw [spl_modify_eq]

theorem Bvd.prepend_bits (s : Raw 64) (x : AnyBv) (h : s.Inv) (hx : spl_Src x 64) :
    (Bvd.prepend s x).length = s.length + x.len ∧
    (Bvd.prepend s x).length ≤ (Bvd.prepend s x).data.size * 64 ∧
    ∀ i, bitAt (Bvd.prepend s x).data i =
      if i < x.len then x.abs.bit i else bitAt s.data (i - x.len) := by
  by_cases hx0 : x.len = 0
  · unfold Bvd.prepend
    rw [if_pos hx0, hx0]
    exact ⟨rfl, h.1, fun i => by rw [if_neg (by omega)]; rfl⟩
  · rw [spl_Bvd_prepend_eq s x hx0]
    obtain ⟨r1, r2, r3⟩ := spl_Bvd_resize s h x.len
    generalize Bvd.resize s (s.length + x.len) false = s1 at r1 r2 r3
    obtain ⟨t1, t2, t3, t4⟩ := spl_shl_bits (by decide) s s1 h x.len r1 r2 r3
    generalize s1.shlAssign x.len = s2 at t1 t2 t3 t4
    have hcap := t1.1
    have core := spl_prepend_core (spl_sysD s2.data.size) hx.chunks (x.intLen 64 - 1) s2.data rfl
      (by unfold AnyBv.intLen; omega) (by unfold AnyBv.intLen; omega) (by omega)
      (fun i hi => by rw [t4, if_pos hi])
    obtain ⟨c1, c2⟩ := core
    refine ⟨t2, ?_, fun i => ?_⟩
    · show s2.length ≤ _ * 64
      rw [c1]; exact hcap
    · show bitAt (spl_prependG _ _ _ _ _) i = _
      rw [c2, t4]
      by_cases c : i < x.len
      · simp only [if_pos c]
      · simp only [if_neg c]

theorem Bvd.prepend_refines (s : Raw 64) (x : AnyBv) (h : s.Inv) (hx : spl_Src x 64) :
    (Bvd.prepend s x).Inv ∧ (Bvd.prepend s x).abs = s.abs.prepend x.abs := by
  obtain ⟨h1, h2, h3⟩ := Bvd.prepend_bits s x h hx
  exact spl_finish_prepend (by decide) s _ x hx.wf h1 h2 h h3

-- ---- `Bvf::append` ----------------------------------------------------------------------------------
theorem spl_compat8 {w : Nat} (hw : 0 < w) (h8 : 8 ∣ w) : Compat w 8 := ⟨hw, by decide, Or.inl h8⟩

theorem spl_Bvf_resize {w : Nat} (s : Raw w) (hw : 0 < w) (h : s.Inv) (k : Nat)
    (hfit : s.length + k ≤ s.data.size * w) :
    ∃ s1, Bvf.resize s (s.length + k) false = .ok s1 ∧ s1.Inv ∧ s1.length = s.length + k ∧
      s1.data.size = s.data.size ∧ ∀ i, bitAt s1.data i = bitAt s.data i := by
  obtain ⟨s1, e, h1, h2, h3⟩ := Bvf.resize_ok s (s.length + k) false hw h (Or.inl hfit)
  refine ⟨s1, e, h1, ?_, h3, fun i => ?_⟩
  · have := congrArg BV.len h2
    rw [BV.resize_len] at this
    exact this
  · rw [← Raw.abs_bit _ _ hw, h2,
      spl_resize_bit _ (Raw.Inv.wf h hw) _ (by show s.length ≤ _; omega), Raw.abs_bit _ _ hw]

theorem spl_Bvf_append_eq {w : Nat} (s s1 : Raw w) (x : AnyBv)
    (hr : Bvf.resize s (s.length + x.len) false = .ok s1) :
    Bvf.append s x =
      .ok (spl_appendG (fun a idx v => a.setInt 8 idx v) (fun a idx => (a.getInt 8 idx).getD 0#8)
          (fun i => (x.getInt 8 i).getD 0#8) (x.getInt 8 0) (s.length % 8) (s.length / 8) (x.intLen 8) s1) := by
  unfold Bvf.append spl_appendG
  simp only [hr]
  split
  · rfl
  · cases x.getInt 8 0 <;> rfl

theorem Bvf.append_bits {w : Nat} (s : Raw w) (x : AnyBv) (hw : 0 < w) (h8 : 8 ∣ w) (h : s.Inv)
    (hx : spl_Src x 8) (hfit : s.length + x.len ≤ s.data.size * w) :
    ∃ r, Bvf.append s x = .ok r ∧ r.Inv ∧ r.length = s.length + x.len ∧ r.data.size = s.data.size ∧
      ∀ i, bitAt r.data i = if i < s.length then bitAt s.data i else x.abs.bit (i - s.length) := by
  obtain ⟨s1, e, r1, r2, r3, r4⟩ := spl_Bvf_resize s hw h x.len hfit
  rw [spl_Bvf_append_eq s s1 x e]
  have hlen : s.length / 8 * 8 + s.length % 8 = s.length := by omega
  have core := spl_append_core (spl_sysF (spl_compat8 hw h8) (s.length + x.len) s.data.size) hx.chunks
    (x.getInt 8 0) (s.length % 8) (s.length / 8) (x.intLen 8) s1 ⟨r1, r2, r3⟩ (by omega)
    (fun i hi => by rw [r4]; exact h.2 i (by omega)) (by omega)
    (by unfold AnyBv.intLen; omega) hx.none0
    (fun b hb => ⟨by rw [hb]; rfl, by
      have : x.len ≠ 0 := fun h0 => by rw [spl_getInt_none x 8 h0] at hb; exact absurd hb (by simp)
      unfold AnyBv.intLen; omega⟩)
  obtain ⟨⟨c1, c2, c3⟩, c4⟩ := core
  refine ⟨_, rfl, c1, c2, c3, fun i => ?_⟩
  rw [c4, hlen, r4]

theorem Bvf.append_ok {w : Nat} (s : Raw w) (x : AnyBv) (hw : 0 < w) (h8 : 8 ∣ w) (h : s.Inv)
    (hx : spl_Src x 8) (hfit : s.length + x.len ≤ s.data.size * w) :
    ∃ r, Bvf.append s x = .ok r ∧ r.Inv ∧ r.abs = s.abs.append x.abs ∧ r.data.size = s.data.size := by
  obtain ⟨r, e, h1, h2, h3, h4⟩ := Bvf.append_bits s x hw h8 h hx hfit
  exact ⟨r, e, h1, (spl_finish_append hw s r x h hx.wf h2 h1.1 h4).2, h3⟩

theorem Bvf.append_panic {w : Nat} (s : Raw w) (x : AnyBv)
    (hover : s.data.size * w < s.length + x.len) (hx0 : 0 < x.len) : Bvf.append s x = .panic := by
  unfold Bvf.append
  simp only [Bvf.resize_panic s (s.length + x.len) false hover (by omega)]

-- ---- `Bvf::prepend` ---------------------------------------------------------------------------------
theorem spl_Bvf_prepend_eq {w : Nat} (s s1 : Raw w) (x : AnyBv) (hx0 : x.len ≠ 0)
    (hr : Bvf.resize s (s.length + x.len) false = .ok s1) :
    Bvf.prepend s x =
      .ok (spl_prependG (fun a idx v => a.setInt 8 idx v) (fun a idx => (a.getInt 8 idx).getD 0#8)
          (fun i => (x.getInt 8 i).getD 0#8) (x.intLen 8 - 1) (s1.shlAssign x.len)) := by
  unfold Bvf.prepend spl_prependG
  rw [if_neg hx0]
  simp only [hr]

theorem Bvf.prepend_bits {w : Nat} (s : Raw w) (x : AnyBv) (hw : 0 < w) (h8 : 8 ∣ w) (h : s.Inv)
    (hx : spl_Src x 8) (hfit : s.length + x.len ≤ s.data.size * w) :
    ∃ r, Bvf.prepend s x = .ok r ∧ r.Inv ∧ r.length = s.length + x.len ∧ r.data.size = s.data.size ∧
      ∀ i, bitAt r.data i = if i < x.len then x.abs.bit i else bitAt s.data (i - x.len) := by
  by_cases hx0 : x.len = 0
  · unfold Bvf.prepend
    rw [if_pos hx0, hx0]
    exact ⟨s, rfl, h, rfl, rfl, fun i => by rw [if_neg (by omega)]; rfl⟩
  · obtain ⟨s1, e, r1, r2, r3, r4⟩ := spl_Bvf_resize s hw h x.len hfit
    rw [spl_Bvf_prepend_eq s s1 x hx0 e]
    obtain ⟨t1, t2, t3, t4⟩ := spl_shl_bits hw s s1 h x.len r1 r2 r4
    generalize s1.shlAssign x.len = s2 at t1 t2 t3 t4
    have core := spl_prepend_core (spl_sysF (spl_compat8 hw h8) (s.length + x.len) s.data.size) hx.chunks
      (x.intLen 8 - 1) s2 ⟨t1, t2, by rw [t3, r3]⟩
      (by unfold AnyBv.intLen; omega) (by unfold AnyBv.intLen; omega) (by omega)
      (fun i hi => by rw [t4, if_pos hi])
    obtain ⟨⟨c1, c2, c3⟩, c4⟩ := core
    refine ⟨_, rfl, c1, c2, c3, fun i => ?_⟩
    rw [c4, t4]
    by_cases c : i < x.len
    · simp only [if_pos c]
    · simp only [if_neg c]

theorem Bvf.prepend_ok {w : Nat} (s : Raw w) (x : AnyBv) (hw : 0 < w) (h8 : 8 ∣ w) (h : s.Inv)
    (hx : spl_Src x 8) (hfit : s.length + x.len ≤ s.data.size * w) :
    ∃ r, Bvf.prepend s x = .ok r ∧ r.Inv ∧ r.abs = s.abs.prepend x.abs ∧ r.data.size = s.data.size := by
  obtain ⟨r, e, h1, h2, h3, h4⟩ := Bvf.prepend_bits s x hw h8 h hx hfit
  exact ⟨r, e, h1, (spl_finish_prepend hw s r x hx.wf h2 h1.1 h h4).2, h3⟩

theorem Bvf.prepend_panic {w : Nat} (s : Raw w) (x : AnyBv)
    (hover : s.data.size * w < s.length + x.len) (hx0 : 0 < x.len) : Bvf.prepend s x = .panic := by
  unfold Bvf.prepend
  rw [if_neg (by omega)]
  simp only [Bvf.resize_panic s (s.length + x.len) false hover (by omega)]

end Bva
