import BvaProofs.Bits
import BvaProofs.Base
import BvaProofs.Iter
import BvaProofs.Get
