import BvaGen.Words
