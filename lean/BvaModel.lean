import BvaModel.Ops
