import BvaModel.Spec
/-!
# L1 — `BitIterator` (`src/iter.rs`) and its L0 specification (a slice iterator over the bits)

Repair D9 (`n < end - start` instead of `start + n < end`) is part of the modelled code.
`usize` values are `Nat`; theorem `C17_no_overflow` shows every value computed stays `≤ len`.
-/
namespace Bva

inductive IterCall where
  | next | nextBack | nth (n : Nat) | nthBack (n : Nat) | sizeHint | count | last
deriving Repr, DecidableEq

/-- what a call returns -/
inductive IterOut where
  | bit (o : Option Bool)
  | num (n : Nat)
deriving Repr, DecidableEq

/-- `BitIterator { bv, range: start..end }`; `bv.get` is the parameter `get` -/
structure IterSt where
  start : Nat
  stop : Nat
deriving Repr, DecidableEq

namespace IterSt

def new (len : Nat) : IterSt := ⟨0, len⟩

/-- one call on the forward iterator; `count`/`last` consume it (the state is left unchanged) -/
def step (get : Nat → Bool) (s : IterSt) : IterCall → IterSt × IterOut
  | .next =>
    if s.start < s.stop then (⟨s.start + 1, s.stop⟩, .bit (some (get s.start))) else (s, .bit none)
  | .nextBack =>
    if s.start < s.stop then (⟨s.start, s.stop - 1⟩, .bit (some (get (s.stop - 1)))) else (s, .bit none)
  | .nth n =>
    if n < s.stop - s.start then (⟨s.start + (n + 1), s.stop⟩, .bit (some (get (s.start + n))))
    else (⟨s.stop, s.stop⟩, .bit none)
  | .nthBack n =>
    if n < s.stop - s.start then (⟨s.start, s.stop - (n + 1)⟩, .bit (some (get (s.stop - (n + 1)))))
    else (⟨s.start, s.start⟩, .bit none)
  | .sizeHint => (s, .num (s.stop - s.start))
  | .count => (s, .num (s.stop - s.start))
  | .last => (s, .bit (if s.start < s.stop then some (get (s.stop - 1)) else none))

/-- the same call made through `std::iter::Rev` (`iter().rev()`): `next`↔`next_back`,
`nth`↔`nth_back`; `count` and `last` are std's defaults (folds of `next_back`). -/
def stepRev (get : Nat → Bool) (s : IterSt) : IterCall → IterSt × IterOut
  | .next => step get s .nextBack
  | .nextBack => step get s .next
  | .nth n => step get s (.nthBack n)
  | .nthBack n => step get s (.nth n)
  | .sizeHint => step get s .sizeHint
  | .count => (s, .num (s.stop - s.start))
  | .last => (s, .bit (if s.start < s.stop then some (get s.start) else none))

def run (get : Nat → Bool) (rev : Bool) : IterSt → List IterCall → List IterOut
  | _, [] => []
  | s, c :: cs =>
    let (s', o) := if rev then stepRev get s c else step get s c
    o :: run get rev s' cs

end IterSt

/-- L0: `std::slice::Iter` over the list of bits — the state is the remaining sub-list -/
def sliceStep (l : List Bool) : IterCall → List Bool × IterOut
  | .next => (l.drop 1, .bit l.head?)
  | .nextBack => (l.dropLast, .bit l.getLast?)
  | .nth n => (l.drop (n + 1), .bit (l.drop n).head?)
  | .nthBack n => (l.take (l.length - (n + 1)), .bit (l.take (l.length - n)).getLast?)
  | .sizeHint => (l, .num l.length)
  | .count => (l, .num l.length)
  | .last => (l, .bit l.getLast?)

def sliceStepRev (l : List Bool) : IterCall → List Bool × IterOut
  | .next => sliceStep l .nextBack
  | .nextBack => sliceStep l .next
  | .nth n => sliceStep l (.nthBack n)
  | .nthBack n => sliceStep l (.nth n)
  | .sizeHint => sliceStep l .sizeHint
  | .count => (l, .num l.length)
  | .last => (l, .bit l.head?)

def sliceRun (rev : Bool) : List Bool → List IterCall → List IterOut
  | _, [] => []
  | l, c :: cs =>
    let (l', o) := if rev then sliceStepRev l c else sliceStep l c
    o :: sliceRun rev l' cs

end Bva
