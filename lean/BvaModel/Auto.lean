import BvaModel.Dynamic
/-!
# L1 — generic-argument glue, `div_rem` ×3, decimal digits, and `Bv` (`src/auto.rs`)
-/
namespace Bva

/-- the static type of a `B: BitVector` argument (decides which conversion body runs) -/
inductive SrcKind | bvf | bvd | bv
deriving Repr, DecidableEq

/-- `enum Bv { Fixed(Bvf<u64,2>), Dynamic(Bvd) }` -/
inductive Bv where
  | fixed (b : Raw 64)
  | dynamic (b : Raw 64)
deriving Repr, Inhabited

namespace Bv
def raw : Bv → Raw 64
  | fixed b => b
  | dynamic b => b
def any : Bv → AnyBv
  | fixed b => .f 64 b
  | dynamic b => .d b
def len (s : Bv) : Nat := s.raw.length
def isFixed : Bv → Bool
  | fixed _ => true
  | dynamic _ => false
/-- storage invariant of `Bv`: the variant's invariant, and `Fixed` holds exactly two words -/
def invB : Bv → Bool
  | fixed b => b.invB && b.data.size == 2
  | dynamic b => b.invB
def abs (s : Bv) : BV := s.raw.abs
end Bv

def unwrapD {α : Type} [Inhabited α] : Res α → α
  | .ok a => a
  | _ => default

namespace AnyBv
def isZero : AnyBv → Bool
  | f _ b => Bvf.isZero b
  | d b => Bvd.isZero b
def sigBits : AnyBv → Nat
  | f _ b => b.sigBits
  | d b => b.sigBits
/-- `B::copy_range` as dispatched for the static type `kind` -/
def copyRange (kind : SrcKind) (x : AnyBv) (st en : Nat) : AnyBv :=
  match x with
  | f w b => .f w (Bvf.copyRange b st en)
  | d b =>
    let s := Bvd.copyRange b st en
    if kind = .bv ∧ s.length ≤ 128 then .f 64 (unwrapD (Bvf.fromBvd 64 2 s)) else .d s
end AnyBv

/-- `Bvf<I,N>::try_from(&B)` for the static source type `kind` -/
def Bvf.convert (w N : Nat) (kind : SrcKind) (x : AnyBv) : Res (Raw w) :=
  match kind, x with
  | .bv, x => Bvf.fromBv w N x
  | _, .f _ b => Bvf.fromBvf w N b
  | _, .d b => Bvf.fromBvd w N b

/-- `Bvd::from(&B)` -/
def Bvd.convert (x : AnyBv) : Raw 64 :=
  match x with
  | .f _ b => Bvd.fromBvf b
  | .d b => b

/-- the `for i in (0..shift+1).rev()` loop of `div_rem`, generic in the subject's operations -/
def divLoop {α : Type} (ge : α → α → Bool) (sub : α → α → α) (setOne : α → Nat → α) (shr1 : α → α) :
    Nat → α → α → α → α × α
  | 0, q, r, _ => (q, r)
  | i + 1, q, r, d =>
    let (q, r) := if ge r d then (setOne q i, sub r d) else (q, r)
    divLoop ge sub setOne shr1 i q r (shr1 d)

/-- `Bvf::div_rem` (repair D1: the divisor is truncated to its significant bits before conversion) -/
def Bvf.divRem {w : Nat} (s : Raw w) (kind : SrcKind) (x : AnyBv) : Res (Raw w × Raw w) :=
  if x.isZero then .panic else
  let N := s.data.size
  let quotient : Raw w := ⟨Array.replicate N 0#w, s.length⟩
  if x.sigBits > s.sigBits then .ok (quotient, s) else
  let shift := s.sigBits - x.sigBits
  match Bvf.convert w N kind (x.copyRange kind 0 x.sigBits) with
  | .ok d0 =>
    match Bvf.resize d0 s.length false with
    | .ok d1 =>
      let d2 := d1.shlAssign shift
      .ok (divLoop (fun r d => Bvf.cmpBvf r d != .lt) (fun r d => Bvf.addsubAssign true r (.f w d))
            (fun q i => q.set i true) (fun d => d.shrAssign 1) (shift + 1) quotient s d2)
    | _ => .panic
  | _ => .panic

/-- `Bvd::div_rem` -/
def Bvd.divRem (s : Raw 64) (x : AnyBv) : Res (Raw 64 × Raw 64) :=
  if x.isZero then .panic else
  let quotient := Bvd.zeros s.length
  if x.sigBits > s.sigBits then .ok (quotient, s) else
  let shift := s.sigBits - x.sigBits
  let d1 := Bvd.resize (Bvd.convert x) s.length false
  let d2 := d1.shlAssign shift
  .ok (divLoop (fun r d => Bvd.cmpBvd r d != .lt) (fun r d => Bvd.addsubAssign true r (.d d))
        (fun q i => q.set i true) (fun d => d.shrAssign 1) (shift + 1) quotient s d2)

/-- `Display::fmt` digit string for `Bvf`: repeated `div_rem` by ten -/
def Bvf.decDigits {w : Nat} (s : Raw w) : List Char :=
  let N := s.data.size
  let base : Raw w := unwrapD (Bvf.fromUInt w N 8 10)
  let rec go : Nat → Raw w → List Char → List Char
    | 0, _, acc => acc
    | fuel + 1, q, acc =>
      if Bvf.isZero q then acc else
      match Bvf.divRem q .bvf (.f w base) with
      | .ok (q', r) => go fuel q' (BV.digitChar false (match Bvf.toUInt r 32 with | .ok v => v | _ => 0) :: acc)
      | _ => acc
  let ds := go (s.length + 1) s []
  if ds.isEmpty then ['0'] else ds

def Bvd.decDigits (s : Raw 64) : List Char :=
  let base := Bvd.fromUInt 8 10
  let rec go : Nat → Raw 64 → List Char → List Char
    | 0, _, acc => acc
    | fuel + 1, q, acc =>
      if Bvd.isZero q then acc else
      match Bvd.divRem q (.d base) with
      | .ok (q', r) => go fuel q' (BV.digitChar false (match Bvd.toUInt r 32 with | .ok v => v | _ => 0) :: acc)
      | _ => acc
  let ds := go (s.length + 1) s []
  if ds.isEmpty then ['0'] else ds

-- =================================================================================================
namespace Bv

def cap128 : Nat := 128

/-- `Bv::reserve` -/
def reserve (s : Bv) (k : Nat) : Bv :=
  match s with
  | fixed b => if b.length + k > cap128 then dynamic (Bvd.reserve (Bvd.fromBvf b) k) else s
  | dynamic b => dynamic (Bvd.reserve b k)

/-- `Bv::shrink_to_fit` -/
def shrinkToFit (s : Bv) : Bv :=
  match s with
  | fixed _ => s
  | dynamic b =>
    if b.length ≤ cap128 then fixed (unwrapD (Bvf.fromBvd 64 2 b)) else dynamic (Bvd.shrinkToFit b)

def withCapacity (c : Nat) : Bv :=
  if c ≤ cap128 then fixed (unwrapD (Bvf.zeros 64 2 0)) else dynamic (Bvd.withCapacity c)
def zeros (n : Nat) : Bv := if n ≤ cap128 then fixed (unwrapD (Bvf.zeros 64 2 n)) else dynamic (Bvd.zeros n)
def ones (n : Nat) : Bv := if n ≤ cap128 then fixed (unwrapD (Bvf.ones 64 2 n)) else dynamic (Bvd.ones n)

def capacity : Bv → Nat
  | fixed _ => cap128
  | dynamic b => b.data.size * 64

def liftRes : Res (Raw 64) → Res Bv
  | .ok b => .ok (fixed b)
  | .err e => .err e
  | .panic => .panic

/-- `String::len()` — UTF-8 byte length -/
def utf8Len (cs : List Char) : Nat := cs.foldl (fun n c => n + c.utf8Size) 0

def fromBinary (cs : List Char) : Res Bv :=
  if utf8Len cs ≤ cap128 then liftRes (Bvf.fromBinary 64 2 cs)
  else match Bvd.fromBinary cs with
    | .ok b => .ok (dynamic b)
    | .err e => .err e
    | .panic => .panic

def fromHex (cs : List Char) : Res Bv :=
  if utf8Len cs * 4 ≤ cap128 then liftRes (Bvf.fromHex 64 2 cs)
  else match Bvd.fromHex cs with
    | .ok b => .ok (dynamic b)
    | .err e => .err e
    | .panic => .panic

def fromBytes (bytes : List Nat) (big : Bool) : Res Bv :=
  if bytes.length * 8 ≤ cap128 then liftRes (Bvf.fromBytes 64 2 bytes big)
  else .ok (dynamic (Bvd.fromBytes bytes big))

def read (input : List Nat) (length : Nat) (big : Bool) : Res (Bv × List Nat) :=
  if length ≤ cap128 then
    match Bvf.read 64 2 input length big with
    | .ok (b, r) => .ok (fixed b, r)
    | .err e => .err e
    | .panic => .panic
  else
    match Bvd.read input length big with
    | .ok (b, r) => .ok (dynamic b, r)
    | .err e => .err e
    | .panic => .panic

def copyRange (s : Bv) (st en : Nat) : Bv :=
  match s with
  | fixed b => fixed (Bvf.copyRange b st en)
  | dynamic b =>
    let r := Bvd.copyRange b st en
    if r.length ≤ cap128 then fixed (unwrapD (Bvf.fromBvd 64 2 r)) else dynamic r

def push (s : Bv) (bit : Bool) : Res Bv :=
  match reserve s 1 with
  | fixed b => liftRes (Bvf.push b bit)
  | dynamic b => .ok (dynamic (Bvd.push b bit))

def pop (s : Bv) : Bv × Option Bool :=
  match s with
  | fixed b => let (b', o) := b.pop; (fixed b', o)
  | dynamic b => let (b', o) := b.pop; (dynamic b', o)

def resize (s : Bv) (newLen : Nat) (bit : Bool) : Res Bv :=
  let s1 := if newLen > s.len then reserve s (newLen - s.len) else s
  match s1 with
  | fixed b => liftRes (Bvf.resize b newLen bit)
  | dynamic b => .ok (dynamic (Bvd.resize b newLen bit))

def append (s : Bv) (x : AnyBv) : Res Bv :=
  match s with
  | fixed b =>
    if b.length + x.len ≤ cap128 then liftRes (Bvf.append b x)
    else .ok (dynamic (Bvd.append (Bvd.fromBvf b) x))
  | dynamic b => .ok (dynamic (Bvd.append b x))

def prepend (s : Bv) (x : AnyBv) : Res Bv :=
  match s with
  | fixed b =>
    if b.length + x.len ≤ cap128 then liftRes (Bvf.prepend b x)
    else .ok (dynamic (Bvd.prepend (Bvd.fromBvf b) x))
  | dynamic b => .ok (dynamic (Bvd.prepend b x))

/-- apply a storage-preserving `Raw 64` operation under the current variant -/
def mapRaw (f : Raw 64 → Raw 64) : Bv → Bv
  | fixed b => fixed (f b)
  | dynamic b => dynamic (f b)

def isZero : Bv → Bool
  | fixed b => Bvf.isZero b
  | dynamic b => Bvd.isZero b

/-- `Hash for Bv` (repair D6) -/
def hashStream (s : Bv) : List (Nat × Nat) :=
  let sg := s.raw.sigBits
  (64, sg) :: (List.range ((sg + 63) / 64)).map fun i => (64, ((s.raw.getInt 64 i).getD 0#64).toNat)

-- conversions into Bv ---------------------------------------------------------------------------
/-- `From<Bvd> / From<&Bvd> for Bv` -/
def fromBvd (b : Raw 64) : Bv :=
  match Bvf.fromBvd 64 2 b with
  | .ok r => fixed r
  | _ => dynamic b

/-- `From<&Bvf<I,N>> for Bv` -/
def fromBvf {w : Nat} (b : Raw w) : Bv :=
  if b.data.size * w ≤ cap128 then fixed (unwrapD (Bvf.fromBvf 64 2 b)) else dynamic (Bvd.fromBvf b)

/-- `From<uN> for Bv` -/
def fromUInt (W x : Nat) : Bv :=
  if W ≤ cap128 then fixed (unwrapD (Bvf.fromUInt 64 2 W x)) else dynamic (Bvd.fromUInt W x)

/-- `From<&[I]> for Bv` -/
def fromSlice (wJ : Nat) (xs : List Nat) : Bv :=
  ((List.range xs.length).zip xs).foldl (fun a (p : Nat × Nat) => mapRaw (·.setInt wJ p.1 (BitVec.ofNat wJ p.2)) a)
    (zeros (xs.length * wJ))

/-- `Bv::from(&B)` for `B` of static kind `kind` -/
def convert (kind : SrcKind) (x : AnyBv) : Bv :=
  match kind, x with
  | .bv, .f _ b => fixed (⟨b.data.map (·.setWidth 64), b.length⟩)   -- clone of a Fixed variant (w = 64)
  | .bv, .d b => dynamic b
  | _, .f _ b => fromBvf b
  | _, .d b => fromBvd b

def toUInt (s : Bv) (W : Nat) : Res Nat :=
  match s with
  | fixed b => Bvf.toUInt b W
  | dynamic b => Bvd.toUInt b W

-- comparison --------------------------------------------------------------------------------------
/-- `Bv == rhs` for any right-hand side (rows of the dispatch matrix) -/
def eqAny (s : Bv) (x : AnyBv) : Bool :=
  match s, x with
  | fixed a, .f _ b => Bvf.eqBvf a b
  | fixed a, .d b => Bvd.eqBvf b a          -- `Bvf == Bvd` is `other.eq(self)`
  | dynamic a, .f _ b => Bvd.eqBvf a b
  | dynamic a, .d b => Bvd.eqBvd a b

def cmpAny (s : Bv) (x : AnyBv) : Ordering :=
  match s, x with
  | fixed a, .f _ b => Bvf.cmpBvf a b
  | fixed a, .d b => (Bvd.cmpBvf b a).swap  -- `other.partial_cmp(self).map(reverse)`
  | dynamic a, .f _ b => Bvd.cmpBvf a b
  | dynamic a, .d b => Bvd.cmpBvd a b

-- operators -----------------------------------------------------------------------------------------
def bitopAssign (op : BitOp) (s : Bv) (x : AnyBv) : Bv :=
  match s with
  | fixed b => fixed (Bvf.bitopAssign op b x)
  | dynamic b => dynamic (Bvd.bitopAssign op b x)

def addsubAssign (sub : Bool) (s : Bv) (x : AnyBv) : Bv :=
  match s with
  | fixed b => fixed (Bvf.addsubAssign sub b x)
  | dynamic b => dynamic (Bvd.addsubAssign sub b x)

def mul (s : Bv) (x : AnyBv) : Bv :=
  match s with
  | fixed b => fixed (Bvf.mul b x)
  | dynamic b => dynamic (Bvd.mul b x)

def not (s : Bv) : Bv :=
  match s with
  | fixed b => fixed (Bvf.not b)
  | dynamic b => dynamic (Bvd.not b)

/-- `Bv::div_rem` (its own body: quotient via `Bv::zeros`, divisor converted into a `Bv`) -/
def divRem (s : Bv) (kind : SrcKind) (x : AnyBv) : Res (Bv × Bv) :=
  if x.isZero then .panic else
  let quotient := zeros s.len
  if x.sigBits > s.raw.sigBits then .ok (quotient, s) else
  let shift := s.raw.sigBits - x.sigBits
  match resize (convert kind x) s.len false with
  | .ok d1 =>
    let d2 := mapRaw (·.shlAssign shift) d1
    .ok (divLoop (fun r d => cmpAny r d.any != .lt) (fun r d => addsubAssign true r d.any)
          (fun q i => mapRaw (·.set i true) q) (mapRaw (·.shrAssign 1)) (shift + 1) quotient s d2)
  | _ => .panic

def decDigits : Bv → List Char
  | fixed b => Bvf.decDigits b
  | dynamic b => Bvd.decDigits b

end Bv
end Bva
