import BvaModel.Step
/-!
# Driver: line protocol → L1 model result, L0 spec result, comparison with the implementation's result

One case per line:  `<op> <dbg> <args…> => ok <vals…>` | `=> err <kind>` | `=> panic`.
Tokens: vectors `F8x3:11:ff.7.0` `D:70:ffff.3f` `AF:5:1b.0` `AD:130:…`; integers `u8:ff`;
chars `c:31.30` (hex code points, `c:-` empty); bytes `b:ff.0`; bit lists `t:0110`; naturals decimal.
-/
namespace Bva
namespace Drv

inductive Val where
  | vec (v : Vec)
  | sv (b : BV)                        -- spec-level vector: matches any `vec` with Inv and this abstraction
  | nat (n : Nat)
  | capv (n : Nat)                     -- model-level: a capacity (policy-dependent; only the L0 inequality is binding)
  | natPred (f : Nat → Bool)           -- spec-level: any number satisfying `f`
  | bool (b : Bool)
  | obit (o : Option Bool)
  | ord (o : Ordering)
  | chars (cs : List Char)
  | bytes (bs : List Nat)
  | hash (l : List (Nat × Nat))
  | any                                -- spec-level: unconstrained
deriving Inhabited

abbrev Out := Res (List Val)

-- ---- parsing --------------------------------------------------------------------------------------
def hexDigit? (c : Char) : Option Nat := Bvf.hexVal c

def parseHex (s : String) : Option Nat :=
  if s.isEmpty then none else
  s.toList.foldl (fun acc c => match acc, hexDigit? c with
    | some a, some d => some (16 * a + d)
    | _, _ => none) (some 0)

def splitDots (s : String) : List String := if s = "-" ∨ s.isEmpty then [] else s.splitOn "."

def parseHexList (s : String) : Option (List Nat) := (splitDots s).mapM parseHex

def parseWords (w : Nat) (s : String) : Option (Array (BitVec w)) :=
  (parseHexList s).map fun l => (l.map (BitVec.ofNat w)).toArray

/-- `F8x3` → (8, 3) -/
def parseFTag (s : String) : Option (Nat × Nat) :=
  let body := (s.drop 1).toString
  let body := if body.startsWith "U" then (body.drop 1).toString else body   -- `FU64x2` = `Bvf<usize,2>`
  match body.splitOn "x" with
  | [a, b] => match a.toNat?, b.toNat? with
    | some w, some n => some (w, n)
    | _, _ => none
  | _ => none

def parseTy (s : String) : Option Ty :=
  if s = "D" then some .d else if s = "A" then some .a
  else if s.startsWith "F" then (parseFTag s).map fun p => .f p.1 p.2 else none

def parseVec (s : String) : Option Vec :=
  match s.splitOn ":" with
  | [tag, len, ws] =>
    match len.toNat? with
    | none => none
    | some n =>
      if tag = "D" then (parseWords 64 ws).map fun d => .d ⟨d, n⟩
      else if tag = "AF" then (parseWords 64 ws).map fun d => .a (.fixed ⟨d, n⟩)
      else if tag = "AD" then (parseWords 64 ws).map fun d => .a (.dynamic ⟨d, n⟩)
      else if tag.startsWith "F" then
        match parseFTag tag with
        | some (w, _) => (parseWords w ws).map fun d => .f w ⟨d, n⟩
        | none => none
      else none
  | _ => none

/-- `u8:ff` → (8, 255) -/
def parseUInt (s : String) : Option (Nat × Nat) :=
  match s.splitOn ":" with
  | [t, x] =>
    if t = "us" then (parseHex x).map fun v => (64, v) else     -- `usize`
    match (t.drop 1).toString.toNat?, parseHex x with
    | some w, some v => if t.startsWith "u" then some (w, v) else none
    | _, _ => none
  | _ => none

def parseRhs (s : String) : Option Api.Rhs :=
  if s.startsWith "u" then (parseUInt s).map fun p => .uint p.1 p.2
  else (parseVec s).map .vec

def parseChars (s : String) : Option (List Char) :=
  if s.startsWith "c:" then (parseHexList (s.drop 2).toString).map fun l => l.map Char.ofNat else none
def parseBytes (s : String) : Option (List Nat) :=
  if s.startsWith "b:" then parseHexList (s.drop 2).toString else none
def parseBits (s : String) : Option (List Bool) :=
  if s.startsWith "t:" then
    let r := (s.drop 2).toString
    if r = "-" then some [] else some (r.toList.map (· == '1'))
  else none
/-- integer type given by its width (`us` = usize) -/
def parseWidth (s : String) : Option Nat := if s = "us" then some 64 else s.toNat?
def parseBool (s : String) : Option Bool := if s = "1" then some true else if s = "0" then some false else none

-- ---- printing -------------------------------------------------------------------------------------
def hexOf (n : Nat) : String := String.ofList (Nat.toDigits 16 n)

def dots (l : List String) : String := if l.isEmpty then "-" else ".".intercalate l

def showWords {w : Nat} (d : Array (BitVec w)) : String := dots (d.toList.map fun x => hexOf x.toNat)

def showVec : Vec → String
  | .f w r => s!"F{w}x{r.data.size}:{r.length}:{showWords r.data}"
  | .d r => s!"D:{r.length}:{showWords r.data}"
  | .a (.fixed r) => s!"AF:{r.length}:{showWords r.data}"
  | .a (.dynamic r) => s!"AD:{r.length}:{showWords r.data}"

def showOrd : Ordering → String
  | .lt => "lt" | .eq => "eq" | .gt => "gt"

def showVal : Val → String
  | .vec v => showVec v
  | .sv b => s!"SV:{b.len}:{hexOf b.val}"
  | .nat n => s!"n:{n}"
  | .capv n => s!"n:{n}"
  | .natPred _ => "n:?"
  | .bool b => if b then "B:1" else "B:0"
  | .obit none => "O:-"
  | .obit (some b) => if b then "O:1" else "O:0"
  | .ord o => s!"o:{showOrd o}"
  | .chars cs => "c:" ++ dots (cs.map fun c => hexOf c.toNat)
  | .bytes bs => "b:" ++ dots (bs.map hexOf)
  | .hash l => "h:" ++ dots (l.map fun p => s!"{p.1}={hexOf p.2}")
  | .any => "?"

def showOut : Out → String
  | .ok vs => " ".intercalate ("ok" :: vs.map showVal)
  | .err e => s!"err {e}"
  | .panic => "panic"

def parseVal (s : String) : Option Val :=
  if s.startsWith "n:" then (s.drop 2).toString.toNat?.map .nat
  else if s.startsWith "B:" then (parseBool (s.drop 2).toString).map .bool
  else if s = "O:-" then some (.obit none)
  else if s.startsWith "O:" then (parseBool (s.drop 2).toString).map fun b => .obit (some b)
  else if s = "o:lt" then some (.ord .lt) else if s = "o:eq" then some (.ord .eq)
  else if s = "o:gt" then some (.ord .gt)
  else if s.startsWith "c:" then (parseChars s).map .chars
  else if s.startsWith "b:" then (parseBytes s).map .bytes
  else if s.startsWith "h:" then
    (splitDots (s.drop 2).toString).mapM (fun (t : String) => match t.splitOn "=" with
      | [a, b] => match a.toNat?, parseHex b with
        | some w, some v => some (w, v)
        | _, _ => none
      | _ => none) |>.map .hash
  else (parseVec s).map .vec

def parseOut (toks : List String) : Option Out :=
  match toks with
  | ["panic"] => some .panic
  | "err" :: rest => some (.err (" ".intercalate rest))
  | "ok" :: rest => (rest.mapM parseVal).map .ok
  | _ => none

-- ---- comparison -----------------------------------------------------------------------------------
def tyEq (a b : Vec) : Bool := a.ty == b.ty

/-- canonical agreement of two concrete values: same type, length, `Inv` status and abstraction
(the abstraction reads all storage, so garbage beyond `len` must agree too); spare `Bvd` words and
the `Bv` variant are not compared -/
def valAgree : Val → Val → Bool
  | .vec a, .vec b => tyEq a b && a.len == b.len && a.invB == b.invB && a.abs == b.abs
  | .nat a, .nat b => a == b
  | .nat _, .capv _ => true          -- capacities are compared with the L0 inequality, not with the model's policy
  | .bool a, .bool b => a == b
  | .obit a, .obit b => a == b
  | .ord a, .ord b => a == b
  | .chars a, .chars b => a == b
  | .bytes a, .bytes b => a == b
  | .hash a, .hash b => a == b
  | _, _ => false

/-- does the concrete value satisfy the spec value? -/
def valMeets : Val → Val → Bool
  | .vec a, .sv b => a.invB && a.abs == b
  | .nat a, .natPred f => f a
  | .capv a, .natPred f => f a
  | _, .any => true
  | a, b => valAgree a b

def listAll2 {α β : Type} (f : α → β → Bool) : List α → List β → Bool
  | [], [] => true
  | a :: as, b :: bs => f a b && listAll2 f as bs
  | _, _ => false

def outAgree (f : Val → Val → Bool) : Out → Out → Bool
  | .ok a, .ok b => listAll2 f a b
  | .err a, .err b => a == b
  | .panic, .panic => true
  | _, _ => false

end Drv
end Bva
