import BvaModel.Auto
import BvaModel.Iter
/-!
# L1 — the public API as one dispatch: `Vec` (a value of any of the three implementations),
operands, and one function per public operation.  This is what the driver executes and what the
property theorems quantify over.
-/
namespace Bva

/-- a bit vector of one of the three implementations -/
inductive Vec where
  | f (w : Nat) (r : Raw w)      -- `Bvf<I,N>`, `N = r.data.size`
  | d (r : Raw 64)               -- `Bvd`
  | a (b : Bv)                   -- `Bv`
deriving Repr, Inhabited

/-- type descriptor (what the Rust type parameter fixes) -/
inductive Ty where
  | f (w N : Nat) | d | a
deriving Repr, DecidableEq, Inhabited

namespace Vec
def ty : Vec → Ty
  | f w r => .f w r.data.size
  | d _ => .d
  | a _ => .a
def len : Vec → Nat
  | f _ r => r.length
  | d r => r.length
  | a b => b.len
def abs : Vec → BV
  | f _ r => r.abs
  | d r => r.abs
  | a b => b.abs
def invB : Vec → Bool
  | f _ r => r.invB
  | d r => r.invB
  | a b => b.invB
/-- as an operand -/
def any : Vec → AnyBv
  | f w r => .f w r
  | d r => .d r
  | a b => b.any
def kind : Vec → SrcKind
  | f _ _ => .bvf
  | d _ => .bvd
  | a _ => .bv
def capBits : Vec → Nat
  | f w r => r.data.size * w
  | d r => r.data.size * 64
  | a b => b.capacity
/-- the underlying record, whatever the implementation -/
def withRaw {α : Type} (v : Vec) (k : {w : Nat} → Raw w → α) : α :=
  match v with
  | f _ r => k r
  | d r => k r
  | a b => k b.raw
/-- apply a capacity-neutral in-place `Raw` operation -/
def mapRaw (v : Vec) (k : {w : Nat} → Raw w → Raw w) : Vec :=
  match v with
  | f w r => f w (k r)
  | d r => d (k r)
  | a b => a (b.mapRaw k)
end Vec

def liftF (w : Nat) : Res (Raw w) → Res Vec
  | .ok r => .ok (.f w r)
  | .err e => .err e
  | .panic => .panic
def liftA : Res Bv → Res Vec
  | .ok r => .ok (.a r)
  | .err e => .err e
  | .panic => .panic

def Res.map {α β : Type} (f : α → β) : Res α → Res β
  | .ok a => .ok (f a)
  | .err e => .err e
  | .panic => .panic

def Res.bind {α β : Type} (x : Res α) (f : α → Res β) : Res β :=
  match x with
  | .ok a => f a
  | .err e => .err e
  | .panic => .panic

namespace Api

-- ---- constructors -----------------------------------------------------------------------------------
def zeros : Ty → Nat → Res Vec
  | .f w N, n => liftF w (Bvf.zeros w N n)
  | .d, n => .ok (.d (Bvd.zeros n))
  | .a, n => .ok (.a (Bv.zeros n))
def ones : Ty → Nat → Res Vec
  | .f w N, n => liftF w (Bvf.ones w N n)
  | .d, n => .ok (.d (Bvd.ones n))
  | .a, n => .ok (.a (Bv.ones n))
def withCapacity : Ty → Nat → Res Vec
  | .f w N, _ => liftF w (Bvf.zeros w N 0)
  | .d, c => .ok (.d (Bvd.withCapacity c))
  | .a, c => .ok (.a (Bv.withCapacity c))
def fromBinary : Ty → List Char → Res Vec
  | .f w N, cs => liftF w (Bvf.fromBinary w N cs)
  | .d, cs => (Bvd.fromBinary cs).map .d
  | .a, cs => liftA (Bv.fromBinary cs)
def fromHex : Ty → List Char → Res Vec
  | .f w N, cs => liftF w (Bvf.fromHex w N cs)
  | .d, cs => (Bvd.fromHex cs).map .d
  | .a, cs => liftA (Bv.fromHex cs)
def fromBytes : Ty → List Nat → Bool → Res Vec
  | .f w N, bs, e => liftF w (Bvf.fromBytes w N bs e)
  | .d, bs, e => .ok (.d (Bvd.fromBytes bs e))
  | .a, bs, e => liftA (Bv.fromBytes bs e)
def read : Ty → List Nat → Nat → Bool → Res (Vec × List Nat)
  | .f w N, bs, n, e => (Bvf.read w N bs n e).map fun p => (.f w p.1, p.2)
  | .d, bs, n, e => (Bvd.read bs n e).map fun p => (.d p.1, p.2)
  | .a, bs, n, e => (Bv.read bs n e).map fun p => (.a p.1, p.2)
def fromUInt : Ty → Nat → Nat → Res Vec
  | .f w N, W, x => liftF w (Bvf.fromUInt w N W x)
  | .d, W, x => .ok (.d (Bvd.fromUInt W x))
  | .a, W, x => .ok (.a (Bv.fromUInt W x))
def fromSlice : Ty → Nat → List Nat → Res Vec
  | .f w N, wJ, xs => liftF w (Bvf.fromSlice w N wJ xs)
  | .d, wJ, xs => .ok (.d (Bvd.fromSlice wJ xs))
  | .a, wJ, xs => .ok (.a (Bv.fromSlice wJ xs))
/-- `T::try_from(&src)` / `T::from(&src)` -/
def convert : Ty → Vec → Res Vec
  | .f w N, src => liftF w (Bvf.convert w N src.kind src.any)
  | .d, src => .ok (.d (Bvd.convert src.any))
  | .a, src => .ok (.a (Bv.convert src.kind src.any))

-- ---- edits ------------------------------------------------------------------------------------------
def push : Vec → Bool → Res Vec
  | .f w r, b => liftF w (Bvf.push r b)
  | .d r, b => .ok (.d (Bvd.push r b))
  | .a s, b => liftA (Bv.push s b)
def pop : Vec → Vec × Option Bool
  | .f w r => let p := r.pop; (.f w p.1, p.2)
  | .d r => let p := r.pop; (.d p.1, p.2)
  | .a s => let p := s.pop; (.a p.1, p.2)
def resize : Vec → Nat → Bool → Res Vec
  | .f w r, n, b => liftF w (Bvf.resize r n b)
  | .d r, n, b => .ok (.d (Bvd.resize r n b))
  | .a s, n, b => liftA (Bv.resize s n b)
def get (v : Vec) (i : Nat) : Bool := v.withRaw (·.get i)
def set (v : Vec) (i : Nat) (b : Bool) : Vec := v.mapRaw (·.set i b)
/-- trait default `truncate` -/
def truncate (v : Vec) (n : Nat) : Res Vec := if n < v.len then resize v n false else .ok v
/-- trait default `sign_extend` -/
def signExtend (v : Vec) (n : Nat) : Res Vec :=
  if n > v.len then
    let sign := if v.len = 0 then false else get v (v.len - 1)
    resize v n sign
  else .ok v
def append : Vec → AnyBv → Res Vec
  | .f w r, x => liftF w (Bvf.append r x)
  | .d r, x => .ok (.d (Bvd.append r x))
  | .a s, x => liftA (Bv.append s x)
def prepend : Vec → AnyBv → Res Vec
  | .f w r, x => liftF w (Bvf.prepend r x)
  | .d r, x => .ok (.d (Bvd.prepend r x))
  | .a s, x => liftA (Bv.prepend s x)
def copyRange : Vec → Nat → Nat → Vec
  | .f w r, s, e => .f w (Bvf.copyRange r s e)
  | .d r, s, e => .d (Bvd.copyRange r s e)
  | .a b, s, e => .a (Bv.copyRange b s e)
/-- trait default `split_off`: (what is left, what is returned) -/
def splitOff (v : Vec) (i : Nat) : Res (Vec × Vec) :=
  let high := copyRange v i v.len
  (resize v i false).map fun low => (low, high)
/-- trait default `insert` -/
def insert (v : Vec) (i : Nat) (x : AnyBv) : Res Vec :=
  (splitOff v i).bind fun p => (append p.1 x).bind fun v1 => append v1 p.2.any
/-- `Extend<Bit>`: `Bvd`/`Bv` reserve `size_hint().0` (= `hint`: whatever lower bound the iterator reports, the exact
length for exact-size iterators) first, then push one by one -/
def extend (v : Vec) (bits : List Bool) (hint : Nat := bits.length) : Res Vec :=
  let v0 : Vec := match v with
    | .f _ _ => v
    | .d r => .d (Bvd.reserve r hint)
    | .a s => .a (Bv.reserve s hint)
  bits.foldl (fun acc b => acc.bind fun v => push v b) (.ok v0)
/-- `FromIterator<Bit>`: `with_capacity(size_hint().0)` then push -/
def collect (t : Ty) (bits : List Bool) (hint : Nat := bits.length) : Res Vec :=
  (withCapacity t hint).bind fun v => bits.foldl (fun acc b => acc.bind fun v => push v b) (.ok v)
def first (v : Vec) : Option Bool := if v.len > 0 then some (get v 0) else none
def last (v : Vec) : Option Bool := if v.len > 0 then some (get v (v.len - 1)) else none
def shlIn (v : Vec) (b : Bool) : Vec × Bool :=
  match v with
  | .f w r => let p := r.shlIn b; (.f w p.1, p.2)
  | .d r => let p := r.shlIn b; (.d p.1, p.2)
  | .a (.fixed r) => let p := r.shlIn b; (.a (.fixed p.1), p.2)
  | .a (.dynamic r) => let p := r.shlIn b; (.a (.dynamic p.1), p.2)
def shrIn (v : Vec) (b : Bool) : Vec × Bool :=
  match v with
  | .f w r => let p := r.shrIn b; (.f w p.1, p.2)
  | .d r => let p := r.shrIn b; (.d p.1, p.2)
  | .a (.fixed r) => let p := r.shrIn b; (.a (.fixed p.1), p.2)
  | .a (.dynamic r) => let p := r.shrIn b; (.a (.dynamic p.1), p.2)
def rotl (v : Vec) (k : Nat) : Vec := v.mapRaw (·.rotl k)
def rotr (v : Vec) (k : Nat) : Vec := v.mapRaw (·.rotr k)

-- ---- capacity -----------------------------------------------------------------------------------------
def reserve : Vec → Nat → Vec
  | .f w r, _ => .f w r
  | .d r, k => .d (Bvd.reserve r k)
  | .a s, k => .a (Bv.reserve s k)
def shrinkToFit : Vec → Vec
  | .f w r => .f w r
  | .d r => .d (Bvd.shrinkToFit r)
  | .a s => .a (Bv.shrinkToFit s)

-- ---- observers ------------------------------------------------------------------------------------------
def leadingZeros (v : Vec) : Nat := v.withRaw (·.leadingZeros)
def leadingOnes (v : Vec) : Nat := v.withRaw (·.leadingOnes)
def trailingZeros (v : Vec) : Nat := v.withRaw (·.trailingZeros)
def trailingOnes (v : Vec) : Nat := v.withRaw (·.trailingOnes)
def sigBits (v : Vec) : Nat := v.withRaw (·.sigBits)
def isZero : Vec → Bool
  | .f _ r => Bvf.isZero r
  | .d r => Bvd.isZero r
  | .a s => s.isZero
def toVec (v : Vec) (big : Bool) : List Nat := v.withRaw (·.toVec big)
def toUInt : Vec → Nat → Res Nat
  | .f _ r, W => Bvf.toUInt r W
  | .d r, W => Bvd.toUInt r W
  | .a s, W => s.toUInt W
def hashStream : Vec → List (Nat × Nat)
  | .f _ r => Bvf.hashStream r
  | .d r => Bvd.hashStream r
  | .a s => s.hashStream
/-- digit strings of the five formatting traits (before `pad_integral`): b o d x X -/
def digits (v : Vec) (kind : Char) : List Char :=
  match kind with
  | 'b' => v.withRaw (·.binDigits)
  | 'o' => v.withRaw (·.octDigits)
  | 'x' => v.withRaw (·.hexDigits false)
  | 'X' => v.withRaw (·.hexDigits true)
  | _ => match v with
    | .f _ r => Bvf.decDigits r
    | .d r => Bvd.decDigits r
    | .a s => s.decDigits
/-- the formatting options of a `{…}` placeholder that matter for integers -/
structure FmtSpec where
  fill : Char := ' '
  align : Nat := 0          -- 0 none, 1 left `<`, 2 right `>`, 3 center `^`
  plus : Bool := false      -- `+`
  alt : Bool := false       -- `#`
  zero : Bool := false      -- `0`
  width : Option Nat := none
deriving Repr

/-- `Formatter::pad_integral(true, prefix, digits)` (std; modelled from its source, trusted base) -/
def padIntegral (sp : FmtSpec) (pre digits : List Char) : List Char :=
  let sign : List Char := if sp.plus then ['+'] else []
  let pfx : List Char := if sp.alt then pre else []
  let head := sign ++ pfx
  let width := digits.length + head.length
  match sp.width with
  | none => head ++ digits
  | some min =>
    if width ≥ min then head ++ digits
    else if sp.zero then head ++ List.replicate (min - width) '0' ++ digits
    else
      let pad := min - width
      let al := if sp.align = 0 then 2 else sp.align
      let (a, b) : Nat × Nat := if al = 1 then (0, pad) else if al = 3 then (pad / 2, (pad + 1) / 2) else (pad, 0)
      List.replicate a sp.fill ++ head ++ digits ++ List.replicate b sp.fill

def fmtPrefix (kind : Char) : List Char :=
  match kind with
  | 'b' => ['0', 'b']
  | 'o' => ['0', 'o']
  | 'x' => ['0', 'x']
  | 'X' => ['0', 'x']
  | _ => []

/-- `format!("{:<spec><kind>}", v)` -/
def format (v : Vec) (kind : Char) (sp : FmtSpec) : List Char := padIntegral sp (fmtPrefix kind) (digits v kind)

def iterRun (v : Vec) (rev : Bool) (calls : List IterCall) : List IterOut :=
  IterSt.run (get v) rev (IterSt.new v.len) calls

-- ---- comparison -------------------------------------------------------------------------------------------
/-- `lhs == rhs` through the impl that Rust selects for the two static types -/
def eq (l rv : Vec) : Bool :=
  match l, rv with
  | .f _ a, .f _ b => Bvf.eqBvf a b
  | .f _ a, .d b => Bvd.eqBvf b a
  | .f _ a, .a b => b.eqAny (.f _ a)        -- `Bvf == Bv` is `other.eq(self)`
  | .d a, .f _ b => Bvd.eqBvf a b
  | .d a, .d b => Bvd.eqBvd a b
  | .d a, .a b => b.eqAny (.d a)            -- `Bvd == Bv` is `other.eq(self)`
  | .a a, x => a.eqAny x.any
/-- `lhs.partial_cmp(&rhs)` (never `None`) -/
def cmp (l rv : Vec) : Ordering :=
  match l, rv with
  | .f _ a, .f _ b => Bvf.cmpBvf a b
  | .f _ a, .d b => (Bvd.cmpBvf b a).swap
  | .f _ a, .a b => (b.cmpAny (.f _ a)).swap
  | .d a, .f _ b => Bvd.cmpBvf a b
  | .d a, .d b => Bvd.cmpBvd a b
  | .d a, .a b => (b.cmpAny (.d a)).swap
  | .a a, x => a.cmpAny x.any

-- ---- operators ----------------------------------------------------------------------------------------------
/-- right-hand side of an operator: a vector or a native integer (width, value) -/
inductive Rhs where
  | vec (v : Vec)
  | uint (W x : Nat)
deriving Repr, Inhabited

/-- the temporary the integer forms build: `Bvf::<u64,2>::try_from(x)` for a fixed subject,
`Bvd::from(x)` for a dynamic one (for `Bv`: by its current variant) -/
def liftUInt (subject : Vec) (W x : Nat) : AnyBv :=
  let fx : AnyBv := .f 64 (unwrapD (Bvf.fromUInt 64 2 W x))
  match subject with
  | .f _ _ => fx
  | .d _ => .d (Bvd.fromUInt W x)
  | .a (.fixed _) => fx
  | .a (.dynamic _) => .d (Bvd.fromUInt W x)

def Rhs.any (subject : Vec) : Rhs → AnyBv
  | .vec v => v.any
  | .uint W x => liftUInt subject W x
def Rhs.kind : Rhs → SrcKind
  | .vec v => match v with
    | .f _ _ => .bvf
    | .d _ => .bvd
    | .a (.fixed _) => .bvf     -- operators match on the variant and pass the inner value
    | .a (.dynamic _) => .bvd
  | .uint _ _ => .bvf

def bitop (op : BitOp) (v : Vec) (x : Rhs) : Vec :=
  let r := x.any v
  match v with
  | .f w s => .f w (Bvf.bitopAssign op s r)
  | .d s => .d (Bvd.bitopAssign op s r)
  | .a s => .a (s.bitopAssign op r)
def addsub (sub : Bool) (v : Vec) (x : Rhs) : Vec :=
  let r := x.any v
  match v with
  | .f w s => .f w (Bvf.addsubAssign sub s r)
  | .d s => .d (Bvd.addsubAssign sub s r)
  | .a s => .a (s.addsubAssign sub r)
def mul (v : Vec) (x : Rhs) : Vec :=
  let r := x.any v
  match v with
  | .f w s => .f w (Bvf.mul s r)
  | .d s => .d (Bvd.mul s r)
  | .a s => .a (s.mul r)
/-- `div_rem` as reached from the operators (`kind` = static type handed to `div_rem`) -/
def divRemK (v : Vec) (kind : SrcKind) (r : AnyBv) : Res (Vec × Vec) :=
  match v with
  | .f w s => (Bvf.divRem s kind r).map fun p => (.f w p.1, .f w p.2)
  | .d s => (Bvd.divRem s r).map fun p => (.d p.1, .d p.2)
  | .a (.fixed s) => (Bvf.divRem s kind r).map fun p => (.a (.fixed p.1), .a (.fixed p.2))
  | .a (.dynamic s) => (Bvd.divRem s r).map fun p => (.a (.dynamic p.1), .a (.dynamic p.2))
/-- `/`, `%` and their assign forms: for a `Bv` subject the operators dispatch on the variant and
call the *variant's* `div_rem` -/
def divRemOp (v : Vec) (x : Rhs) : Res (Vec × Vec) := divRemK v x.kind (x.any v)
/-- the public trait method `div_rem::<B>(&divisor)` (for a `Bv` subject: `Bv::div_rem`) -/
def divRem (v : Vec) (x : Vec) : Res (Vec × Vec) :=
  match v with
  | .a s => (s.divRem x.kind x.any).map fun p => (.a p.1, .a p.2)
  | _ => divRemK v x.kind x.any
/-- `!v` by value; `byRef` selects the separately written `Not for &Bvd` -/
def not (v : Vec) (byRef : Bool) : Vec :=
  match v with
  | .f w s => .f w (Bvf.not s)
  | .d s => .d (if byRef then Bvd.notRef s else Bvd.not s)
  | .a (.fixed s) => .a (.fixed (Bvf.not s))
  | .a (.dynamic s) => .a (.dynamic (if byRef then Bvd.notRef s else Bvd.not s))   -- `!&Bv` reaches `Not for &Bvd`
/-- narrowing of the shift amount to `usize`, saturating (repair D4) -/
def narrowShift (k : Nat) : Nat := min k (2 ^ 64 - 1)
/-- `v << k`, `v >> k`; `byRef` selects the separately written `Shl/Shr for &Bvd` -/
def shl (v : Vec) (k : Nat) (byRef : Bool) : Vec :=
  let k := narrowShift k
  match v with
  | .d s => .d (if byRef then Bvd.shlRef s k else s.shlAssign k)
  | _ => v.mapRaw (·.shlAssign k)
def shr (v : Vec) (k : Nat) (byRef : Bool) : Vec :=
  let k := narrowShift k
  match v with
  | .d s => .d (if byRef then Bvd.shrRef s k else s.shrAssign k)
  | _ => v.mapRaw (·.shrAssign k)

end Api
end Bva
