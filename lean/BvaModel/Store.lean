import BvaModel.Word
/-!
# L1 — storage: arrays of words, the `IArray`/`IArrayMut` re-chunking of `src/utils.rs`,
and the raw vector record shared by `Bvf<I,N>` (`w = I::BITS`, `data.size = N`) and `Bvd` (`w = 64`).

Array access is total here (`getD … 0`, out-of-range writes dropped); Rust's implicit bounds-check
panics are covered by in-bounds lemmas and by comparing panic status in the correspondence check.
-/
namespace Bva

variable {w : Nat}

/-- `for i in a..b { s = f i s }` -/
def forRange (a b : Nat) (f : Nat → σ → σ) (init : σ) : σ :=
  (List.range' a (b - a)).foldl (fun s i => f i s) init

/-- `for i in (a..b).rev()` -/
def forRangeRev (a b : Nat) (f : Nat → σ → σ) (init : σ) : σ :=
  (List.range' a (b - a)).foldr (fun i s => f i s) init

/-- `data[i]` as a read (0 when out of range) -/
@[inline] def wd (ws : Array (BitVec w)) (i : Nat) : BitVec w := ws.getD i 0#w

/-- bit `i` of the whole array (word `i / w`, position `i % w`) -/
def bitAt (ws : Array (BitVec w)) (i : Nat) : Bool := (wd ws (i / w)).getLsbD (i % w)

/-- Σ_{i<n} ws[i]·2^(w·i) -/
def valUpTo (ws : Array (BitVec w)) : Nat → Nat
  | 0 => 0
  | n + 1 => valUpTo ws n + 2 ^ (w * n) * (wd ws n).toNat

/-- value of the whole storage -/
def valAll (ws : Array (BitVec w)) : Nat := valUpTo ws ws.size

/-- `(bit_length + BIT_UNIT - 1) / BIT_UNIT` (for `Bvd` the byte detour gives the same number) -/
def capFromBitLen (w n : Nat) : Nat := (n + w - 1) / w

/-- `if let Some(l) = data.get_mut(len / BIT_UNIT) { *l &= mask(len % BIT_UNIT) }` -/
def maskAt (ws : Array (BitVec w)) (len : Nat) : Array (BitVec w) :=
  ws.modify (len / w) (· &&& mask w (len % w))

/-- `Bvf::mod2n` -/
def mod2n (ws : Array (BitVec w)) (n : Nat) : Array (BitVec w) :=
  ws.mapIdx fun i x => x &&& mask w (min (n - min n (i * w)) w)

-- ---- chunk read / write used by shifts and rotations ---------------------------------------------
/-- `(data[pos / w] >> (pos % w)) & mask(l)` -/
def readBits (ws : Array (BitVec w)) (pos l : Nat) : BitVec w :=
  (wd ws (pos / w) >>> (pos % w)) &&& mask w l

/-- `data[j] &= !(mask(l) << o); data[j] |= d << o` with `j = pos / w`, `o = pos % w` -/
def writeBits (ws : Array (BitVec w)) (pos l : Nat) (d : BitVec w) : Array (BitVec w) :=
  let j := pos / w
  let o := pos % w
  ws.setIfInBounds j ((wd ws j &&& ~~~ (mask w l <<< o)) ||| (d <<< o))

/-- `data[j] &= !(mask(l) << o)` -/
def clearBits (ws : Array (BitVec w)) (pos l : Nat) : Array (BitVec w) :=
  let j := pos / w
  let o := pos % w
  ws.setIfInBounds j (wd ws j &&& ~~~ (mask w l <<< o))

/-- `data[j] |= d << o` -/
def orBits (ws : Array (BitVec w)) (pos : Nat) (d : BitVec w) : Array (BitVec w) :=
  let j := pos / w
  ws.setIfInBounds j (wd ws j ||| (d <<< (pos % w)))

-- ---- `impl IArray for [I]` ------------------------------------------------------------------------
/-- `[I]::int_len::<J>()` = `(size_of_val + size_of::<J>() - 1) / size_of::<J>()`; the code counts
bytes, the model bits (the same number whenever `8 ∣ w` and `8 ∣ wJ`). -/
def sliceIntLen (ws : Array (BitVec w)) (wJ : Nat) : Nat :=
  (ws.size * w + wJ - 1) / wJ

/-- `[I]::get_int::<J>(idx)`; the `align_to` branch is modelled by its little-endian meaning. -/
def sliceGetInt (ws : Array (BitVec w)) (wJ idx : Nat) : Option (BitVec wJ) :=
  if wJ ≤ w then
    let r := w / wJ
    if idx < ws.size * r then some ((wd ws (idx / r) >>> ((idx % r) * wJ)).setWidth wJ) else none
  else
    let s := wJ / w
    if idx ≥ sliceIntLen ws wJ then none
    else some (forRange 0 s (fun i v => v ||| ((wd ws (idx * s + i)).setWidth wJ <<< (w * i))) 0#wJ)

/-- `[I]::set_int::<J>(idx, v)`; returns the new array (`None` ⇒ unchanged). -/
def sliceSetInt (ws : Array (BitVec w)) (wJ idx : Nat) (v : BitVec wJ) : Array (BitVec w) :=
  if wJ ≤ w then
    let r := w / wJ
    if idx < ws.size * r then
      let j := idx / r
      let o := (idx % r) * wJ
      ws.setIfInBounds j ((wd ws j &&& ~~~ ((mask w wJ) <<< o)) ||| (v.setWidth w <<< o))
    else ws
  else
    let s := wJ / w
    if idx ≥ sliceIntLen ws wJ then ws
    else forRange 0 s (fun i a => a.setIfInBounds (idx * s + i) ((v >>> (w * i)).setWidth w)) ws

-- ---- the raw vector --------------------------------------------------------------------------------
/-- `Bvf<I,N> { data: [I; N], length }` with `w = I::BITS`, `N = data.size`; `Bvd` with `w = 64`. -/
structure Raw (w : Nat) where
  data : Array (BitVec w)
  length : Nat
deriving Repr, Inhabited, DecidableEq

namespace Raw

/-- storage invariant: length within capacity, every storage bit at index ≥ length is zero -/
def Inv (s : Raw w) : Prop :=
  s.length ≤ s.data.size * w ∧ ∀ i, s.length ≤ i → bitAt s.data i = false

/-- executable version of `Inv`, for the driver -/
def invB (s : Raw w) : Bool :=
  decide (s.length ≤ s.data.size * w) && valAll s.data < 2 ^ s.length

/-- abstraction to L0: reads ALL storage, so that garbage beyond `length` is visible -/
def abs (s : Raw w) : BV := ⟨s.length, valAll s.data⟩

def cap (s : Raw w) : Nat := s.data.size * w

/-- `Bvf/Bvd::int_len::<J>()` -/
def intLen (s : Raw w) (wJ : Nat) : Nat := (s.length + wJ - 1) / wJ

/-- `Bvf/Bvd::get_int::<J>(idx)` -/
def getInt (s : Raw w) (wJ idx : Nat) : Option (BitVec wJ) :=
  if idx * wJ < s.length then
    (sliceGetInt s.data wJ idx).map (· &&& mask wJ (s.length - idx * wJ))
  else none

/-- `Bvf/Bvd::set_int::<J>(idx, v)` -/
def setInt (s : Raw w) (wJ idx : Nat) (v : BitVec wJ) : Raw w :=
  if idx * wJ < s.length then
    { s with data := sliceSetInt s.data wJ idx (v &&& mask wJ (s.length - idx * wJ)) }
  else s

end Raw

/-- Outcome of a model operation. -/
inductive Res (α : Type) where
  | ok (a : α)
  | err (kind : String)
  | panic
deriving Repr, Inhabited

end Bva
