import BvaModel.Fixed
/-!
# L1 — `Bvd` (`src/dynamic.rs`): bodies specific to the heap implementation (`w = 64`)

Repairs D2, D3, D5, D6 are part of the modelled code.
-/
namespace Bva
namespace Bvd

abbrev W : Nat := 64
abbrev capW (n : Nat) : Nat := capFromBitLen 64 n

/-- `reserve(additional)` -/
def reserve (s : Raw 64) (additional : Nat) : Raw 64 :=
  let newCap := s.length + additional
  if capW newCap > s.data.size then
    { s with data := Array.ofFn (n := capW newCap) fun i => wd s.data i.val }
  else s

/-- `shrink_to_fit()` -/
def shrinkToFit (s : Raw 64) : Raw 64 :=
  if capW s.length < s.data.size then
    { s with data := Array.ofFn (n := capW s.length) fun i => wd s.data i.val }
  else s

def withCapacity (c : Nat) : Raw 64 := ⟨Array.replicate (capW c) 0#64, 0⟩
def zeros (n : Nat) : Raw 64 := ⟨Array.replicate (capW n) 0#64, n⟩

/-- `v.last_mut() &= mask(..)` -/
def maskLast (ws : Array (BitVec 64)) (length : Nat) : Array (BitVec 64) :=
  ws.modify (ws.size - 1) (· &&& mask 64 (lastBits 64 length))

def ones (n : Nat) : Raw 64 := ⟨maskLast (Array.replicate (capW n) (BitVec.allOnes 64)) n, n⟩

/-- `is_zero`: the used words only -/
def isZero (s : Raw 64) : Bool := (List.range (capW s.length)).all fun i => wd s.data i == 0#64

def fromBinary (cs : List Char) : Res (Raw 64) :=
  let length := cs.length
  let offset := (64 - length % 64) % 64
  let n := capW length
  match Bvf.parseLoop 1 Bvf.binVal (fun i => n - 1 - (i + offset) / 64) cs 0 (Array.replicate n 0#64) with
  | .ok a => .ok ⟨a, length⟩
  | .error i => .err s!"InvalidFormat({i})"

def fromHex (cs : List Char) : Res (Raw 64) :=
  let length := cs.length
  let offset := (16 - length % 16) % 16
  let n := ((length + 1) / 2 + 7) / 8
  match Bvf.parseLoop 4 Bvf.hexVal (fun i => n - 1 - (i + offset) / 16) cs 0 (Array.replicate n 0#64) with
  | .ok a => .ok ⟨a, length * 4⟩
  | .error i => .err s!"InvalidFormat({i})"

def fromBytes (bytes : List Nat) (big : Bool) : Raw 64 :=
  let bl := bytes.length
  let n := (bl + 7) / 8
  let offset := (8 - bl % 8) % 8
  let bs := if big then bytes else bytes.reverse
  let data := ((List.range bl).zip bs).foldl (fun a (p : Nat × Nat) =>
      let j := n - 1 - (p.1 + offset) / 8
      a.setIfInBounds j ((wd a j <<< 8) ||| BitVec.ofNat 64 p.2)) (Array.replicate n 0#64)
  ⟨data, bl * 8⟩

def read (input : List Nat) (length : Nat) (big : Bool) : Res (Raw 64 × List Nat) :=
  let nb := (length + 7) / 8
  if input.length < nb then .err "UnexpectedEof" else
  let bv := fromBytes (input.take nb) big
  .ok (⟨maskLast bv.data length, length⟩, input.drop nb)

def copyRange (s : Raw 64) (st en : Nat) : Raw 64 :=
  let length := en - min st en
  let offset := st / 64
  let slide := st % 64
  let n := capW length
  let data := Array.ofFn (n := n) fun i =>
    (wd s.data (i.val + offset) >>> slide) ||| (wd s.data (i.val + offset + 1) <<< (64 - slide))
  ⟨maskLast data length, length⟩

def push (s : Raw 64) (bit : Bool) : Raw 64 :=
  let s1 := reserve s 1
  ({ s1 with length := s1.length + 1 } : Raw 64).set s1.length bit

def resize (s : Raw 64) (newLen : Nat) (bit : Bool) : Raw 64 :=
  if newLen < s.length then s.shrink newLen
  else if newLen > s.length then (reserve s (newLen - s.length)).grow newLen bit
  else s

/-- `append` — word-granular -/
def append (s : Raw 64) (x : AnyBv) : Raw 64 :=
  let offset := s.length % 64
  let slide := s.length / 64
  let s1 := resize s (s.length + x.len) false
  let n := x.intLen 64
  if offset = 0 then
    { s1 with data := forRange 0 n (fun i a => a.setIfInBounds (i + slide) ((x.getInt 64 i).getD 0#64)) s1.data }
  else
    match x.getInt 64 0 with
    | some b0 =>
      let d := s1.data.setIfInBounds slide (wd s1.data slide ||| (b0 <<< offset))
      let rev := 64 - offset
      let (d, prev) := forRange 1 n (fun i (p : Array (BitVec 64) × BitVec 64) =>
          let b := (x.getInt 64 i).getD 0#64
          (p.1.setIfInBounds (i + slide) ((p.2 >>> rev) ||| (b <<< offset)), b)) (d, b0)
      { s1 with data := d.setIfInBounds (max n 1 + slide) (prev >>> rev) }
    | none => s1

/-- `prepend` (repair D5) -/
def prepend (s : Raw 64) (x : AnyBv) : Raw 64 :=
  if x.len = 0 then s else
  let s1 := resize s (s.length + x.len) false
  let s2 := s1.shlAssign x.len
  let last := x.intLen 64 - 1
  let d := forRange 0 last (fun i a => a.setIfInBounds i ((x.getInt 64 i).getD 0#64)) s2.data
  { s2 with data := d.modify last (· ||| (x.getInt 64 last).getD 0#64) }

def hashStream (s : Raw 64) : List (Nat × Nat) :=
  let sg := s.sigBits
  (64, sg) :: (List.range (capW sg)).map fun i => (64, (wd s.data i).toNat)

/-- `PartialEq for Bvd`: all allocated words of both -/
def eqBvd (s o : Raw 64) : Bool :=
  (List.range (max s.data.size o.data.size)).all fun i => wd s.data i == wd o.data i

/-- `Ord for Bvd` -/
def cmpBvd (s o : Raw 64) : Ordering :=
  Bvf.cmpWords (wd s.data) (wd o.data) (max s.data.size o.data.size)

/-- `PartialEq<Bvf<I,N>> for Bvd` (the loop bound really is the *bit* length of `self`) -/
def eqBvf (s : Raw 64) {w1 : Nat} (o : Raw w1) : Bool :=
  (List.range (max s.length (o.intLen 64))).all fun i => wd s.data i == (o.getInt 64 i).getD 0#64

def cmpBvf (s : Raw 64) {w1 : Nat} (o : Raw w1) : Ordering :=
  Bvf.cmpWords (wd s.data) (fun i => (o.getInt 64 i).getD 0#64) (max s.length (o.intLen 64))

/-- `From<uN> for Bvd` -/
def fromUInt (W x : Nat) : Raw 64 :=
  if W ≤ 64 then ⟨#[BitVec.ofNat 64 x], W⟩
  else ⟨Array.ofFn (n := W / 64) fun i => BitVec.ofNat 64 (x >>> (64 * i.val)), W⟩

/-- `TryFrom<&Bvd> for uN` -/
def toUInt (s : Raw 64) (W : Nat) : Res Nat :=
  if s.sigBits > W then .err "NotEnoughCapacity" else
  .ok (forRangeRev 0 (capW s.length) (fun i (r : BitVec W) =>
    (if 64 < W then r <<< 64 else 0#W) ||| (wd s.data i).setWidth W) 0#W).toNat

/-- `From<&[I]> for Bvd` -/
def fromSlice (wJ : Nat) (xs : List Nat) : Raw 64 :=
  ((List.range xs.length).zip xs).foldl (fun a (p : Nat × Nat) => a.setInt wJ p.1 (BitVec.ofNat wJ p.2))
    (zeros (xs.length * wJ))

/-- `From<&Bvf<I,N>> for Bvd` -/
def fromBvf {w1 : Nat} (o : Raw w1) : Raw 64 :=
  ⟨Array.ofFn (n := o.intLen 64) fun i => (o.getInt 64 i.val).getD 0#64, o.length⟩

/-- `Not for Bvd` (in place) -/
def not (s : Raw 64) : Raw 64 :=
  let d := forRange 0 (capW s.length) (fun i a => a.setIfInBounds i (~~~ wd a i)) s.data
  { s with data := maskAt d s.length }

/-- `Not for &Bvd` (fresh storage) -/
def notRef (s : Raw 64) : Raw 64 :=
  let d := Array.ofFn (n := min (capW s.length) s.data.size) fun i => ~~~ wd s.data i.val
  ⟨maskAt d s.length, s.length⟩

/-- the loop of `Shl<uN> for &Bvd` (ORs into fresh storage) -/
def shlRefLoop (old new : Array (BitVec 64)) (shift newIdx : Nat) : Array (BitVec 64) :=
  if _h : newIdx > shift then
    let l := min ((newIdx - 1) % 64 + 1) ((newIdx - shift - 1) % 64 + 1)
    let n' := newIdx - l
    shlRefLoop old (orBits new n' (readBits old (n' - shift) l)) shift n'
  else new
termination_by newIdx
decreasing_by
  have : 1 ≤ min ((newIdx - 1) % 64 + 1) ((newIdx - shift - 1) % 64 + 1) := by omega
  omega

def shlRef (s : Raw 64) (shift : Nat) : Raw 64 :=
  ⟨shlRefLoop s.data (Array.replicate (capW s.length) 0#64) shift s.length, s.length⟩

def shrRefLoop (old new : Array (BitVec 64)) (shift length newIdx : Nat) : Array (BitVec 64) :=
  if _h : newIdx + shift < length then
    let oldIdx := newIdx + shift
    let l := min (64 - newIdx % 64) (64 - oldIdx % 64)
    shrRefLoop old (orBits new newIdx (readBits old oldIdx l)) shift length (newIdx + l)
  else new
termination_by length - newIdx
decreasing_by
  have h1 := Nat.mod_lt newIdx (by decide : 0 < 64)
  have h2 := Nat.mod_lt (newIdx + shift) (by decide : 0 < 64)
  omega

def shrRef (s : Raw 64) (shift : Nat) : Raw 64 :=
  ⟨shrRefLoop s.data (Array.replicate (capW s.length) 0#64) shift s.length 0, s.length⟩

/-- word `i` of the right-hand side and the number of RHS words, as `Bvd (op)= rhs` sees them -/
def rhsWords (x : AnyBv) : Nat × (Nat → BitVec 64) :=
  match x with
  | .d r => (capW r.length, fun i => wd r.data i)
  | .f _ r => (r.intLen 64, fun i => (r.getInt 64 i).getD 0#64)

/-- `BitAndAssign / BitOrAssign / BitXorAssign` for `Bvd` (repairs D2, D3) -/
def bitopAssign (op : BitOp) (s : Raw 64) (x : AnyBv) : Raw 64 :=
  let used := capW s.length
  let (nr, fetch) := rhsWords x
  let d := forRange 0 (min used nr) (fun i a => a.setIfInBounds i (op.ap (wd a i) (fetch i))) s.data
  let d := forRange (min nr used) used (fun i a => a.setIfInBounds i (op.ap (wd a i) 0#64)) d
  { s with data := maskAt d s.length }

/-- `overflowing_add` / `overflowing_sub` -/
def ovf (sub : Bool) (a b : BitVec 64) : BitVec 64 × Bool :=
  if sub then (a - b, decide (a.toNat < b.toNat)) else (a + b, BitVec.carry 64 a b false)

/-- `AddAssign / SubAssign` for `Bvd` (carry convention `c1 | c2`; repair D3 on the `&Bvf` arm) -/
def addsubAssign (sub : Bool) (s : Raw 64) (x : AnyBv) : Raw 64 :=
  let used := capW s.length
  let (nr, fetch) := rhsWords x
  let (d, carry) := forRange 0 (min used nr) (fun i (p : Array (BitVec 64) × BitVec 64) =>
      let (d1, c1) := ovf sub (wd p.1 i) p.2
      let (d2, c2) := ovf sub d1 (fetch i)
      (p.1.setIfInBounds i d2, b2w 64 (c1 || c2))) (s.data, 0#64)
  let (d, _) := forRange nr used (fun i (p : Array (BitVec 64) × BitVec 64) =>
      let (d1, c) := ovf sub (wd p.1 i) p.2
      (p.1.setIfInBounds i d1, b2w 64 c)) (d, carry)
  { s with data := maskAt d s.length }

/-- `Mul<&Bvd> / Mul<&Bvf> for &Bvd` -/
def mul (s : Raw 64) (x : AnyBv) : Raw 64 :=
  let len := capW s.length
  let fetch : Nat → BitVec 64 := match x with
    | .d r => fun j => wd r.data j
    | .f _ r => fun j => (r.getInt 64 j).getD 0#64
  ⟨maskAt (Bvf.mulRows s.data fetch len (Array.replicate len 0#64)) s.length, s.length⟩

end Bvd

/-- `TryFrom<&Bv> for Bvf<I,N>` (the source is given as the variant it holds) -/
def Bvf.fromBv (w N : Nat) (x : AnyBv) : Res (Raw w) :=
  if x.len > N * w then .err "NotEnoughCapacity" else
  .ok ⟨forRange 0 (x.intLen w) (fun i a => a.setIfInBounds i ((x.getInt w i).getD 0#w))
        (Array.replicate N 0#w), x.len⟩

end Bva
