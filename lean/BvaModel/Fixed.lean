import BvaModel.Kernels
/-!
# L1 — `Bvf<I,N>` (`src/fixed.rs`): bodies specific to the fixed-capacity implementation

`s : Raw w` with `s.data.size = N`.  The repairs D1, D2, D7, D8, D10 (see DESIGN.md 1.3) are part
of the modelled code.
-/
namespace Bva

/-- any bit vector passed where the Rust takes `&B, B: BitVector` or an operator right-hand side;
a `Bv` operand is normalised to the variant it holds (all its read-only methods delegate). -/
inductive AnyBv where
  | f (w : Nat) (b : Raw w)
  | d (b : Raw 64)
deriving Repr, Inhabited

namespace AnyBv
def len : AnyBv → Nat
  | f _ b => b.length
  | d b => b.length
def getInt (x : AnyBv) (wJ idx : Nat) : Option (BitVec wJ) :=
  match x with
  | f _ b => b.getInt wJ idx
  | d b => b.getInt wJ idx
def intLen (x : AnyBv) (wJ : Nat) : Nat := (x.len + wJ - 1) / wJ
def abs : AnyBv → BV
  | f _ b => b.abs
  | d b => b.abs
def invB : AnyBv → Bool
  | f _ b => b.invB
  | d b => b.invB
end AnyBv

/-- `length.wrapping_sub(1) % BIT_UNIT + 1` (for `length = 0` the wrap gives `BIT_UNIT`) -/
def lastBits (w length : Nat) : Nat := if length = 0 then w else (length - 1) % w + 1

inductive BitOp | and | or | xor
deriving Repr, DecidableEq

def BitOp.ap {w : Nat} : BitOp → BitVec w → BitVec w → BitVec w
  | .and, a, b => a &&& b
  | .or, a, b => a ||| b
  | .xor, a, b => a ^^^ b

namespace Bvf
variable {w : Nat}

def zeros (w N n : Nat) : Res (Raw w) :=
  if n > N * w then .panic else .ok ⟨Array.replicate N 0#w, n⟩

def ones (w N n : Nat) : Res (Raw w) :=
  if n > N * w then .panic else .ok ⟨mod2n (Array.replicate N (BitVec.allOnes w)) n, n⟩

/-- `is_zero`: all `N` words -/
def isZero (s : Raw w) : Bool := s.data.all (· == 0#w)

/-- `copy_range(start..end)` (index checks are `debug_assert!`s, handled by the caller) -/
def copyRange (s : Raw w) (st en : Nat) : Raw w :=
  let length := en - min st en
  let offset := st / w
  let slide := st % w
  let n := capFromBitLen w length
  let z := Array.replicate s.data.size 0#w
  let data :=
    if slide > 0 then
      forRange 0 n (fun i a => a.setIfInBounds i
        ((wd s.data (i + offset) >>> slide) ||| (wd s.data (i + offset + 1) <<< (w - slide)))) z
    else
      forRange 0 n (fun i a => a.setIfInBounds i (wd s.data (i + offset))) z
  ⟨data.modify (length / w) (· &&& mask w (lastBits w length)), length⟩

/-- `push` (capacity check is an `assert!` after repair D10) -/
def push (s : Raw w) (bit : Bool) : Res (Raw w) :=
  if s.length < s.cap then .ok (({ s with length := s.length + 1 } : Raw w).set s.length bit)
  else .panic

/-- `resize` (growth beyond capacity panics, D10) -/
def resize (s : Raw w) (newLen : Nat) (bit : Bool) : Res (Raw w) :=
  if newLen < s.length then .ok (s.shrink newLen)
  else if newLen > s.length then
    if newLen ≤ s.cap then .ok (s.grow newLen bit) else .panic
  else .ok s

/-- `append` — byte-granular through `get_int::<u8>` / `set_int::<u8>` -/
def append (s : Raw w) (x : AnyBv) : Res (Raw w) :=
  let offset := s.length % 8
  let slide := s.length / 8
  match resize s (s.length + x.len) false with
  | .ok s1 =>
    let n := x.intLen 8
    if offset = 0 then
      .ok (forRange 0 n (fun i a => a.setInt 8 (i + slide) ((x.getInt 8 i).getD 0#8)) s1)
    else
      match x.getInt 8 0 with
      | some b0 =>
        let s2 := s1.setInt 8 slide (((s1.getInt 8 slide).getD 0#8) ||| (b0 <<< offset))
        let rev := 8 - offset
        let (s3, prev) := forRange 1 n (fun i (p : Raw w × BitVec 8) =>
            let b := (x.getInt 8 i).getD 0#8
            (p.1.setInt 8 (i + slide) ((p.2 >>> rev) ||| (b <<< offset)), b)) (s2, b0)
        .ok (s3.setInt 8 (max n 1 + slide) (prev >>> rev))
      | none => .ok s1
  | .err e => .err e
  | .panic => .panic

/-- `prepend` (empty prefix returns early, repair D5) -/
def prepend (s : Raw w) (x : AnyBv) : Res (Raw w) :=
  if x.len = 0 then .ok s else
  match resize s (s.length + x.len) false with
  | .ok s1 =>
    let s2 := s1.shlAssign x.len
    let last := x.intLen 8 - 1
    let s3 := forRange 0 last (fun i a => a.setInt 8 i ((x.getInt 8 i).getD 0#8)) s2
    .ok (s3.setInt 8 last (((s3.getInt 8 last).getD 0#8) ||| ((x.getInt 8 last).getD 0#8)))
  | .err e => .err e
  | .panic => .panic

-- ---- parsing / bytes ------------------------------------------------------------------------------
/-- `char::to_digit(16)` -/
def hexVal (c : Char) : Option Nat :=
  let n := c.toNat
  if 48 ≤ n ∧ n ≤ 57 then some (n - 48)
  else if 97 ≤ n ∧ n ≤ 102 then some (n - 87)
  else if 65 ≤ n ∧ n ≤ 70 then some (n - 55)
  else none

def binVal (c : Char) : Option Nat := if c = '0' then some 0 else if c = '1' then some 1 else none

/-- shared accumulate loop of `from_binary` / `from_hex`: `data[j i] = (data[j i] << sh) | digit` -/
def parseLoop (sh : Nat) (dig : Char → Option Nat) (j : Nat → Nat) :
    List Char → Nat → Array (BitVec w) → Except Nat (Array (BitVec w))
  | [], _, a => .ok a
  | c :: cs, i, a =>
    match dig c with
    | some d => parseLoop sh dig j cs (i + 1)
        (a.setIfInBounds (j i) ((wd a (j i) <<< sh) ||| BitVec.ofNat w d))
    | none => .error i

def fromBinary (w N : Nat) (cs : List Char) : Res (Raw w) :=
  let length := cs.length
  if length > N * w then .err "NotEnoughCapacity" else
  match parseLoop 1 binVal (fun i => (length - 1 - i) / w) cs 0 (Array.replicate N 0#w) with
  | .ok a => .ok ⟨a, length⟩
  | .error i => .err s!"InvalidFormat({i})"

def fromHex (w N : Nat) (cs : List Char) : Res (Raw w) :=
  let length := cs.length
  if length * 4 > N * w then .err "NotEnoughCapacity" else
  match parseLoop 4 hexVal (fun i => (length - 1 - i) / (w / 4)) cs 0 (Array.replicate N 0#w) with
  | .ok a => .ok ⟨a, length * 4⟩
  | .error i => .err s!"InvalidFormat({i})"

/-- `from_bytes` (four loops) -/
def fromBytes (w N : Nat) (bytes : List Nat) (big : Bool) : Res (Raw w) :=
  let bl := bytes.length
  if bl * 8 > N * w then .err "NotEnoughCapacity" else
  let z := Array.replicate N 0#w
  let bu := w / 8
  let ib := (List.range bl).zip bytes
  let data :=
    if !big then
      if bu = 1 then ib.foldr (fun (p : Nat × Nat) a => a.setIfInBounds p.1 (BitVec.ofNat w p.2)) z
      else ib.foldr (fun (p : Nat × Nat) a =>
        let j := p.1 / bu
        a.setIfInBounds j ((wd a j <<< 8) ||| BitVec.ofNat w p.2)) z
    else
      if bu = 1 then ib.foldl (fun a (p : Nat × Nat) => a.setIfInBounds (bl - 1 - p.1) (BitVec.ofNat w p.2)) z
      else ib.foldl (fun a (p : Nat × Nat) =>
        let j := (bl - 1 - p.1) / bu
        a.setIfInBounds j ((wd a j <<< 8) ||| BitVec.ofNat w p.2)) z
  .ok ⟨data, bl * 8⟩

/-- `read(reader, length, endianness)` over a byte list; returns the vector and the unread rest -/
def read (w N : Nat) (input : List Nat) (length : Nat) (big : Bool) : Res (Raw w × List Nat) :=
  if length > N * w then .err "InvalidInput" else
  let nb := (length + 7) / 8
  if input.length < nb then .err "UnexpectedEof" else
  match fromBytes w N (input.take nb) big with
  | .ok bv => .ok (⟨mod2n bv.data length, length⟩, input.drop nb)
  | .err _ => .err "InvalidData"
  | .panic => .panic

-- ---- hash ---------------------------------------------------------------------------------------
/-- the sequence of `Hasher::write_*` calls: (bit width, value); repair D6 -/
def hashStream (s : Raw w) : List (Nat × Nat) :=
  let sg := s.sigBits
  (64, sg) :: (List.range (capFromBitLen w sg)).map fun i => (w, (wd s.data i).toNat)

-- ---- comparison -----------------------------------------------------------------------------------
/-- `PartialEq<Bvf<I1,N1>> for Bvf<I2,N2>`: chunks of the *other* operand's word type -/
def eqBvf (s : Raw w) {w1 : Nat} (o : Raw w1) : Bool :=
  (List.range (max (s.intLen w1) (o.intLen w1))).all fun i =>
    (s.getInt w1 i).getD 0#w1 == (o.getInt w1 i).getD 0#w1

/-- `for i in (0..n).rev() { match a[i].cmp(b[i]) { Equal => continue, ord => return ord } } Equal` -/
def cmpWords {wJ : Nat} (a b : Nat → BitVec wJ) : Nat → Ordering
  | 0 => .eq
  | i + 1 => match compare (a i).toNat (b i).toNat with
    | .eq => cmpWords a b i
    | o => o

/-- `PartialOrd<Bvf<I1,N1>> for Bvf<I2,N2>` -/
def cmpBvf (s : Raw w) {w1 : Nat} (o : Raw w1) : Ordering :=
  cmpWords (fun i => (s.getInt w1 i).getD 0#w1) (fun i => (o.getInt w1 i).getD 0#w1)
    (max (s.intLen w1) (o.intLen w1))

-- ---- conversions ----------------------------------------------------------------------------------
/-- `TryFrom<uN> for Bvf<I,N>` (`W` = width of the integer type, `x < 2^W`) -/
def fromUInt (w N W x : Nat) : Res (Raw w) :=
  if W ≤ w then
    .ok ⟨(Array.replicate N 0#w).setIfInBounds 0 (BitVec.ofNat w x), W⟩
  else
    if BV.natBits x > N * w then .err "NotEnoughCapacity" else
    .ok ⟨Array.ofFn (n := N) fun i => BitVec.ofNat w (x >>> (i.val * w)), min W (N * w)⟩

/-- `TryFrom<&Bvf<I,N>> for uN` (repair D7: `unwrap_or(0)`) -/
def toUInt (s : Raw w) (W : Nat) : Res Nat :=
  if s.sigBits > W then .err "NotEnoughCapacity" else .ok ((s.getInt W 0).getD 0#W).toNat

/-- `TryFrom<&[J]> for Bvf<I,N>` -/
def fromSlice (w N wJ : Nat) (xs : List Nat) : Res (Raw w) :=
  if xs.length * wJ ≤ N * w then
    let z : Raw w := ⟨Array.replicate N 0#w, xs.length * wJ⟩
    .ok (((List.range xs.length).zip xs).foldl (fun a (p : Nat × Nat) => a.setInt wJ p.1 (BitVec.ofNat wJ p.2)) z)
  else .err "NotEnoughCapacity"

/-- `TryFrom<&Bvf<I1,N1>> for Bvf<I2,N2>` -/
def fromBvf (w N : Nat) {w1 : Nat} (o : Raw w1) : Res (Raw w) :=
  if N * w < o.length then .err "NotEnoughCapacity" else
  .ok ⟨forRange 0 (min N (o.intLen w)) (fun i a => a.setIfInBounds i ((o.getInt w i).getD 0#w))
        (Array.replicate N 0#w), o.length⟩

/-- `TryFrom<&Bvd> for Bvf<I,N>` -/
def fromBvd (w N : Nat) (o : Raw 64) : Res (Raw w) :=
  if o.length > N * w then .err "NotEnoughCapacity" else
  .ok ⟨Array.ofFn (n := N) fun i => (o.getInt w i.val).getD 0#w, o.length⟩

-- ---- operators ------------------------------------------------------------------------------------
/-- `Not for Bvf` -/
def not (s : Raw w) : Raw w := { s with data := mod2n (s.data.map (~~~ ·)) s.length }

/-- word `i` of the right-hand side as `Bvf (op)= rhs` fetches it -/
def rhsWord (w : Nat) (N : Nat) (x : AnyBv) (i : Nat) : BitVec w :=
  match x with
  | .f w2 r =>
    if w = w2 then (if i < min N r.data.size then (wd r.data i).setWidth w else 0#w)
    else (r.getInt w i).getD 0#w
  | .d r => (r.getInt w i).getD 0#w

/-- `BitAndAssign / BitOrAssign / BitXorAssign` for `Bvf` (all three RHS arms; repair D2 adds the mask) -/
def bitopAssign (op : BitOp) (s : Raw w) (x : AnyBv) : Raw w :=
  let N := s.data.size
  { s with data := mod2n (s.data.mapIdx fun i a => op.ap a (rhsWord w N x i)) s.length }

/-- `for i in 0..N { carry = data[i].cadd/csub(rhs_i, carry) }` -/
def chain (prim : BitVec w → BitVec w → BitVec w → BitVec w × BitVec w)
    (ws : Array (BitVec w)) (fetch : Nat → BitVec w) (lo hi : Nat) (c : BitVec w) :
    Array (BitVec w) × BitVec w :=
  forRange lo hi (fun i (p : Array (BitVec w) × BitVec w) =>
    let r := prim (wd p.1 i) (fetch i) p.2
    (p.1.setIfInBounds i r.1, r.2)) (ws, c)

/-- `AddAssign` / `SubAssign` for `Bvf` (all RHS arms), then `mod2n` -/
def addsubAssign (sub : Bool) (s : Raw w) (x : AnyBv) : Raw w :=
  let N := s.data.size
  let prim := if sub then @csub w else @cadd w
  { s with data := mod2n (chain prim s.data (rhsWord w N x) 0 N 0#w).1 s.length }

/-- `Mul<&Bvf>` / `Mul<&Bvd>` for `&Bvf`: schoolbook rows -/
def mulRows (ws : Array (BitVec w)) (fetch : Nat → BitVec w) (len : Nat) (res : Array (BitVec w)) :
    Array (BitVec w) :=
  forRange 0 len (fun i res =>
    (forRange 0 (len - i) (fun j (p : Array (BitVec w) × BitVec w) =>
      let product := wmul (wd ws i) (fetch j)
      let r := cadd (wd p.1 (i + j)) product.1 p.2
      (p.1.setIfInBounds (i + j) r.1, r.2 + product.2)) (res, 0#w)).1) res

def mul (s : Raw w) (x : AnyBv) : Raw w :=
  let N := s.data.size
  let len := capFromBitLen w s.length
  let fetch := fun j => match x with
    | .f _ r => (r.getInt w j).getD 0#w
    | .d r => (r.getInt w j).getD 0#w
  ⟨mod2n (mulRows s.data fetch len (Array.replicate N 0#w)) s.length, s.length⟩

end Bvf
end Bva
