import BvaModel.Spec
/-!
# L1 — word primitives (`src/utils.rs`, trait `Integer`)

Words are `BitVec w`; Rust instantiates `w ∈ {8,16,32,64,128}` (and `usize` = 64).
The five hand-copied `impl Integer for uN` blocks are the same text, so there is one model
function per method, generic in `w`; `u128::wmul` is a different algorithm and is modelled
separately (`wmulSplit`).
-/
namespace Bva

/-- `Integer::mask(length)`: `if length < BITS { (1 << length).wrapping_sub(1) } else { MAX }` -/
def mask (w l : Nat) : BitVec w :=
  if l < w then (1#w <<< l) - 1#w else BitVec.allOnes w

/-- `bool as Self` -/
def b2w (w : Nat) (b : Bool) : BitVec w := if b then 1#w else 0#w

/-- `Integer::cadd(&mut self, rhs, carry) -> carry_out`; returns (new self, carry out).
`c1 as Self + c2 as Self` is a non-wrapping `+` in Rust; it is `≤ 2` so never overflows for `w ≥ 2`
(lemma `cadd_carry_le`). -/
def cadd {w : Nat} (a rhs carry : BitVec w) : BitVec w × BitVec w :=
  let v1 := a + rhs
  let c1 := BitVec.carry w a rhs false     -- overflowing_add flag
  let v2 := v1 + carry
  let c2 := BitVec.carry w v1 carry false
  (v2, b2w w c1 + b2w w c2)

/-- `Integer::csub`. Overflow flag of `overflowing_sub x y` is `x < y`. -/
def csub {w : Nat} (a rhs carry : BitVec w) : BitVec w × BitVec w :=
  let v1 := a - rhs
  let c1 := decide (a.toNat < rhs.toNat)
  let v2 := v1 - carry
  let c2 := decide (v1.toNat < carry.toNat)
  (v2, b2w w c1 + b2w w c2)

/-- `wmul` for u8..u64/usize: widen, multiply, split. Returns (low, high). -/
def wmulWide {w : Nat} (a b : BitVec w) : BitVec w × BitVec w :=
  let res : BitVec (2 * w) := a.setWidth (2 * w) * b.setWidth (2 * w)
  (res.setWidth w, (res >>> w).setWidth w)

/-- `u128::wmul`: half-word schoolbook (`h = BITS/2`). -/
def wmulSplit {w : Nat} (a b : BitVec w) : BitVec w × BitVec w :=
  let h := w / 2
  let m : BitVec w := (1#w <<< h) - 1#w
  let p0 := (a &&& m) * (b &&& m)
  let p1 := (a >>> h) * (b &&& m)
  let p2 := (a &&& m) * (b >>> h)
  let p3 := (a >>> h) * (b >>> h)
  let (p0', c) := cadd p0 (p1 <<< h) (p2 <<< h)
  (p0', p3 + (p1 >>> h) + (p2 >>> h) + c)

/-- the `wmul` the code uses at width `w` -/
def wmul {w : Nat} (a b : BitVec w) : BitVec w × BitVec w :=
  if w = 128 then wmulSplit a b else wmulWide a b

/-- `uN::leading_zeros` (std intrinsic, modelled by its meaning) -/
def clz {w : Nat} (x : BitVec w) : Nat := w - BV.natBits x.toNat
/-- `uN::trailing_zeros` (std intrinsic, modelled by its meaning; `w` for zero) -/
def ctz {w : Nat} (x : BitVec w) : Nat := BV.natTz w x.toNat
def clo {w : Nat} (x : BitVec w) : Nat := clz (~~~ x)
def cto {w : Nat} (x : BitVec w) : Nat := ctz (~~~ x)

/-- `StaticCast`: `x as J` (truncate or zero-extend) -/
def cast {w : Nat} (wJ : Nat) (x : BitVec w) : BitVec wJ := x.setWidth wJ

end Bva
