import BvaModel.Driver
/-!
# Operation table: for every protocol operation, the L1 model result and the L0 spec result
-/
namespace Bva
namespace Drv
open Api

def capOf : Ty → Option Nat
  | .f w N => some (N * w)
  | _ => none

def overCap (t : Ty) (n : Nat) : Bool :=
  match capOf t with
  | some c => n > c
  | none => false

def okV (v : Vec) : Out := .ok [.vec v]
def resV : Res Vec → Out
  | .ok v => .ok [.vec v]
  | .err e => .err e
  | .panic => .panic

/-- spec result of an operation whose result has the subject's type: panics iff over capacity -/
def specGrow (t : Ty) (r : BV) (extra : List Val := []) : Out :=
  if overCap t r.len then .panic else .ok (.sv r :: extra)

/-- the same with the result computed only when it fits (lengths near `2^64` must not be materialised) -/
def specGrowL (t : Ty) (len : Nat) (r : Unit → BV) : Out :=
  if overCap t len then .panic else .ok [.sv (r ())]

def bvOfBits (l : List Bool) : BV := BV.ofBits l

-- ---- spec helpers ---------------------------------------------------------------------------------
def firstBad (dig : Char → Option Nat) : List Char → Nat → Option Nat
  | [], _ => none
  | c :: cs, i => if (dig c).isNone then some i else firstBad dig cs (i + 1)

def digitsVal (base : Nat) (dig : Char → Option Nat) (cs : List Char) : Nat :=
  cs.foldl (fun acc c => acc * base + (dig c).getD 0) 0

def specParse (bitsPer : Nat) (dig : Char → Option Nat) (t : Ty) (cs : List Char) : Out :=
  if overCap t (cs.length * bitsPer) then .err "NotEnoughCapacity" else
  match firstBad dig cs 0 with
  | some i => .err s!"InvalidFormat({i})"
  | none => .ok [.sv ⟨cs.length * bitsPer, digitsVal (2 ^ bitsPer) dig cs⟩]

def specHash (wWord : Nat) (a : BV) : List (Nat × Nat) :=
  let sg := a.sig
  (64, sg) :: (List.range ((sg + wWord - 1) / wWord)).map fun i => (wWord, (a.val >>> (wWord * i)) % 2 ^ wWord)

def wordWidth : Ty → Nat
  | .f w _ => w
  | _ => 64

def specRhs : Rhs → BV
  | .vec v => v.abs
  | .uint W x => ⟨W, x⟩

def parseCalls (s : String) : Option (List IterCall) :=
  if s = "-" then some [] else
  (s.splitOn ",").mapM fun (t : String) =>
    if t = "next" then some .next else if t = "back" then some .nextBack
    else if t = "hint" then some .sizeHint else if t = "count" then some .count
    else if t = "last" then some .last
    else if t.startsWith "nth:" then (t.drop 4).toString.toNat?.map .nth
    else if t.startsWith "nthb:" then (t.drop 5).toString.toNat?.map .nthBack
    else none

def iterVals (l : List IterOut) : List Val := l.map fun
  | .bit o => .obit o
  | .num n => .nat n

/-- `S<fill code point hex>.<n|l|r|c>.<plus>.<alt>.<zero>.<width or ->` -/
def parseSpec (s : String) : Option Api.FmtSpec :=
  match (s.drop 1).toString.splitOn "." with
  | [f, a, p, h, z, w] => do
    let f ← parseHex f
    let al : Nat := if a = "l" then 1 else if a = "r" then 2 else if a = "c" then 3 else 0
    let p ← parseBool p; let h ← parseBool h; let z ← parseBool z
    let wd : Option Nat := if w = "-" then none else w.toNat?
    pure { fill := Char.ofNat f, align := al, plus := p, alt := h, zero := z, width := wd }
  | _ => none

def specNumeral (k : Char) (v : Nat) : List Char :=
  match k with
  | 'b' => BV.numeral 2 false v
  | 'o' => BV.numeral 8 false v
  | 'x' => BV.numeral 16 false v
  | 'X' => BV.numeral 16 true v
  | _ => BV.numeral 10 false v

/-- lower bound reported by the iterator's `size_hint` for the harness's hint kinds: exact, none, half, upper-only -/
def hintOf (kind : String) (len : Nat) : Nat :=
  if kind = "x" then len else if kind = "l" then len / 2 else 0

def parseEnd (s : String) : Option Bool := if s = "big" then some true else if s = "little" then some false else none

def bitop? (s : String) : Option BitOp :=
  if s = "and" then some .and else if s = "or" then some .or else if s = "xor" then some .xor else none

def specBitop (op : BitOp) (a x : BV) : BV :=
  match op with
  | .and => a.and x
  | .or => a.or x
  | .xor => a.xor x

/-- forms whose left operand is borrowed (`&v op …`): these reach the separately written `&Bvd` bodies -/
def lhsByRef (form : String) : Bool := form = "rv" ∨ form = "rr"

def resPair (f : Vec × Vec → List Val) : Res (Vec × Vec) → Out
  | .ok p => .ok (f p)
  | .err e => .err e
  | .panic => .panic

/-- `(model, spec)` for one protocol line; `none` = unknown operation / malformed arguments -/
def runOp (op : String) (dbg : Bool) (a : List String) : Option (Out × Out) := do
  match op, a with
  -- constructors ------------------------------------------------------------------------------------
  | "zeros", [t, n] =>
    let t ← parseTy t; let n ← n.toNat?
    pure (resV (zeros t n), specGrowL t n (fun _ => BV.zeros n))
  | "ones", [t, n] =>
    let t ← parseTy t; let n ← n.toNat?
    pure (resV (ones t n), specGrowL t n (fun _ => BV.ones n))
  | "repeat", [t, b, n] =>
    let t ← parseTy t; let b ← parseBool b; let n ← n.toNat?
    pure (resV (if b then ones t n else zeros t n), specGrowL t n (fun _ => BV.repeat b n))
  | "with_capacity", [t, c] =>
    let t ← parseTy t; let c ← c.toNat?
    let m : Out := match withCapacity t c with
      | .ok v => .ok [.vec v, .capv v.capBits]
      | .err e => .err e
      | .panic => .panic
    let capPred : Nat → Bool := match capOf t with
      | some k => fun n => n == k
      | none => fun n => n ≥ c
    pure (m, .ok [.sv ⟨0, 0⟩, .natPred capPred])
  | "from_binary", [t, cs] =>
    let t ← parseTy t; let cs ← parseChars cs
    pure (resV (fromBinary t cs), specParse 1 Bvf.binVal t cs)
  | "from_hex", [t, cs] =>
    let t ← parseTy t; let cs ← parseChars cs
    pure (resV (fromHex t cs), specParse 4 Bvf.hexVal t cs)
  | "from_bytes", [t, bs, e] =>
    let t ← parseTy t; let bs ← parseBytes bs; let e ← parseEnd e
    let sp : Out := if overCap t (8 * bs.length) then .err "NotEnoughCapacity" else .ok [.sv (BV.fromBytes bs e)]
    pure (resV (fromBytes t bs e), sp)
  | "read", [t, bs, n, e] =>
    let t ← parseTy t; let bs ← parseBytes bs; let n ← n.toNat?; let e ← parseEnd e
    let m : Out := match read t bs n e with
      | .ok (v, rest) => .ok [.vec v, .bytes rest]
      | .err k => .err k
      | .panic => .panic
    let nb := (n + 7) / 8
    let sp : Out :=
      if overCap t n then .err "InvalidInput"
      else if bs.length < nb then .err "UnexpectedEof"
      else .ok [.sv ⟨n, (BV.fromBytes (bs.take nb) e).val % 2 ^ n⟩, .bytes (bs.drop nb)]
    pure (m, sp)
  | "from_uint", [t, x] =>
    let t ← parseTy t; let (W, x) ← parseUInt x
    let sp : Out := match capOf t with
      | some c => if BV.natBits x > c then .err "NotEnoughCapacity" else .ok [.sv ⟨min W c, x⟩]
      | none => .ok [.sv ⟨W, x⟩]
    pure (resV (fromUInt t W x), sp)
  | "from_slice", [t, wJ, xs] =>
    let t ← parseTy t; let wJ ← wJ.toNat?; let xs ← parseBytes xs
    let v := (xs.zip (List.range xs.length)).foldl (fun acc p => acc + p.1 * 2 ^ (wJ * p.2)) 0
    let sp : Out := if overCap t (xs.length * wJ) then .err "NotEnoughCapacity" else .ok [.sv ⟨xs.length * wJ, v⟩]
    pure (resV (fromSlice t wJ xs), sp)
  | "collect", [t, bits, hk] =>
    let t ← parseTy t; let bits ← parseBits bits
    pure (resV (collect t bits (hintOf hk bits.length)), specGrow t (bvOfBits bits))
  | "convert", [t, src] =>
    let t ← parseTy t; let src ← parseVec src
    let sp : Out := if overCap t src.len then .err "NotEnoughCapacity" else .ok [.sv src.abs]
    pure (resV (convert t src), sp)
  | "convertv", [t, src] =>  -- the by-value `From`/`TryFrom` bodies: same meaning (a kept allocation is visible only as capacity)
    let t ← parseTy t; let src ← parseVec src
    let sp : Out := if overCap t src.len then .err "NotEnoughCapacity" else .ok [.sv src.abs]
    pure (resV (convert t src), sp)
  -- element access / edits ---------------------------------------------------------------------------------
  | "bitconv", [x] =>      -- Bit::from(x), uN::from(bit), bool::from(bit), Bit::from(bool)
    let (_, x) ← parseUInt x
    let b := x != 0
    let r : Out := .ok [.bool b, .nat (if b then 1 else 0), .bool b, .bool b, .chars (if b then ['1'] else ['0'])]
    pure (r, r)
  | "errdisplay", [k, n] =>  -- Display / Debug of ConvertionError (no property; completes the coverage of lib.rs)
    let n ← n.toNat?
    let r : Out := if k == "cap" then
        .ok [.chars "The bit vector did not have enough capacity to perform the convertion".toList, .chars "NotEnoughCapacity".toList]
      else
        .ok [.chars ("The bit vector convertion method encountered an error at index " ++ toString n).toList,
             .chars ("InvalidFormat(" ++ toString n ++ ")").toList]
    pure (r, r)
  | "get", [v, i] =>
    let v ← parseVec v; let i ← i.toNat?
    if i ≥ v.len then (if dbg then pure (.panic, .panic) else none) else
    pure (.ok [.bool (get v i)], .ok [.bool (v.abs.bit i)])
  | "set", [v, i, b] =>
    let v ← parseVec v; let i ← i.toNat?; let b ← parseBool b
    if i ≥ v.len then (if dbg then pure (.panic, .panic) else none) else
    pure (okV (set v i b), .ok [.sv (v.abs.set i b)])
  | "push", [v, b] =>
    let v ← parseVec v; let b ← parseBool b
    pure (resV (push v b), specGrow v.ty (v.abs.push b))
  | "pop", [v] =>
    let v ← parseVec v
    let p := pop v; let q := v.abs.pop
    pure (.ok [.vec p.1, .obit p.2], .ok [.sv q.1, .obit q.2])
  | "resize", [v, n, b] =>
    let v ← parseVec v; let n ← n.toNat?; let b ← parseBool b
    pure (resV (resize v n b), specGrowL v.ty n (fun _ => v.abs.resize n b))
  | "truncate", [v, n] =>
    let v ← parseVec v; let n ← n.toNat?
    pure (resV (truncate v n), specGrow v.ty (v.abs.truncate n))
  | "sign_extend", [v, n] =>
    let v ← parseVec v; let n ← n.toNat?
    pure (resV (signExtend v n), specGrowL v.ty (max n v.len) (fun _ => v.abs.signExtend n))
  | "append", [v, x] =>
    let v ← parseVec v; let x ← parseVec x
    pure (resV (append v x.any), specGrow v.ty (v.abs.append x.abs))
  | "prepend", [v, x] =>
    let v ← parseVec v; let x ← parseVec x
    pure (resV (prepend v x.any), specGrow v.ty (v.abs.prepend x.abs))
  | "insert", [v, i, x] =>
    let v ← parseVec v; let i ← i.toNat?; let x ← parseVec x
    if i > v.len then (if dbg then pure (.panic, .panic) else none) else
    pure (resV (insert v i x.any), specGrow v.ty (v.abs.insert i x.abs))
  | "extend", [v, bits, hk] =>
    let v ← parseVec v; let bits ← parseBits bits
    pure (resV (extend v bits (hintOf hk bits.length)), specGrow v.ty (v.abs.extend bits))
  | "copy_range", [v, s, e] =>
    let v ← parseVec v; let s ← s.toNat?; let e ← e.toNat?
    if s > v.len ∨ e > v.len then (if dbg then pure (.panic, .panic) else none) else
    if s > e then none else
    pure (okV (copyRange v s e), .ok [.sv (v.abs.copyRange s e)])
  | "split_off", [v, i] =>
    let v ← parseVec v; let i ← i.toNat?
    if i > v.len then (if dbg then pure (.panic, .panic) else none) else
    let q := v.abs.splitOff i
    pure (resPair (fun p => [.vec p.1, .vec p.2]) (splitOff v i), .ok [.sv q.1, .sv q.2])
  | "split", [v, i] =>      -- returns `(high, self)`
    let v ← parseVec v; let i ← i.toNat?
    if i > v.len then (if dbg then pure (.panic, .panic) else none) else
    let q := v.abs.splitOff i
    pure (resPair (fun p => [.vec p.2, .vec p.1]) (splitOff v i), .ok [.sv q.2, .sv q.1])
  | "first", [v] =>
    let v ← parseVec v
    pure (.ok [.obit (first v)], .ok [.obit v.abs.first])
  | "last", [v] =>
    let v ← parseVec v
    pure (.ok [.obit (last v)], .ok [.obit v.abs.last])
  | "shl_in", [v, b] =>
    let v ← parseVec v; let b ← parseBool b
    let p := shlIn v b; let q := v.abs.shlIn b
    pure (.ok [.vec p.1, .bool p.2], .ok [.sv q.1, .bool q.2])
  | "shr_in", [v, b] =>
    let v ← parseVec v; let b ← parseBool b
    let p := shrIn v b; let q := v.abs.shrIn b
    pure (.ok [.vec p.1, .bool p.2], .ok [.sv q.1, .bool q.2])
  | "rotl", [v, k] =>
    let v ← parseVec v; let k ← k.toNat?
    if k > v.len then none else
    pure (okV (rotl v k), .ok [.sv (v.abs.rotl k)])
  | "rotr", [v, k] =>
    let v ← parseVec v; let k ← k.toNat?
    if k > v.len then none else
    pure (okV (rotr v k), .ok [.sv (v.abs.rotr k)])
  -- capacity -------------------------------------------------------------------------------------------------
  | "reserve", [v, k] =>
    let v ← parseVec v; let k ← k.toNat?
    let r := reserve v k
    let pred : Nat → Bool := match capOf v.ty with
      | some c => fun n => n == c
      | none => fun n => n ≥ v.len + k
    pure (.ok [.vec r, .capv r.capBits], .ok [.sv v.abs, .natPred pred])
  | "shrink", [v] =>
    let v ← parseVec v
    let r := shrinkToFit v
    let fresh : Nat := match v.ty with
      | .f w N => N * w
      | .d => ((v.len + 63) / 64) * 64
      | .a => if v.len ≤ 128 then 128 else ((v.len + 63) / 64) * 64
    pure (.ok [.vec r, .capv r.capBits], .ok [.sv v.abs, .natPred (fun n => n ≤ fresh ∧ n ≥ v.len)])
  | "capacity", [v] =>
    let v ← parseVec v
    pure (.ok [.capv v.capBits], .ok [.natPred (fun n => n ≥ v.len)])
  | "len", [v] =>
    let v ← parseVec v
    pure (.ok [.nat v.len, .bool (v.len == 0)], .ok [.nat v.abs.len, .bool (v.abs.len == 0)])
  -- observers ----------------------------------------------------------------------------------------------------
  | "counts", [v] =>      -- lz lo tz to sig is_zero
    let v ← parseVec v
    let s := v.abs
    pure (.ok [.nat (leadingZeros v), .nat (leadingOnes v), .nat (trailingZeros v), .nat (trailingOnes v),
                .nat (sigBits v), .bool (isZero v)],
          .ok [.nat s.leadingZeros, .nat s.leadingOnes, .nat s.trailingZeros, .nat s.trailingOnes,
                .nat s.sig, .bool s.isZero])
  | "to_vec", [v, e] =>
    let v ← parseVec v; let e ← parseEnd e
    -- `to_vec`; `write` into a sink taking three bytes per call (same bytes, Ok); `write` into a sink one byte too small (Err)
    pure (.ok [.bytes (toVec v e), .bytes (toVec v e), .bool true, .bool true], .ok [.bytes (v.abs.toVec e), .bytes (v.abs.toVec e), .bool true, .bool true])
  | "to_uint", [v, W] =>
    let v ← parseVec v; let W ← parseWidth W
    let m : Out := match toUInt v W with
      | .ok n => .ok [.nat n]
      | .err e => .err e
      | .panic => .panic
    let sp : Out := if v.abs.sig ≤ W then .ok [.nat v.abs.val] else .err "NotEnoughCapacity"
    pure (m, sp)
  | "hash", [v] =>
    let v ← parseVec v
    pure (.ok [.hash (hashStream v)], .ok [.hash (specHash (wordWidth v.ty) v.abs)])
  | "hugecounts", [n, ps] =>   -- a vector of n > 2^32 bits with the listed bits set: closed forms (the value itself is never built)
    let n ← n.toNat?
    let ps ← (if ps = "-" then some [] else (ps.splitOn ",").mapM fun (t : String) => t.toNat?)
    let top := ps.foldl (fun m p => max m (p + 1)) 0
    let low := ps.foldl (fun m p => min m p) n
    let r : Out := .ok [.nat (n - top), .nat low, .nat top, .bool ps.isEmpty, .bool true, .bool true]
    pure (r, r)
  | "eqhash", [l, r] =>   -- same type: a == b, b == a, and (equal → same hasher input)
    let l ← parseVec l; let r ← parseVec r
    let se := l.abs.val == r.abs.val
    pure (.ok [.bool (eq l r), .bool (eq r l), .bool (!(eq l r || eq r l) || hashStream l == hashStream r)], .ok [.bool se, .bool se, .bool true])
  | "fmt", [v, k] =>
    let v ← parseVec v
    let k := k.front
    let sp : List Char := match k with
      | 'b' => BV.numeral 2 false v.abs.val
      | 'o' => BV.numeral 8 false v.abs.val
      | 'x' => BV.numeral 16 false v.abs.val
      | 'X' => BV.numeral 16 true v.abs.val
      | _ => BV.numeral 10 false v.abs.val
    pure (.ok [.chars (digits v k)], .ok [.chars sp])
  | "fmtL", [v, k] =>   -- long vectors: the implementation against the L0 numeral only (the L1 decimal loop is cubic)
    let v ← parseVec v
    let sp : List Char := specNumeral k.front v.abs.val
    pure (.ok [.chars sp], .ok [.chars sp])
  | "fmtspec", [v, k, sp] =>   -- whole formatted string under a format spec; second output: agreement with `format!(spec, value as u128)`
    let v ← parseVec v; let sp ← parseSpec sp
    let k := k.front
    pure (.ok [.chars (Api.format v k sp), .bool true],
          .ok [.chars (Api.padIntegral sp (Api.fmtPrefix k) (specNumeral k v.abs.val)), .bool true])
  | "iter", [v, rev, calls] =>
    let v ← parseVec v; let rev ← parseBool rev; let calls ← parseCalls calls
    pure (.ok (iterVals (iterRun v rev calls)), .ok (iterVals (sliceRun rev v.abs.bits calls)))
  -- comparison -----------------------------------------------------------------------------------------------------
  | "cmpall", [l, r] =>     -- == != < <= > >= partial_cmp
    let l ← parseVec l; let r ← parseVec r
    let e := eq l r; let c := cmp l r
    let sc := compare l.abs.val r.abs.val
    let mk (e : Bool) (c : Ordering) : Out :=
      .ok [.bool e, .bool (!e), .bool (c == .lt), .bool (c != .gt), .bool (c == .gt), .bool (c != .lt), .ord c]
    pure (mk e c, mk (l.abs.val == r.abs.val) sc)
  -- operators --------------------------------------------------------------------------------------------------------
  | "add", [v, x, _form] =>
    let v ← parseVec v; let x ← parseRhs x
    pure (okV (addsub false v x), .ok [.sv (v.abs.add (specRhs x))])
  | "sub", [v, x, _form] =>
    let v ← parseVec v; let x ← parseRhs x
    pure (okV (addsub true v x), .ok [.sv (v.abs.sub (specRhs x))])
  | "mul", [v, x, _form] =>
    let v ← parseVec v; let x ← parseRhs x
    pure (okV (mul v x), .ok [.sv (v.abs.mul (specRhs x))])
  | "div", [v, x, _form] =>
    let v ← parseVec v; let x ← parseRhs x
    let sx := specRhs x
    pure (resPair (fun p => [.vec p.1]) (divRemOp v x),
          if sx.val = 0 then .panic else .ok [.sv (v.abs.div sx)])
  | "rem", [v, x, _form] =>
    let v ← parseVec v; let x ← parseRhs x
    let sx := specRhs x
    pure (resPair (fun p => [.vec p.2]) (divRemOp v x),
          if sx.val = 0 then .panic else .ok [.sv (v.abs.rem sx)])
  | "divrem", [v, x] =>
    let v ← parseVec v; let x ← parseVec x
    pure (resPair (fun p => [.vec p.1, .vec p.2]) (divRem v x),
          if x.abs.val = 0 then .panic else .ok [.sv (v.abs.div x.abs), .sv (v.abs.rem x.abs)])
  | "not", [v, form] =>
    let v ← parseVec v
    pure (okV (not v (form = "r")), .ok [.sv v.abs.not])
  | "shl", [v, k, form] =>
    let v ← parseVec v; let (_, k) ← parseUInt k
    pure (okV (shl v k (lhsByRef form)), .ok [.sv (v.abs.shl k)])
  | "shr", [v, k, form] =>
    let v ← parseVec v; let (_, k) ← parseUInt k
    pure (okV (shr v k (lhsByRef form)), .ok [.sv (v.abs.shr k)])
  | opn, [v, x, _form] =>
    let bo ← bitop? opn
    let v ← parseVec v; let x ← parseRhs x
    pure (okV (bitop bo v x), .ok [.sv (specBitop bo v.abs (specRhs x))])
  | _, _ => none

inductive Verdict where
  | ok (rawSame : Bool)
  | diff (kind : String) (model spec : String)
  | bad (why : String)

/-- process one line -/
def checkLine (line : String) : Verdict :=
  match line.splitOn " => " with
  | [lhs, rhs] =>
    match lhs.splitOn " " with
    | op :: dbg :: args =>
      match parseOut (rhs.splitOn " ") with
      | none => .bad "unparseable implementation output"
      | some impl =>
        match runOp op (dbg = "1") args with
        | none => .bad "unknown operation or malformed arguments"
        | some (m, sp) =>
          let corr := outAgree valAgree impl m
          let spOk := outAgree valMeets impl sp
          let msOk := outAgree valMeets m sp
          if corr && spOk && msOk then .ok (showOut m == rhs)
          else
            let kind := (if spOk then "" else "spec ") ++ (if corr then "" else "corr ") ++ (if msOk then "" else "modelspec ")
            .diff kind.trimAscii.toString (showOut m) (showOut sp)
    | _ => .bad "short line"
  | _ => .bad "no ' => '"

end Drv
end Bva
