/-!
# L0 — the abstract specification of bva

A bit vector is a pair (length, unsigned value) with `val < 2^len`; bit `i` is `val.testBit i`.
Every public operation of the crate is one short function here.  Nothing in this file
mentions storage words.  This file is import-free (core only) so that it can be compiled into
the driver executable.
-/
namespace Bva

/-- Abstract bit vector: `len` bits holding the unsigned value `val`. -/
structure BV where
  len : Nat
  val : Nat
deriving DecidableEq, Repr, Inhabited

namespace BV

/-- Well-formedness: the value fits in `len` bits. -/
def WF (a : BV) : Prop := a.val < 2 ^ a.len

instance (a : BV) : Decidable a.WF := by unfold WF; infer_instance

def bit (a : BV) (i : Nat) : Bool := a.val.testBit i

/-- The bits as a list, index 0 (least significant) first. -/
def bits (a : BV) : List Bool := (List.range a.len).map a.bit

/-- Build from a list of bits, index 0 first. -/
def ofBits : List Bool → BV
  | [] => ⟨0, 0⟩
  | b :: bs => let r := ofBits bs; ⟨r.len + 1, b.toNat + 2 * r.val⟩

def zeros (n : Nat) : BV := ⟨n, 0⟩
def ones (n : Nat) : BV := ⟨n, 2 ^ n - 1⟩
def «repeat» (b : Bool) (n : Nat) : BV := if b then ones n else zeros n

/-- Reduce a value modulo `2^n`, as length-`n` vector. -/
def trunc (n v : Nat) : BV := ⟨n, v % 2 ^ n⟩

-- arithmetic ------------------------------------------------------------------------------------
def add (a x : BV) : BV := ⟨a.len, (a.val + x.val) % 2 ^ a.len⟩
def sub (a x : BV) : BV := ⟨a.len, (a.val + 2 ^ a.len - x.val % 2 ^ a.len) % 2 ^ a.len⟩
def mul (a x : BV) : BV := ⟨a.len, (a.val * x.val) % 2 ^ a.len⟩
/-- Only meaningful for `x.val ≠ 0` (the code panics otherwise). -/
def div (a x : BV) : BV := ⟨a.len, a.val / x.val⟩
def rem (a x : BV) : BV := ⟨a.len, a.val % x.val⟩

-- bitwise ---------------------------------------------------------------------------------------
def and (a x : BV) : BV := ⟨a.len, a.val &&& x.val⟩
def or (a x : BV) : BV := ⟨a.len, a.val ||| (x.val % 2 ^ a.len)⟩
def xor (a x : BV) : BV := ⟨a.len, a.val ^^^ (x.val % 2 ^ a.len)⟩
def not (a : BV) : BV := ⟨a.len, 2 ^ a.len - 1 - a.val⟩

-- shifts ----------------------------------------------------------------------------------------
/-- `a << k` = `(val · 2^k) mod 2^len` (lemma `BV.shl_val`); the guard only keeps huge amounts
(`k` up to `2^128`) computable. -/
def shl (a : BV) (k : Nat) : BV := if a.len ≤ k then ⟨a.len, 0⟩ else ⟨a.len, (a.val <<< k) % 2 ^ a.len⟩
/-- `a >> k` = `⌊val / 2^k⌋` (lemma `BV.shr_val`, for well-formed `a`) -/
def shr (a : BV) (k : Nat) : BV := if a.len ≤ k then ⟨a.len, 0⟩ else ⟨a.len, a.val >>> k⟩
def shlIn (a : BV) (b : Bool) : BV × Bool :=
  if a.len = 0 then (a, b) else (⟨a.len, (2 * a.val + b.toNat) % 2 ^ a.len⟩, a.bit (a.len - 1))
def shrIn (a : BV) (b : Bool) : BV × Bool :=
  if a.len = 0 then (a, b) else (⟨a.len, a.val / 2 + b.toNat * 2 ^ (a.len - 1)⟩, a.bit 0)

-- rotations (documented domain: `k ≤ len`) ----------------------------------------------------------
def rotl (a : BV) (k : Nat) : BV :=
  if a.len = 0 then a else ⟨a.len, (a.val <<< k) % 2 ^ a.len + a.val >>> (a.len - k)⟩
def rotr (a : BV) (k : Nat) : BV :=
  if a.len = 0 then a else ⟨a.len, a.val >>> k + (a.val % 2 ^ k) <<< (a.len - k)⟩

-- edits -----------------------------------------------------------------------------------------
def push (a : BV) (b : Bool) : BV := ⟨a.len + 1, a.val + b.toNat * 2 ^ a.len⟩
def pop (a : BV) : BV × Option Bool :=
  if a.len = 0 then (a, none) else (⟨a.len - 1, a.val % 2 ^ (a.len - 1)⟩, some (a.bit (a.len - 1)))
def set (a : BV) (i : Nat) (b : Bool) : BV :=
  ⟨a.len, a.val - (a.bit i).toNat * 2 ^ i + b.toNat * 2 ^ i⟩
def resize (a : BV) (m : Nat) (b : Bool) : BV :=
  if m ≤ a.len then ⟨m, a.val % 2 ^ m⟩
  else ⟨m, a.val + (if b then (2 ^ (m - a.len) - 1) * 2 ^ a.len else 0)⟩
def truncate (a : BV) (m : Nat) : BV := if m < a.len then resize a m false else a
def signExtend (a : BV) (m : Nat) : BV :=
  if m > a.len then resize a m (a.len > 0 && a.bit (a.len - 1)) else a
def append (a x : BV) : BV := ⟨a.len + x.len, a.val + x.val * 2 ^ a.len⟩
def prepend (a x : BV) : BV := ⟨a.len + x.len, x.val + a.val * 2 ^ x.len⟩
def copyRange (a : BV) (s e : Nat) : BV := ⟨e - s, (a.val >>> s) % 2 ^ (e - s)⟩
/-- `insert a i x`, `i ≤ a.len`. -/
def insert (a : BV) (i : Nat) (x : BV) : BV :=
  ⟨a.len + x.len, a.val % 2 ^ i + x.val * 2 ^ i + (a.val >>> i) * 2 ^ (i + x.len)⟩
/-- `split_off a i` : (what is left in `a`, what is returned). -/
def splitOff (a : BV) (i : Nat) : BV × BV := (⟨i, a.val % 2 ^ i⟩, copyRange a i a.len)
def first (a : BV) : Option Bool := if a.len = 0 then none else some (a.bit 0)
def last (a : BV) : Option Bool := if a.len = 0 then none else some (a.bit (a.len - 1))
def extend (a : BV) (bs : List Bool) : BV := bs.foldl push a

-- counts ----------------------------------------------------------------------------------------
/-- number of significant bits of a natural number: 0 for 0, else ⌊log2 v⌋+1 -/
def natBits (v : Nat) : Nat := if v = 0 then 0 else Nat.log2 v + 1
def sig (a : BV) : Nat := natBits a.val
def leadingZeros (a : BV) : Nat := a.len - sig a
def leadingOnes (a : BV) : Nat := leadingZeros (not a)
/-- number of trailing zero bits of `v`, capped at `n` (fuel `n`). -/
def natTz : Nat → Nat → Nat
  | 0, _ => 0
  | n + 1, v => if v % 2 = 1 then 0 else 1 + natTz n (v / 2)
def trailingZeros (a : BV) : Nat := natTz a.len a.val
def trailingOnes (a : BV) : Nat := trailingZeros (not a)
def isZero (a : BV) : Bool := a.val == 0

-- bytes -----------------------------------------------------------------------------------------
/-- little-endian bytes of `v`, exactly `k` of them. -/
def natBytesLE (v : Nat) : Nat → List Nat
  | 0 => []
  | k + 1 => (v % 256) :: natBytesLE (v / 256) k
def bytesLE (a : BV) : List Nat := natBytesLE a.val ((a.len + 7) / 8)
def toVec (a : BV) (big : Bool) : List Nat := if big then (bytesLE a).reverse else bytesLE a
def natOfBytesLE : List Nat → Nat
  | [] => 0
  | b :: bs => b + 256 * natOfBytesLE bs
def fromBytes (bytes : List Nat) (big : Bool) : BV :=
  ⟨8 * bytes.length, natOfBytesLE (if big then bytes.reverse else bytes)⟩

-- digits ----------------------------------------------------------------------------------------
def digitChar (upper : Bool) (d : Nat) : Char :=
  if d < 10 then Char.ofNat (48 + d) else Char.ofNat ((if upper then 55 else 87) + d)
/-- canonical numeral of `v` in `base` (most significant digit first; "0" for zero). -/
def numeralAux (base : Nat) (upper : Bool) : Nat → Nat → List Char → List Char
  | 0, _, acc => acc
  | fuel + 1, v, acc =>
    if v = 0 then acc else numeralAux base upper fuel (v / base) (digitChar upper (v % base) :: acc)
def numeral (base : Nat) (upper : Bool) (v : Nat) : List Char :=
  if v = 0 then ['0'] else numeralAux base upper (v + 1) v []

end BV
end Bva
