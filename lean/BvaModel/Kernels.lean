import BvaModel.Store
/-!
# L1 — bodies that are the same text in `fixed.rs` and `dynamic.rs` (up to the word type)

One Lean function per Rust body; `Raw w` is `Bvf<I,N>` or `Bvd`.  Bodies that differ between the
two files live in `Fixed.lean` / `Dynamic.lean`.
-/
namespace Bva
namespace Raw

variable {w : Nat}

/-- `get(index)`: `((data[index / w] >> (index % w)) & 1).into()` -/
def get (s : Raw w) (i : Nat) : Bool := ((wd s.data (i / w) >>> (i % w)) &&& 1#w) != 0#w

/-- `set(index, bit)` -/
def set (s : Raw w) (i : Nat) (b : Bool) : Raw w :=
  let x := (wd s.data (i / w) &&& ~~~ (1#w <<< (i % w))) ||| (b2w w b <<< (i % w))
  { s with data := s.data.setIfInBounds (i / w) x }

/-- `pop()` -/
def pop (s : Raw w) : Raw w × Option Bool :=
  if s.length > 0 then
    let b := s.get (s.length - 1)
    let s' := s.set (s.length - 1) false
    ({ s' with length := s.length - 1 }, some b)
  else (s, none)

/-- `resize`, shrinking arm: `new_len < length` -/
def shrink (s : Raw w) (newLen : Nat) : Raw w :=
  let d := forRange (newLen / w + 1) (capFromBitLen w s.length)
    (fun i a => a.setIfInBounds i 0#w) s.data
  { data := maskAt d newLen, length := newLen }

/-- `resize`, growing arm: `new_len > length` (after capacity has been dealt with) -/
def grow (s : Raw w) (newLen : Nat) (bit : Bool) : Raw w :=
  let sign : BitVec w := if bit then BitVec.allOnes w else 0#w
  let d := s.data.modify (s.length / w) (· ||| (sign &&& ~~~ mask w (s.length % w)))
  let d := forRange (s.length / w + 1) (capFromBitLen w newLen) (fun i a => a.setIfInBounds i sign) d
  { data := maskAt d newLen, length := newLen }

/-- `shl_in(bit)` -/
def shlIn (s : Raw w) (bit : Bool) : Raw w × Bool :=
  let (d, carry) := forRange 0 (s.length / w) (fun i (p : Array (BitVec w) × Bool) =>
      let x := wd p.1 i
      let b := ((x >>> (w - 1)) &&& 1#w) != 0#w
      (p.1.setIfInBounds i ((x <<< 1) ||| b2w w p.2), b)) (s.data, bit)
  if s.length % w ≠ 0 then
    let i := s.length / w
    let x := wd d i
    let b := ((x >>> (s.length % w - 1)) &&& 1#w) != 0#w
    ({ s with data := d.setIfInBounds i (((x <<< 1) ||| b2w w carry) &&& mask w (s.length % w)) }, b)
  else ({ s with data := d }, carry)

/-- `shr_in(bit)` -/
def shrIn (s : Raw w) (bit : Bool) : Raw w × Bool :=
  let (d, carry) :=
    if s.length % w ≠ 0 then
      let i := s.length / w
      let x := wd s.data i
      let b := (x &&& 1#w) != 0#w
      (s.data.setIfInBounds i ((x >>> 1) ||| (b2w w bit <<< (s.length % w - 1))), b)
    else (s.data, bit)
  let (d, carry) := forRangeRev 0 (s.length / w) (fun i (p : Array (BitVec w) × Bool) =>
      let x := wd p.1 i
      let b := (x &&& 1#w) != 0#w
      (p.1.setIfInBounds i ((x >>> 1) ||| (b2w w p.2 <<< (w - 1))), b)) (d, carry)
  ({ s with data := d }, carry)

-- ---- shifts -----------------------------------------------------------------------------------
/-- first `while` of `ShlAssign` (`new_idx > shift`): copy chunks downwards from the top -/
def shlLoop1 (ws : Array (BitVec w)) (shift newIdx : Nat) : Array (BitVec w) × Nat :=
  if _h : newIdx > shift then
    let l := min ((newIdx - 1) % w + 1) ((newIdx - shift - 1) % w + 1)
    let n' := newIdx - l
    shlLoop1 (writeBits ws n' l (readBits ws (n' - shift) l)) shift n'
  else (ws, newIdx)
termination_by newIdx
decreasing_by
  have : 1 ≤ min ((newIdx - 1) % w + 1) ((newIdx - shift - 1) % w + 1) := by omega
  omega

/-- second `while` of `ShlAssign` (`new_idx > 0`): clear what is left below -/
def shlLoop2 (ws : Array (BitVec w)) (newIdx : Nat) : Array (BitVec w) :=
  if _h : newIdx > 0 then
    let l := (newIdx - 1) % w + 1
    shlLoop2 (clearBits ws (newIdx - l) l) (newIdx - l)
  else ws
termination_by newIdx
decreasing_by omega

/-- `ShlAssign<uN>` with the amount already narrowed to `usize` (saturating) -/
def shlAssign (s : Raw w) (shift : Nat) : Raw w :=
  if shift = 0 then s else
  let (d, n) := shlLoop1 s.data shift s.length
  { s with data := shlLoop2 d n }

/-- first `while` of `ShrAssign` (`new_idx + shift < length`) -/
def shrLoop1 (ws : Array (BitVec w)) (shift length newIdx : Nat) : Array (BitVec w) × Nat :=
  if _h : newIdx + shift < length ∧ 0 < w then
    let oldIdx := newIdx + shift
    let l := min (w - newIdx % w) (w - oldIdx % w)
    shrLoop1 (writeBits ws newIdx l (readBits ws oldIdx l)) shift length (newIdx + l)
  else (ws, newIdx)
termination_by length - newIdx
decreasing_by
  have h1 := Nat.mod_lt newIdx _h.2
  have h2 := Nat.mod_lt (newIdx + shift) _h.2
  omega

/-- second `while` of `ShrAssign` (`new_idx < length`) -/
def shrLoop2 (ws : Array (BitVec w)) (length newIdx : Nat) : Array (BitVec w) :=
  if _h : newIdx < length ∧ 0 < w then
    let l := w - newIdx % w
    shrLoop2 (clearBits ws newIdx l) length (newIdx + l)
  else ws
termination_by length - newIdx
decreasing_by
  have h1 := Nat.mod_lt newIdx _h.2
  omega

/-- `ShrAssign<uN>` -/
def shrAssign (s : Raw w) (shift : Nat) : Raw w :=
  if shift = 0 then s else
  let (d, n) := shrLoop1 s.data shift s.length 0
  { s with data := shrLoop2 d s.length n }

-- ---- rotations --------------------------------------------------------------------------------
/-- the `while old_idx < length` loop of `rotl` -/
def rotlLoop (old new : Array (BitVec w)) (rot length oldIdx : Nat) : Array (BitVec w) :=
  if _h : oldIdx < length ∧ 0 < w then
    let newIdx := (oldIdx + rot) % length
    let l := min (min (min (w - newIdx % w) (w - oldIdx % w)) (length - newIdx)) (length - oldIdx)
    rotlLoop old (orBits new newIdx (readBits old oldIdx l)) rot length (oldIdx + l)
  else new
termination_by length - oldIdx
decreasing_by
  have h0 : 0 < length := by omega
  have h1 := Nat.mod_lt oldIdx _h.2
  have h2 := Nat.mod_lt ((oldIdx + rot) % length) _h.2
  have h3 := Nat.mod_lt (oldIdx + rot) h0
  omega

/-- `rotl(rot)`; fresh storage has `data.size` words -/
def rotl (s : Raw w) (rot : Nat) : Raw w :=
  { s with data := rotlLoop s.data (Array.replicate s.data.size 0#w) rot s.length 0 }

/-- the `while new_idx < length` loop of `rotr` -/
def rotrLoop (old new : Array (BitVec w)) (rot length newIdx : Nat) : Array (BitVec w) :=
  if _h : newIdx < length ∧ 0 < w then
    let oldIdx := (newIdx + rot) % length
    let l := min (min (min (w - newIdx % w) (w - oldIdx % w)) (length - newIdx)) (length - oldIdx)
    rotrLoop old (orBits new newIdx (readBits old oldIdx l)) rot length (newIdx + l)
  else new
termination_by length - newIdx
decreasing_by
  have h0 : 0 < length := by omega
  have h1 := Nat.mod_lt newIdx _h.2
  have h2 := Nat.mod_lt ((newIdx + rot) % length) _h.2
  have h3 := Nat.mod_lt (newIdx + rot) h0
  omega

def rotr (s : Raw w) (rot : Nat) : Raw w :=
  { s with data := rotrLoop s.data (Array.replicate s.data.size 0#w) rot s.length 0 }

-- ---- counts -----------------------------------------------------------------------------------
/-- `while v == stop && i > 0 { v = data[i-1]; count += cnt(v); i -= 1 }` -/
def leadLoop (ws : Array (BitVec w)) (stop : BitVec w) (cnt : BitVec w → Nat)
    (v : BitVec w) : Nat → Nat → Nat
  | 0, count => count
  | i + 1, count =>
    if v = stop then let v' := wd ws i; leadLoop ws stop cnt v' i (count + cnt v') else count

def leadingZeros (s : Raw w) : Nat :=
  let i := capFromBitLen w s.length
  if i > 0 then
    let lastbit := (s.length - 1) % w + 1
    let v := wd s.data (i - 1) &&& mask w lastbit
    leadLoop s.data 0#w clz v (i - 1) (clz v - (w - lastbit))
  else 0

def leadingOnes (s : Raw w) : Nat :=
  let i := capFromBitLen w s.length
  if i > 0 then
    let lastbit := (s.length - 1) % w + 1
    let v := wd s.data (i - 1) ||| ~~~ mask w lastbit
    leadLoop s.data (BitVec.allOnes w) clo v (i - 1) (clo v - (w - lastbit))
  else 0

/-- `while v == stop && i < last { v = data[i]; count += cnt(v); i += 1 }` -/
def trailLoop (ws : Array (BitVec w)) (stop : BitVec w) (cnt : BitVec w → Nat) (last : Nat)
    (v : BitVec w) (i count : Nat) : BitVec w × Nat × Nat :=
  if _h : v = stop ∧ i < last then
    let v' := wd ws i
    trailLoop ws stop cnt last v' (i + 1) (count + cnt v')
  else (v, i, count)
termination_by last - i
decreasing_by omega

def trailingZeros (s : Raw w) : Nat :=
  let c := capFromBitLen w s.length
  if 0 < c then
    let (v, i, count) := trailLoop s.data 0#w ctz (c - 1) 0#w 0 0
    if v = 0#w then count + min (ctz (wd s.data i)) ((s.length - 1) % w + 1) else count
  else 0

def trailingOnes (s : Raw w) : Nat :=
  let c := capFromBitLen w s.length
  if 0 < c then
    let (v, i, count) := trailLoop s.data (BitVec.allOnes w) cto (c - 1) (BitVec.allOnes w) 0 0
    if v = BitVec.allOnes w then count + min (cto (wd s.data i)) ((s.length - 1) % w + 1) else count
  else 0

/-- trait default `significant_bits` -/
def sigBits (s : Raw w) : Nat := s.length - s.leadingZeros

-- ---- bytes ------------------------------------------------------------------------------------
/-- `to_vec`, little-endian loop: byte `i` = `(data[i / BYTE_UNIT] >> ((i % BYTE_UNIT) * 8)) as u8` -/
def bytesLE (s : Raw w) : List Nat :=
  (List.range ((s.length + 7) / 8)).map fun i =>
    ((wd s.data (i / (w / 8)) >>> ((i % (w / 8)) * 8)).setWidth 8).toNat

def toVec (s : Raw w) (big : Bool) : List Nat := if big then (bytesLE s).reverse else bytesLE s

-- ---- digits -----------------------------------------------------------------------------------
/-- `Binary::fmt` digit string (before `pad_integral`) -/
def binDigits (s : Raw w) : List Char :=
  -- skip leading zeros from the top
  let rec skip : Nat → Nat
    | 0 => 0
    | i + 1 => if s.get i = false then skip i else i + 1
  let i := skip s.length
  let ds := (List.range i).reverse.map fun j => if s.get j then '1' else '0'
  if ds.isEmpty then ['0'] else ds

/-- nibble `i-1` as the hex formatters read it -/
def nibble (s : Raw w) (i : Nat) : Nat :=
  (((wd s.data (i / (w / 4)) >>> ((i % (w / 4)) * 4)).setWidth 8) &&& 0xf#8).toNat

/-- `LowerHex/UpperHex::fmt` digit string -/
def hexDigits (s : Raw w) (upper : Bool) : List Char :=
  let rec skip : Nat → Nat
    | 0 => 0
    | i + 1 => if nibble s i = 0 then skip i else i + 1
  let i := skip ((s.length + 3) / 4)
  let ds := (List.range i).reverse.map fun j => BV.digitChar upper (nibble s j)
  if ds.isEmpty then ['0'] else ds

/-- `Octal::fmt` digit string: three bits at a time through the iterator -/
def octDigits (s : Raw w) : List Char :=
  let n := (s.length + 2) / 3
  let bit (i : Nat) : Nat := if i < s.length then (s.get i).toNat else 0
  let digs := (List.range n).map fun t => 4 * bit (3 * t + 2) + 2 * bit (3 * t + 1) + bit (3 * t)
  -- last_nz: index of the last non-zero digit (0 if none); truncate to last_nz + 1
  let lastNz := (List.range n).foldl (fun acc t => if digs.getD t 0 ≠ 0 then t else acc) 0
  let digs := if digs.isEmpty then [0] else digs
  ((digs.take (lastNz + 1)).reverse).map fun d => BV.digitChar false d

end Raw
end Bva
