import BvaProofs.Refine
import BvaProofs.Fmt
import BvaProofs.Dec
/-!
# C14 — text formatting matches Rust's formatting of the same unsigned integer

bva's `Binary`/`Octal`/`LowerHex`/`UpperHex`/`Display` impls compute a digit string and hand it to
`Formatter::pad_integral(true, prefix, digits)` — the same std routine, with the same arguments, that
formats primitive integers.  `Api.digits v kind` is that digit string.
PROVED here: for `{:b}`, `{:o}`, `{:x}`, `{:X}` and `{}` (decimal, through repeated `div_rem` by ten) the digit
string is the canonical numeral of the value (minimal digits, `"0"` for zero-valued and empty vectors), hence
depends on the value only; and the whole formatted string is `padIntegral spec prefix digits`, where
`Api.padIntegral` is a model of std's `Formatter::pad_integral` written from its source.
NOT proved: that `Api.padIntegral` *is* std's routine (trusted; the correspondence check compares whole strings under
26 format specs × 5 traits with the model, and with `format!` of the same value as a `u128` when it fits).
-/
namespace Bva

theorem WOk.four_dvd {w : Nat} (h : WOk w) : 4 ∣ w := by
  obtain ⟨k, rfl⟩ := h; exact ⟨2 * 2 ^ k, by omega⟩

/-- binary, octal and hexadecimal digit strings are the canonical numerals of the unsigned value -/
theorem C14_digits (v : Vec) (hv : v.Inv) :
    Api.digits v 'b' = BV.numeral 2 false v.abs.val ∧
    Api.digits v 'o' = BV.numeral 8 false v.abs.val ∧
    Api.digits v 'x' = BV.numeral 16 false v.abs.val ∧
    Api.digits v 'X' = BV.numeral 16 true v.abs.val := by
  cases v with
  | f w s =>
    have hw := hv.1.pos
    exact ⟨Raw.binDigits_eq s hw hv.2, Raw.octDigits_eq s hw hv.2,
      Raw.hexDigits_eq s hw hv.1.four_dvd hv.2 false, Raw.hexDigits_eq s hw hv.1.four_dvd hv.2 true⟩
  | d s =>
    exact ⟨Raw.binDigits_eq s (by decide) hv, Raw.octDigits_eq s (by decide) hv,
      Raw.hexDigits_eq s (by decide) ⟨16, rfl⟩ hv false, Raw.hexDigits_eq s (by decide) ⟨16, rfl⟩ hv true⟩
  | a b =>
    cases b with
    | fixed s =>
      exact ⟨Raw.binDigits_eq s (by decide) hv.1, Raw.octDigits_eq s (by decide) hv.1,
        Raw.hexDigits_eq s (by decide) ⟨16, rfl⟩ hv.1 false, Raw.hexDigits_eq s (by decide) ⟨16, rfl⟩ hv.1 true⟩
    | dynamic s =>
      exact ⟨Raw.binDigits_eq s (by decide) hv, Raw.octDigits_eq s (by decide) hv,
        Raw.hexDigits_eq s (by decide) ⟨16, rfl⟩ hv false, Raw.hexDigits_eq s (by decide) ⟨16, rfl⟩ hv true⟩

/-- decimal (`Display`): the digit string produced by the repeated-division loop is the canonical decimal numeral
(`N ≥ 1`: `Bvf<I,0>` is outside the scope) -/
theorem C14_decimal (v : Vec) (hv : v.Inv) (hN : match v with | .f _ s => 1 ≤ s.data.size | _ => True) :
    Api.digits v 'd' = BV.numeral 10 false v.abs.val := by
  cases v with
  | f w s => exact Bvf.decDigits_eq_wok s hv.1 hN hv.2
  | d s => exact Bvd.decDigits_eq s hv
  | a c => exact Bv.decDigits_eq c (by cases c <;> exact hv)

/-- the whole output string under any format spec is `pad_integral` applied to the canonical numeral, so it depends
on the value only — for all five traits -/
theorem C14_format (v : Vec) (hv : v.Inv) (hN : match v with | .f _ s => 1 ≤ s.data.size | _ => True)
    (k : Char) (hk : k = 'b' ∨ k = 'o' ∨ k = 'x' ∨ k = 'X' ∨ k = 'd') (sp : Api.FmtSpec) :
    Api.format v k sp = Api.padIntegral sp (Api.fmtPrefix k)
      (BV.numeral (if k = 'b' then 2 else if k = 'o' then 8 else if k = 'd' then 10 else 16) (k == 'X') v.abs.val) := by
  have a := C14_digits v hv
  have d := C14_decimal v hv hN
  unfold Api.format
  rcases hk with rfl | rfl | rfl | rfl | rfl
  · rw [a.1]; rfl
  · rw [a.2.1]; rfl
  · rw [a.2.2.1]; rfl
  · rw [a.2.2.2]; rfl
  · rw [d]; rfl

/-- the canonical numeral: `"0"` for zero, otherwise no leading zero; only valid digits; it evaluates back to
the value; distinct values give distinct strings — for every base 2..16 -/
theorem C14_canonical (base : Nat) (upper : Bool) (hb : 2 ≤ base) (hb' : base ≤ 16) (v : Nat) :
    (v = 0 → BV.numeral base upper v = ['0']) ∧
    (v ≠ 0 → ∃ c cs, BV.numeral base upper v = c :: cs ∧ c ≠ '0') ∧
    (∀ c ∈ BV.numeral base upper v, ∃ d, d < base ∧ c = BV.digitChar upper d) ∧
    fmt_digitsVal base (BV.numeral base upper v) = v :=
  ⟨fun h => by rw [h]; exact BV.numeral_zero base upper, BV.numeral_head base upper hb hb' v,
   BV.numeral_valid base upper hb v, BV.numeral_digitsVal base upper hb hb' v⟩

/-- the output depends only on the value, not on length, implementation or word type -/
theorem C14_value_only (v v' : Vec) (hv : v.Inv) (hv' : v'.Inv) (h : v.abs.val = v'.abs.val) (k : Char)
    (hk : k = 'b' ∨ k = 'o' ∨ k = 'x' ∨ k = 'X') : Api.digits v k = Api.digits v' k := by
  have a := C14_digits v hv
  have b := C14_digits v' hv'
  rcases hk with rfl | rfl | rfl | rfl
  · rw [a.1, b.1, h]
  · rw [a.2.1, b.2.1, h]
  · rw [a.2.2.1, b.2.2.1, h]
  · rw [a.2.2.2, b.2.2.2, h]

example : BV.numeral 16 true 0xBEEF = ['B', 'E', 'E', 'F'] ∧ BV.numeral 8 false 0 = ['0'] := by decide

end Bva
