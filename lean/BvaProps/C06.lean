import BvaProofs.Refine
/-!
# C06 — rotations permute bits cyclically and are mutually inverse
`Api.rotl v k` / `Api.rotr v k` model `rotl(k)` / `rotr(k)` (documented domain `k ≤ len`).
-/
namespace Bva

/-- L1 refines L0: the chunk-copy loop produces exactly `BV.rotl`, for every implementation. -/
theorem C06_rotl (v : Vec) (hv : v.Inv) (k : Nat) (hk : k ≤ v.len) :
    (Api.rotl v k).Inv ∧ (Api.rotl v k).abs = v.abs.rotl k := by
  cases v with
  | f w s => have r := Raw.rotl_refines s hv.1.pos hv.2 k hk; exact ⟨⟨hv.1, r.1⟩, r.2⟩
  | d s => exact Raw.rotl_refines s (by decide) hv k hk
  | a b =>
    cases b with
    | fixed s =>
      have r := Raw.rotl_refines s (by decide) hv.1 k hk
      exact ⟨⟨r.1, (Raw.rotl_size s k).trans hv.2⟩, r.2⟩
    | dynamic s => exact Raw.rotl_refines s (by decide) hv k hk

theorem C06_rotr (v : Vec) (hv : v.Inv) (k : Nat) (hk : k ≤ v.len) :
    (Api.rotr v k).Inv ∧ (Api.rotr v k).abs = v.abs.rotr k := by
  cases v with
  | f w s => have r := Raw.rotr_refines s hv.1.pos hv.2 k hk; exact ⟨⟨hv.1, r.1⟩, r.2⟩
  | d s => exact Raw.rotr_refines s (by decide) hv k hk
  | a b =>
    cases b with
    | fixed s =>
      have r := Raw.rotr_refines s (by decide) hv.1 k hk
      exact ⟨⟨r.1, (Raw.rotr_size s k).trans hv.2⟩, r.2⟩
    | dynamic s => exact Raw.rotr_refines s (by decide) hv k hk

/-- the bit at index `i` moves to `(i + k) mod n` under `rotl`; the length is unchanged;
an empty vector is unchanged. (Storage level, any implementation word width.) -/
theorem C06_rotl_moves_bits {w : Nat} (s : Raw w) (hw : 0 < w) (h : s.Inv) (k i : Nat) (hi : i < s.length) :
    bitAt (s.rotl k).data ((i + k) % s.length) = bitAt s.data i ∧ (s.rotl k).length = s.length :=
  ⟨Raw.rotl_bits s hw h k i hi, Raw.rotl_length s k⟩

/-- under `rotr` the bit at index `i` comes from `(i + k) mod n`, i.e. bit `j` moves to `(j - k) mod n` -/
theorem C06_rotr_moves_bits {w : Nat} (s : Raw w) (hw : 0 < w) (h : s.Inv) (k i : Nat) (hi : i < s.length) :
    bitAt (s.rotr k).data i = bitAt s.data ((i + k) % s.length) ∧ (s.rotr k).length = s.length :=
  ⟨Raw.rotr_bits s hw h k i hi, Raw.rotr_length s k⟩

/-- `rotl(k)` then `rotr(k)` is the identity, and vice versa -/
theorem C06_inverse (a : BV) (ha : a.WF) (k : Nat) (hk : k ≤ a.len) :
    BV.rotr (BV.rotl a k) k = a ∧ BV.rotl (BV.rotr a k) k = a :=
  ⟨BV.rotr_rotl a k ha hk, BV.rotl_rotr a k ha hk⟩

/-- `rotl(k)` equals `rotr(n - k)` -/
theorem C06_dual (a : BV) (ha : a.WF) (k : Nat) (hk : k ≤ a.len) : BV.rotl a k = BV.rotr a (a.len - k) :=
  BV.rotl_eq_rotr a k ha hk

/-- end-to-end on the model: rotate left then right gives back the same abstract vector -/
theorem C06_roundtrip (v : Vec) (hv : v.Inv) (k : Nat) (hk : k ≤ v.len) :
    (Api.rotr (Api.rotl v k) k).abs = v.abs := by
  have h1 := C06_rotl v hv k hk
  have hl : (Api.rotl v k).len = v.len := by
    have := congrArg BV.len h1.2
    rw [BV.rotl_len] at this
    have e1 : (Api.rotl v k).abs.len = (Api.rotl v k).len := by cases (Api.rotl v k) <;> rfl
    have e2 : v.abs.len = v.len := by cases v <;> rfl
    omega
  have h2 := C06_rotr (Api.rotl v k) h1.1 k (by omega)
  have hwf : v.abs.WF := by
    have := hv.any.wf; rwa [Vec.any_abs] at this
  have e2 : v.abs.len = v.len := by cases v <;> rfl
  rw [h2.2, h1.2, BV.rotr_rotl v.abs k hwf (by omega)]

end Bva
