import BvaProps.C07
/-!
# C19 — fixed-capacity overflow and bad arguments are signalled, never silently absorbed

`s : Raw w` with `N = s.data.size` words is a `Bvf<I,N>`; capacity `N * w`.  After repair D10 the capacity
checks of `push`/`resize` are unconditional, so one model function describes debug and release builds
(the correspondence check runs both profiles against it).  The documented debug-assertion panics of
`get`/`set`/`copy_range`/`split_off` on out-of-range indices are part of the driver's step function
(`runOp`, flag `dbg`) and are checked by correspondence only (release behaviour is unspecified).
-/
namespace Bva
variable {w : Nat}

/-- a fixed vector never ends up with `len > capacity`: whatever an edit returns satisfies the invariant -/
theorem C19_never_over (v : Vec) (res : Res Vec) (spec : BV) (h : EditOk v res spec) (r : Vec) (e : res = .ok r) :
    r.len ≤ r.capBits ∧ r.Inv := by
  by_cases hf : v.fits spec.len
  · obtain ⟨r', e', hr, _, _⟩ := h.1 hf
    rw [e] at e'
    cases e'
    refine ⟨?_, hr⟩
    cases r with
    | f w s => exact hr.2.1
    | d s => exact hr.1
    | a c => exact Bv.len_le_capacity c hr.bvinv
  · have := h.2 hf
    rw [e] at this
    cases this

/-- `zeros(n)` / `ones(n)` panic exactly when `n` exceeds the capacity -/
theorem C19_zeros_ones (N n : Nat) (hw : 0 < w) :
    (N * w < n → Bvf.zeros w N n = .panic ∧ Bvf.ones w N n = .panic) ∧
    (n ≤ N * w → (∃ r, Bvf.zeros w N n = .ok r ∧ r.Inv ∧ r.length = n ∧ r.data.size = N) ∧
                 (∃ r, Bvf.ones w N n = .ok r ∧ r.Inv ∧ r.length = n ∧ r.data.size = N)) := by
  refine ⟨fun h => ⟨Bvf.zeros_panic N n h, Bvf.ones_panic N n h⟩, fun h => ⟨?_, ?_⟩⟩
  · obtain ⟨r, e, hi, ha, hs⟩ := Bvf.zeros_ok (w := w) N n hw h
    exact ⟨r, e, hi, congrArg BV.len ha, hs⟩
  · obtain ⟨r, e, hi, ha, hs⟩ := Bvf.ones_ok (w := w) N n hw h
    exact ⟨r, e, hi, congrArg BV.len ha, hs⟩

/-- `push`, `resize`, `sign_extend`, `append`, `prepend`, `insert`, `extend` on a fixed vector panic exactly when the
resulting length would exceed the capacity, and otherwise return the L0 result (`EditOk`, proved in C07) -/
theorem C19_growth_signalled (s : Raw w) (hv : (Vec.f w s).Inv) (x : Vec) (hx : x.Inv) (b : Bool) (n i : Nat)
    (hi : i ≤ s.length) (bs : List Bool) :
    (Api.push (.f w s) b = .panic ↔ s.data.size * w < s.length + 1) ∧
    (Api.resize (.f w s) n b = .panic ↔ s.data.size * w < n) ∧
    (Api.append (.f w s) x.any = .panic ↔ s.data.size * w < s.length + x.len) ∧
    (Api.prepend (.f w s) x.any = .panic ↔ s.data.size * w < s.length + x.len) ∧
    (Api.insert (.f w s) i x.any = .panic ↔ s.data.size * w < s.length + x.len) ∧
    (Api.extend (.f w s) bs = .panic ↔ s.data.size * w < s.length + bs.length) := by
  have key : ∀ (res : Res Vec) (spec : BV), EditOk (.f w s) res spec →
      (res = .panic ↔ s.data.size * w < spec.len) := by
    intro res spec h
    constructor
    · intro hp
      by_cases hf : (Vec.f w s).fits spec.len
      · obtain ⟨r, e, _⟩ := h.1 hf
        rw [hp] at e; cases e
      · have : ¬ (spec.len ≤ s.data.size * w) := hf
        omega
    · intro hlt
      exact h.2 (by show ¬ (spec.len ≤ s.data.size * w); omega)
  have hxl : x.abs.len = x.len := Vec.abs_len x
  have hextlen : ((Vec.f w s).abs.extend bs).len = s.length + bs.length := by
    have : ∀ (a : BV) (l : List Bool), (a.extend l).len = a.len + l.length := by
      intro a l
      induction l generalizing a with
      | nil => rfl
      | cons c l ihl => simp only [BV.extend, List.foldl_cons] at ihl ⊢; rw [ihl]; simp only [BV.push, List.length_cons]; omega
    rw [this]; rfl
  refine ⟨key _ _ (C07_push _ hv b), ?_, ?_, ?_, ?_, ?_⟩
  · have := key _ _ (C07_resize _ hv n b); rwa [BV.resize_len] at this
  · have := key _ _ (C07_append _ x hv hx)
    rw [show ((Vec.f w s).abs.append x.abs).len = s.length + x.len from by show s.length + x.abs.len = _; rw [hxl]] at this
    exact this
  · have := key _ _ (C07_prepend _ x hv hx)
    rw [show ((Vec.f w s).abs.prepend x.abs).len = s.length + x.len from by show s.length + x.abs.len = _; rw [hxl]] at this
    exact this
  · have := key _ _ (C07_insert _ x hv hx i hi)
    rw [show ((Vec.f w s).abs.insert i x.abs).len = s.length + x.len from by show s.length + x.abs.len = _; rw [hxl]] at this
    exact this
  · have := key _ _ (C07_extend _ hv bs); rwa [hextlen] at this

/-- constructors and conversions beyond capacity return an error (never panic, never truncate) -/
theorem C19_constructor_errors (hw : WOk w) (N : Nat) :
    (∀ bytes big, N * w < bytes.length * 8 → Bvf.fromBytes w N bytes big = .err "NotEnoughCapacity") ∧
    (∀ cs, N * w < cs.length → Bvf.fromBinary w N cs = .err "NotEnoughCapacity") ∧
    (∀ cs, N * w < cs.length * 4 → Bvf.fromHex w N cs = .err "NotEnoughCapacity") ∧
    (∀ input length big, N * w < length → Bvf.read w N input length big = .err "InvalidInput") ∧
    (∀ W x, 1 ≤ N → x < 2 ^ W → N * w < BV.natBits x → Bvf.fromUInt w N W x = .err "NotEnoughCapacity") ∧
    (∀ wJ xs, WOk wJ → N * w < xs.length * wJ → Bvf.fromSlice w N wJ xs = .err "NotEnoughCapacity") ∧
    (∀ (x : Vec), x.Inv → N * w < x.len → Api.convert (.f w N) x = .err "NotEnoughCapacity") := by
  refine ⟨fun bytes big h => Bvf.fromBytes_err N bytes big h,
    fun cs h => (Bvf.fromBinary_spec hw.pos N cs).1 h,
    fun cs h => (Bvf.fromHex_spec hw.pos ⟨2 * 2 ^ (Classical.choose hw), by have := Classical.choose_spec hw; omega⟩ N cs).1 h,
    fun input length big h => Bvf.read_invalid N input length big h,
    fun W x hN hx h => (Bvf.fromUInt_spec N W x hw.pos hN hx).1 h,
    fun wJ xs hJ h => (Bvf.fromSlice_spec N xs (hw.compat hJ)).1 h, ?_⟩
  intro x hx h
  have hsrc : cnv_SrcOk w x.any := by
    cases x with
    | f w1 b => exact ⟨hx.1.compat hw, hx.2⟩
    | d b => exact ⟨wok64.compat hw, hx⟩
    | a c => cases c with
      | fixed b => exact ⟨wok64.compat hw, hx.1⟩
      | dynamic b => exact ⟨wok64.compat hw, hx⟩
  have hl : x.any.len = x.len := by rw [← AnyBv.abs_len, Vec.any_abs, Vec.abs_len]
  simp only [Api.convert, (Bvf.convert_spec N x.kind x.any hsrc).1 (by rw [hl]; exact h), liftF]

end Bva
