import BvaProofs.Base
import BvaModel.Step
/-!
# C19 — fixed-capacity overflow and bad arguments are signalled, never silently absorbed

`Bvf.*` are the L1 transcriptions of `src/fixed.rs` (after repair D10 the capacity checks of `push`
and `resize` are unconditional, so these statements do not mention the build profile: the same model
function describes debug and release builds — the correspondence check runs both against it).
A fixed vector is `s : Raw w` with `N = s.data.size` words, capacity `s.cap = N * w`.
-/
namespace Bva
variable {w : Nat}

/-- `zeros(n)` panics exactly when `n` exceeds the capacity; otherwise the result has `n ≤ cap` bits in `N` words. -/
theorem C19_zeros (N n : Nat) :
    (Bvf.zeros w N n = .panic ↔ N * w < n) ∧
    (∀ r, Bvf.zeros w N n = .ok r → r.length = n ∧ n ≤ N * w ∧ r.data.size = N) := by
  unfold Bvf.zeros
  by_cases h : n > N * w
  · simp [h]
  · simp [h]; omega

theorem C19_ones (N n : Nat) :
    (Bvf.ones w N n = .panic ↔ N * w < n) ∧
    (∀ r, Bvf.ones w N n = .ok r → r.length = n ∧ n ≤ N * w ∧ r.data.size = N) := by
  unfold Bvf.ones
  by_cases h : n > N * w
  · simp [h]
  · simp [h, size_mod2n]; omega

/-- `push` panics exactly when the vector is full; otherwise the length grows by one and stays within capacity. -/
theorem C19_push (s : Raw w) (b : Bool) :
    (Bvf.push s b = .panic ↔ s.cap ≤ s.length) ∧
    (∀ r, Bvf.push s b = .ok r → r.length = s.length + 1 ∧ r.length ≤ s.cap ∧ r.data.size = s.data.size) := by
  unfold Bvf.push
  by_cases h : s.length < s.cap
  · rw [if_pos h]
    refine ⟨by simp; omega, ?_⟩
    intro r hr
    injection hr with hr
    subst hr
    simp [Raw.set]
    omega
  · rw [if_neg h]
    refine ⟨by simp; omega, ?_⟩
    intro r hr
    cases hr

end Bva
