import BvaProofs
/-!
# T20 — laws of the L0 specification (`BvaModel/Spec.lean`)

The property theorems `C01 … C20` say that the code refines the abstract specification `BV`.
The laws below check the specification itself: closure under well-formedness, the ring structure modulo `2^len`,
division, the Boolean algebra of the bitwise operations, shifts, rotations, the list structure of the edits,
counts, bytes and numerals.  Everything is stated for all lengths and values; `WF` (`a.val < 2 ^ a.len`) is
assumed only where it is needed, and the theorems called `Law_…_false` are concrete witnesses that a side
condition cannot be dropped.  Names beginning with `Law_aux_` are helper lemmas.
-/
namespace Bva


-- helpers ------------------------------------------------------------------------------------------------
theorem Law_aux_mod_pow_of_le (x : Nat) {n m : Nat} (h : n ≤ m) : x % 2 ^ m % 2 ^ n = x % 2 ^ n :=
  Nat.mod_mod_of_dvd x (Nat.pow_dvd_pow 2 h)

/-- the modular difference used by `BV.sub`: adding the subtrahend back gives the minuend (mod `P`) -/
theorem Law_aux_sub_add (x y P : Nat) (hP : 0 < P) : ((x + P - y % P) % P + y) % P = x % P := by
  rw [Nat.mod_add_mod]
  have h1 := Nat.div_add_mod y P
  have h2 := Nat.mod_lt y hP
  have e : x + P - y % P + y = x + P + P * (y / P) := by omega
  rw [e, Nat.add_mul_mod_self_left, Nat.add_mod_right]

theorem Law_aux_mod_lt_two (n P : Nat) (h : n < 2 * P) : n % P = if n < P then n else n - P := by
  split
  · rename_i h1; exact Nat.mod_eq_of_lt h1
  · rename_i h1
    rw [Nat.mod_eq_sub_mod (by omega)]
    exact Nat.mod_eq_of_lt (by omega)

theorem Law_aux_add_cancel (u v y P : Nat) (hu : u < P) (hv : v < P) (h : (u + y) % P = (v + y) % P) : u = v := by
  have hP : 0 < P := by omega
  have hy := Nat.mod_lt y hP
  have e1 : (u + y) % P = (u + y % P) % P := (Nat.add_mod_mod u y P).symm
  have e2 : (v + y) % P = (v + y % P) % P := (Nat.add_mod_mod v y P).symm
  rw [e1, e2, Law_aux_mod_lt_two (u + y % P) P (by omega), Law_aux_mod_lt_two (v + y % P) P (by omega)] at h
  split at h <;> split at h <;> omega

/-- … and it is the only residue with that property -/
theorem Law_aux_sub_unique (x y z P : Nat) (hz : z < P) (h : (z + y) % P = x % P) : (x + P - y % P) % P = z := by
  have hP : 0 < P := by omega
  apply Law_aux_add_cancel _ _ y P (Nat.mod_lt _ hP) hz
  rw [Law_aux_sub_add x y P hP, h]

-- 1. closure ----------------------------------------------------------------------------------------------
theorem Law_wf_add (a x : BV) : (a.add x).WF := Nat.mod_lt _ (Nat.two_pow_pos _)
theorem Law_wf_sub (a x : BV) : (a.sub x).WF := Nat.mod_lt _ (Nat.two_pow_pos _)
theorem Law_wf_mul (a x : BV) : (a.mul x).WF := Nat.mod_lt _ (Nat.two_pow_pos _)
theorem Law_wf_div (a x : BV) (ha : a.WF) : (a.div x).WF := Nat.lt_of_le_of_lt (Nat.div_le_self _ _) ha
theorem Law_wf_rem (a x : BV) (ha : a.WF) : (a.rem x).WF := Nat.lt_of_le_of_lt (Nat.mod_le _ _) ha
theorem Law_wf_and (a x : BV) (ha : a.WF) : (a.and x).WF := Nat.lt_of_le_of_lt Nat.and_le_left ha
theorem Law_wf_or (a x : BV) (ha : a.WF) : (a.or x).WF :=
  Nat.or_lt_two_pow ha (Nat.mod_lt _ (Nat.two_pow_pos _))
theorem Law_wf_xor (a x : BV) (ha : a.WF) : (a.xor x).WF :=
  Nat.xor_lt_two_pow ha (Nat.mod_lt _ (Nat.two_pow_pos _))
theorem Law_wf_not (a : BV) : a.not.WF := BV.not_wf a
theorem Law_wf_shl (a : BV) (k : Nat) : (a.shl k).WF := by
  unfold BV.shl; split
  · exact Nat.two_pow_pos _
  · exact Nat.mod_lt _ (Nat.two_pow_pos _)
theorem Law_wf_shr (a : BV) (k : Nat) (ha : a.WF) : (a.shr k).WF := by
  unfold BV.shr; split
  · exact Nat.two_pow_pos _
  · exact Nat.lt_of_le_of_lt (by rw [Nat.shiftRight_eq_div_pow]; exact Nat.div_le_self _ _) ha
theorem Law_wf_shlIn (a : BV) (b : Bool) (ha : a.WF) : (a.shlIn b).1.WF := by
  unfold BV.shlIn; split
  · exact ha
  · exact Nat.mod_lt _ (Nat.two_pow_pos _)
theorem Law_wf_shrIn (a : BV) (b : Bool) (ha : a.WF) : (a.shrIn b).1.WF := by
  unfold BV.shrIn; split
  · exact ha
  · rename_i h
    obtain ⟨n, v⟩ := a
    unfold BV.WF at *
    simp only at *
    obtain ⟨m, rfl⟩ : ∃ m, n = m + 1 := ⟨n - 1, by omega⟩
    rw [Nat.pow_succ] at *
    simp only [Nat.add_sub_cancel]
    have := Nat.two_pow_pos m
    cases b <;> simp <;> omega
theorem Law_wf_rotl (a : BV) (k : Nat) (ha : a.WF) (hk : k ≤ a.len) : (a.rotl k).WF := BV.rotl_wf a k ha hk
theorem Law_wf_rotr (a : BV) (k : Nat) (ha : a.WF) (hk : k ≤ a.len) : (a.rotr k).WF := BV.rotr_wf a k ha hk
theorem Law_wf_push (a : BV) (b : Bool) (ha : a.WF) : (a.push b).WF := BV.push_wf a b ha
theorem Law_wf_pop (a : BV) (ha : a.WF) : a.pop.1.WF := BV.pop_wf a ha
theorem Law_wf_set (a : BV) (i : Nat) (b : Bool) (ha : a.WF) (hi : i < a.len) : (a.set i b).WF := BV.set_wf a i b ha hi
theorem Law_wf_resize (a : BV) (m : Nat) (b : Bool) (ha : a.WF) : (a.resize m b).WF := BV.resize_wf a m b ha
theorem Law_wf_truncate (a : BV) (m : Nat) (ha : a.WF) : (a.truncate m).WF := BV.truncate_wf a m ha
theorem Law_wf_signExtend (a : BV) (m : Nat) (ha : a.WF) : (a.signExtend m).WF := BV.signExtend_wf a m ha
theorem Law_wf_append (a x : BV) (ha : a.WF) (hx : x.WF) : (a.append x).WF := BV.append_wf a x ha hx
theorem Law_wf_prepend (a x : BV) (ha : a.WF) (hx : x.WF) : (a.prepend x).WF := BV.prepend_wf a x ha hx
theorem Law_wf_copyRange (a : BV) (s e : Nat) : (a.copyRange s e).WF := BV.lv_copyRange_wf a s e
theorem Law_wf_insert (a : BV) (i : Nat) (x : BV) (ha : a.WF) (hx : x.WF) (hi : i ≤ a.len) : (a.insert i x).WF :=
  BV.insert_wf a i x ha hx hi
theorem Law_wf_splitOff (a : BV) (i : Nat) : (a.splitOff i).1.WF ∧ (a.splitOff i).2.WF :=
  ⟨BV.splitOff_fst_wf a i, BV.lv_copyRange_wf a i a.len⟩
theorem Law_wf_extend (a : BV) (bs : List Bool) (ha : a.WF) : (a.extend bs).WF := BV.extend_wf a bs ha
theorem Law_wf_zeros (n : Nat) : (BV.zeros n).WF := Nat.two_pow_pos n
theorem Law_wf_ones (n : Nat) : (BV.ones n).WF := by
  have := Nat.two_pow_pos n
  unfold BV.ones BV.WF; simp only; omega
theorem Law_wf_repeat (b : Bool) (n : Nat) : (BV.repeat b n).WF := by
  unfold BV.repeat; split
  · exact Law_wf_ones n
  · exact Law_wf_zeros n
theorem Law_wf_trunc (n v : Nat) : (BV.trunc n v).WF := Nat.mod_lt _ (Nat.two_pow_pos _)
theorem Law_wf_ofBits (l : List Bool) : (BV.ofBits l).WF := BV.ofBits_wf l
theorem Law_aux_natOfBytesLE_lt (l : List Nat) (h : ∀ b ∈ l, b < 256) : BV.natOfBytesLE l < 2 ^ (8 * l.length) := by
  induction l with
  | nil => simp [BV.natOfBytesLE]
  | cons b bs ih =>
    have h1 := h b (List.mem_cons_self ..)
    have h2 := ih (fun c hc => h c (List.mem_cons_of_mem _ hc))
    rw [BV.natOfBytesLE, List.length_cons, Nat.mul_succ, Nat.pow_add]
    omega
theorem Law_wf_fromBytes (bytes : List Nat) (big : Bool) (h : ∀ b ∈ bytes, b < 256) : (BV.fromBytes bytes big).WF := by
  unfold BV.fromBytes BV.WF
  simp only
  cases big
  · simpa using Law_aux_natOfBytesLE_lt bytes h
  · have := Law_aux_natOfBytesLE_lt bytes.reverse (fun b hb => h b (List.mem_reverse.mp hb))
    simpa using this

-- 2–6. ring structure modulo 2^len ------------------------------------------------------------------------
theorem Law_add_comm (a b : BV) (h : a.len = b.len) : a.add b = b.add a := by
  unfold BV.add; rw [h, Nat.add_comm]

/-- associativity; the middle operand must be at least as long as the left one (see `Law_add_assoc_false`) -/
theorem Law_add_assoc (a b c : BV) (h : a.len ≤ b.len) : (a.add b).add c = a.add (b.add c) := by
  unfold BV.add; simp only; congr 1
  rw [Nat.mod_add_mod, Nat.add_mod a.val, Law_aux_mod_pow_of_le _ h, ← Nat.add_mod, Nat.add_assoc]

/-- without `a.len ≤ b.len` associativity fails (the inner sum is cut to `b.len` bits first) -/
theorem Law_add_assoc_false : ∃ a b c : BV, a.WF ∧ b.WF ∧ c.WF ∧ (a.add b).add c ≠ a.add (b.add c) :=
  ⟨⟨2, 0⟩, ⟨0, 0⟩, ⟨2, 1⟩, by decide, by decide, by decide, by decide⟩

theorem Law_add_zero (a : BV) (k : Nat) (ha : a.WF) : a.add (BV.zeros k) = a := by
  obtain ⟨n, v⟩ := a
  unfold BV.add BV.zeros; simp only [Nat.add_zero]; rw [Nat.mod_eq_of_lt ha]

theorem Law_zero_add (a : BV) (ha : a.WF) : (BV.zeros a.len).add a = a := by
  obtain ⟨n, v⟩ := a
  unfold BV.add BV.zeros; simp only [Nat.zero_add]; rw [Nat.mod_eq_of_lt ha]

theorem Law_sub_self (a : BV) : a.sub a = BV.zeros a.len := by
  unfold BV.sub BV.zeros; congr 1
  apply Law_aux_sub_unique _ _ 0 _ (Nat.two_pow_pos _)
  rw [Nat.zero_add]

theorem Law_sub_zero (a : BV) (k : Nat) (ha : a.WF) : a.sub (BV.zeros k) = a := by
  obtain ⟨n, v⟩ := a
  unfold BV.sub BV.zeros; simp only; congr 1
  exact Law_aux_sub_unique _ _ v _ ha (by rw [Nat.add_zero])

theorem Law_add_sub_cancel (a b : BV) (ha : a.WF) : (a.add b).sub b = a := by
  obtain ⟨n, v⟩ := a
  unfold BV.add BV.sub; simp only; congr 1
  exact Law_aux_sub_unique _ _ v _ ha (by rw [Nat.mod_mod])

theorem Law_sub_add_cancel (a b : BV) (ha : a.WF) : (a.sub b).add b = a := by
  obtain ⟨n, v⟩ := a
  unfold BV.add BV.sub; simp only; congr 1
  rw [Law_aux_sub_add _ _ _ (Nat.two_pow_pos _)]; exact Nat.mod_eq_of_lt ha

/-- no wrap-around: the value of the sum / difference is the sum / difference of the values -/
theorem Law_add_val_of_lt (a b : BV) (h : a.val + b.val < 2 ^ a.len) : (a.add b).val = a.val + b.val :=
  Nat.mod_eq_of_lt h

theorem Law_sub_val_of_le (a b : BV) (ha : a.WF) (h : b.val ≤ a.val) : (a.sub b).val = a.val - b.val :=
  div_sub_val a.val b.val _ ha h

theorem Law_mul_comm (a b : BV) (h : a.len = b.len) : a.mul b = b.mul a := by
  unfold BV.mul; rw [h, Nat.mul_comm]

theorem Law_mul_assoc (a b c : BV) (h : a.len ≤ b.len) : (a.mul b).mul c = a.mul (b.mul c) := by
  unfold BV.mul; simp only; congr 1
  rw [Nat.mod_mul_mod, Nat.mul_mod a.val, Law_aux_mod_pow_of_le _ h, ← Nat.mul_mod, Nat.mul_assoc]

/-- `k` is arbitrary: also the (ill-formed) `⟨0, 1⟩` is a right unit, because only the value of the operand is used -/
theorem Law_mul_one (a : BV) (k : Nat) (ha : a.WF) : a.mul ⟨k, 1⟩ = a := by
  obtain ⟨n, v⟩ := a
  unfold BV.mul; simp only [Nat.mul_one]; rw [Nat.mod_eq_of_lt ha]

theorem Law_one_mul (a : BV) (ha : a.WF) : (BV.mk a.len 1).mul a = a := by
  obtain ⟨n, v⟩ := a
  unfold BV.mul; simp only [Nat.one_mul]; rw [Nat.mod_eq_of_lt ha]

theorem Law_mul_zero (a : BV) (k : Nat) : a.mul (BV.zeros k) = BV.zeros a.len := by
  unfold BV.mul BV.zeros; simp only [Nat.mul_zero, Nat.zero_mod]

theorem Law_mul_distrib (a b c : BV) (h : a.len ≤ b.len) : a.mul (b.add c) = (a.mul b).add (a.mul c) := by
  unfold BV.mul BV.add; simp only; congr 1
  rw [← Nat.add_mod, ← Nat.mul_add, Nat.mul_mod a.val, Law_aux_mod_pow_of_le _ h, ← Nat.mul_mod]

theorem Law_mul_distrib_right (a b c : BV) (h : a.len ≤ b.len) : (a.add b).mul c = (a.mul c).add (b.mul c) := by
  unfold BV.mul BV.add; simp only; congr 1
  rw [Nat.add_mod (a.val * c.val % 2 ^ a.len), Law_aux_mod_pow_of_le _ h, Nat.mod_mod, ← Nat.add_mod, ← Nat.add_mul,
    Nat.mod_mul_mod]

/-- two's complement: `0 - a = !a + 1` (also for the empty vector) -/
theorem Law_neg (a : BV) (ha : a.WF) : (BV.zeros a.len).sub a = a.not.add ⟨a.len, 1⟩ := by
  obtain ⟨n, v⟩ := a
  unfold BV.WF at ha
  unfold BV.sub BV.not BV.add BV.zeros; simp only at *; congr 1
  rw [Nat.mod_eq_of_lt ha]; congr 1; omega

theorem Law_sub_eq_add_neg (a b : BV) (h : a.len = b.len) :
    a.sub b = a.add ((BV.zeros b.len).sub b) := by
  unfold BV.sub BV.add BV.zeros; simp only; congr 1
  rw [← h]
  apply Law_aux_sub_unique _ _ _ _ (Nat.mod_lt _ (Nat.two_pow_pos _))
  rw [Nat.mod_add_mod, Nat.add_assoc, ← Nat.add_mod_mod, Law_aux_sub_add _ _ _ (Nat.two_pow_pos _), Nat.zero_mod,
    Nat.add_zero]

-- 6. the right operand matters only modulo 2^a.len
theorem Law_only_low_bits_add (a x y : BV) (h : x.val % 2 ^ a.len = y.val % 2 ^ a.len) : a.add x = a.add y := by
  unfold BV.add; congr 1
  rw [← Nat.add_mod_mod, h, Nat.add_mod_mod]

theorem Law_only_low_bits_sub (a x y : BV) (h : x.val % 2 ^ a.len = y.val % 2 ^ a.len) : a.sub x = a.sub y := by
  unfold BV.sub; rw [h]

theorem Law_only_low_bits_mul (a x y : BV) (h : x.val % 2 ^ a.len = y.val % 2 ^ a.len) : a.mul x = a.mul y := by
  unfold BV.mul; congr 1
  rw [← Nat.mul_mod_mod, h, Nat.mul_mod_mod]

theorem Law_only_low_bits_or (a x y : BV) (h : x.val % 2 ^ a.len = y.val % 2 ^ a.len) : a.or x = a.or y := by
  unfold BV.or; rw [h]

theorem Law_only_low_bits_xor (a x y : BV) (h : x.val % 2 ^ a.len = y.val % 2 ^ a.len) : a.xor x = a.xor y := by
  unfold BV.xor; rw [h]

/-- for `and` the left operand has to be well-formed (see `Law_only_low_bits_and_false`) -/
theorem Law_only_low_bits_and (a x y : BV) (ha : a.WF) (h : x.val % 2 ^ a.len = y.val % 2 ^ a.len) :
    a.and x = a.and y := by
  unfold BV.and; congr 1
  apply Nat.eq_of_testBit_eq
  intro i
  rw [Nat.testBit_and, Nat.testBit_and]
  by_cases hi : i < a.len
  · have e := congrArg (fun t => Nat.testBit t i) h
    simp only [Nat.testBit_mod_two_pow, hi, decide_true, Bool.true_and] at e
    rw [e]
  · have : a.val.testBit i = false := BV.bit_of_le_len a ha i (by omega)
    rw [this, Bool.false_and, Bool.false_and]

theorem Law_only_low_bits_and_false : ∃ a x y : BV, x.val % 2 ^ a.len = y.val % 2 ^ a.len ∧ a.and x ≠ a.and y :=
  ⟨⟨0, 1⟩, ⟨0, 1⟩, ⟨0, 0⟩, by decide, by decide⟩

/-- the zero-extension / truncation of a well-formed operand to the left length has the same low bits -/
theorem Law_resize_low (x : BV) (n : Nat) (hx : x.WF) : (x.resize n false).val = x.val % 2 ^ n := by
  unfold BV.resize
  split
  · rfl
  · rename_i h
    simp only [Bool.false_eq_true, if_false, Nat.add_zero]
    exact (Nat.mod_eq_of_lt (Nat.lt_of_lt_of_le hx (Nat.pow_le_pow_right (by decide) (by omega)))).symm

theorem Law_add_resize (a x : BV) (hx : x.WF) : a.add x = a.add (x.resize a.len false) :=
  Law_only_low_bits_add a x _ (by rw [Law_resize_low x a.len hx, Nat.mod_mod])

-- 7. division ---------------------------------------------------------------------------------------------
theorem Law_div_rem (a x : BV) (hx : x.val ≠ 0) :
    (a.div x).val * x.val + (a.rem x).val = a.val ∧ (a.rem x).val < x.val := by
  unfold BV.div BV.rem; simp only
  exact ⟨by rw [Nat.mul_comm]; exact Nat.div_add_mod _ _, Nat.mod_lt _ (Nat.pos_of_ne_zero hx)⟩

/-- quotient and remainder are determined by the division equation -/
theorem Law_div_rem_unique (a x : BV) (q r : Nat) (h : q * x.val + r = a.val) (hr : r < x.val) :
    a.div x = ⟨a.len, q⟩ ∧ a.rem x = ⟨a.len, r⟩ := by
  unfold BV.div BV.rem
  have hpos : 0 < x.val := by omega
  have e : a.val = r + x.val * q := by rw [← h, Nat.mul_comm]; omega
  constructor
  · congr 1; rw [e, Nat.add_mul_div_left _ _ hpos, Nat.div_eq_of_lt hr, Nat.zero_add]
  · congr 1; rw [e, Nat.add_mul_mod_self_left, Nat.mod_eq_of_lt hr]

theorem Law_div_one (a : BV) (k : Nat) : a.div ⟨k, 1⟩ = a ∧ a.rem ⟨k, 1⟩ = BV.zeros a.len := by
  unfold BV.div BV.rem BV.zeros; simp only [Nat.div_one, Nat.mod_one]; exact ⟨trivial, trivial⟩

theorem Law_div_self (a : BV) (h : a.val ≠ 0) : a.div a = ⟨a.len, 1⟩ ∧ a.rem a = BV.zeros a.len := by
  unfold BV.div BV.rem BV.zeros
  rw [Nat.div_self (Nat.pos_of_ne_zero h), Nat.mod_self]; exact ⟨rfl, rfl⟩

theorem Law_div_of_lt (a x : BV) (h : a.val < x.val) : a.div x = BV.zeros a.len ∧ a.rem x = a := by
  unfold BV.div BV.rem BV.zeros
  rw [Nat.div_eq_of_lt h, Nat.mod_eq_of_lt h]; exact ⟨rfl, rfl⟩

-- 8. Boolean structure ------------------------------------------------------------------------------------
theorem Law_aux_and_bit (a x : BV) (i : Nat) : (a.and x).bit i = (a.bit i && x.bit i) := by
  unfold BV.and BV.bit; exact Nat.testBit_and ..

theorem Law_aux_or_bit (a x : BV) (i : Nat) : (a.or x).bit i = (a.bit i || (decide (i < a.len) && x.bit i)) := by
  unfold BV.or BV.bit; simp only [Nat.testBit_or, Nat.testBit_mod_two_pow]

theorem Law_aux_xor_bit (a x : BV) (i : Nat) : (a.xor x).bit i = (a.bit i ^^ (decide (i < a.len) && x.bit i)) := by
  unfold BV.xor BV.bit; simp only [Nat.testBit_xor, Nat.testBit_mod_two_pow]

theorem Law_aux_ones_bit (n i : Nat) : (BV.ones n).bit i = decide (i < n) := by
  unfold BV.ones BV.bit; exact Nat.testBit_two_pow_sub_one ..

theorem Law_aux_zeros_bit (n i : Nat) : (BV.zeros n).bit i = false := by
  unfold BV.zeros BV.bit; exact Nat.zero_testBit i

/-- bits at and above the length of a well-formed vector are 0, as a rewriting rule -/
theorem Law_aux_bit_wf (a : BV) (ha : a.WF) (i : Nat) : a.bit i = (decide (i < a.len) && a.bit i) := by
  by_cases h : i < a.len
  · simp [h]
  · simp [h, BV.bit_of_le_len a ha i (by omega)]

theorem Law_and_comm (a b : BV) (h : a.len = b.len) : a.and b = b.and a := by
  unfold BV.and; rw [h, Nat.and_comm]

/-- `or`, `xor` cut the right operand to `a.len` bits but keep the left one: commutativity needs well-formedness -/
theorem Law_or_comm (a b : BV) (ha : a.WF) (hb : b.WF) (h : a.len = b.len) : a.or b = b.or a := by
  unfold BV.or; unfold BV.WF at ha hb
  rw [← h, Nat.mod_eq_of_lt ha, Nat.mod_eq_of_lt (h ▸ hb), Nat.or_comm]

theorem Law_xor_comm (a b : BV) (ha : a.WF) (hb : b.WF) (h : a.len = b.len) : a.xor b = b.xor a := by
  unfold BV.xor; unfold BV.WF at ha hb
  rw [← h, Nat.mod_eq_of_lt ha, Nat.mod_eq_of_lt (h ▸ hb), Nat.xor_comm]

theorem Law_or_comm_false : ∃ a b : BV, a.len = b.len ∧ b.WF ∧ a.or b ≠ b.or a :=
  ⟨⟨0, 1⟩, ⟨0, 0⟩, rfl, by decide, by decide⟩

theorem Law_and_assoc (a b c : BV) : (a.and b).and c = a.and (b.and c) := by
  unfold BV.and; simp only [Nat.and_assoc]

theorem Law_or_assoc (a b c : BV) (h : a.len ≤ b.len) : (a.or b).or c = a.or (b.or c) := by
  refine BV.ext_bits (by rfl) (fun i => ?_)
  simp only [Law_aux_or_bit]
  show (a.bit i || (decide (i < a.len) && b.bit i) || (decide (i < a.len) && c.bit i)) = _
  by_cases h1 : i < a.len
  · have h2 : i < b.len := by omega
    simp [h1, h2, Bool.or_assoc]
  · simp [h1]

theorem Law_xor_assoc (a b c : BV) (h : a.len ≤ b.len) : (a.xor b).xor c = a.xor (b.xor c) := by
  refine BV.ext_bits (by rfl) (fun i => ?_)
  simp only [Law_aux_xor_bit]
  show ((a.bit i ^^ (decide (i < a.len) && b.bit i)) ^^ (decide (i < a.len) && c.bit i)) = _
  by_cases h1 : i < a.len
  · have h2 : i < b.len := by omega
    simp [h1, h2]
  · simp [h1]

theorem Law_and_self (a : BV) : a.and a = a := by
  unfold BV.and; rw [Nat.and_self]

theorem Law_or_self (a : BV) : a.or a = a := by
  refine BV.ext_bits (by rfl) (fun i => ?_)
  rw [Law_aux_or_bit]
  cases a.bit i <;> simp

theorem Law_xor_self (a : BV) (ha : a.WF) : a.xor a = BV.zeros a.len := by
  unfold BV.xor BV.zeros; rw [Nat.mod_eq_of_lt ha, Nat.xor_self]

theorem Law_not_not (a : BV) (ha : a.WF) : a.not.not = a := by
  obtain ⟨n, v⟩ := a
  unfold BV.WF at ha
  unfold BV.not; simp only at *; congr 1; omega

theorem Law_not_not_false : ∃ a : BV, a.not.not ≠ a := ⟨⟨0, 1⟩, by decide⟩

/-- De Morgan -/
theorem Law_not_and (a b : BV) (ha : a.WF) (hb : b.WF) (h : a.len ≤ b.len) : (a.and b).not = a.not.or b.not := by
  refine BV.ext_bits (by rfl) (fun i => ?_)
  rw [BV.not_bit _ (Law_wf_and a b ha), Law_aux_or_bit, BV.not_bit _ ha, BV.not_bit _ hb, Law_aux_and_bit]
  show (decide (i < a.len) && _) = (_ || (decide (i < a.len) && _))
  by_cases h1 : i < a.len
  · have h2 : i < b.len := by omega
    simp [h1, h2]
  · simp [h1]

theorem Law_not_or (a b : BV) (ha : a.WF) (hb : b.WF) (h : a.len ≤ b.len) : (a.or b).not = a.not.and b.not := by
  refine BV.ext_bits (by rfl) (fun i => ?_)
  rw [BV.not_bit _ (Law_wf_or a b ha), Law_aux_or_bit, Law_aux_and_bit, BV.not_bit _ ha, BV.not_bit _ hb]
  show (decide (i < a.len) && _) = _
  by_cases h1 : i < a.len
  · have h2 : i < b.len := by omega
    simp [h1, h2]
  · simp [h1]

theorem Law_not_and_false : ∃ a b : BV, a.WF ∧ a.len = b.len ∧ (a.and b).not ≠ a.not.or b.not :=
  ⟨⟨1, 1⟩, ⟨1, 2⟩, by decide, rfl, by decide⟩

theorem Law_xor_ones (a : BV) (ha : a.WF) : a.xor (BV.ones a.len) = a.not := by
  refine BV.ext_bits (by rfl) (fun i => ?_)
  rw [Law_aux_xor_bit, BV.not_bit _ ha, Law_aux_ones_bit, Law_aux_bit_wf a ha i]
  by_cases h1 : i < a.len <;> simp [h1]

theorem Law_xor_not (a b : BV) (ha : a.WF) (hb : b.WF) (h : a.len = b.len) : (a.xor b).not = a.not.xor b := by
  refine BV.ext_bits (by rfl) (fun i => ?_)
  rw [BV.not_bit _ (Law_wf_xor a b ha), Law_aux_xor_bit, Law_aux_xor_bit, BV.not_bit _ ha, Law_aux_bit_wf b hb i,
    Law_aux_bit_wf a ha i]
  show (decide (i < a.len) && _) = (_ ^^ (decide (i < a.len) && _))
  by_cases h1 : i < a.len
  · have h2 : i < b.len := by omega
    simp [h1, h2]
  · simp [h1]

theorem Law_and_ones (a : BV) (k : Nat) (ha : a.WF) (hk : a.len ≤ k) : a.and (BV.ones k) = a := by
  refine BV.ext_bits (by rfl) (fun i => ?_)
  rw [Law_aux_and_bit, Law_aux_ones_bit, Law_aux_bit_wf a ha i]
  by_cases h1 : i < a.len
  · have h2 : i < k := by omega
    simp [h1, h2]
  · simp [h1]

theorem Law_and_zeros (a : BV) (k : Nat) : a.and (BV.zeros k) = BV.zeros a.len := by
  unfold BV.and BV.zeros; simp only [Nat.and_zero]

theorem Law_or_zeros (a : BV) (k : Nat) : a.or (BV.zeros k) = a := by
  unfold BV.or BV.zeros; simp only [Nat.zero_mod, Nat.or_zero]

theorem Law_xor_zeros (a : BV) (k : Nat) : a.xor (BV.zeros k) = a := by
  unfold BV.xor BV.zeros; simp only [Nat.zero_mod, Nat.xor_zero]

theorem Law_or_ones (a : BV) (ha : a.WF) : a.or (BV.ones a.len) = BV.ones a.len := by
  refine BV.ext_bits (by rfl) (fun i => ?_)
  rw [Law_aux_or_bit, Law_aux_ones_bit, Law_aux_bit_wf a ha i]
  show _ = decide (i < a.len)
  by_cases h1 : i < a.len <;> simp [h1]

theorem Law_and_not_self (a : BV) (ha : a.WF) : a.and a.not = BV.zeros a.len := by
  refine BV.ext_bits (by rfl) (fun i => ?_)
  rw [Law_aux_and_bit, BV.not_bit _ ha, Law_aux_zeros_bit]
  cases a.bit i <;> simp

theorem Law_or_not_self (a : BV) (ha : a.WF) : a.or a.not = BV.ones a.len := by
  refine BV.ext_bits (by rfl) (fun i => ?_)
  rw [Law_aux_or_bit, BV.not_bit _ ha, Law_aux_ones_bit, Law_aux_bit_wf a ha i]
  show _ = decide (i < a.len)
  by_cases h1 : i < a.len
  · simp [h1]
  · simp [h1]

theorem Law_xor_not_self (a : BV) (ha : a.WF) : a.xor a.not = BV.ones a.len := by
  refine BV.ext_bits (by rfl) (fun i => ?_)
  rw [Law_aux_xor_bit, BV.not_bit _ ha, Law_aux_ones_bit, Law_aux_bit_wf a ha i]
  show _ = decide (i < a.len)
  by_cases h1 : i < a.len
  · simp [h1]
  · simp [h1]

theorem Law_and_or_distrib (a b c : BV) (h : a.len ≤ b.len) (ha : a.WF) :
    a.and (b.or c) = (a.and b).or (a.and c) := by
  refine BV.ext_bits (by rfl) (fun i => ?_)
  rw [Law_aux_and_bit, Law_aux_or_bit, Law_aux_or_bit, Law_aux_and_bit, Law_aux_and_bit, Law_aux_bit_wf a ha i]
  show _ = (_ || (decide (i < a.len) && _))
  by_cases h1 : i < a.len
  · have h2 : i < b.len := by omega
    simp [h1, h2, Bool.and_or_distrib_left]
  · simp [h1]

theorem Law_or_and_absorb (a b : BV) : a.or (a.and b) = a := by
  refine BV.ext_bits (by rfl) (fun i => ?_)
  rw [Law_aux_or_bit, Law_aux_and_bit]
  cases a.bit i <;> simp

-- 9. shifts -----------------------------------------------------------------------------------------------
theorem Law_aux_shl_len (a : BV) (k : Nat) : (a.shl k).len = a.len := by
  unfold BV.shl; split <;> rfl

theorem Law_aux_shr_len (a : BV) (k : Nat) : (a.shr k).len = a.len := by
  unfold BV.shr; split <;> rfl

theorem Law_shl_shl (a : BV) (j k : Nat) : (a.shl j).shl k = a.shl (j + k) := by
  refine BV.ext_bits (by simp only [Law_aux_shl_len]) (fun i => ?_)
  rw [BV.shl_bit, BV.shl_bit, BV.shl_bit, Law_aux_shl_len]
  have e : i - k - j = i - (j + k) := by omega
  rw [e]
  by_cases h1 : j + k ≤ i ∧ i < a.len
  · have h2 : k ≤ i ∧ i < a.len := by omega
    have h3 : j ≤ i - k ∧ i - k < a.len := by omega
    rw [decide_eq_true h1, decide_eq_true h2, decide_eq_true h3]; rfl
  · rw [decide_eq_false h1, Bool.false_and]
    by_cases h2 : k ≤ i ∧ i < a.len
    · have h3 : ¬ (j ≤ i - k ∧ i - k < a.len) := by omega
      rw [decide_eq_false h3, Bool.false_and, Bool.and_false]
    · rw [decide_eq_false h2, Bool.false_and]

theorem Law_shr_shr (a : BV) (j k : Nat) (ha : a.WF) : (a.shr j).shr k = a.shr (j + k) := by
  refine BV.ext_bits (by simp only [Law_aux_shr_len]) (fun i => ?_)
  rw [BV.shr_bit _ (Law_wf_shr a j ha), BV.shr_bit _ ha, BV.shr_bit _ ha, Law_aux_shr_len]
  have e : i + k + j = i + (j + k) := by omega
  rw [e]
  by_cases h1 : i + (j + k) < a.len
  · have h2 : i + k < a.len := by omega
    rw [decide_eq_true h1, decide_eq_true h2]; rfl
  · rw [decide_eq_false h1]; simp

theorem Law_shl_zero (a : BV) (ha : a.WF) : a.shl 0 = a := by
  refine BV.ext_bits (Law_aux_shl_len a 0) (fun i => ?_)
  rw [BV.shl_bit, Nat.sub_zero]
  conv => rhs; rw [Law_aux_bit_wf a ha i]
  simp

theorem Law_shr_zero (a : BV) (ha : a.WF) : a.shr 0 = a := by
  refine BV.ext_bits (Law_aux_shr_len a 0) (fun i => ?_)
  rw [BV.shr_bit _ ha, Nat.add_zero]
  exact (Law_aux_bit_wf a ha i).symm

theorem Law_shl_mul (a : BV) (k : Nat) : (a.shl k).val = (a.val * 2 ^ k) % 2 ^ a.len := by
  unfold BV.shl; split
  · rename_i h
    exact (Nat.mod_eq_zero_of_dvd (Nat.dvd_trans (Nat.pow_dvd_pow 2 h) (Nat.dvd_mul_left _ _))).symm
  · rw [Nat.shiftLeft_eq]

theorem Law_shr_div (a : BV) (k : Nat) (ha : a.WF) : (a.shr k).val = a.val / 2 ^ k := by
  unfold BV.shr; split
  · rename_i h
    exact (Nat.div_eq_of_lt (Nat.lt_of_lt_of_le ha (Nat.pow_le_pow_right (by decide) h))).symm
  · rw [Nat.shiftRight_eq_div_pow]

/-- shifting up then down keeps the low `len - k` bits -/
theorem Law_shl_shr (a : BV) (k : Nat) : (a.shl k).shr k = ⟨a.len, a.val % 2 ^ (a.len - k)⟩ := by
  refine BV.ext_bits (by simp only [Law_aux_shr_len, Law_aux_shl_len]) (fun i => ?_)
  rw [BV.shr_bit _ (Law_wf_shl a k), BV.shl_bit, Law_aux_shl_len, Nat.add_sub_cancel]
  show _ = (a.val % 2 ^ (a.len - k)).testBit i
  rw [Nat.testBit_mod_two_pow]
  by_cases h1 : i < a.len - k
  · have h2 : i + k < a.len := by omega
    have h3 : k ≤ i + k ∧ i + k < a.len := by omega
    rw [decide_eq_true h1, decide_eq_true h2, decide_eq_true h3]; rfl
  · have h2 : ¬ i + k < a.len := by omega
    rw [decide_eq_false h1, decide_eq_false h2, Bool.false_and, Bool.false_and]

/-- shifting down then up clears the low `k` bits -/
theorem Law_shr_shl (a : BV) (k : Nat) (ha : a.WF) : (a.shr k).shl k = a.and ((BV.ones a.len).shl k) := by
  refine BV.ext_bits (by simp only [Law_aux_shr_len, Law_aux_shl_len]; rfl) (fun i => ?_)
  rw [BV.shl_bit, BV.shr_bit _ ha, Law_aux_shr_len, Law_aux_and_bit, BV.shl_bit, Law_aux_ones_bit]
  show _ = (_ && (decide (k ≤ i ∧ i < a.len) && _))
  by_cases h1 : k ≤ i ∧ i < a.len
  · have h2 : i - k + k < a.len := by omega
    have h3 : i - k < a.len := by omega
    have e : i - k + k = i := by omega
    rw [decide_eq_true h1, decide_eq_true h2, decide_eq_true h3, e]; simp
  · rw [decide_eq_false h1, Bool.false_and, Bool.false_and, Bool.and_false]

theorem Law_shl_val_mul (a : BV) (k : Nat) : a.shl k = a.mul ⟨a.len, 2 ^ k⟩ := by
  refine BV.ext_bits (Law_aux_shl_len a k) (fun i => ?_)
  unfold BV.bit; rw [Law_shl_mul]; rfl

theorem Law_shlIn_fst (a : BV) (b : Bool) (ha : a.WF) : (a.shlIn b).1 = (a.shl 1).or ⟨a.len, b.toNat⟩ := by
  refine BV.ext_bits (by rw [BV.shlIn_len]; exact (Law_aux_shl_len a 1).symm) (fun i => ?_)
  rw [BV.shlIn_bit a ha, Law_aux_or_bit, BV.shl_bit, Law_aux_shl_len]
  show _ = (_ || (_ && b.toNat.testBit i))
  rw [toNat_testBit]
  by_cases h1 : i < a.len
  · by_cases h2 : i = 0
    · subst h2; simp [h1]
    · have h3 : 1 ≤ i ∧ i < a.len := by omega
      simp [h1, h2, h3]
  · have h3 : ¬ (1 ≤ i ∧ i < a.len) := by omega
    rw [decide_eq_false h1, decide_eq_false h3]; simp

theorem Law_shlIn (a : BV) (b : Bool) (ha : a.WF) (hl : 0 < a.len) :
    (a.shlIn b).1 = (a.shl 1).or ⟨a.len, b.toNat⟩ ∧ (a.shlIn b).2 = a.bit (a.len - 1) :=
  ⟨Law_shlIn_fst a b ha, by rw [BV.shlIn_snd, if_neg (by omega)]⟩

theorem Law_shrIn_fst (a : BV) (b : Bool) (ha : a.WF) :
    (a.shrIn b).1 = (a.shr 1).or ⟨a.len, b.toNat * 2 ^ (a.len - 1)⟩ := by
  refine BV.ext_bits (by rw [BV.shrIn_len]; exact (Law_aux_shr_len a 1).symm) (fun i => ?_)
  rw [BV.shrIn_bit a ha, Law_aux_or_bit, BV.shr_bit _ ha, Law_aux_shr_len]
  show _ = (_ || (_ && (b.toNat * 2 ^ (a.len - 1)).testBit i))
  rw [Nat.testBit_mul_two_pow, toNat_testBit]
  by_cases h1 : i < a.len
  · by_cases h2 : i + 1 = a.len
    · have h3 : ¬ i + 1 < a.len := by omega
      have h4 : a.len - 1 ≤ i := by omega
      have h5 : i - (a.len - 1) = 0 := by omega
      simp [h1, h2, h4, h5]
    · have h3 : i + 1 < a.len := by omega
      have h4 : ¬ a.len - 1 ≤ i := by omega
      simp [h1, h2, h3, h4]
  · have h3 : ¬ i + 1 < a.len := by omega
    rw [decide_eq_false h1, decide_eq_false h3]; simp

theorem Law_shrIn (a : BV) (b : Bool) (ha : a.WF) (hl : 0 < a.len) :
    (a.shrIn b).1 = (a.shr 1).or ⟨a.len, b.toNat * 2 ^ (a.len - 1)⟩ ∧ (a.shrIn b).2 = a.bit 0 :=
  ⟨Law_shrIn_fst a b ha, by rw [BV.shrIn_snd, if_neg (by omega)]⟩

/-- the bit shifted out on one side can be shifted back in on the other -/
theorem Law_shlIn_shrIn (a : BV) (b : Bool) (ha : a.WF) (hl : 0 < a.len) :
    ((a.shlIn b).1.shrIn (a.shlIn b).2).1 = a ∧ ((a.shlIn b).1.shrIn (a.shlIn b).2).2 = b := by
  have hw := Law_wf_shlIn a b ha
  constructor
  · refine BV.ext_bits (by rw [BV.shrIn_len, BV.shlIn_len]) (fun i => ?_)
    have hn : ¬ a.len = 0 := by omega
    rw [BV.shrIn_bit _ hw, BV.shlIn_len, BV.shlIn_bit a ha, BV.shlIn_snd, if_neg hn, Nat.add_sub_cancel]
    by_cases h1 : i < a.len
    · by_cases h2 : i + 1 = a.len
      · have e : a.len - 1 = i := by omega
        simp [h1, h2, e]
      · have h3 : i + 1 < a.len := by omega
        simp [h1, h2, h3]
    · rw [decide_eq_false h1, Bool.false_and, BV.bit_of_le_len a ha i (by omega)]
  · have hn : ¬ a.len = 0 := by omega
    rw [BV.shrIn_snd, BV.shlIn_len, if_neg hn, BV.shlIn_bit a ha]
    simp [hl]

-- 10. rotations -------------------------------------------------------------------------------------------
theorem Law_aux_rotl_empty (a : BV) (hl : a.len = 0) (t : Nat) : a.rotl t = a := by
  unfold BV.rotl; rw [if_pos hl]

theorem Law_aux_rotr_empty (a : BV) (hl : a.len = 0) (t : Nat) : a.rotr t = a := by
  unfold BV.rotr; rw [if_pos hl]

theorem Law_rotl_zero (a : BV) (ha : a.WF) : a.rotl 0 = a := by
  by_cases hl : a.len = 0
  · exact Law_aux_rotl_empty a hl 0
  · refine BV.ext_bits (BV.rotl_len a 0) (fun i => ?_)
    rw [BV.rotl_bit a 0 i ha (Nat.zero_le _) (by omega), if_neg (Nat.not_lt_zero i), Nat.sub_zero]
    exact (Law_aux_bit_wf a ha i).symm

theorem Law_rotl_len (a : BV) (ha : a.WF) : a.rotl a.len = a := by
  by_cases hl : a.len = 0
  · exact Law_aux_rotl_empty a hl _
  · refine BV.ext_bits (BV.rotl_len a _) (fun i => ?_)
    rw [BV.rotl_bit a a.len i ha (Nat.le_refl _) (by omega)]
    by_cases h1 : i < a.len
    · rw [if_pos h1]; congr 1; omega
    · rw [if_neg h1, decide_eq_false h1, Bool.false_and, BV.bit_of_le_len a ha i (by omega)]

theorem Law_rotl_add (a : BV) (j k : Nat) (ha : a.WF) (h : j + k ≤ a.len) : (a.rotl j).rotl k = a.rotl (j + k) := by
  by_cases hl : a.len = 0
  · rw [Law_aux_rotl_empty a hl, Law_aux_rotl_empty a hl, Law_aux_rotl_empty a hl]
  · have hl' : 0 < a.len := by omega
    have hw := BV.rotl_wf a j ha (by omega)
    refine BV.ext_bits (by simp only [BV.rotl_len]) (fun i => ?_)
    have B : ∀ m, (a.rotl j).bit m =
        if m < j then a.bit (a.len - j + m) else (decide (m < a.len) && a.bit (m - j)) :=
      fun m => BV.rotl_bit a j m ha (by omega) hl'
    rw [BV.rotl_bit (a.rotl j) k i hw (by rw [BV.rotl_len]; omega) (by rw [BV.rotl_len]; exact hl'),
      BV.rotl_bit a (j + k) i ha h hl', BV.rotl_len]
    simp only [B]
    by_cases h1 : i < k
    · have h2 : ¬ a.len - k + i < j := by omega
      have h3 : a.len - k + i < a.len := by omega
      have h4 : i < j + k := by omega
      rw [if_pos h1, if_neg h2, if_pos h4, decide_eq_true h3, Bool.true_and]
      congr 1; omega
    · rw [if_neg h1]
      by_cases h4 : i < j + k
      · have h2 : i - k < j := by omega
        have h5 : i < a.len := by omega
        rw [if_pos h2, if_pos h4, decide_eq_true h5, Bool.true_and]; congr 1; omega
      · have h2 : ¬ i - k < j := by omega
        rw [if_neg h2, if_neg h4]
        by_cases h5 : i < a.len
        · have h6 : i - k < a.len := by omega
          rw [decide_eq_true h5, decide_eq_true h6, Bool.true_and, Bool.true_and]; congr 1; omega
        · rw [decide_eq_false h5, Bool.false_and, Bool.false_and]

/-- rotation amounts add modulo the length: the wrapping case -/
theorem Law_rotl_add_wrap (a : BV) (j k : Nat) (ha : a.WF) (hj : j ≤ a.len) (hk : k ≤ a.len) (h : a.len ≤ j + k) :
    (a.rotl j).rotl k = a.rotl (j + k - a.len) := by
  by_cases hl : a.len = 0
  · rw [Law_aux_rotl_empty a hl, Law_aux_rotl_empty a hl, Law_aux_rotl_empty a hl]
  · have hl' : 0 < a.len := by omega
    have hw := BV.rotl_wf a j ha hj
    refine BV.ext_bits (by simp only [BV.rotl_len]) (fun i => ?_)
    have B : ∀ m, (a.rotl j).bit m =
        if m < j then a.bit (a.len - j + m) else (decide (m < a.len) && a.bit (m - j)) :=
      fun m => BV.rotl_bit a j m ha hj hl'
    rw [BV.rotl_bit (a.rotl j) k i hw (by rw [BV.rotl_len]; omega) (by rw [BV.rotl_len]; exact hl'),
      BV.rotl_bit a (j + k - a.len) i ha (by omega) hl', BV.rotl_len]
    simp only [B]
    by_cases h1 : i < k
    · rw [if_pos h1]
      by_cases h2 : a.len - k + i < j
      · have h4 : i < j + k - a.len := by omega
        rw [if_pos h2, if_pos h4]; congr 1; omega
      · have h4 : ¬ i < j + k - a.len := by omega
        have h3 : a.len - k + i < a.len := by omega
        have h5 : i < a.len := by omega
        rw [if_neg h2, if_neg h4, decide_eq_true h3, decide_eq_true h5, Bool.true_and, Bool.true_and]
        congr 1; omega
    · have h4 : ¬ i < j + k - a.len := by omega
      rw [if_neg h1, if_neg h4]
      by_cases h5 : i < a.len
      · have h2 : i - k < j := by omega
        rw [if_pos h2, decide_eq_true h5, Bool.true_and, Bool.true_and]; congr 1; omega
      · rw [decide_eq_false h5, Bool.false_and, Bool.false_and]

theorem Law_rotl_rotr (a : BV) (k : Nat) (ha : a.WF) (hk : k ≤ a.len) :
    (a.rotl k).rotr k = a ∧ (a.rotr k).rotl k = a :=
  ⟨BV.rotr_rotl a k ha hk, BV.rotl_rotr a k ha hk⟩

theorem Law_rotl_eq_rotr (a : BV) (k : Nat) (ha : a.WF) (hk : k ≤ a.len) : a.rotl k = a.rotr (a.len - k) :=
  BV.rotl_eq_rotr a k ha hk

theorem Law_rotr_eq_rotl (a : BV) (k : Nat) (ha : a.WF) (hk : k ≤ a.len) : a.rotr k = a.rotl (a.len - k) := by
  rw [BV.rotl_eq_rotr a (a.len - k) ha (by omega)]
  congr 1; omega

theorem Law_rotr_zero (a : BV) (ha : a.WF) : a.rotr 0 = a := by
  rw [Law_rotr_eq_rotl a 0 ha (Nat.zero_le _), Nat.sub_zero, Law_rotl_len a ha]

theorem Law_rotr_len (a : BV) (ha : a.WF) : a.rotr a.len = a := by
  rw [Law_rotr_eq_rotl a a.len ha (Nat.le_refl _), Nat.sub_self, Law_rotl_zero a ha]

theorem Law_rotr_add (a : BV) (j k : Nat) (ha : a.WF) (h : j + k ≤ a.len) : (a.rotr j).rotr k = a.rotr (j + k) := by
  have hw := BV.rotr_wf a j ha (by omega)
  rw [Law_rotr_eq_rotl (a.rotr j) k hw (by rw [BV.rotr_len]; omega), BV.rotr_len,
    Law_rotr_eq_rotl a j ha (by omega), Law_rotl_add_wrap a _ _ ha (by omega) (by omega) (by omega),
    Law_rotr_eq_rotl a (j + k) ha h]
  congr 1; omega

/-- a rotation is the two shifts put together -/
theorem Law_rotl_shl_shr (a : BV) (k : Nat) (ha : a.WF) (hk : k ≤ a.len) :
    a.rotl k = (a.shl k).or (a.shr (a.len - k)) := by
  by_cases hl : a.len = 0
  · rw [Law_aux_rotl_empty a hl]
    obtain ⟨n, v⟩ := a
    simp only at hl; subst hl
    have : v = 0 := by unfold BV.WF at ha; simp only at ha; omega
    subst this
    have hk0 : k = 0 := by simp only at hk; omega
    subst hk0
    decide
  · refine BV.ext_bits (by rw [BV.rotl_len]; exact (Law_aux_shl_len a k).symm) (fun i => ?_)
    rw [BV.rotl_bit a k i ha hk (by omega), Law_aux_or_bit, BV.shl_bit, BV.shr_bit _ ha, Law_aux_shl_len]
    by_cases h1 : i < k
    · have h2 : ¬ (k ≤ i ∧ i < a.len) := by omega
      have h3 : i < a.len := by omega
      have h4 : i + (a.len - k) < a.len := by omega
      have e : i + (a.len - k) = a.len - k + i := by omega
      rw [if_pos h1, decide_eq_false h2, decide_eq_true h3, decide_eq_true h4, e]; simp
    · rw [if_neg h1]
      by_cases h3 : i < a.len
      · have h2 : k ≤ i ∧ i < a.len := by omega
        have h4 : ¬ i + (a.len - k) < a.len := by omega
        rw [decide_eq_true h2, decide_eq_true h3, decide_eq_false h4]; simp
      · have h2 : ¬ (k ≤ i ∧ i < a.len) := by omega
        rw [decide_eq_false h2, decide_eq_false h3]; simp

-- 11. list structure --------------------------------------------------------------------------------------
theorem Law_append_assoc (a b c : BV) : (a.append b).append c = a.append (b.append c) := by
  unfold BV.append; simp only; congr 1
  · exact Nat.add_assoc ..
  · rw [Nat.pow_add, Nat.add_mul, Nat.add_assoc, Nat.mul_assoc, Nat.mul_comm (2 ^ b.len)]

theorem Law_append_zero_len (a : BV) : a.append ⟨0, 0⟩ = a := by
  unfold BV.append; simp only [Nat.add_zero, Nat.zero_mul]

theorem Law_zero_len_append (a : BV) : (BV.mk 0 0).append a = a := by
  unfold BV.append; simp only [Nat.zero_add, Nat.pow_zero, Nat.mul_one]

theorem Law_prepend_append (a x : BV) : a.prepend x = x.append a := BV.lv_prepend_eq_append a x

theorem Law_push_eq_append (a : BV) (b : Bool) : a.push b = a.append ⟨1, b.toNat⟩ := rfl

theorem Law_extend_eq_append (a : BV) (bs : List Bool) (ha : a.WF) : a.extend bs = a.append (BV.ofBits bs) := by
  apply BV.eq_of_bits _ _ (BV.extend_wf a bs ha) (BV.append_wf _ _ ha (BV.ofBits_wf bs))
  rw [BV.extend_bits a bs ha, BV.bits_append _ _ ha, BV.ofBits_bits]

theorem Law_insert_0 (a x : BV) : a.insert 0 x = a.prepend x := by
  unfold BV.insert BV.prepend
  simp only [Nat.pow_zero, Nat.mod_one, Nat.mul_one, Nat.zero_add, Nat.shiftRight_zero]

theorem Law_insert_len (a x : BV) (ha : a.WF) : a.insert a.len x = a.append x := by
  unfold BV.insert BV.append
  rw [Nat.mod_eq_of_lt ha, Nat.shiftRight_eq_div_pow, Nat.div_eq_of_lt ha, Nat.zero_mul, Nat.add_zero]

theorem Law_insert_split (a : BV) (i : Nat) (x : BV) (ha : a.WF) (hi : i ≤ a.len) :
    a.insert i x = ((a.splitOff i).1.append x).append (a.splitOff i).2 := BV.lv_insert_eq a i x ha hi

theorem Law_push_pop (a : BV) (b : Bool) (ha : a.WF) : (a.push b).pop = (a, some b) := by
  have hb : (a.push b).bit a.len = b := by
    rw [BV.push_bit a b ha, if_neg (Nat.lt_irrefl _)]; simp
  obtain ⟨n, v⟩ := a
  unfold BV.WF at ha
  unfold BV.push at hb
  unfold BV.push BV.pop
  simp only at *
  rw [if_neg (Nat.succ_ne_zero n)]
  simp only [Nat.add_sub_cancel]
  rw [hb, Nat.add_mul_mod_self_right, Nat.mod_eq_of_lt ha]

theorem Law_pop_empty (a : BV) (h : a.len = 0) : a.pop = (a, none) := by
  unfold BV.pop; rw [if_pos h]

theorem Law_pop_push (a : BV) (ha : a.WF) (hl : 0 < a.len) : ∃ b, a.pop.2 = some b ∧ a.pop.1.push b = a := by
  have hn : ¬ a.len = 0 := by omega
  refine ⟨a.bit (a.len - 1), by unfold BV.pop; rw [if_neg hn], ?_⟩
  have e : a.pop.1 = ⟨a.len - 1, a.val % 2 ^ (a.len - 1)⟩ := by unfold BV.pop; rw [if_neg hn]
  rw [e]
  refine BV.ext_bits (by show a.len - 1 + 1 = a.len; omega) (fun i => ?_)
  rw [BV.push_bit _ _ (BV.lv_mod_wf _ _)]
  show (if i < a.len - 1 then (a.val % 2 ^ (a.len - 1)).testBit i else _) = _
  by_cases h1 : i < a.len - 1
  · rw [if_pos h1, Nat.testBit_mod_two_pow, decide_eq_true h1, Bool.true_and]; rfl
  · rw [if_neg h1]
    by_cases h2 : i = a.len - 1
    · rw [decide_eq_true h2, Bool.true_and, h2]
    · rw [decide_eq_false h2, Bool.false_and, BV.bit_of_le_len a ha i (by omega)]

/-- the `match` form of `Law_pop_push` -/
theorem Law_pop_push' (a : BV) (ha : a.WF) (hl : 0 < a.len) :
    match a.pop with
    | (p, some b) => p.push b = a
    | (_, none) => False := by
  obtain ⟨b, h1, h2⟩ := Law_pop_push a ha hl
  generalize a.pop = r at h1 h2
  obtain ⟨p, o⟩ := r
  simp only at h1 h2
  subst h1
  exact h2

theorem Law_split_append (a : BV) (i : Nat) (ha : a.WF) (hi : i ≤ a.len) :
    (a.splitOff i).1.append (a.splitOff i).2 = a := by
  refine BV.ext_bits (by show i + (a.len - i) = a.len; omega) (fun j => ?_)
  rw [BV.append_bit _ _ (BV.splitOff_fst_wf a i)]
  show (if j < i then (a.val % 2 ^ i).testBit j else (a.copyRange i a.len).bit (j - i)) = _
  by_cases h1 : j < i
  · rw [if_pos h1, Nat.testBit_mod_two_pow, decide_eq_true h1, Bool.true_and]; rfl
  · rw [if_neg h1, BV.copyRange_bit]
    have e : i + (j - i) = j := by omega
    rw [e]
    by_cases h2 : j < a.len
    · have h3 : j - i < a.len - i := by omega
      rw [decide_eq_true h3, Bool.true_and]
    · have h3 : ¬ j - i < a.len - i := by omega
      rw [decide_eq_false h3, Bool.false_and, BV.bit_of_le_len a ha j (by omega)]

theorem Law_append_split (a b : BV) (ha : a.WF) (hb : b.WF) : (a.append b).splitOff a.len = (a, b) := by
  obtain ⟨n, v⟩ := a
  obtain ⟨m, u⟩ := b
  unfold BV.WF at ha hb
  unfold BV.append BV.splitOff BV.copyRange
  simp only at *
  have e : n + m - n = m := by omega
  rw [e, Nat.add_mul_mod_self_right, Nat.mod_eq_of_lt ha, Nat.shiftRight_eq_div_pow,
    Nat.add_mul_div_right _ _ (Nat.two_pow_pos n), Nat.div_eq_of_lt ha, Nat.zero_add, Nat.mod_eq_of_lt hb]

theorem Law_copyRange_full (a : BV) (ha : a.WF) : a.copyRange 0 a.len = a := by
  unfold BV.copyRange
  simp only [Nat.sub_zero, Nat.shiftRight_zero]
  rw [Nat.mod_eq_of_lt ha]

theorem Law_copyRange_copyRange (a : BV) (s e s' e' : Nat) (h : e' ≤ e - s) :
    (a.copyRange s e).copyRange s' e' = a.copyRange (s + s') (s + e') := by
  refine BV.ext_bits (by show e' - s' = s + e' - (s + s'); omega) (fun i => ?_)
  rw [BV.copyRange_bit, BV.copyRange_bit, BV.copyRange_bit, Nat.add_assoc]
  by_cases h1 : i < e' - s'
  · have h2 : s' + i < e - s := by omega
    have h3 : i < s + e' - (s + s') := by omega
    rw [decide_eq_true h1, decide_eq_true h2, decide_eq_true h3]; rfl
  · have h3 : ¬ i < s + e' - (s + s') := by omega
    rw [decide_eq_false h1, decide_eq_false h3, Bool.false_and, Bool.false_and]

/-- a slice is a right shift followed by a truncation -/
theorem Law_copyRange_eq_shr_resize (a : BV) (s e : Nat) (ha : a.WF) (h : e - s ≤ a.len) :
    a.copyRange s e = (a.shr s).resize (e - s) false := by
  unfold BV.resize
  rw [Law_aux_shr_len, if_pos h, Law_shr_div a s ha]
  unfold BV.copyRange
  rw [Nat.shiftRight_eq_div_pow]

theorem Law_resize_resize_grow_shrink (a : BV) (m : Nat) (b c : Bool) (ha : a.WF) (hm : a.len ≤ m) :
    (a.resize m b).resize a.len c = a := by
  refine BV.ext_bits (BV.resize_len _ _ _) (fun i => ?_)
  rw [BV.resize_bit _ _ _ (BV.resize_wf a m b ha), BV.resize_len, BV.resize_bit _ _ _ ha]
  by_cases h1 : i < a.len
  · have h2 : i < m := by omega
    rw [decide_eq_true h1, if_pos h2, decide_eq_true h2, if_pos h1]; rfl
  · rw [decide_eq_false h1, Bool.false_and, BV.bit_of_le_len a ha i (by omega)]

theorem Law_resize_self (a : BV) (b : Bool) (ha : a.WF) : a.resize a.len b = a := BV.resize_self a b ha

theorem Law_resize_grow_eq_append (a : BV) (m : Nat) (b : Bool) (ha : a.WF) (hm : a.len ≤ m) :
    a.resize m b = a.append (BV.repeat b (m - a.len)) := by
  refine BV.ext_bits (by rw [BV.resize_len]; show m = a.len + (BV.repeat b (m - a.len)).len
                         cases b <;> (simp only [BV.repeat, BV.ones, BV.zeros, if_true, Bool.false_eq_true, if_false]; omega))
    (fun i => ?_)
  rw [BV.resize_bit _ _ _ ha, BV.append_bit _ _ ha]
  by_cases h1 : i < a.len
  · have h2 : i < m := by omega
    rw [if_pos h1, if_pos h1, decide_eq_true h2]; rfl
  · rw [if_neg h1, if_neg h1]
    cases b
    · simp only [BV.repeat, Bool.false_eq_true, if_false, Law_aux_zeros_bit, Bool.and_false]
    · simp only [BV.repeat, if_true, Law_aux_ones_bit, Bool.and_true]
      congr 1
      apply propext
      omega

theorem Law_truncate_idem (a : BV) (m : Nat) : (a.truncate m).truncate m = a.truncate m := by
  by_cases h : m < a.len
  · have e : a.truncate m = a.resize m false := by unfold BV.truncate; rw [if_pos h]
    rw [e]
    unfold BV.truncate
    rw [BV.resize_len, if_neg (Nat.lt_irrefl m)]
  · have e : a.truncate m = a := by unfold BV.truncate; rw [if_neg h]
    rw [e, e]

theorem Law_signExtend_idem (a : BV) (m : Nat) : (a.signExtend m).signExtend m = a.signExtend m := by
  by_cases h : m > a.len
  · have e : a.signExtend m = a.resize m (decide (a.len > 0) && a.bit (a.len - 1)) := by
      unfold BV.signExtend; rw [if_pos h]
    rw [e]
    generalize (decide (a.len > 0) && a.bit (a.len - 1)) = s
    unfold BV.signExtend
    rw [BV.resize_len, if_neg (Nat.lt_irrefl m)]
  · have e : a.signExtend m = a := by unfold BV.signExtend; rw [if_neg h]
    rw [e, e]

theorem Law_set_get (a : BV) (i : Nat) (b : Bool) :
    (a.set i b).bit i = b ∧ ∀ j, j ≠ i → (a.set i b).bit j = a.bit j :=
  ⟨by rw [BV.set_bit, if_pos rfl], fun j hj => by rw [BV.set_bit, if_neg hj]⟩

theorem Law_set_set (a : BV) (i : Nat) (b c : Bool) : (a.set i b).set i c = a.set i c := by
  refine BV.ext_bits rfl (fun j => ?_)
  simp only [BV.set_bit]
  split <;> rfl

theorem Law_set_comm (a : BV) (i j : Nat) (b c : Bool) (h : i ≠ j) : (a.set i b).set j c = (a.set j c).set i b := by
  refine BV.ext_bits rfl (fun t => ?_)
  simp only [BV.set_bit]
  by_cases h1 : t = j
  · have h2 : ¬ t = i := by omega
    rw [if_pos h1, if_neg h2, if_pos h1]
  · rw [if_neg h1, if_neg h1]

theorem Law_set_same (a : BV) (i : Nat) : a.set i (a.bit i) = a := by
  refine BV.ext_bits rfl (fun t => ?_)
  rw [BV.set_bit]
  split
  · rename_i h; rw [h]
  · rfl

theorem Law_bits_ofBits (a : BV) (ha : a.WF) : BV.ofBits a.bits = a := BV.ofBits_bits_self a ha

theorem Law_ofBits_bits (l : List Bool) : (BV.ofBits l).bits = l := BV.ofBits_bits l

/-- two well-formed vectors are equal iff they are equal as lists of bits -/
theorem Law_eq_iff_bits (a b : BV) (ha : a.WF) (hb : b.WF) : a = b ↔ a.bits = b.bits := BV.eq_iff_bits a b ha hb

-- 12. counts ----------------------------------------------------------------------------------------------
theorem Law_lz_sig (a : BV) (ha : a.WF) : a.leadingZeros + a.sig = a.len := BV.leadingZeros_add_sig a ha

theorem Law_isZero_iff_sig (a : BV) : a.isZero = true ↔ a.sig = 0 := BV.isZero_iff_sig a

theorem Law_isZero_iff_val (a : BV) : a.isZero = true ↔ a.val = 0 := by
  unfold BV.isZero; exact beq_iff_eq

theorem Law_isZero_iff_zeros (a : BV) : a.isZero = true ↔ a = BV.zeros a.len := by
  rw [Law_isZero_iff_val]
  obtain ⟨n, v⟩ := a
  unfold BV.zeros
  simp only [BV.mk.injEq, true_and]

theorem Law_lz_le (a : BV) : a.leadingZeros ≤ a.len := BV.leadingZeros_le_len a

theorem Law_tz_le (a : BV) : a.trailingZeros ≤ a.len := BV.trailingZeros_le_len a

theorem Law_tz_eq_len_iff (a : BV) (ha : a.WF) : a.trailingZeros = a.len ↔ a.val = 0 := by
  constructor
  · intro h
    apply Nat.eq_of_testBit_eq
    intro i
    rw [Nat.zero_testBit]
    by_cases h1 : i < a.len
    · exact BV.bit_of_lt_trailingZeros a i (by omega)
    · exact BV.bit_of_le_len a ha i (by omega)
  · intro h
    unfold BV.trailingZeros
    rw [h, BV.natTz_zero]

theorem Law_lz_eq_len_iff (a : BV) (ha : a.WF) : a.leadingZeros = a.len ↔ a.val = 0 := by
  have h1 := BV.leadingZeros_add_sig a ha
  have h2 := BV.natBits_eq_zero_iff a.val
  unfold BV.sig at h1
  constructor
  · intro h; exact h2.mp (by omega)
  · intro h; have := h2.mpr h; omega

/-- the significant-bit count is the position of the top set bit -/
theorem Law_sig_spec (a : BV) : (∀ i, a.sig ≤ i → a.bit i = false) ∧ (a.sig = 0 ∨ a.bit (a.sig - 1) = true) :=
  ⟨fun i h => BV.bit_of_sig_le a i h, BV.sig_top a⟩

theorem Law_sig_iff_lt (a : BV) (n : Nat) : a.sig ≤ n ↔ a.val < 2 ^ n := BV.natBits_le_iff a.val n

/-- the trailing-zero count is the position of the lowest set bit (or `len`) -/
theorem Law_tz_spec (a : BV) :
    (∀ i, i < a.trailingZeros → a.bit i = false) ∧ (a.trailingZeros < a.len → a.bit a.trailingZeros = true) :=
  ⟨fun i h => BV.bit_of_lt_trailingZeros a i h, fun h => BV.bit_trailingZeros a h⟩

theorem Law_lo_eq_lz_not (a : BV) : a.leadingOnes = a.not.leadingZeros := rfl

theorem Law_to_eq_tz_not (a : BV) : a.trailingOnes = a.not.trailingZeros := rfl

-- 13. bytes -----------------------------------------------------------------------------------------------
theorem Law_fromBytes_toVec (a : BV) (big : Bool) (ha : a.WF) :
    BV.fromBytes (a.toVec big) big = a.resize (8 * ((a.len + 7) / 8)) false := by
  rw [BV.fromBytes_toVec a ha big]
  unfold BV.resize
  split
  · rename_i h
    congr 1
    exact (Nat.mod_eq_of_lt (Nat.lt_of_lt_of_le ha (Nat.pow_le_pow_right (by decide) (by omega)))).symm
  · simp only [Bool.false_eq_true, if_false, Nat.add_zero]

theorem Law_toVec_length (a : BV) (big : Bool) : (a.toVec big).length = (a.len + 7) / 8 := BV.length_toVec a big

theorem Law_toVec_lt (a : BV) (big : Bool) : ∀ b ∈ a.toVec big, b < 256 := BV.toVec_lt a big

theorem Law_toVec_reverse (a : BV) : a.toVec true = (a.toVec false).reverse := rfl

/-- reading `len` bits back from the bytes gives the vector -/
theorem Law_toVec_roundtrip (a : BV) (big : Bool) (ha : a.WF) :
    (BV.fromBytes (a.toVec big) big).truncate a.len = a := by
  rw [BV.fromBytes_toVec a ha big]
  unfold BV.truncate
  simp only
  split
  · rename_i h
    unfold BV.resize
    simp only
    rw [if_pos (by omega), Nat.mod_eq_of_lt ha]
  · rename_i h
    congr 1; omega

-- 14. numerals --------------------------------------------------------------------------------------------
def digitVal (c : Char) : Nat :=
  if c.toNat < 58 then c.toNat - 48 else if c.toNat < 97 then c.toNat - 55 else c.toNat - 87

def readNumeral (base : Nat) (cs : List Char) : Nat := cs.foldl (fun acc c => acc * base + digitVal c) 0

theorem Law_digitVal_digitChar (upper : Bool) (d : Nat) (hd : d < 16) : digitVal (BV.digitChar upper d) = d :=
  fmt_digitVal_digitChar upper d hd

theorem Law_numeral_value (base : Nat) (upper : Bool) (v : Nat) (hb : 2 ≤ base) (hb' : base ≤ 16) :
    readNumeral base (BV.numeral base upper v) = v :=
  BV.numeral_digitsVal base upper hb hb' v

theorem Law_numeral_injective (base : Nat) (upper : Bool) (v1 v2 : Nat) (hb : 2 ≤ base) (hb' : base ≤ 16)
    (h : BV.numeral base upper v1 = BV.numeral base upper v2) : v1 = v2 :=
  BV.numeral_injective base upper hb hb' v1 v2 h

theorem Law_numeral_canonical (base : Nat) (upper : Bool) (v : Nat) (hb : 2 ≤ base) (hb' : base ≤ 16) :
    (v = 0 → BV.numeral base upper v = ['0']) ∧
    (v ≠ 0 → ∃ c cs, BV.numeral base upper v = c :: cs ∧ c ≠ '0') ∧
    (∀ c ∈ BV.numeral base upper v, ∃ d, d < base ∧ c = BV.digitChar upper d) :=
  ⟨fun h => by rw [h]; rfl, BV.numeral_head base upper hb hb' v, BV.numeral_valid base upper hb v⟩

-- counts against shifts (optional items) ------------------------------------------------------------------
theorem Law_tz_shl (a : BV) (k : Nat) : (a.shl k).trailingZeros = min (a.trailingZeros + k) a.len := by
  have ht := BV.trailingZeros_le_len a
  apply BV.trailingZeros_unique
  · rw [Law_aux_shl_len]; omega
  · intro i hi
    rw [BV.shl_bit]
    by_cases h1 : k ≤ i ∧ i < a.len
    · rw [BV.bit_of_lt_trailingZeros a (i - k) (by omega), Bool.and_false]
    · rw [decide_eq_false h1, Bool.false_and]
  · rw [Law_aux_shl_len]
    intro h
    have e : min (a.trailingZeros + k) a.len = a.trailingZeros + k := by omega
    have h1 : k ≤ a.trailingZeros + k ∧ a.trailingZeros + k < a.len := by omega
    rw [e, BV.shl_bit, decide_eq_true h1, Bool.true_and, Nat.add_sub_cancel]
    exact BV.bit_trailingZeros a (by omega)

theorem Law_sig_shl (a : BV) (k : Nat) (h0 : a.val ≠ 0) (h : a.sig + k ≤ a.len) : (a.shl k).sig = a.sig + k := by
  have hs : a.sig ≠ 0 := fun e => h0 ((BV.natBits_eq_zero_iff a.val).mp e)
  apply BV.sig_unique
  · intro i hi
    rw [BV.shl_bit, BV.bit_of_sig_le a (i - k) (by omega), Bool.and_false]
  · right
    have h1 : k ≤ a.sig + k - 1 ∧ a.sig + k - 1 < a.len := by omega
    have e : a.sig + k - 1 - k = a.sig - 1 := by omega
    rw [BV.shl_bit, decide_eq_true h1, Bool.true_and, e]
    exact (BV.sig_top a).resolve_left hs

theorem Law_sig_shr (a : BV) (k : Nat) (ha : a.WF) : (a.shr k).sig = a.sig - k := by
  have hl := BV.sig_le_len a ha
  apply BV.sig_unique
  · intro i hi
    rw [BV.shr_bit a ha, BV.bit_of_sig_le a (i + k) (by omega), Bool.and_false]
  · by_cases h1 : a.sig ≤ k
    · left; omega
    · right
      have h2 : a.sig - k - 1 + k < a.len := by omega
      have e : a.sig - k - 1 + k = a.sig - 1 := by omega
      rw [BV.shr_bit a ha, decide_eq_true h2, Bool.true_and, e]
      exact (BV.sig_top a).resolve_left (by omega)

theorem Law_lz_shr (a : BV) (k : Nat) (ha : a.WF) : (a.shr k).leadingZeros = min (a.leadingZeros + k) a.len := by
  have hl := BV.sig_le_len a ha
  unfold BV.leadingZeros
  rw [Law_sig_shr a k ha, Law_aux_shr_len]
  omega

theorem Law_repeat_bits (b : Bool) (n : Nat) : (BV.repeat b n).bits = List.replicate n b := by
  have hl : (BV.repeat b n).len = n := by cases b <;> rfl
  apply BV.lv_bits_eq
  · rw [List.length_replicate, hl]
  · intro i hi
    have hi' : i < n := by rw [List.length_replicate] at hi; exact hi
    rw [List.getElem_replicate]
    cases b
    · exact (Law_aux_zeros_bit n i).symm
    · show true = (BV.ones n).bit i
      rw [Law_aux_ones_bit, decide_eq_true hi']

-- witnesses that the side conditions above are needed -----------------------------------------------------
theorem Law_mul_assoc_false : ∃ a b c : BV, a.WF ∧ b.WF ∧ c.WF ∧ (a.mul b).mul c ≠ a.mul (b.mul c) :=
  ⟨⟨2, 1⟩, ⟨1, 1⟩, ⟨2, 3⟩, by decide, by decide, by decide, by decide⟩

theorem Law_xor_self_false : ∃ a : BV, a.xor a ≠ BV.zeros a.len := ⟨⟨0, 1⟩, by decide⟩

theorem Law_wf_and_false : ∃ a x : BV, x.WF ∧ ¬ (a.and x).WF := ⟨⟨0, 1⟩, ⟨1, 1⟩, by decide, by decide⟩

theorem Law_copyRange_copyRange_false : ∃ (a : BV) (s e s' e' : Nat), a.WF ∧
    (a.copyRange s e).copyRange s' e' ≠ a.copyRange (s + s') (s + e') :=
  ⟨⟨2, 3⟩, 0, 1, 0, 2, by decide, by decide⟩

theorem Law_insert_len_false : ∃ a x : BV, x.WF ∧ a.insert a.len x ≠ a.append x :=
  ⟨⟨1, 2⟩, ⟨1, 0⟩, by decide, by decide⟩

end Bva
