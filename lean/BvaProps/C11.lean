import BvaProofs.Refine
/-!
# C11 — conversions to and from native integers preserve value and report overflow

`W` is the width of the native type (8, 16, 32, 64, 128; `usize` = 64), `x < 2^W` its value.
By-value and by-reference forms are the same model function (the `&uN` / owned-vector impls delegate;
the harness asserts they agree on every case).
-/
namespace Bva

/-- integer → vector: value `x`, length `W` (`min W capacity` for fixed vectors); `NotEnoughCapacity`
exactly when `x` has more significant bits than a fixed capacity; never for the dynamic and auto types. -/
theorem C11_from_uint (t : Ty) (W x : Nat) (hW : WOk W) (h128 : W ≤ 128) (hx : x < 2 ^ W)
    (ht : match t with | .f w N => WOk w ∧ 1 ≤ N | _ => True) :
    match t with
    | .f w N =>
      (N * w < BV.natBits x → Api.fromUInt t W x = .err "NotEnoughCapacity") ∧
      (BV.natBits x ≤ N * w → ∃ r, Api.fromUInt t W x = .ok r ∧ r.Inv ∧ r.abs = ⟨min W (N * w), x⟩ ∧ r.ty = t)
    | _ => ∃ r, Api.fromUInt t W x = .ok r ∧ r.Inv ∧ r.abs = ⟨W, x⟩ ∧ r.ty = t := by
  cases t with
  | f w N =>
    have s := Bvf.fromUInt_spec (w := w) N W x ht.1.pos ht.2 hx
    refine ⟨fun h => by simp only [Api.fromUInt, s.1 h, liftF], fun h => ?_⟩
    obtain ⟨r, e, hi, ha, hs⟩ := s.2 (by omega)
    exact ⟨.f w r, by simp only [Api.fromUInt, e, liftF], ⟨ht.1, hi⟩, ha, by simp only [Vec.ty, hs]⟩
  | d =>
    have hw : W ≤ 64 ∨ 64 ∣ W := by
      rcases wok_le128_cases hW h128 with h | h | h | h | h <;> subst h
      · left; decide
      · left; decide
      · left; decide
      · left; decide
      · right; exact ⟨2, rfl⟩
    have r := Bvd.fromUInt_refines W x hw hx
    exact ⟨.d (Bvd.fromUInt W x), rfl, r.1, r.2, rfl⟩
  | a =>
    have r := Bv.fromUInt_refines W x (Or.inl h128) hx
    exact ⟨.a (Bv.fromUInt W x), rfl, Vec.Inv.of_bvinv r.1, r.2, rfl⟩

/-- vector → integer: the value when `significant_bits ≤ W`, `NotEnoughCapacity` otherwise; never a panic,
also for empty vectors (repair D7) -/
theorem C11_to_uint (v : Vec) (hv : v.Inv) (W : Nat) (hW : WOk W) :
    Api.toUInt v W = if v.abs.sig ≤ W then .ok v.abs.val else .err "NotEnoughCapacity" := by
  cases v with
  | f w s => exact Bvf.toUInt_spec s W (hv.1.compat hW) hv.2
  | d s => exact Bvd.toUInt_spec s W hv
  | a c => exact Bv.toUInt_spec c W (wok64.compat hW) hv.bvinv

/-- slice of integers → vector: element 0 least significant, length `count · width`;
`NotEnoughCapacity` exactly when that exceeds a fixed capacity -/
theorem C11_from_slice (t : Ty) (wJ : Nat) (xs : List Nat) (hJ : WOk wJ)
    (ht : match t with | .f w _ => WOk w | _ => True) :
    match t with
    | .f w N =>
      (N * w < xs.length * wJ → Api.fromSlice t wJ xs = .err "NotEnoughCapacity") ∧
      (xs.length * wJ ≤ N * w → ∃ r, Api.fromSlice t wJ xs = .ok r ∧ r.Inv ∧
          r.abs = ⟨xs.length * wJ, cnv_sliceVal wJ xs⟩ ∧ r.ty = t)
    | _ => ∃ r, Api.fromSlice t wJ xs = .ok r ∧ r.Inv ∧ r.abs = ⟨xs.length * wJ, cnv_sliceVal wJ xs⟩ ∧ r.ty = t := by
  cases t with
  | f w N =>
    have s := Bvf.fromSlice_spec (w := w) N xs (ht.compat hJ)
    refine ⟨fun h => by simp only [Api.fromSlice, s.1 h, liftF], fun h => ?_⟩
    obtain ⟨r, e, hi, ha, hs⟩ := s.2 (by omega)
    exact ⟨.f w r, by simp only [Api.fromSlice, e, liftF], ⟨ht, hi⟩, ha, by simp only [Vec.ty, hs]⟩
  | d =>
    have r := Bvd.fromSlice_refines xs (wok64.compat hJ)
    exact ⟨.d (Bvd.fromSlice wJ xs), rfl, r.1, r.2, rfl⟩
  | a =>
    have r := Bv.fromSlice_refines xs (wok64.compat hJ)
    exact ⟨.a (Bv.fromSlice wJ xs), rfl, Vec.Inv.of_bvinv r.1, r.2, rfl⟩

/-- the value of a slice is the concatenation with element 0 least significant: `Σ x_j · 2^(wJ·j)` -/
theorem C11_slice_value (wJ : Nat) (xs : List Nat) (hx : ∀ x ∈ xs, x < 2 ^ wJ) :
    cnv_sliceVal wJ xs = cnv_sliceSum wJ xs := cnv_sliceVal_eq_sum wJ xs hx

/-- round trip: an integer converted to a vector and back is the same integer -/
theorem C11_roundtrip (t : Ty) (W x : Nat) (hW : WOk W) (h128 : W ≤ 128) (hx : x < 2 ^ W)
    (ht : match t with | .f w N => WOk w ∧ 1 ≤ N | _ => True) (r : Vec) (hr : Api.fromUInt t W x = .ok r) :
    Api.toUInt r W = .ok x := by
  have hspec := C11_from_uint t W x hW h128 hx ht
  have hsig : ∀ l, (⟨l, x⟩ : BV).sig ≤ W := fun l => (BV.natBits_le_iff x W).mpr hx
  cases t with
  | f w N =>
    simp only at hspec
    by_cases hb : BV.natBits x ≤ N * w
    · obtain ⟨r', e, hi, ha, _⟩ := hspec.2 hb
      rw [hr] at e; cases e
      rw [C11_to_uint r hi W hW, ha, if_pos (hsig _)]
    · have := hspec.1 (by omega); rw [hr] at this; cases this
  | d =>
    obtain ⟨r', e, hi, ha, _⟩ := hspec
    rw [hr] at e; cases e
    rw [C11_to_uint r hi W hW, ha, if_pos (hsig _)]
  | a =>
    obtain ⟨r', e, hi, ha, _⟩ := hspec
    rw [hr] at e; cases e
    rw [C11_to_uint r hi W hW, ha, if_pos (hsig _)]

end Bva
