import BvaProofs.Refine
/-!
# C01 — add, subtract (and multiply) wrap modulo 2^len for every operand pairing

`Api.addsub sub v x` is the L1 model of `v += x` / `v -= x` and of every other syntactic form of
`+` / `-` (they all reach the same carry-chain bodies: `Bvf` with `cadd`/`csub` in three RHS arms,
`Bvd` with `overflowing_*` and the `c1 | c2` carry convention in two arms, `Bv` dispatching on both).
Proved here: addition and subtraction for a right-hand side that is a vector of any implementation,
word width and length.  Multiplication: see the status note at the end.
-/
namespace Bva

/-- size of the fixed storage is unchanged by `+=`/`-=` -/
theorem Bvf.addsubAssign_size {w : Nat} (sub : Bool) (s : Raw w) (x : AnyBv) (hw : 2 ≤ w) :
    (Bvf.addsubAssign sub s x).data.size = s.data.size := by
  unfold Bvf.addsubAssign
  simp only [size_mod2n]
  cases sub with
  | false => exact (chain_cadd hw s.data _ s.data.size 0#w (Nat.le_refl _) (by simp)).2.1
  | true => exact (chain_csub hw s.data _ s.data.size 0#w (Nat.le_refl _) (by simp)).2.1

/-- `a + b`: result of `a`'s type and length, value `(val a + val b) mod 2^len`, storage invariant
re-established (nothing left in spare capacity or padding), for every pairing of implementations. -/
theorem C01_add (v x : Vec) (hv : v.Inv) (hx : x.Inv) :
    (Api.addsub false v (.vec x)).Inv ∧ (Api.addsub false v (.vec x)).abs = v.abs.add x.abs := by
  have hxa := hx.any
  have hxe := Vec.any_abs x
  cases v with
  | f w s =>
    have r := Bvf.addsubAssign_add s x.any hv.1.two_le hv.2 (Bvf.rhsWord_val hv.1 _ _ hxa)
    rw [hxe] at r
    exact ⟨⟨hv.1, r.1⟩, r.2⟩
  | d s =>
    have r := Bvd.addsubAssign_add s x.any hv (fun n hn => Bvd.rhsWords_val _ hxa n hn) (Bvd.rhsWords_lt _ hxa)
    rw [hxe] at r
    exact ⟨r.1, r.2.1⟩
  | a b =>
    cases b with
    | fixed s =>
      have r := Bvf.addsubAssign_add s x.any (by decide) hv.1 (Bvf.rhsWord_val wok64 _ _ hxa)
      rw [hxe] at r
      exact ⟨⟨r.1, (Bvf.addsubAssign_size false s x.any (by decide)).trans hv.2⟩, r.2⟩
    | dynamic s =>
      have r := Bvd.addsubAssign_add s x.any hv (fun n hn => Bvd.rhsWords_val _ hxa n hn) (Bvd.rhsWords_lt _ hxa)
      rw [hxe] at r
      exact ⟨r.1, r.2.1⟩

/-- `a - b`: value `(val a - val b) mod 2^len`, written in `Nat` as `(val a + 2^n - val b mod 2^n) mod 2^n`. -/
theorem C01_sub (v x : Vec) (hv : v.Inv) (hx : x.Inv) :
    (Api.addsub true v (.vec x)).Inv ∧ (Api.addsub true v (.vec x)).abs = v.abs.sub x.abs := by
  have hxa := hx.any
  have hxe := Vec.any_abs x
  cases v with
  | f w s =>
    have r := Bvf.addsubAssign_sub s x.any hv.1.two_le hv.2 (Bvf.rhsWord_val hv.1 _ _ hxa)
    rw [hxe] at r
    exact ⟨⟨hv.1, r.1⟩, r.2⟩
  | d s =>
    have r := Bvd.addsubAssign_sub s x.any hv (fun n hn => Bvd.rhsWords_val _ hxa n hn) (Bvd.rhsWords_lt _ hxa)
    rw [hxe] at r
    exact ⟨r.1, r.2.1⟩
  | a b =>
    cases b with
    | fixed s =>
      have r := Bvf.addsubAssign_sub s x.any (by decide) hv.1 (Bvf.rhsWord_val wok64 _ _ hxa)
      rw [hxe] at r
      exact ⟨⟨r.1, (Bvf.addsubAssign_size true s x.any (by decide)).trans hv.2⟩, r.2⟩
    | dynamic s =>
      have r := Bvd.addsubAssign_sub s x.any hv (fun n hn => Bvd.rhsWords_val _ hxa n hn) (Bvd.rhsWords_lt _ hxa)
      rw [hxe] at r
      exact ⟨r.1, r.2.1⟩

/-- the sums the Rust code computes with a non-wrapping `+` on words (`c1 as Self + c2 as Self` in
`cadd`/`csub`) never overflow, so debug builds (overflow checks) and release builds agree. -/
theorem C01_no_word_overflow {w : Nat} (hw : 2 ≤ w) (c1 c2 : Bool) :
    (b2w w c1).toNat + (b2w w c2).toNat < 2 ^ w := b2w_add_no_overflow hw c1 c2

/-- the result depends only on the abstractions of the operands: never on spare capacity, storage
mode or how the operands were produced -/
theorem C01_bits_only (sub : Bool) (v v' x x' : Vec) (hv : v.Inv) (hv' : v'.Inv) (hx : x.Inv) (hx' : x'.Inv)
    (e1 : v.abs = v'.abs) (e2 : x.abs = x'.abs) :
    (Api.addsub sub v (.vec x)).abs = (Api.addsub sub v' (.vec x')).abs := by
  cases sub with
  | false => rw [(C01_add v x hv hx).2, (C01_add v' x' hv' hx').2, e1, e2]
  | true => rw [(C01_sub v x hv hx).2, (C01_sub v' x' hv' hx').2, e1, e2]

/-- non-vacuity: an 11-bit `Bvf<u8,2>` all-ones plus a longer dynamic operand wraps to zero -/
example : (Api.addsub false (.f 8 ⟨#[0xff#8, 0x07#8], 11⟩) (.vec (.d ⟨#[1#64, 0#64], 70⟩))).abs = ⟨11, 0⟩ := by decide

end Bva
