import BvaProofs.Refine
/-!
# C01 — add, subtract (and multiply) wrap modulo 2^len for every operand pairing

`Api.addsub sub v x` is the L1 model of `v += x` / `v -= x` and of every other syntactic form of
`+` / `-` (they all reach the same carry-chain bodies: `Bvf` with `cadd`/`csub` in three RHS arms,
`Bvd` with `overflowing_*` and the `c1 | c2` carry convention in two arms, `Bv` dispatching on both).
Proved here for a right-hand side `x : Api.Rhs` that is either a vector of any implementation, word width
and length, or a native unsigned integer of any of the six types (the code lifts it to a 128-bit fixed or
a dynamic temporary — `Api.liftUInt` — which is proved to denote the integer): addition, subtraction and
multiplication (schoolbook rows over `wmul`, including the separate half-word `u128::wmul`).
-/
namespace Bva

/-- size of the fixed storage is unchanged by `+=`/`-=` -/
theorem Bvf.addsubAssign_size {w : Nat} (sub : Bool) (s : Raw w) (x : AnyBv) (hw : 2 ≤ w) :
    (Bvf.addsubAssign sub s x).data.size = s.data.size := by
  unfold Bvf.addsubAssign
  simp only [size_mod2n]
  cases sub with
  | false => exact (chain_cadd hw s.data _ s.data.size 0#w (Nat.le_refl _) (by simp)).2.1
  | true => exact (chain_csub hw s.data _ s.data.size 0#w (Nat.le_refl _) (by simp)).2.1

/-- `a + b`: result of `a`'s type and length, value `(val a + val b) mod 2^len`, storage invariant
re-established (nothing left in spare capacity or padding), for every pairing of implementations. -/
theorem C01_add (v : Vec) (x : Api.Rhs) (hv : v.Inv) (hx : x.Inv) :
    (Api.addsub false v x).Inv ∧ (Api.addsub false v x).abs = v.abs.add x.spec := by
  cases v with
  | f w s =>
    obtain ⟨hxa, hxe⟩ := Api.Rhs.any_ok (.f w s) x hx
    have r := Bvf.addsubAssign_add s _ hv.1.two_le hv.2 (Bvf.rhsWord_val hv.1 _ _ hxa)
    rw [hxe] at r
    exact ⟨⟨hv.1, r.1⟩, r.2⟩
  | d s =>
    obtain ⟨hxa, hxe⟩ := Api.Rhs.any_ok (.d s) x hx
    have r := Bvd.addsubAssign_add s _ hv (fun n hn => Bvd.rhsWords_val _ hxa n hn) (Bvd.rhsWords_lt _ hxa)
    rw [hxe] at r
    exact ⟨r.1, r.2.1⟩
  | a b =>
    cases b with
    | fixed s =>
      obtain ⟨hxa, hxe⟩ := Api.Rhs.any_ok (.a (.fixed s)) x hx
      have r := Bvf.addsubAssign_add s _ (by decide) hv.1 (Bvf.rhsWord_val wok64 _ _ hxa)
      rw [hxe] at r
      exact ⟨⟨r.1, (Bvf.addsubAssign_size false s _ (by decide)).trans hv.2⟩, r.2⟩
    | dynamic s =>
      obtain ⟨hxa, hxe⟩ := Api.Rhs.any_ok (.a (.dynamic s)) x hx
      have r := Bvd.addsubAssign_add s _ hv (fun n hn => Bvd.rhsWords_val _ hxa n hn) (Bvd.rhsWords_lt _ hxa)
      rw [hxe] at r
      exact ⟨r.1, r.2.1⟩

/-- `a - b`: value `(val a - val b) mod 2^len`, written in `Nat` as `(val a + 2^n - val b mod 2^n) mod 2^n`. -/
theorem C01_sub (v : Vec) (x : Api.Rhs) (hv : v.Inv) (hx : x.Inv) :
    (Api.addsub true v x).Inv ∧ (Api.addsub true v x).abs = v.abs.sub x.spec := by
  cases v with
  | f w s =>
    obtain ⟨hxa, hxe⟩ := Api.Rhs.any_ok (.f w s) x hx
    have r := Bvf.addsubAssign_sub s _ hv.1.two_le hv.2 (Bvf.rhsWord_val hv.1 _ _ hxa)
    rw [hxe] at r
    exact ⟨⟨hv.1, r.1⟩, r.2⟩
  | d s =>
    obtain ⟨hxa, hxe⟩ := Api.Rhs.any_ok (.d s) x hx
    have r := Bvd.addsubAssign_sub s _ hv (fun n hn => Bvd.rhsWords_val _ hxa n hn) (Bvd.rhsWords_lt _ hxa)
    rw [hxe] at r
    exact ⟨r.1, r.2.1⟩
  | a b =>
    cases b with
    | fixed s =>
      obtain ⟨hxa, hxe⟩ := Api.Rhs.any_ok (.a (.fixed s)) x hx
      have r := Bvf.addsubAssign_sub s _ (by decide) hv.1 (Bvf.rhsWord_val wok64 _ _ hxa)
      rw [hxe] at r
      exact ⟨⟨r.1, (Bvf.addsubAssign_size true s _ (by decide)).trans hv.2⟩, r.2⟩
    | dynamic s =>
      obtain ⟨hxa, hxe⟩ := Api.Rhs.any_ok (.a (.dynamic s)) x hx
      have r := Bvd.addsubAssign_sub s _ hv (fun n hn => Bvd.rhsWords_val _ hxa n hn) (Bvd.rhsWords_lt _ hxa)
      rw [hxe] at r
      exact ⟨r.1, r.2.1⟩

/-- `a * b`: value `(val a · val b) mod 2^len`. -/
theorem C01_mul (v : Vec) (x : Api.Rhs) (hv : v.Inv) (hx : x.Inv) :
    (Api.mul v x).Inv ∧ (Api.mul v x).abs = v.abs.mul x.spec := by
  cases v with
  | f w s =>
    obtain ⟨hxa, hxe⟩ := Api.Rhs.any_ok (.f w s) x hx
    have r := Bvf.mul_refines s (x.any (.f w s)) hv.1.two_le hv.2 (fun n => by
      have := AnyBv.valF_getInt_mod _ hxa hv.1 n
      cases hx' : x.any (.f w s) <;> simp only [hx'] at this ⊢ <;> exact this)
    rw [hxe] at r
    exact ⟨⟨hv.1, r.1⟩, r.2⟩
  | d s =>
    obtain ⟨hxa, hxe⟩ := Api.Rhs.any_ok (.d s) x hx
    have r := Bvd.mul_refines s (x.any (.d s)) hv (fun n => by
      cases hx' : x.any (.d s) with
      | d r =>
        rw [hx'] at hxa
        simp only
        apply valF_eq_of_bits (by decide)
        · exact Nat.mod_lt _ (Nat.two_pow_pos _)
        · intro i j hi hj
          rw [getLsbD_wd_eq_bitAt _ _ _ (by decide) hj, Nat.testBit_mod_two_pow]
          have hlt : i * 64 + j < 64 * n := by omega
          simp only [AnyBv.abs, hlt, decide_true, Bool.true_and]
          rw [← Raw.abs_bit _ _ (by decide)]; rfl
      | f w1 r =>
        rw [hx'] at hxa
        exact AnyBv.valF_getInt_mod (.f w1 r) hxa wok64 n)
    rw [hxe] at r
    exact ⟨r.1, r.2.1⟩
  | a b =>
    cases b with
    | fixed s =>
      obtain ⟨hxa, hxe⟩ := Api.Rhs.any_ok (.a (.fixed s)) x hx
      have r := Bvf.mul_refines s (x.any (.a (.fixed s))) (by decide) hv.1 (fun n => by
        have := AnyBv.valF_getInt_mod _ hxa wok64 n
        cases hx' : x.any (.a (.fixed s)) <;> simp only [hx'] at this ⊢ <;> exact this)
      rw [hxe] at r
      exact ⟨⟨r.1, (Bvf.mul_size s _).trans hv.2⟩, r.2⟩
    | dynamic s =>
      obtain ⟨hxa, hxe⟩ := Api.Rhs.any_ok (.a (.dynamic s)) x hx
      have r := Bvd.mul_refines s (x.any (.a (.dynamic s))) hv (fun n => by
        cases hx' : x.any (.a (.dynamic s)) with
        | d r =>
          rw [hx'] at hxa
          simp only
          apply valF_eq_of_bits (by decide)
          · exact Nat.mod_lt _ (Nat.two_pow_pos _)
          · intro i j hi hj
            rw [getLsbD_wd_eq_bitAt _ _ _ (by decide) hj, Nat.testBit_mod_two_pow]
            have hlt : i * 64 + j < 64 * n := by omega
            simp only [AnyBv.abs, hlt, decide_true, Bool.true_and]
            rw [← Raw.abs_bit _ _ (by decide)]; rfl
        | f w1 r =>
          rw [hx'] at hxa
          exact AnyBv.valF_getInt_mod (.f w1 r) hxa wok64 n)
      rw [hxe] at r
      exact ⟨r.1, r.2.1⟩

/-- the non-wrapping word additions of the multiplication (`cadd(..) + product.1`) cannot overflow either -/
theorem C01_mul_no_word_overflow {w : Nat} (hw : 2 ≤ w) (x y res carry : BitVec w) :
    (cadd res (wmul x y).1 carry).2.toNat + (wmul x y).2.toNat < 2 ^ w :=
  (mul_step_word hw wmul_ok x y res carry).1

/-- the sums the Rust code computes with a non-wrapping `+` on words (`c1 as Self + c2 as Self` in
`cadd`/`csub`) never overflow, so debug builds (overflow checks) and release builds agree. -/
theorem C01_no_word_overflow {w : Nat} (hw : 2 ≤ w) (c1 c2 : Bool) :
    (b2w w c1).toNat + (b2w w c2).toNat < 2 ^ w := b2w_add_no_overflow hw c1 c2

/-- the result depends only on the abstractions of the operands: never on spare capacity, storage
mode or how the operands were produced -/
theorem C01_bits_only (sub : Bool) (v v' : Vec) (x x' : Api.Rhs) (hv : v.Inv) (hv' : v'.Inv) (hx : x.Inv) (hx' : x'.Inv)
    (e1 : v.abs = v'.abs) (e2 : x.spec = x'.spec) :
    (Api.addsub sub v x).abs = (Api.addsub sub v' x').abs ∧ (Api.mul v x).abs = (Api.mul v' x').abs := by
  refine ⟨?_, by rw [(C01_mul v x hv hx).2, (C01_mul v' x' hv' hx').2, e1, e2]⟩
  cases sub with
  | false => rw [(C01_add v x hv hx).2, (C01_add v' x' hv' hx').2, e1, e2]
  | true => rw [(C01_sub v x hv hx).2, (C01_sub v' x' hv' hx').2, e1, e2]

/-- non-vacuity: an 11-bit `Bvf<u8,2>` all-ones plus a longer dynamic operand wraps to zero -/
example : (Api.addsub false (.f 8 ⟨#[0xff#8, 0x07#8], 11⟩) (.vec (.d ⟨#[1#64, 0#64], 70⟩))).abs = ⟨11, 0⟩ := by decide
example : (Api.Rhs.uint 8 200).Inv := ⟨wok8, by decide, by decide⟩

end Bva
