import BvaProofs.Refine
/-!
# C04 — bitwise and / or / xor / not act bit-by-bit within the left operand's length

`Api.bitop op v x` is the L1 model of `v op= x` / `v op x` in every syntactic form (they all reach
the same three bodies per implementation), `Api.not v byRef` of `!v` / `!&v`.
Proved for a right-hand side `x : Api.Rhs` that is a vector of any implementation, word width and length,
or a native unsigned integer of any of the six types (lifted by the code to a temporary vector,
`Api.liftUInt`, proved to denote the integer).
-/
namespace Bva

/-- L0 meaning, bit by bit: result bit `i` is `f (a_i) (x_i)` for `i < len a`, with `x_i = 0` beyond `x`'s
length, and no bit at or beyond `len a` is set — whatever the length of `x`. -/
theorem C04_spec_bits (op : BitOp) (a x : BV) (ha : a.WF) (i : Nat) :
    (op.spec a x).len = a.len ∧
    (op.spec a x).bit i = (decide (i < a.len) && op.apb (a.bit i) (x.bit i)) := by
  refine ⟨BitOp.spec_len _ _ _, ?_⟩
  apply BitOp.spec_bit
  intro j hj
  exact Nat.testBit_lt_two_pow (Nat.lt_of_lt_of_le ha (Nat.pow_le_pow_right (by decide) hj))

/-- L1 refines L0 for every implementation of the subject and every implementation, word width and
length of the right-hand side: the result satisfies the storage invariant (no bit of `x` at an index
≥ `len v` survives anywhere in storage) and its abstraction is the spec. -/
theorem C04_bitop (op : BitOp) (v : Vec) (x : Api.Rhs) (hv : v.Inv) (hx : x.Inv) :
    (Api.bitop op v x).Inv ∧ (Api.bitop op v x).abs = op.spec v.abs x.spec := by
  rw [BitOp.spec_eq_match]
  cases v with
  | f w s =>
    obtain ⟨hxa, hxe⟩ := Api.Rhs.any_ok (.f w s) x hx
    have r := Bvf.bitopAssign_refines op s _ hv.1.pos hv.2
      (fun i j hi hj => Bvf.rhsWord_bits hv.1 _ _ hxa i j hi hj)
    rw [hxe] at r
    exact ⟨⟨hv.1, r.1⟩, r.2.1⟩
  | d s =>
    obtain ⟨hxa, hxe⟩ := Api.Rhs.any_ok (.d s) x hx
    have r := Bvd.bitopAssign_refines op s _ hv (fun i j hj => Bvd.rhsWords_bits _ hxa i j hj)
    rw [hxe] at r
    exact ⟨r.1, r.2.1⟩
  | a b =>
    cases b with
    | fixed s =>
      obtain ⟨hxa, hxe⟩ := Api.Rhs.any_ok (.a (.fixed s)) x hx
      have r := Bvf.bitopAssign_refines op s _ (by decide) hv.1
        (fun i j hi hj => Bvf.rhsWord_bits wok64 _ _ hxa i j hi hj)
      rw [hxe] at r
      exact ⟨⟨r.1, r.2.2.trans hv.2⟩, r.2.1⟩
    | dynamic s =>
      obtain ⟨hxa, hxe⟩ := Api.Rhs.any_ok (.a (.dynamic s)) x hx
      have r := Bvd.bitopAssign_refines op s _ hv (fun i j hj => Bvd.rhsWords_bits _ hxa i j hj)
      rw [hxe] at r
      exact ⟨r.1, r.2.1⟩

/-- `!v` and `!&v` (the latter reaches a separately written body for `Bvd`): complement within the length. -/
theorem C04_not (v : Vec) (hv : v.Inv) (byRef : Bool) :
    (Api.not v byRef).Inv ∧ (Api.not v byRef).abs = v.abs.not := by
  cases v with
  | f w s => have r := Bvf.not_refines s hv.1.pos hv.2; exact ⟨⟨hv.1, r.1⟩, r.2.1⟩
  | d s =>
    cases byRef with
    | true => have r := Bvd.notRef_refines s hv; exact ⟨r.1, r.2.1⟩
    | false => have r := Bvd.not_refines s hv; exact ⟨r.1, r.2.1⟩
  | a b =>
    cases b with
    | fixed s => have r := Bvf.not_refines s (by decide) hv.1; exact ⟨⟨r.1, r.2.2.trans hv.2⟩, r.2.1⟩
    | dynamic s =>
      cases byRef with
      | true => have r := Bvd.notRef_refines s hv; exact ⟨r.1, r.2.1⟩
      | false => have r := Bvd.not_refines s hv; exact ⟨r.1, r.2.1⟩

/-- the result depends only on the abstractions of the operands (no hidden state) -/
theorem C04_bits_only (op : BitOp) (v v' : Vec) (x x' : Api.Rhs) (hv : v.Inv) (hv' : v'.Inv) (hx : x.Inv) (hx' : x'.Inv)
    (e1 : v.abs = v'.abs) (e2 : x.spec = x'.spec) :
    (Api.bitop op v x).abs = (Api.bitop op v' x').abs := by
  rw [(C04_bitop op v x hv hx).2, (C04_bitop op v' x' hv' hx').2, e1, e2]

/-- non-vacuity: `zeros(4) | 0xF0` on a `Bvf<u8,1>` stays zero (the defect D2 input) -/
example : (Api.bitop .or (.f 8 ⟨#[0x00#8], 4⟩) (.vec (.f 8 ⟨#[0xF0#8], 8⟩))).abs = ⟨4, 0⟩ := by decide

end Bva
