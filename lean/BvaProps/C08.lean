import BvaProps.C07
/-!
# C08 — slicing and splitting partition the bits without loss or reordering
-/
namespace Bva

/-- `copy_range(s..e)`, `s ≤ e ≤ len`: a vector of length `e - s` whose bit `i` is the source's bit `s + i`
(value semantics: the model is a pure function of the source, which is untouched).  For a `Bv` source both
storage modes are covered, including the demotion of a short slice of a heap vector to inline storage. -/
theorem C08_copy_range (v : Vec) (hv : v.Inv) (st en : Nat) (hse : st ≤ en) (hen : en ≤ v.len) :
    (Api.copyRange v st en).Inv ∧ (Api.copyRange v st en).abs = v.abs.copyRange st en ∧
    (Api.copyRange v st en).ty = v.ty := by
  cases v with
  | f w s =>
    have r := Bvf.copyRange_refines s st en hv.1.pos hv.2 hse hen
    exact ⟨⟨hv.1, r.1⟩, r.2, by simp only [Api.copyRange, Vec.ty, Bvf.copyRange_size]⟩
  | d s => have r := Bvd.copyRange_refines s st en hse; exact ⟨r.1, r.2, rfl⟩
  | a c => have r := Bv.copyRange_refines c st en hv.bvinv hse hen; exact ⟨Vec.Inv.of_bvinv r.1, r.2, rfl⟩

/-- list view of the slice -/
theorem C08_copy_range_bits (a : BV) (st en : Nat) (hen : en ≤ a.len) :
    (a.copyRange st en).bits = (a.bits.drop st).take (en - st) ∧ (a.copyRange st en).len = en - st :=
  ⟨BV.copyRange_bits_list a st en hen, rfl⟩

/-- trait default `split_off(i)`, `i ≤ len` (proved in C07, where `insert` needs it) -/
theorem C08_split_off (v : Vec) (hv : v.Inv) (i : Nat) (hi : i ≤ v.len) :
    ∃ lo hi', Api.splitOff v i = .ok (lo, hi') ∧ lo.Inv ∧ hi'.Inv ∧
      (lo.abs, hi'.abs) = v.abs.splitOff i ∧ lo.ty = v.ty ∧ hi'.ty = v.ty := C07_split_off v hv i hi

/-- appending the high part to the low part reconstructs the original (list level and value level) -/
theorem C08_split_reconstructs (a : BV) (ha : a.WF) (i : Nat) (hi : i ≤ a.len) :
    (a.splitOff i).1.bits ++ (a.splitOff i).2.bits = a.bits ∧
    BV.append (a.splitOff i).1 (a.splitOff i).2 = a ∧ (a.splitOff i).1.len = i :=
  ⟨BV.splitOff_bits a i ha hi, BV.append_splitOff a i ha hi, rfl⟩

/-- `first()` / `last()`: bit 0 / bit `len-1`, `None` for an empty vector -/
theorem C08_first_last (v : Vec) (hv : v.Inv) :
    Api.first v = v.abs.first ∧ Api.last v = v.abs.last ∧
    v.abs.first = v.abs.bits.head? ∧ v.abs.last = v.abs.bits.getLast? := by
  refine ⟨?_, ?_, BV.first_eq_head? _, BV.last_eq_getLast? _⟩
  · unfold Api.first BV.first
    rw [Vec.abs_len]
    by_cases h : v.len > 0
    · have : ¬ v.len = 0 := by omega
      simp only [h, if_true, this, if_false, Api.get_eq_bit v hv.wpos]
    · have : v.len = 0 := by omega
      simp [this]
  · unfold Api.last BV.last
    rw [Vec.abs_len]
    by_cases h : v.len > 0
    · have : ¬ v.len = 0 := by omega
      simp only [h, if_true, this, if_false, Api.get_eq_bit v hv.wpos]
    · have : v.len = 0 := by omega
      simp [this]

end Bva
