import BvaProps.Laws
import BvaProps.C01
import BvaProps.C02
import BvaProps.C04
import BvaProps.C05
import BvaProps.C06
import BvaProps.C16
/-!
# E2E (arithmetic and bit manipulation) — algebraic theorems about the code model
Each theorem is about a composition of `Api.*` calls on `Vec`s (all three implementations, any stored
representation satisfying `Inv`), obtained by chaining the refinement theorems `Cxx_*` with the L0 laws `Law_*`.
-/
namespace Bva

/-- the abstraction of a vector satisfying its invariant is well-formed -/
theorem E2E_aux_wf {v : Vec} (hv : v.Inv) : v.abs.WF := by
  have := hv.any.wf; rwa [Vec.any_abs] at this

/-- a vector used as right-hand side -/
theorem E2E_aux_rhs_inv {x : Vec} (hx : x.Inv) : (Api.Rhs.vec x).Inv := hx

/-- what a vector used as right-hand side denotes -/
theorem E2E_aux_spec_vec (x : Vec) : (Api.Rhs.vec x).spec = x.abs := rfl

-- ---- C01: add / sub / mul -------------------------------------------------------------------------------

/-- `(v + x) - x = v` for every implementation of `v` and every right-hand side (vector or integer) -/
theorem E2E_add_sub_cancel (v : Vec) (x : Api.Rhs) (hv : v.Inv) (hx : x.Inv) :
    (Api.addsub true (Api.addsub false v x) x).Inv ∧
    (Api.addsub true (Api.addsub false v x) x).abs = v.abs := by
  have h1 := C01_add v x hv hx
  have h2 := C01_sub _ x h1.1 hx
  exact ⟨h2.1, by rw [h2.2, h1.2, Law_add_sub_cancel _ _ (E2E_aux_wf hv)]⟩

/-- `(v - x) + x = v` -/
theorem E2E_sub_add_cancel (v : Vec) (x : Api.Rhs) (hv : v.Inv) (hx : x.Inv) :
    (Api.addsub false (Api.addsub true v x) x).Inv ∧
    (Api.addsub false (Api.addsub true v x) x).abs = v.abs := by
  have h1 := C01_sub v x hv hx
  have h2 := C01_add _ x h1.1 hx
  exact ⟨h2.1, by rw [h2.2, h1.2, Law_sub_add_cancel _ _ (E2E_aux_wf hv)]⟩

/-- `v - v' = 0` whenever `v'` denotes the same bit vector as `v` (possibly another implementation) -/
theorem E2E_sub_self (v v' : Vec) (hv : v.Inv) (hv' : v'.Inv) (e : v'.abs = v.abs) :
    (Api.addsub true v (.vec v')).Inv ∧ (Api.addsub true v (.vec v')).abs = BV.zeros v.len := by
  have h1 := C01_sub v (.vec v') hv hv'
  refine ⟨h1.1, ?_⟩
  rw [h1.2, show (Api.Rhs.vec v').spec = v'.abs from rfl, e, Law_sub_self, Vec.abs_len]

/-- `a + b = b + a` for two vectors of equal length of possibly different implementations -/
theorem E2E_add_comm (a b : Vec) (ha : a.Inv) (hb : b.Inv) (h : a.len = b.len) :
    (Api.addsub false a (.vec b)).abs = (Api.addsub false b (.vec a)).abs := by
  rw [(C01_add a (.vec b) ha hb).2, (C01_add b (.vec a) hb ha).2, E2E_aux_spec_vec, E2E_aux_spec_vec]
  exact Law_add_comm _ _ (by rw [Vec.abs_len, Vec.abs_len]; exact h)

/-- `a * b = b * a` for two vectors of equal length of possibly different implementations -/
theorem E2E_mul_comm (a b : Vec) (ha : a.Inv) (hb : b.Inv) (h : a.len = b.len) :
    (Api.mul a (.vec b)).abs = (Api.mul b (.vec a)).abs := by
  rw [(C01_mul a (.vec b) ha hb).2, (C01_mul b (.vec a) hb ha).2, E2E_aux_spec_vec, E2E_aux_spec_vec]
  exact Law_mul_comm _ _ (by rw [Vec.abs_len, Vec.abs_len]; exact h)

/-- the length of a vector is the length of what it denotes -/
theorem E2E_aux_len {v : Vec} {X : BV} (h : v.abs = X) : v.len = X.len := by
  rw [← Vec.abs_len, h]

/-- what a right-hand side denotes is well-formed -/
theorem E2E_aux_rhs_wf {x : Api.Rhs} (hx : x.Inv) : x.spec.WF := by
  obtain ⟨h1, h2⟩ := Api.Rhs.any_ok (.d ⟨#[], 0⟩) x hx
  have := h1.wf; rwa [h2] at this

/-- `a * (b + c) = a * b + a * c` when `a` is not longer than `b`; `a`, `b`, `c` of any implementations -/
theorem E2E_mul_distrib (a b c : Vec) (ha : a.Inv) (hb : b.Inv) (hc : c.Inv) (h : a.len ≤ b.len) :
    (Api.mul a (.vec (Api.addsub false b (.vec c)))).abs =
      (Api.addsub false (Api.mul a (.vec b)) (.vec (Api.mul a (.vec c)))).abs := by
  have hbc := C01_add b (.vec c) hb hc
  have hab := C01_mul a (.vec b) ha hb
  have hac := C01_mul a (.vec c) ha hc
  rw [(C01_mul a (.vec (Api.addsub false b (.vec c))) ha hbc.1).2,
    (C01_add (Api.mul a (.vec b)) (.vec (Api.mul a (.vec c))) hab.1 hac.1).2]
  simp only [E2E_aux_spec_vec]
  rw [hbc.2, hab.2, hac.2]
  simp only [E2E_aux_spec_vec]
  exact Law_mul_distrib _ _ _ (by rw [Vec.abs_len, Vec.abs_len]; exact h)

/-- `(a + b) * c = a * c + b * c` when `a` is not longer than `b` -/
theorem E2E_mul_distrib_right (a b : Vec) (c : Api.Rhs) (ha : a.Inv) (hb : b.Inv) (hc : c.Inv) (h : a.len ≤ b.len) :
    (Api.mul (Api.addsub false a (.vec b)) c).abs =
      (Api.addsub false (Api.mul a c) (.vec (Api.mul b c))).abs := by
  have hab := C01_add a (.vec b) ha hb
  have hac := C01_mul a c ha hc
  have hbc := C01_mul b c hb hc
  rw [(C01_mul _ c hab.1 hc).2, (C01_add (Api.mul a c) (.vec (Api.mul b c)) hac.1 hbc.1).2]
  simp only [E2E_aux_spec_vec]
  rw [hab.2, hac.2, hbc.2]
  simp only [E2E_aux_spec_vec]
  exact Law_mul_distrib_right _ _ _ (by rw [Vec.abs_len, Vec.abs_len]; exact h)

/-- `(a + b) + c = a + (b + c)` when `a` is not longer than `b` -/
theorem E2E_add_assoc (a b : Vec) (c : Api.Rhs) (ha : a.Inv) (hb : b.Inv) (hc : c.Inv) (h : a.len ≤ b.len) :
    (Api.addsub false (Api.addsub false a (.vec b)) c).abs =
      (Api.addsub false a (.vec (Api.addsub false b c))).abs := by
  have hab := C01_add a (.vec b) ha hb
  have hbc := C01_add b c hb hc
  rw [(C01_add _ c hab.1 hc).2, (C01_add a (.vec (Api.addsub false b c)) ha hbc.1).2]
  simp only [E2E_aux_spec_vec]
  rw [hab.2, hbc.2]
  simp only [E2E_aux_spec_vec]
  exact Law_add_assoc _ _ _ (by rw [Vec.abs_len, Vec.abs_len]; exact h)

/-- `a - b = a + (0 - b)`: subtraction is addition of the two's complement computed by the code on a zero vector
`z` of `b`'s length -/
theorem E2E_sub_eq_add_neg (a b z : Vec) (ha : a.Inv) (hb : b.Inv) (hz : z.Inv) (h : a.len = b.len)
    (ez : z.abs = BV.zeros b.len) :
    (Api.addsub true a (.vec b)).abs = (Api.addsub false a (.vec (Api.addsub true z (.vec b)))).abs := by
  have hzb := C01_sub z (.vec b) hz hb
  rw [(C01_sub a (.vec b) ha hb).2, (C01_add a (.vec (Api.addsub true z (.vec b))) ha hzb.1).2]
  simp only [E2E_aux_spec_vec]
  rw [hzb.2, ez]
  simp only [E2E_aux_spec_vec]
  have := Law_sub_eq_add_neg a.abs b.abs (by rw [Vec.abs_len, Vec.abs_len]; exact h)
  rw [Vec.abs_len b] at this
  exact this

example : (Api.addsub true (Api.addsub false (.f 8 ⟨#[0x9C#8], 8⟩) (.uint 8 200)) (.uint 8 200)).abs = ⟨8, 0x9C⟩ := by decide

-- ---- C02: div_rem recomposed -----------------------------------------------------------------------------

/-- L0: `(a / x) * x + a % x = a` in arithmetic modulo `2 ^ a.len` (no wrap-around happens) -/
theorem E2E_aux_div_mul_add_rem (a x : BV) (ha : a.WF) : ((a.div x).mul x).add (a.rem x) = a := by
  obtain ⟨l, v⟩ := a
  unfold BV.WF at ha
  unfold BV.div BV.rem BV.mul BV.add
  simp only at *
  congr 1
  rw [Nat.mod_add_mod, Nat.div_add_mod']
  exact Nat.mod_eq_of_lt ha

/-- `div_rem` with a non-zero divisor of any implementation succeeds, and recomposing its results through the
code's `*` and `+` gives back the dividend: `q * x + r = v` -/
theorem E2E_div_rem_recompose (v x : Vec) (hv : v.Inv) (hx : x.Inv) (h0 : x.abs.val ≠ 0) :
    ∃ q r, Api.divRem v x = .ok (q, r) ∧
      (Api.addsub false (Api.mul q (.vec x)) (.vec r)).Inv ∧
      (Api.addsub false (Api.mul q (.vec x)) (.vec r)).abs = v.abs := by
  obtain ⟨q, r, e, hq, hr, eq, er⟩ := (C02_div_rem v x hv hx).2 h0
  refine ⟨q, r, e, ?_⟩
  have hm := C01_mul q (.vec x) hq hx
  have ha := C01_add (Api.mul q (.vec x)) (.vec r) hm.1 hr
  refine ⟨ha.1, ?_⟩
  rw [ha.2, hm.2]
  simp only [E2E_aux_spec_vec]
  rw [eq, er]
  exact E2E_aux_div_mul_add_rem _ _ (E2E_aux_wf hv)

/-- the same through the operators `/` and `%` (right-hand side a vector or a native integer) -/
theorem E2E_div_rem_op_recompose (v : Vec) (x : Api.Rhs) (hv : v.Inv) (hx : x.Inv) (h0 : x.spec.val ≠ 0) :
    ∃ q r, Api.divRemOp v x = .ok (q, r) ∧
      (Api.addsub false (Api.mul q x) (.vec r)).Inv ∧
      (Api.addsub false (Api.mul q x) (.vec r)).abs = v.abs := by
  obtain ⟨q, r, e, hq, hr, eq, er, _, _⟩ := (C02_operators v x hv hx).2 h0
  refine ⟨q, r, e, ?_⟩
  have hm := C01_mul q x hq hx
  have ha := C01_add (Api.mul q x) (.vec r) hm.1 hr
  refine ⟨ha.1, ?_⟩
  rw [ha.2, hm.2]
  simp only [E2E_aux_spec_vec]
  rw [eq, er]
  exact E2E_aux_div_mul_add_rem _ _ (E2E_aux_wf hv)

/-- the remainder returned by `div_rem` is smaller than the divisor, and subtracting it from the dividend
leaves a multiple of the divisor: `(v - r) = q * x` -/
theorem E2E_div_rem_sub (v x : Vec) (hv : v.Inv) (hx : x.Inv) (h0 : x.abs.val ≠ 0) :
    ∃ q r, Api.divRem v x = .ok (q, r) ∧ r.abs.val < x.abs.val ∧
      (Api.addsub true v (.vec r)).abs = (Api.mul q (.vec x)).abs := by
  obtain ⟨q, r, e, hq, hr, eq, er⟩ := (C02_div_rem v x hv hx).2 h0
  refine ⟨q, r, e, ?_, ?_⟩
  · rw [er]; exact (Law_div_rem _ _ h0).2
  · have hm := C01_mul q (.vec x) hq hx
    rw [(C01_sub v (.vec r) hv hr).2, hm.2]
    simp only [E2E_aux_spec_vec]
    rw [eq, er]
    have h := E2E_aux_div_mul_add_rem v.abs x.abs (E2E_aux_wf hv)
    have h2 := Law_add_sub_cancel ((v.abs.div x.abs).mul x.abs) (v.abs.rem x.abs) (Law_wf_mul _ _)
    rw [h] at h2
    exact h2

-- ---- C04: Boolean algebra --------------------------------------------------------------------------------

/-- `!!v = v`, whichever of the by-value / by-reference `Not` bodies is used for each call -/
theorem E2E_not_not (v : Vec) (hv : v.Inv) (r1 r2 : Bool) :
    (Api.not (Api.not v r1) r2).Inv ∧ (Api.not (Api.not v r1) r2).abs = v.abs := by
  have h1 := C04_not v hv r1
  have h2 := C04_not _ h1.1 r2
  exact ⟨h2.1, by rw [h2.2, h1.2, Law_not_not _ (E2E_aux_wf hv)]⟩

/-- De Morgan: `!(a & b) = !a | !b` when `a` is not longer than `b` -/
theorem E2E_not_and (a b : Vec) (ha : a.Inv) (hb : b.Inv) (h : a.len ≤ b.len) (r1 r2 r3 : Bool) :
    (Api.not (Api.bitop .and a (.vec b)) r1).abs = (Api.bitop .or (Api.not a r2) (.vec (Api.not b r3))).abs := by
  have h1 := C04_bitop .and a (.vec b) ha hb
  have na := C04_not a ha r2
  have nb := C04_not b hb r3
  rw [(C04_not _ h1.1 r1).2, h1.2, (C04_bitop .or _ (.vec (Api.not b r3)) na.1 nb.1).2]
  simp only [E2E_aux_spec_vec, BitOp.spec]
  rw [na.2, nb.2]
  exact Law_not_and _ _ (E2E_aux_wf ha) (E2E_aux_wf hb) (by rw [Vec.abs_len, Vec.abs_len]; exact h)

/-- De Morgan: `!(a | b) = !a & !b` when `a` is not longer than `b` -/
theorem E2E_not_or (a b : Vec) (ha : a.Inv) (hb : b.Inv) (h : a.len ≤ b.len) (r1 r2 r3 : Bool) :
    (Api.not (Api.bitop .or a (.vec b)) r1).abs = (Api.bitop .and (Api.not a r2) (.vec (Api.not b r3))).abs := by
  have h1 := C04_bitop .or a (.vec b) ha hb
  have na := C04_not a ha r2
  have nb := C04_not b hb r3
  rw [(C04_not _ h1.1 r1).2, h1.2, (C04_bitop .and _ (.vec (Api.not b r3)) na.1 nb.1).2]
  simp only [E2E_aux_spec_vec, BitOp.spec]
  rw [na.2, nb.2]
  exact Law_not_or _ _ (E2E_aux_wf ha) (E2E_aux_wf hb) (by rw [Vec.abs_len, Vec.abs_len]; exact h)

/-- `v ^ v' = 0` whenever `v'` denotes the same bit vector as `v` (possibly another implementation) -/
theorem E2E_xor_self (v v' : Vec) (hv : v.Inv) (hv' : v'.Inv) (e : v'.abs = v.abs) :
    (Api.bitop .xor v (.vec v')).Inv ∧ (Api.bitop .xor v (.vec v')).abs = BV.zeros v.len ∧
    Api.isZero (Api.bitop .xor v (.vec v')) = true := by
  have h1 := C04_bitop .xor v (.vec v') hv hv'
  have e2 : (Api.bitop .xor v (.vec v')).abs = BV.zeros v.len := by
    rw [h1.2]
    simp only [E2E_aux_spec_vec, BitOp.spec]
    rw [e, Law_xor_self _ (E2E_aux_wf hv), Vec.abs_len]
  refine ⟨h1.1, e2, ?_⟩
  rw [(C16_counts _ h1.1).2.2.2.2.2, e2]; rfl

/-- `(v ^ x) ^ x = v` when `v` is not longer than `x` -/
theorem E2E_xor_xor_cancel (v : Vec) (x : Api.Rhs) (hv : v.Inv) (hx : x.Inv) (h : v.len ≤ x.spec.len) :
    (Api.bitop .xor (Api.bitop .xor v x) x).Inv ∧ (Api.bitop .xor (Api.bitop .xor v x) x).abs = v.abs := by
  have h1 := C04_bitop .xor v x hv hx
  have h2 := C04_bitop .xor _ x h1.1 hx
  refine ⟨h2.1, ?_⟩
  rw [h2.2, h1.2]
  simp only [BitOp.spec]
  rw [Law_xor_assoc _ _ _ (by rw [Vec.abs_len]; exact h), Law_xor_self _ (E2E_aux_rhs_wf hx), Law_xor_zeros]

/-- `a & b = b & a`, `a | b = b | a`, `a ^ b = b ^ a` for two vectors of equal length of possibly different
implementations -/
theorem E2E_bitop_comm (op : BitOp) (a b : Vec) (ha : a.Inv) (hb : b.Inv) (h : a.len = b.len) :
    (Api.bitop op a (.vec b)).abs = (Api.bitop op b (.vec a)).abs := by
  rw [(C04_bitop op a (.vec b) ha hb).2, (C04_bitop op b (.vec a) hb ha).2]
  simp only [E2E_aux_spec_vec]
  have hl : a.abs.len = b.abs.len := by rw [Vec.abs_len, Vec.abs_len]; exact h
  cases op with
  | and => exact Law_and_comm _ _ hl
  | or => exact Law_or_comm _ _ (E2E_aux_wf ha) (E2E_aux_wf hb) hl
  | xor => exact Law_xor_comm _ _ (E2E_aux_wf ha) (E2E_aux_wf hb) hl

/-- `v & !v = 0`, `v | !v = 1…1`, `v ^ !v = 1…1` -/
theorem E2E_bitop_not_self (v : Vec) (hv : v.Inv) (r : Bool) :
    (Api.bitop .and v (.vec (Api.not v r))).abs = BV.zeros v.len ∧
    (Api.bitop .or v (.vec (Api.not v r))).abs = BV.ones v.len ∧
    (Api.bitop .xor v (.vec (Api.not v r))).abs = BV.ones v.len := by
  have hn := C04_not v hv r
  have hw := E2E_aux_wf hv
  refine ⟨?_, ?_, ?_⟩
  · rw [(C04_bitop .and v (.vec (Api.not v r)) hv hn.1).2]; simp only [E2E_aux_spec_vec, BitOp.spec]
    rw [hn.2, Law_and_not_self _ hw, Vec.abs_len]
  · rw [(C04_bitop .or v (.vec (Api.not v r)) hv hn.1).2]; simp only [E2E_aux_spec_vec, BitOp.spec]
    rw [hn.2, Law_or_not_self _ hw, Vec.abs_len]
  · rw [(C04_bitop .xor v (.vec (Api.not v r)) hv hn.1).2]; simp only [E2E_aux_spec_vec, BitOp.spec]
    rw [hn.2, Law_xor_not_self _ hw, Vec.abs_len]

/-- absorption: `a | (a & x) = a` -/
theorem E2E_or_and_absorb (a : Vec) (x : Api.Rhs) (ha : a.Inv) (hx : x.Inv) :
    (Api.bitop .or a (.vec (Api.bitop .and a x))).abs = a.abs := by
  have h1 := C04_bitop .and a x ha hx
  rw [(C04_bitop .or a (.vec (Api.bitop .and a x)) ha h1.1).2]
  simp only [E2E_aux_spec_vec]
  rw [h1.2]
  simp only [BitOp.spec]
  exact Law_or_and_absorb _ _

example : (Api.not (Api.not (.d ⟨#[0x2D#64], 7⟩) true) false).abs = ⟨7, 0x2D⟩ := by decide

-- ---- C05: shifts ------------------------------------------------------------------------------------------

/-- `(v << j) << k = v << (j + k)`, whichever `Shl` bodies are used -/
theorem E2E_shl_shl (v : Vec) (hv : v.Inv) (j k : Nat) (r1 r2 r3 : Bool) (hl : v.len < 2 ^ 64) :
    (Api.shl (Api.shl v j r1) k r2).Inv ∧ (Api.shl (Api.shl v j r1) k r2).abs = (Api.shl v (j + k) r3).abs := by
  have h1 := C05_shl v hv j r1 hl
  have l1 : (Api.shl v j r1).len = v.len := by rw [E2E_aux_len h1.2, Law_aux_shl_len, Vec.abs_len]
  have h2 := C05_shl _ h1.1 k r2 (by rw [l1]; exact hl)
  exact ⟨h2.1, by rw [h2.2, h1.2, (C05_shl v hv (j + k) r3 hl).2, Law_shl_shl]⟩

/-- `(v >> j) >> k = v >> (j + k)`, whichever `Shr` bodies are used -/
theorem E2E_shr_shr (v : Vec) (hv : v.Inv) (j k : Nat) (r1 r2 r3 : Bool) (hl : v.len < 2 ^ 64) :
    (Api.shr (Api.shr v j r1) k r2).Inv ∧ (Api.shr (Api.shr v j r1) k r2).abs = (Api.shr v (j + k) r3).abs := by
  have h1 := C05_shr v hv j r1 hl
  have l1 : (Api.shr v j r1).len = v.len := by rw [E2E_aux_len h1.2, Law_aux_shr_len, Vec.abs_len]
  have h2 := C05_shr _ h1.1 k r2 (by rw [l1]; exact hl)
  exact ⟨h2.1, by rw [h2.2, h1.2, (C05_shr v hv (j + k) r3 hl).2, Law_shr_shr _ _ _ (E2E_aux_wf hv)]⟩

/-- `(v << k) >> k` keeps the low `len - k` bits of `v` and clears the rest -/
theorem E2E_shl_shr (v : Vec) (hv : v.Inv) (k : Nat) (r1 r2 : Bool) (hl : v.len < 2 ^ 64) :
    (Api.shr (Api.shl v k r1) k r2).Inv ∧
    (Api.shr (Api.shl v k r1) k r2).abs = ⟨v.len, v.abs.val % 2 ^ (v.len - k)⟩ := by
  have h1 := C05_shl v hv k r1 hl
  have l1 : (Api.shl v k r1).len = v.len := by rw [E2E_aux_len h1.2, Law_aux_shl_len, Vec.abs_len]
  have h2 := C05_shr _ h1.1 k r2 (by rw [l1]; exact hl)
  exact ⟨h2.1, by rw [h2.2, h1.2, Law_shl_shr, Vec.abs_len]⟩

/-- `(v >> k) << k = v & (1…1 << k)`: clears the low `k` bits; the mask is computed by the code from any
all-ones vector `m` of the same length -/
theorem E2E_shr_shl (v m : Vec) (hv : v.Inv) (hm : m.Inv) (em : m.abs = BV.ones v.len) (k : Nat) (r1 r2 r3 : Bool)
    (hl : v.len < 2 ^ 64) :
    (Api.shl (Api.shr v k r1) k r2).abs = (Api.bitop .and v (.vec (Api.shl m k r3))).abs := by
  have h1 := C05_shr v hv k r1 hl
  have l1 : (Api.shr v k r1).len = v.len := by rw [E2E_aux_len h1.2, Law_aux_shr_len, Vec.abs_len]
  have h2 := C05_shl _ h1.1 k r2 (by rw [l1]; exact hl)
  have lm : m.len = v.len := by rw [E2E_aux_len em]; rfl
  have h3 := C05_shl m hm k r3 (by rw [lm]; exact hl)
  rw [h2.2, h1.2, (C04_bitop .and v (.vec (Api.shl m k r3)) hv h3.1).2]
  simp only [E2E_aux_spec_vec, BitOp.spec]
  rw [h3.2, em, Law_shr_shl _ _ (E2E_aux_wf hv), Vec.abs_len]

/-- `v << k = v * 2^k` for `k < 64` (the multiplier given as a `u64`) -/
theorem E2E_shl_eq_mul (v : Vec) (hv : v.Inv) (k : Nat) (hk : k < 64) (r : Bool) (hl : v.len < 2 ^ 64) :
    (Api.shl v k r).abs = (Api.mul v (.uint 64 (2 ^ k))).abs := by
  have hx : (Api.Rhs.uint 64 (2 ^ k)).Inv := ⟨wok64, by decide, Nat.pow_lt_pow_right (by decide) hk⟩
  rw [(C05_shl v hv k r hl).2, (C01_mul v _ hv hx).2, Law_shl_val_mul]
  rfl

/-- shifting by the whole length (or more) clears the vector -/
theorem E2E_shl_all (v : Vec) (hv : v.Inv) (k : Nat) (hk : v.len ≤ k) (r : Bool) (hl : v.len < 2 ^ 64) :
    Api.isZero (Api.shl v k r) = true ∧ Api.isZero (Api.shr v k r) = true := by
  have h1 := C05_shl v hv k r hl
  have h2 := C05_shr v hv k r hl
  rw [(C16_counts _ h1.1).2.2.2.2.2, (C16_counts _ h2.1).2.2.2.2.2, h1.2, h2.2,
    BV.shl_of_len_le _ _ (by rw [Vec.abs_len]; exact hk), BV.shr_of_len_le _ _ (by rw [Vec.abs_len]; exact hk)]
  exact ⟨rfl, rfl⟩

/-- non-vacuity: the hypotheses of the shift theorems hold for a 10-bit `Bvf<u8,2>` -/
example : (Vec.f 8 ⟨#[0xB7#8, 0x02#8], 10⟩ : Vec).Inv ∧ (Vec.f 8 ⟨#[0xB7#8, 0x02#8], 10⟩ : Vec).len < 2 ^ 64 :=
  ⟨⟨wok8, (Raw.invB_iff _ (by decide)).mp (by decide)⟩, by decide⟩

-- ---- C06: rotations ---------------------------------------------------------------------------------------

/-- lengths are preserved by rotation -/
theorem E2E_aux_rotl_len (v : Vec) (hv : v.Inv) (k : Nat) (hk : k ≤ v.len) : (Api.rotl v k).len = v.len := by
  rw [E2E_aux_len (C06_rotl v hv k hk).2, BV.rotl_len, Vec.abs_len]

theorem E2E_aux_rotr_len (v : Vec) (hv : v.Inv) (k : Nat) (hk : k ≤ v.len) : (Api.rotr v k).len = v.len := by
  rw [E2E_aux_len (C06_rotr v hv k hk).2, BV.rotr_len, Vec.abs_len]

/-- `rotl(j)` then `rotl(k)` is `rotl(j + k)` when `j + k ≤ len` -/
theorem E2E_rotl_rotl (v : Vec) (hv : v.Inv) (j k : Nat) (h : j + k ≤ v.len) :
    (Api.rotl (Api.rotl v j) k).Inv ∧ (Api.rotl (Api.rotl v j) k).abs = (Api.rotl v (j + k)).abs := by
  have h1 := C06_rotl v hv j (by omega)
  have h2 := C06_rotl _ h1.1 k (by rw [E2E_aux_rotl_len v hv j (by omega)]; omega)
  refine ⟨h2.1, ?_⟩
  rw [h2.2, h1.2, (C06_rotl v hv (j + k) h).2, Law_rotl_add _ _ _ (E2E_aux_wf hv) (by rw [Vec.abs_len]; exact h)]

/-- `rotl(j)` then `rotl(k)` wraps around: it is `rotl(j + k - len)` when `j + k ≥ len` -/
theorem E2E_rotl_rotl_wrap (v : Vec) (hv : v.Inv) (j k : Nat) (hj : j ≤ v.len) (hk : k ≤ v.len) (h : v.len ≤ j + k) :
    (Api.rotl (Api.rotl v j) k).abs = (Api.rotl v (j + k - v.len)).abs := by
  have h1 := C06_rotl v hv j hj
  have h2 := C06_rotl _ h1.1 k (by rw [E2E_aux_rotl_len v hv j hj]; exact hk)
  rw [h2.2, h1.2, (C06_rotl v hv (j + k - v.len) (by omega)).2,
    Law_rotl_add_wrap _ _ _ (E2E_aux_wf hv) (by rw [Vec.abs_len]; exact hj) (by rw [Vec.abs_len]; exact hk)
      (by rw [Vec.abs_len]; exact h), Vec.abs_len]

/-- `rotr(j)` then `rotr(k)` is `rotr(j + k)` when `j + k ≤ len` -/
theorem E2E_rotr_rotr (v : Vec) (hv : v.Inv) (j k : Nat) (h : j + k ≤ v.len) :
    (Api.rotr (Api.rotr v j) k).Inv ∧ (Api.rotr (Api.rotr v j) k).abs = (Api.rotr v (j + k)).abs := by
  have h1 := C06_rotr v hv j (by omega)
  have h2 := C06_rotr _ h1.1 k (by rw [E2E_aux_rotr_len v hv j (by omega)]; omega)
  refine ⟨h2.1, ?_⟩
  rw [h2.2, h1.2, (C06_rotr v hv (j + k) h).2, Law_rotr_add _ _ _ (E2E_aux_wf hv) (by rw [Vec.abs_len]; exact h)]

/-- on the code model `rotl(k)` and `rotr(len - k)` give the same vector -/
theorem E2E_rotl_eq_rotr (v : Vec) (hv : v.Inv) (k : Nat) (hk : k ≤ v.len) :
    (Api.rotl v k).abs = (Api.rotr v (v.len - k)).abs := by
  rw [(C06_rotl v hv k hk).2, (C06_rotr v hv (v.len - k) (by omega)).2,
    Law_rotl_eq_rotr _ _ (E2E_aux_wf hv) (by rw [Vec.abs_len]; exact hk), Vec.abs_len]

/-- `rotr(k)` then `rotl(k)` is the identity (the converse of `C06_roundtrip`) -/
theorem E2E_rotr_rotl (v : Vec) (hv : v.Inv) (k : Nat) (hk : k ≤ v.len) :
    (Api.rotl (Api.rotr v k) k).Inv ∧ (Api.rotl (Api.rotr v k) k).abs = v.abs := by
  have h1 := C06_rotr v hv k hk
  have h2 := C06_rotl _ h1.1 k (by rw [E2E_aux_rotr_len v hv k hk]; exact hk)
  refine ⟨h2.1, ?_⟩
  rw [h2.2, h1.2, (Law_rotl_rotr _ _ (E2E_aux_wf hv) (by rw [Vec.abs_len]; exact hk)).2]

/-- a full turn is the identity -/
theorem E2E_rotl_full (v : Vec) (hv : v.Inv) : (Api.rotl v v.len).abs = v.abs ∧ (Api.rotr v v.len).abs = v.abs := by
  have h1 := (C06_rotl v hv v.len (Nat.le_refl _)).2
  have h2 := (C06_rotr v hv v.len (Nat.le_refl _)).2
  rw [← Vec.abs_len] at h1 h2
  rw [Law_rotl_len _ (E2E_aux_wf hv)] at h1
  rw [Law_rotr_len _ (E2E_aux_wf hv)] at h2
  rw [← Vec.abs_len]
  exact ⟨h1, h2⟩

/-- a rotation is the union of the two complementary shifts: `rotl(k) = (v << k) | (v >> (len - k))` -/
theorem E2E_rotl_shl_shr (v : Vec) (hv : v.Inv) (k : Nat) (hk : k ≤ v.len) (r1 r2 : Bool) (hl : v.len < 2 ^ 64) :
    (Api.rotl v k).abs = (Api.bitop .or (Api.shl v k r1) (.vec (Api.shr v (v.len - k) r2))).abs := by
  have h1 := C05_shl v hv k r1 hl
  have h2 := C05_shr v hv (v.len - k) r2 hl
  rw [(C06_rotl v hv k hk).2, (C04_bitop .or _ (.vec (Api.shr v (v.len - k) r2)) h1.1 h2.1).2]
  simp only [E2E_aux_spec_vec, BitOp.spec]
  rw [h1.2, h2.2, Law_rotl_shl_shr _ _ (E2E_aux_wf hv) (by rw [Vec.abs_len]; exact hk), Vec.abs_len]

/-- non-vacuity: the hypotheses of `E2E_rotl_rotl` hold for a 6-bit `Bv::Fixed` with `j = 2`, `k = 3` -/
example : (Vec.a (.fixed ⟨#[0x1D#64, 0#64], 6⟩) : Vec).Inv ∧ 2 + 3 ≤ (Vec.a (.fixed ⟨#[0x1D#64, 0#64], 6⟩) : Vec).len :=
  ⟨⟨(Raw.invB_iff _ (by decide)).mp (by decide), rfl⟩, by decide⟩

-- ---- C16: counts after other operations -------------------------------------------------------------------------

/-- the leading (trailing) zeros of `!v` are the leading (trailing) ones of `v` -/
theorem E2E_counts_not (v : Vec) (hv : v.Inv) (r : Bool) :
    Api.leadingZeros (Api.not v r) = Api.leadingOnes v ∧ Api.trailingZeros (Api.not v r) = Api.trailingOnes v := by
  have h1 := C04_not v hv r
  have c1 := C16_counts _ h1.1
  have c := C16_counts v hv
  rw [c1.1, c1.2.2.1, c.2.1, c.2.2.2.1, h1.2]
  exact ⟨rfl, rfl⟩

/-- the leading (trailing) ones of `!v` are the leading (trailing) zeros of `v` -/
theorem E2E_counts_not' (v : Vec) (hv : v.Inv) (r : Bool) :
    Api.leadingOnes (Api.not v r) = Api.leadingZeros v ∧ Api.trailingOnes (Api.not v r) = Api.trailingZeros v := by
  have h1 := C04_not v hv r
  have c1 := C16_counts _ h1.1
  have c := C16_counts v hv
  rw [c1.2.1, c1.2.2.2.1, c.1, c.2.2.1, h1.2, Law_lo_eq_lz_not, Law_to_eq_tz_not, Law_not_not _ (E2E_aux_wf hv)]
  exact ⟨rfl, rfl⟩

/-- a left shift by `k` adds `k` trailing zeros (saturating at the length) -/
theorem E2E_tz_shl (v : Vec) (hv : v.Inv) (k : Nat) (r : Bool) (hl : v.len < 2 ^ 64) :
    Api.trailingZeros (Api.shl v k r) = min (Api.trailingZeros v + k) v.len := by
  have h1 := C05_shl v hv k r hl
  rw [(C16_counts _ h1.1).2.2.1, (C16_counts v hv).2.2.1, h1.2, Law_tz_shl, Vec.abs_len]

/-- a right shift by `k` adds `k` leading zeros (saturating at the length) and removes `k` significant bits -/
theorem E2E_lz_shr (v : Vec) (hv : v.Inv) (k : Nat) (r : Bool) (hl : v.len < 2 ^ 64) :
    Api.leadingZeros (Api.shr v k r) = min (Api.leadingZeros v + k) v.len ∧
    Api.sigBits (Api.shr v k r) = Api.sigBits v - k := by
  have h1 := C05_shr v hv k r hl
  have c1 := C16_counts _ h1.1
  have c := C16_counts v hv
  rw [c1.1, c1.2.2.2.2.1, c.1, c.2.2.2.2.1, h1.2, Law_lz_shr _ _ (E2E_aux_wf hv), Law_sig_shr _ _ (E2E_aux_wf hv),
    Vec.abs_len]
  exact ⟨rfl, rfl⟩

/-- `v - v` is recognised as zero by `is_zero`, and has `len` leading zeros -/
theorem E2E_sub_self_isZero (v v' : Vec) (hv : v.Inv) (hv' : v'.Inv) (e : v'.abs = v.abs) :
    Api.isZero (Api.addsub true v (.vec v')) = true ∧ Api.leadingZeros (Api.addsub true v (.vec v')) = v.len := by
  have h := E2E_sub_self v v' hv hv' e
  have c := C16_counts _ h.1
  rw [c.1, c.2.2.2.2.2, h.2, (C16_uniform v.len).1]
  exact ⟨rfl, rfl⟩

/-- leading zeros plus significant bits of any result give its length; instance: of a product -/
theorem E2E_lz_sig_mul (v : Vec) (x : Api.Rhs) (hv : v.Inv) (hx : x.Inv) :
    Api.leadingZeros (Api.mul v x) + Api.sigBits (Api.mul v x) = v.len := by
  have h := C01_mul v x hv hx
  have c := C16_counts _ h.1
  rw [c.1, c.2.2.2.2.1, Law_lz_sig _ (E2E_aux_wf h.1), h.2]
  show v.abs.len = v.len
  exact Vec.abs_len v

example : Api.leadingZeros (Api.not (.d ⟨#[0xE5#64], 8⟩) true) = 3 := by decide

-- ---- more ring laws ------------------------------------------------------------------------------------------

/-- `(a * b) * c = a * (b * c)` when `a` is not longer than `b` -/
theorem E2E_mul_assoc (a b : Vec) (c : Api.Rhs) (ha : a.Inv) (hb : b.Inv) (hc : c.Inv) (h : a.len ≤ b.len) :
    (Api.mul (Api.mul a (.vec b)) c).abs = (Api.mul a (.vec (Api.mul b c))).abs := by
  have hab := C01_mul a (.vec b) ha hb
  have hbc := C01_mul b c hb hc
  rw [(C01_mul _ c hab.1 hc).2, (C01_mul a (.vec (Api.mul b c)) ha hbc.1).2]
  simp only [E2E_aux_spec_vec]
  rw [hab.2, hbc.2]
  simp only [E2E_aux_spec_vec]
  exact Law_mul_assoc _ _ _ (by rw [Vec.abs_len, Vec.abs_len]; exact h)

/-- units and zero given as native integers: `(v + 0u8) * 1u8 = v` and `v * 0u8 = 0` -/
theorem E2E_units (v : Vec) (hv : v.Inv) :
    (Api.mul (Api.addsub false v (.uint 8 0)) (.uint 8 1)).abs = v.abs ∧
    (Api.addsub true (Api.mul v (.uint 8 1)) (.uint 8 0)).abs = v.abs ∧
    (Api.mul v (.uint 8 0)).abs = BV.zeros v.len := by
  have h0 : (Api.Rhs.uint 8 0).Inv := ⟨wok8, by decide, by decide⟩
  have h1 : (Api.Rhs.uint 8 1).Inv := ⟨wok8, by decide, by decide⟩
  have hw := E2E_aux_wf hv
  have ha := C01_add v _ hv h0
  have hm := C01_mul v _ hv h1
  refine ⟨?_, ?_, ?_⟩
  · rw [(C01_mul _ _ ha.1 h1).2, ha.2]
    show (v.abs.add (BV.zeros 8)).mul ⟨8, 1⟩ = v.abs
    rw [Law_add_zero _ _ hw, Law_mul_one _ _ hw]
  · rw [(C01_sub _ _ hm.1 h0).2, hm.2]
    show (v.abs.mul ⟨8, 1⟩).sub (BV.zeros 8) = v.abs
    rw [Law_mul_one _ _ hw, Law_sub_zero _ _ hw]
  · rw [(C01_mul v _ hv h0).2]
    show v.abs.mul (BV.zeros 8) = BV.zeros v.len
    rw [Law_mul_zero, Vec.abs_len]

/-- two's complement: `0 - v = !v + 1`, with `z` any zero vector of `v`'s length -/
theorem E2E_neg (v z : Vec) (hv : v.Inv) (hz : z.Inv) (ez : z.abs = BV.zeros v.len) (r : Bool) :
    (Api.addsub true z (.vec v)).abs = (Api.addsub false (Api.not v r) (.uint 8 1)).abs := by
  have h1 : (Api.Rhs.uint 8 1).Inv := ⟨wok8, by decide, by decide⟩
  have hn := C04_not v hv r
  rw [(C01_sub z (.vec v) hz hv).2, (C01_add _ _ hn.1 h1).2, hn.2, ez, E2E_aux_spec_vec, ← Vec.abs_len,
    Law_neg _ (E2E_aux_wf hv)]
  rfl

/-- `v + v = v << 1 = v * 2` (the second summand may be another representation of the same bits) -/
theorem E2E_add_self (v v' : Vec) (hv : v.Inv) (hv' : v'.Inv) (e : v'.abs = v.abs) (r : Bool) (hl : v.len < 2 ^ 64) :
    (Api.addsub false v (.vec v')).abs = (Api.shl v 1 r).abs ∧
    (Api.addsub false v (.vec v')).abs = (Api.mul v (.uint 8 2)).abs := by
  have h2 : (Api.Rhs.uint 8 2).Inv := ⟨wok8, by decide, by decide⟩
  have e1 : (Api.addsub false v (.vec v')).abs = (Api.mul v (.uint 8 2)).abs := by
    rw [(C01_add v (.vec v') hv hv').2, (C01_mul v _ hv h2).2, E2E_aux_spec_vec, e]
    show v.abs.add v.abs = v.abs.mul ⟨8, 2⟩
    unfold BV.add BV.mul
    rw [Nat.mul_two]
  refine ⟨?_, e1⟩
  rw [e1, (C05_shl v hv 1 r hl).2, (C01_mul v _ hv h2).2, Law_shl_val_mul]
  rfl

-- ---- more Boolean algebra ---------------------------------------------------------------------------------------

/-- `v ^ 1…1 = !v`, `v & 1…1 = v`, `v | 1…1 = 1…1`, for any all-ones vector `m` of `v`'s length -/
theorem E2E_bitop_ones (v m : Vec) (hv : v.Inv) (hm : m.Inv) (em : m.abs = BV.ones v.len) (r : Bool) :
    (Api.bitop .xor v (.vec m)).abs = (Api.not v r).abs ∧
    (Api.bitop .and v (.vec m)).abs = v.abs ∧
    (Api.bitop .or v (.vec m)).abs = m.abs := by
  have hw := E2E_aux_wf hv
  refine ⟨?_, ?_, ?_⟩
  · rw [(C04_bitop .xor v (.vec m) hv hm).2, (C04_not v hv r).2]
    simp only [E2E_aux_spec_vec, BitOp.spec]
    rw [em, ← Vec.abs_len, Law_xor_ones _ hw]
  · rw [(C04_bitop .and v (.vec m) hv hm).2]
    simp only [E2E_aux_spec_vec, BitOp.spec]
    rw [em, Law_and_ones _ _ hw (Nat.le_of_eq (Vec.abs_len v))]
  · rw [(C04_bitop .or v (.vec m) hv hm).2]
    simp only [E2E_aux_spec_vec, BitOp.spec]
    rw [em, ← Vec.abs_len, Law_or_ones _ hw]

/-- idempotence: `v & v' = v` and `v | v' = v` whenever `v'` denotes the same bits as `v` -/
theorem E2E_bitop_idem (v v' : Vec) (hv : v.Inv) (hv' : v'.Inv) (e : v'.abs = v.abs) :
    (Api.bitop .and v (.vec v')).abs = v.abs ∧ (Api.bitop .or v (.vec v')).abs = v.abs := by
  rw [(C04_bitop .and v (.vec v') hv hv').2, (C04_bitop .or v (.vec v') hv hv').2]
  simp only [E2E_aux_spec_vec, BitOp.spec]
  rw [e]
  exact ⟨Law_and_self _, Law_or_self _⟩

/-- associativity of `&`, `|`, `^` when `a` is not longer than `b` -/
theorem E2E_bitop_assoc (op : BitOp) (a b : Vec) (c : Api.Rhs) (ha : a.Inv) (hb : b.Inv) (hc : c.Inv)
    (h : a.len ≤ b.len) :
    (Api.bitop op (Api.bitop op a (.vec b)) c).abs = (Api.bitop op a (.vec (Api.bitop op b c))).abs := by
  have hab := C04_bitop op a (.vec b) ha hb
  have hbc := C04_bitop op b c hb hc
  rw [(C04_bitop op _ c hab.1 hc).2, (C04_bitop op a (.vec (Api.bitop op b c)) ha hbc.1).2]
  simp only [E2E_aux_spec_vec]
  rw [hab.2, hbc.2]
  simp only [E2E_aux_spec_vec]
  have hl : a.abs.len ≤ b.abs.len := by rw [Vec.abs_len, Vec.abs_len]; exact h
  cases op with
  | and => exact Law_and_assoc _ _ _
  | or => exact Law_or_assoc _ _ _ hl
  | xor => exact Law_xor_assoc _ _ _ hl

/-- distributivity: `a & (b | c) = (a & b) | (a & c)` when `a` is not longer than `b` -/
theorem E2E_and_or_distrib (a b : Vec) (c : Api.Rhs) (ha : a.Inv) (hb : b.Inv) (hc : c.Inv) (h : a.len ≤ b.len) :
    (Api.bitop .and a (.vec (Api.bitop .or b c))).abs =
      (Api.bitop .or (Api.bitop .and a (.vec b)) (.vec (Api.bitop .and a c))).abs := by
  have hbc := C04_bitop .or b c hb hc
  have hab := C04_bitop .and a (.vec b) ha hb
  have hac := C04_bitop .and a c ha hc
  rw [(C04_bitop .and a (.vec (Api.bitop .or b c)) ha hbc.1).2,
    (C04_bitop .or _ (.vec (Api.bitop .and a c)) hab.1 hac.1).2]
  simp only [E2E_aux_spec_vec]
  rw [hbc.2, hab.2, hac.2]
  simp only [E2E_aux_spec_vec, BitOp.spec]
  exact Law_and_or_distrib _ _ _ (by rw [Vec.abs_len, Vec.abs_len]; exact h) (E2E_aux_wf ha)

/-- `!(a ^ b) = !a ^ b` for two vectors of equal length -/
theorem E2E_xor_not (a b : Vec) (ha : a.Inv) (hb : b.Inv) (h : a.len = b.len) (r1 r2 : Bool) :
    (Api.not (Api.bitop .xor a (.vec b)) r1).abs = (Api.bitop .xor (Api.not a r2) (.vec b)).abs := by
  have h1 := C04_bitop .xor a (.vec b) ha hb
  have na := C04_not a ha r2
  rw [(C04_not _ h1.1 r1).2, h1.2, (C04_bitop .xor _ (.vec b) na.1 hb).2]
  simp only [E2E_aux_spec_vec, BitOp.spec]
  rw [na.2]
  exact Law_xor_not _ _ (E2E_aux_wf ha) (E2E_aux_wf hb) (by rw [Vec.abs_len, Vec.abs_len]; exact h)

/-- the separately written by-reference bodies (`!&v`, `&v << k`, `&v >> k`) agree with the by-value ones -/
theorem E2E_byRef_agree (v : Vec) (hv : v.Inv) (k : Nat) (hl : v.len < 2 ^ 64) :
    (Api.not v true).abs = (Api.not v false).abs ∧ (Api.shl v k true).abs = (Api.shl v k false).abs ∧
    (Api.shr v k true).abs = (Api.shr v k false).abs := by
  rw [(C04_not v hv true).2, (C04_not v hv false).2, (C05_shl v hv k true hl).2, (C05_shl v hv k false hl).2,
    (C05_shr v hv k true hl).2, (C05_shr v hv k false hl).2]
  exact ⟨rfl, rfl, rfl⟩

-- ---- single-bit shifts with carry ---------------------------------------------------------------------------------

/-- `shl_in(b)` then `shr_in` of the bit that fell out restores the vector and returns `b` -/
theorem E2E_shlIn_shrIn (v : Vec) (hv : v.Inv) (b : Bool) (hl : 0 < v.len) :
    (Api.shrIn (Api.shlIn v b).1 (Api.shlIn v b).2).1.abs = v.abs ∧
    (Api.shrIn (Api.shlIn v b).1 (Api.shlIn v b).2).2 = b := by
  have h1 := C05_shl_in v hv b
  have h2 := C05_shr_in _ h1.1 (Api.shlIn v b).2
  have e1 : (Api.shlIn v b).1.abs = (v.abs.shlIn b).1 := congrArg Prod.fst h1.2
  have e2 : (Api.shlIn v b).2 = (v.abs.shlIn b).2 := congrArg Prod.snd h1.2
  have l := Law_shlIn_shrIn v.abs b (E2E_aux_wf hv) (by rw [Vec.abs_len]; exact hl)
  rw [e1, e2] at h2
  have f1 := congrArg Prod.fst h2.2
  have f2 := congrArg Prod.snd h2.2
  simp only at f1 f2
  rw [e2]
  exact ⟨f1.trans l.1, f2.trans l.2⟩

/-- `shl_in(b)` is `(v << 1) | b` and returns the former top bit -/
theorem E2E_shlIn_eq (v : Vec) (hv : v.Inv) (b : Bool) (r : Bool) (hl : v.len < 2 ^ 64) :
    (Api.shlIn v b).1.abs = (Api.bitop .or (Api.shl v 1 r) (.uint 8 b.toNat)).abs := by
  have hb : (Api.Rhs.uint 8 b.toNat).Inv := ⟨wok8, by decide, by cases b <;> decide⟩
  have h1 := C05_shl_in v hv b
  have hs := C05_shl v hv 1 r hl
  have e1 : (Api.shlIn v b).1.abs = (v.abs.shlIn b).1 := congrArg Prod.fst h1.2
  rw [e1, (C04_bitop .or _ _ hs.1 hb).2, hs.2, Law_shlIn_fst _ _ (E2E_aux_wf hv)]
  simp only [BitOp.spec]
  exact Law_only_low_bits_or _ _ _ rfl

-- ---- more counts --------------------------------------------------------------------------------------------------

/-- a left shift that does not push out a set bit adds `k` significant bits -/
theorem E2E_sig_shl (v : Vec) (hv : v.Inv) (k : Nat) (r : Bool) (hl : v.len < 2 ^ 64)
    (h0 : Api.isZero v = false) (h : Api.sigBits v + k ≤ v.len) :
    Api.sigBits (Api.shl v k r) = Api.sigBits v + k := by
  have h1 := C05_shl v hv k r hl
  have c := C16_counts v hv
  rw [c.2.2.2.2.2] at h0
  rw [c.2.2.2.2.1] at h
  rw [(C16_counts _ h1.1).2.2.2.2.1, c.2.2.2.2.1, h1.2]
  refine Law_sig_shl _ _ (fun e => ?_) (by rw [Vec.abs_len]; exact h)
  rw [(Law_isZero_iff_val _).mpr e] at h0
  exact Bool.noConfusion h0

end Bva
