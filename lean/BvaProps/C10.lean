import BvaProofs.Refine
import BvaProofs.Hash
/-!
# C10 — equal vectors hash equally (Hash is consistent with Eq)

`Api.hashStream v` is the exact sequence of `Hasher::write_*` calls (bit width, value) that
`v.hash(&mut state)` performs (after repair D6: the number of significant bits, then the significant
words).  Equal write sequences give equal results for every `Hasher`; that last step is a property of
`Hasher` implementations and is outside the model (trusted base).
-/
namespace Bva

theorem Vec.raw_inv {b : Bv} (h : (Vec.a b).Inv) : b.raw.Inv := by
  cases b with
  | fixed s => exact h.1
  | dynamic s => exact h

/-- the stream is a function of the value alone: it is the L0 `specHash` of the abstraction -/
theorem C10_stream_is_spec (v : Vec) (hv : v.Inv) :
    Api.hashStream v = specHash (match v with | .f w _ => w | _ => 64) v.abs := by
  cases v with
  | f w s => exact Bvf.hashStream_eq s hv.1.pos hv.2
  | d s => exact Bvd.hashStream_eq s hv
  | a b => exact Bv.hashStream_eq b (Vec.raw_inv hv)

/-- Within each bit-vector type, values that compare equal (numerically equal — C09) feed identical data
to the hasher: different lengths, different `N`, spare capacity, and for `Bv` inline versus heap storage
make no difference. -/
theorem C10_hash (a b : Vec) (ha : a.Inv) (hb : b.Inv) (heq : a.abs.val = b.abs.val)
    (hty : match a, b with
      | .f w _, .f w' _ => w = w'
      | .d _, .d _ => True
      | .a _, .a _ => True
      | _, _ => False) :
    Api.hashStream a = Api.hashStream b := by
  cases a with
  | f w s =>
    cases b with
    | f w' t =>
      have e : w = w' := hty
      subst e
      exact Bvf.hashStream_congr s t ha.1.pos ha.2 hb.2 heq
    | d t => exact hty.elim
    | a t => exact hty.elim
  | d s =>
    cases b with
    | f w' t => exact hty.elim
    | d t => exact Bvd.hashStream_congr s t ha hb heq
    | a t => exact hty.elim
  | a s =>
    cases b with
    | f w' t => exact hty.elim
    | d t => exact hty.elim
    | a t => exact Bv.hashStream_congr s t (Vec.raw_inv ha) (Vec.raw_inv hb) heq

/-- the L0 stream depends on the value only, not on the length -/
theorem C10_spec_value_only (wWord : Nat) (a b : BV) (h : a.val = b.val) : specHash wWord a = specHash wWord b :=
  specHash_congr wWord h

/-- regression of defect D6: the *old* stream (length, then ceil(len/w) words) distinguished `zeros(3)` from `zeros(5)` -/
example : (64, 3) :: [(8, 0)] ≠ ((64, 5) :: [(8, 0)] : List (Nat × Nat)) := by decide
example : specHash 8 (BV.zeros 3) = specHash 8 (BV.zeros 5) := by decide

end Bva
