import BvaProofs.Refine
/-!
# C13 — byte and stream serialisation is exact for both endiannesses

Bytes are natural numbers `< 256`; `big : Bool` is the endianness.  `write(w, e)` is `w.write_all(to_vec(e))`
(the harness asserts the two agree on every case); `read` consumes from a byte list and returns the rest.
`Read`/`Write` implementations other than slices/`Vec` (partial reads, `Interrupted`) are `read_exact`'s /
`write_all`'s business (std, trusted).
-/
namespace Bva

/-- `to_vec(e)`: exactly `ceil(len/8)` bytes; for Little byte `j` carries bits `8j … 8j+7`; Big is the reverse -/
theorem C13_to_vec (v : Vec) (hv : v.Inv) (big : Bool) :
    Api.toVec v big = v.abs.toVec big ∧ (v.abs.toVec big).length = (v.len + 7) / 8 ∧
    (∀ b ∈ v.abs.toVec big, b < 256) := by
  refine ⟨?_, by rw [BV.length_toVec, Vec.abs_len], BV.toVec_lt _ _⟩
  cases v with
  | f w s => exact Raw.toVec_eq s hv.1.eight_dvd hv.1.pos big
  | d s => exact Raw.toVec_eq s ⟨8, rfl⟩ (by decide) big
  | a c => cases c with
    | fixed s => exact Raw.toVec_eq s ⟨8, rfl⟩ (by decide) big
    | dynamic s => exact Raw.toVec_eq s ⟨8, rfl⟩ (by decide) big

/-- L0 meaning of the little-endian bytes: byte `j` is `(val >> 8j) mod 256`, so its bit `k` is bit `8j+k` of the
vector, and the unused high bits of the last byte are zero (because `val < 2^len`) -/
theorem C13_bytes_meaning (a : BV) (j : Nat) (hj : j < (a.len + 7) / 8) :
    (a.toVec false).getD j 0 = (a.val >>> (8 * j)) % 256 := by
  unfold BV.toVec BV.bytesLE
  simp only [Bool.false_eq_true, if_false]
  generalize (a.len + 7) / 8 = n at hj
  induction n generalizing a j with
  | zero => omega
  | succ n ih =>
    cases j with
    | zero => simp [BV.natBytesLE]
    | succ j =>
      simp only [BV.natBytesLE, List.getD_cons_succ]
      have := ih ⟨a.len, a.val / 256⟩ j (by omega)
      simp only at this
      rw [this, Nat.shiftRight_eq_div_pow, Nat.shiftRight_eq_div_pow, Nat.div_div_eq_div_mul]
      congr 2
      rw [show 8 * (j + 1) = 8 + 8 * j by omega, Nat.pow_add]

/-- `from_bytes(bytes, e)`: length `8·|bytes|`, the inverse packing; `NotEnoughCapacity` beyond a fixed capacity -/
theorem C13_from_bytes (t : Ty) (bytes : List Nat) (big : Bool) (hb : ∀ b ∈ bytes, b < 256)
    (ht : match t with | .f w _ => WOk w | _ => True) :
    match t with
    | .f w N =>
      (N * w < bytes.length * 8 → Api.fromBytes t bytes big = .err "NotEnoughCapacity") ∧
      (bytes.length * 8 ≤ N * w → ∃ r, Api.fromBytes t bytes big = .ok r ∧ r.Inv ∧ r.abs = BV.fromBytes bytes big ∧ r.ty = t)
    | _ => ∃ r, Api.fromBytes t bytes big = .ok r ∧ r.Inv ∧ r.abs = BV.fromBytes bytes big ∧ r.ty = t := by
  cases t with
  | f w N =>
    refine ⟨fun h => by simp only [Api.fromBytes, Bvf.fromBytes_err N bytes big h, liftF], fun h => ?_⟩
    obtain ⟨r, e, hi, ha, hs, _⟩ := Bvf.fromBytes_ok (w := w) N bytes big ht.eight_dvd ht.pos hb h
    exact ⟨.f w r, by simp only [Api.fromBytes, e, liftF], ⟨ht, hi⟩, ha, by simp only [Vec.ty, hs]⟩
  | d =>
    have r := Bvd.fromBytes_refines bytes big hb
    exact ⟨.d (Bvd.fromBytes bytes big), rfl, r.1, r.2, rfl⟩
  | a =>
    obtain ⟨r, e, hi, ha, _⟩ := Bv.fromBytes_spec bytes big hb
    exact ⟨.a r, by simp only [Api.fromBytes, e, liftA], Vec.Inv.of_bvinv hi, ha, rfl⟩

/-- `read(r, len, e)`: `Err` (never a panic) on insufficient fixed capacity or short input; otherwise consumes exactly
`ceil(len/8)` bytes and returns exactly `len` bits, the surplus high bits of the most significant byte discarded (repair D8) -/
theorem C13_read (t : Ty) (input : List Nat) (length : Nat) (big : Bool) (hb : ∀ b ∈ input, b < 256)
    (ht : match t with | .f w _ => WOk w | _ => True) :
    ((match t with | .f w N => N * w < length | _ => False) → Api.read t input length big = .err "InvalidInput") ∧
    ((match t with | .f w N => length ≤ N * w | _ => True) →
      (input.length < (length + 7) / 8 → Api.read t input length big = .err "UnexpectedEof") ∧
      ((length + 7) / 8 ≤ input.length →
        ∃ r, Api.read t input length big = .ok (r, input.drop ((length + 7) / 8)) ∧ r.Inv ∧
          r.abs = ⟨length, (BV.fromBytes (input.take ((length + 7) / 8)) big).val % 2 ^ length⟩ ∧ r.ty = t)) := by
  cases t with
  | f w N =>
    refine ⟨fun h => by simp only [Api.read, Bvf.read_invalid N input length big h, Res.map], fun hc => ⟨fun hs => ?_, fun hs => ?_⟩⟩
    · simp only [Api.read, Bvf.read_eof N input length big hc hs, Res.map]
    · obtain ⟨r, e, hi, ha, hsz, _⟩ := Bvf.read_ok (w := w) N input length big ht.eight_dvd ht.pos hb hc hs
      exact ⟨.f w r, by simp only [Api.read, e, Res.map], ⟨ht, hi⟩, ha, by simp only [Vec.ty, hsz]⟩
  | d =>
    refine ⟨fun h => h.elim, fun _ => ⟨fun hs => ?_, fun hs => ?_⟩⟩
    · simp only [Api.read, Bvd.read_eof input length big hs, Res.map]
    · obtain ⟨r, e, hi, ha, _⟩ := Bvd.read_ok input length big hb hs
      exact ⟨.d r, by simp only [Api.read, e, Res.map], hi, ha, rfl⟩
  | a =>
    have s := Bv.read_spec input length big hb
    refine ⟨fun h => h.elim, fun _ => ⟨fun hs => ?_, fun hs => ?_⟩⟩
    · simp only [Api.read, s.1 hs, Res.map]
    · obtain ⟨r, e, hi, ha, _⟩ := s.2 hs
      exact ⟨.a r, by simp only [Api.read, e, Res.map], Vec.Inv.of_bvinv hi, ha, rfl⟩

/-- round trips: `from_bytes(to_vec(v))` is `v` zero-extended to whole bytes; reading back `len` bits of `to_vec(v)`
gives exactly `v` -/
theorem C13_roundtrip (a : BV) (ha : a.WF) (big : Bool) :
    BV.fromBytes (a.toVec big) big = ⟨8 * ((a.len + 7) / 8), a.val⟩ ∧
    (⟨a.len, (BV.fromBytes (a.toVec big) big).val % 2 ^ a.len⟩ : BV) = a := by
  refine ⟨BV.fromBytes_toVec a ha big, ?_⟩
  rw [BV.fromBytes_toVec_val a ha big]

end Bva
