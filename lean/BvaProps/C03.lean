import BvaProofs.Hist
import BvaProps.C01
import BvaProps.C02
import BvaProps.C04
import BvaProps.C05
import BvaProps.C06
import BvaProps.C08
import BvaProps.C09
import BvaProps.C10
import BvaProps.C11
import BvaProps.C13
import BvaProps.C14
import BvaProps.C16
import BvaProps.C17
import BvaProps.C18
/-!
# C03 — length and bits alone determine a vector: no hidden state after any history

`Api.step` / `Api.run` apply public mutating operations (with operands of any type) to a subject vector;
`Api.observe` applies a public observer.  `specStep` / `specRun` / `specObserve` do the same on the abstraction
`(capacity, len, val)`.  The theorems: every step preserves the storage invariant and commutes with abstraction
(`C03_step`), hence every history does (`C03_history`), every observer is a function of the abstraction
(`C03_observers`), and therefore two vectors with the same length and bits — however they were produced, with
whatever spare capacity or storage mode — are indistinguishable by any observer after any further history
(`C03_fresh`).  Constructors produce `Inv` states (C07, C11, C12, C13, C15, C19).
Not covered by the observer theorem: `{}` (decimal digits; `div_rem` itself is in the step language) and the
conversions to other implementations, which are in C12.
-/
namespace Bva

/-- argument preconditions of an operation, stated on the abstraction (documented domains; operands satisfy their invariant) -/
def Op.Ok (a : BV) : Op → Prop
  | .set i _ => i < a.len
  | .append x => x.Inv
  | .prepend x => x.Inv
  | .insert i x => i ≤ a.len ∧ x.Inv
  | .rotl k => k ≤ a.len
  | .rotr k => k ≤ a.len
  | .shl _ _ => a.len < 2 ^ 64
  | .shr _ _ => a.len < 2 ^ 64
  | .addsub _ x => x.Inv
  | .mul x => x.Inv
  | .bitop _ x => x.Inv
  | .div x => x.Inv
  | .rem x => x.Inv
  | .splitOff i => i ≤ a.len
  | .copyRange s e => s ≤ e ∧ e ≤ a.len
  | _ => True

/-- the relation "same outcome": both succeed with related states and equal by-products, or both panic -/
def StepRel (v : Vec) (r : Res (Vec × StepOut)) (s : Res (BV × StepOut)) : Prop :=
  match r, s with
  | .ok (v', o), .ok (a', o') => v'.Inv ∧ v'.abs = a' ∧ o = o' ∧ v'.ty = v.ty
  | .panic, .panic => True
  | _, _ => False

theorem stepRel_of_editOk (v : Vec) (res : Res Vec) (spec : BV) (h : EditOk v res spec) :
    StepRel v (res.map (·, none))
      (match v.capOpt with
        | some c => if spec.len ≤ c then .ok (spec, none) else .panic
        | none => .ok (spec, none)) := by
  by_cases hf : v.fits spec.len
  · obtain ⟨r, e, hr, ha, ht⟩ := h.1 hf
    rw [e]
    unfold Vec.fits at hf
    cases hc : v.capOpt with
    | some c => rw [hc] at hf; simp only [Res.map, if_pos hf, StepRel]; exact ⟨hr, ha, trivial, ht⟩
    | none => simp only [Res.map, StepRel]; exact ⟨hr, ha, trivial, ht⟩
  · rw [h.2 hf]
    unfold Vec.fits at hf
    cases hc : v.capOpt with
    | some c => rw [hc] at hf; simp only [Res.map, if_neg hf, StepRel]
    | none => rw [hc] at hf; exact absurd trivial hf

theorem stepRel_ok (v v' : Vec) (a' : BV) (o : StepOut) (h1 : v'.Inv) (h2 : v'.abs = a') (h3 : v'.ty = v.ty) :
    StepRel v (.ok (v', o)) (.ok (a', o)) := ⟨h1, h2, rfl, h3⟩

theorem ty_of_mapRaw_size (v : Vec) (k : {w : Nat} → Raw w → Raw w)
    (hs : ∀ {w : Nat} (r : Raw w), (k r).data.size = r.data.size) : (v.mapRaw k).ty = v.ty := by
  cases v with
  | f w r => simp only [Vec.mapRaw, Vec.ty, hs]
  | d r => rfl
  | a b => rfl

/-- ONE STEP: from an `Inv` state, with valid arguments, the model step and the L0 step have the same outcome;
a successful step re-establishes `Inv`, commutes with abstraction and keeps the vector's type -/
theorem C03_step (v : Vec) (hv : v.Inv) (op : Op) (hop : op.Ok v.abs) :
    StepRel v (Api.step v op) (specStep v.capOpt v.abs op) := by
  have hl := Vec.abs_len v
  cases op with
  | push b => exact stepRel_of_editOk v _ _ (C07_push v hv b)
  | pop => have r := C07_pop v hv; exact ⟨r.1, congrArg Prod.fst r.2.1, congrArg Prod.snd r.2.1, r.2.2⟩
  | set i b => have r := C07_set v hv i b (hl ▸ hop); exact stepRel_ok _ _ _ _ r.1 r.2.1 r.2.2
  | resize n b => exact stepRel_of_editOk v _ _ (C07_resize v hv n b)
  | truncate n =>
    obtain ⟨r, e, hr, ha, ht⟩ := C07_truncate v hv n
    simp only [Api.step, e, Res.map, specStep]; exact ⟨hr, ha, rfl, ht⟩
  | signExtend n => exact stepRel_of_editOk v _ _ (C07_sign_extend v hv n)
  | append x => exact stepRel_of_editOk v _ _ (C07_append v x hv hop)
  | prepend x => exact stepRel_of_editOk v _ _ (C07_prepend v x hv hop)
  | insert i x => exact stepRel_of_editOk v _ _ (C07_insert v x hv hop.2 i (hl ▸ hop.1))
  | extend bs hint => exact stepRel_of_editOk v _ _ (C07_extend v hv bs hint)
  | shlIn b =>
    have r := C05_shl_in v hv b
    refine ⟨r.1, congrArg Prod.fst r.2, by simp only [Option.some.injEq]; exact congrArg Prod.snd r.2, ?_⟩
    cases v with
    | f w s => simp only [Api.shlIn, Vec.ty, (Raw.shlIn_bits s hv.1.pos hv.2 b).2.1]
    | d s => rfl
    | a c => cases c <;> rfl
  | shrIn b =>
    have r := C05_shr_in v hv b
    refine ⟨r.1, congrArg Prod.fst r.2, by simp only [Option.some.injEq]; exact congrArg Prod.snd r.2, ?_⟩
    cases v with
    | f w s => simp only [Api.shrIn, Vec.ty, (Raw.shrIn_bits s hv.1.pos hv.2 b).2.1]
    | d s => rfl
    | a c => cases c <;> rfl
  | rotl k =>
    have r := C06_rotl v hv k (hl ▸ hop)
    exact stepRel_ok _ _ _ _ r.1 r.2 (ty_of_mapRaw_size v _ (fun r => Raw.rotl_size r k))
  | rotr k =>
    have r := C06_rotr v hv k (hl ▸ hop)
    exact stepRel_ok _ _ _ _ r.1 r.2 (ty_of_mapRaw_size v _ (fun r => Raw.rotr_size r k))
  | shl k br =>
    have r := C05_shl v hv k br (hl ▸ hop)
    refine stepRel_ok _ _ _ _ r.1 r.2 ?_
    cases v with
    | f w s => simp only [Api.shl, Vec.mapRaw, Vec.ty, Raw.shlAssign_size s hv.1.pos hv.2]
    | d s => rfl
    | a c => rfl
  | shr k br =>
    have r := C05_shr v hv k br (hl ▸ hop)
    refine stepRel_ok _ _ _ _ r.1 r.2 ?_
    cases v with
    | f w s => simp only [Api.shr, Vec.mapRaw, Vec.ty, Raw.shrAssign_size s hv.1.pos hv.2]
    | d s => rfl
    | a c => rfl
  | not br =>
    have r := C04_not v hv br
    refine stepRel_ok _ _ _ _ r.1 r.2 ?_
    cases v with
    | f w s => simp only [Api.not, Vec.ty, (Bvf.not_refines s hv.1.pos hv.2).2.2]
    | d s => rfl
    | a c => cases c <;> rfl
  | addsub sb x =>
    have hty : (Api.addsub sb v x).ty = v.ty := by
      cases v with
      | f w s => simp only [Api.addsub, Vec.ty, Bvf.addsubAssign_size sb s _ hv.1.two_le]
      | d s => rfl
      | a c => rfl
    cases sb with
    | false => have r := C01_add v x hv hop; exact stepRel_ok _ _ _ _ r.1 r.2 hty
    | true => have r := C01_sub v x hv hop; exact stepRel_ok _ _ _ _ r.1 r.2 hty
  | mul x =>
    have r := C01_mul v x hv hop
    refine stepRel_ok _ _ _ _ r.1 r.2 ?_
    cases v with
    | f w s => simp only [Api.mul, Vec.ty, Bvf.mul_size]
    | d s => rfl
    | a c => rfl
  | bitop o x =>
    have r := C04_bitop o v x hv hop
    rw [BitOp.spec_eq_match] at r
    refine stepRel_ok _ _ _ _ r.1 r.2 ?_
    cases v with
    | f w s =>
      obtain ⟨hxa, _⟩ := Api.Rhs.any_ok (.f w s) x hop
      simp only [Api.bitop, Vec.ty, (Bvf.bitopAssign_refines o s _ hv.1.pos hv.2
        (fun i j hi hj => Bvf.rhsWord_bits hv.1 _ _ hxa i j hi hj)).2.2]
    | d s => rfl
    | a c => rfl
  | div x =>
    have r := C02_operators v x hv hop
    by_cases h0 : x.spec.val = 0
    · simp only [Api.step, r.1 h0, Res.map, specStep, h0, if_true, StepRel]
    · obtain ⟨q, rr, e, hq, _, aq, _, tq, _⟩ := r.2 h0
      simp only [Api.step, e, Res.map, specStep, h0, if_false]
      exact ⟨hq, aq, rfl, tq⟩
  | rem x =>
    have r := C02_operators v x hv hop
    by_cases h0 : x.spec.val = 0
    · simp only [Api.step, r.1 h0, Res.map, specStep, h0, if_true, StepRel]
    · obtain ⟨q, rr, e, _, hr, _, ar, _, tr⟩ := r.2 h0
      simp only [Api.step, e, Res.map, specStep, h0, if_false]
      exact ⟨hr, ar, rfl, tr⟩
  | reserve k =>
    have r := C18_reserve v hv k
    refine stepRel_ok _ _ _ _ r.1 r.2.1 ?_
    cases v <;> rfl
  | shrinkToFit =>
    have r := C18_shrink_to_fit v hv
    refine stepRel_ok _ _ _ _ r.1 r.2.1 ?_
    cases v <;> rfl
  | splitOff i =>
    obtain ⟨lo, hi', e, hlo, _, hab, tlo, _⟩ := C08_split_off v hv i (hl ▸ hop)
    simp only [Api.step, e, Res.map, specStep]
    exact ⟨hlo, congrArg Prod.fst hab, rfl, tlo⟩
  | copyRange s e =>
    have r := C08_copy_range v hv s e hop.1 (hl ▸ hop.2)
    exact stepRel_ok _ _ _ _ r.1 r.2.1 r.2.2


/-- valid histories: every operation's arguments are valid for the (abstract) state it is applied to -/
def OpsOk (cap : Option Nat) : BV → List Op → Prop
  | _, [] => True
  | a, op :: ops => op.Ok a ∧ match specStep cap a op with
    | .ok (a', _) => OpsOk cap a' ops
    | _ => True

def RunRel (v : Vec) (r : Res (Vec × List StepOut)) (s : Res (BV × List StepOut)) : Prop :=
  match r, s with
  | .ok (v', os), .ok (a', os') => v'.Inv ∧ v'.abs = a' ∧ os = os' ∧ v'.ty = v.ty
  | .panic, .panic => True
  | _, _ => False

theorem capOpt_of_ty {v v' : Vec} (h : v'.ty = v.ty) : v'.capOpt = v.capOpt := by
  cases v with
  | f w s => cases v' with
    | f w' s' => simp only [Vec.ty, Ty.f.injEq] at h; obtain ⟨rfl, e⟩ := h; simp only [Vec.capOpt, e]
    | d _ => cases h
    | a _ => cases h
  | d s => cases v' with
    | f _ _ => cases h
    | d _ => rfl
    | a _ => cases h
  | a c => cases v' with
    | f _ _ => cases h
    | d _ => cases h
    | a _ => rfl

/-- ANY HISTORY: from an `Inv` state, a history of valid operations behaves on the model exactly as on the
abstraction: same by-products step by step, same final (length, bits), same panics; `Inv` holds throughout -/
theorem C03_history (ops : List Op) : ∀ (v : Vec), v.Inv → OpsOk v.capOpt v.abs ops →
    RunRel v (Api.run v ops) (specRun v.capOpt v.abs ops) := by
  induction ops with
  | nil => intro v hv _; exact ⟨hv, rfl, rfl, rfl⟩
  | cons op ops ih =>
    intro v hv hok
    have hs := C03_step v hv op hok.1
    have hrest := hok.2
    simp only [Api.run, specRun]
    unfold StepRel at hs
    cases h1 : Api.step v op with
    | ok p1 =>
      obtain ⟨v', o⟩ := p1
      cases h2 : specStep v.capOpt v.abs op with
      | ok p2 =>
        obtain ⟨a', o'⟩ := p2
        rw [h1, h2] at hs
        obtain ⟨hv', ha', ho, ht⟩ := hs
        rw [h2] at hrest
        have hc := capOpt_of_ty ht
        have := ih v' hv' (by rw [hc, ha']; exact hrest)
        rw [hc, ha'] at this
        unfold RunRel at this ⊢
        dsimp only
        cases h3 : Api.run v' ops with
        | ok p3 =>
          cases h4 : specRun v.capOpt a' ops with
          | ok p4 =>
            rw [h3, h4] at this
            obtain ⟨v'', os⟩ := p3
            obtain ⟨a'', os'⟩ := p4
            obtain ⟨i1, i2, i3, i4⟩ := this
            exact ⟨i1, i2, by rw [ho, i3], i4.trans ht⟩
          | err e => rw [h3, h4] at this; exact this.elim
          | panic => rw [h3, h4] at this; exact this.elim
        | err e =>
          cases h4 : specRun v.capOpt a' ops <;> rw [h3, h4] at this <;> exact this.elim
        | panic =>
          cases h4 : specRun v.capOpt a' ops with
          | ok p4 => rw [h3, h4] at this; exact this.elim
          | err e => rw [h3, h4] at this; exact this.elim
          | panic => trivial
      | err e => rw [h1, h2] at hs; exact hs.elim
      | panic => rw [h1, h2] at hs; exact hs.elim
    | err e =>
      cases h2 : specStep v.capOpt v.abs op <;> rw [h1, h2] at hs <;> exact hs.elim
    | panic =>
      cases h2 : specStep v.capOpt v.abs op with
      | ok p2 => rw [h1, h2] at hs; exact hs.elim
      | err e => rw [h1, h2] at hs; exact hs.elim
      | panic => trivial

/-- word width that the hash stream depends on (the storage word type is part of the vector's type) -/
def Vec.hashW : Vec → Nat
  | .f w _ => w
  | _ => 64

/-- argument preconditions of observers -/
def Obs.Ok (a : BV) : Obs → Prop
  | .toUInt W => WOk W
  | .digits k => k = 'b' ∨ k = 'o' ∨ k = 'x' ∨ k = 'X'
  | .eq x => x.Inv
  | .cmp x => x.Inv
  | _ => True

/-- EVERY OBSERVER is a function of the abstraction (and of the vector's type) -/
theorem C03_observers (v : Vec) (hv : v.Inv) (o : Obs) (ho : o.Ok v.abs) :
    Api.observe v o = specObserve v.hashW v.abs o := by
  cases o with
  | len => simp only [Api.observe, specObserve, Vec.abs_len]
  | get i => simp only [Api.observe, specObserve, Api.get_eq_bit v hv.wpos]
  | first => simp only [Api.observe, specObserve, (C08_first_last v hv).1]
  | last => simp only [Api.observe, specObserve, (C08_first_last v hv).2.1]
  | counts =>
    have r := C16_counts v hv
    simp only [Api.observe, specObserve, r.1, r.2.1, r.2.2.1, r.2.2.2.1, r.2.2.2.2.1, r.2.2.2.2.2]
  | toVec big => simp only [Api.observe, specObserve, (C13_to_vec v hv big).1]
  | toUInt W => simp only [Api.observe, specObserve, C11_to_uint v hv W ho]
  | hash =>
    simp only [Api.observe, specObserve]
    rw [C10_stream_is_spec v hv]
    cases v <;> rfl
  | digits k =>
    have r := C14_digits v hv
    simp only [Api.observe, specObserve]
    rcases ho with rfl | rfl | rfl | rfl
    · rw [r.1]; rfl
    · rw [r.2.1]; rfl
    · rw [r.2.2.1]; rfl
    · rw [r.2.2.2]; rfl
  | iter rev calls => simp only [Api.observe, specObserve, C17_refines v hv.wpos rev calls]
  | eq x => simp only [Api.observe, specObserve, (C09_numeric v x hv ho).1]
  | cmp x => simp only [Api.observe, specObserve, (C09_numeric v x hv ho).2]

/-- THE PROPERTY: a vector that came out of any history (`s`, any `Inv` state — spare capacity, either storage mode)
and a fresh vector of the same type with the same length and bits (`t`) give the same answer to every observer, and
remain indistinguishable after every further history: same by-products, same panics, same final length and bits. -/
theorem C03_fresh (s t : Vec) (hs : s.Inv) (ht : t.Inv) (hty : s.capOpt = t.capOpt ∧ s.hashW = t.hashW)
    (hab : s.abs = t.abs) :
    (∀ o : Obs, o.Ok s.abs → Api.observe s o = Api.observe t o) ∧
    (∀ ops : List Op, OpsOk s.capOpt s.abs ops →
      match Api.run s ops, Api.run t ops with
      | .ok (s', os), .ok (t', ot) => s'.Inv ∧ t'.Inv ∧ s'.abs = t'.abs ∧ os = ot
      | .panic, .panic => True
      | _, _ => False) := by
  constructor
  · intro o ho
    rw [C03_observers s hs o ho, C03_observers t ht o (hab ▸ ho), hty.2, hab]
  · intro ops hok
    have a := C03_history ops s hs hok
    have b := C03_history ops t ht (by rw [← hty.1, ← hab]; exact hok)
    rw [← hty.1, ← hab] at b
    unfold RunRel at a b
    cases h1 : Api.run s ops with
    | ok p1 =>
      cases h3 : specRun s.capOpt s.abs ops with
      | ok p3 =>
        rw [h1, h3] at a
        cases h2 : Api.run t ops with
        | ok p2 =>
          rw [h2, h3] at b
          obtain ⟨s', os⟩ := p1
          obtain ⟨t', ot⟩ := p2
          obtain ⟨a'', os''⟩ := p3
          exact ⟨a.1, b.1, a.2.1.trans b.2.1.symm, a.2.2.1.trans b.2.2.1.symm⟩
        | err e => rw [h2, h3] at b; exact b.elim
        | panic => rw [h2, h3] at b; exact b.elim
      | err e => rw [h1, h3] at a; exact a.elim
      | panic => rw [h1, h3] at a; exact a.elim
    | err e =>
      cases h3 : specRun s.capOpt s.abs ops <;> rw [h1, h3] at a <;> exact a.elim
    | panic =>
      cases h3 : specRun s.capOpt s.abs ops with
      | ok p3 => rw [h1, h3] at a; exact a.elim
      | err e => rw [h1, h3] at a; exact a.elim
      | panic =>
        cases h2 : Api.run t ops with
        | ok p2 => rw [h2, h3] at b; exact b.elim
        | err e => rw [h2, h3] at b; exact b.elim
        | panic => trivial

/-- non-vacuity: a 70-bit heap vector with two spare words and the same bits inline… are different types; but a `Bv`
holding 5 bits inline and the same 5 bits on the heap with spare capacity satisfy the hypotheses of `C03_fresh` -/
example :
    (Vec.a (.fixed ⟨#[0x15#64, 0#64], 5⟩)).Inv ∧ (Vec.a (.dynamic ⟨#[0x15#64, 0#64, 0#64], 5⟩)).Inv ∧
    (Vec.a (.fixed ⟨#[0x15#64, 0#64], 5⟩)).abs = (Vec.a (.dynamic ⟨#[0x15#64, 0#64, 0#64], 5⟩)).abs :=
  ⟨⟨(Raw.invB_iff _ (by decide)).mp (by decide), rfl⟩, (Raw.invB_iff _ (by decide)).mp (by decide), by decide⟩

end Bva
