import BvaProps.C01
import BvaProps.C02
import BvaProps.C04
import BvaProps.C05
/-!
# C20 — all operator forms agree and borrowed operands are never modified

In the model every syntactic form of `+ - * / % & | ^` (owned/borrowed operands, compound assignment with an
owned or borrowed right-hand side) reaches ONE function per operator and implementation — that is what the
crate's delegation impls do, and the correspondence check executes all six forms side by side on the real code
(`h_forms`) to confirm that the delegation table is right.  Three operators have a *separately written* body for
a borrowed `Bvd` left operand (`!&v`, `&v << k`, `&v >> k`); for those the agreement of forms is a theorem here.
That a `&T` operand is not modified is guaranteed by the borrow checker unless `unsafe` code misbehaves (the crate's
only `unsafe` reads through `&self`); the model functions are pure, and the harness re-reads every operand after
every call — that clause is correspondence-tested, not proved.
-/
namespace Bva

/-- `!v` and `!&v` agree (same length, same bits), for every implementation -/
theorem C20_not_forms (v : Vec) (hv : v.Inv) :
    (Api.not v true).abs = (Api.not v false).abs ∧ (Api.not v true).Inv ∧ (Api.not v false).Inv := by
  have a := C04_not v hv true
  have b := C04_not v hv false
  exact ⟨a.2.trans b.2.symm, a.1, b.1⟩

/-- `v << k`, `&v << k`, `v <<= k` (and `>>`) agree for every amount of every integer type -/
theorem C20_shift_forms (v : Vec) (hv : v.Inv) (k : Nat) (hl : v.len < 2 ^ 64) :
    (Api.shl v k true).abs = (Api.shl v k false).abs ∧ (Api.shr v k true).abs = (Api.shr v k false).abs := by
  exact ⟨(C05_shl v hv k true hl).2.trans (C05_shl v hv k false hl).2.symm,
         (C05_shr v hv k true hl).2.trans (C05_shr v hv k false hl).2.symm⟩

/-- the form taking a native integer `x` directly agrees with the form taking any vector built from `x`
(a vector of any implementation whose value is `x`), for every operator -/
theorem C20_uint_vs_vector (v y : Vec) (W x : Nat) (hv : v.Inv) (hy : y.Inv) (hW : WOk W) (h128 : W ≤ 128)
    (hx : x < 2 ^ W) (hyx : y.abs = ⟨W, x⟩) (sub : Bool) (op : BitOp) :
    (Api.addsub sub v (.uint W x)).abs = (Api.addsub sub v (.vec y)).abs ∧
    (Api.mul v (.uint W x)).abs = (Api.mul v (.vec y)).abs ∧
    (Api.bitop op v (.uint W x)).abs = (Api.bitop op v (.vec y)).abs ∧
    (x ≠ 0 → ∃ q r q' r', Api.divRemOp v (.uint W x) = .ok (q, r) ∧ Api.divRemOp v (.vec y) = .ok (q', r') ∧
        q.abs = q'.abs ∧ r.abs = r'.abs) ∧
    (x = 0 → Api.divRemOp v (.uint W x) = .panic ∧ Api.divRemOp v (.vec y) = .panic) := by
  have hu : (Api.Rhs.uint W x).Inv := ⟨hW, h128, hx⟩
  have hvy : (Api.Rhs.vec y).Inv := hy
  have es : (Api.Rhs.uint W x).spec = (Api.Rhs.vec y).spec := hyx.symm
  refine ⟨(C01_bits_only sub v v _ _ hv hv hu hvy rfl es).1, (C01_bits_only sub v v _ _ hv hv hu hvy rfl es).2,
    C04_bits_only op v v _ _ hv hv hu hvy rfl es, fun hx0 => ?_, fun hx0 => ?_⟩
  · have a := (C02_operators v (.uint W x) hv hu).2 (by simpa [Api.Rhs.spec] using hx0)
    have b := (C02_operators v (.vec y) hv hvy).2 (by rw [← es]; simpa [Api.Rhs.spec] using hx0)
    obtain ⟨q, r, e, _, _, aq, ar, _, _⟩ := a
    obtain ⟨q', r', e', _, _, aq', ar', _, _⟩ := b
    exact ⟨q, r, q', r', e, e', by rw [aq, aq', es], by rw [ar, ar', es]⟩
  · exact ⟨(C02_operators v (.uint W x) hv hu).1 (by simpa [Api.Rhs.spec] using hx0),
      (C02_operators v (.vec y) hv hvy).1 (by rw [← es]; simpa [Api.Rhs.spec] using hx0)⟩

/-- results of the binary operators depend only on the abstractions of the operands, hence all forms — which can
differ only in which storage they reuse — produce the identical result (same length, same bits) -/
theorem C20_results_by_value_only (v v' : Vec) (x x' : Api.Rhs) (hv : v.Inv) (hv' : v'.Inv) (hx : x.Inv) (hx' : x'.Inv)
    (e1 : v.abs = v'.abs) (e2 : x.spec = x'.spec) (sub : Bool) (op : BitOp) :
    (Api.addsub sub v x).abs = (Api.addsub sub v' x').abs ∧ (Api.mul v x).abs = (Api.mul v' x').abs ∧
    (Api.bitop op v x).abs = (Api.bitop op v' x').abs :=
  ⟨(C01_bits_only sub v v' x x' hv hv' hx hx' e1 e2).1, (C01_bits_only sub v v' x x' hv hv' hx hx' e1 e2).2,
   C04_bits_only op v v' x x' hv hv' hx hx' e1 e2⟩

end Bva
