import BvaProofs.Refine
/-!
# C09 — equality and ordering are numeric comparison of unsigned values across all types

`Api.eq l r` / `Api.cmp l r` select, from the implementations of the two operands, the Rust impl that
`l == r` / `l.partial_cmp(&r)` resolves to (seven distinct bodies plus the reversing delegations and the
`Bv` dispatch matrices).  `<`, `<=`, `>`, `>=`, `!=` and `Ord::cmp` are std's defaults on top of these.
-/
namespace Bva

/-- the words fetched from an operand through `get_int` at any compatible width add up to its value -/
theorem AnyBv.valF_getInt (x : AnyBv) (hx : x.Inv) {wJ : Nat} (hJ : WOk wJ) (n : Nat) (hn : x.len ≤ wJ * n) :
    valF (fun i => (x.getInt wJ i).getD 0#wJ) n = x.abs.val := by
  apply valF_eq_of_bits hJ.pos
  · have := hx.wf
    unfold BV.WF at this
    rw [AnyBv.abs_len] at this
    exact Nat.lt_of_lt_of_le this (Nat.pow_le_pow_right (by decide) hn)
  · intro i j _ hj
    exact AnyBv.getInt_bits x hx hJ i j hj

theorem decide_eq_comm_nat (a b : Nat) : decide (a = b) = decide (b = a) := by
  rw [decide_eq_decide]; exact eq_comm

theorem intLen_mul_ge (len wJ : Nat) (h : 0 < wJ) : len ≤ wJ * ((len + wJ - 1) / wJ) := by
  have := Nat.div_add_mod (len + wJ - 1) wJ
  have := Nat.mod_lt (len + wJ - 1) h
  omega

theorem le_mul_of_le_max_left (len wJ a b : Nat) (h : len ≤ wJ * a) : len ≤ wJ * max a b :=
  Nat.le_trans h (Nat.mul_le_mul_left wJ (Nat.le_max_left a b))
theorem le_mul_of_le_max_right (len wJ a b : Nat) (h : len ≤ wJ * b) : len ≤ wJ * max a b :=
  Nat.le_trans h (Nat.mul_le_mul_left wJ (Nat.le_max_right a b))

theorem Bvf.eqcmp_num {w w1 : Nat} (a : Raw w) (b : Raw w1) (hw : WOk w) (hw1 : WOk w1) (ha : a.Inv) (hb : b.Inv) :
    Bvf.eqBvf a b = decide (a.abs.val = b.abs.val) ∧ Bvf.cmpBvf a b = compare a.abs.val b.abs.val := by
  have hA := AnyBv.valF_getInt (.f w a) ⟨hw, ha⟩ hw1 (max (a.intLen w1) (b.intLen w1))
    (le_mul_of_le_max_left _ _ _ _ (intLen_mul_ge a.length w1 hw1.pos))
  have hB := AnyBv.valF_getInt (.f w1 b) ⟨hw1, hb⟩ hw1 (max (a.intLen w1) (b.intLen w1))
    (le_mul_of_le_max_right _ _ _ _ (intLen_mul_ge b.length w1 hw1.pos))
  exact ⟨Bvf.eqBvf_eq_of_fetch a b hA hB, Bvf.cmpBvf_eq_of_fetch a b hA hB⟩

theorem Bvd.eqcmp_bvf_num {w1 : Nat} (a : Raw 64) (b : Raw w1) (hw1 : WOk w1) (ha : a.Inv) (hb : b.Inv) :
    Bvd.eqBvf a b = decide (a.abs.val = b.abs.val) ∧ Bvd.cmpBvf a b = compare a.abs.val b.abs.val := by
  have hB := AnyBv.valF_getInt (.f w1 b) ⟨hw1, hb⟩ wok64 (max a.length (b.intLen 64))
    (le_mul_of_le_max_right _ _ _ _ (intLen_mul_ge b.length 64 (by decide)))
  exact ⟨Bvd.eqBvf_eq_of_fetch a b ha hB, Bvd.cmpBvf_eq_of_fetch a b ha hB⟩

theorem Bv.eqcmp_any_num (a : Bv) (x : AnyBv) (ha : (Vec.a a).Inv) (hx : x.Inv) :
    a.eqAny x = decide (a.abs.val = x.abs.val) ∧ a.cmpAny x = compare a.abs.val x.abs.val := by
  cases a with
  | fixed s =>
    cases x with
    | f w b => exact Bvf.eqcmp_num s b wok64 hx.1 ha.1 hx.2
    | d b =>
      have r := Bvd.eqcmp_bvf_num b s wok64 hx ha.1
      refine ⟨?_, ?_⟩
      · show Bvd.eqBvf b s = decide (s.abs.val = b.abs.val)
        rw [r.1]; exact decide_eq_comm_nat _ _
      · show (Bvd.cmpBvf b s).swap = compare s.abs.val b.abs.val
        rw [r.2, natCmp_swap]
  | dynamic s =>
    cases x with
    | f w b => exact Bvd.eqcmp_bvf_num s b hx.1 ha hx.2
    | d b => exact ⟨Bvd.eqBvd_eq s b ha hx, Bvd.cmpBvd_eq s b ha hx⟩

/-- `==` and `partial_cmp` between any two vectors decide exactly the numeric comparison of their
unsigned values (the shorter operand being implicitly zero-extended: only `val` matters). -/
theorem C09_numeric (l r : Vec) (hl : l.Inv) (hr : r.Inv) :
    Api.eq l r = decide (l.abs.val = r.abs.val) ∧ Api.cmp l r = compare l.abs.val r.abs.val := by
  cases l with
  | f w a =>
    cases r with
    | f w1 b => exact Bvf.eqcmp_num a b hl.1 hr.1 hl.2 hr.2
    | d b =>
      have q := Bvd.eqcmp_bvf_num b a hl.1 hr hl.2
      refine ⟨?_, ?_⟩
      · show Bvd.eqBvf b a = decide (a.abs.val = b.abs.val)
        rw [q.1]; exact decide_eq_comm_nat _ _
      · show (Bvd.cmpBvf b a).swap = compare a.abs.val b.abs.val
        rw [q.2, natCmp_swap]
    | a b =>
      have q := Bv.eqcmp_any_num b (.f w a) hr ⟨hl.1, hl.2⟩
      refine ⟨?_, ?_⟩
      · show b.eqAny (.f w a) = decide (a.abs.val = b.abs.val)
        rw [q.1]; exact decide_eq_comm_nat _ _
      · show (b.cmpAny (.f w a)).swap = compare a.abs.val b.abs.val
        rw [q.2, natCmp_swap]; rfl
  | d a =>
    cases r with
    | f w1 b => exact Bvd.eqcmp_bvf_num a b hr.1 hl hr.2
    | d b => exact ⟨Bvd.eqBvd_eq a b hl hr, Bvd.cmpBvd_eq a b hl hr⟩
    | a b =>
      have q := Bv.eqcmp_any_num b (.d a) hr hl
      refine ⟨?_, ?_⟩
      · show b.eqAny (.d a) = decide (a.abs.val = b.abs.val)
        rw [q.1]; exact decide_eq_comm_nat _ _
      · show (b.cmpAny (.d a)).swap = compare a.abs.val b.abs.val
        rw [q.2, natCmp_swap]; rfl
  | a a =>
    have q := Bv.eqcmp_any_num a r.any hl hr.any
    rw [Vec.any_abs] at q
    exact q

/-- consequences: reflexive, symmetric across operand order and type, transitive, total, and
`PartialEq` agrees with `PartialOrd` (`==` ⇔ `cmp = Equal`). -/
theorem C09_total_order (a b c : Vec) (ha : a.Inv) (hb : b.Inv) (hc : c.Inv) :
    Api.eq a a = true ∧ Api.cmp a a = .eq ∧
    Api.eq a b = Api.eq b a ∧ (Api.cmp a b).swap = Api.cmp b a ∧
    (Api.eq a b = true ↔ Api.cmp a b = .eq) ∧
    (Api.cmp a b ≠ .gt → Api.cmp b c ≠ .gt → Api.cmp a c ≠ .gt) ∧
    (Api.eq a b = true → Api.eq b c = true → Api.eq a c = true) ∧
    (Api.cmp a b ≠ .gt ∨ Api.cmp b a ≠ .gt) := by
  rw [(C09_numeric a a ha ha).1, (C09_numeric a a ha ha).2, (C09_numeric a b ha hb).1, (C09_numeric a b ha hb).2,
    (C09_numeric b a hb ha).1, (C09_numeric b a hb ha).2, (C09_numeric b c hb hc).1, (C09_numeric b c hb hc).2,
    (C09_numeric a c ha hc).1, (C09_numeric a c ha hc).2]
  refine ⟨by simp, natCmp_refl _, ?_, natCmp_swap _ _, ?_, natCmp_le_trans, ?_, natCmp_le_total _ _⟩
  · exact decide_eq_comm_nat _ _
  · rw [decide_eq_true_iff, natCmp_eq_iff]
  · simp only [decide_eq_true_iff]; intro h1 h2; exact h1.trans h2

end Bva
