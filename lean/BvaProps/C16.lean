import BvaProofs.Refine
/-!
# C16 — bit-count queries report exact run lengths for every vector
-/
namespace Bva

theorem Vec.raw_inv_of_inv {v : Vec} (hv : v.Inv) :
    v.withRaw (fun {w} (r : Raw w) => 0 < w ∧ r.Inv) := by
  cases v with
  | f w s => exact ⟨hv.1.pos, hv.2⟩
  | d s => exact ⟨by decide, hv⟩
  | a b => cases b with
    | fixed s => exact ⟨by decide, hv.1⟩
    | dynamic s => exact ⟨by decide, hv⟩

/-- all six queries of the model equal the L0 definitions on the abstraction (L1 refines L0) -/
theorem C16_counts (v : Vec) (hv : v.Inv) :
    Api.leadingZeros v = v.abs.leadingZeros ∧ Api.leadingOnes v = v.abs.leadingOnes ∧
    Api.trailingZeros v = v.abs.trailingZeros ∧ Api.trailingOnes v = v.abs.trailingOnes ∧
    Api.sigBits v = v.abs.sig ∧ Api.isZero v = v.abs.isZero := by
  cases v with
  | f w s =>
    have hw := hv.1.pos
    exact ⟨Raw.leadingZeros_eq s hw hv.2, Raw.leadingOnes_eq s hw hv.2, Raw.trailingZeros_eq s hw hv.2,
      Raw.trailingOnes_eq s hw hv.2, Raw.sigBits_eq s hw hv.2, Bvf.isZero_eq s hw hv.2⟩
  | d s =>
    have hw : 0 < 64 := by decide
    exact ⟨Raw.leadingZeros_eq s hw hv, Raw.leadingOnes_eq s hw hv, Raw.trailingZeros_eq s hw hv,
      Raw.trailingOnes_eq s hw hv, Raw.sigBits_eq s hw hv, Bvd.isZero_eq s hv⟩
  | a b =>
    have hw : 0 < 64 := by decide
    cases b with
    | fixed s =>
      exact ⟨Raw.leadingZeros_eq s hw hv.1, Raw.leadingOnes_eq s hw hv.1, Raw.trailingZeros_eq s hw hv.1,
        Raw.trailingOnes_eq s hw hv.1, Raw.sigBits_eq s hw hv.1, Bvf.isZero_eq s hw hv.1⟩
    | dynamic s =>
      exact ⟨Raw.leadingZeros_eq s hw hv, Raw.leadingOnes_eq s hw hv, Raw.trailingZeros_eq s hw hv,
        Raw.trailingOnes_eq s hw hv, Raw.sigBits_eq s hw hv, Bvd.isZero_eq s hv⟩

/-- what the L0 definitions mean in terms of bits (for a well-formed vector): the counts are exact run
lengths at the two ends, never exceed `len`, `leading_zeros + significant_bits = len`, and
`is_zero ⇔ significant_bits = 0`. -/
theorem C16_meaning (a : BV) (ha : a.WF) :
    a.leadingZeros + a.sig = a.len ∧ a.leadingZeros ≤ a.len ∧ a.trailingZeros ≤ a.len ∧
    a.leadingOnes ≤ a.len ∧ a.trailingOnes ≤ a.len ∧
    (a.isZero = true ↔ a.sig = 0) ∧
    -- leading zeros: everything from index len - lz up is 0, and the bit just below is 1 (if any)
    ((∀ i, a.len - a.leadingZeros ≤ i → a.bit i = false) ∧
      (a.leadingZeros < a.len → a.bit (a.len - a.leadingZeros - 1) = true)) ∧
    -- trailing zeros
    ((∀ i, i < a.trailingZeros → a.bit i = false) ∧ (a.trailingZeros < a.len → a.bit a.trailingZeros = true)) ∧
    -- leading ones
    ((∀ i, a.len - a.leadingOnes ≤ i → i < a.len → a.bit i = true) ∧
      (a.leadingOnes < a.len → a.bit (a.len - a.leadingOnes - 1) = false)) ∧
    -- trailing ones
    ((∀ i, i < a.trailingOnes → a.bit i = true) ∧ (a.trailingOnes < a.len → a.bit a.trailingOnes = false)) :=
  ⟨BV.leadingZeros_add_sig a ha, BV.leadingZeros_le_len a, BV.trailingZeros_le_len a,
   BV.leadingOnes_le_len a, BV.trailingOnes_le_len a, BV.isZero_iff_sig a,
   BV.bit_of_leadingZeros a ha,
   ⟨fun i hi => BV.bit_of_lt_trailingZeros a i hi, BV.bit_trailingZeros a⟩,
   BV.bit_of_leadingOnes a ha, BV.bit_of_trailingOnes a ha⟩

/-- a uniform zero vector of length `n` has `n` leading and `n` trailing zeros (0 for the empty vector) -/
theorem C16_uniform (n : Nat) : (BV.zeros n).leadingZeros = n ∧ (BV.zeros n).trailingZeros = n :=
  ⟨BV.zeros_leadingZeros n, BV.zeros_trailingZeros n⟩

example : (BV.mk 7 0b0010100).leadingZeros = 2 ∧ (BV.mk 7 0b0010100).trailingZeros = 2 ∧ (BV.mk 7 0b0010100).sig = 5 := by decide

end Bva
