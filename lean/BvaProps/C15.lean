import BvaProofs.Refine
import BvaProofs.Fmt
import BvaProps.C14
/-!
# C15 — parsing accepts exactly binary/hex digit strings and inverts formatting

A string is a `List Char`.  `Parse.firstBad dig cs 0` is the index of the first character that is not a digit
(`none` if all are); `Parse.digitsVal base dig cs` is the positional value, first character most significant.
`Bvf.binVal` accepts exactly `'0'`,`'1'`; `Bvf.hexVal` is `char::to_digit(16)` (exactly `0-9a-fA-F`, `prs_hexVal_eq`).
-/
namespace Bva
open Parse

/-- `from_binary` for every implementation.  Fixed: a string longer than the capacity gives `NotEnoughCapacity`;
one that fits gives `InvalidFormat(i)` at the first offending character, or the vector of length `|s|`. The
dynamic and auto types (which pick inline/heap from the UTF-8 byte length) never report a capacity error. -/
theorem C15_from_binary (t : Ty) (cs : List Char) (ht : match t with | .f w _ => WOk w | _ => True) :
    (match t with | .f w N => N * w < cs.length → Api.fromBinary t cs = .err "NotEnoughCapacity" | _ => True) ∧
    ((match t with | .f w N => cs.length ≤ N * w | _ => True) →
      (∀ i, firstBad Bvf.binVal cs 0 = some i → Api.fromBinary t cs = .err s!"InvalidFormat({i})") ∧
      (firstBad Bvf.binVal cs 0 = none →
        ∃ r, Api.fromBinary t cs = .ok r ∧ r.Inv ∧ r.abs = ⟨cs.length, digitsVal 2 Bvf.binVal cs⟩ ∧ r.ty = t)) := by
  cases t with
  | f w N =>
    have s := Bvf.fromBinary_spec (w := w) ht.pos N cs
    refine ⟨fun h => by simp only [Api.fromBinary, s.1 h, liftF], fun hc => ⟨fun i hi => ?_, fun hn => ?_⟩⟩
    · simp only [Api.fromBinary, s.2.1 i hc hi, liftF]
    · obtain ⟨r, e, hi, ha, hs⟩ := s.2.2 hc hn
      exact ⟨.f w r, by simp only [Api.fromBinary, e, liftF], ⟨ht, hi⟩, ha, by simp only [Vec.ty, hs]⟩
  | d =>
    have s := Bvd.fromBinary_spec cs
    refine ⟨trivial, fun _ => ⟨fun i hi => ?_, fun hn => ?_⟩⟩
    · simp only [Api.fromBinary, s.1 i hi, Res.map]
    · obtain ⟨r, e, hi, ha, _⟩ := s.2 hn
      exact ⟨.d r, by simp only [Api.fromBinary, e, Res.map], hi, ha, rfl⟩
  | a =>
    have s := Bv.fromBinary_refines cs
    refine ⟨trivial, fun _ => ⟨fun i hi => ?_, fun hn => ?_⟩⟩
    · simp only [Api.fromBinary, s.2.1 i hi, liftA]
    · obtain ⟨r, e, hi, ha, _⟩ := s.2.2 hn
      exact ⟨.a r, by simp only [Api.fromBinary, e, liftA], Vec.Inv.of_bvinv hi, ha, rfl⟩

theorem C15_from_hex (t : Ty) (cs : List Char) (ht : match t with | .f w _ => WOk w | _ => True) :
    (match t with | .f w N => N * w < cs.length * 4 → Api.fromHex t cs = .err "NotEnoughCapacity" | _ => True) ∧
    ((match t with | .f w N => cs.length * 4 ≤ N * w | _ => True) →
      (∀ i, firstBad Bvf.hexVal cs 0 = some i → Api.fromHex t cs = .err s!"InvalidFormat({i})") ∧
      (firstBad Bvf.hexVal cs 0 = none →
        ∃ r, Api.fromHex t cs = .ok r ∧ r.Inv ∧ r.abs = ⟨cs.length * 4, digitsVal 16 Bvf.hexVal cs⟩ ∧ r.ty = t)) := by
  cases t with
  | f w N =>
    have h4 : 4 ∣ w := by obtain ⟨k, rfl⟩ := ht; exact ⟨2 * 2 ^ k, by omega⟩
    have s := Bvf.fromHex_spec (w := w) ht.pos h4 N cs
    refine ⟨fun h => by simp only [Api.fromHex, s.1 h, liftF], fun hc => ⟨fun i hi => ?_, fun hn => ?_⟩⟩
    · simp only [Api.fromHex, s.2.1 i hc hi, liftF]
    · obtain ⟨r, e, hi, ha, hs⟩ := s.2.2 hc hn
      exact ⟨.f w r, by simp only [Api.fromHex, e, liftF], ⟨ht, hi⟩, ha, by simp only [Vec.ty, hs]⟩
  | d =>
    have s := Bvd.fromHex_spec cs
    refine ⟨trivial, fun _ => ⟨fun i hi => ?_, fun hn => ?_⟩⟩
    · simp only [Api.fromHex, s.1 i hi, Res.map]
    · obtain ⟨r, e, hi, ha, _⟩ := s.2 hn
      exact ⟨.d r, by simp only [Api.fromHex, e, Res.map], hi, ha, rfl⟩
  | a =>
    have s := Bv.fromHex_refines cs
    refine ⟨trivial, fun _ => ⟨fun i hi => ?_, fun hn => ?_⟩⟩
    · simp only [Api.fromHex, s.2.1 i hi, liftA]
    · obtain ⟨r, e, hi, ha, _⟩ := s.2.2 hn
      exact ⟨.a r, by simp only [Api.fromHex, e, liftA], Vec.Inv.of_bvinv hi, ha, rfl⟩

/-- which strings are accepted: exactly those all of whose characters are digits; `firstBad` returns the index of the
first offending character (everything before it is a digit, the character at it is not) -/
theorem C15_accepts_exactly (dig : Char → Option Nat) (cs : List Char) :
    (firstBad dig cs 0 = none ↔ ∀ c, c ∈ cs → (dig c).isSome = true) ∧
    (∀ k, firstBad dig cs 0 = some k →
      k < cs.length ∧ (cs[k]?.bind dig) = none ∧ ∀ t, t < k → ∃ d, cs[t]?.bind dig = some d) := by
  refine ⟨prs_firstBad_none_iff dig cs 0, fun k hk => ?_⟩
  have := prs_firstBad_some dig cs 0 k hk
  simpa using this.2

/-- the hex digit test is exactly ASCII `0-9a-fA-F` -/
theorem C15_hex_digits (c : Char) :
    Bvf.hexVal c =
      if '0' ≤ c ∧ c ≤ '9' then some (c.toNat - '0'.toNat)
      else if 'a' ≤ c ∧ c ≤ 'f' then some (c.toNat - 'a'.toNat + 10)
      else if 'A' ≤ c ∧ c ≤ 'F' then some (c.toNat - 'A'.toNat + 10)
      else none := prs_hexVal_eq c

theorem hexVal_digitChar (upper : Bool) (d : Nat) (hd : d < 16) : Bvf.hexVal (BV.digitChar upper d) = some d := by
  have h : ∀ (u : Bool) (d : Fin 16), Bvf.hexVal (BV.digitChar u d.val) = some d.val := by decide
  exact h upper ⟨d, hd⟩
theorem binVal_digitChar (d : Nat) (hd : d < 2) : Bvf.binVal (BV.digitChar false d) = some d := by
  have h : ∀ (d : Fin 2), Bvf.binVal (BV.digitChar false d.val) = some d.val := by decide
  exact h ⟨d, hd⟩

theorem digitsVal_numeral (base : Nat) (upper : Bool) (dig : Char → Option Nat) (hb : 2 ≤ base) (hb' : base ≤ 16)
    (hdig : ∀ d, d < base → dig (BV.digitChar upper d) = some d) (v : Nat) :
    firstBad dig (BV.numeral base upper v) 0 = none ∧ digitsVal base dig (BV.numeral base upper v) = v := by
  have hv := BV.numeral_valid base upper hb v
  constructor
  · rw [prs_firstBad_none_iff]
    intro c hc
    obtain ⟨d, hd, rfl⟩ := hv c hc
    rw [hdig d hd]; rfl
  · have key : ∀ (l : List Char) (acc : Nat), (∀ c ∈ l, ∃ d, d < base ∧ c = BV.digitChar upper d) →
        l.foldl (fun acc c => acc * base + (dig c).getD 0) acc = l.foldl (fun acc c => acc * base + fmt_digitVal c) acc := by
      intro l
      induction l with
      | nil => intro _ _; rfl
      | cons c l ih =>
        intro acc h
        simp only [List.foldl_cons]
        obtain ⟨d, hd, rfl⟩ := h _ (List.mem_cons_self)
        rw [hdig d hd, fmt_digitVal_digitChar upper d (by omega)]
        exact ih _ (fun c hc => h c (List.mem_cons_of_mem _ hc))
    have := BV.numeral_digitsVal base upper hb hb' v
    unfold fmt_digitsVal at this
    unfold digitsVal
    rw [key _ _ hv]; exact this

/-- parsing the `{:b}`, `{:x}` or `{:X}` output of any vector yields a vector equal in value to it -/
theorem C15_roundtrip (v : Vec) (hv : v.Inv) :
    (∃ r, Api.fromBinary .d (Api.digits v 'b') = .ok r ∧ r.Inv ∧ r.abs.val = v.abs.val) ∧
    (∃ r, Api.fromHex .d (Api.digits v 'x') = .ok r ∧ r.Inv ∧ r.abs.val = v.abs.val) ∧
    (∃ r, Api.fromHex .a (Api.digits v 'X') = .ok r ∧ r.Inv ∧ r.abs.val = v.abs.val) := by
  have hd0 := C14_digits v hv
  have hd : Api.digits v 'b' = BV.numeral 2 false v.abs.val ∧ Api.digits v 'x' = BV.numeral 16 false v.abs.val ∧ Api.digits v 'X' = BV.numeral 16 true v.abs.val := ⟨hd0.1, hd0.2.2.1, hd0.2.2.2⟩
  have nb := digitsVal_numeral 2 false Bvf.binVal (by decide) (by decide) (fun d hd => binVal_digitChar d hd) v.abs.val
  have nx := digitsVal_numeral 16 false Bvf.hexVal (by decide) (by decide) (fun d hd => hexVal_digitChar false d hd) v.abs.val
  have nX := digitsVal_numeral 16 true Bvf.hexVal (by decide) (by decide) (fun d hd => hexVal_digitChar true d hd) v.abs.val
  refine ⟨?_, ?_, ?_⟩
  · rw [hd.1]
    obtain ⟨r, e, hi, ha, _⟩ := ((C15_from_binary .d (BV.numeral 2 false v.abs.val) trivial).2 trivial).2 nb.1
    exact ⟨r, e, hi, by rw [ha]; exact nb.2⟩
  · rw [hd.2.1]
    obtain ⟨r, e, hi, ha, _⟩ := ((C15_from_hex .d (BV.numeral 16 false v.abs.val) trivial).2 trivial).2 nx.1
    exact ⟨r, e, hi, by rw [ha]; exact nx.2⟩
  · rw [hd.2.2]
    obtain ⟨r, e, hi, ha, _⟩ := ((C15_from_hex .a (BV.numeral 16 true v.abs.val) trivial).2 trivial).2 nX.1
    exact ⟨r, e, hi, by rw [ha]; exact nX.2⟩

end Bva
