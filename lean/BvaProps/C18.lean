import BvaProps.C07
/-!
# C18 — capacity management never changes the value; dynamic/auto never run out of room
-/
namespace Bva

/-- at every point `len ≤ capacity` (part of the storage invariant, which every operation preserves) -/
theorem C18_len_le_capacity (v : Vec) (hv : v.Inv) : v.len ≤ v.capBits := by
  cases v with
  | f w s => exact hv.2.1
  | d s => exact hv.1
  | a c => exact Bv.len_le_capacity c hv.bvinv

/-- `with_capacity(c)` on the dynamic and auto types: an empty vector with capacity ≥ `c` -/
theorem C18_with_capacity (c : Nat) :
    (∃ r, Api.withCapacity .d c = .ok r ∧ r.Inv ∧ r.abs = BV.zeros 0 ∧ c ≤ r.capBits) ∧
    (∃ r, Api.withCapacity .a c = .ok r ∧ r.Inv ∧ r.abs = BV.zeros 0 ∧ c ≤ r.capBits) := by
  constructor
  · have r := Bvd.withCapacity_refines c
    exact ⟨.d (Bvd.withCapacity c), rfl, r.1, r.2.1, r.2.2.2⟩
  · have r := Bv.withCapacity_refines c
    exact ⟨.a (Bv.withCapacity c), rfl, Vec.Inv.of_bvinv r.1, r.2.1, r.2.2⟩

/-- `reserve(k)`: length and bits unchanged, capacity ≥ `len + k` (a no-op on fixed vectors, which have no such method) -/
theorem C18_reserve (v : Vec) (hv : v.Inv) (k : Nat) :
    (Api.reserve v k).Inv ∧ (Api.reserve v k).abs = v.abs ∧
    (match v with | .f _ _ => True | _ => v.len + k ≤ (Api.reserve v k).capBits) := by
  cases v with
  | f w s => exact ⟨hv, rfl, trivial⟩
  | d s => have r := Bvd.reserve_refines s k hv; exact ⟨r.1, r.2.1, r.2.2.1⟩
  | a c => have r := Bv.reserve_refines c k hv.bvinv; exact ⟨Vec.Inv.of_bvinv r.1, r.2.1, r.2.2⟩

/-- `shrink_to_fit()`: length and bits unchanged; no more capacity than a freshly constructed vector of that length -/
theorem C18_shrink_to_fit (v : Vec) (hv : v.Inv) :
    (Api.shrinkToFit v).Inv ∧ (Api.shrinkToFit v).abs = v.abs ∧
    (match v with
      | .f _ _ => True
      | .d _ => (Api.shrinkToFit v).capBits = (Vec.d (Bvd.zeros v.len)).capBits
      | .a _ => (Api.shrinkToFit v).capBits = (Vec.a (Bv.zeros v.len)).capBits) := by
  cases v with
  | f w s => exact ⟨hv, rfl, trivial⟩
  | d s =>
    have r := Bvd.shrinkToFit_refines s hv
    refine ⟨r.1, r.2.1, ?_⟩
    show (Bvd.shrinkToFit s).data.size * 64 = (Bvd.zeros s.length).data.size * 64
    rw [r.2.2, (Bvd.zeros_refines s.length).2.2]
  | a c => have r := Bv.shrinkToFit_refines c hv.bvinv; exact ⟨Vec.Inv.of_bvinv r.1, r.2.1, r.2.2⟩

/-- the dynamic and auto types never fail or panic for lack of capacity: every edit, of any size, succeeds
with the L0 result (the auto type switching between inline and heap storage is invisible in `abs`) -/
theorem C18_never_out_of_room (v x : Vec) (hv : v.Inv) (hx : x.Inv)
    (hdyn : match v with | .f _ _ => False | _ => True) (b : Bool) (n i : Nat) (hi : i ≤ v.len) (bs : List Bool) :
    (∃ r, Api.push v b = .ok r ∧ r.Inv ∧ r.abs = v.abs.push b) ∧
    (∃ r, Api.resize v n b = .ok r ∧ r.Inv ∧ r.abs = v.abs.resize n b) ∧
    (∃ r, Api.signExtend v n = .ok r ∧ r.Inv ∧ r.abs = v.abs.signExtend n) ∧
    (∃ r, Api.append v x.any = .ok r ∧ r.Inv ∧ r.abs = v.abs.append x.abs) ∧
    (∃ r, Api.prepend v x.any = .ok r ∧ r.Inv ∧ r.abs = v.abs.prepend x.abs) ∧
    (∃ r, Api.insert v i x.any = .ok r ∧ r.Inv ∧ r.abs = v.abs.insert i x.abs) ∧
    (∃ r, Api.extend v bs = .ok r ∧ r.Inv ∧ r.abs = v.abs.extend bs) := by
  have hfit : ∀ n, v.fits n := by
    intro n
    cases v with
    | f w s => exact hdyn.elim
    | d s => trivial
    | a c => trivial
  have k : ∀ (res : Res Vec) (spec : BV), EditOk v res spec → ∃ r : Vec, res = Res.ok r ∧ r.Inv ∧ r.abs = spec := by
    intro res spec h
    obtain ⟨r, e, hr, ha, _⟩ := h.1 (hfit _)
    exact ⟨r, e, hr, ha⟩
  exact ⟨k _ _ (C07_push v hv b), k _ _ (C07_resize v hv n b), k _ _ (C07_sign_extend v hv n),
    k _ _ (C07_append v x hv hx), k _ _ (C07_prepend v x hv hx), k _ _ (C07_insert v x hv hx i hi),
    k _ _ (C07_extend v hv bs)⟩

end Bva
