import BvaProofs.Iter
import BvaProofs.Get
/-!
# C17 — bit iterators behave like a slice iterator over the bits

`Api.iterRun v rev calls` is the L1 model of `v.iter()` (or `v.iter().rev()`, `(&v).into_iter()`)
driven through any list of `next / next_back / nth n / nth_back n / size_hint / count / last`
with any `n : Nat`; `sliceRun rev bits calls` is `std::slice::Iter` over the list of bits.
-/
namespace Bva

/-- For every vector (any implementation, any word width), every call sequence and both directions,
the iterator returns exactly what the slice iterator over `bits` returns. -/
theorem C17_refines (v : Vec) (hw : v.WPos) (rev : Bool) (calls : List IterCall) :
    Api.iterRun v rev calls = sliceRun rev v.abs.bits calls := by
  unfold Api.iterRun IterSt.new
  rw [run_refines _ _ _ _ (Nat.zero_le _)]
  congr 1
  simp only [seg, BV.bits, Nat.sub_zero, List.range_eq_range']
  have hl : v.abs.len = v.len := by cases v <;> rfl
  rw [hl]
  apply List.map_congr_left
  intro i _
  exact Api.get_eq_bit v hw i

/-- No `usize` computed by the iterator can overflow: after any call the range stays inside
`0 ..= len` (so `start + (n+1)` / `stop - (n+1)` are only evaluated when they stay in range). -/
theorem C17_no_overflow (get : Nat → Bool) (s : IterSt) (h : s.start ≤ s.stop) (c : IterCall) :
    (IterSt.step get s c).1.start ≤ (IterSt.step get s c).1.stop ∧
    (IterSt.step get s c).1.stop ≤ s.stop := by
  obtain ⟨h1, h2, _, _⟩ := step_refines get s h c
  exact ⟨h1, h2⟩

/-- Once exhausted, every further call keeps returning `None` / 0. -/
theorem C17_exhausted_stays (get : Nat → Bool) (n : Nat) (c : IterCall) :
    (IterSt.step get ⟨n, n⟩ c).1 = ⟨n, n⟩ ∧
    ((IterSt.step get ⟨n, n⟩ c).2 = .bit none ∨ (IterSt.step get ⟨n, n⟩ c).2 = .num 0) := by
  cases c <;> simp [IterSt.step]

/-- non-vacuity: a concrete 5-bit vector, a concrete call sequence -/
example : Api.iterRun (.f 8 ⟨#[0x15#8], 5⟩) false [.next, .nth 1, .nextBack, .nth (2^64 - 1), .next]
    = [.bit (some true), .bit (some true), .bit (some true), .bit none, .bit none] := by decide

end Bva
